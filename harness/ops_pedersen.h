/* Generator / Pedersen-commitment ops (property C08).  Wire formats: coq/Model/ApiPedersen.v.
 * Canonical forms: a generator object is its 64 data bytes (x32||y32); a commitment object is
 * exchanged as x32||y32 of the point it holds (converted with ge_set_xy + commitment_save, and back
 * with commitment_load). */
#ifndef VERIF_OPS_PEDERSEN_H
#define VERIF_OPS_PEDERSEN_H

static void gen_from_canon(secp256k1_generator *g, const unsigned char *c64) { memcpy(g->data, c64, 64); }
static void out_gen(const secp256k1_generator *g) { out_bytes(g->data, 64); }
static void commit_from_canon(secp256k1_pedersen_commitment *c, const unsigned char *c64) {
    secp256k1_fe x, y; secp256k1_ge ge;
    secp256k1_fe_set_b32_mod(&x, c64); secp256k1_fe_set_b32_mod(&y, c64 + 32);
    secp256k1_fe_normalize_var(&x); secp256k1_fe_normalize_var(&y);
    secp256k1_ge_set_xy(&ge, &x, &y);
    secp256k1_pedersen_commitment_save(c, &ge);
}
static void commit_to_canon(unsigned char *c64, const secp256k1_pedersen_commitment *c) {
    secp256k1_ge ge;
    secp256k1_pedersen_commitment_load(&ge, c);
    secp256k1_fe_normalize_var(&ge.x); secp256k1_fe_normalize_var(&ge.y);
    secp256k1_fe_get_b32(c64, &ge.x); secp256k1_fe_get_b32(c64 + 32, &ge.y);
}
static void out_commit(const secp256k1_pedersen_commitment *c) { unsigned char b[64]; commit_to_canon(b, c); out_bytes(b, 64); }
/* exact-size heap copy of argument k (so that ASan sees over-reads of a parser) */
static unsigned char *heap_copy(int k, size_t want) {
    size_t n = L(k); unsigned char *p = malloc(n ? n : 1);
    (void)want; if (n) memcpy(p, B(k), n); return p;
}

static void op_generator_h(void) { out_gen(secp256k1_generator_h); }
static void op_generator_parse(void) {
    secp256k1_generator g; unsigned char *in; int ret;
    if (L(0) != 33) { out_int(-98); return; }
    in = heap_copy(0, 33); memset(&g, 0xAA, sizeof(g));
    ret = secp256k1_generator_parse(CTX, &g, in);
    out_int(ret); if (ret) out_gen(&g);      /* *gen is unspecified on failure */
    free(in);
}
static void op_generator_serialize(void) {
    secp256k1_generator g; unsigned char out[33]; int ret;
    gen_from_canon(&g, BN(0, 64)); memset(out, 0x55, 33);
    ret = secp256k1_generator_serialize(CTX, out, &g);
    out_int(ret); out_bytes(out, 33);
}
static void op_generator_generate(void) {
    secp256k1_generator g; int ret; memset(&g, 0xAA, sizeof(g));
    ret = secp256k1_generator_generate(CTX, &g, BN(0, 32));
    out_int(ret); if (ret) out_gen(&g);
}
static void op_generator_generate_blinded(void) {
    secp256k1_generator g; int ret; memset(&g, 0xAA, sizeof(g));
    ret = secp256k1_generator_generate_blinded(CTX, &g, BN(0, 32), BN(1, 32));
    out_int(ret); if (ret) out_gen(&g);      /* on blind >= n the object is written but unspecified */
}
static void op_pedersen_commitment_parse(void) {
    secp256k1_pedersen_commitment c; unsigned char *in; int ret;
    if (L(0) != 33) { out_int(-98); return; }
    in = heap_copy(0, 33); memset(&c, 0xAA, sizeof(c));
    ret = secp256k1_pedersen_commitment_parse(CTX, &c, in);
    out_int(ret); if (ret) out_commit(&c);
    free(in);
}
static void op_pedersen_commitment_serialize(void) {
    secp256k1_pedersen_commitment c; unsigned char out[33]; int ret;
    commit_from_canon(&c, BN(0, 64)); memset(out, 0x55, 33);
    ret = secp256k1_pedersen_commitment_serialize(CTX, out, &c);
    out_int(ret); out_bytes(out, 33);
}
static void op_pedersen_commit(void) {
    secp256k1_pedersen_commitment c; secp256k1_generator g; int ret;
    gen_from_canon(&g, BN(2, 64)); memset(&c, 0xAA, sizeof(c));
    ret = secp256k1_pedersen_commit(CTX, &c, BN(0, 32), (uint64_t)U(1), &g);
    out_int(ret); if (ret) out_commit(&c);   /* *commit untouched (unspecified) on failure */
}
static void op_pedersen_blind_sum(void) {
    size_t n = L(0) / 32, i; const unsigned char **pp = malloc((n + 1) * sizeof(*pp));
    unsigned char *copy = malloc(32 * n + 1); unsigned char out[32]; int ret;
    memcpy(copy, B(0), 32 * n); memset(out, 0x55, 32);
    for (i = 0; i < n; i++) pp[i] = copy + 32 * i;
    ret = secp256k1_pedersen_blind_sum(CTX, out, pp, n, (size_t)U(1));
    out_int(ret); if (ret) out_bytes(out, 32);
    free(pp); free(copy);
}
static void op_pedersen_verify_tally(void) {
    size_t np = L(0) / 64, nn = L(1) / 64, i; int ret;
    secp256k1_pedersen_commitment *cs = malloc((np + nn + 1) * sizeof(*cs));
    const secp256k1_pedersen_commitment **pp = malloc((np + nn + 1) * sizeof(*pp));
    for (i = 0; i < np; i++) { commit_from_canon(&cs[i], B(0) + 64 * i); pp[i] = &cs[i]; }
    for (i = 0; i < nn; i++) { commit_from_canon(&cs[np + i], B(1) + 64 * i); pp[np + i] = &cs[np + i]; }
    ret = secp256k1_pedersen_verify_tally(CTX, np ? pp : NULL, np, nn ? pp + np : NULL, nn);
    out_int(ret); free(cs); free(pp);
}
static void op_pedersen_blind_generator_blind_sum(void) {
    size_t n = (size_t)U(3), ni = (size_t)U(4), i, j; int ret;
    uint64_t *vals; unsigned char *gb, *bf; const unsigned char **gbp; unsigned char **bfp;
    if (n > 4096 || L(0) != 8 * n || L(1) != 32 * n || L(2) != 32 * n) { out_int(-98); return; }
    vals = malloc((n + 1) * sizeof(*vals)); gb = malloc(32 * n + 1); bf = malloc(32 * n + 1);
    gbp = malloc((n + 1) * sizeof(*gbp)); bfp = malloc((n + 1) * sizeof(*bfp));
    memcpy(gb, B(1), 32 * n); memcpy(bf, B(2), 32 * n);
    for (i = 0; i < n; i++) {
        vals[i] = 0; for (j = 0; j < 8; j++) vals[i] = (vals[i] << 8) | B(0)[8 * i + j];
        gbp[i] = gb + 32 * i; bfp[i] = bf + 32 * i;
    }
    ret = secp256k1_pedersen_blind_generator_blind_sum(CTX, vals, gbp, bfp, n, ni);
    out_int(ret); if (ret && n) out_bytes(bfp[n - 1], 32);
    /* the other blinding factors must be untouched */
    if (n > 1 && memcmp(bf, B(2), 32 * (n - 1)) != 0) out_int(-1);
    free(vals); free(gb); free(bf); free(gbp); free(bfp);
}

static const op_entry ops_pedersen[] = {
    OP(generator_h), OP(generator_parse), OP(generator_serialize), OP(generator_generate), OP(generator_generate_blinded),
    OP(pedersen_commitment_parse), OP(pedersen_commitment_serialize), OP(pedersen_commit), OP(pedersen_blind_sum),
    OP(pedersen_verify_tally), OP(pedersen_blind_generator_blind_sum), {NULL, NULL} };
#endif
