/* Whitelist ops (property C16).  Arguments and results are documented by the Gallina functions of the
 * same names in coq/Model/Whitelist.v (dispatcher coq/Model/ApiWhitelist.v).
 *
 * Wire forms: a signature object is two fields  #n_keys  data  (data zero-extended to the C array;
 * printed truncated to the observable 32*(1+n_keys) bytes); key lists are concatenated pk objects
 * (x32||y32, see pk_from_canon). */

static secp256k1_whitelist_signature *wl_sig_from_wire(int k) {
    secp256k1_whitelist_signature *s = malloc(sizeof(*s)); memset(s, 0, sizeof(*s));
    s->n_keys = (size_t)U(k);
    memcpy(s->data, B(k + 1), L(k + 1) < sizeof(s->data) ? L(k + 1) : sizeof(s->data));
    return s;
}
static void wl_out_sig(const secp256k1_whitelist_signature *s) {
    out_u64(s->n_keys);
    if (s->n_keys > SECP256K1_WHITELIST_MAX_N_KEYS) { out_int(-77); return; }
    out_bytes(s->data, 32 * (1 + s->n_keys));
}
/* exact-size heap array of `want` pubkey objects: the ones given on the wire, zero objects beyond */
static secp256k1_pubkey *wl_keys_from_wire(int k, size_t want) {
    size_t n = L(k) / 64, i; secp256k1_pubkey *pk;
    if (want < n) want = n;
    pk = malloc(want ? want * sizeof(*pk) : 1);
    for (i = 0; i < want; i++) pk_from_canon(&pk[i], i < n ? B(k) + 64 * i : NULL);
    return pk;
}

static void op_whitelist_signature_parse(void) {
    /* input -> ret [sig]; exact-size heap copies (ASan); object after a failed parse unspecified */
    secp256k1_whitelist_signature *s = malloc(sizeof(*s)); unsigned char *copy = malloc(L(0) ? L(0) : 1); int ret;
    memset(s, 0xAA, sizeof(*s)); memcpy(copy, B(0), L(0));
    ret = secp256k1_whitelist_signature_parse(CTX, s, copy, L(0));
    out_int(ret); if (ret) wl_out_sig(s);
    free(copy); free(s);
}
static void op_whitelist_signature_serialize(void) {
    /* #outlen sig -> ret outlen' [bytes written] */
    secp256k1_whitelist_signature *s; size_t len = (size_t)U(0), len0 = len; unsigned char *out; int ret;
    if (U(1) > SECP256K1_WHITELIST_MAX_N_KEYS || len0 > 20000) { out_int(-98); return; }   /* not an object the API can produce */
    s = wl_sig_from_wire(1);
    out = malloc(len0 ? len0 : 1); memset(out, 0x55, len0);
    ret = secp256k1_whitelist_signature_serialize(CTX, out, &len, s);
    out_int(ret); out_u64(len); if (ret && len <= len0) out_bytes(out, len);
    free(out); free(s);
}
static void op_whitelist_signature_n_keys(void) {
    secp256k1_whitelist_signature *s = wl_sig_from_wire(0);
    out_u64(secp256k1_whitelist_signature_n_keys(s)); free(s);
}
static void op_whitelist_verify(void) {
    /* sig(2 fields) online offline #n_keys sub -> ret.  If a pubkey load fired the illegal callback the
     * library went on with an invalid group element: the return value is unspecified then (masked to 0),
     * the callback count is still compared. */
    secp256k1_whitelist_signature *s = wl_sig_from_wire(0); size_t nk = (size_t)U(4), want; int ret;
    secp256k1_pubkey *on, *off, sub;
    if (nk > 100000) { out_int(-98); free(s); return; }
    want = nk; if (s->n_keys <= 256 && s->n_keys > want) want = s->n_keys;
    on = wl_keys_from_wire(2, want); off = wl_keys_from_wire(3, want); pk_from_canon(&sub, BN(5, 64));
    ret = secp256k1_whitelist_verify(CTX, s, on, off, nk, &sub);
    out_int(g_ill ? 0 : ret);
    free(on); free(off); free(s);
}
static void op_whitelist_parse_verify(void) {
    /* serialized_sig online offline #n_keys sub -> ret_parse [ret_verify]; W must be a loadable object */
    secp256k1_whitelist_signature *s = malloc(sizeof(*s)); unsigned char *copy = malloc(L(0) ? L(0) : 1);
    size_t nk = (size_t)U(3); int ret; secp256k1_pubkey *on, *off, sub;
    if (nk > 100000 || all_zero(BN(4, 64), 32)) { out_int(-98); free(s); free(copy); return; }
    memset(s, 0xAA, sizeof(*s)); memcpy(copy, B(0), L(0));
    ret = secp256k1_whitelist_signature_parse(CTX, s, copy, L(0));
    out_int(ret);
    if (ret) {
        size_t want = nk > s->n_keys ? nk : s->n_keys;
        on = wl_keys_from_wire(1, want); off = wl_keys_from_wire(2, want); pk_from_canon(&sub, BN(4, 64));
        ret = secp256k1_whitelist_verify(CTX, s, on, off, nk, &sub);
        out_int(g_ill ? 0 : ret);
        free(on); free(off);
    }
    free(copy); free(s);
}
static void op_whitelist_sign(void) {
    /* online offline #n_keys sub online_seckey32 summed_seckey32 #index -> ret [sig]
     * (the object after a failed call is partly written: unspecified, not printed; same masking of the
     * illegal-callback path as in verify) */
    secp256k1_whitelist_signature *s = malloc(sizeof(*s)); size_t nk = (size_t)U(2); int ret;
    secp256k1_pubkey *on, *off, sub;
    if (nk > 100000) { out_int(-98); free(s); return; }
    memset(s, 0xAA, sizeof(*s));
    on = wl_keys_from_wire(0, nk); off = wl_keys_from_wire(1, nk); pk_from_canon(&sub, BN(3, 64));
    ret = secp256k1_whitelist_sign(CTX, s, on, off, nk, &sub, BN(4, 32), BN(5, 32), (size_t)U(6));
    if (g_ill) ret = 0;
    out_int(ret); if (ret) wl_out_sig(s);
    free(on); free(off); free(s);
}

static const op_entry ops_whitelist[] = {
    OP(whitelist_signature_parse), OP(whitelist_signature_serialize), OP(whitelist_signature_n_keys),
    OP(whitelist_verify), OP(whitelist_parse_verify), OP(whitelist_sign), {NULL, NULL} };
