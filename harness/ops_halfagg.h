/* Half-aggregation ops (property C17).  Arguments and results are documented in
 * coq/Model/ApiHalfagg.v; the Gallina functions are in coq/Model/Halfagg.v.
 * Every array handed to the library is an exact-size heap copy, so ASan sees over-reads. */

static unsigned char *ha_copy(int k) {   /* exact-size heap copy of argument k (NULL for '-') */
    unsigned char *p;
    if (is_none(k)) return NULL;
    p = malloc(L(k) ? L(k) : 1); memcpy(p, B(k), L(k)); return p;
}
/* the in/out aggsig buffer: exact size under ASan (which then reports any write past it); otherwise followed
 * by a 64-byte canary that is checked after the call, so that a write past *aggsig_len is reported as #-77
 * instead of corrupting the heap of the driver */
#if defined(__SANITIZE_ADDRESS__)
#define HA_SLACK 0
#else
#define HA_SLACK 64
#endif
static unsigned char *ha_outbuf(int k) {
    unsigned char *p;
    if (is_none(k)) return NULL;
    p = malloc(L(k) + HA_SLACK + 1); memcpy(p, B(k), L(k)); memset(p + L(k), 0xC3, HA_SLACK); return p;
}
static int ha_canary_ok(const unsigned char *p, int k) {
    size_t i; if (!p) return 1;
    for (i = 0; i < HA_SLACK; i++) if (p[L(k) + i] != 0xC3) return 0;
    return 1;
}
static secp256k1_xonly_pubkey *ha_pks(int k) {
    size_t n, i; secp256k1_xonly_pubkey *p;
    if (is_none(k)) return NULL;
    n = L(k) / 64; p = malloc((n ? n : 1) * sizeof(*p));
    for (i = 0; i < n; i++) pk_from_canon((secp256k1_pubkey *)&p[i], B(k) + 64 * i);
    return p;
}

/* aggsig|- #len|- pks|- msgs|- sigs|- #n_before #n_new  ->  ret, *aggsig_len (or -), buffer (or -) */
static void ha_inc(size_t nb, size_t nn) {
    size_t n = nb + nn, len = (size_t)U(1), *plen = is_none(1) ? NULL : &len;
    unsigned char *agg, *msgs, *sigs; secp256k1_xonly_pubkey *pks; int ret, reads;
    reads = !is_none(0) && !is_none(1) && n >= nb && !((len / 32) <= 0 || ((len / 32) - 1) < n);
    if (!is_none(0) && !is_none(1) && L(0) < len) { out_int(-98); return; }
    if (reads && ((!is_none(2) && L(2) < 64 * n) || (!is_none(3) && L(3) < 32 * n) || (!is_none(4) && L(4) < 64 * nn))) { out_int(-98); return; }
    agg = ha_outbuf(0); pks = ha_pks(2); msgs = ha_copy(3); sigs = ha_copy(4);
    ret = secp256k1_schnorrsig_inc_aggregate(CTX, agg, plen, pks, msgs, sigs, nb, nn);
    out_int(ret);
    if (!ha_canary_ok(agg, 0)) out_int(-77);
    if (plen) out_u64(len); else out_none();
    if (agg) out_bytes(agg, L(0)); else out_none();
    free(agg); free(pks); free(msgs); free(sigs);
}
static void op_schnorrsig_inc_aggregate(void) {
    ha_inc((size_t)U(5), (size_t)U(6));
}
/* same arguments with a single count: goes through the one-shot entry point */
static void op_schnorrsig_aggregate(void) {
    size_t n = (size_t)U(5), len = (size_t)U(1), *plen = is_none(1) ? NULL : &len;
    unsigned char *agg, *msgs, *sigs; secp256k1_xonly_pubkey *pks; int ret, reads;
    reads = !is_none(0) && !is_none(1) && !((len / 32) <= 0 || ((len / 32) - 1) < n);
    if (!is_none(0) && !is_none(1) && L(0) < len) { out_int(-98); return; }
    if (reads && ((!is_none(2) && L(2) < 64 * n) || (!is_none(3) && L(3) < 32 * n) || (!is_none(4) && L(4) < 64 * n))) { out_int(-98); return; }
    agg = ha_outbuf(0); pks = ha_pks(2); msgs = ha_copy(3); sigs = ha_copy(4);
    ret = secp256k1_schnorrsig_aggregate(CTX, agg, plen, pks, msgs, sigs, n);
    out_int(ret);
    if (!ha_canary_ok(agg, 0)) out_int(-77);
    if (plen) out_u64(len); else out_none();
    if (agg) out_bytes(agg, L(0)); else out_none();
    free(agg); free(pks); free(msgs); free(sigs);
}
/* pks|- msgs|- #n aggsig|-  (aggsig_len = length of the aggsig argument)  ->  ret */
static void op_schnorrsig_aggverify(void) {
    size_t n = (size_t)U(2), len = L(3); int reads, ret;
    unsigned char *agg, *msgs; secp256k1_xonly_pubkey *pks;
    reads = !is_none(3) && !((len / 32) <= 0 || ((len / 32) - 1) != n || (len % 32) != 0);
    if (reads && ((!is_none(0) && L(0) < 64 * n) || (!is_none(1) && L(1) < 32 * n))) { out_int(-98); return; }
    agg = ha_copy(3); pks = ha_pks(0); msgs = ha_copy(1);
    ret = secp256k1_schnorrsig_aggverify(CTX, pks, msgs, n, agg, len);
    out_int(ret);
    free(agg); free(pks); free(msgs);
}

static const op_entry ops_halfagg[] = { OP(schnorrsig_inc_aggregate), OP(schnorrsig_aggregate), OP(schnorrsig_aggverify), {NULL, NULL} };
