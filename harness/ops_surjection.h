/* Surjection-proof ops (property C11).  Arguments and results are documented by the Gallina functions
 * of the same names in coq/Model/Surjection.v (dispatcher coq/Model/ApiSurjection.v).
 *
 * Wire forms: a proof object is three fields  #n_inputs  bitmap  data  (bitmap/data shorter than the C
 * arrays are zero-extended; printed truncated to the observable part: ceil(n/8) bitmap bytes and
 * 32*(1+popcount) data bytes); fixed asset tags: concatenated 32-byte strings; ephemeral tags
 * (secp256k1_generator objects): concatenated x32||y32 strings. */

/* generator object <- x32||y32 (through the library's own save routine) */
static void sj_gen_from_canon(secp256k1_generator *g, const unsigned char *c64) {
    secp256k1_fe x, y; secp256k1_ge ge;
    secp256k1_fe_set_b32_mod(&x, c64); secp256k1_fe_set_b32_mod(&y, c64 + 32);
    secp256k1_ge_set_xy(&ge, &x, &y);
    secp256k1_generator_save(g, &ge);
}
/* exact-size heap array of n generators (n may be 0: a valid non-NULL pointer is still returned) */
static secp256k1_generator *sj_gens_from_wire(int k, size_t *n) {
    size_t i; secp256k1_generator *g;
    *n = L(k) / 64;
    g = malloc(*n ? *n * sizeof(*g) : 1);
    for (i = 0; i < *n; i++) sj_gen_from_canon(&g[i], B(k) + 64 * i);
    return g;
}
static size_t sj_popcount(const unsigned char *b, size_t n) {
    size_t i, r = 0; int j; for (i = 0; i < n; i++) for (j = 0; j < 8; j++) r += (b[i] >> j) & 1; return r;
}
/* proof object <- wire fields k, k+1, k+2; heap-allocated with the exact struct size; NULL if n_inputs > 256
 * (such an object cannot be produced through the API and the accessors would read past the bitmap) */
static secp256k1_surjectionproof *sj_proof_from_wire(int k) {
    secp256k1_surjectionproof *p;
    if (U(k) > SECP256K1_SURJECTIONPROOF_MAX_N_INPUTS) return NULL;
    p = malloc(sizeof(*p)); memset(p, 0, sizeof(*p));
    p->n_inputs = (size_t)U(k);
    memcpy(p->used_inputs, B(k + 1), L(k + 1) < sizeof(p->used_inputs) ? L(k + 1) : sizeof(p->used_inputs));
    memcpy(p->data, B(k + 2), L(k + 2) < sizeof(p->data) ? L(k + 2) : sizeof(p->data));
    return p;
}
static void sj_out_proof(const secp256k1_surjectionproof *p) {
    size_t bl = (p->n_inputs + 7) / 8, used;
    out_u64(p->n_inputs);
    if (bl > sizeof(p->used_inputs)) { out_int(-77); return; }   /* object outside its own invariant */
    used = sj_popcount(p->used_inputs, bl);
    out_bytes(p->used_inputs, bl);
    if (32 * (1 + used) > sizeof(p->data)) { out_int(-77); return; }
    out_bytes(p->data, 32 * (1 + used));
}

#define SJ_GUARD 4096
static void op_surjectionproof_parse(void) {
    /* input -> ret [proof].  The input is an exact-size heap block (ASan sees over-reads); the object is
     * followed by a guard area that must stay untouched: a write past the object is reported as #-77
     * instead of corrupting the harness.  The object after a failed parse is unspecified: not printed. */
    unsigned char *blk = malloc(sizeof(secp256k1_surjectionproof) + SJ_GUARD);
    secp256k1_surjectionproof *p = (secp256k1_surjectionproof *)blk;
    unsigned char *copy = malloc(L(0) ? L(0) : 1); int ret; size_t i, touched = 0;
    memset(blk, 0xAA, sizeof(*p) + SJ_GUARD); memcpy(copy, B(0), L(0));
    ret = secp256k1_surjectionproof_parse(CTX, p, copy, L(0));
    for (i = 0; i < SJ_GUARD; i++) touched += blk[sizeof(*p) + i] != 0xAA;
    out_int(ret); if (touched) out_int(-77); if (ret) sj_out_proof(p);
    free(copy); free(blk);
}
static void op_surjectionproof_serialize(void) {
    /* #outlen proof -> ret outlen' [bytes written] ; output buffer has exactly outlen bytes */
    secp256k1_surjectionproof *p = sj_proof_from_wire(1); size_t len = (size_t)U(0), len0 = len; unsigned char *out; int ret;
    if (!p || len0 > 20000) { out_int(-98); free(p); return; }
    out = malloc(len0 ? len0 : 1); memset(out, 0x55, len0);
    ret = secp256k1_surjectionproof_serialize(CTX, out, &len, p);
    out_int(ret); out_u64(len); if (ret && len <= len0) out_bytes(out, len);
    free(out); free(p);
}
static void op_surjectionproof_info(void) {
    secp256k1_surjectionproof *p = sj_proof_from_wire(0);
    if (!p) { out_int(-98); return; }
    out_u64(secp256k1_surjectionproof_n_total_inputs(CTX, p));
    out_u64(secp256k1_surjectionproof_n_used_inputs(CTX, p));
    out_u64(secp256k1_surjectionproof_serialized_size(CTX, p));
    free(p);
}
/* tags(32*k) #n_to_use out32 #n_max_iterations seed32 -> ret [input_index proof]
 * (on failure the object holds the last subset tried: unspecified, not printed) */
static void sj_initialize(int allocate) {
    size_t n = L(0) / 32, idx = (size_t)-1; int ret; long live0 = g_live_allocs, live1;
    secp256k1_fixed_asset_tag *tags, out;
    if (U(3) > 1000000) { out_int(-98); return; }   /* would loop for too long; generators never ask for it */
    tags = malloc(n ? n * sizeof(*tags) : 1); memcpy(tags, B(0), n * 32);
    memcpy(out.data, BN(2, 32), 32);
    live0 = g_live_allocs;
    if (!allocate) {
        secp256k1_surjectionproof *p = malloc(sizeof(*p)); memset(p, 0xAA, sizeof(*p));
        ret = secp256k1_surjectionproof_initialize(CTX, p, &idx, tags, n, (size_t)U(1), &out, (size_t)U(3), BN(4, 32));
        out_int(ret); if (ret) { out_u64(idx); sj_out_proof(p); }
        free(p);
    } else {
        secp256k1_surjectionproof *p = (secp256k1_surjectionproof *)tags;   /* any non-NULL value: must be overwritten */
        ret = secp256k1_surjectionproof_allocate_initialized(CTX, &p, &idx, tags, n, (size_t)U(1), &out, (size_t)U(3), BN(4, 32));
        live1 = g_live_allocs - live0;
        out_int(ret); out_int(live1);
        if (ret) { out_u64(idx); sj_out_proof(p); }
        else if (p != NULL) out_int(-77);            /* header: *proof_out_p is NULL on failure */
        secp256k1_surjectionproof_destroy(ret ? p : NULL);
        out_int(g_live_allocs - live0);              /* no leak: every allocation was given back */
    }
    free(tags);
}
static void op_surjectionproof_initialize(void) { sj_initialize(0); }
static void op_surjectionproof_allocate_initialized(void) { sj_initialize(1); }

static void op_surjectionproof_generate(void) {
    /* proof(3 fields) in_tags(64*k) out_tag(64) #input_index in_key32 out_key32 -> ret [proof]
     * (after a failed call the proof may or may not hold a new e0: unspecified, not printed) */
    secp256k1_surjectionproof *p = sj_proof_from_wire(0); size_t n; secp256k1_generator *in, out; int ret;
    if (!p) { out_int(-98); return; }
    in = sj_gens_from_wire(3, &n); sj_gen_from_canon(&out, BN(4, 64));
    ret = secp256k1_surjectionproof_generate(CTX, p, in, n, &out, (size_t)U(5), BN(6, 32), BN(7, 32));
    out_int(ret); if (ret) sj_out_proof(p);
    free(in); free(p);
}
static void op_surjectionproof_verify(void) {
    /* proof(3 fields) in_tags(64*k) out_tag(64) -> ret */
    secp256k1_surjectionproof *p = sj_proof_from_wire(0); size_t n; secp256k1_generator *in, out;
    if (!p) { out_int(-98); return; }
    in = sj_gens_from_wire(3, &n); sj_gen_from_canon(&out, BN(4, 64));
    out_int(secp256k1_surjectionproof_verify(CTX, p, in, n, &out));
    free(in); free(p);
}

static const op_entry ops_surjection[] = {
    OP(surjectionproof_parse), OP(surjectionproof_serialize), OP(surjectionproof_info),
    OP(surjectionproof_initialize), OP(surjectionproof_allocate_initialized),
    OP(surjectionproof_generate), OP(surjectionproof_verify), {NULL, NULL} };
