/* Core ops: keys, extrakeys, ECDSA (+recovery), Schnorr, DER, hashes.
 * Arguments and results are documented by the Gallina functions of the same names
 * (coq/Model/Keys.v, Der.v, Ecdsa.v, Schnorr.v; dispatcher coq/Model/ApiCore.v). */

static void op_ec_pubkey_parse(void) {
    secp256k1_pubkey pk; int ret;
    memset(&pk, 0xAA, sizeof(pk));
    ret = secp256k1_ec_pubkey_parse(CTX, &pk, B(0), L(0));
    out_int(ret); out_pk(&pk);
}
static void op_ec_pubkey_serialize(void) {
    /* #outlen pkobj #flags -> ret, outlen', output[outlen] (only when the length precondition held) */
    secp256k1_pubkey pk; unsigned char out[128]; size_t len = (size_t)I(0), len0 = len; int ret;
    pk_from_canon(&pk, BN(1, 64)); memset(out, 0x55, sizeof(out));
    if (len > sizeof(out)) { out_int(-98); return; }
    ret = secp256k1_ec_pubkey_serialize(CTX, out, &len, &pk, (unsigned int)I(2));
    out_int(ret); out_int((long long)len);
    if (len0 >= (((unsigned int)I(2) & SECP256K1_FLAGS_BIT_COMPRESSION) ? 33u : 65u)) out_bytes(out, len0);
}
static void op_xonly_pubkey_parse(void) {
    secp256k1_xonly_pubkey pk; int ret; memset(&pk, 0xAA, sizeof(pk));
    ret = secp256k1_xonly_pubkey_parse(CTX, &pk, BN(0, 32));
    out_int(ret); out_pk((secp256k1_pubkey *)&pk);
}
static void op_xonly_pubkey_serialize(void) {
    secp256k1_xonly_pubkey pk; unsigned char out[32]; int ret; memset(out, 0x55, 32);
    pk_from_canon((secp256k1_pubkey *)&pk, BN(0, 64));
    ret = secp256k1_xonly_pubkey_serialize(CTX, out, &pk);
    out_int(ret); out_bytes(out, 32);
}
static void op_ec_pubkey_create(void) {
    secp256k1_pubkey pk; int ret; memset(&pk, 0xAA, sizeof(pk));
    ret = secp256k1_ec_pubkey_create(CTX, &pk, BN(0, 32));
    out_int(ret); out_pk(&pk);
}
static void op_ec_seckey_verify(void) { out_int(secp256k1_ec_seckey_verify(CTX, BN(0, 32))); }
static void op_ec_seckey_negate(void) {
    unsigned char k[32]; int ret; memcpy(k, BN(0, 32), 32);
    ret = secp256k1_ec_seckey_negate(CTX, k); out_int(ret); out_bytes(k, 32);
}
static void op_ec_pubkey_negate(void) {
    secp256k1_pubkey pk; int ret; pk_from_canon(&pk, BN(0, 64));
    ret = secp256k1_ec_pubkey_negate(CTX, &pk); out_int(ret); out_pk(&pk);
}
static void op_ec_seckey_tweak_add(void) {
    unsigned char k[32]; int ret; memcpy(k, BN(0, 32), 32);
    ret = secp256k1_ec_seckey_tweak_add(CTX, k, BN(1, 32)); out_int(ret); out_bytes(k, 32);
}
static void op_ec_pubkey_tweak_add(void) {
    secp256k1_pubkey pk; int ret; pk_from_canon(&pk, BN(0, 64));
    ret = secp256k1_ec_pubkey_tweak_add(CTX, &pk, BN(1, 32)); out_int(ret); out_pk(&pk);
}
static void op_ec_seckey_tweak_mul(void) {
    unsigned char k[32]; int ret; memcpy(k, BN(0, 32), 32);
    ret = secp256k1_ec_seckey_tweak_mul(CTX, k, BN(1, 32)); out_int(ret); out_bytes(k, 32);
}
static void op_ec_pubkey_tweak_mul(void) {
    secp256k1_pubkey pk; int ret; pk_from_canon(&pk, BN(0, 64));
    ret = secp256k1_ec_pubkey_tweak_mul(CTX, &pk, BN(1, 32)); out_int(ret); out_pk(&pk);
}
static void op_ec_pubkey_combine(void) {
    size_t n = L(0) / 64, i; secp256k1_pubkey *pks = malloc((n + 1) * sizeof(*pks)); const secp256k1_pubkey **pp = malloc((n + 1) * sizeof(*pp));
    secp256k1_pubkey out; int ret; memset(&out, 0xAA, sizeof(out));
    for (i = 0; i < n; i++) { pk_from_canon(&pks[i], B(0) + 64 * i); pp[i] = &pks[i]; }
    ret = secp256k1_ec_pubkey_combine(CTX, &out, pp, n);
    out_int(ret); out_pk(&out); free(pks); free(pp);
}
static void op_ec_pubkey_cmp(void) {
    secp256k1_pubkey a, b; int r; pk_from_canon(&a, BN(0, 64)); pk_from_canon(&b, BN(1, 64));
    r = secp256k1_ec_pubkey_cmp(CTX, &a, &b); out_int(r < 0 ? -1 : (r > 0 ? 1 : 0));
}
static void op_ec_pubkey_sort(void) {
    size_t n = L(0) / 64, i; secp256k1_pubkey *pks = malloc((n + 1) * sizeof(*pks)); const secp256k1_pubkey **pp = malloc((n + 1) * sizeof(*pp));
    unsigned char *res = malloc(64 * n + 1); int ret;
    for (i = 0; i < n; i++) { pk_from_canon(&pks[i], B(0) + 64 * i); pp[i] = &pks[i]; }
    ret = secp256k1_ec_pubkey_sort(CTX, pp, n);
    for (i = 0; i < n; i++) pk_to_canon(res + 64 * i, pp[i]);
    out_int(ret); out_bytes(res, 64 * n); free(pks); free(pp); free(res);
}
static void op_xonly_pubkey_from_pubkey(void) {
    secp256k1_pubkey pk; secp256k1_xonly_pubkey x; int par = -1, ret; pk_from_canon(&pk, BN(0, 64));
    ret = secp256k1_xonly_pubkey_from_pubkey(CTX, &x, &par, &pk);
    out_int(ret); if (ret) { out_pk((secp256k1_pubkey *)&x); out_int(par); }
}
static void op_xonly_pubkey_tweak_add(void) {
    secp256k1_xonly_pubkey x; secp256k1_pubkey out; int ret; memset(&out, 0xAA, sizeof(out));
    pk_from_canon((secp256k1_pubkey *)&x, BN(0, 64));
    ret = secp256k1_xonly_pubkey_tweak_add(CTX, &out, &x, BN(1, 32)); out_int(ret); out_pk(&out);
}
static void op_xonly_pubkey_tweak_add_check(void) {
    secp256k1_xonly_pubkey x; pk_from_canon((secp256k1_pubkey *)&x, BN(2, 64));
    out_int(secp256k1_xonly_pubkey_tweak_add_check(CTX, BN(0, 32), (int)I(1), &x, BN(3, 32)));
}
static void op_keypair_create(void) {
    secp256k1_keypair kp; int ret; memset(&kp, 0xAA, sizeof(kp));
    ret = secp256k1_keypair_create(CTX, &kp, BN(0, 32)); out_int(ret); out_kp(&kp);
}
static void op_keypair_xonly_pub(void) {
    secp256k1_keypair kp; secp256k1_xonly_pubkey x; int par = -1, ret; kp_from_canon(&kp, BN(0, 96));
    memset(&x, 0xAA, sizeof(x));
    ret = secp256k1_keypair_xonly_pub(CTX, &x, &par, &kp);
    out_int(ret); out_pk((secp256k1_pubkey *)&x); if (ret) out_int(par);
}
static void op_keypair_xonly_tweak_add(void) {
    secp256k1_keypair kp; int ret; kp_from_canon(&kp, BN(0, 96));
    ret = secp256k1_keypair_xonly_tweak_add(CTX, &kp, BN(1, 32)); out_int(ret); out_kp(&kp);
}
/* ---- signatures ---- */
static void op_ecdsa_signature_parse_der(void) {
    secp256k1_ecdsa_signature sig; int ret; unsigned char *copy = malloc(L(0) + 1);
    memset(&sig, 0xAA, sizeof(sig)); memcpy(copy, B(0), L(0));   /* exact-size heap copy: ASan sees overreads */
    ret = secp256k1_ecdsa_signature_parse_der(CTX, &sig, copy, L(0));
    out_int(ret);
    if (!ret && !all_zero(sig.data, 64)) out_int(-77);   /* failed parse must leave an all-zero object */
    out_sig(&sig); free(copy);
}
static void op_ecdsa_signature_parse_compact(void) {
    secp256k1_ecdsa_signature sig; int ret; memset(&sig, 0xAA, sizeof(sig));
    ret = secp256k1_ecdsa_signature_parse_compact(CTX, &sig, BN(0, 64));
    out_int(ret);
    if (!ret && !all_zero(sig.data, 64)) out_int(-77);
    out_sig(&sig);
}
static void op_ecdsa_signature_serialize_der(void) {
    secp256k1_ecdsa_signature sig; unsigned char out[256]; size_t len = (size_t)I(0); int ret;
    if (len > sizeof(out)) { out_int(-98); return; }
    sig_from_canon(&sig, BN(1, 64));
    ret = secp256k1_ecdsa_signature_serialize_der(CTX, out, &len, &sig);
    out_int(ret); out_int((long long)len); out_bytes(out, ret ? len : 0);
}
static void op_ecdsa_signature_serialize_compact(void) {
    secp256k1_ecdsa_signature sig; unsigned char out[64]; int ret; sig_from_canon(&sig, BN(0, 64));
    ret = secp256k1_ecdsa_signature_serialize_compact(CTX, out, &sig); out_int(ret); out_bytes(out, 64);
}
static void op_ecdsa_signature_normalize(void) {
    secp256k1_ecdsa_signature sig, o; int ret; sig_from_canon(&sig, BN(0, 64));
    ret = secp256k1_ecdsa_signature_normalize(CTX, &o, &sig); out_int(ret); out_sig(&o);
}
static void op_ecdsa_verify(void) {
    secp256k1_ecdsa_signature sig; secp256k1_pubkey pk; sig_from_canon(&sig, BN(0, 64)); pk_from_canon(&pk, BN(2, 64));
    out_int(secp256k1_ecdsa_verify(CTX, &sig, BN(1, 32), &pk));
}
/* test nonce functions (see Model/Ecdsa.v nonce_fn) */
static int test_nonce_add(unsigned char *nonce32, const unsigned char *msg32, const unsigned char *key32, const unsigned char *algo16, void *data, unsigned int counter) {
    /* nonce = data32 at the first attempt, the retry counter itself afterwards */
    const unsigned char *d = data; (void)msg32; (void)key32; (void)algo16;
    if (counter == 0) memcpy(nonce32, d, 32);
    else { memset(nonce32, 0, 32); nonce32[31] = (unsigned char)counter; nonce32[30] = (unsigned char)(counter >> 8); }
    return 1;
}
static int test_nonce_add_fail(unsigned char *nonce32, const unsigned char *msg32, const unsigned char *key32, const unsigned char *algo16, void *data, unsigned int counter) {
    const unsigned char *d = data;
    if (counter == d[32]) return 0;
    return test_nonce_add(nonce32, msg32, key32, algo16, data, counter);
}
static int test_nonce_zero_then_rfc6979(unsigned char *nonce32, const unsigned char *msg32, const unsigned char *key32, const unsigned char *algo16, void *data, unsigned int counter) {
    /* an invalid (all-zero) nonce at the first attempt, the library's RFC 6979 function with the same counter afterwards */
    if (counter == 0) { memset(nonce32, 0, 32); return 1; }
    return secp256k1_nonce_function_rfc6979(nonce32, msg32, key32, algo16, data, counter);
}
static secp256k1_nonce_function nonce_kind(long long kind) {
    return kind == 0 ? NULL : kind == 1 ? secp256k1_nonce_function_rfc6979 : kind == 2 ? test_nonce_add : kind == 3 ? test_nonce_add_fail : test_nonce_zero_then_rfc6979;
}
static void op_nonce_function_rfc6979(void) {
    /* msg32 key32 algo16|- data32|- #counter : the exported nonce function called directly */
    unsigned char out[32], algo[16], data[32]; int ret;
    if (!is_none(2)) memcpy(algo, BN(2, 16), 16); if (!is_none(3)) memcpy(data, BN(3, 32), 32); memset(out, 0x55, 32);
    ret = secp256k1_nonce_function_rfc6979(out, BN(0, 32), BN(1, 32), is_none(2) ? NULL : algo, is_none(3) ? NULL : data, (unsigned int)I(4));
    out_int(ret); if (ret) out_bytes(out, 32);
}
static void op_ecdsa_sign(void) {
    /* #kind msg32 seckey32 data|- */
    secp256k1_ecdsa_signature sig; int ret; unsigned char data[33] = {0}; memset(&sig, 0xAA, sizeof(sig));
    if (!is_none(3)) memcpy(data, B(3), L(3) < 33 ? L(3) : 33);
    if (I(0) >= 2 && is_none(3)) data[32] = 255;
    ret = secp256k1_ecdsa_sign(CTX, &sig, BN(1, 32), BN(2, 32), nonce_kind(I(0)), (is_none(3) && (I(0) < 2 || I(0) == 4)) ? NULL : data);
    out_int(ret);
    if (!ret && !all_zero(sig.data, 64)) out_int(-77);
    out_sig(&sig);
}
static void op_ecdsa_sign_alias(void) {
    /* #kind msg32 seckey32 data|- #where : like ecdsa_sign, but one input lives INSIDE the output object (where = 1 message at
       sig.data, 2 secret key at sig.data+32, 3 extra data at sig.data+16); the result must not depend on that */
    secp256k1_ecdsa_signature sig; int ret; unsigned char data[33] = {0}; long long where = I(4); const unsigned char *m = BN(1, 32), *k = BN(2, 32); void *nd;
    memset(&sig, 0xAA, sizeof(sig));
    if (!is_none(3)) memcpy(data, B(3), L(3) < 33 ? L(3) : 33);
    if (I(0) >= 2 && is_none(3)) data[32] = 255;
    nd = (is_none(3) && (I(0) < 2 || I(0) == 4)) ? NULL : data;
    if (where == 1) { memcpy(sig.data, m, 32); m = sig.data; }
    else if (where == 2) { memcpy(sig.data + 32, k, 32); k = sig.data + 32; }
    else if (where == 3 && nd != NULL && I(0) < 2) { memcpy(sig.data + 16, data, 32); nd = sig.data + 16; }
    ret = secp256k1_ecdsa_sign(CTX, &sig, m, k, nonce_kind(I(0)), nd);
    out_int(ret);
    if (!ret && !all_zero(sig.data, 64)) out_int(-77);
    out_sig(&sig);
}
static void op_ecdsa_sign_recoverable(void) {
    secp256k1_ecdsa_recoverable_signature sig; int ret, recid = -1; unsigned char data[33] = {0}, c[65]; memset(&sig, 0xAA, sizeof(sig));
    if (!is_none(3)) memcpy(data, B(3), L(3) < 33 ? L(3) : 33);
    if (I(0) >= 2 && is_none(3)) data[32] = 255;
    ret = secp256k1_ecdsa_sign_recoverable(CTX, &sig, BN(1, 32), BN(2, 32), nonce_kind(I(0)), (is_none(3) && (I(0) < 2 || I(0) == 4)) ? NULL : data);
    out_int(ret);
    secp256k1_ecdsa_recoverable_signature_serialize_compact(CTX, c, &recid, &sig); c[64] = (unsigned char)recid;
    out_bytes(c, 65);
}
static void rsig_from_canon(secp256k1_ecdsa_recoverable_signature *sig, const unsigned char *c65) {
    secp256k1_scalar r, s; secp256k1_scalar_set_b32(&r, c65, NULL); secp256k1_scalar_set_b32(&s, c65 + 32, NULL);
    secp256k1_ecdsa_recoverable_signature_save(sig, &r, &s, c65[64]);
}
static void op_recoverable_parse_compact(void) {
    secp256k1_ecdsa_recoverable_signature sig; int ret, recid = 0; unsigned char c[65]; memset(&sig, 0, sizeof(sig));
    ret = secp256k1_ecdsa_recoverable_signature_parse_compact(CTX, &sig, BN(0, 64), (int)I(1));
    out_int(ret);
    if (g_ill) return;
    if (!ret && !all_zero(sig.data, 65)) out_int(-77);
    secp256k1_ecdsa_recoverable_signature_serialize_compact(CTX, c, &recid, &sig); c[64] = (unsigned char)recid; out_bytes(c, 65);
}
static void op_recoverable_serialize_compact(void) {
    secp256k1_ecdsa_recoverable_signature sig; unsigned char c[64]; int recid = -1, ret; rsig_from_canon(&sig, BN(0, 65));
    ret = secp256k1_ecdsa_recoverable_signature_serialize_compact(CTX, c, &recid, &sig); out_int(ret); out_bytes(c, 64); out_int(recid);
}
static void op_recoverable_convert(void) {
    secp256k1_ecdsa_recoverable_signature sig; secp256k1_ecdsa_signature o; int ret; rsig_from_canon(&sig, BN(0, 65));
    ret = secp256k1_ecdsa_recoverable_signature_convert(CTX, &o, &sig); out_int(ret); out_sig(&o);
}
static void op_ecdsa_recover(void) {
    secp256k1_ecdsa_recoverable_signature sig; secp256k1_pubkey pk; int ret; rsig_from_canon(&sig, BN(0, 65)); memset(&pk, 0xAA, sizeof(pk));
    ret = secp256k1_ecdsa_recover(CTX, &pk, &sig, BN(1, 32)); out_int(ret); out_pk(&pk);
}
/* ---- Schnorr ---- */
static int test_schnorr_nonce_data(unsigned char *nonce32, const unsigned char *msg, size_t msglen, const unsigned char *key32, const unsigned char *xonly_pk32, const unsigned char *algo, size_t algolen, void *data) {
    (void)msg; (void)msglen; (void)key32; (void)xonly_pk32; (void)algo; (void)algolen;
    if (data) memcpy(nonce32, data, 32); else memset(nonce32, 0, 32); return 1;
}
static int test_schnorr_nonce_fail(unsigned char *nonce32, const unsigned char *msg, size_t msglen, const unsigned char *key32, const unsigned char *xonly_pk32, const unsigned char *algo, size_t algolen, void *data) {
    (void)nonce32; (void)msg; (void)msglen; (void)key32; (void)xonly_pk32; (void)algo; (void)algolen; (void)data; return 0;
}
static void op_schnorrsig_sign32(void) {
    secp256k1_keypair kp; unsigned char sig[64]; int ret; kp_from_canon(&kp, BN(1, 96)); memset(sig, 0x55, 64);
    ret = secp256k1_schnorrsig_sign32(CTX, sig, BN(0, 32), &kp, is_none(2) ? NULL : BN(2, 32)); out_int(ret); out_bytes(sig, 64);
}
static void op_schnorrsig_sign32_alias(void) {
    /* msg32 kp aux|- #where : where = 1 message at sig64, 2 aux_rand at sig64+32 */
    secp256k1_keypair kp; unsigned char sig[64]; int ret; const unsigned char *m = BN(0, 32), *aux = is_none(2) ? NULL : BN(2, 32);
    kp_from_canon(&kp, BN(1, 96)); memset(sig, 0x55, 64);
    if (I(3) == 1) { memcpy(sig, m, 32); m = sig; } else if (I(3) == 2 && aux) { memcpy(sig + 32, aux, 32); aux = sig + 32; }
    ret = secp256k1_schnorrsig_sign32(CTX, sig, m, &kp, aux); out_int(ret); out_bytes(sig, 64);
}
static void op_schnorrsig_sign_custom(void) {
    /* msg kp magic|- #kind ndata|- */
    secp256k1_keypair kp; unsigned char sig[64], nd[32]; int ret; secp256k1_schnorrsig_extraparams ep; unsigned char *copy = malloc(L(0) + 1);
    kp_from_canon(&kp, BN(1, 96)); memset(sig, 0x55, 64); memcpy(copy, B(0), L(0));
    if (!is_none(2)) {
        memcpy(ep.magic, BN(2, 4), 4);
        ep.noncefp = I(3) == 0 ? NULL : I(3) == 1 ? secp256k1_nonce_function_bip340 : I(3) == 2 ? test_schnorr_nonce_data : test_schnorr_nonce_fail;
        if (!is_none(4)) { memcpy(nd, BN(4, 32), 32); ep.ndata = nd; } else ep.ndata = NULL;
    }
    ret = secp256k1_schnorrsig_sign_custom(CTX, sig, copy, L(0), &kp, is_none(2) ? NULL : &ep);
    out_int(ret); if (!g_ill || !is_none(2)) { if (!(g_ill && !ret && sig[0] == 0x55)) out_bytes(sig, 64); } free(copy);
}
static void op_nonce_function_bip340(void) {
    /* msg key32 xonly_pk32 algo|- aux32|- : the exported nonce function called directly */
    unsigned char out[32]; int ret; unsigned char *copy = malloc(L(0) + 1); unsigned char *algo = is_none(3) ? NULL : malloc(L(3) + 1); unsigned char aux[32];
    memcpy(copy, B(0), L(0)); if (algo) memcpy(algo, B(3), L(3)); if (!is_none(4)) memcpy(aux, BN(4, 32), 32); memset(out, 0x55, 32);
    ret = secp256k1_nonce_function_bip340(out, copy, L(0), BN(1, 32), BN(2, 32), algo, is_none(3) ? 0 : L(3), is_none(4) ? NULL : aux);
    out_int(ret); if (ret) out_bytes(out, 32); free(copy); free(algo);
}
static void op_schnorrsig_verify(void) {
    secp256k1_xonly_pubkey x; unsigned char *copy = malloc(L(1) + 1); memcpy(copy, B(1), L(1));
    pk_from_canon((secp256k1_pubkey *)&x, BN(2, 64));
    out_int(secp256k1_schnorrsig_verify(CTX, BN(0, 64), copy, L(1), &x)); free(copy);
}
/* ---- hashes ---- */
static void op_sha256(void) {
    secp256k1_sha256 h; unsigned char out[32]; secp256k1_sha256_initialize(&h);
    secp256k1_sha256_write(secp256k1_get_hash_context(CTX), &h, B(0), L(0)); secp256k1_sha256_finalize(secp256k1_get_hash_context(CTX), &h, out); out_bytes(out, 32);
}
static void op_hmac_sha256(void) {
    secp256k1_hmac_sha256 h; unsigned char out[32]; const secp256k1_hash_ctx *hc = secp256k1_get_hash_context(CTX);
    secp256k1_hmac_sha256_initialize(hc, &h, B(0), L(0)); secp256k1_hmac_sha256_write(hc, &h, B(1), L(1)); secp256k1_hmac_sha256_finalize(hc, &h, out); out_bytes(out, 32);
}
static void op_tagged_sha256(void) {
    unsigned char out[32]; int ret = secp256k1_tagged_sha256(CTX, out, B(0), L(0), B(1), L(1)); out_int(ret); out_bytes(out, 32);
}
static void op_rfc6979(void) {
    secp256k1_rfc6979_hmac_sha256 rng; unsigned char out[32]; long long i; const secp256k1_hash_ctx *hc = secp256k1_get_hash_context(CTX);
    secp256k1_rfc6979_hmac_sha256_initialize(hc, &rng, B(0), L(0));
    for (i = 0; i <= I(1); i++) secp256k1_rfc6979_hmac_sha256_generate(hc, &rng, out, 32);
    out_bytes(out, 32);
}

static const op_entry ops_core[] = {
    OP(ec_pubkey_parse), OP(ec_pubkey_serialize), OP(xonly_pubkey_parse), OP(xonly_pubkey_serialize),
    OP(ec_pubkey_create), OP(ec_seckey_verify), OP(ec_seckey_negate), OP(ec_pubkey_negate),
    OP(ec_seckey_tweak_add), OP(ec_pubkey_tweak_add), OP(ec_seckey_tweak_mul), OP(ec_pubkey_tweak_mul),
    OP(ec_pubkey_combine), OP(ec_pubkey_cmp), OP(ec_pubkey_sort), OP(xonly_pubkey_from_pubkey),
    OP(xonly_pubkey_tweak_add), OP(xonly_pubkey_tweak_add_check), OP(keypair_create), OP(keypair_xonly_pub),
    OP(keypair_xonly_tweak_add), OP(ecdsa_signature_parse_der), OP(ecdsa_signature_parse_compact),
    OP(ecdsa_signature_serialize_der), OP(ecdsa_signature_serialize_compact), OP(ecdsa_signature_normalize),
    OP(ecdsa_verify), OP(ecdsa_sign), OP(ecdsa_sign_recoverable), OP(recoverable_parse_compact),
    OP(recoverable_serialize_compact), OP(recoverable_convert), OP(ecdsa_recover),
    OP(ecdsa_sign_alias), OP(schnorrsig_sign32_alias), OP(schnorrsig_sign32), OP(schnorrsig_sign_custom), OP(nonce_function_bip340), OP(nonce_function_rfc6979), OP(schnorrsig_verify),
    OP(sha256), OP(hmac_sha256), OP(tagged_sha256), OP(rfc6979),
    {NULL, NULL}
};
