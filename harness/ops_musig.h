/* MuSig2 ops (properties C12, C13).  Model: coq/Model/Musig.v, MusigNonceSM.v; dispatcher coq/Model/ApiMusig.v.
 *
 * Opaque objects cross the wire in CANONICAL form (see the header comment of Musig.v): the point fields,
 * which the library stores as memcpy'd secp256k1_ge_storage, are exchanged as x32||y32 big endian
 * (64 zero bytes <-> 64 zero bytes); magic bytes, flag bytes, scalars and hashes are literal.
 *
 * Argument conventions: "-" is a NULL pointer; "#want" integers say whether an output pointer is non-NULL;
 * outputs that the function leaves untouched on a failure path are preset to zero bytes by the op (the
 * model prints zeros there), so that nothing uninitialised is ever printed and a write on a failure path
 * is still seen. */

static void mg_region_from_canon(unsigned char *raw64, const unsigned char *c64) { pk_from_canon((secp256k1_pubkey *)raw64, c64); }
static void mg_region_to_canon(unsigned char *c64, const unsigned char *raw64) { pk_to_canon(c64, (const secp256k1_pubkey *)raw64); }

static void mg_cache_from_canon(secp256k1_musig_keyagg_cache *o, const unsigned char *c) {
    memcpy(o->data, c, 4); mg_region_from_canon(o->data + 4, c + 4); mg_region_from_canon(o->data + 68, c + 68);
    memcpy(o->data + 132, c + 132, 65);
}
static void mg_cache_to_canon(unsigned char *c, const secp256k1_musig_keyagg_cache *o) {
    memcpy(c, o->data, 4); mg_region_to_canon(c + 4, o->data + 4); mg_region_to_canon(c + 68, o->data + 68);
    memcpy(c + 132, o->data + 132, 65);
}
static void mg_secnonce_from_canon(secp256k1_musig_secnonce *o, const unsigned char *c) {
    memcpy(o->data, c, 68); mg_region_from_canon(o->data + 68, c + 68);
}
static void mg_secnonce_to_canon(unsigned char *c, const secp256k1_musig_secnonce *o) {
    memcpy(c, o->data, 68); mg_region_to_canon(c + 68, o->data + 68);
}
/* pubnonce and aggnonce have the same layout: magic, two point regions */
static void mg_nonce_from_canon(unsigned char *data, const unsigned char *c) {
    memcpy(data, c, 4); mg_region_from_canon(data + 4, c + 4); mg_region_from_canon(data + 68, c + 68);
}
static void mg_nonce_to_canon(unsigned char *c, const unsigned char *data) {
    memcpy(c, data, 4); mg_region_to_canon(c + 4, data + 4); mg_region_to_canon(c + 68, data + 68);
}
static void out_cache(const secp256k1_musig_keyagg_cache *o) { unsigned char c[197]; mg_cache_to_canon(c, o); out_bytes(c, 197); }
static void out_secnonce(const secp256k1_musig_secnonce *o) { unsigned char c[132]; mg_secnonce_to_canon(c, o); out_bytes(c, 132); }
static void out_nonce(const unsigned char *data) { unsigned char c[132]; mg_nonce_to_canon(c, data); out_bytes(c, 132); }

/* optional object arguments */
static const secp256k1_musig_keyagg_cache *mg_opt_cache(int k, secp256k1_musig_keyagg_cache *o) {
    if (is_none(k)) return NULL; mg_cache_from_canon(o, BN(k, 197)); return o;
}
static const secp256k1_pubkey *mg_opt_pk(int k, secp256k1_pubkey *o) {
    if (is_none(k)) return NULL; pk_from_canon(o, BN(k, 64)); return o;
}
static const secp256k1_keypair *mg_opt_kp(int k, secp256k1_keypair *o) {
    if (is_none(k)) return NULL; kp_from_canon(o, BN(k, 96)); return o;
}
static const secp256k1_musig_session *mg_opt_session(int k, secp256k1_musig_session *o) {
    if (is_none(k)) return NULL; memcpy(o->data, BN(k, 133), 133); return o;
}
static unsigned char *mg_opt_b32(int k, unsigned char *buf) { if (is_none(k)) return NULL; memcpy(buf, BN(k, 32), 32); return buf; }

/* ---- key aggregation: pks|- #want_agg #want_cache -> ret agg_pk|- cache|- */
static void op_musig_pubkey_agg(void) {
    size_t n = L(0) / 64, i; secp256k1_pubkey *pks = malloc((n + 1) * sizeof(*pks)); const secp256k1_pubkey **pp = malloc((n + 1) * sizeof(*pp));
    secp256k1_xonly_pubkey agg; secp256k1_musig_keyagg_cache cache; int ret;
    memset(&agg, 0xAA, sizeof(agg)); memset(&cache, 0, sizeof(cache));
    for (i = 0; i < n; i++) { pk_from_canon(&pks[i], B(0) + 64 * i); pp[i] = &pks[i]; }
    ret = secp256k1_musig_pubkey_agg(CTX, I(1) ? &agg : NULL, I(2) ? &cache : NULL, is_none(0) ? NULL : pp, n);
    out_int(ret);
    if (I(1)) out_pk((secp256k1_pubkey *)&agg); else out_none();
    if (I(2)) out_cache(&cache); else out_none();
    free(pks); free(pp);
}
/* cache|- #want_out -> ret pk|- */
static void op_musig_pubkey_get(void) {
    secp256k1_musig_keyagg_cache cache; secp256k1_pubkey pk; int ret; memset(&pk, 0xAA, sizeof(pk));
    ret = secp256k1_musig_pubkey_get(CTX, I(1) ? &pk : NULL, mg_opt_cache(0, &cache));
    out_int(ret); if (I(1)) out_pk(&pk); else out_none();
}
/* cache|- tweak|- #want_out -> ret outpk|- cache-after|- */
static void mg_tweak(int xonly) {
    secp256k1_musig_keyagg_cache cache; secp256k1_pubkey pk; int ret; unsigned char tw[32];
    secp256k1_musig_keyagg_cache *c = (secp256k1_musig_keyagg_cache *)mg_opt_cache(0, &cache);
    memset(&pk, 0xAA, sizeof(pk));
    ret = xonly ? secp256k1_musig_pubkey_xonly_tweak_add(CTX, I(2) ? &pk : NULL, c, mg_opt_b32(1, tw))
                : secp256k1_musig_pubkey_ec_tweak_add(CTX, I(2) ? &pk : NULL, c, mg_opt_b32(1, tw));
    out_int(ret); if (I(2)) out_pk(&pk); else out_none();
    if (c) out_cache(c); else out_none();
}
static void op_musig_pubkey_ec_tweak_add(void) { mg_tweak(0); }
static void op_musig_pubkey_xonly_tweak_add(void) { mg_tweak(1); }

/* #want_sec #want_pub rand|- seckey|- pubkey|- msg|- cache|- extra|- -> ret secnonce|- pubnonce|- rand-after|- */
static void op_musig_nonce_gen(void) {
    secp256k1_musig_secnonce sn; secp256k1_musig_pubnonce pn; secp256k1_musig_keyagg_cache cache; secp256k1_pubkey pk;
    unsigned char rand[32], sk[32], msg[32], extra[32]; unsigned char *r; int ret;
    memset(&sn, 0, sizeof(sn)); memset(&pn, 0, sizeof(pn));
    r = mg_opt_b32(2, rand);
    ret = secp256k1_musig_nonce_gen(CTX, I(0) ? &sn : NULL, I(1) ? &pn : NULL, r, mg_opt_b32(3, sk), mg_opt_pk(4, &pk),
                                    mg_opt_b32(5, msg), mg_opt_cache(6, &cache), mg_opt_b32(7, extra));
    out_int(ret);
    if (I(0)) out_secnonce(&sn); else out_none();
    if (I(1)) out_nonce(pn.data); else out_none();
    if (r) out_bytes(r, 32); else out_none();
}
/* #want_sec #want_pub #cnt keypair|- msg|- cache|- extra|- -> ret secnonce|- pubnonce|- */
static void op_musig_nonce_gen_counter(void) {
    secp256k1_musig_secnonce sn; secp256k1_musig_pubnonce pn; secp256k1_musig_keyagg_cache cache; secp256k1_keypair kp;
    unsigned char msg[32], extra[32]; int ret;
    memset(&sn, 0, sizeof(sn)); memset(&pn, 0, sizeof(pn));
    ret = secp256k1_musig_nonce_gen_counter(CTX, I(0) ? &sn : NULL, I(1) ? &pn : NULL, (uint64_t)U(2), mg_opt_kp(3, &kp),
                                            mg_opt_b32(4, msg), mg_opt_cache(5, &cache), mg_opt_b32(6, extra));
    out_int(ret);
    if (I(0)) out_secnonce(&sn); else out_none();
    if (I(1)) out_nonce(pn.data); else out_none();
}

/* parsers get an exact-size heap copy so that ASan sees over-reads */
static unsigned char *mg_heap(int k, size_t n) { unsigned char *h = malloc(n ? n : 1); memcpy(h, BN(k, n), n); return h; }
static void op_musig_pubnonce_parse(void) {
    secp256k1_musig_pubnonce pn; unsigned char *h = mg_heap(0, 66); int ret; memset(&pn, 0, sizeof(pn));
    ret = secp256k1_musig_pubnonce_parse(CTX, &pn, h); out_int(ret); out_nonce(pn.data); free(h);
}
static void op_musig_pubnonce_serialize(void) {
    secp256k1_musig_pubnonce pn; unsigned char out[66]; int ret; memset(out, 0x55, 66);
    mg_nonce_from_canon(pn.data, BN(0, 132));
    ret = secp256k1_musig_pubnonce_serialize(CTX, out, &pn); out_int(ret); out_bytes(out, 66);
}
static void op_musig_aggnonce_parse(void) {
    secp256k1_musig_aggnonce an; unsigned char *h = mg_heap(0, 66); int ret; memset(&an, 0, sizeof(an));
    ret = secp256k1_musig_aggnonce_parse(CTX, &an, h); out_int(ret); out_nonce(an.data); free(h);
}
static void op_musig_aggnonce_serialize(void) {
    secp256k1_musig_aggnonce an; unsigned char out[66]; int ret; memset(out, 0x55, 66);
    mg_nonce_from_canon(an.data, BN(0, 132));
    ret = secp256k1_musig_aggnonce_serialize(CTX, out, &an); out_int(ret); out_bytes(out, 66);
}
static void op_musig_partial_sig_parse(void) {
    secp256k1_musig_partial_sig ps; unsigned char *h = mg_heap(0, 32); int ret; memset(&ps, 0xAA, sizeof(ps));
    ret = secp256k1_musig_partial_sig_parse(CTX, &ps, h); out_int(ret); out_bytes(ps.data, 36); free(h);
}
static void op_musig_partial_sig_serialize(void) {
    secp256k1_musig_partial_sig ps; unsigned char out[32]; int ret; memset(out, 0, 32);   /* untouched when the magic check fails */
    memcpy(ps.data, BN(0, 36), 36);
    ret = secp256k1_musig_partial_sig_serialize(CTX, out, &ps); out_int(ret); out_bytes(out, 32);
}

/* pubnonces|- -> ret aggnonce */
static void op_musig_nonce_agg(void) {
    size_t n = L(0) / 132, i; secp256k1_musig_pubnonce *pns = malloc((n + 1) * sizeof(*pns)); const secp256k1_musig_pubnonce **pp = malloc((n + 1) * sizeof(*pp));
    secp256k1_musig_aggnonce an; int ret; memset(&an, 0, sizeof(an));
    for (i = 0; i < n; i++) { mg_nonce_from_canon(pns[i].data, B(0) + 132 * i); pp[i] = &pns[i]; }
    ret = secp256k1_musig_nonce_agg(CTX, &an, is_none(0) ? NULL : pp, n);
    out_int(ret); out_nonce(an.data); free(pns); free(pp);
}
/* aggnonce|- msg|- cache|- adaptor|- -> ret session */
static void op_musig_nonce_process(void) {
    secp256k1_musig_aggnonce an; secp256k1_musig_keyagg_cache cache; secp256k1_pubkey ad; secp256k1_musig_session se; unsigned char msg[32]; int ret;
    memset(&se, 0, sizeof(se));
    if (!is_none(0)) mg_nonce_from_canon(an.data, BN(0, 132));
    ret = secp256k1_musig_nonce_process(CTX, &se, is_none(0) ? NULL : &an, mg_opt_b32(1, msg), mg_opt_cache(2, &cache), mg_opt_pk(3, &ad));
    out_int(ret); out_bytes(se.data, 133);
}
/* secnonce|- #want_sig keypair|- cache|- session|- -> ret sig|- secnonce-after|- */
static void op_musig_partial_sign(void) {
    secp256k1_musig_secnonce sn; secp256k1_keypair kp; secp256k1_musig_keyagg_cache cache; secp256k1_musig_session se; secp256k1_musig_partial_sig ps; int ret;
    memset(&ps, 0, sizeof(ps));
    if (!is_none(0)) mg_secnonce_from_canon(&sn, BN(0, 132));
    ret = secp256k1_musig_partial_sign(CTX, I(1) ? &ps : NULL, is_none(0) ? NULL : &sn, mg_opt_kp(2, &kp), mg_opt_cache(3, &cache), mg_opt_session(4, &se));
    out_int(ret);
    if (I(1)) out_bytes(ps.data, 36); else out_none();
    if (!is_none(0)) out_secnonce(&sn); else out_none();
}
/* psig|- pubnonce|- pubkey|- cache|- session|- -> ret */
static void op_musig_partial_sig_verify(void) {
    secp256k1_musig_partial_sig ps; secp256k1_musig_pubnonce pn; secp256k1_pubkey pk; secp256k1_musig_keyagg_cache cache; secp256k1_musig_session se;
    if (!is_none(0)) memcpy(ps.data, BN(0, 36), 36);
    if (!is_none(1)) mg_nonce_from_canon(pn.data, BN(1, 132));
    out_int(secp256k1_musig_partial_sig_verify(CTX, is_none(0) ? NULL : &ps, is_none(1) ? NULL : &pn, mg_opt_pk(2, &pk), mg_opt_cache(3, &cache), mg_opt_session(4, &se)));
}
/* session|- sigs|- -> ret sig64 */
static void op_musig_partial_sig_agg(void) {
    size_t n = L(1) / 36, i; secp256k1_musig_partial_sig *ps = malloc((n + 1) * sizeof(*ps)); const secp256k1_musig_partial_sig **pp = malloc((n + 1) * sizeof(*pp));
    secp256k1_musig_session se; unsigned char sig[64]; int ret; memset(sig, 0, 64);
    for (i = 0; i < n; i++) { memcpy(ps[i].data, B(1) + 36 * i, 36); pp[i] = &ps[i]; }
    ret = secp256k1_musig_partial_sig_agg(CTX, sig, mg_opt_session(0, &se), is_none(1) ? NULL : pp, n);
    out_int(ret); out_bytes(sig, 64); free(ps); free(pp);
}
static void op_musig_nonce_parity(void) {
    secp256k1_musig_session se; int par = 0, ret;
    ret = secp256k1_musig_nonce_parity(CTX, &par, mg_opt_session(0, &se)); out_int(ret); out_int(par);
}
/* pre_sig64|- sec_adaptor32|- #parity -> ret sig64 */
static void op_musig_adapt(void) {
    unsigned char sig[64], pre[64], t[32]; int ret; memset(sig, 0, 64);
    if (!is_none(0)) memcpy(pre, BN(0, 64), 64);
    ret = secp256k1_musig_adapt(CTX, sig, is_none(0) ? NULL : pre, mg_opt_b32(1, t), (int)I(2)); out_int(ret); out_bytes(sig, 64);
}
/* sig64|- pre_sig64|- #parity -> ret sec_adaptor32 */
static void op_musig_extract_adaptor(void) {
    unsigned char sig[64], pre[64], t[32]; int ret; memset(t, 0, 32);
    if (!is_none(0)) memcpy(sig, BN(0, 64), 64);
    if (!is_none(1)) memcpy(pre, BN(1, 64), 64);
    ret = secp256k1_musig_extract_adaptor(CTX, t, is_none(0) ? NULL : sig, is_none(1) ? NULL : pre, (int)I(2)); out_int(ret); out_bytes(t, 32);
}

/* ---- history op (C13): slots0 rands kps caches sessions msgs extras ctrs blobs ops
 * ops = 10-byte records  code slot flags a b c d e f _   (see decode_op in ApiMusig.v); index 255 / out of range = NULL.
 * After every step: #ret #ill <all secnonce slots, canonical> <session_secrand32 buffer after | .> <partial sig | .> */
#define MG_MAXSLOT 8
#define MG_MAXPAL 32
static void op_musig_history(void) {
    static secp256k1_musig_secnonce slot[MG_MAXSLOT]; static unsigned char rands[MG_MAXPAL][32];
    size_t nslot = L(0) / 132, nrand = L(1) / 32, nkp = L(2) / 96, ncache = L(3) / 197, nsess = L(4) / 133, nmsg = L(5) / 32,
           nextra = L(6) / 32, nctr = L(7) / 8, nblob = L(8) / 132, nops = L(9) / 10, i, j;
    if (nslot > MG_MAXSLOT || nrand > MG_MAXPAL) { out_int(-98); return; }
    for (i = 0; i < nslot; i++) mg_secnonce_from_canon(&slot[i], B(0) + 132 * i);
    for (i = 0; i < nrand; i++) memcpy(rands[i], B(1) + 32 * i, 32);
    for (i = 0; i < nops; i++) {
        const unsigned char *r = B(9) + 10 * i; int code = r[0]; long ill0 = g_ill; int ret = 0;
        secp256k1_musig_secnonce *sn = r[1] < nslot ? &slot[r[1]] : NULL;
        int want = !(r[2] & 1);
        unsigned char *randbuf = NULL; int have_sig = 0; secp256k1_musig_partial_sig ps;
        secp256k1_keypair kp; secp256k1_musig_keyagg_cache cache; secp256k1_musig_session se; secp256k1_musig_pubnonce pn;
        unsigned char msg[32], extra[32], sk[32]; secp256k1_pubkey pk;
        const secp256k1_keypair *kpp = NULL; const secp256k1_musig_keyagg_cache *cp = NULL; const unsigned char *msgp = NULL, *extrap = NULL;
        if (r[4] != 255 && r[4] < nkp) { kp_from_canon(&kp, B(2) + 96 * r[4]); kpp = &kp; }
        if (r[7] != 255 && r[7] < ncache) { mg_cache_from_canon(&cache, B(3) + 197 * r[7]); cp = &cache; }
        if (r[6] != 255 && r[6] < nmsg) { memcpy(msg, B(5) + 32 * r[6], 32); msgp = msg; }
        if (r[8] != 255 && r[8] < nextra) { memcpy(extra, B(6) + 32 * r[8], 32); extrap = extra; }
        memset(&ps, 0, sizeof(ps));
        if (code == 1) {
            const unsigned char *skp = NULL; const secp256k1_pubkey *pkp = NULL;
            if (r[3] != 255 && r[3] < nrand) randbuf = rands[r[3]];
            if (kpp) { memcpy(sk, B(2) + 96 * r[4], 32); skp = sk; }
            if (r[5] != 255 && r[5] < nkp) { pk_from_canon(&pk, B(2) + 96 * r[5] + 32); pkp = &pk; }
            ret = secp256k1_musig_nonce_gen(CTX, sn, want ? &pn : NULL, randbuf, skp, pkp, msgp, cp, extrap);
        } else if (code == 2 && r[3] != 255 && r[3] < nctr) {
            uint64_t cnt = 0; for (j = 0; j < 8; j++) cnt = (cnt << 8) | B(7)[8 * r[3] + j];
            ret = secp256k1_musig_nonce_gen_counter(CTX, sn, want ? &pn : NULL, cnt, kpp, msgp, cp, extrap);
        } else if (code == 3) {
            const secp256k1_musig_session *sp = NULL;
            if (r[3] != 255 && r[3] < nsess) { memcpy(se.data, B(4) + 133 * r[3], 133); sp = &se; }
            ret = secp256k1_musig_partial_sign(CTX, want ? &ps : NULL, sn, kpp, cp, sp);
            have_sig = want;
        } else if (code == 4 && sn && r[3] != 255 && r[3] < nblob) {
            mg_secnonce_from_canon(sn, B(8) + 132 * r[3]); ret = 1;
        }
        out_int(ret); out_int(g_ill - ill0);
        { unsigned char all[MG_MAXSLOT * 132]; for (j = 0; j < nslot; j++) mg_secnonce_to_canon(all + 132 * j, &slot[j]); out_bytes(all, 132 * nslot); }
        if (randbuf) out_bytes(randbuf, 32); else out_bytes(NULL, 0);
        if (have_sig) out_bytes(ps.data, 36); else out_bytes(NULL, 0);
    }
}

static const op_entry ops_musig[] = {
    OP(musig_pubkey_agg), OP(musig_pubkey_get), OP(musig_pubkey_ec_tweak_add), OP(musig_pubkey_xonly_tweak_add),
    OP(musig_nonce_gen), OP(musig_nonce_gen_counter), OP(musig_pubnonce_parse), OP(musig_pubnonce_serialize),
    OP(musig_aggnonce_parse), OP(musig_aggnonce_serialize), OP(musig_partial_sig_parse), OP(musig_partial_sig_serialize),
    OP(musig_nonce_agg), OP(musig_nonce_process), OP(musig_partial_sign), OP(musig_partial_sig_verify),
    OP(musig_partial_sig_agg), OP(musig_nonce_parity), OP(musig_adapt), OP(musig_extract_adaptor),
    OP(musig_history), {NULL, NULL} };
