/* Range-proof ops (properties C09, C10).  Wire formats: coq/Model/ApiRangeproof.v.
 * Commitments / generators in canonical 64-byte form (see ops_pedersen.h). */
#ifndef VERIF_OPS_RANGEPROOF_H
#define VERIF_OPS_RANGEPROOF_H
#include "ops_pedersen.h"

/* exact-size heap copy of a bytes argument (NULL for '-'); *len receives its length */
static unsigned char *rp_copy(int k, size_t *len) {
    unsigned char *p;
    *len = L(k);
    if (is_none(k)) return NULL;
    p = malloc(*len ? *len : 1); if (*len) memcpy(p, B(k), *len); return p;
}

static void op_rangeproof_sign(void) {
    /* #plen #min_value commit64 blind32 nonce32 #exp #min_bits #value msg|- extra|- gen64 -> ret [#len proof] */
    size_t plen = (size_t)U(0), plen0 = plen, msg_len, extra_len; int ret;
    secp256k1_pedersen_commitment c; secp256k1_generator g; unsigned char *proof, *msg, *extra;
    if (plen0 > 100000) { out_int(-98); return; }
    proof = malloc(plen0 ? plen0 : 1); memset(proof, 0x55, plen0 ? plen0 : 1);
    commit_from_canon(&c, BN(2, 64)); gen_from_canon(&g, BN(10, 64));
    msg = rp_copy(8, &msg_len); extra = rp_copy(9, &extra_len);
    ret = secp256k1_rangeproof_sign(CTX, proof, &plen, U(1), &c, BN(3, 32), BN(4, 32), (int)I(5), (int)I(6), U(7),
                                    msg, msg_len, extra, extra_len, &g);
    out_int(ret);
    /* on failure the buffer and *plen are unspecified (the buffer may hold a partial proof) */
    if (ret) { out_int((long long)plen); if (plen <= plen0) out_bytes(proof, plen); else out_int(-1); }
    free(proof); free(msg); free(extra);
}
static void op_rangeproof_verify(void) {
    /* commit64 proof extra|- gen64 -> ret [#min #max] */
    size_t plen, extra_len; int ret; uint64_t minv = 0x5555555555555555ULL, maxv = 0x5555555555555555ULL;
    secp256k1_pedersen_commitment c; secp256k1_generator g; unsigned char *proof, *extra;
    commit_from_canon(&c, BN(0, 64)); gen_from_canon(&g, BN(3, 64));
    proof = rp_copy(1, &plen); extra = rp_copy(2, &extra_len);
    if (!proof) { out_int(-98); free(extra); return; }
    ret = secp256k1_rangeproof_verify(CTX, &minv, &maxv, &c, proof, plen, extra, extra_len, &g);
    out_int(ret);
    if (ret) { out_u64(minv); out_u64(maxv); }   /* min/max are only meaningful for an accepted proof */
    free(proof); free(extra);
}
static void op_rangeproof_rewind(void) {
    /* nonce32 commit64 proof extra|- gen64 #msgcap|- -> ret [blind32 #value msg #min #max] */
    size_t plen, extra_len, outlen = 0, cap = 0; int ret, have_msg = !is_none(5);
    uint64_t minv = 0x5555555555555555ULL, maxv = 0x5555555555555555ULL, value = 0x5555555555555555ULL;
    unsigned char blind[32]; unsigned char *proof, *extra, *msg = NULL;
    secp256k1_pedersen_commitment c; secp256k1_generator g;
    commit_from_canon(&c, BN(1, 64)); gen_from_canon(&g, BN(4, 64));
    proof = rp_copy(2, &plen); extra = rp_copy(3, &extra_len);
    if (!proof || (have_msg && U(5) > 100000)) { out_int(-98); free(proof); free(extra); return; }
    if (have_msg) { cap = (size_t)U(5); outlen = cap; msg = malloc(cap ? cap : 1); memset(msg, 0x55, cap ? cap : 1); }
    memset(blind, 0x55, 32);
    ret = secp256k1_rangeproof_rewind(CTX, blind, &value, msg, have_msg ? &outlen : NULL, BN(0, 32), &minv, &maxv,
                                      &c, proof, plen, extra, extra_len, &g);
    out_int(ret);
    if (ret) {   /* all outputs are unspecified when the rewind fails */
        out_bytes(blind, 32); out_u64(value);
        if (have_msg && outlen <= cap) out_bytes(msg, outlen); else if (have_msg) out_int(-1); else out_bytes(blind, 0);
        out_u64(minv); out_u64(maxv);
    }
    free(proof); free(extra); free(msg);
}
static void op_rangeproof_info(void) {
    size_t plen; int ret, exp = 0x5555, mantissa = 0x5555; uint64_t minv = 0x5555, maxv = 0x5555; unsigned char *proof;
    proof = rp_copy(0, &plen);
    if (!proof) { out_int(-98); return; }
    ret = secp256k1_rangeproof_info(CTX, &exp, &mantissa, &minv, &maxv, proof, plen);
    out_int(ret);
    if (ret) { out_int(exp); out_int(mantissa); out_u64(minv); out_u64(maxv); }
    free(proof);
}
static void op_rangeproof_max_size(void) {
    out_u64((unsigned long long)secp256k1_rangeproof_max_size(CTX, U(0), (int)I(1)));
}
static void op_range_proveparams(void) {
    /* #min_value #exp #min_bits #value; the static function is called in the domain sign_impl guards */
    uint64_t v = 0, min_value = U(0), scale = 0, value = U(3); size_t rings = 0, rsizes[32], npub = 0, secidx[32], i;
    int mantissa = 0, exp = (int)I(1), min_bits = (int)I(2), ret; unsigned char rs[32], sx[32];
    if (min_value > value || min_bits > 64 || min_bits < 0 || exp < -1 || exp > 18) { out_int(-98); return; }
    memset(rsizes, 0, sizeof(rsizes)); memset(secidx, 0, sizeof(secidx));
    ret = secp256k1_range_proveparams(&v, &rings, rsizes, &npub, secidx, &min_value, &mantissa, &scale, &exp, &min_bits, value);
    out_int(ret);
    if (ret) {
        if (rings > 32) { out_int(-1); return; }
        for (i = 0; i < rings; i++) { rs[i] = (unsigned char)rsizes[i]; sx[i] = (unsigned char)secidx[i]; }
        out_u64(v); out_u64(rings); out_bytes(rs, rings); out_u64(npub); out_bytes(sx, rings);
        out_u64(min_value); out_int(mantissa); out_u64(scale); out_int(exp); out_int(min_bits);
    }
}

static const op_entry ops_rangeproof[] = {
    OP(rangeproof_sign), OP(rangeproof_verify), OP(rangeproof_rewind), OP(rangeproof_info), OP(rangeproof_max_size),
    OP(range_proveparams), {NULL, NULL} };
#endif
