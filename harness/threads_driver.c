/* C20, schedules: N threads use ONE shared context through the read-only API; every result must equal
 * the sequential result; built with -fsanitize=thread so that any data race on library state is reported.
 * Observation of the implementation (witness search), not a proof over schedules. */
#define ENABLE_MODULE_ECDH 1
#define ENABLE_MODULE_RECOVERY 1
#define ENABLE_MODULE_EXTRAKEYS 1
#define ENABLE_MODULE_SCHNORRSIG 1
#define ENABLE_MODULE_GENERATOR 1
#define ENABLE_MODULE_RANGEPROOF 1
#define ENABLE_MODULE_ELLSWIFT 1
#define ENABLE_MODULE_MUSIG 1
#define ENABLE_MODULE_ECDSA_S2C 1
#define ECMULT_WINDOW_SIZE 15
#define COMB_BLOCKS 43
#define COMB_TEETH 6
#include <stdio.h>
#include <stdlib.h>
#include <string.h>
#include <pthread.h>
#include "src/secp256k1.c"
#include "src/precomputed_ecmult.c"
#include "src/precomputed_ecmult_gen.c"

#define OUTSZ 1024
static secp256k1_context *ctx;
static int n_items = 24;
/* one deterministic work item: fills out[], returns length */
static size_t work(int item, unsigned char *out) {
    unsigned char sk[32], msg[32], buf[128]; size_t len, pos = 0; int i;
    secp256k1_pubkey pk; secp256k1_ecdsa_signature sig; secp256k1_keypair kp; secp256k1_xonly_pubkey xpk;
    for (i = 0; i < 32; i++) { sk[i] = (unsigned char)(item * 7 + i + 1); msg[i] = (unsigned char)(item * 13 + 3 * i); }
    memset(out, 0, OUTSZ);
    if (!secp256k1_ec_pubkey_create(ctx, &pk, sk)) return 0;
    len = 65; secp256k1_ec_pubkey_serialize(ctx, out + pos, &len, &pk, (item & 1) ? SECP256K1_EC_COMPRESSED : SECP256K1_EC_UNCOMPRESSED); pos += len;
    secp256k1_ecdsa_sign(ctx, &sig, msg, sk, NULL, NULL);
    len = 80; secp256k1_ecdsa_signature_serialize_der(ctx, out + pos, &len, &sig); pos += len;
    secp256k1_ecdsa_signature_serialize_compact(ctx, out + pos, &sig); pos += 64;
    out[pos++] = (unsigned char)secp256k1_ecdsa_verify(ctx, &sig, msg, &pk);
    { secp256k1_ecdsa_signature s2; out[pos++] = (unsigned char)secp256k1_ecdsa_signature_parse_der(ctx, &s2, out + 65 * !(item & 1) + 33 * (item & 1), len); }
    secp256k1_keypair_create(ctx, &kp, sk); secp256k1_schnorrsig_sign32(ctx, out + pos, msg, &kp, NULL); pos += 64;
    secp256k1_keypair_xonly_pub(ctx, &xpk, NULL, &kp);
    out[pos] = (unsigned char)secp256k1_schnorrsig_verify(ctx, out + pos - 64, msg, 32, &xpk); pos++;
    secp256k1_ecdh(ctx, out + pos, &pk, msg[0] ? msg : sk, NULL, NULL); pos += 32;
    secp256k1_tagged_sha256(ctx, out + pos, (const unsigned char *)"tag", 3, msg, 32); pos += 32;
    memcpy(buf, sk, 32); secp256k1_ec_seckey_tweak_add(ctx, buf, msg); memcpy(out + pos, buf, 32); pos += 32;
    secp256k1_ec_pubkey_tweak_mul(ctx, &pk, sk); len = 33; secp256k1_ec_pubkey_serialize(ctx, out + pos, &len, &pk, SECP256K1_EC_COMPRESSED); pos += 33;
    { secp256k1_pedersen_commitment c; secp256k1_pedersen_commit(ctx, &c, sk, (uint64_t)item * 1000003u, secp256k1_generator_h); secp256k1_pedersen_commitment_serialize(ctx, out + pos, &c); pos += 33; }
    { unsigned char ell[64]; secp256k1_ellswift_create(ctx, ell, sk, msg); memcpy(out + pos, ell, 64); pos += 64; }
    { secp256k1_ecdsa_recoverable_signature rs; int recid; secp256k1_ecdsa_sign_recoverable(ctx, &rs, msg, sk, NULL, NULL); secp256k1_ecdsa_recoverable_signature_serialize_compact(ctx, out + pos, &recid, &rs); pos += 64; out[pos++] = (unsigned char)recid; }
    return pos;
}
static unsigned char expected[64][OUTSZ]; static size_t explen[64];
static int mismatches = 0; static int iters = 3;
static void *thread_main(void *arg) {
    int t = (int)(size_t)arg, it, i; unsigned char out[OUTSZ];
    for (it = 0; it < iters; it++) for (i = 0; i < n_items; i++) {
        int item = (i + t * 5 + it) % n_items; size_t l = work(item, out);
        if (l != explen[item] || memcmp(out, expected[item], OUTSZ) != 0) __atomic_add_fetch(&mismatches, 1, __ATOMIC_RELAXED);
    }
    return NULL;
}
int main(int argc, char **argv) {
    int nthreads = argc > 1 ? atoi(argv[1]) : 8, i; pthread_t th[64]; unsigned char seed[32];
    if (argc > 2) iters = atoi(argv[2]);
    if (nthreads > 64) nthreads = 64;
    ctx = secp256k1_context_create(SECP256K1_CONTEXT_NONE); memset(seed, 0x5a, 32); secp256k1_context_randomize(ctx, seed);
    for (i = 0; i < n_items; i++) explen[i] = work(i, expected[i]);
    for (i = 0; i < nthreads; i++) pthread_create(&th[i], NULL, thread_main, (void *)(size_t)i);
    for (i = 0; i < nthreads; i++) pthread_join(th[i], NULL);
    printf("threads=%d iters=%d items=%d mismatches=%d\n", nthreads, iters, n_items, mismatches);
    secp256k1_context_destroy(ctx);
    return mismatches ? 1 : 0;
}
