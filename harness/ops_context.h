/* Context ops (C20): histories of context operations, results through non-global contexts,
 * the static context, allocation counts.  Model: coq/Model/Context.v, ApiContext.v. */
#include "include/secp256k1_preallocated.h"
static void s2c_alt_sha256_compression(uint32_t *state, const unsigned char *blocks64, size_t n_blocks);

typedef struct { secp256k1_context *ctx; void *prealloc; } ctx_slot;
static void slot_destroy(ctx_slot *s) {
    if (!s->ctx) return;
    if (s->prealloc) { secp256k1_context_preallocated_destroy(s->ctx); free(s->prealloc); } else secp256k1_context_destroy(s->ctx);
    s->ctx = NULL; s->prealloc = NULL;
}
static void slot_callbacks(ctx_slot *s) {
    secp256k1_context_set_illegal_callback(s->ctx, ill_cb, NULL); secp256k1_context_set_error_callback(s->ctx, err_cb, NULL);
}
/* history bytes: 01 create(malloc) | 02 create(preallocated) | 03 clone | 04 preallocated clone |
 * 05 <seed32> randomize | 06 randomize(NULL) | 07 install replaced SHA-256 compression | 08 reset compression.
 * Starts from a malloc-created context.  Returns the resulting slot. */
static ctx_slot run_history(const unsigned char *h, size_t n) {
    ctx_slot s; size_t i = 0;
    s.ctx = secp256k1_context_create(SECP256K1_CONTEXT_NONE); s.prealloc = NULL; slot_callbacks(&s);
    while (i < n) {
        unsigned char o = h[i++];
        if (o == 1) { slot_destroy(&s); s.ctx = secp256k1_context_create(SECP256K1_CONTEXT_NONE); s.prealloc = NULL; slot_callbacks(&s); }
        else if (o == 2) { slot_destroy(&s); s.prealloc = malloc(secp256k1_context_preallocated_size(SECP256K1_CONTEXT_NONE)); s.ctx = secp256k1_context_preallocated_create(s.prealloc, SECP256K1_CONTEXT_NONE); slot_callbacks(&s); }
        else if (o == 3) { ctx_slot t; t.ctx = secp256k1_context_clone(s.ctx); t.prealloc = NULL; slot_destroy(&s); s = t; }
        else if (o == 4) { ctx_slot t; t.prealloc = malloc(secp256k1_context_preallocated_clone_size(s.ctx)); t.ctx = secp256k1_context_preallocated_clone(s.ctx, t.prealloc); slot_destroy(&s); s = t; }
        else if (o == 5) { unsigned char seed[32] = {0}; size_t k = n - i < 32 ? n - i : 32; memcpy(seed, h + i, k); i += k; secp256k1_context_randomize(s.ctx, seed); }
        else if (o == 6) { secp256k1_context_randomize(s.ctx, NULL); }
        else if (o == 7) { secp256k1_context_set_sha256_compression(s.ctx, s2c_alt_sha256_compression); }
        else if (o == 8) { secp256k1_context_set_sha256_compression(s.ctx, NULL); }
    }
    return s;
}
/* ctx_history <history> k32 -> scalar_offset, ge_offset, proj_blind, ecmult_gen(k) of the resulting context */
static void op_ctx_history(void) {
    ctx_slot s = run_history(B(0), L(0)); unsigned char b[32]; secp256k1_gej r; secp256k1_scalar k; secp256k1_fe f;
    secp256k1_scalar_get_b32(b, &s.ctx->ecmult_gen_ctx.scalar_offset); out_bytes(b, 32);
    out_ge(&s.ctx->ecmult_gen_ctx.ge_offset);
    f = s.ctx->ecmult_gen_ctx.proj_blind; secp256k1_fe_normalize(&f); secp256k1_fe_get_b32(b, &f); out_bytes(b, 32);
    secp256k1_scalar_set_b32(&k, BN(1, 32), NULL); secp256k1_ecmult_gen(&s.ctx->ecmult_gen_ctx, &r, &k); out_gej(&r);
    slot_destroy(&s);
}
/* with_ctx <history> <hex(op name)> args... : runs another op with CTX temporarily replaced by the
 * context the history produces.  history byte 0A as the FIRST byte = a byte copy of the static context. */
static const op_entry *find_op(const char *name);
static void op_with_ctx(void) {
    char nm[64] = {0}; const op_entry *op; secp256k1_context *saved = CTX; ctx_slot s; int is_static = 0;
    secp256k1_context static_copy;
    memcpy(nm, B(1), L(1) < 63 ? L(1) : 63);
    op = find_op(nm);
    if (!op || op->fn == op_with_ctx) { out_int(-98); return; }
    if (L(0) >= 1 && B(0)[0] == 0x0A) {
        memcpy(&static_copy, secp256k1_context_static, sizeof(static_copy));
        secp256k1_context_set_illegal_callback(&static_copy, ill_cb, NULL); secp256k1_context_set_error_callback(&static_copy, err_cb, NULL);
        s.ctx = &static_copy; s.prealloc = NULL; is_static = 1;
    } else s = run_history(B(0), L(0));
    CTX = s.ctx;
    { arg_t keep[MAXARGS]; int na = NA, i; memcpy(keep, A, sizeof(keep));
      for (i = 2; i < na; i++) A[i - 2] = keep[i];
      NA = na - 2; op->fn(); memcpy(A, keep, sizeof(keep)); NA = na; }
    CTX = saved;
    if (!is_static) slot_destroy(&s);
}
/* allocation counts: create / preallocated create / clone / destroy */
static void op_ctx_alloc_count(void) {
    long t0 = g_total_allocs, l0 = g_live_allocs; secp256k1_context *c, *d; void *mem; size_t sz;
    c = secp256k1_context_create(SECP256K1_CONTEXT_NONE); out_int(g_total_allocs - t0);
    t0 = g_total_allocs; d = secp256k1_context_clone(c); out_int(g_total_allocs - t0);
    secp256k1_context_destroy(c); secp256k1_context_destroy(d); out_int(g_live_allocs - l0);
    sz = secp256k1_context_preallocated_size(SECP256K1_CONTEXT_NONE); mem = malloc(sz); t0 = g_total_allocs;
    c = secp256k1_context_preallocated_create(mem, SECP256K1_CONTEXT_NONE); out_int(g_total_allocs - t0);
    secp256k1_context_preallocated_destroy(c); free(mem); out_int(g_live_allocs - l0);
}
static const op_entry ops_context[] = { OP(ctx_history), OP(with_ctx), OP(ctx_alloc_count), {NULL, NULL} };
