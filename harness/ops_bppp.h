/* bppp ops (property C19): generator lists, two-points codec, log2 helpers, transcript challenge,
 * norm commitment, norm-argument prover and verifier.  Arguments and results are documented by the
 * Gallina functions op_* of coq/Model/Bppp.v (dispatcher coq/Model/ApiBppp.v).
 * Group elements travel as x32||y32 (64 zero bytes = infinity); scalar vectors as concatenated
 * 32-byte big-endian strings (reduced mod n by secp256k1_scalar_set_b32, as in the model).
 * The prove/verify/commit functions are static internals of src/modules/bppp: the production build
 * (no VERIFY) does not check their preconditions, so the ops enforce them and answer #-98 otherwise
 * (the model does the same). */

static int bp_ge_from_canon(secp256k1_ge *ge, const unsigned char *c64) {
    secp256k1_fe x, y;
    if (all_zero(c64, 64)) { secp256k1_ge_set_infinity(ge); return 1; }
    if (!secp256k1_fe_set_b32_limit(&x, c64) || !secp256k1_fe_set_b32_limit(&y, c64 + 32)) return 0;
    secp256k1_ge_set_xy(ge, &x, &y);
    return secp256k1_ge_is_valid_var(ge);
}
static void bp_out_ge(const secp256k1_ge *g) {
    unsigned char c[64]; secp256k1_ge t = *g;
    if (secp256k1_ge_is_infinity(&t)) { memset(c, 0, 64); out_bytes(c, 64); return; }
    secp256k1_fe_normalize_var(&t.x); secp256k1_fe_normalize_var(&t.y);
    secp256k1_fe_get_b32(c, &t.x); secp256k1_fe_get_b32(c + 32, &t.y); out_bytes(c, 64);
}
/* argument k = list of finite points; returns malloc'ed array (never NULL on success) or NULL if malformed */
static secp256k1_ge *bp_ges(int k, size_t *n) {
    size_t i; secp256k1_ge *r;
    if (is_none(k) || L(k) % 64 != 0) return NULL;
    *n = L(k) / 64; r = malloc((*n + 1) * sizeof(*r));
    for (i = 0; i < *n; i++) {
        if (!bp_ge_from_canon(&r[i], B(k) + 64 * i) || secp256k1_ge_is_infinity(&r[i])) { free(r); return NULL; }
    }
    return r;
}
static secp256k1_scalar *bp_scalars(int k, size_t *n) {
    size_t i; secp256k1_scalar *r;
    if (is_none(k) || L(k) % 32 != 0) return NULL;
    *n = L(k) / 32; r = malloc((*n + 1) * sizeof(*r));
    for (i = 0; i < *n; i++) secp256k1_scalar_set_b32(&r[i], B(k) + 32 * i, NULL);
    return r;
}
static unsigned char *bp_heap_copy(int k) {   /* exact-size heap copy: ASan sees over-reads */
    unsigned char *c = malloc(L(k) ? L(k) : 1); if (L(k)) memcpy(c, B(k), L(k)); return c;
}
static int bp_pow2(size_t n) { return n > 0 && (n & (n - 1)) == 0; }
static void bp_out_gens(const secp256k1_bppp_generators *g) {
    /* canonical points, then the public serialization (exact-size buffer) */
    size_t i, len = 33 * g->n; unsigned char *c = malloc(64 * g->n + 1), *s = malloc(len + 1); int ret;
    for (i = 0; i < g->n; i++) {
        secp256k1_ge t = g->gens[i];
        secp256k1_fe_normalize_var(&t.x); secp256k1_fe_normalize_var(&t.y);
        secp256k1_fe_get_b32(c + 64 * i, &t.x); secp256k1_fe_get_b32(c + 64 * i + 32, &t.y);
    }
    out_bytes(c, 64 * g->n);
    ret = secp256k1_bppp_generators_serialize(CTX, g, s, &len);
    if (!ret || len != 33 * g->n) out_int(-77);
    out_bytes(s, 33 * g->n);
    free(c); free(s);
}

static void op_bppp_gens_create(void) {
    long live0 = g_live_allocs; secp256k1_bppp_generators *g;
    if (I(0) < 0 || I(0) > 4096) { out_int(-98); return; }
    g = secp256k1_bppp_generators_create(CTX, (size_t)I(0));
    if (!g) { out_int(0); out_int(g_live_allocs - live0); return; }
    out_int(1); bp_out_gens(g);
    secp256k1_bppp_generators_destroy(CTX, g);
    out_int(g_live_allocs - live0);
}
static void op_bppp_gens_parse(void) {
    long live0 = g_live_allocs; secp256k1_bppp_generators *g;
    unsigned char *data = is_none(0) ? NULL : bp_heap_copy(0);
    g = secp256k1_bppp_generators_parse(CTX, data, L(0));
    out_int(g != NULL); out_int(g_live_allocs - live0);
    if (g) { bp_out_gens(g); secp256k1_bppp_generators_destroy(CTX, g); }
    out_int(g_live_allocs - live0);
    free(data);
}
static void op_bppp_gens_serialize(void) {
    secp256k1_bppp_generators gs; size_t len, buflen; unsigned char *buf; int ret;
    if (I(1) < 0 || I(1) > 1000000 || (gs.gens = bp_ges(0, &gs.n)) == NULL) { out_int(-98); return; }
    buflen = len = (size_t)I(1); buf = malloc(buflen ? buflen : 1); memset(buf, 0x55, buflen);
    ret = secp256k1_bppp_generators_serialize(CTX, &gs, buf, &len);
    out_int(ret); out_int((long long)len);
    if (ret) out_bytes(buf, buflen);       /* on the ARG_CHECK path the buffer is untouched: not printed */
    free(buf); free(gs.gens);
}
static void op_bppp_points_serialize(void) {
    secp256k1_ge X, R; unsigned char *out;
    if (L(0) != 64 || L(1) != 64 || !bp_ge_from_canon(&X, B(0)) || !bp_ge_from_canon(&R, B(1))) { out_int(-98); return; }
    out = malloc(65); memset(out, 0x55, 65);
    secp256k1_bppp_serialize_points(out, &X, &R);
    out_bytes(out, 65); free(out);
}
static void op_bppp_points_parse(void) {
    secp256k1_ge pt; unsigned char *in; int ret;
    if (L(0) != 65 || (I(1) != 0 && I(1) != 1)) { out_int(-98); return; }
    in = bp_heap_copy(0);
    ret = secp256k1_bppp_parse_one_of_points(&pt, in, (int)I(1));
    out_int(ret); if (ret) bp_out_ge(&pt);   /* pt is unspecified after a failed parse */
    free(in);
}
static void op_bppp_log2(void) {
    if (U(0) == 0) { out_int(-98); return; }
    out_int((long long)secp256k1_bppp_log2((size_t)U(0))); out_int(secp256k1_is_power_of_two((size_t)U(0)));
}
static void op_bppp_challenge(void) {
    secp256k1_sha256 sha; secp256k1_scalar ch; unsigned char b[32];
    secp256k1_bppp_sha256_tagged_commitment_init(&sha);
    secp256k1_sha256_write(secp256k1_get_hash_context(CTX), &sha, B(0), L(0));
    secp256k1_bppp_challenge_scalar(secp256k1_get_hash_context(CTX), &ch, &sha, (uint64_t)U(1));
    secp256k1_scalar_get_b32(b, &ch); out_bytes(b, 32);
}
/* capacity left in a scratch space: a call must give back everything it took, on every path (otherwise a later call with a sufficient scratch fails) */
static size_t bp_avail(secp256k1_scratch_space *s) { return s ? secp256k1_scratch_max_allocation(&CTX->error_callback, s, 1) : 0; }
static secp256k1_scratch_space *bp_scratch(int k) { return I(k) < 0 ? NULL : secp256k1_scratch_space_create(CTX, (size_t)I(k)); }

static void op_bppp_commit(void) {
    secp256k1_bppp_generators gs; secp256k1_scalar *nv = NULL, *lv = NULL, *cv = NULL, mu; size_t nl, ll, cl;
    secp256k1_scratch_space *scratch; secp256k1_ge commit; int ret;
    gs.gens = bp_ges(0, &gs.n); nv = bp_scalars(1, &nl); lv = bp_scalars(2, &ll); cv = bp_scalars(3, &cl);
    if (!gs.gens || !nv || !lv || !cv || gs.n != nl + ll || cl != ll || L(4) != 32) { out_int(-98); goto done; }
    secp256k1_scalar_set_b32(&mu, B(4), NULL);
    scratch = bp_scratch(5);
    secp256k1_ge_set_infinity(&commit);
    ret = secp256k1_bppp_commit(CTX, scratch, &commit, &gs, nv, nl, lv, ll, cv, cl, &mu);
    out_int(ret); bp_out_ge(&commit);
    secp256k1_scratch_space_destroy(CTX, scratch);
done:
    free(gs.gens); free(nv); free(lv); free(cv);
}
static void op_bppp_prove(void) {
    /* transcript rho gens64 n_vec l_vec c_vec #scratch (-1 = NULL) -> ret, proof */
    secp256k1_ge *g; secp256k1_scalar *nv = NULL, *lv = NULL, *cv = NULL, rho; size_t gn, nl, ll, cl, plen, rounds, a, b;
    secp256k1_scratch_space *scratch; secp256k1_sha256 tr; unsigned char *proof; int ret;
    g = bp_ges(2, &gn); nv = bp_scalars(3, &nl); lv = bp_scalars(4, &ll); cv = bp_scalars(5, &cl);
    if (!g || !nv || !lv || !cv || gn != nl + ll || cl != ll || L(1) != 32 || !bp_pow2(nl) || !bp_pow2(ll)) { out_int(-98); goto done; }
    secp256k1_scalar_set_b32(&rho, B(1), NULL);
    a = secp256k1_bppp_log2(nl); b = secp256k1_bppp_log2(ll); rounds = a > b ? a : b;
    plen = 65 * rounds + 64; proof = malloc(plen); memset(proof, 0x55, plen);   /* exact size */
    secp256k1_bppp_sha256_tagged_commitment_init(&tr);
    secp256k1_sha256_write(secp256k1_get_hash_context(CTX), &tr, B(0), L(0));
    scratch = bp_scratch(6);
    { size_t before = bp_avail(scratch);
    ret = secp256k1_bppp_rangeproof_norm_product_prove(CTX, scratch, proof, &plen, &tr, &rho, g, gn, nv, nl, lv, ll, cv, cl);
    if (bp_avail(scratch) != before) out_int(-77); }
    out_int(ret);
    if (ret) { if (plen != 65 * rounds + 64) out_int(-77); out_bytes(proof, 65 * rounds + 64); }
    secp256k1_scratch_space_destroy(CTX, scratch); free(proof);
done:
    free(g); free(nv); free(lv); free(cv);
}
static void op_bppp_verify(void) {
    /* transcript rho gens64 #g_len c_vec commit64 proof #scratch -> ret, live-allocation delta */
    secp256k1_bppp_generators gs; secp256k1_scalar *cv = NULL, rho; size_t cl; secp256k1_ge commit;
    secp256k1_scratch_space *scratch; secp256k1_sha256 tr; unsigned char *proof = NULL; int ret;
    gs.gens = bp_ges(2, &gs.n); cv = bp_scalars(4, &cl);
    if (!gs.gens || !cv || L(1) != 32 || I(3) < 0 || I(3) > 4294967296LL || I(7) < 0 || L(5) != 64 || !bp_ge_from_canon(&commit, B(5)) || is_none(6)) { out_int(-98); goto done; }
    secp256k1_scalar_set_b32(&rho, B(1), NULL);
    proof = bp_heap_copy(6);
    secp256k1_bppp_sha256_tagged_commitment_init(&tr);
    secp256k1_sha256_write(secp256k1_get_hash_context(CTX), &tr, B(0), L(0));
    scratch = bp_scratch(7);
    { size_t before = bp_avail(scratch);
    ret = secp256k1_bppp_rangeproof_norm_product_verify(CTX, scratch, proof, L(6), &tr, &rho, &gs, (size_t)I(3), cv, cl, &commit);
    out_int(ret);
    if (bp_avail(scratch) != before) out_int(-77); }
    secp256k1_scratch_space_destroy(CTX, scratch);
done:
    free(gs.gens); free(cv); free(proof);
}

static const op_entry ops_bppp[] = {
    OP(bppp_gens_create), OP(bppp_gens_parse), OP(bppp_gens_serialize), OP(bppp_points_serialize),
    OP(bppp_points_parse), OP(bppp_log2), OP(bppp_challenge), OP(bppp_commit), OP(bppp_prove), OP(bppp_verify),
    {NULL, NULL}
};
