(* Generic model driver (fast runner: Z = zarith big_int).  Reads one case per line on stdin:
     <op> <field>*     fields: '-' NULL, '#<decimal>' integer, '.' empty bytes, hex bytes
   and prints one result line per case in the same field syntax (ILL<k> = illegal callbacks). *)
open Modelx
let zi = Big_int_Z.big_int_of_int
let explode s = List.init (String.length s) (String.get s)
let hexval c = match c with
  | '0'..'9' -> Char.code c - 48 | 'a'..'f' -> Char.code c - 87 | 'A'..'F' -> Char.code c - 55
  | _ -> failwith "hex"
let bytes_of_hex s =
  let n = String.length s / 2 in
  List.init n (fun i -> zi (hexval s.[2*i] * 16 + hexval s.[2*i+1]))
let parse_field f =
  if f = "-" then ANone
  else if f = "." then ABytes []
  else if f.[0] = '#' then AInt (Big_int_Z.big_int_of_string (String.sub f 1 (String.length f - 1)))
  else ABytes (bytes_of_hex f)
let hexd = "0123456789abcdef"
let show_field buf a = match a with
  | ANone -> Buffer.add_char buf '-'
  | AInt z -> Buffer.add_char buf '#'; Buffer.add_string buf (Big_int_Z.string_of_big_int z)
  | ABytes [] -> Buffer.add_char buf '.'
  | ABytes l -> List.iter (fun b -> let v = Big_int_Z.int_of_big_int b in
                  if v < 0 || v > 255 then Buffer.add_string buf "??" else begin
                  Buffer.add_char buf hexd.[v lsr 4]; Buffer.add_char buf hexd.[v land 15] end) l
  | AIll k -> Buffer.add_string buf "ILL"; Buffer.add_string buf (Big_int_Z.string_of_big_int k)
let () =
  let params = ref secp256k1 in
  (* optional: --params p b n gx gy (decimal) *)
  (match Array.to_list Sys.argv with
   | _ :: "--params" :: p :: b :: n :: gx :: gy :: _ ->
     let z = Big_int_Z.big_int_of_string in
     params := { cp = z p; cb = z b; cn = z n; cgx = z gx; cgy = z gy }
   | _ -> ());
  let buf = Buffer.create 4096 in
  (try while true do
    let line = input_line stdin in
    let fields = List.filter (fun s -> s <> "") (String.split_on_char ' ' (String.trim line)) in
    (match fields with
     | [] -> print_string "\n"
     | op :: args ->
       Buffer.clear buf;
       let res = (try dispatch !params (explode op) (List.map parse_field args)
                  with e -> [AInt (zi (-97))]) in
       List.iteri (fun i a -> if i > 0 then Buffer.add_char buf ' '; show_field buf a) res;
       Buffer.add_char buf '\n';
       print_string (Buffer.contents buf));
  done with End_of_file -> ());
  flush stdout
