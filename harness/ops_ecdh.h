/* ECDH and ElligatorSwift ops (property C18).  Arguments and results are documented in
 * coq/Model/ApiEcdh.v; the Gallina functions are in coq/Model/Ecdh.v and coq/Model/Ellswift.v. */

/* ---- test hash callbacks (mirrored by ecdh_test_hash / xdh_test_hash in ApiEcdh.v) ---- */
static int ecdh_cb_ret;
static int ecdh_test_cb(unsigned char *output, const unsigned char *x32, const unsigned char *y32, void *data) {
    memcpy(output, y32, 32); memcpy(output + 32, x32, 32);
    if (data) output[0] ^= *(const unsigned char *)data;
    return ecdh_cb_ret;
}
static int xdh_cb_ret;
static int xdh_test_cb(unsigned char *output, const unsigned char *x32, const unsigned char *ell_a64, const unsigned char *ell_b64, void *data) {
    int i;
    for (i = 0; i < 32; i++) output[i] = x32[i] ^ ell_a64[i] ^ ell_b64[32 + i];
    if (data) output[0] ^= *(const unsigned char *)data;
    return xdh_cb_ret;
}

/* pkobj seckey32 #kind data|-  ->  ret, output (32 bytes for the library hash, 64 for the test callback) */
static void op_ecdh(void) {
    secp256k1_pubkey pk; unsigned char out[64]; int ret; long long kind = I(2);
    unsigned char *data = is_none(3) ? NULL : (unsigned char *)B(3);
    secp256k1_ecdh_hash_function fp;
    /* an object that does not load: the library goes on with an unspecified point after the callback */
    if (is_none(0) || all_zero(BN(0, 64), 32) || kind < 0 || kind > 3 || (!is_none(3) && L(3) < 1)) { out_int(-98); return; }
    pk_from_canon(&pk, BN(0, 64)); memset(out, 0x55, sizeof(out));
    fp = kind == 0 ? NULL : kind == 1 ? secp256k1_ecdh_hash_function_sha256 : ecdh_test_cb;
    ecdh_cb_ret = kind == 2;
    ret = secp256k1_ecdh(CTX, out, &pk, BN(1, 32), fp, data);
    out_int(ret); out_bytes(out, kind <= 1 ? 32 : 64);
}
static void op_ellswift_encode(void) {
    secp256k1_pubkey pk; unsigned char out[64]; int ret;
    pk_from_canon(&pk, BN(0, 64)); memset(out, 0x55, 64);
    ret = secp256k1_ellswift_encode(CTX, out, &pk, BN(1, 32));
    out_int(ret); out_bytes(out, 64);
}
static void op_ellswift_create(void) {
    unsigned char out[64]; int ret; memset(out, 0x55, 64);
    ret = secp256k1_ellswift_create(CTX, out, BN(0, 32), is_none(1) ? NULL : BN(1, 32));
    out_int(ret); out_bytes(out, 64);
}
static void op_ellswift_decode(void) {
    secp256k1_pubkey pk; int ret; unsigned char *copy = malloc(64);
    memset(&pk, 0xAA, sizeof(pk)); memcpy(copy, BN(0, 64), 64);
    ret = secp256k1_ellswift_decode(CTX, &pk, copy);
    out_int(ret); out_pk(&pk); free(copy);
}
/* ell_a64 ell_b64 seckey32 #party #kind data|- */
/* callbacks that forward to the EXPORTED hash functions (a binding's trampoline): same result as naming them directly */
static int xdh_forward_bip324(unsigned char *output, const unsigned char *x32, const unsigned char *ell_a64, const unsigned char *ell_b64, void *data) {
    return secp256k1_ellswift_xdh_hash_function_bip324(output, x32, ell_a64, ell_b64, data);
}
static int xdh_forward_prefix(unsigned char *output, const unsigned char *x32, const unsigned char *ell_a64, const unsigned char *ell_b64, void *data) {
    return secp256k1_ellswift_xdh_hash_function_prefix(output, x32, ell_a64, ell_b64, data);
}
static void op_ellswift_xdh(void) {
    unsigned char out[32]; int ret; long long kind = I(4);
    unsigned char *data = is_none(5) ? NULL : (unsigned char *)B(5);
    secp256k1_ellswift_xdh_hash_function fp;
    if (kind < 0 || kind > 6 || ((kind == 1 || kind == 6) && L(5) != 64) || (!is_none(5) && L(5) < 1)) { out_int(-98); return; }
    fp = kind == 0 ? secp256k1_ellswift_xdh_hash_function_bip324 : kind == 1 ? secp256k1_ellswift_xdh_hash_function_prefix : kind == 4 ? NULL : kind == 5 ? xdh_forward_bip324 : kind == 6 ? xdh_forward_prefix : xdh_test_cb;
    xdh_cb_ret = kind == 2; memset(out, 0x55, 32);
    ret = secp256k1_ellswift_xdh(CTX, out, BN(0, 64), BN(1, 64), BN(2, 32), (int)I(3), fp, data);
    out_int(ret);
    if (fp) out_bytes(out, 32);     /* hashfp == NULL: ARG_CHECK fails before output is touched, nothing to show */
}
/* static internals */
static void op_ellswift_xswiftec(void) {
    secp256k1_fe u, t, x; unsigned char out[32];
    secp256k1_fe_set_b32_mod(&u, BN(0, 32)); secp256k1_fe_set_b32_mod(&t, BN(1, 32));
    secp256k1_fe_normalize_var(&t);
    secp256k1_ellswift_xswiftec_var(&x, &u, &t);
    secp256k1_fe_normalize_var(&x); secp256k1_fe_get_b32(out, &x); out_bytes(out, 32);
}
static void op_ellswift_xswiftec_inv(void) {
    secp256k1_fe x, u, t; unsigned char out[32]; int ret;
    if (I(2) < 0 || I(2) > 7) { out_int(-98); return; }
    secp256k1_fe_set_b32_mod(&x, BN(0, 32)); secp256k1_fe_set_b32_mod(&u, BN(1, 32));
    ret = secp256k1_ellswift_xswiftec_inv_var(&t, &x, &u, (int)I(2));
    out_int(ret);
    if (ret) { secp256k1_fe_normalize_var(&t); secp256k1_fe_get_b32(out, &t); out_bytes(out, 32); }
}

static const op_entry ops_ecdh[] = { OP(ecdh), OP(ellswift_encode), OP(ellswift_create), OP(ellswift_decode), OP(ellswift_xdh),
                                     OP(ellswift_xswiftec), OP(ellswift_xswiftec_inv), {NULL, NULL} };
