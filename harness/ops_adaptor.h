/* ecdsa_adaptor ops.  Arguments and results are documented by the Gallina functions of the same names
 * (coq/Model/Adaptor.v; dispatcher coq/Model/ApiAdaptor.v).  Only the public API is called. */

/* test nonce functions (Model/Adaptor.v adaptor_nonce_fn, kinds 2 and 3):
 * data = k_main32 || k_dleq32 || sel.  The 16-byte algo asks for the encryption nonce, the 4-byte
 * algo "DLEQ" for the nonce of the DLEQ proof.  A failing call writes nothing. */
static int adp_test_nonce(unsigned char *nonce32, const unsigned char *msg32, const unsigned char *key32, const unsigned char *pk33, const unsigned char *algo, size_t algolen, void *data) {
    const unsigned char *d = data; (void)msg32; (void)key32; (void)pk33; (void)algo;
    memcpy(nonce32, algolen == 4 ? d + 32 : d, 32);
    return 1;
}
static int adp_test_nonce_fail(unsigned char *nonce32, const unsigned char *msg32, const unsigned char *key32, const unsigned char *pk33, const unsigned char *algo, size_t algolen, void *data) {
    const unsigned char *d = data; int is_dleq = (algolen == 4);
    if (d[64] == 2 || (is_dleq ? d[64] == 1 : d[64] == 0)) return 0;
    return adp_test_nonce(nonce32, msg32, key32, pk33, algo, algolen, data);
}
/* exact-size heap copy of a 162-byte adaptor signature (ASan sees any over-read) */
static unsigned char *adp_sig_copy(int k) {
    unsigned char *c = malloc(162); memcpy(c, BN(k, 162), 162); return c;
}

static void op_adaptor_encrypt(void) {
    /* #kind seckey32 enckey_obj msg32 ndata|-  ->  ret, sig162 */
    unsigned char sig[162], sk[32], nd[65]; secp256k1_pubkey enc; int ret; long long kind = I(0);
    secp256k1_nonce_function_hardened_ecdsa_adaptor fp =
        kind == 0 ? NULL : kind == 1 ? secp256k1_nonce_function_ecdsa_adaptor : kind == 2 ? adp_test_nonce : adp_test_nonce_fail;
    memset(sig, 0x55, sizeof(sig)); memset(nd, 0, sizeof(nd));
    memcpy(sk, BN(1, 32), 32); pk_from_canon(&enc, BN(2, 64));
    if (!is_none(4)) memcpy(nd, B(4), L(4) < 65 ? L(4) : 65);
    ret = secp256k1_ecdsa_adaptor_encrypt(CTX, sig, sk, &enc, BN(3, 32), fp, (is_none(4) && kind < 2) ? NULL : nd);
    out_int(ret);
    if (memcmp(sk, BN(1, 32), 32) != 0) out_int(-77);      /* the (non-const) secret key argument must not be modified */
    if (g_ill) return;                                      /* output buffer untouched on the illegal-argument path */
    out_bytes(sig, 162);
}
static void op_adaptor_verify(void) {
    /* sig162 pubkey_obj msg32 enckey_obj -> ret */
    secp256k1_pubkey pk, enc; unsigned char *sig = adp_sig_copy(0);
    pk_from_canon(&pk, BN(1, 64)); pk_from_canon(&enc, BN(3, 64));
    out_int(secp256k1_ecdsa_adaptor_verify(CTX, sig, &pk, BN(2, 32), &enc));
    free(sig);
}
static void op_adaptor_decrypt(void) {
    /* deckey32 sig162 -> ret, signature object */
    secp256k1_ecdsa_signature s; unsigned char *sig = adp_sig_copy(1); int ret;
    memset(&s, 0xAA, sizeof(s));
    ret = secp256k1_ecdsa_adaptor_decrypt(CTX, &s, BN(0, 32), sig);
    out_int(ret);
    if (!ret && !all_zero(s.data, 64)) out_int(-77);       /* failure must leave an all-zero object */
    out_sig(&s); free(sig);
}
static void op_adaptor_recover(void) {
    /* sigobj sig162 enckey_obj -> ret, deckey32 (only when ret = 1; unspecified by the header otherwise) */
    secp256k1_ecdsa_signature s; secp256k1_pubkey enc; unsigned char dk[32]; unsigned char *sig = adp_sig_copy(1); int ret;
    memset(dk, 0x55, 32); sig_from_canon(&s, BN(0, 64)); pk_from_canon(&enc, BN(2, 64));
    ret = secp256k1_ecdsa_adaptor_recover(CTX, dk, &s, sig, &enc);
    out_int(ret);
    if (ret) out_bytes(dk, 32);
    free(sig);
}
static void op_adaptor_nonce(void) {
    /* msg32 key32 pk33 algo|- data32|- -> ret, nonce32 (when ret = 1) */
    unsigned char nonce[32], d[32]; int ret; unsigned char *algo = NULL;
    memset(nonce, 0x55, 32);
    if (!is_none(3)) { algo = malloc(L(3) + 1); memcpy(algo, B(3), L(3)); }
    if (!is_none(4)) memcpy(d, BN(4, 32), 32);
    ret = secp256k1_nonce_function_ecdsa_adaptor(nonce, BN(0, 32), BN(1, 32), BN(2, 33), algo, L(3), is_none(4) ? NULL : d);
    out_int(ret);
    if (ret) out_bytes(nonce, 32);
    free(algo);
}

static const op_entry ops_adaptor[] = {
    OP(adaptor_encrypt), OP(adaptor_verify), OP(adaptor_decrypt), OP(adaptor_recover), OP(adaptor_nonce),
    {NULL, NULL}
};
