/* ecdsa_s2c ops (sign-to-contract, anti-exfil).  Arguments and results are documented by the Gallina
 * functions of the same names (coq/Model/S2c.v; dispatcher coq/Model/ApiS2c.v).  Only the public API is
 * called.  Every op takes a trailing integer "alt": non-zero installs, for the duration of the call, the
 * second SHA-256 compression function below in the context (secp256k1_context_set_sha256_compression). */

/* ---- a second, independent SHA-256 compression function -------------------------------------------
 * Written from FIPS 180-4 only; shares nothing with src/hash_impl.h: no constant table (the 64 round
 * constants are derived at first use as the first 32 fractional bits of the cube roots of the first 64
 * primes, by integer cube root), full 64-word message schedule, textbook Ch/Maj formulas. */
static uint32_t s2c_alt_K[64];
static int s2c_alt_ready = 0;
static unsigned long s2c_alt_calls = 0;
static void s2c_alt_init(void) {
    int i = 0; unsigned p = 2;
    while (i < 64) {
        unsigned q, is_prime = 1;
        for (q = 2; q * q <= p; q++) if (p % q == 0) { is_prime = 0; break; }
        if (is_prime) {
            /* x = floor(cbrt(p) * 2^32) = largest x with x^3 <= p * 2^96 (x < 2^36, x^3 < 2^108) */
            unsigned __int128 target = (unsigned __int128)p << 96, lo = 0, hi = (unsigned __int128)1 << 36;
            while (hi - lo > 1) {
                unsigned __int128 mid = (lo + hi) >> 1;
                if (mid * mid * mid <= target) lo = mid; else hi = mid;
            }
            s2c_alt_K[i++] = (uint32_t)(lo & 0xFFFFFFFFu);
        }
        p++;
    }
    s2c_alt_ready = 1;
}
static uint32_t s2c_alt_ror(uint32_t x, int k) { return (x >> k) | (x << (32 - k)); }
static void s2c_alt_sha256_compression(uint32_t *state, const unsigned char *blocks64, size_t n_blocks) {
    if (!s2c_alt_ready) s2c_alt_init();
    s2c_alt_calls++;
    while (n_blocks--) {
        uint32_t W[64], v[8]; int t;
        for (t = 0; t < 16; t++)
            W[t] = ((uint32_t)blocks64[4 * t] << 24) | ((uint32_t)blocks64[4 * t + 1] << 16) | ((uint32_t)blocks64[4 * t + 2] << 8) | (uint32_t)blocks64[4 * t + 3];
        for (t = 16; t < 64; t++) {
            uint32_t a = W[t - 15], b = W[t - 2];
            uint32_t ssig0 = s2c_alt_ror(a, 7) ^ s2c_alt_ror(a, 18) ^ (a >> 3);
            uint32_t ssig1 = s2c_alt_ror(b, 17) ^ s2c_alt_ror(b, 19) ^ (b >> 10);
            W[t] = ssig1 + W[t - 7] + ssig0 + W[t - 16];
        }
        for (t = 0; t < 8; t++) v[t] = state[t];
        for (t = 0; t < 64; t++) {
            uint32_t bsig1 = s2c_alt_ror(v[4], 6) ^ s2c_alt_ror(v[4], 11) ^ s2c_alt_ror(v[4], 25);
            uint32_t ch = (v[4] & v[5]) ^ (~v[4] & v[6]);
            uint32_t t1 = v[7] + bsig1 + ch + s2c_alt_K[t] + W[t];
            uint32_t bsig0 = s2c_alt_ror(v[0], 2) ^ s2c_alt_ror(v[0], 13) ^ s2c_alt_ror(v[0], 22);
            uint32_t maj = (v[0] & v[1]) ^ (v[0] & v[2]) ^ (v[1] & v[2]);
            uint32_t t2 = bsig0 + maj;
            v[7] = v[6]; v[6] = v[5]; v[5] = v[4]; v[4] = v[3] + t1; v[3] = v[2]; v[2] = v[1]; v[1] = v[0]; v[0] = t1 + t2;
        }
        for (t = 0; t < 8; t++) state[t] += v[t];
        blocks64 += 64;
    }
}
/* install / remove the replacement; returns the call counter at installation time */
static unsigned long s2c_alt_on(int on) {
    if (on) secp256k1_context_set_sha256_compression(CTX, s2c_alt_sha256_compression);
    return s2c_alt_calls;
}
static void s2c_alt_off(int on, unsigned long before, int must_have_hashed) {
    /* harness self-check: an op that hashes through the context must have gone through the replacement */
    if (on && must_have_hashed && s2c_alt_calls == before) out_int(-76);
    if (on) secp256k1_context_set_sha256_compression(CTX, NULL);
}

static void op_s2c_opening_parse(void) {
    /* input33 #alt -> ret, opening object (only when ret = 1: unspecified by the header otherwise) */
    secp256k1_ecdsa_s2c_opening o; unsigned char *copy = malloc(33); int ret;
    memset(&o, 0xAA, sizeof(o)); memcpy(copy, BN(0, 33), 33);
    ret = secp256k1_ecdsa_s2c_opening_parse(CTX, &o, copy);
    out_int(ret); if (ret) out_pk((secp256k1_pubkey *)&o);
    free(copy);
}
static void op_s2c_opening_serialize(void) {
    /* opening_obj #alt -> ret, output33 */
    secp256k1_ecdsa_s2c_opening o; unsigned char out[33]; int ret; memset(out, 0x55, 33);
    pk_from_canon((secp256k1_pubkey *)&o, BN(0, 64));
    ret = secp256k1_ecdsa_s2c_opening_serialize(CTX, out, &o);
    out_int(ret); out_bytes(out, 33);
}
static void op_ecdsa_s2c_sign(void) {
    /* msg32 seckey32 data32 #want_opening #alt -> ret, sigobj, opening (when requested and ret = 1) */
    secp256k1_ecdsa_signature sig; secp256k1_ecdsa_s2c_opening o; int ret, alt = (int)I(4); unsigned long c;
    memset(&sig, 0xAA, sizeof(sig)); memset(&o, 0, sizeof(o));
    c = s2c_alt_on(alt);
    ret = secp256k1_ecdsa_s2c_sign(CTX, &sig, I(3) ? &o : NULL, BN(0, 32), BN(1, 32), BN(2, 32));
    out_int(ret);
    s2c_alt_off(alt, c, 1);
    if (!ret && !all_zero(sig.data, 64)) out_int(-77);    /* failure must leave an all-zero signature object */
    out_sig(&sig);
    /* on failure the opening holds whatever nonce point was stored last (not specified): masked */
    if (ret && I(3)) out_pk((secp256k1_pubkey *)&o);
}
static void op_ecdsa_s2c_verify_commit(void) {
    /* sigobj data32 opening_obj #alt -> ret */
    secp256k1_ecdsa_signature sig; secp256k1_ecdsa_s2c_opening o; int ret, alt = (int)I(3); unsigned long c;
    sig_from_canon(&sig, BN(0, 64)); pk_from_canon((secp256k1_pubkey *)&o, BN(2, 64));
    c = s2c_alt_on(alt);
    ret = secp256k1_ecdsa_s2c_verify_commit(CTX, &sig, BN(1, 32), &o);
    out_int(ret);
    s2c_alt_off(alt, c, g_ill == 0);
}
static void op_anti_exfil_host_commit(void) {
    /* rand32 #alt -> ret, commitment32 */
    unsigned char out[32]; int ret, alt = (int)I(1); unsigned long c; memset(out, 0x55, 32);
    c = s2c_alt_on(alt);
    ret = secp256k1_ecdsa_anti_exfil_host_commit(CTX, out, BN(0, 32));
    out_int(ret);
    s2c_alt_off(alt, c, 1);
    out_bytes(out, 32);
}
static void op_anti_exfil_signer_commit(void) {
    /* msg32 seckey32 rand_commitment32 #alt -> ret, opening object
     * (this function derives its nonce through the STATIC context: the replacement installed in CTX is
     * not expected to be called, the result must nevertheless be the same) */
    secp256k1_ecdsa_s2c_opening o; int ret, alt = (int)I(3); unsigned long c; memset(&o, 0, sizeof(o));
    c = s2c_alt_on(alt);
    ret = secp256k1_ecdsa_anti_exfil_signer_commit(CTX, &o, BN(0, 32), BN(1, 32), BN(2, 32));
    out_int(ret);
    s2c_alt_off(alt, c, 0);
    out_pk((secp256k1_pubkey *)&o);
}
static void op_anti_exfil_sign(void) {
    /* msg32 seckey32 host_data32 #alt -> ret, sigobj */
    secp256k1_ecdsa_signature sig; int ret, alt = (int)I(3); unsigned long c; memset(&sig, 0xAA, sizeof(sig));
    c = s2c_alt_on(alt);
    ret = secp256k1_anti_exfil_sign(CTX, &sig, BN(0, 32), BN(1, 32), BN(2, 32));
    out_int(ret);
    s2c_alt_off(alt, c, 1);
    if (!ret && !all_zero(sig.data, 64)) out_int(-77);
    out_sig(&sig);
}
static void op_anti_exfil_host_verify(void) {
    /* sigobj msg32 pkobj host_data32 opening_obj #alt -> ret */
    secp256k1_ecdsa_signature sig; secp256k1_pubkey pk; secp256k1_ecdsa_s2c_opening o; int ret, alt = (int)I(5); unsigned long c;
    sig_from_canon(&sig, BN(0, 64)); pk_from_canon(&pk, BN(2, 64)); pk_from_canon((secp256k1_pubkey *)&o, BN(4, 64));
    c = s2c_alt_on(alt);
    ret = secp256k1_anti_exfil_host_verify(CTX, &sig, BN(1, 32), &pk, BN(3, 32), &o);
    out_int(ret);
    s2c_alt_off(alt, c, 0);
}
static void op_anti_exfil_protocol(void) {
    /* msg32 seckey32 pkobj rho rho' #altmask -> commitment, O1, ret_sign, sig, O2, ret_host_verify
     * altmask bit 0: host_commit, bit 1: signer_commit, bit 2: s2c_sign, bit 3: host_verify run with the
     * replaced compression function */
    unsigned char c32[32]; secp256k1_ecdsa_s2c_opening o1, o2; secp256k1_ecdsa_signature sig; secp256k1_pubkey pk;
    int ret, m = (int)I(5); unsigned long c;
    memset(&o1, 0, sizeof(o1)); memset(&o2, 0, sizeof(o2)); memset(&sig, 0xAA, sizeof(sig)); pk_from_canon(&pk, BN(2, 64));
    c = s2c_alt_on(m & 1); ret = secp256k1_ecdsa_anti_exfil_host_commit(CTX, c32, BN(3, 32)); s2c_alt_off(m & 1, c, 1);
    if (!ret) { out_int(-75); return; }
    c = s2c_alt_on(m & 2); ret = secp256k1_ecdsa_anti_exfil_signer_commit(CTX, &o1, BN(0, 32), BN(1, 32), c32); s2c_alt_off(m & 2, c, 0);
    if (!ret) { out_int(-75); return; }
    out_bytes(c32, 32); out_pk((secp256k1_pubkey *)&o1);
    c = s2c_alt_on(m & 4); ret = secp256k1_ecdsa_s2c_sign(CTX, &sig, &o2, BN(0, 32), BN(1, 32), BN(4, 32)); s2c_alt_off(m & 4, c, 1);
    out_int(ret);
    if (!ret) return;
    out_sig(&sig); out_pk((secp256k1_pubkey *)&o2);
    c = s2c_alt_on(m & 8); ret = secp256k1_anti_exfil_host_verify(CTX, &sig, BN(0, 32), &pk, BN(3, 32), &o1); s2c_alt_off(m & 8, c, 0);
    out_int(ret);
}

static const op_entry ops_s2c[] = {
    OP(s2c_opening_parse), OP(s2c_opening_serialize), OP(ecdsa_s2c_sign), OP(ecdsa_s2c_verify_commit),
    OP(anti_exfil_host_commit), OP(anti_exfil_signer_commit), OP(anti_exfil_sign), OP(anti_exfil_host_verify),
    OP(anti_exfil_protocol),
    {NULL, NULL}
};
