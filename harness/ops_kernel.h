/* Kernel ops (C05): field, scalar, group law, scalar multiplication, hashing - internal functions
 * reached because the harness is one translation unit.  Model side: coq/Model/ApiKernel.v. */

#ifndef EXHAUSTIVE_TEST_ORDER
/* field element with value v (32 bytes, reduced mod p) and raised magnitude:
 * adds k elements of value 0 and magnitude 3 (w + (-w)) whose limbs are not normalised */
static void fe_make(secp256k1_fe *r, const unsigned char *v32, long long raise, const unsigned char *noise32) {
    secp256k1_fe w, nw; long long i; unsigned char nb[32];
    secp256k1_fe_set_b32_mod(r, v32);
    memcpy(nb, noise32 ? noise32 : v32, 32);
    for (i = 0; i < raise; i++) {
        nb[31] = (unsigned char)(nb[31] + 1 + i); nb[0] ^= (unsigned char)(0x80 >> (i & 7));
        secp256k1_fe_set_b32_mod(&w, nb);
        secp256k1_fe_negate(&nw, &w, 1);
        secp256k1_fe_add(&nw, &w);         /* value 0, magnitude 3 */
        secp256k1_fe_add(r, &nw);          /* magnitude += 3 */
    }
}
static void out_fe(secp256k1_fe *a) { unsigned char b[32]; secp256k1_fe t = *a; secp256k1_fe_normalize(&t); secp256k1_fe_get_b32(b, &t); out_bytes(b, 32); }

/* fe_op <name> a32 b32 #raise_a #raise_b #int  -> result(s) */
static void op_fe_op(void) {
    const char *name = (const char *)B(0); char nm[32] = {0}; secp256k1_fe a, b, r; unsigned char buf[32];
    long long ra = I(3), rb = I(4), k = I(5);
    memcpy(nm, name, L(0) < 31 ? L(0) : 31);
    fe_make(&a, BN(1, 32), ra, BN(2, 32)); fe_make(&b, BN(2, 32), rb, BN(1, 32));
    if (!strcmp(nm, "mul")) { secp256k1_fe_mul(&r, &a, &b); out_fe(&r); }
    else if (!strcmp(nm, "mul_alias")) { secp256k1_fe_mul(&a, &a, &b); out_fe(&a); }
    else if (!strcmp(nm, "sqr")) { secp256k1_fe_sqr(&r, &a); out_fe(&r); }
    else if (!strcmp(nm, "add")) { secp256k1_fe_add(&a, &b); out_fe(&a); }
    else if (!strcmp(nm, "add_int")) { secp256k1_fe_add_int(&a, (int)k); out_fe(&a); }
    else if (!strcmp(nm, "negate")) { secp256k1_fe_negate_unchecked(&r, &a, (int)(1 + 3 * ra)); out_fe(&r); }
    else if (!strcmp(nm, "mul_int")) { secp256k1_fe_mul_int_unchecked(&a, (int)k); out_fe(&a); }
    else if (!strcmp(nm, "half")) { secp256k1_fe_half(&a); out_fe(&a); }
    else if (!strcmp(nm, "normalize")) { secp256k1_fe_normalize(&a); secp256k1_fe_get_b32(buf, &a); out_bytes(buf, 32); }
    else if (!strcmp(nm, "normalize_var")) { secp256k1_fe_normalize_var(&a); secp256k1_fe_get_b32(buf, &a); out_bytes(buf, 32); }
    else if (!strcmp(nm, "normalize_weak")) { secp256k1_fe_normalize_weak(&a); out_fe(&a); }
    else if (!strcmp(nm, "ntz")) { out_int(secp256k1_fe_normalizes_to_zero(&a)); out_int(secp256k1_fe_normalizes_to_zero_var(&a)); }
    else if (!strcmp(nm, "inv")) { secp256k1_fe_inv(&r, &a); out_fe(&r); secp256k1_fe_inv_var(&r, &a); out_fe(&r); }
    else if (!strcmp(nm, "sqrt")) { int ok = secp256k1_fe_sqrt(&r, &a); out_int(ok); if (ok) { secp256k1_fe t; secp256k1_fe_sqr(&t, &r); out_fe(&t); } secp256k1_fe_normalize_var(&a); out_int(secp256k1_fe_is_square_var(&a)); }
    else if (!strcmp(nm, "cmp")) { secp256k1_fe_normalize_var(&a); secp256k1_fe_normalize_var(&b); out_int(secp256k1_fe_cmp_var(&a, &b)); out_int(secp256k1_fe_equal(&a, &b)); }
    else if (!strcmp(nm, "equal")) { secp256k1_fe_normalize_weak(&a); out_int(secp256k1_fe_equal(&a, &b)); }
    else if (!strcmp(nm, "is_odd_zero")) { secp256k1_fe_normalize(&a); out_int(secp256k1_fe_is_odd(&a)); out_int(secp256k1_fe_is_zero(&a)); }
    else if (!strcmp(nm, "set_b32")) { int ok = secp256k1_fe_set_b32_limit(&r, BN(1, 32)); out_int(ok); secp256k1_fe_set_b32_mod(&r, BN(1, 32)); out_fe(&r); }
    else if (!strcmp(nm, "storage")) { secp256k1_fe_storage s; secp256k1_fe_normalize(&a); secp256k1_fe_to_storage(&s, &a); secp256k1_fe_from_storage(&r, &s); out_fe(&r); }
    else if (!strcmp(nm, "cmov")) { secp256k1_fe_cmov(&a, &b, (int)k); out_fe(&a); }
    else out_int(-98);
}

static void out_sc(const secp256k1_scalar *s) { unsigned char b[32]; secp256k1_scalar_get_b32(b, s); out_bytes(b, 32); }
/* sc_op <name> a32 b32 #k */
static void op_sc_op(void) {
    char nm[32] = {0}; secp256k1_scalar a, b, r, r2; int ova = 0, ovb = 0; long long k = I(3);
    memcpy(nm, B(0), L(0) < 31 ? L(0) : 31);
    secp256k1_scalar_set_b32(&a, BN(1, 32), &ova); secp256k1_scalar_set_b32(&b, BN(2, 32), &ovb);
    if (!strcmp(nm, "set_b32")) { out_sc(&a); out_int(ova); out_int(secp256k1_scalar_set_b32_seckey(&r, BN(1, 32))); }
    else if (!strcmp(nm, "add")) { int o = secp256k1_scalar_add(&r, &a, &b); out_sc(&r); out_int(o); }
    else if (!strcmp(nm, "mul")) { secp256k1_scalar_mul(&r, &a, &b); out_sc(&r); }
    else if (!strcmp(nm, "sqr")) { secp256k1_scalar_sqr(&r, &a); out_sc(&r); }
    else if (!strcmp(nm, "negate")) { secp256k1_scalar_negate(&r, &a); out_sc(&r); }
    else if (!strcmp(nm, "half")) { secp256k1_scalar_half(&r, &a); out_sc(&r); }
    else if (!strcmp(nm, "inverse")) { secp256k1_scalar_inverse(&r, &a); out_sc(&r); secp256k1_scalar_inverse_var(&r, &a); out_sc(&r); }
    else if (!strcmp(nm, "is")) { out_int(secp256k1_scalar_is_zero(&a)); out_int(secp256k1_scalar_is_one(&a)); out_int(secp256k1_scalar_is_even(&a)); out_int(secp256k1_scalar_is_high(&a)); out_int(secp256k1_scalar_eq(&a, &b)); }
    else if (!strcmp(nm, "cond_negate")) { int s = secp256k1_scalar_cond_negate(&a, (int)k); out_sc(&a); out_int(s); }
    else if (!strcmp(nm, "cadd_bit")) { secp256k1_scalar_cadd_bit(&a, (unsigned)k & 255, (int)(k >> 8)); out_sc(&a); }
    else if (!strcmp(nm, "cmov")) { secp256k1_scalar_cmov(&a, &b, (int)k); out_sc(&a); }
    else if (!strcmp(nm, "split_128")) { secp256k1_scalar_split_128(&r, &r2, &a); out_sc(&r); out_sc(&r2); }
    else if (!strcmp(nm, "split_lambda")) { secp256k1_scalar_split_lambda(&r, &r2, &a); out_sc(&r); out_sc(&r2); }
    else if (!strcmp(nm, "mul_shift")) { secp256k1_scalar_mul_shift_var(&r, &a, &b, (unsigned)k); out_sc(&r); }
    else if (!strcmp(nm, "get_bits")) { unsigned off = (unsigned)k & 255, cnt = (unsigned)(k >> 8); out_u64(secp256k1_scalar_get_bits_var(&a, off, cnt)); if ((off + cnt - 1) >> 5 == off >> 5) out_u64(secp256k1_scalar_get_bits_limb32(&a, off, cnt)); }
    else if (!strcmp(nm, "set_int")) { secp256k1_scalar_set_int(&r, (unsigned)k); out_sc(&r); secp256k1_scalar_set_u64(&r, U(3)); out_sc(&r); }
    else out_int(-98);
}

/* ge_op <name> P64 Q64 zP32 zQ32 */
static void op_ge_op(void) {
    char nm[32] = {0}; secp256k1_gej a, b, r; secp256k1_ge ga, gb, gr; secp256k1_fe rzr;
    memcpy(nm, B(0), L(0) < 31 ? L(0) : 31);
    gej_from_wire(&a, BN(1, 64), BN(3, 32)); gej_from_wire(&b, BN(2, 64), BN(4, 32)); ge_from_wire(&ga, BN(1, 64)); ge_from_wire(&gb, BN(2, 64));
    if (!strcmp(nm, "add_var")) { secp256k1_gej_add_var(&r, &a, &b, NULL); out_gej(&r); secp256k1_gej_add_var(&r, &a, &b, a.infinity ? NULL : &rzr); out_gej(&r); }
    else if (!strcmp(nm, "add_ge")) { secp256k1_gej_add_ge(&r, &a, &gb); out_gej(&r); }
    else if (!strcmp(nm, "add_ge_var")) { secp256k1_gej_add_ge_var(&r, &a, &gb, NULL); out_gej(&r); secp256k1_gej_add_ge_var(&r, &a, &gb, a.infinity ? NULL : &rzr); out_gej(&r); }
    else if (!strcmp(nm, "add_zinv_var")) {   /* b given as (x*z^2, y*z^3) with z = zQ, bzinv = 1/z */
        secp256k1_fe z, zi, z2, z3; secp256k1_ge bs = gb;
        secp256k1_fe_set_b32_mod(&z, BN(4, 32));
        if (secp256k1_fe_normalizes_to_zero_var(&z) || gb.infinity) { secp256k1_fe_set_int(&z, 1); }
        secp256k1_fe_inv(&zi, &z); secp256k1_fe_sqr(&z2, &z); secp256k1_fe_mul(&z3, &z2, &z);
        if (!bs.infinity) { secp256k1_fe_mul(&bs.x, &bs.x, &z2); secp256k1_fe_mul(&bs.y, &bs.y, &z3); }
        secp256k1_gej_add_zinv_var(&r, &a, &bs, &zi); out_gej(&r);
    }
    else if (!strcmp(nm, "double")) { secp256k1_gej_double(&r, &a); out_gej(&r); secp256k1_gej_double_var(&r, &a, NULL); out_gej(&r); secp256k1_gej_double_var(&r, &a, &rzr); out_gej(&r); }
    else if (!strcmp(nm, "neg")) { secp256k1_gej_neg(&r, &a); out_gej(&r); secp256k1_ge_neg(&gr, &ga); out_ge(&gr); }
    else if (!strcmp(nm, "set_gej")) { secp256k1_gej t = a; secp256k1_ge_set_gej(&gr, &t); out_ge(&gr); t = a; secp256k1_ge_set_gej_var(&gr, &t); out_ge(&gr); }
    else if (!strcmp(nm, "eq")) { out_int(secp256k1_gej_eq_var(&a, &b)); out_int(secp256k1_gej_eq_ge_var(&a, &gb)); out_int(secp256k1_ge_eq_var(&ga, &gb)); if (!a.infinity) { secp256k1_fe x; secp256k1_fe_set_b32_mod(&x, BN(2, 64)); out_int(secp256k1_gej_eq_x_var(&x, &a)); } }
    else if (!strcmp(nm, "valid")) { out_int(secp256k1_ge_is_valid_var(&ga)); out_int(secp256k1_gej_is_infinity(&a)); }
    else if (!strcmp(nm, "mul_lambda")) { secp256k1_ge_mul_lambda(&gr, &ga); out_ge(&gr); }
    else if (!strcmp(nm, "cmov")) { secp256k1_gej_cmov(&a, &b, (int)I(5)); out_gej(&a); }
    else if (!strcmp(nm, "storage")) { secp256k1_ge_storage s; if (ga.infinity) { out_ge(&ga); return; } secp256k1_ge_to_storage(&s, &ga); secp256k1_ge_from_storage(&gr, &s); out_ge(&gr); }
    else if (!strcmp(nm, "set_xo")) { secp256k1_fe x; int ok; secp256k1_fe_set_b32_mod(&x, BN(1, 64)); ok = secp256k1_ge_set_xo_var(&gr, &x, (int)I(5)); out_int(ok); if (ok) out_ge(&gr); out_int(secp256k1_ge_x_on_curve_var(&x)); }
    else out_int(-98);
}
/* set_all_gej: list of points (64-byte each) + z values */
static void op_ge_set_all(void) {
    size_t n = L(0) / 64, i; secp256k1_gej *js = malloc((n + 1) * sizeof(*js)); secp256k1_ge *gs = malloc((n + 1) * sizeof(*gs)); unsigned char z[32];
    for (i = 0; i < n; i++) { memset(z, 0, 32); z[31] = (unsigned char)(i * 7 + 2); z[0] = (unsigned char)i; gej_from_wire(&js[i], B(0) + 64 * i, z); }
    if (I(1)) secp256k1_ge_set_all_gej_var(gs, js, n); else { int anyinf = 0; for (i = 0; i < n; i++) anyinf |= js[i].infinity; if (anyinf) { out_int(-98); free(js); free(gs); return; } secp256k1_ge_set_all_gej(gs, js, n); }
    for (i = 0; i < n; i++) out_ge(&gs[i]);
    free(js); free(gs);
}

/* ---- scalar multiplication ---- */
static void op_ecmult(void) {   /* P64 na32|- ng32|- zP32 */
    secp256k1_gej a, r; secp256k1_scalar na, ng;
    gej_from_wire(&a, BN(0, 64), is_none(3) ? NULL : BN(3, 32));
    if (!is_none(1)) secp256k1_scalar_set_b32(&na, BN(1, 32), NULL); else secp256k1_scalar_set_int(&na, 0);
    if (!is_none(2)) secp256k1_scalar_set_b32(&ng, BN(2, 32), NULL);
    secp256k1_ecmult(&r, &a, &na, is_none(2) ? NULL : &ng); out_gej(&r);
}
static void op_ecmult_gen(void) { secp256k1_gej r; secp256k1_scalar k; secp256k1_scalar_set_b32(&k, BN(0, 32), NULL); secp256k1_ecmult_gen(&CTX->ecmult_gen_ctx, &r, &k); out_gej(&r); }
static void op_ecmult_const(void) {   /* P64 (non-infinity) k32 */
    secp256k1_ge a; secp256k1_gej r; secp256k1_scalar k; ge_from_wire(&a, BN(0, 64)); secp256k1_scalar_set_b32(&k, BN(1, 32), NULL);
    if (a.infinity) { out_int(-98); return; }
    secp256k1_ecmult_const(&r, &a, &k); out_gej(&r);
}
static void op_ecmult_const_xonly(void) {   /* xn32 xd32|- k32 #known */
    secp256k1_fe n, d, r; secp256k1_scalar k; int ok;
    secp256k1_fe_set_b32_mod(&n, BN(0, 32)); if (!is_none(1)) secp256k1_fe_set_b32_mod(&d, BN(1, 32)); secp256k1_scalar_set_b32(&k, BN(2, 32), NULL);
    if (secp256k1_scalar_is_zero(&k) || (!is_none(1) && secp256k1_fe_normalizes_to_zero_var(&d))) { out_int(-98); return; }
    ok = secp256k1_ecmult_const_xonly(&r, &n, is_none(1) ? NULL : &d, &k, (int)I(3)); out_int(ok); if (ok) out_fe(&r);
}
typedef struct { secp256k1_scalar *sc; secp256k1_ge *pt; } multi_data;
static int multi_cb(secp256k1_scalar *sc, secp256k1_ge *pt, size_t idx, void *data) { multi_data *d = data; *sc = d->sc[idx]; *pt = d->pt[idx]; return 1; }
static void op_ecmult_multi(void) {   /* #algo(0 multi_var,1 strauss,2 pippenger,3 simple) #scratch_size(-1 = NULL) ng32|- points(64*n) scalars(32*n) */
    size_t n = L(3) / 64, i; multi_data d; secp256k1_gej r; secp256k1_scalar ng; secp256k1_scratch *scr = NULL; int ret; long long algo = I(0);
    d.sc = malloc((n + 1) * sizeof(*d.sc)); d.pt = malloc((n + 1) * sizeof(*d.pt));
    for (i = 0; i < n; i++) { ge_from_wire(&d.pt[i], B(3) + 64 * i); secp256k1_scalar_set_b32(&d.sc[i], B(4) + 32 * i, NULL); }
    if (!is_none(2)) secp256k1_scalar_set_b32(&ng, BN(2, 32), NULL);
    if (I(1) >= 0) scr = secp256k1_scratch_create(&CTX->error_callback, (size_t)I(1));
    if (algo == 0) ret = secp256k1_ecmult_multi_var(&CTX->error_callback, scr, &r, is_none(2) ? NULL : &ng, multi_cb, &d, n);
    else if (algo == 1 && scr) ret = secp256k1_ecmult_strauss_batch_single(&CTX->error_callback, scr, &r, is_none(2) ? NULL : &ng, multi_cb, &d, n);
    else if (algo == 2 && scr) ret = secp256k1_ecmult_pippenger_batch_single(&CTX->error_callback, scr, &r, is_none(2) ? NULL : &ng, multi_cb, &d, n);
    else ret = secp256k1_ecmult_multi_simple_var(&r, is_none(2) ? NULL : &ng, multi_cb, &d, n);
    out_int(ret); if (ret) out_gej(&r);
    if (scr) secp256k1_scratch_destroy(&CTX->error_callback, scr);
    free(d.sc); free(d.pt);
}
static void op_wnaf(void) {   /* k32 #w : checks sum wnaf[i]*2^i == k, digits odd, |d| < 2^(w-1); prints reconstruction */
    int wnaf[256] = {0}; secp256k1_scalar k, x, t, two; int w = (int)I(1), bits, i, ok = 1;
    secp256k1_scalar_set_b32(&k, BN(0, 32), NULL);
    bits = secp256k1_ecmult_wnaf(wnaf, 256, &k, w);
    secp256k1_scalar_set_int(&x, 0); secp256k1_scalar_set_int(&two, 2);
    for (i = bits - 1; i >= 0; i--) {
        int v = wnaf[i];
        secp256k1_scalar_mul(&x, &x, &two);
        if (v) { if (!(v & 1) || v <= -(1 << (w - 1)) || v >= (1 << (w - 1))) ok = 0; if (v < 0) { secp256k1_scalar_set_int(&t, -v); secp256k1_scalar_negate(&t, &t); } else secp256k1_scalar_set_int(&t, v); secp256k1_scalar_add(&x, &x, &t); }
    }
    out_int(ok); out_sc(&x);
}

/* ---- hashing with arbitrary write splits ---- */
static void op_sha256_chunks(void) {   /* data, cut positions as list of #ints */
    secp256k1_sha256 h; unsigned char out[32]; const secp256k1_hash_ctx *hc = secp256k1_get_hash_context(CTX); size_t pos = 0; int i;
    unsigned char *copy = malloc(L(0) + 1); memcpy(copy, B(0), L(0));
    secp256k1_sha256_initialize(&h);
    for (i = 1; i < NA; i++) { size_t cut = (size_t)I(i); if (cut < pos || cut > L(0)) continue; secp256k1_sha256_write(hc, &h, copy + pos, cut - pos); pos = cut; }
    secp256k1_sha256_write(hc, &h, copy + pos, L(0) - pos);
    secp256k1_sha256_finalize(hc, &h, out); out_bytes(out, 32); free(copy);
}
static void op_hmac_chunks(void) {   /* key data cuts... */
    secp256k1_hmac_sha256 h; unsigned char out[32]; const secp256k1_hash_ctx *hc = secp256k1_get_hash_context(CTX); size_t pos = 0; int i;
    secp256k1_hmac_sha256_initialize(hc, &h, B(0), L(0));
    for (i = 2; i < NA; i++) { size_t cut = (size_t)I(i); if (cut < pos || cut > L(1)) continue; secp256k1_hmac_sha256_write(hc, &h, B(1) + pos, cut - pos); pos = cut; }
    secp256k1_hmac_sha256_write(hc, &h, B(1) + pos, L(1) - pos);
    secp256k1_hmac_sha256_finalize(hc, &h, out); out_bytes(out, 32);
}
static void op_rfc6979_multi(void) {   /* seed, list of output lengths */
    secp256k1_rfc6979_hmac_sha256 rng; const secp256k1_hash_ctx *hc = secp256k1_get_hash_context(CTX); int i; unsigned char out[256];
    secp256k1_rfc6979_hmac_sha256_initialize(hc, &rng, B(0), L(0));
    for (i = 1; i < NA; i++) { size_t len = (size_t)I(i); if (len > sizeof(out)) len = sizeof(out); secp256k1_rfc6979_hmac_sha256_generate(hc, &rng, out, len); out_bytes(out, len); }
}
static void op_sha256_midstate(void) {   /* tag: state after SHA256(tag)||SHA256(tag) as 32 bytes + then hash of data */
    secp256k1_sha256 h; unsigned char out[32]; const secp256k1_hash_ctx *hc = secp256k1_get_hash_context(CTX); int i; unsigned char st[32];
    secp256k1_sha256_initialize_tagged(hc, &h, B(0), L(0));
    for (i = 0; i < 8; i++) secp256k1_write_be32(st + 4 * i, h.s[i]);
    out_bytes(st, 32); out_u64(h.bytes);
    secp256k1_sha256_write(hc, &h, B(1), L(1)); secp256k1_sha256_finalize(hc, &h, out); out_bytes(out, 32);
}

#if defined(SECP256K1_WIDEMUL_INT128)
/* raw limb-level entry points (translator validation): #a0..#a4 #b0..#b4 -> #r0..#r4 */
static void op_fe_mul_inner_raw(void) { uint64_t a[5], b[5], r[5]; int i; for (i = 0; i < 5; i++) { a[i] = U(i); b[i] = U(5 + i); } secp256k1_fe_mul_inner(r, a, b); for (i = 0; i < 5; i++) out_u64(r[i]); }
static void op_fe_sqr_inner_raw(void) { uint64_t a[5], r[5]; int i; for (i = 0; i < 5; i++) a[i] = U(i); secp256k1_fe_sqr_inner(r, a); for (i = 0; i < 5; i++) out_u64(r[i]); }
#else
static void op_fe_mul_inner_raw(void) { out_int(-98); }
static void op_fe_sqr_inner_raw(void) { out_int(-98); }
#endif

static const op_entry ops_kernel[] = {
    OP(fe_mul_inner_raw), OP(fe_sqr_inner_raw), OP(fe_op), OP(sc_op), OP(ge_op), OP(ge_set_all), OP(ecmult), OP(ecmult_gen), OP(ecmult_const), OP(ecmult_const_xonly),
    OP(ecmult_multi), OP(wnaf), OP(sha256_chunks), OP(hmac_chunks), OP(rfc6979_multi), OP(sha256_midstate),
    {NULL, NULL}
};
#else
static const op_entry ops_kernel[] = { {NULL, NULL} };
#endif
