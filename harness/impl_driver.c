/* Implementation-side driver of the correspondence check: the library is compiled from /repo's
 * working tree as ONE translation unit (so static functions are reachable), with every module
 * enabled.  Reads one case per line on stdin, prints one result line per case.  Same wire format as
 * the model driver (harness/driver_fast.ml). */
#ifndef SECP256K1_ZKP_VERIF
#define SECP256K1_ZKP_VERIF 1
#endif
#define ENABLE_MODULE_BPPP 1
#define ENABLE_MODULE_ECDH 1
#define ENABLE_MODULE_RECOVERY 1
#define ENABLE_MODULE_EXTRAKEYS 1
#define ENABLE_MODULE_SCHNORRSIG 1
#define ENABLE_MODULE_MUSIG 1
#define ENABLE_MODULE_SCHNORRSIG_HALFAGG 1
#define ENABLE_MODULE_ELLSWIFT 1
#define ENABLE_MODULE_ECDSA_S2C 1
#define ENABLE_MODULE_ECDSA_ADAPTOR 1
#define ENABLE_MODULE_GENERATOR 1
#define ENABLE_MODULE_RANGEPROOF 1
#define ENABLE_MODULE_WHITELIST 1
#define ENABLE_MODULE_SURJECTIONPROOF 1
#ifndef ECMULT_WINDOW_SIZE
#define ECMULT_WINDOW_SIZE 15
#endif
#ifndef COMB_BLOCKS
#define COMB_BLOCKS 43
#define COMB_TEETH 6
#endif
#include <stdio.h>
#include <stdlib.h>
#include <string.h>

/* allocation counting (C07 no-leak, C20 one-allocation): wrap malloc/free used by the library */
static long g_live_allocs = 0, g_total_allocs = 0;
static void *verif_malloc(size_t n) { void *p = malloc(n); if (p) { g_live_allocs++; g_total_allocs++; } return p; }
static void verif_free(void *p) { if (p) g_live_allocs--; free(p); }
#define malloc verif_malloc
#define free verif_free
#include "src/secp256k1.c"
#ifdef EXHAUSTIVE_TEST_ORDER
#include "src/ecmult_compute_table_impl.h"
#include "src/ecmult_gen_compute_table_impl.h"
#else
#include "src/precomputed_ecmult.c"
#include "src/precomputed_ecmult_gen.c"
#endif
#undef malloc
#undef free

/* ------------------------------------------------------------------ wire values */
typedef struct { int kind; /* 0 none, 1 int, 2 bytes */ long long i; unsigned long long u; unsigned char *b; size_t len; } arg_t;
#define MAXARGS 64
static arg_t A[MAXARGS]; static int NA;
static char *OUT; static size_t OUTCAP, OUTLEN;
static long g_ill = 0, g_err = 0;

static void out_reserve(size_t n) { if (OUTLEN + n + 64 > OUTCAP) { OUTCAP = (OUTLEN + n + 64) * 2; OUT = realloc(OUT, OUTCAP); } }
static void out_sep(void) { if (OUTLEN) OUT[OUTLEN++] = ' '; }
static void out_int(long long v) { out_reserve(32); out_sep(); OUTLEN += sprintf(OUT + OUTLEN, "#%lld", v); }
static void out_u64(unsigned long long v) { out_reserve(32); out_sep(); OUTLEN += sprintf(OUT + OUTLEN, "#%llu", v); }
static void out_none(void) { out_reserve(2); out_sep(); OUT[OUTLEN++] = '-'; }
static void out_bytes(const unsigned char *b, size_t n) {
    static const char hx[] = "0123456789abcdef"; size_t i;
    out_reserve(2 * n + 2); out_sep();
    if (n == 0) { OUT[OUTLEN++] = '.'; return; }
    for (i = 0; i < n; i++) { OUT[OUTLEN++] = hx[b[i] >> 4]; OUT[OUTLEN++] = hx[b[i] & 15]; }
}
static int is_none(int k) { return k >= NA || A[k].kind == 0; }
static const unsigned char *B(int k) { static const unsigned char empty[1] = {0}; return (k < NA && A[k].kind == 2) ? A[k].b : (k < NA && A[k].kind == 0 ? NULL : empty); }
static size_t L(int k) { return (k < NA && A[k].kind == 2) ? A[k].len : 0; }
static long long I(int k) { return (k < NA && A[k].kind == 1) ? A[k].i : 0; }
static unsigned long long U(int k) { return (k < NA && A[k].kind == 1) ? A[k].u : 0; }
/* bytes argument that must have exactly n bytes; returns zero-padded static copy otherwise */
static const unsigned char *BN(int k, size_t n) {
    static unsigned char tmp[8][512]; static int rot = 0; unsigned char *t;
    if (is_none(k)) return NULL;
    if (L(k) == n) return B(k);
    t = tmp[rot++ & 7]; memset(t, 0, 512); memcpy(t, B(k), L(k) < n ? L(k) : n); return t;
}

static void ill_cb(const char *msg, void *data) { (void)msg; (void)data; g_ill++; }
static void err_cb(const char *msg, void *data) { (void)msg; (void)data; g_err++; }
static secp256k1_context *CTX;

/* ------------------------------------------------------------------ canonical object forms */
static int all_zero(const unsigned char *b, size_t n) { size_t i; for (i = 0; i < n; i++) if (b[i]) return 0; return 1; }
/* pubkey object <- x32||y32 (all-zero -> all-zero object) */
static void pk_from_canon(secp256k1_pubkey *pk, const unsigned char *c64) {
    secp256k1_fe x, y; secp256k1_ge ge;
    if (c64 == NULL || all_zero(c64, 64)) { memset(pk, 0, sizeof(*pk)); return; }
    secp256k1_fe_set_b32_mod(&x, c64); secp256k1_fe_set_b32_mod(&y, c64 + 32);
    secp256k1_ge_set_xy(&ge, &x, &y);
    secp256k1_ge_to_bytes(pk->data, &ge);
}
static void pk_to_canon(unsigned char *c64, const secp256k1_pubkey *pk) {
    secp256k1_ge ge;
    if (all_zero(pk->data, 64)) { memset(c64, 0, 64); return; }
    secp256k1_ge_from_bytes(&ge, pk->data);
    secp256k1_fe_normalize_var(&ge.x); secp256k1_fe_normalize_var(&ge.y);
    secp256k1_fe_get_b32(c64, &ge.x); secp256k1_fe_get_b32(c64 + 32, &ge.y);
}
static void out_pk(const secp256k1_pubkey *pk) { unsigned char c[64]; pk_to_canon(c, pk); out_bytes(c, 64); }
/* signature object <- r32||s32 */
static void sig_from_canon(secp256k1_ecdsa_signature *sig, const unsigned char *c64) {
    secp256k1_scalar r, s;
    secp256k1_scalar_set_b32(&r, c64, NULL); secp256k1_scalar_set_b32(&s, c64 + 32, NULL);
    secp256k1_ecdsa_signature_save(sig, &r, &s);
}
static void sig_to_canon(unsigned char *c64, const secp256k1_ecdsa_signature *sig) {
    secp256k1_scalar r, s;
    secp256k1_ecdsa_signature_load(CTX, &r, &s, sig);
    secp256k1_scalar_get_b32(c64, &r); secp256k1_scalar_get_b32(c64 + 32, &s);
}
/* prints canonical form; a raw object that is all-zero is checked to be canonical-zero as well */
static void out_sig(const secp256k1_ecdsa_signature *sig) { unsigned char c[64]; sig_to_canon(c, sig); out_bytes(c, 64); }
static void kp_from_canon(secp256k1_keypair *kp, const unsigned char *c96) {
    memcpy(kp->data, c96, 32); pk_from_canon((secp256k1_pubkey *)&kp->data[32], c96 + 32);
}
static void out_kp(const secp256k1_keypair *kp) {
    unsigned char c[96]; memcpy(c, kp->data, 32); pk_to_canon(c + 32, (const secp256k1_pubkey *)&kp->data[32]); out_bytes(c, 96);
}

/* points on the wire: 64 bytes x||y, all-zero = infinity (same as pubkey objects) */
static void ge_from_wire(secp256k1_ge *g, const unsigned char *c64) {
    secp256k1_fe x, y;
    if (all_zero(c64, 64)) { secp256k1_ge_set_infinity(g); return; }
    secp256k1_fe_set_b32_mod(&x, c64); secp256k1_fe_set_b32_mod(&y, c64 + 32); secp256k1_ge_set_xy(g, &x, &y);
}
static void gej_from_wire(secp256k1_gej *j, const unsigned char *c64, const unsigned char *z32) {
    secp256k1_ge g; secp256k1_fe z; ge_from_wire(&g, c64); secp256k1_gej_set_ge(j, &g);
    if (z32 && !all_zero(z32, 32) && !g.infinity) { secp256k1_fe_set_b32_mod(&z, z32); if (!secp256k1_fe_normalizes_to_zero_var(&z)) secp256k1_gej_rescale(j, &z); }
}
static void out_ge(const secp256k1_ge *g) {
    unsigned char c[64]; secp256k1_ge t = *g;
    if (t.infinity) { memset(c, 0, 64); } else { secp256k1_fe_normalize(&t.x); secp256k1_fe_normalize(&t.y); secp256k1_fe_get_b32(c, &t.x); secp256k1_fe_get_b32(c + 32, &t.y); }
    out_bytes(c, 64);
}
static void out_gej(secp256k1_gej *j) { secp256k1_ge g; secp256k1_gej t = *j; secp256k1_ge_set_gej_var(&g, &t); out_ge(&g); }


typedef void (*op_fn)(void);
typedef struct { const char *name; op_fn fn; } op_entry;

#define OP(n) { #n, op_##n }
/* ops_all.h is generated by tools/vlib.py (build_impl): it includes every harness/ops_*.h, each of
 * which defines "static const op_entry ops_<name>[]", and defines ALL_OP_TABLES */
#include "ops_all.h"

static const op_entry *find_op(const char *name) {
    const op_entry *tabs[] = { ALL_OP_TABLES NULL }; int t, i;
    for (t = 0; tabs[t]; t++) for (i = 0; tabs[t][i].name; i++) if (strcmp(tabs[t][i].name, name) == 0) return &tabs[t][i];
    return NULL;
}

static int hexv(int c) { if (c >= '0' && c <= '9') return c - '0'; if (c >= 'a' && c <= 'f') return c - 'a' + 10; if (c >= 'A' && c <= 'F') return c - 'A' + 10; return -1; }

int main(void) {
    char *line = NULL; size_t cap = 0; ssize_t n;
#ifdef EXHAUSTIVE_TEST_ORDER
    secp256k1_ecmult_gen_compute_table(&secp256k1_ecmult_gen_prec_table[0][0], &secp256k1_ge_const_g, COMB_BLOCKS, COMB_TEETH, COMB_SPACING);
    secp256k1_ecmult_compute_two_tables(secp256k1_pre_g, secp256k1_pre_g_128, WINDOW_G, &secp256k1_ge_const_g);
#endif
    CTX = secp256k1_context_create(SECP256K1_CONTEXT_NONE);
    secp256k1_context_set_illegal_callback(CTX, ill_cb, NULL);
    secp256k1_context_set_error_callback(CTX, err_cb, NULL);
#ifdef VERIF_EXACT_BUFFERS
    static unsigned char *exact_blk[MAXARGS];
#endif
    while ((n = getline(&line, &cap, stdin)) >= 0) {
        char *save = NULL, *tok; const op_entry *op; int i;
        while (n > 0 && (line[n-1] == '\n' || line[n-1] == '\r')) line[--n] = 0;
        tok = strtok_r(line, " ", &save);
        OUTLEN = 0; out_reserve(16);
        if (!tok) { puts(""); fflush(stdout); continue; }
        op = find_op(tok);
        NA = 0;
        while ((tok = strtok_r(NULL, " ", &save)) != NULL && NA < MAXARGS) {
            arg_t *a = &A[NA++]; size_t tl = strlen(tok), j;
            a->kind = 0; a->len = 0; a->i = 0; a->u = 0;
            if (strcmp(tok, "-") == 0) { a->kind = 0; }
            else if (strcmp(tok, ".") == 0) { a->kind = 2; a->len = 0; a->b = (unsigned char *)tok; }
            else if (tok[0] == '#') { a->kind = 1; a->i = strtoll(tok + 1, NULL, 10); a->u = (tok[1] == '-') ? (unsigned long long)a->i : strtoull(tok + 1, NULL, 10); if (tok[1] != '-' && a->u > 0x7fffffffffffffffULL) a->i = (long long)a->u; }
            else { a->kind = 2; a->len = tl / 2; a->b = (unsigned char *)tok; for (j = 0; j < a->len; j++) a->b[j] = (unsigned char)(hexv(tok[2*j]) * 16 + hexv(tok[2*j+1])); }
        }
#ifdef VERIF_EXACT_BUFFERS
        /* sanitizer builds: every byte-string argument lives in a heap block of exactly its length (also length 0), so that a
           read or write past the declared length is seen by AddressSanitizer */
        /* (a zero-length request would be served as one byte by the sanitizer's allocator: an empty string points one past a 1-byte block) */
        for (i = 0; i < NA; i++) if (A[i].kind == 2) { unsigned char *h = malloc(A[i].len ? A[i].len : 1); if (A[i].len) memcpy(h, A[i].b, A[i].len); exact_blk[i] = h; A[i].b = A[i].len ? h : h + 1; }
#endif
        g_ill = 0; g_err = 0;
        if (!op) { out_int(-98); }
        else op->fn();
#ifdef VERIF_EXACT_BUFFERS
        for (i = 0; i < NA; i++) if (A[i].kind == 2) free(exact_blk[i]);
#endif
        if (g_ill) { out_reserve(32); out_sep(); OUTLEN += sprintf(OUT + OUTLEN, "ILL%ld", g_ill); }
        if (g_err) { out_reserve(32); out_sep(); OUTLEN += sprintf(OUT + OUTLEN, "ERR%ld", g_err); }
        OUT[OUTLEN] = 0; puts(OUT); fflush(stdout);
        for (i = 0; i < NA; i++) A[i].kind = 0;
    }
    fflush(stdout);
    return 0;
}
