"""Translator tie (DESIGN 2.2): regenerate coq/Gen/*.v from the C source of $VERIF_REPO, re-check the
Kernel proofs over the regenerated definitions, validate the translator against the compiled C code."""
import os, sys
sys.path.insert(0, os.path.dirname(os.path.abspath(__file__)))
import vlib, c2coq
FUNCS = ['secp256k1_fe_mul_inner', 'secp256k1_fe_sqr_inner']
# branch-free primitives (C06/C05): (function, value-returning callees it may call)
CT_FUNCS = [('secp256k1_scalar_is_zero', []), ('secp256k1_scalar_cmov', []), ('secp256k1_fe_impl_cmov', []), ('secp256k1_fe_storage_cmov', []),
            ('secp256k1_int_cmov', []), ('secp256k1_scalar_check_overflow', []), ('secp256k1_scalar_is_high', []),
            ('secp256k1_scalar_cond_negate', ['secp256k1_scalar_is_zero']), ('secp256k1_scalar_negate', ['secp256k1_scalar_is_zero']),
            ('secp256k1_fe_impl_normalize', []), ('secp256k1_fe_impl_normalize_weak', []), ('secp256k1_fe_impl_normalizes_to_zero', []),
            ('secp256k1_fe_impl_negate_unchecked', []), ('secp256k1_fe_impl_add', []), ('secp256k1_fe_impl_half', []), ('secp256k1_fe_impl_is_odd', []),
            ('secp256k1_scalar_add', ['secp256k1_scalar_check_overflow'], ['secp256k1_scalar_reduce'], 'bind'), ('secp256k1_scalar_half', [], [], 'bind'), ('secp256k1_scalar_eq', []),
            ('secp256k1_fe_impl_mul_int_unchecked', []), ('secp256k1_fe_impl_to_storage', []), ('secp256k1_fe_impl_from_storage', []), ('secp256k1_fe_impl_get_b32', []),
            ('secp256k1_fe_impl_set_b32_limit', [], ['secp256k1_fe_impl_set_b32_mod']),
            ('secp256k1_scalar_set_b32', ['secp256k1_scalar_check_overflow'], ['secp256k1_read_be64', 'secp256k1_scalar_reduce'], 'bind'), ('secp256k1_scalar_get_b32', [], ['secp256k1_write_be64']),
            ('secp256k1_scalar_mul_512', []), ('secp256k1_scalar_sqr_512', []),
            ('secp256k1_scalar_reduce_512', ['secp256k1_scalar_check_overflow'], ['secp256k1_scalar_reduce'], 'bind')]
# the 32-bit-limb scalar code (compiled only with USE_FORCE_WIDEMUL_INT64 / on 32-bit targets), translated in bind style
W32 = ['-DUSE_FORCE_WIDEMUL_INT64=1']
K32_FUNCS = [dict(fn='secp256k1_scalar_mul_512', short='scalar8x32_mul_512', defines=W32, style='bind'),
             dict(fn='secp256k1_scalar_sqr_512', short='scalar8x32_sqr_512', defines=W32, style='bind'),
             dict(fn='secp256k1_scalar_check_overflow', short='scalar8x32_check_overflow', defines=W32, style='let'),
             dict(fn='secp256k1_scalar_reduce_512', short='scalar8x32_reduce_512', defines=W32, style='bind', deps=['scalar8x32_check_overflow'], inl=['secp256k1_scalar_reduce']),
             dict(fn='secp256k1_fe_mul_inner', short='fe10x26_mul_inner', defines=W32, style='bind'),
             dict(fn='secp256k1_fe_sqr_inner', short='fe10x26_sqr_inner', defines=W32, style='bind'),
             dict(fn='secp256k1_fe_impl_add', short='fe10x26_add', defines=W32), dict(fn='secp256k1_fe_impl_negate_unchecked', short='fe10x26_negate', defines=W32),
             dict(fn='secp256k1_fe_impl_mul_int_unchecked', short='fe10x26_mul_int', defines=W32), dict(fn='secp256k1_fe_impl_half', short='fe10x26_half', defines=W32),
             dict(fn='secp256k1_gej_double', short='gej_double32', defines=W32, style='bind', flatten=True, inl=['secp256k1_fe_impl_mul', 'secp256k1_fe_impl_sqr'],
                  cps=['fe10x26_mul_inner', 'fe10x26_sqr_inner', 'fe10x26_add', 'fe10x26_negate', 'fe10x26_half', 'fe10x26_mul_int']),
             dict(fn='secp256k1_fe_impl_normalizes_to_zero', short='fe10x26_ntz', defines=W32), dict(fn='secp256k1_fe_impl_cmov', short='fe10x26_cmov', defines=W32),
             dict(fn='secp256k1_gej_add_ge', short='gej_add_ge32', defines=W32, style='bind', flatten=True, inl=['secp256k1_fe_impl_mul', 'secp256k1_fe_impl_sqr'],
                  cps=['fe10x26_mul_inner', 'fe10x26_sqr_inner', 'fe10x26_add', 'fe10x26_negate', 'fe10x26_half', 'fe10x26_mul_int', 'fe10x26_cmov', 'fe10x26_ntz']),
             dict(fn='secp256k1_ge_set_gej_zinv', short='ge_set_gej_zinv32', defines=W32, style='bind', flatten=True, inl=['secp256k1_fe_impl_mul', 'secp256k1_fe_impl_sqr'], cps=['fe10x26_mul_inner', 'fe10x26_sqr_inner', 'fe10x26_add', 'fe10x26_negate', 'fe10x26_half', 'fe10x26_mul_int']),
             dict(fn='secp256k1_ge_set_ge_zinv', short='ge_set_ge_zinv32', defines=W32, style='bind', flatten=True, inl=['secp256k1_fe_impl_mul', 'secp256k1_fe_impl_sqr'], cps=['fe10x26_mul_inner', 'fe10x26_sqr_inner', 'fe10x26_add', 'fe10x26_negate', 'fe10x26_half', 'fe10x26_mul_int']),
             dict(fn='secp256k1_gej_rescale', short='gej_rescale32', defines=W32, style='bind', flatten=True, inl=['secp256k1_fe_impl_mul', 'secp256k1_fe_impl_sqr'], cps=['fe10x26_mul_inner', 'fe10x26_sqr_inner', 'fe10x26_add', 'fe10x26_negate', 'fe10x26_half', 'fe10x26_mul_int']),
             dict(fn='secp256k1_scalar_mul', short='scalar8x32_mul', defines=W32, style='bind', cps=['scalar8x32_mul_512', 'scalar8x32_reduce_512']),
             dict(fn='secp256k1_scalar_sqr', short='scalar8x32_sqr', defines=W32, style='bind', cps=['scalar8x32_sqr_512', 'scalar8x32_reduce_512'])]
K32_PROOFS = [('scalar8x32_mul_512', 'Kernel/Scalar8x32Mul512.vo', 'scalar8x32_mul_512_correct'),
              ('scalar8x32_sqr_512', 'Kernel/Scalar8x32Mul512.vo', 'scalar8x32_sqr_512_correct'),
              ('scalar8x32_check_overflow', 'Kernel/Scalar8x32Check.vo', 'scalar8x32_check_overflow_correct'),
              ('scalar8x32_reduce_512', 'Kernel/Scalar8x32Reduce512.vo', 'scalar8x32_reduce_512_correct'),
              ('fe10x26_mul_inner', 'Kernel/Field10x26.vo', 'fe10x26_mul_inner_correct'), ('fe10x26_sqr_inner', 'Kernel/Field10x26.vo', 'fe10x26_sqr_inner_correct'),
              ('scalar8x32_mul', 'Kernel/Scalar8x32Mul.vo', 'scalar8x32_mul_correct'), ('scalar8x32_sqr', 'Kernel/Scalar8x32Mul.vo', 'scalar8x32_sqr_correct'),
              ('fe10x26_add', 'Kernel/Field10x26Wp.vo', 'fe10x26_add_wp'), ('fe10x26_negate', 'Kernel/Field10x26Wp.vo', 'fe10x26_negate_wp'), ('fe10x26_mul_int', 'Kernel/Field10x26Wp.vo', 'fe10x26_mul_int_wp'),
              ('fe10x26_half', 'Kernel/Field10x26Wp.vo', 'fe10x26_half_wp'), ('gej_double32', 'Kernel/GejDouble32.vo', 'gej_double32_correct'),
              ('fe10x26_ntz', 'Kernel/Field10x26Ntz.vo', 'fe10x26_ntz_correct'), ('fe10x26_cmov', 'Kernel/Field10x26Ntz.vo', 'fe10x26_cmov_wp'), ('gej_add_ge32', 'Kernel/GejAddGe32.vo', 'gej_add_ge32_correct'),
              ('ge_set_gej_zinv32', 'Kernel/GroupSmall32.vo', 'ge_set_gej_zinv32_correct'), ('ge_set_ge_zinv32', 'Kernel/GroupSmall32.vo', 'ge_set_ge_zinv32_correct'), ('gej_rescale32', 'Kernel/GroupSmall32.vo', 'gej_rescale32_correct')]
K32_SHAPES = {'scalar8x32_mul_512': 16, 'scalar8x32_sqr_512': 8, 'scalar8x32_reduce_512': 16, 'scalar8x32_check_overflow': 8, 'scalar8x32_mul': 16, 'scalar8x32_sqr': 8, 'fe10x26_mul_inner': 'F20', 'fe10x26_sqr_inner': 'F10',
              'fe10x26_add': 'F20', 'fe10x26_negate': 'F10M', 'fe10x26_mul_int': 'F10M', 'fe10x26_half': 'F10', 'gej_double32': 'IF30', 'fe10x26_ntz': 'F10', 'fe10x26_cmov': 'F20I', 'gej_add_ge32': 'IF50', 'ge_set_gej_zinv32': 'IF30', 'ge_set_ge_zinv32': 'IF30', 'gej_rescale32': 'F40'}
N32 = [0xD0364141, 0xBFD25E8C, 0xAF48A03B, 0xBAAEDCE6, 0xFFFFFFFE, 0xFFFFFFFF, 0xFFFFFFFF, 0xFFFFFFFF]
def raw32_inputs(rng, n):
    if isinstance(n, str):      # 10x26 field limbs within the magnitude contract: below 2^30, every tenth below 2^26; I = a flag first, M = a small integer last
        out = []
        if n.startswith('I'): out.append(rng.below(2)); n = n[1:]
        tail = []
        if n.endswith('M'): tail = [rng.choice([1, 2, 3, 8, 31])]; n = n[:-1]
        elif n.endswith('I') and len(n) > 1: tail = [rng.below(2)]; n = n[:-1]
        if tail or out: return out + raw32_inputs(rng, n) + tail
        for j in range(int(n[1:])):
            w = 26 if j % 10 == 9 else 30
            out.append(rng.choice([0, 1, (1 << w) - 1, (1 << w) - 2, (1 << 26) - 1 if w == 30 else (1 << 22) - 1, rng.bits(w), 1 << (w - 1)]))
        return out
    c = rng.below(6)
    if c == 0: return [rng.choice([0, 1, 0xFFFFFFFF, 0xFFFFFFFE, 0x7FFFFFFF, 0x80000000, rng.bits(32)]) for _ in range(n)]
    if c == 1: return [0xFFFFFFFF] * n
    if c == 2: return [(N32[i % 8] + rng.choice([-1, 0, 0, 1])) & 0xFFFFFFFF for i in range(n)]
    if c == 3: return [rng.bits(32) for _ in range(n)]
    if c == 4: return [rng.choice([0xFFFFFFFF, 0xFFFFFFFE, rng.bits(32) | 0xFFFF0000]) for _ in range(n)]
    return [rng.choice([0, rng.bits(32)]) for _ in range(n)]
# the 4x64 scalar multiplication once more in bind style, and its callers translated as calls (composition)
K64_FUNCS = [dict(fn='secp256k1_scalar_check_overflow', short='scalar_check_overflow', key='k64_check_overflow'),
             dict(fn='secp256k1_scalar_mul_512', short='scalar_mul_512b', key='scalar_mul_512b', style='bind'),
             dict(fn='secp256k1_scalar_sqr_512', short='scalar_sqr_512b', key='scalar_sqr_512b', style='bind'),
             dict(fn='secp256k1_scalar_reduce_512', short='scalar_reduce_512', key='k64_reduce_512', style='bind', deps=['k64_check_overflow'], inl=['secp256k1_scalar_reduce']),
             dict(fn='secp256k1_scalar_mul', short='scalar_mul', key='scalar_mul', style='bind', cps=['scalar_mul_512b', 'k64_reduce_512']),
             dict(fn='secp256k1_scalar_sqr', short='scalar_sqr', key='scalar_sqr', style='bind', cps=['scalar_sqr_512b', 'k64_reduce_512'])]
# group law on top of the field kernel: the field functions once more as separately translated callees, point doubling as calls to them
FIELD_CALLEES = ['k64_fe_mul_inner', 'k64_fe_sqr_inner', 'k64_fe_add', 'k64_fe_negate', 'k64_fe_half', 'k64_fe_mul_int']
K64_FUNCS += [dict(fn='secp256k1_fe_mul_inner', short='fe_mul_inner', key='k64_fe_mul_inner'), dict(fn='secp256k1_fe_sqr_inner', short='fe_sqr_inner', key='k64_fe_sqr_inner'),
              dict(fn='secp256k1_fe_impl_add', short='fe_impl_add', key='k64_fe_add'), dict(fn='secp256k1_fe_impl_negate_unchecked', short='fe_impl_negate_unchecked', key='k64_fe_negate'),
              dict(fn='secp256k1_fe_impl_half', short='fe_impl_half', key='k64_fe_half'), dict(fn='secp256k1_fe_impl_mul_int_unchecked', short='fe_impl_mul_int_unchecked', key='k64_fe_mul_int'),
              dict(fn='secp256k1_gej_double', short='gej_double', key='gej_double', style='bind', flatten=True, cps=FIELD_CALLEES, inl=['secp256k1_fe_impl_mul', 'secp256k1_fe_impl_sqr']),
              dict(fn='secp256k1_ge_set_gej_zinv', short='ge_set_gej_zinv', key='ge_set_gej_zinv', style='bind', flatten=True, cps=FIELD_CALLEES, inl=['secp256k1_fe_impl_mul', 'secp256k1_fe_impl_sqr']),
              dict(fn='secp256k1_ge_set_ge_zinv', short='ge_set_ge_zinv', key='ge_set_ge_zinv', style='bind', flatten=True, cps=FIELD_CALLEES, inl=['secp256k1_fe_impl_mul', 'secp256k1_fe_impl_sqr']),
              dict(fn='secp256k1_gej_rescale', short='gej_rescale', key='gej_rescale', style='bind', flatten=True, cps=FIELD_CALLEES, inl=['secp256k1_fe_impl_mul', 'secp256k1_fe_impl_sqr']),
              dict(fn='secp256k1_fe_impl_cmov', short='fe_impl_cmov', key='k64_fe_cmov'), dict(fn='secp256k1_fe_impl_normalizes_to_zero', short='fe_impl_normalizes_to_zero', key='k64_fe_ntz'),
              dict(fn='secp256k1_gej_add_ge', short='gej_add_ge', key='gej_add_ge', style='bind', flatten=True, cps=FIELD_CALLEES + ['k64_fe_cmov', 'k64_fe_ntz'], inl=['secp256k1_fe_impl_mul', 'secp256k1_fe_impl_sqr'])]
K64_PROOFS = [('scalar_mul_512b', 'Kernel/ScalarMul4x64.vo', 'scalar_mul_512b_wp'), ('scalar_sqr_512b', 'Kernel/ScalarMul4x64.vo', 'scalar_sqr_512b_wp'),
              ('scalar_mul', 'Kernel/ScalarMul.vo', 'scalar_mul_correct'), ('scalar_sqr', 'Kernel/ScalarMul.vo', 'scalar_sqr_correct'),
              ('gej_double', 'Kernel/GejDouble.vo', 'gej_double_correct'), ('ge_set_gej_zinv', 'Kernel/GroupSmall.vo', 'ge_set_gej_zinv_correct'), ('gej_rescale', 'Kernel/GroupSmall.vo', 'gej_rescale_correct'), ('ge_set_ge_zinv', 'Kernel/GroupSmall.vo', 'ge_set_ge_zinv_correct'),
              ('gej_add_ge', 'Kernel/GejAddGe.vo', 'gej_add_ge_correct')]
PROOFS = {'secp256k1_fe_mul_inner': ('Kernel/Field5x52.vo', 'fe_mul_inner_correct'),
          'secp256k1_fe_sqr_inner': ('Kernel/Field5x52Sqr.vo', 'fe_sqr_inner_correct')}
# proofs over the regenerated branch-free primitives: (function, .vo, theorem)
CT_PROOFS = [('secp256k1_fe_impl_set_b32_limit', 'Kernel/FieldSetB32.vo', 'fe_set_b32_limit_correct'), ('secp256k1_fe_impl_get_b32', 'Kernel/FieldGetB32.vo', 'fe_get_b32_correct'),
             ('secp256k1_scalar_set_b32', 'Kernel/ScalarB32.vo', 'scalar_set_b32_correct'), ('secp256k1_scalar_get_b32', 'Kernel/ScalarB32.vo', 'scalar_get_b32_correct'),
             ('secp256k1_scalar_eq', 'Kernel/SmallPrims.vo', 'scalar_eq_correct'), ('secp256k1_int_cmov', 'Kernel/SmallPrims.vo', 'int_cmov_correct'), ('secp256k1_fe_impl_is_odd', 'Kernel/SmallPrims.vo', 'fe_is_odd_correct'),
             ('secp256k1_fe_impl_mul_int_unchecked', 'Kernel/MorePrims.vo', 'fe_mul_int_correct'), ('secp256k1_fe_impl_to_storage', 'Kernel/MorePrims.vo', 'fe_to_storage_correct'),
             ('secp256k1_fe_impl_from_storage', 'Kernel/MorePrims.vo', 'fe_from_storage_correct'), ('secp256k1_scalar_cond_negate', 'Kernel/MorePrims.vo', 'scalar_cond_negate_correct'),
             ('secp256k1_fe_impl_normalize_weak', 'Kernel/FieldNormalize2.vo', 'fe_normalize_weak_correct'), ('secp256k1_fe_impl_normalizes_to_zero', 'Kernel/FieldNormalize2.vo', 'fe_normalizes_to_zero_correct'),
             ('secp256k1_scalar_add', 'Kernel/ScalarAdd.vo', 'scalar_add_correct'), ('secp256k1_scalar_half', 'Kernel/ScalarAdd.vo', 'scalar_half_correct'),
             ('secp256k1_fe_impl_add', 'Kernel/FieldPrims.vo', 'fe_add_correct'), ('secp256k1_fe_impl_negate_unchecked', 'Kernel/FieldPrims.vo', 'fe_negate_correct'),
             ('secp256k1_fe_impl_half', 'Kernel/FieldPrims.vo', 'fe_half_correct'), ('secp256k1_scalar_negate', 'Kernel/FieldPrims.vo', 'scalar_negate_correct'),
             ('secp256k1_scalar_reduce_512', 'Kernel/ScalarReduce512.vo', 'scalar_reduce_512_correct'),
             ('secp256k1_scalar_mul_512', 'Kernel/ScalarMul512.vo', 'scalar_mul_512_correct'),
             ('secp256k1_scalar_sqr_512', 'Kernel/ScalarSqr512.vo', 'scalar_sqr_512_correct'),
             ('secp256k1_fe_impl_normalize', 'Kernel/FieldNormalize.vo', 'fe_normalize_correct'),
             ('secp256k1_scalar_check_overflow', 'Kernel/Scalar4x64.vo', 'scalar_check_overflow_correct'),
             ('secp256k1_scalar_is_high', 'Kernel/Scalar4x64.vo', 'scalar_is_high_correct'),
             ('secp256k1_scalar_cmov', 'Kernel/CtPrimitives.vo', 'scalar_cmov_correct'),
             ('secp256k1_fe_impl_cmov', 'Kernel/CtPrimitives.vo', 'fe_cmov_correct'),
             ('secp256k1_fe_storage_cmov', 'Kernel/CtPrimitives.vo', 'fe_storage_cmov_correct'),
             ('secp256k1_scalar_is_zero', 'Kernel/CtPrimitives.vo', 'scalar_is_zero_correct')]

def _item(item):
    """(fn, deps[, inlines[, style]]) or a dict with fn, deps, inl, style, defines, short"""
    if isinstance(item, dict): d = dict(item)
    else: d = dict(fn=item[0], deps=item[1], inl=item[2] if len(item) > 2 else [], style=item[3] if len(item) > 3 else 'let')
    d.setdefault('deps', []); d.setdefault('inl', []); d.setdefault('cps', []); d.setdefault('style', 'let'); d.setdefault('defines', []); d.setdefault('short', d['fn'].replace('secp256k1_', ''))
    d.setdefault('key', d['fn'] if not d['defines'] else d['short'])
    return d

def prefetch(lists):
    """fetch the clang ASTs of every function of the given lists in parallel (one clang run per function, ~1.3 s each)"""
    import concurrent.futures
    want = set()
    for funcs in lists:
        for item in funcs:
            d = _item(item)
            for f in [d['fn']] + list(d['inl']): want.add((f, tuple(d['defines'])))
    def one(x):
        try: c2coq.ast_of(vlib.REPO, x[0], x[1])
        except Exception: pass      # reported when the function is translated
    with concurrent.futures.ThreadPoolExecutor(16) as ex: list(ex.map(one, sorted(want)))

def all_lists(): return [[(f, []) for f in FUNCS], CT_FUNCS, K64_FUNCS, K32_FUNCS]

def proof_obligations(chk):
    """every property rests on the limb-level kernel: the theorems about the regenerated kernel functions are obligations of every
    check (translation from the working tree + the proofs are up to date with it); C05 additionally validates the translator"""
    prefetch(all_lists())
    results = {}
    for funcs in all_lists(): results.update(regenerate(funcs))
    bad = [k for k, (ok, m) in results.items() if not ok]
    chk.obligation('kernel functions translate from the working tree (%d translations)' % len(results), not bad, ', '.join(bad))
    proofs = [(fn.replace('secp256k1_', ''), vo, thm) for fn, (vo, thm) in PROOFS.items()] + [(f.replace('secp256k1_', ''), vo, thm) for f, vo, thm in CT_PROOFS] + list(K64_PROOFS) + list(K32_PROOFS)
    rc, log = vlib.coq_make(sorted(set(vo for _, vo, _ in proofs)), timeout=int(os.environ.get('VERIF_KERNEL_TIMEOUT', '750')) * 2)
    stale = []
    for short, vo, thm in proofs:
        gv = os.path.join(vlib.COQ, 'Gen', short + '.v'); vop = os.path.join(vlib.COQ, vo)
        if not (os.path.exists(vop) and os.path.exists(gv) and os.path.getmtime(vop) >= os.path.getmtime(gv)): stale.append(thm)
    chk.obligation('kernel theorems over the regenerated code check (%d theorems: field mul/sqr/normalize/parse, scalar mul/sqr/reduce/add/negate in both limb sizes, ...)' % len(proofs), not stale, 'not checked: %s\n%s' % (', '.join(stale), log[-2500:]))
    chk.extra['kernel_theorems'] = len(proofs)
    for thm in stale: search_failing_input(chk, thm)

def regenerate(funcs=None):
    """returns {key: (ok, message)}; writes Gen/<short>.v only when its content changes.  key = C function name, or the
    short name for functions translated under non-default configuration macros (e.g. the 8x32 scalar code)"""
    gen = os.path.join(vlib.COQ, 'Gen'); os.makedirs(gen, exist_ok=True)
    res = {}; specs = {}
    for item in (funcs or [(f, []) for f in FUNCS]):
        d = _item(item); fn = d['fn']; key = d['key']
        path = os.path.join(gen, d['short'] + '.v')
        try:
            if any(x not in specs for x in d['deps'] + d['cps']): raise c2coq.Unsupported('a function it calls could not be translated')
            text, ins, outs = c2coq.translate(vlib.REPO, fn, defines=d['defines'], flatten=d.get('flatten', False), callees={specs[x][1]: specs[x][0] for x in d['deps']},
                                              requires=[specs[x][2] for x in d['deps'] + d['cps']], cps={specs[x][1]: (specs[x][2],) + specs[x][3] for x in d['cps']}, inlines=d['inl'], style=d['style'], short=d['short'],
                                              callee_names={specs[x][1]: specs[x][2] for x in d['deps']})
            L = c2coq.translate.last
            specs[key] = (L.param_spec, fn, d['short'], (L.param_names, L.sig_ins, L.sig_outs))
            text = text.replace(vlib.REPO, '<repo>')
            if not os.path.exists(path) or open(path).read() != text + '\n':
                open(path, 'w').write(text + '\n')
            res[key] = (True, '%d inputs, %d outputs, %d lets' % (len(ins), len(outs), text.count(' let ') + text.count('  bind ')))
        except c2coq.Unsupported as e:
            res[key] = (False, 'translator cannot translate: ' + str(e))
    return res

def limb_cases(rng, n, nin):
    """limb vectors within the magnitude contract (limbs < 2^56, top limb < 2^52), biased to carries"""
    out = []
    for i in range(n):
        v = []
        for j in range(nin):
            top = (j % 5 == 4); w = 52 if top else 56
            c = rng.below(7)
            v.append([0, 1, (1 << w) - 1, (1 << w) - 2, (1 << 52) - 1 if not top else (1 << 48) - 1, rng.bits(w), 1 << (w - 1)][c])
        out.append(v)
    return out

RAW_SHAPES = {   # input shapes of the raw ops: S scalar limbs (4 x u64), F field limbs (5), T storage limbs (4), I flag, M magnitude, P non-negative int
 'scalar_is_zero': 'S', 'scalar_cmov': 'SSI', 'fe_impl_cmov': 'FFI', 'fe_storage_cmov': 'TTI', 'int_cmov': 'PPI', 'scalar_check_overflow': 'S',
 'scalar_is_high': 'S', 'scalar_cond_negate': 'sI', 'scalar_negate': 's', 'fe_impl_normalize': 'F', 'fe_impl_normalize_weak': 'F',
 'fe_impl_normalizes_to_zero': 'F', 'fe_impl_negate_unchecked': 'fM', 'fe_impl_add': 'ff', 'fe_impl_half': 'f', 'fe_impl_is_odd': '1', 'scalar_mul_512': 'SS', 'scalar_sqr_512': 'S', 'scalar_reduce_512': 'SS', 'fe_impl_set_b32_limit': 'B', 'fe_impl_get_b32': 'F', 'gej_double': 'Iggg', 'gej_add_ge': 'Iggggg', 'ge_set_gej_zinv': 'Iggg', 'ge_set_ge_zinv': 'Iggg', 'gej_rescale': 'gggg', 'scalar_eq': 'SE', 'scalar_set_b32': 'N', 'scalar_get_b32': 'S', 'scalar_add': 'ss', 'scalar_half': 's', 'scalar_mul_512b': 'SS', 'scalar_sqr_512b': 'S', 'scalar_mul': 'SS', 'scalar_sqr': 'S'}
N_LIMBS = [0xBFD25E8CD0364141, 0xBAAEDCE6AF48A03B, 0xFFFFFFFFFFFFFFFE, 0xFFFFFFFFFFFFFFFF]
def raw_inputs(rng, shape):
    v = []
    for ch in shape:
        if ch in 'ST':
            c = rng.below(5)
            if c == 0: v += [0, 0, 0, 0]
            elif c == 1: v += [x + rng.choice([-1, 0, 1]) if 0 < x < (1 << 64) - 1 else x for x in N_LIMBS]
            elif c == 2: v += [(1 << 64) - 1] * 4
            else: v += [rng.choice([0, 1, (1 << 64) - 1, rng.bits(64), N_LIMBS[i]]) for i in range(4)]
        elif ch == 's':      # a reduced scalar (below the group order)
            x = rng.choice([0, 1, (1 << 256) - 432420386565659656852420866394968145600, rng.bits(256), rng.bits(128)]) % 0xFFFFFFFFFFFFFFFFFFFFFFFFFFFFFFFEBAAEDCE6AF48A03BBFD25E8CD0364141
            v += [(x >> (64 * i)) & ((1 << 64) - 1) for i in range(4)]
        elif ch == 'F':      # any magnitude up to 32: limbs < 2^57, top < 2^53
            v += [rng.choice([0, 1, (1 << 52) - 1, (1 << 52), (1 << 57) - 1, 0xFFFFEFFFFFC2F, 0xFFFFEFFFFFC2E, rng.bits(52), rng.bits(57)]) for _ in range(4)] + [rng.choice([0, (1 << 48) - 1, 1 << 48, (1 << 53) - 1, rng.bits(48), rng.bits(53)])]
        elif ch == 'f':      # magnitude <= 8
            v += [rng.choice([0, 1, (1 << 52) - 1, (1 << 55) - 1, rng.bits(52), rng.bits(55)]) for _ in range(4)] + [rng.choice([0, (1 << 48) - 1, (1 << 51) - 1, rng.bits(48), rng.bits(51)])]
        elif ch == 'B':      # 32 bytes: big-endian strings around the field prime and with saturated limb patterns
            P_ = (1 << 256) - (1 << 32) - 977
            x = rng.choice([P_, P_ - 1, P_ + 1, P_ - rng.bits(32), (1 << 256) - 1, (1 << 256) - (1 << 104) + rng.bits(52), (1 << 256) - 1 - (rng.bits(52) << 52), rng.bits(256), 0, 1, P_ - (1 << 52), ((1 << 256) - 1) ^ (rng.bits(52) << (52 * rng.below(5)))]) % (1 << 256)
            v += list(x.to_bytes(32, 'big'))
        elif ch == 'N':      # 32 bytes: big-endian strings around the group order
            N_ = 0xFFFFFFFFFFFFFFFFFFFFFFFFFFFFFFFEBAAEDCE6AF48A03BBFD25E8CD0364141
            x = rng.choice([N_, N_ - 1, N_ + 1, N_ - rng.bits(64), N_ + rng.bits(64), (1 << 256) - 1, (1 << 256) - 1 - rng.bits(128), rng.bits(256), 0, 1, N_ ^ (1 << rng.below(256)), N_ - (1 << (64 * rng.below(4)))]) % (1 << 256)
            v += list(x.to_bytes(32, 'big'))
        elif ch == 'E':      # a second scalar that is equal to the previous four limbs or differs from them in one bit of one limb
            prev = v[-4:]; c = rng.below(3)
            if c == 0: v += prev
            elif c == 1: j = rng.below(4); v += [x ^ (1 << rng.below(64)) if i == j else x for i, x in enumerate(prev)]
            else: v += [rng.bits(64) for _ in range(4)]
        elif ch == 'g':      # coordinates of a Jacobian point within the group code's magnitude contract (limbs below 2^55, top below 2^52)
            v += [rng.choice([0, 1, (1 << 52) - 1, (1 << 55) - 1, 0xFFFFEFFFFFC2F, 8 * ((1 << 52) - 1), rng.bits(52), rng.bits(55)]) for _ in range(4)] + [rng.choice([0, (1 << 48) - 1, (1 << 52) - 1, 8 * ((1 << 48) - 1), rng.bits(48), rng.bits(52)])]
        elif ch == '1': v.append(rng.bits(52))
        elif ch == 'I': v.append(rng.below(2))
        elif ch == 'M': v.append(8)
        elif ch == 'P': v.append(rng.choice([0, 1, 2, 3, 0x7fffffff, rng.bits(31)]))
    return v

SEARCH = {   # theorem -> (which, 32-bit?, raw op whose arguments the witness is)
 'scalar_mul_512_correct': (0, False, 'raw_scalar_mul_512'), 'scalar_sqr_512_correct': (1, False, 'raw_scalar_sqr_512'), 'scalar_reduce_512_correct': (2, False, 'raw_scalar_reduce_512'),
 'scalar8x32_mul_512_correct': (0, True, 'raw8x32_mul_512'), 'scalar8x32_sqr_512_correct': (1, True, 'raw8x32_sqr_512'), 'scalar8x32_reduce_512_correct': (2, True, 'raw8x32_reduce_512')}
def search_failing_input(chk, thm):
    """a kernel theorem over the regenerated code no longer checks: look for a concrete operand on which the compiled function
    differs from an independent reference (drawn and compared inside the C harness: ~200k operands per second and core)"""
    import subprocess, concurrent.futures
    if thm not in SEARCH: return None
    which, w32, op = SEARCH[thm]
    impl = vlib.build_impl(chk.dir, 'impl_k32', ['-DUSE_FORCE_WIDEMUL_INT64=1']) if w32 else vlib.build_impl(chk.dir, 'impl_default')
    per = chk.scale(400000, 6000000)
    def one(seed):
        p = subprocess.run([impl], input=('raw_search #%d #%d #%d\n' % (which, seed, per)).encode(), stdout=subprocess.PIPE, timeout=3000)
        return p.stdout.decode().strip()
    with concurrent.futures.ThreadPoolExecutor(16) as ex:
        outs = list(ex.map(one, [chk.seed * 64 + i for i in range(16)]))
    chk.notes.append('failing-input search for %s: %d operands drawn' % (thm, 16 * per))
    for o in outs:
        if o.startswith('#1 '):
            line = op + ' ' + o[3:]
            chk.violations.append({'kind': 'correspondence', 'class': 'kernel_proof_broken_and_failing_operand_found', 'case': line,
                                   'impl': 'differs from the reference (schoolbook product / long division by n)', 'model': thm + ' does not check over the regenerated code', 'witness': line})
            return line
    return None

def single_obligation(chk, fn):
    """one regenerated function and its kernel theorem as obligations of another property's check (e.g. C03: the range test of
    field-element parsing)"""
    item = [it for it in CT_FUNCS if _item(it)['fn'] == fn][0]
    res = regenerate([item])
    ok, msg = res[fn]
    chk.obligation('translate %s from the working tree' % fn, ok, msg)
    for f, vo, thm in CT_PROOFS:
        if f != fn or not ok: continue
        rc, log = vlib.coq_make([vo], timeout=int(os.environ.get('VERIF_KERNEL_TIMEOUT', '750')))
        gv = os.path.join(vlib.COQ, 'Gen', fn.replace('secp256k1_', '') + '.v'); vop = os.path.join(vlib.COQ, vo)
        chk.obligation('kernel theorem %s over regenerated %s' % (thm, fn), os.path.exists(vop) and os.path.getmtime(vop) >= os.path.getmtime(gv), log[-3000:])

def ct_obligations(chk, validate=True):
    """C06/C05: the branch-free primitives are inside the translator's subset (no branch, no loop, no variable
    index, no division), regenerated from the working tree; generated code validated against the compiled C"""
    res = regenerate(CT_FUNCS)
    for fn, (ok, msg) in res.items():
        chk.obligation('%s is branch-free straight-line code with fixed memory addresses (c2coq subset)' % fn, ok, msg)
    chk.extra['ct_functions'] = {fn: msg for fn, (ok, msg) in res.items()}
    return res

def kernel_obligations(chk):
    prefetch(all_lists())
    res = regenerate()
    ctres = ct_obligations(chk)
    for fn, (ok, msg) in res.items():
        chk.obligation('translate ' + fn + ' from the working tree', ok, msg)
    targets = sorted(set(PROOFS[fn][0] for fn in FUNCS if res[fn][0]))
    rc, log = vlib.coq_make(targets, timeout=int(os.environ.get('VERIF_KERNEL_TIMEOUT', '750')))
    for fn in FUNCS:
        if not res[fn][0]: continue
        vo, thm = PROOFS[fn]
        built = os.path.exists(os.path.join(vlib.COQ, vo)) and os.path.getmtime(os.path.join(vlib.COQ, vo)) >= os.path.getmtime(os.path.join(vlib.COQ, 'Gen', fn.replace('secp256k1_', '') + '.v'))
        chk.obligation('kernel theorem %s over regenerated %s' % (thm, fn), built and ('Error' not in log or rc == 0), log[-3000:])
    tg = sorted(set(vo for fn, vo, thm in CT_PROOFS if ctres.get(fn, (False,))[0]))
    rc2, log2 = vlib.coq_make(tg, timeout=int(os.environ.get('VERIF_KERNEL_TIMEOUT', '750')))
    for fn, vo, thm in CT_PROOFS:
        if not ctres.get(fn, (False,))[0]: continue
        gv = os.path.join(vlib.COQ, 'Gen', fn.replace('secp256k1_', '') + '.v'); vop = os.path.join(vlib.COQ, vo)
        built = os.path.exists(vop) and os.path.getmtime(vop) >= os.path.getmtime(gv)
        chk.obligation('kernel theorem %s over regenerated %s' % (thm, fn), built, log2[-3000:])
        if not built: search_failing_input(chk, thm)
    # the default-configuration scalar multiplication in bind style and its callers (composition)
    k64 = regenerate(K64_FUNCS)
    for key, (ok, msg) in k64.items():
        if key.startswith('k64_'): continue      # the same translations as above, listed again only as callees
        chk.obligation('translate %s (bind style / calls kept) from the working tree' % key, ok, msg)
    tg4 = sorted(set(vo for key, vo, thm in K64_PROOFS if k64.get(key, (False,))[0]))
    rc4, log4 = vlib.coq_make(tg4, timeout=int(os.environ.get('VERIF_KERNEL_TIMEOUT', '750')))
    for key, vo, thm in K64_PROOFS:
        if not k64.get(key, (False,))[0]: continue
        gv = os.path.join(vlib.COQ, 'Gen', key + '.v'); vop = os.path.join(vlib.COQ, vo)
        built = os.path.exists(vop) and os.path.getmtime(vop) >= os.path.getmtime(gv)
        chk.obligation('kernel theorem %s over regenerated %s' % (thm, key), built, log4[-3000:])
    # the 32-bit-limb scalar code: translated with USE_FORCE_WIDEMUL_INT64, proved, validated against the int64 build below
    k32 = regenerate(K32_FUNCS)
    for key, (ok, msg) in k32.items():
        chk.obligation('translate %s (8x32 scalar code, USE_FORCE_WIDEMUL_INT64) from the working tree' % key, ok, msg)
    tg3 = sorted(set(vo for key, vo, thm in K32_PROOFS if k32.get(key, (False,))[0]))
    rc3, log3 = vlib.coq_make(tg3, timeout=int(os.environ.get('VERIF_KERNEL_TIMEOUT', '750')) * 2)
    for key, vo, thm in K32_PROOFS:
        if not k32.get(key, (False,))[0]: continue
        gv = os.path.join(vlib.COQ, 'Gen', key + '.v'); vop = os.path.join(vlib.COQ, vo)
        built = os.path.exists(vop) and os.path.getmtime(vop) >= os.path.getmtime(gv)
        chk.obligation('kernel theorem %s over regenerated %s' % (thm, key), built, log3[-3000:])
        if not built: search_failing_input(chk, thm)
    chk.extra['translated_functions'] = dict({fn: msg for fn, (ok, msg) in res.items()}, **{k: m for k, (ok, m) in list(k32.items()) + list(k64.items())})
    chk.k32 = k32
    # translator validation: generated Gallina (extracted) vs the compiled C function
    try:
        gmodel = vlib.ensure_model('gen')
    except vlib.BuildError as e:
        chk.obligation('generated kernel extracts and runs', False, str(e)); return
    impl = os.path.join(chk.dir, 'impl_default')
    if not os.path.exists(impl): impl = vlib.build_impl(chk.dir, 'impl_default')
    cases = []
    n = chk.scale(3000, 20000)
    for v in limb_cases(chk.rng, n, 10): cases.append(('fe_mul_inner_raw ' + ' '.join('#%d' % x for x in v), 'translator_validation_mul'))
    for v in limb_cases(chk.rng, n, 5): cases.append(('fe_sqr_inner_raw ' + ' '.join('#%d' % x for x in v), 'translator_validation_sqr'))
    for fn, (ok, msg) in list(ctres.items()) + [(k, v) for k, v in k64.items() if not k.startswith('k64_')]:
        short = fn.replace('secp256k1_', '')
        if not ok or short not in RAW_SHAPES: continue
        for i in range(chk.scale(400, 3000)):
            cases.append(('raw_%s %s' % (short, ' '.join('#%d' % x for x in raw_inputs(chk.rng, RAW_SHAPES[short]))), 'translator_validation_' + short))
    chk.correspond(impl, gmodel, 'translator validation: generated Gallina vs compiled C (limb level)', cases=cases)
    impl32 = vlib.build_impl(chk.dir, 'impl_k32', ['-DUSE_FORCE_WIDEMUL_INT64=1'])
    cases = []
    for key, (ok, msg) in k32.items():
        if not ok or key not in K32_SHAPES: continue
        for i in range(chk.scale(400, 3000)):
            cases.append(('raw%s %s' % (key[6:] if key.startswith('scalar') else '_' + key, ' '.join('#%d' % x for x in raw32_inputs(chk.rng, K32_SHAPES[key]))), 'translator_validation_' + key))
    chk.correspond(impl32, gmodel, 'translator validation: generated Gallina (8x32 scalar code) vs the int64 build', cases=cases)

if __name__ == '__main__':
    for fn, r in regenerate().items(): print(fn, r)
