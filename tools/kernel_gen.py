"""translator tie for C05 (filled in below)"""
def kernel_obligations(chk):
    pass
