"""Source-level lint for the constant-time layer (C06): for a curated list of functions that run on secret data, count the
control-flow constructs (if, ?:, &&, ||, while, do-while with a non-constant condition, switch, goto, early return) and collect the
callees whose name ends in _var; compare with the committed baseline (corpus/ct_baseline.json, computed from the pinned tree).
A function that GAINS a branch or a variable-time callee fails the obligation.  Loops `for` are counted separately (their bounds are
public constants in these functions).  This is a syntactic obligation, not a proof of constant time."""
import os, sys, json, concurrent.futures
sys.path.insert(0, os.path.dirname(os.path.abspath(__file__)))
import c2coq
CT_FUNCTIONS = [
 'secp256k1_gej_rescale', 'secp256k1_gej_add_ge', 'secp256k1_gej_double', 'secp256k1_ge_set_gej', 'secp256k1_ge_to_storage', 'secp256k1_ge_from_storage',
 'secp256k1_ecmult_gen', 'secp256k1_ecmult_gen_blind', 'secp256k1_ecmult_const', 'secp256k1_ecmult_const_xonly', 'secp256k1_ecmult_const_odd_multiples_table_globalz',
 'secp256k1_fe_impl_inv', 'secp256k1_scalar_inverse', 'secp256k1_modinv64', 'secp256k1_modinv64_divsteps_59', 'secp256k1_modinv64_update_de_62', 'secp256k1_modinv64_update_fg_62', 'secp256k1_modinv64_normalize_62',
 'secp256k1_fe_sqrt', 'secp256k1_fe_impl_cmov', 'secp256k1_fe_storage_cmov', 'secp256k1_ge_storage_cmov', 'secp256k1_scalar_cmov', 'secp256k1_scalar_cond_negate', 'secp256k1_scalar_negate',
 'secp256k1_scalar_add', 'secp256k1_scalar_mul', 'secp256k1_scalar_half', 'secp256k1_scalar_set_b32_seckey', 'secp256k1_scalar_cadd_bit',
 'secp256k1_fe_impl_normalize', 'secp256k1_fe_impl_normalize_weak', 'secp256k1_fe_impl_normalizes_to_zero', 'secp256k1_fe_impl_negate_unchecked', 'secp256k1_fe_impl_half',
 'secp256k1_ecdsa_sig_sign', 'secp256k1_ecdsa_sign_inner', 'secp256k1_ec_pubkey_create_helper', 'secp256k1_ec_pubkey_create', 'secp256k1_ec_seckey_negate', 'secp256k1_ec_seckey_tweak_add_helper',
 'secp256k1_ec_seckey_tweak_add', 'secp256k1_ec_seckey_tweak_mul', 'secp256k1_keypair_create', 'secp256k1_keypair_xonly_tweak_add', 'secp256k1_keypair_load', 'secp256k1_keypair_seckey_load',
 'secp256k1_schnorrsig_sign_internal', 'secp256k1_ecdh', 'secp256k1_ellswift_create', 'secp256k1_ellswift_xdh', 'secp256k1_ellswift_xswiftec_inv_var',
 'secp256k1_musig_nonce_gen_internal', 'secp256k1_musig_partial_sign', 'secp256k1_ecdsa_adaptor_encrypt', 'secp256k1_ecdsa_adaptor_decrypt', 'secp256k1_dleq_prove',
 'secp256k1_ecdsa_s2c_sign', 'secp256k1_ec_commit_seckey', 'secp256k1_whitelist_sign', 'secp256k1_pedersen_ecmult', 'secp256k1_pedersen_blind_sum', 'secp256k1_borromean_sign',
 'secp256k1_sha256_transform', 'secp256k1_memczero', 'secp256k1_int_cmov',
 # API entry points that handle a secret and were not yet listed (round 5: a variable-time multiplication added to adaptor_recover)
 'secp256k1_ecdsa_adaptor_recover', 'secp256k1_ecdsa_sign', 'secp256k1_ecdsa_sign_recoverable', 'secp256k1_schnorrsig_sign32', 'secp256k1_schnorrsig_sign_custom',
 'secp256k1_musig_nonce_gen', 'secp256k1_musig_nonce_gen_counter', 'secp256k1_ecdsa_s2c_verify_commit', 'secp256k1_ecdsa_anti_exfil_signer_commit', 'secp256k1_anti_exfil_sign',
 'secp256k1_rangeproof_sign_impl', 'secp256k1_rangeproof_genrand', 'secp256k1_surjectionproof_generate', 'secp256k1_keypair_sec', 'secp256k1_ec_seckey_verify',
 'secp256k1_nonce_function_bip340', 'nonce_function_rfc6979_impl', 'secp256k1_ecmult_gen_context_blind', 'secp256k1_ecmult_gen_scalar_diff',
]
# variable-time functions whose name does not say so
VARTIME = {'secp256k1_ecmult', 'secp256k1_ecmult_strauss_wnaf', 'secp256k1_ecmult_pippenger_wnaf', 'secp256k1_ecmult_strauss_batch', 'secp256k1_ecmult_pippenger_batch',
           'secp256k1_ecmult_strauss_batch_single', 'secp256k1_ecmult_pippenger_batch_single', 'secp256k1_ecmult_wnaf', 'secp256k1_wnaf_fixed', 'secp256k1_ecmult_odd_multiples_table',
           'secp256k1_ge_set_xquad', 'secp256k1_ge_set_xo_var', 'secp256k1_ecdsa_sig_verify', 'secp256k1_ecdsa_sig_recover', 'secp256k1_schnorrsig_verify', 'secp256k1_ecdsa_verify'}
def metrics(node):
    m = {'if': 0, 'cond': 0, 'logic': 0, 'loop': 0, 'for': 0, 'switch_goto': 0, 'return': 0, 'var_calls': []}
    def walk(n):
        if isinstance(n, dict):
            k = n.get('kind')
            if k == 'IfStmt': m['if'] += 1
            elif k == 'ConditionalOperator': m['cond'] += 1
            elif k == 'BinaryOperator' and n.get('opcode') in ('&&', '||'): m['logic'] += 1
            elif k == 'WhileStmt': m['loop'] += 1
            elif k == 'DoStmt':
                c = c2coq.lit(n['inner'][1]) if len(n.get('inner', [])) > 1 else {}
                if not (c.get('kind') == 'IntegerLiteral' and c.get('value') == '0'): m['loop'] += 1
            elif k == 'ForStmt': m['for'] += 1
            elif k in ('SwitchStmt', 'GotoStmt'): m['switch_goto'] += 1
            elif k == 'ReturnStmt': m['return'] += 1
            elif k == 'DeclRefExpr':
                nm = n.get('referencedDecl', {}).get('name', '')
                if n.get('referencedDecl', {}).get('kind') == 'FunctionDecl' and (nm.endswith('_var') or nm in VARTIME): m['var_calls'].append(nm)
            for v in n.values(): walk(v)
        elif isinstance(n, list):
            for v in n: walk(v)
    walk(node)
    m['var_calls'] = sorted(set(m['var_calls']))
    return m
MODS = 'ECDH MUSIG ELLSWIFT ECDSA_S2C ECDSA_ADAPTOR GENERATOR RANGEPROOF WHITELIST SURJECTIONPROOF BPPP SCHNORRSIG_HALFAGG'.split()
def measure(repo, defines=None):
    defines = defines if defines is not None else ['-DENABLE_MODULE_%s=1' % m for m in MODS]
    def one(fn):
        try: return fn, metrics(c2coq._ast_of(repo, fn, defines))
        except Exception as e: return fn, {'missing': str(e)[:100]}
    with concurrent.futures.ThreadPoolExecutor(16) as ex: return dict(ex.map(one, CT_FUNCTIONS))
BASELINE = os.path.join(os.path.dirname(os.path.dirname(os.path.abspath(__file__))), 'corpus', 'ct_baseline.json')
def compare(cur, base):
    """list of (function, what) where the current tree has MORE control flow or a new variable-time callee than the baseline"""
    bad = []
    for fn, b in base.items():
        c = cur.get(fn, {'missing': 'not measured'})
        if 'missing' in b: continue
        if 'missing' in c: bad.append((fn, 'no longer found: ' + c['missing'])); continue
        for k in ('if', 'cond', 'logic', 'loop', 'switch_goto', 'return'):
            if c[k] > b[k]: bad.append((fn, '%s: %d -> %d' % (k, b[k], c[k])))
        new = [x for x in c['var_calls'] if x not in b['var_calls']]
        if new: bad.append((fn, 'new variable-time callee: ' + ', '.join(new)))
    return bad
if __name__ == '__main__':
    repo = os.environ.get('VERIF_REPO', '/repo')
    cur = measure(repo)
    if len(sys.argv) > 1 and sys.argv[1] == '--write-baseline':
        json.dump(cur, open(BASELINE, 'w'), indent=1, sort_keys=True); print('baseline written:', len(cur), 'functions;', sum(1 for v in cur.values() if 'missing' in v), 'missing')
    else:
        print(compare(cur, json.load(open(BASELINE))))
