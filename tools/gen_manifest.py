#!/usr/bin/env python3
"""regenerates MANIFEST.json from the table below (claimed checks) + properties.jsonl"""
import json, os
ROOT = os.path.dirname(os.path.dirname(os.path.abspath(__file__)))
props = [json.loads(l) for l in open(os.path.join(ROOT, 'properties.jsonl'))]
CLAIMS = {
 'C01': dict(text='Theorems in coq/Properties_C01.v about the executable ECDSA model (exact acceptance condition of verification incl. the two x-comparisons, failure => all-zero signature for every nonce function, low-S, RFC 6979 keyed with msg mod n) hold for all inputs; the model is tied to the C code by running both on the same generated cases (boundary keys/messages, chosen-s signatures, crafted x(R)=r+n cases, all recovery ids, custom nonce callbacks), harness compiled from the working tree incl. the recovery module.',
             note='Coq kernel; extraction directives (ExtrOcamlBasic/String/ZBigInt + Z.land/lor/lxor); correspondence harness samples; completeness theorems assume MathFacts (group law, p/n prime) as explicit hypothesis; compiler/libc/asm modelled not verified.', ref='5/C01',
             tech='Coq proof about executable model + model/implementation correspondence'),
 'C02': dict(text='Theorems in coq/Properties_C02.v: the model of schnorrsig_verify/sign equals a literal BIP-340 transcription for messages of every length; aux=NULL equals zero aux; non-canonical r>=p / s>=n rejected. Tie: correspondence on every message length 0..300 (+ sampled to 1e5), all 512 bit flips, both key parities, custom nonce callbacks.',
             note='as C01', ref='5/C02', tech='Coq proof about executable model + model/implementation correspondence'),
 'C03': dict(text='Theorems in coq/Properties_C03.v about the DER/compact/pubkey codec models for ALL byte strings (exact acceptance, serializer size contract, round trips, failed parse leaves an object that never verifies). Tie: structural enumeration (every length x prefix, DER grammar variants x boundary scalars, truncation at every position) compared between model and C.',
             note='as C01', ref='5/C03', tech='Coq proof about executable model + exhaustive structural correspondence'),
 'C04': dict(text='Theorems in coq/Properties_C04.v: exact failure sets of every key operation, all-zero output on failure, commutation of secret/public operations over any tweak chain (under MathFacts), comparison = lexicographic order of compressed encodings, sort = sorted permutation. Tie: correspondence on boundary scalars, chains up to 12 steps, lists 0..200 keys.',
             note='as C01', ref='5/C04', tech='Coq proof about executable model + model/implementation correspondence'),
}
m = {"version": 1, "setup_cmd": "./setup.sh",
     "hooks": {"guard": "SECP256K1_ZKP_VERIF", "enable": "the harness (harness/impl_driver.c) is compiled as one translation unit that includes /repo/src/secp256k1.c with -DSECP256K1_ZKP_VERIF=1; no source hook was needed so far",
               "baseline_off_cmd": "cmake --build /repo/_build && ctest --test-dir /repo/_build -j8 --timeout 900", "source_commits": [], "add_only": True},
     "engines": [{"name": "coq-model-correspondence", "path": "/verif/check", "serves_properties": sorted(CLAIMS), "kind_free_text": "Coq 8.16.1 theorems about an executable Gallina model; model extracted to OCaml and run against the C implementation built from /repo working tree"}],
     "checks": [], "not_applicable": []}
for p in props:
    c = CLAIMS.get(p['id'])
    if c:
        m['checks'].append({"property_id": p['id'], "quick_cmd": "./check %s --tier quick" % p['id'], "thorough_cmd": "./check %s --tier thorough" % p['id'],
                            "evidence_file": "/verif/evidence/%s.json" % p['id'], "replay_cmd_template": "./check %s --replay {path}" % p['id'], "engine": "coq-model-correspondence",
                            "level_claimed": {"category": "proof", "text": c['text'], "design_ref": "DESIGN.md section " + c['ref']}, "level_note": c['note'], "technique": c['tech']})
    else:
        m['not_applicable'].append({"property_id": p['id'], "reason": "check under construction in this session (model and theorems being written); not claimed yet"})
json.dump(m, open(os.path.join(ROOT, 'MANIFEST.json'), 'w'), indent=1)
print('claimed:', sorted(CLAIMS))
