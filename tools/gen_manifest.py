#!/usr/bin/env python3
"""regenerates MANIFEST.json from the table below (claimed checks) + properties.jsonl"""
import json, os
ROOT = os.path.dirname(os.path.dirname(os.path.abspath(__file__)))
props = [json.loads(l) for l in open(os.path.join(ROOT, 'properties.jsonl'))]
CLAIMS = {
 'C01': dict(text='Theorems in coq/Properties_C01.v about the executable ECDSA model (exact acceptance condition of verification incl. the two x-comparisons, failure => all-zero signature for every nonce function, low-S, RFC 6979 keyed with msg mod n) hold for all inputs; the model is tied to the C code by running both on the same generated cases (boundary keys/messages, chosen-s signatures, crafted x(R)=r+n cases, all recovery ids, custom nonce callbacks), harness compiled from the working tree incl. the recovery module.',
             note='Coq kernel; extraction directives (ExtrOcamlBasic/String/ZBigInt + Z.land/lor/lxor); correspondence harness samples; completeness theorems assume MathFacts (group law, p/n prime) as explicit hypothesis; compiler/libc/asm modelled not verified.', ref='5/C01',
             tech='Coq proof about executable model + model/implementation correspondence'),
 'C02': dict(text='Theorems in coq/Properties_C02.v: the model of schnorrsig_verify/sign equals a literal BIP-340 transcription for messages of every length; aux=NULL equals zero aux; non-canonical r>=p / s>=n rejected. Tie: correspondence on every message length 0..300 (+ sampled to 1e5), all 512 bit flips, both key parities, custom nonce callbacks.',
             note='as C01', ref='5/C02', tech='Coq proof about executable model + model/implementation correspondence'),
 'C03': dict(text='Theorems in coq/Properties_C03.v about the DER/compact/pubkey codec models for ALL byte strings (exact acceptance, serializer size contract, round trips, failed parse leaves an object that never verifies). Tie: structural enumeration (every length x prefix, DER grammar variants x boundary scalars, truncation at every position) compared between model and C.',
             note='as C01', ref='5/C03', tech='Coq proof about executable model + exhaustive structural correspondence'),
 'C04': dict(text='Theorems in coq/Properties_C04.v: exact failure sets of every key operation, all-zero output on failure, commutation of secret/public operations over any tweak chain (under MathFacts), comparison = lexicographic order of compressed encodings, sort = sorted permutation. Tie: correspondence on boundary scalars, chains up to 12 steps, lists 0..200 keys.',
             note='as C01', ref='5/C04', tech='Coq proof about executable model + model/implementation correspondence'),
'C11': dict(text='Theorems in coq/Properties_C11.v about the surjection-proof model: parse_exact (canonical encodings only: <= 256 inputs, no padding bits, exact length), both round trips, verify_exact (= counts consistent, scalars < n, Borromean ring over output - selected inputs), named rejection theorems, initialize soundness, generate=>verify under MathFacts. Tie: correspondence incl. a model-side prover that re-encodes chosen small scalars as s+n, every n_inputs field value around the limit, all padding patterns.',
             note='as C01; generate_verifies assumes MathFacts and non-degenerate hash-derived scalars (named premises)', ref='5/C11', tech='Coq proof about executable model + model/implementation correspondence'),
 'C16': dict(text='Theorems in coq/Properties_C16.v about the whitelist model: verify_exact, verify_rejects_empty (the model IS the property), verify_rejects_count_mismatch / zero_or_big_scalar, sign_rejects_bad_secret, parse_exact + round trips, sign=>verify under MathFacts; plus whitelist_verify_as_coded_accepts_empty_ring (refutation witness of the pre-fix code, finding F1, fixed in /repo commit 375d45d). Tie: correspondence on key counts 0..8 and 254/255, forged-from-public-data strings for every count, bit flips, s+n re-encodings.',
             note='as C01', ref='5/C16 and 6 (F1)', tech='Coq proof about executable model + model/implementation correspondence'),
 'C17': dict(text='Theorems in coq/Properties_C17.v: inc_aggregate_assoc (incremental aggregation over ANY split = one-shot aggregation, byte for byte), aggregate_length contract, aggverify_eq_spec, aggverify_rejects_{length,r_ge_p,offcurve,s_ge_n}, aggregate=>aggverify under MathFacts. Tie: correspondence on secp256k1 AND on the repository EXHAUSTIVE_TEST_ORDER=13 group (where every s has re-encodings s+13k).',
             note='as C01', ref='5/C17', tech='Coq proof about executable model + correspondence on secp256k1 and the order-13 group'),
 'C18': dict(text='Theorems in coq/Properties_C18.v: ecdh_exact / xdh_exact (output = selected hash of the coordinates of secret*Peer iff 1 <= secret < n; failure masking), ecdh_symmetric under MathFacts, ElligatorSwift decode/encode/create theorems in _partial form (they rest on run-time checks of the model that never fired; the algebraic identities of the map are not proved). Tie: byte-identical encodings (same PRNG draws and branches), all special cases of the map, BIP-324 vectors.',
             note='as C01; ElligatorSwift algebra is covered by correspondence only (stated as partial)', ref='5/C18', tech='Coq proof about executable model + model/implementation correspondence'),
 'C19': dict(text='Theorems in coq/Properties_C19.v: verify_eq_spec and 10 named rejection theorems (length, non-pow2, generator count, rho = 0, scalar >= n, bad point, sign byte > 3, infinity with sign, small scratch), prove_length, generators_prefix_consistent, parse rejects malformed lists without leak. Completeness of the norm argument is NOT proved (checked on a toy curve by vm_compute and by honest proofs in the correspondence). Tie: byte-identical prover, verifier over all mutations of honest proofs, generator lists 0..256 with leak counting.',
             note='as C01; prove_verifies not proved (partial)', ref='5/C19', tech='Coq proof about executable model + model/implementation correspondence'),
}
m = {"version": 1, "setup_cmd": "./setup.sh",
     "hooks": {"guard": "SECP256K1_ZKP_VERIF", "enable": "the harness (harness/impl_driver.c) is compiled as one translation unit that includes /repo/src/secp256k1.c with -DSECP256K1_ZKP_VERIF=1; no source hook was needed so far",
               "baseline_off_cmd": "cmake --build /repo/_build && ctest --test-dir /repo/_build -j8 --timeout 900", "source_commits": [], "add_only": True},
     "engines": [{"name": "coq-model-correspondence", "path": "/verif/check", "serves_properties": sorted(CLAIMS), "kind_free_text": "Coq 8.16.1 theorems about an executable Gallina model; model extracted to OCaml and run against the C implementation built from /repo working tree"}],
     "checks": [], "not_applicable": []}
for p in props:
    c = CLAIMS.get(p['id'])
    if c:
        m['checks'].append({"property_id": p['id'], "quick_cmd": "./check %s --tier quick" % p['id'], "thorough_cmd": "./check %s --tier thorough" % p['id'],
                            "evidence_file": "/verif/evidence/%s.json" % p['id'], "replay_cmd_template": "./check %s --replay {path}" % p['id'], "engine": "coq-model-correspondence",
                            "level_claimed": {"category": "proof", "text": c['text'], "design_ref": "DESIGN.md section " + c['ref']}, "level_note": c['note'], "technique": c['tech']})
    else:
        m['not_applicable'].append({"property_id": p['id'], "reason": "check under construction in this session (model and theorems being written); not claimed yet"})
json.dump(m, open(os.path.join(ROOT, 'MANIFEST.json'), 'w'), indent=1)
print('claimed:', sorted(CLAIMS))
