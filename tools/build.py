#!/usr/bin/env python3
import sys, os
sys.path.insert(0, os.path.dirname(os.path.abspath(__file__)))
import vlib
def main():
    a = sys.argv[1:]
    if a[0] == 'impl':
        flags = a[2:]
        print(vlib.build_impl(a[1], flags=flags))
    elif a[0] == 'model':
        print(vlib.ensure_model(a[1], slow=('--slow' in a)))
    elif a[0] == 'coq':
        rc, o = vlib.coq_make(a[1:]); print(o[-8000:]); sys.exit(rc)
try: main()
except vlib.BuildError as e: print(str(e)); sys.exit(2)
