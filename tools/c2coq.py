#!/usr/bin/env python3
"""c2coq: translate straight-line C integer functions of /repo (clang JSON AST, after macro expansion) into
Gallina in continuation-passing form, one `let` per C assignment, with explicit machine-integer wraps.

  Definition <f>_k {T} (inputs : Z) (k : outs -> T) : T := let v := e in ... k outs.

Subset: locals of integer type, fixed-index array parameters (flattened to scalars), the
secp256k1_u128_* helper calls of int128_native (given their arithmetic meaning), + - * & | ^ << >> on
uint64_t/uint32_t/unsigned __int128, casts, compound assignments.  Anything else is rejected with an error
(never silently skipped).  Semantics of the integer types: x86-64 LP64 (Kernel/CSem.v)."""
import json, sys, subprocess, os, re, tempfile
WIDTH = {'uint64_t': 64, 'unsigned long': 64, 'unsigned long long': 64, 'secp256k1_uint128': 128, 'unsigned __int128': 128, '__uint128_t': 128, 'uint128_t': 128,
         'uint32_t': 32, 'unsigned int': 32, 'size_t': 64, 'unsigned char': 8, 'uint8_t': 8, 'uint16_t': 16}
class Unsupported(Exception): pass
NOOP_CALLS = ('secp256k1_scalar_verify', 'secp256k1_fe_verify', 'secp256k1_fe_verify_magnitude', 'secp256k1_ge_verify', 'secp256k1_gej_verify')

# whole-object copies are translated for these struct types: (member, number of elements) - the limb count follows the configuration
STRUCT_FIELDS = {'secp256k1_fe': lambda s: [('n', 10 if s.limbs32 else 5)]}
# constant global objects that translated functions read (value checked against the source on every run: see translate())
def tname(t):
    t = t.replace('const ', '').replace(' const', '').replace('volatile ', '').strip()
    return t
def width(t):
    t = tname(t)
    if t in WIDTH: return WIDTH[t]
    if t in ('int', 'int32_t'): return -32
    if t in ('int64_t', 'long'): return -64
    raise Unsupported('type ' + t)
def wrapfn(w):
    if w < 0: raise Unsupported('signed arithmetic')
    return {64: 'u64', 128: 'u128', 32: 'u32', 8: 'u8', 16: 'u16'}[w]

def strip(n):
    while n['kind'] in ('ImplicitCastExpr', 'ParenExpr') and n.get('castKind') not in ('IntegralCast',):
        n = n['inner'][0]
    return n

def lit(n):
    while n['kind'] in ('ImplicitCastExpr', 'ParenExpr', 'CStyleCastExpr'): n = n['inner'][0]
    return n

class Fn:
    def __init__(s, decl, short, callees=None, inlines=None, style='let'):
        s.style = style
        s.callees = callees or {}; s.inlines = inlines or {}; s.inl_n = 0; s.inl_ret = []
        s.d = decl; s.short = short; s.lines = []; s.consts = []; s.ins = []; s.outs = {}; s.params = {}
        s.arr_in = {}; s.locals = set(); s.constnames = {}
    def var(s, name): return s.constnames.get(name, name)
    def arr(s, n):
        base = strip(n['inner'][0]); idx = strip(n['inner'][1])
        if base['kind'] != 'DeclRefExpr' or idx['kind'] != 'IntegerLiteral': raise Unsupported('array access')
        return base['referencedDecl']['name'], int(idx['value'])
    def callee(s, n):
        f = n['inner'][0]
        while f['kind'] != 'DeclRefExpr': f = f['inner'][0]
        return f['referencedDecl']['name']
    def addr(s, n):
        n = strip(n)
        if n['kind'] == 'UnaryOperator' and n['opcode'] == '&': return strip(n['inner'][0])['referencedDecl']['name']
        raise Unsupported('expected &var')
    def ex(s, n):
        """expression -> (gallina string, atomic?)"""
        k = n['kind']
        if k == 'ParenExpr': return s.ex(n['inner'][0])
        if k == 'ImplicitCastExpr' or k == 'CStyleCastExpr':
            inner = n['inner'][0]; ck = n.get('castKind')
            e = s.ex(inner)
            if ck == 'IntegralCast':
                wi = width(inner['type']['qualType']); wo = width(n['type']['qualType'])
                if wi < 0 or wo < 0:
                    if lit(inner)['kind'] == 'IntegerLiteral' and not e.startswith('(-'): return e      # non-negative literal: value is the same
                    if wo > 0: return '(%s %s)' % (wrapfn(wo), e)      # signed -> unsigned: value mod 2^w (two's complement)
                    if wi > 0 and -wo > wi: return e                      # unsigned -> wider signed
                    if wi < 0 and wo <= wi: return e                      # signed -> wider signed
                    return '(sN %d %s)' % (-wo, e)                        # to a narrower/equal signed type: two's complement (gcc/clang)
                if wo >= wi: return e
                return '(%s %s)' % (wrapfn(wo), e)
            return e
        if k == 'IntegerLiteral': return n['value']
        if k == 'DeclRefExpr': return s.var(n['referencedDecl']['name'])
        if k == 'UnaryOperator':
            op = n['opcode']; w = width(n['type']['qualType']); a = s.ex(n['inner'][0])
            if op == '~':
                if w < 0: return '(- %s - 1)' % a
                return '(%d - %s)' % ((1 << w) - 1, a)
            if op == '-': return '(- %s)' % a if w < 0 else '(%s (- %s))' % (wrapfn(w), a)
            if op == '!': return '(b2z (%s =? 0))' % a
            if op == '+': return a
            if op == '*':      # dereference of a scalar pointer parameter (int *r)
                t = strip(n['inner'][0])
                if t['kind'] == 'DeclRefExpr': nm = t['referencedDecl']['name']; s.ptr_in.add(nm); return nm + '_v'
            raise Unsupported('unary ' + op)
        if k == 'MemberExpr':
            return s.member(n, write=False)
        if k == 'ArraySubscriptExpr':
            base = strip(n['inner'][0])
            if base['kind'] == 'MemberExpr': return s.member(n, write=False)
            a, i = s.arr(n)
            if (a, i) in s.written: return '%s%d' % (a, i)          # reading back a limb already written
            s.arr_in.setdefault(a, set()).add(i); return '%s%d' % (a, i)
        if k == 'BinaryOperator':
            op = n['opcode']; a = s.ex(n['inner'][0]); b = s.ex(n['inner'][1]); w = width(n['type']['qualType'])
            if op in ('==', '!=', '<', '>', '<=', '>='):
                c = {'==': '(%s =? %s)', '!=': 'negb (%s =? %s)', '<': '(%s <? %s)', '>': '(%s >? %s)', '<=': '(%s <=? %s)', '>=': '(%s >=? %s)'}[op] % (a, b)
                return '(b2z (%s))' % c
            if w < 0:
                if op in ('+', '-', '*'): return '(%s %s %s)' % (a, op, b)      # signed: mathematical value (overflow would be UB)
                if op in ('<<', '>>'):
                    # a shift in type int is accepted when the operand is a promoted narrower UNSIGNED value (non-negative) and, for
                    # a left shift, the result provably fits into int: then it is the mathematical value
                    lhs = n['inner'][0]; r = lit(n['inner'][1])
                    src = lhs
                    while src['kind'] == 'ParenExpr': src = src['inner'][0]
                    uw = None
                    if src['kind'] == 'ImplicitCastExpr' and src.get('castKind') == 'IntegralCast':
                        try: uw = width(src['inner'][0]['type']['qualType'])
                        except Unsupported: uw = None
                    if uw is not None and 0 < uw < -w and r['kind'] == 'IntegerLiteral':
                        sh = int(r['value'])
                        if op == '>>' and 0 <= sh < -w: return '(%s / 2^%d)' % (a, sh)
                        if op == '<<' and 0 <= sh and uw + sh < -w - 1: return '(%s * 2^%d)' % (a, sh)
                    raise Unsupported('shift of a signed value')
            return s.binop(op, a, b, w, n['inner'][1])
        if k == 'CallExpr':
            fn = s.callee(n); args = n['inner'][1:]
            if fn == 'secp256k1_u128_to_u64': return '(u64 %s)' % s.var(s.addr(args[0]))
            if fn == 'secp256k1_u128_hi_u64': return '(%s / 2^64)' % s.var(s.addr(args[0]))
            if fn in s.callees:      # call to another translated function that returns a value: f args
                return '(%s %s)' % (getattr(s, 'callee_names', {}).get(fn, fn.replace('secp256k1_', '')), ' '.join(s.call_args(fn, args)))
            if fn in s.inlines:
                r = s.inline_call(fn, args)
                if r is None: raise Unsupported('value of a call that returns nothing: ' + fn)
                return r
            raise Unsupported('call in expression: ' + fn)
        raise Unsupported('expression ' + k)
    def binop(s, op, a, b, w, rhs_node=None):
        if op == '+': return '(%s (%s + %s))' % (wrapfn(w), a, b)
        if op == '-': return '(%s (%s - %s))' % (wrapfn(w), a, b)
        if op == '*': return '(%s (%s * %s))' % (wrapfn(w), a, b)
        if op == '&': return '(Z.land %s %s)' % (a, b)
        if op == '|': return '(Z.lor %s %s)' % (a, b)
        if op == '^': return '(Z.lxor %s %s)' % (a, b)
        if op in ('<<', '>>'):
            r = lit(rhs_node) if rhs_node is not None else None
            if r is None or r['kind'] != 'IntegerLiteral': raise Unsupported('variable shift')
            sh = int(r['value'])
            if not (0 <= sh < abs(w)): raise Unsupported('shift out of range')
            return '(%s (%s * 2^%d))' % (wrapfn(w), a, sh) if op == '<<' else '(%s / 2^%d)' % (a, sh)
        raise Unsupported('operator ' + op)
    def member(s, n, write):
        """p->f[i] or p->f with p a pointer parameter -> scalar variable p_f<i>"""
        idx = ''
        if n['kind'] == 'ArraySubscriptExpr':
            i = lit(n['inner'][1])
            if i['kind'] != 'IntegerLiteral': raise Unsupported('variable index')
            idx = i['value']; m = strip(n['inner'][0])
        else: m = n
        if m['kind'] != 'MemberExpr': raise Unsupported('member access shape')
        base = strip(m['inner'][0])
        if base['kind'] != 'DeclRefExpr': raise Unsupported('nested member access')
        name = '%s_%s%s' % (base['referencedDecl']['name'], m['name'], idx)
        key = (base['referencedDecl']['name'], m['name'], int(idx) if idx != '' else -1)
        if write: s.mem_out.setdefault(base['referencedDecl']['name'], set()).add((m['name'], key[2])); s.written.add(key)
        elif key not in s.written: s.mem_in.setdefault(base['referencedDecl']['name'], set()).add((m['name'], key[2]))
        return name
    def call_args(s, fn, args):
        """arguments of a call to a translated function: pointer-to-struct arguments are expanded to the callee's member list"""
        out = []
        for a, spec in zip(args, s.callees[fn]):
            if spec is None: out.append(s.ex(a))
            else:
                base = strip(a)
                if base['kind'] != 'DeclRefExpr': raise Unsupported('struct argument shape')
                for (f, i) in spec:
                    key = (base['referencedDecl']['name'], f, i)
                    if key not in s.written: s.mem_in.setdefault(base['referencedDecl']['name'], set()).add((f, i))
                    out.append('%s_%s%s' % (base['referencedDecl']['name'], f, '' if i < 0 else i))
        return out
    def inline_call(s, fn, args):
        """a call to a function of the same subset whose body is translated in place: scalar parameters are bound by a
        let, pointer parameters are identified with the caller's object, locals get a unique prefix; returns the name
        holding the returned value (or None)"""
        import copy
        d = s.inlines[fn]; s.inl_n += 1; pre = '%s%d_' % (fn.replace('secp256k1_', ''), s.inl_n)
        params = [c for c in d['inner'] if c['kind'] == 'ParmVarDecl']
        body = copy.deepcopy([c for c in d['inner'] if c['kind'] == 'CompoundStmt'][0])
        if len(params) != len(args): raise Unsupported('inline call arity: ' + fn)
        ren = {}; off = {}
        for p, a in zip(params, args):
            if '*' in p['type']['qualType']:
                b = strip(a)
                if b['kind'] == 'UnaryOperator' and b['opcode'] == '&': b = strip(b['inner'][0])
                if b['kind'] == 'ArraySubscriptExpr' and strip(b['inner'][0])['kind'] == 'DeclRefExpr' and lit(b['inner'][1])['kind'] == 'IntegerLiteral':
                    off[p['name']] = int(lit(b['inner'][1])['value']); b = strip(b['inner'][0])      # &x[c]: the callee's p[i] is the caller's x[c+i]
                if b['kind'] != 'DeclRefExpr': raise Unsupported('pointer argument shape in call to ' + fn)
                ren[p['name']] = b['referencedDecl']['name']
            else:
                ren[p['name']] = pre + p['name']; s.let(pre + p['name'], s.ex(a))
        local = set()
        def collect(n):
            if isinstance(n, dict):
                if n.get('kind') == 'VarDecl': local.add(n['name'])
                for v in n.values(): collect(v)
            elif isinstance(n, list):
                for v in n: collect(v)
        collect(body)
        def rename(n):
            if isinstance(n, dict):
                if n.get('kind') == 'ArraySubscriptExpr' and off:
                    b0 = strip(n['inner'][0]); rd0 = b0.get('referencedDecl') if b0['kind'] == 'DeclRefExpr' else None
                    if rd0 and rd0.get('kind') == 'ParmVarDecl' and rd0['name'] in off:
                        i0 = lit(n['inner'][1])
                        if i0['kind'] != 'IntegerLiteral': raise Unsupported('variable index')
                        i0['value'] = str(int(i0['value']) + off[rd0['name']])
                if n.get('kind') == 'VarDecl' and n['name'] in local: n['name'] = pre + n['name']
                rd = n.get('referencedDecl')
                if rd and rd.get('kind') in ('VarDecl', 'ParmVarDecl'):
                    if rd['kind'] == 'ParmVarDecl' and rd['name'] in ren: rd['name'] = ren[rd['name']]
                    elif rd['kind'] == 'VarDecl' and rd['name'] in local: rd['name'] = pre + rd['name']
                for k, v in n.items():
                    if k != 'referencedDecl': rename(v)
            elif isinstance(n, list):
                for v in n: rename(v)
        rename(body)
        saved = s.returned; s.returned = False; s.inl_ret.append([pre + 'ret', False])
        s.stmt(body)
        name, used = s.inl_ret.pop(); s.returned = saved
        return name if used else None
    def cps_call(s, fn, args, ret_name='_'):
        """a call to a separately translated (and separately proved) function, kept as a call in continuation-passing form:
        callee_k <values it reads> (fun <values it writes> => rest)"""
        if s.style != 'bind': raise Unsupported('continuation-passing calls need the bind style')
        kname, pnames, sig_ins, sig_outs = s.cps[fn]
        if len(pnames) != len(args): raise Unsupported('call arity: ' + fn)
        base = {}
        for pn, a in zip(pnames, args):
            b = strip(a)
            if b['kind'] == 'UnaryOperator' and b['opcode'] == '&': b = strip(b['inner'][0])
            base[pn] = b['referencedDecl']['name'] if b['kind'] == 'DeclRefExpr' else None
            if b['kind'] == 'MemberExpr' and strip(b['inner'][0])['kind'] == 'DeclRefExpr':      # an array member of an object (r->n): element i is the member n[i]
                base[pn] = (strip(b['inner'][0])['referencedDecl']['name'], b['name'])
            base[(pn, 'expr')] = a
        def rd(pn, kind, key):
            if kind == 'scalar': return s.ex(base[(pn, 'expr')])
            b = base[pn]
            if b is None: raise Unsupported('pointer argument shape in call to ' + fn)
            if kind == 'mem':
                f, i = key; k3 = (b, f, i)
                if k3 not in s.written: s.mem_in.setdefault(b, set()).add((f, i))
                return '%s_%s%s' % (b, f, '' if i < 0 else i)
            if kind == 'arr' and isinstance(b, tuple):
                if (b[0], b[1], key) not in s.written: s.mem_in.setdefault(b[0], set()).add((b[1], key))
                return '%s_%s%d' % (b[0], b[1], key)
            if isinstance(b, tuple): raise Unsupported('pointer argument shape in call to ' + fn)
            if kind == 'arr':
                if (b, key) not in s.written: s.arr_in.setdefault(b, set()).add(key)
                return '%s%d' % (b, key)
            if kind == 'ptr': s.ptr_in.add(b); return b + '_v'
        ins = [rd(*x) for x in sig_ins]
        outs = []
        for pn, kind, key in sig_outs:
            if kind == 'ret': outs.append(ret_name); continue
            b = base[pn]
            if b is None: raise Unsupported('pointer argument shape in call to ' + fn)
            if kind == 'arr' and isinstance(b, tuple):
                s.mem_out.setdefault(b[0], set()).add((b[1], key)); s.written.add((b[0], b[1], key)); outs.append('%s_%s%d' % (b[0], b[1], key))
            elif isinstance(b, tuple): raise Unsupported('pointer argument shape in call to ' + fn)
            elif kind == 'mem':
                f, i = key; s.mem_out.setdefault(b, set()).add((f, i)); s.written.add((b, f, i)); outs.append('%s_%s%s' % (b, f, '' if i < 0 else i))
            elif kind == 'arr':
                s.outs.setdefault(b, set()).add(key); s.outs_arrays.add(b); s.written.add((b, key)); outs.append('%s%d' % (b, key))
            elif kind == 'ptr': s.ptr_out.add(b); outs.append(b + '_v')
        s.lines.append('  %s_k %s (fun %s =>' % (kname, ' '.join(i if i.replace('_', '').isalnum() else '(%s)' % i for i in ins), ' '.join(outs)))
    def let(s, name, e):
        if e == name: return
        if s.style == 'bind': s.lines.append('  bind %s (fun %s =>' % (e if e.startswith('(') or e.replace('_', '').isalnum() else '(%s)' % e, name))
        else: s.lines.append('  let %s := %s in' % (name, e))
    def stmt(s, n):
        k = n['kind']
        if getattr(s, 'returned', False): raise Unsupported('statement after return')
        if k == 'NullStmt': return
        if k == 'CompoundStmt':
            for c in n.get('inner', []): s.stmt(c)
            return
        if k == 'DeclStmt':
            for v in n['inner']:
                if v['kind'] != 'VarDecl': raise Unsupported('decl ' + v['kind'])
                init = [c for c in v.get('inner', []) if not c['kind'].endswith('Attr')]
                if re.search(r'\[\d+\]$', v['type']['qualType']) and not init:
                    width(re.sub(r'\[\d+\]$', '', v['type']['qualType'])); continue      # a local array: its elements become variables when written
                if not init and tname(v['type']['qualType']) in ('secp256k1_fe', 'secp256k1_scalar', 'secp256k1_fe_storage'): continue      # a local object: its members become variables when written
                width(v['type']['qualType'])
                if init:
                    i0 = init[0]
                    if 'const' in v['type']['qualType'] and lit(i0)['kind'] == 'IntegerLiteral':
                        cn = '%s_%s' % (s.short, v['name']); s.consts.append((cn, lit(i0)['value'])); s.constnames[v['name']] = cn
                    else:
                        s.let(v['name'], s.ex(i0))
            return
        if k == 'CallExpr':
            fn = s.callee(n); args = n['inner'][1:]
            if fn == 'secp256k1_u128_mul': d = s.addr(args[0]); s.let(d, '(u128 (%s * %s))' % (s.ex(args[1]), s.ex(args[2]))); return
            if fn == 'secp256k1_u128_accum_mul': d = s.addr(args[0]); s.let(d, '(u128 (%s + %s * %s))' % (d, s.ex(args[1]), s.ex(args[2]))); return
            if fn == 'secp256k1_u128_accum_u64': d = s.addr(args[0]); s.let(d, '(u128 (%s + %s))' % (d, s.ex(args[1]))); return
            if fn == 'secp256k1_u128_from_u64': d = s.addr(args[0]); s.let(d, s.ex(args[1])); return
            if fn == 'secp256k1_u128_rshift':
                d = s.addr(args[0]); r = lit(args[1])
                if r['kind'] != 'IntegerLiteral' or not (0 <= int(r['value']) < 128): raise Unsupported('u128_rshift amount')
                s.let(d, '(%s / 2^%s)' % (d, r['value'])); return
            if fn in NOOP_CALLS: return      # production builds: empty bodies ((void)arg)
            if fn in getattr(s, 'cps', {}): s.cps_call(fn, args); return
            if fn in s.inlines: s.inline_call(fn, args); return
            raise Unsupported('call statement: ' + fn)
        if k == 'BinaryOperator' and n['opcode'] == '=' and tname(n['type']['qualType']) in STRUCT_FIELDS:
            # whole-object copy of a field element (u1 = a->x; r->x = t;): member by member
            lhs = strip(n['inner'][0]); rhs = strip(n['inner'][1])
            if lhs['kind'] != 'DeclRefExpr' or rhs['kind'] != 'DeclRefExpr': raise Unsupported('struct assignment shape')
            ln = lhs['referencedDecl']['name']; rn = rhs['referencedDecl']['name']
            for f, cnt in STRUCT_FIELDS[tname(n['type']['qualType'])](s):
                for i in range(cnt):
                    if (rn, f, i) not in s.written: s.mem_in.setdefault(rn, set()).add((f, i))
                    s.mem_out.setdefault(ln, set()).add((f, i)); s.written.add((ln, f, i))
                    s.let('%s_%s%d' % (ln, f, i), '%s_%s%d' % (rn, f, i))
            return
        if k == 'BinaryOperator' and n['opcode'] == '=' and strip(n['inner'][1])['kind'] == 'CallExpr' and s.callee(strip(n['inner'][1])) in getattr(s, 'cps', {}):
            # x = f(...) for a separately translated f: the returned value is the callee's last output
            lhs = strip(n['inner'][0]); call = strip(n['inner'][1])
            if lhs['kind'] == 'DeclRefExpr': nm = lhs['referencedDecl']['name']
            elif lhs['kind'] == 'MemberExpr': nm = s.member(lhs, write=True)
            else: raise Unsupported('assignment target')
            s.cps_call(s.callee(call), call['inner'][1:], ret_name=nm); return
        if k == 'BinaryOperator' and n['opcode'] == '=':
            lhs = strip(n['inner'][0]); e = s.ex(n['inner'][1])
            if lhs['kind'] == 'DeclRefExpr': s.let(lhs['referencedDecl']['name'], e)
            elif lhs['kind'] == 'ArraySubscriptExpr' and strip(lhs['inner'][0])['kind'] == 'MemberExpr': s.let(s.member(lhs, write=True), e)
            elif lhs['kind'] == 'MemberExpr': s.let(s.member(lhs, write=True), e)
            elif lhs['kind'] == 'ArraySubscriptExpr':
                a, i = s.arr(lhs); s.outs.setdefault(a, set()).add(i); s.outs_arrays.add(a); s.written.add((a, i)); s.let('%s%d' % (a, i), e)
            elif lhs['kind'] == 'UnaryOperator' and lhs['opcode'] == '*' and strip(lhs['inner'][0])['kind'] == 'DeclRefExpr':
                nm = strip(lhs['inner'][0])['referencedDecl']['name']; s.ptr_out.add(nm); s.let(nm + '_v', e)
            else: raise Unsupported('assignment target')
            return
        if k == 'CStyleCastExpr' and n['type']['qualType'] == 'void': return
        if k == 'DoStmt':      # do { } while (0) left by disabled check macros
            body, cond = n['inner'][0], lit(n['inner'][1])
            if cond['kind'] == 'IntegerLiteral' and cond['value'] == '0': s.stmt(body); return      # executes exactly once
            raise Unsupported('loop')
        if k == 'ReturnStmt':
            if s.inl_ret:
                if n.get('inner'): s.let(s.inl_ret[-1][0], s.ex(n['inner'][0])); s.inl_ret[-1][1] = True
                s.returned = True
                return
            if n.get('inner'): s.let('ret', s.ex(n['inner'][0])); s.has_ret = True
            s.returned = True
            return
        if k == 'CompoundAssignOperator':
            lhs = strip(n['inner'][0]); op = n['opcode'][:-1]; w = width(n['type']['qualType'])
            if lhs['kind'] == 'DeclRefExpr': nm = lhs['referencedDecl']['name']; cur = s.var(nm)
            elif lhs['kind'] in ('ArraySubscriptExpr', 'MemberExpr'):
                cur = s.member(lhs, write=False); nm = s.member(lhs, write=True)
            else: raise Unsupported('compound assignment target')
            s.let(nm, s.binop(op, cur, s.ex(n['inner'][1]), w, n['inner'][1])); return
        if k == 'SwitchStmt':
            # the compile-time constant assertion `switch(42) { case <constant>: break; default: ; }` of ASSERT_INT_CONST_AND_DO: no effect
            def inert(x): return x['kind'] in ('BreakStmt', 'NullStmt') or (x['kind'] in ('CaseStmt', 'DefaultStmt', 'CompoundStmt') and all(inert(c) or c['kind'] == 'ConstantExpr' for c in x.get('inner', [])))
            if lit(n['inner'][0])['kind'] == 'IntegerLiteral' and inert(n['inner'][1]): return
            raise Unsupported('statement SwitchStmt')
        if k == 'IfStmt' and len(n['inner']) == 2:
            # the optional-output idiom `if (out) *out = e;` on a pointer parameter: translated for callers that pass the pointer
            # (the branch depends on the caller's pointer only, never on data; with a null pointer the store is simply absent)
            c = strip(n['inner'][0]); body = n['inner'][1]
            if c['kind'] == 'DeclRefExpr' and c['referencedDecl'].get('kind') == 'ParmVarDecl' and '*' in c['type']['qualType']:
                stmts = body.get('inner', []) if body['kind'] == 'CompoundStmt' else [body]
                for st in stmts:
                    l = strip(st['inner'][0]) if st['kind'] == 'BinaryOperator' and st.get('opcode') == '=' else None
                    if not (l and l['kind'] == 'UnaryOperator' and l['opcode'] == '*' and strip(l['inner'][0]).get('referencedDecl', {}).get('name') == c['referencedDecl']['name']):
                        raise Unsupported('statement IfStmt')
                for st in stmts: s.stmt(st)
                return
        raise Unsupported('statement ' + k)
    def run(s):
        s.outs_arrays = set(); s.written = set(); s.mem_in = {}; s.mem_out = {}; s.ptr_in = set(); s.ptr_out = set(); s.has_ret = False; s.returned = False
        body = [c for c in s.d['inner'] if c['kind'] == 'CompoundStmt'][0]
        params = [c for c in s.d['inner'] if c['kind'] == 'ParmVarDecl']
        s.stmt(body)
        ins = []; s.param_spec = []; s.sig_ins = []; s.sig_outs = []
        def mname(nm, f, i): return '%s_%s%s' % (nm, f, '' if i < 0 else i)
        for p in params:
            nm = p['name']
            if nm in s.mem_in or nm in s.mem_out:
                spec = sorted(s.mem_in.get(nm, set())); ins += [mname(nm, f, i) for (f, i) in spec]; s.param_spec.append(spec); s.sig_ins += [(nm, 'mem', fi) for fi in spec]
            elif nm in s.arr_in: ins += ['%s%d' % (nm, i) for i in sorted(s.arr_in[nm])]; s.param_spec.append(None); s.sig_ins += [(nm, 'arr', i) for i in sorted(s.arr_in[nm])]
            elif nm in s.outs: s.param_spec.append(None)
            elif nm in s.ptr_in or nm in s.ptr_out:
                if nm in s.ptr_in: ins.append(nm + '_v'); s.sig_ins.append((nm, 'ptr', None))
                s.param_spec.append(None)
            elif nm in s.d.get('flattened', ()): s.param_spec.append(None)      # only used through its struct members, which are parameters of their own
            elif '*' in p['type']['qualType']: raise Unsupported('pointer parameter %s neither read at fixed positions nor written' % nm)
            else: ins.append(nm); s.param_spec.append(None); s.sig_ins.append((nm, 'scalar', None))
        outs = []; pnames = set(p['name'] for p in params)
        for a in sorted(s.outs):
            if a in pnames: outs += ['%s%d' % (a, i) for i in sorted(s.outs[a])]; s.sig_outs += [(a, 'arr', i) for i in sorted(s.outs[a])]
        for a in sorted(s.mem_out):
            if a in pnames: outs += [mname(a, f, i) for (f, i) in sorted(s.mem_out[a])]; s.sig_outs += [(a, 'mem', fi) for fi in sorted(s.mem_out[a])]
        for a in sorted(s.ptr_out):
            if a in pnames: outs.append(a + '_v'); s.sig_outs.append((a, 'ptr', None))
        for a in list(s.mem_in):
            if a not in pnames and a.startswith('secp256k1_') and all(f == 'n' for f, i in s.mem_in[a]):
                # a constant global field element: its limbs, read from the initializer in the working tree, are bound in front of the body
                vals = global_const(s.repo, a, s.defines)
                s.lines[0:0] = [('  bind %d (fun %s_n%d =>' if s.style == 'bind' else '  let %s_n%d := %d in').replace('%d (fun %s_n%d', '{v} (fun {a}_n{i}').format(v=vals[i], a=a, i=i) if s.style == 'bind' else '  let %s_n%d := %d in' % (a, i, vals[i]) for (f, i) in sorted(s.mem_in[a])]
                del s.mem_in[a]
        for a in list(s.arr_in) + list(s.mem_in):
            if a not in pnames: raise Unsupported('local object %s read before it is written' % a)
        if s.has_ret: outs.append('ret'); s.sig_outs.append((None, 'ret', None))
        s.param_names = [p['name'] for p in params]
        # an array that is both read and written at the same indices (in-place) is not in the subset
        for a in s.outs:
            if a in s.arr_in and False: raise Unsupported('in-place array ' + a)
        o = ['(* GENERATED by tools/c2coq.py from %s - do not edit *)' % s.d.get('loc', {}).get('file', 'the working tree'),
             'From Coq Require Import ZArith List.', 'Require Import Kernel.CSem.', 'Import ListNotations.', 'Local Open Scope Z_scope.']
        for cn, v in s.consts: o.append('Definition %s : Z := %s.' % (cn, v))
        kty = ' -> '.join(['Z'] * len(outs) + ['T'])
        o.append('Definition %s_k {T} (%s : Z) (k : %s) : T :=' % (s.short, ' '.join(ins), kty))
        o += s.lines
        if s.style == 'bind':
            o[2] = 'Require Import Kernel.CSem Kernel.Bind.'
            o.append('  k %s%s.' % (' '.join(outs), ')' * len(s.lines)))
        else: o.append('  k %s.' % ' '.join(outs))
        if s.has_ret and len(outs) == 1:
            o.append('Definition %s (%s : Z) : Z := %s_k %s (fun ret => ret).' % (s.short, ' '.join(ins), s.short, ' '.join(ins)))
        else:
            o.append('Definition %s (%s : Z) := %s_k %s (fun %s => [%s]).' % (s.short, ' '.join(ins), s.short, ' '.join(ins), ' '.join(outs), '; '.join(outs)))
        o.append('Definition %s_inputs : nat := %d.' % (s.short, len(ins)))
        return '\n'.join(o).replace('(fun', '(fun').replace('=> [', '=> (cons_list [').replace(']).', ']))).') if False else '\n'.join(o), ins, outs

def const_eval(n):
    """value of a constant integer expression (the initializers of constant global objects such as secp256k1_fe_one)"""
    k = n['kind']
    if k in ('ParenExpr', 'ConstantExpr'): return const_eval(n['inner'][0])
    if k == 'IntegerLiteral': return int(n['value'])
    if k in ('ImplicitCastExpr', 'CStyleCastExpr'):
        v = const_eval(n['inner'][0]); w = width(n['type']['qualType'])
        return v % (1 << w) if w > 0 else v
    if k == 'BinaryOperator':
        a = const_eval(n['inner'][0]); b = const_eval(n['inner'][1]); op = n['opcode']; w = width(n['type']['qualType'])
        v = {'|': lambda: a | b, '&': lambda: a & b, '^': lambda: a ^ b, '<<': lambda: a << b, '>>': lambda: a >> b, '+': lambda: a + b, '-': lambda: a - b, '*': lambda: a * b}.get(op)
        if v is None: raise Unsupported('constant operator ' + op)
        v = v()
        if w > 0: return v % (1 << w)
        if not -(1 << (-w - 1)) <= v < (1 << (-w - 1)): raise Unsupported('signed overflow in a constant')
        return v
    raise Unsupported('constant expression ' + k)

def global_const(repo, name, defines=()):
    """limbs of a constant global field element, read from its initializer in the working tree"""
    tu = tempfile.NamedTemporaryFile('w', suffix='.c', delete=False)
    tu.write('#define ENABLE_MODULE_RECOVERY 1\n#define ENABLE_MODULE_EXTRAKEYS 1\n#define ENABLE_MODULE_SCHNORRSIG 1\n#define ECMULT_WINDOW_SIZE 15\n#define COMB_BLOCKS 43\n#define COMB_TEETH 6\n#include "src/secp256k1.c"\n')
    tu.close()
    try:
        cmd = ['clang', '-fsyntax-only', '-w', '-I' + repo, '-I' + repo + '/src'] + list(defines) + ['-Xclang', '-ast-dump=json', '-Xclang', '-ast-dump-filter=' + name, tu.name]
        p = subprocess.run(cmd, stdout=subprocess.PIPE, stderr=subprocess.PIPE, timeout=300)
        txt = p.stdout.decode(); dec = json.JSONDecoder(); pos = 0
        while pos < len(txt):
            while pos < len(txt) and txt[pos] not in '{[': pos += 1
            if pos >= len(txt): break
            obj, end = dec.raw_decode(txt, pos); pos = end
            if obj.get('kind') == 'VarDecl' and obj.get('name') == name and 'const' in obj['type']['qualType']:
                init = [c for c in obj.get('inner', []) if c['kind'] == 'InitListExpr']
                if init and init[0]['inner'] and init[0]['inner'][0]['kind'] == 'InitListExpr':
                    return [const_eval(e) for e in init[0]['inner'][0]['inner']]
        raise Unsupported('constant global %s not found' % name)
    finally:
        os.unlink(tu.name)

def flatten_nested(d):
    """members of struct type reached through a pointer parameter (r->z of a secp256k1_gej *r) become pseudo pointer parameters
    (r_z of type secp256k1_fe *), so that the body only mentions one level of member access: &r->z ~> r_z, r->z.n[i] ~> r_z->n[i].
    The pseudo parameters are appended to the parameter list in alphabetical order."""
    import copy
    d = copy.deepcopy(d); pseudo = {}
    def smember(n):
        n = strip(n)
        if n['kind'] == 'MemberExpr' and n.get('isArrow') and tname(n['type']['qualType']).startswith('secp256k1_'):
            b = strip(n['inner'][0])
            if b['kind'] == 'DeclRefExpr' and b['referencedDecl'].get('kind') == 'ParmVarDecl':
                nm = '%s_%s' % (b['referencedDecl']['name'], n['name']); pseudo[nm] = tname(n['type']['qualType']) + ' *'
                return {'kind': 'DeclRefExpr', 'type': {'qualType': pseudo[nm]}, 'referencedDecl': {'kind': 'ParmVarDecl', 'name': nm, 'type': {'qualType': pseudo[nm]}}}
        return None
    def walk(n):
        if isinstance(n, list): return [walk(x) for x in n]
        if not isinstance(n, dict): return n
        if n.get('kind') == 'UnaryOperator' and n.get('opcode') == '&':
            r = smember(n['inner'][0])
            if r: return r
        if n.get('kind') == 'MemberExpr' and not n.get('isArrow'):
            r = smember(n['inner'][0])
            if r: n = dict(n); n['isArrow'] = True; n['inner'] = [r]; return n
        if n.get('kind') == 'MemberExpr' and n.get('isArrow'):
            r = smember(n)
            if r: r = dict(r); r['structObject'] = True; r['type'] = {'qualType': tname(n['type']['qualType'])}; return r      # r->x as a whole object
        return {k: (walk(v) if k == 'inner' else v) for k, v in n.items()}
    d['inner'] = walk(d['inner'])
    idx = max(i for i, c in enumerate(d['inner']) if c['kind'] == 'ParmVarDecl') + 1
    d['inner'][idx:idx] = [{'kind': 'ParmVarDecl', 'name': nm, 'type': {'qualType': t}} for nm, t in sorted(pseudo.items())]
    d['flattened'] = sorted(set(nm.rsplit('_', 1)[0] for nm in pseudo))
    return d

_AST_CACHE = {}
def ast_of(repo, fn, defines=()):
    key = (repo, fn, tuple(defines))
    if key not in _AST_CACHE: _AST_CACHE[key] = _ast_of(repo, fn, defines)
    return _AST_CACHE[key]

def _ast_of(repo, fn, defines=()):
    tu = tempfile.NamedTemporaryFile('w', suffix='.c', delete=False)
    tu.write('#define ENABLE_MODULE_RECOVERY 1\n#define ENABLE_MODULE_EXTRAKEYS 1\n#define ENABLE_MODULE_SCHNORRSIG 1\n#define ECMULT_WINDOW_SIZE 15\n#define COMB_BLOCKS 43\n#define COMB_TEETH 6\n#include "src/secp256k1.c"\n')
    tu.close()
    try:
        cmd = ['clang', '-fsyntax-only', '-w', '-I' + repo, '-I' + repo + '/src'] + list(defines) + ['-Xclang', '-ast-dump=json', '-Xclang', '-ast-dump-filter=' + fn, tu.name]
        p = subprocess.run(cmd, stdout=subprocess.PIPE, stderr=subprocess.PIPE, timeout=300)
        if p.returncode != 0: raise Unsupported('clang failed: ' + p.stderr.decode()[-500:])
        txt = p.stdout.decode(); dec = json.JSONDecoder(); pos = 0; found = None
        while pos < len(txt):
            while pos < len(txt) and txt[pos] not in '{[': pos += 1
            if pos >= len(txt): break
            obj, end = dec.raw_decode(txt, pos); pos = end
            if obj.get('kind') == 'FunctionDecl' and obj.get('name') == fn and any(c['kind'] == 'CompoundStmt' for c in obj.get('inner', [])):
                found = obj
        if not found: raise Unsupported('function %s not found in the translation unit' % fn)
        return found
    finally:
        os.unlink(tu.name)

def translate(repo, fn, defines=(), callees=None, requires=(), inlines=(), style='let', short=None, callee_names=None, cps=None, flatten=False):
    """callees: {callee C name: parameter spec list} for value-returning functions already translated;
    inlines: names of functions (same subset) whose calls are translated in place"""
    d = ast_of(repo, fn, defines)
    if flatten: d = flatten_nested(d)
    short = short or fn.replace('secp256k1_', '')
    f = Fn(d, short, callees, {g: ast_of(repo, g, defines) for g in inlines}, style); f.callee_names = callee_names or {}; f.cps = cps or {}
    f.limbs32 = any('WIDEMUL_INT64' in x for x in defines); f.repo = repo; f.defines = defines
    text, ins, outs = f.run()
    if requires:
        text = text.replace('Require Import Kernel.CSem', 'Require Import %s Kernel.CSem' % ' '.join('Gen.' + r for r in requires), 1)
    translate.last = f
    return text, ins, outs

if __name__ == '__main__':
    repo = os.environ.get('VERIF_REPO', '/repo')
    inl = [a[9:] for a in sys.argv[2:] if a.startswith('--inline=')]
    text, ins, outs = translate(repo, sys.argv[1], [a for a in sys.argv[2:] if not a.startswith('--inline=')], inlines=inl)
    print(text)
