"""Shared machinery of ./check: builds, runners, comparison, shrinking, evidence, findings."""
import os, sys, json, subprocess, time, hashlib, re, fcntl, shutil, concurrent.futures as cf
ROOT = os.path.dirname(os.path.dirname(os.path.abspath(__file__)))
REPO = os.environ.get('VERIF_REPO', '/repo')
BUILD = os.path.join(ROOT, '_build')
COQ = os.path.join(ROOT, 'coq')
NPROC = int(os.environ.get('VERIF_JOBS', '16'))
sys.path.insert(0, os.path.join(ROOT, 'tools'))
from pyec import Rng

def sh(cmd, timeout=3600, cwd=None, env=None):
    p = subprocess.run(cmd, shell=isinstance(cmd, str), cwd=cwd, env=env, stdout=subprocess.PIPE, stderr=subprocess.STDOUT, timeout=timeout)
    return p.returncode, p.stdout.decode('utf-8', 'replace')

class Lock:
    def __init__(self, name): os.makedirs(BUILD, exist_ok=True); self.path = os.path.join(BUILD, '.lock_' + name)
    def __enter__(self): self.f = open(self.path, 'w'); fcntl.flock(self.f, fcntl.LOCK_EX); return self
    def __exit__(self, *a): fcntl.flock(self.f, fcntl.LOCK_UN); self.f.close()

# ---------------------------------------------------------------- implementation harness
def build_impl(outdir, name='impl', flags=(), cc='gcc', opt='-O2', src='impl_driver.c'):
    """compile the single-TU harness from /repo's CURRENT working tree"""
    os.makedirs(outdir, exist_ok=True)
    out = os.path.join(outdir, name)
    hd = os.path.join(ROOT, 'harness')
    tabs = sorted(f[4:-2] for f in os.listdir(hd) if f.startswith('ops_') and f.endswith('.h'))
    with open(os.path.join(outdir, 'ops_all.h'), 'w') as f:
        for t in tabs: f.write('#include "ops_%s.h"\n' % t)
        f.write('#define ALL_OP_TABLES ' + ' '.join('ops_%s,' % t for t in tabs) + '\n')
    cmd = [cc, opt, '-w', '-DSECP256K1_ZKP_VERIF=1', '-I' + outdir, '-I' + REPO, '-I' + REPO + '/src', '-I' + hd] + list(flags) + \
          ['-o', out, os.path.join(ROOT, 'harness', src)]
    rc, o = sh(cmd, timeout=900)
    if rc != 0:
        raise BuildError('implementation harness does not compile:\n' + o[-3000:])
    return out

class BuildError(Exception): pass

# ---------------------------------------------------------------- model runners
def _deps(mod, seen):
    """transitive closure of Require'd files of the development (Spec.X, Model.X, ...)"""
    if mod in seen: return
    f = os.path.join(COQ, mod.replace('.', '/') + '.v')
    if not os.path.exists(f): return
    seen[mod] = open(f, 'rb').read()
    for line in seen[mod].decode('utf-8', 'replace').split('\n'):
        if 'Require' in line:
            for m in re.findall(r'\b((?:Spec|Model|Extract|Proofs|Kernel|Gen)\.[A-Za-z0-9_]+)', line):
                _deps(m, seen)

def model_sources_digest(api_module='ApiCore', kind='fast'):
    seen = {}
    _deps('Model.' + api_module, seen); _deps('Extract.Extract' + kind.capitalize(), seen)
    h = hashlib.sha256()
    for k in sorted(seen): h.update(k.encode()); h.update(seen[k])
    p = os.path.join(ROOT, 'harness', 'driver_%s.ml' % kind)
    if os.path.exists(p): h.update(open(p, 'rb').read())
    return h.hexdigest()

def coq_make(targets=(), timeout=1500):
    """(re)build .vo files of the development (full build, never -vos).
       Concurrent invocations are allowed (each uses its own generated Makefile); callers work on
       disjoint files, shared base files change rarely."""
    files = []
    for d in ('Spec', 'Model', 'Extract', 'Kernel', 'Proofs', 'Gen', '.'):
        p = os.path.join(COQ, d)
        if os.path.isdir(p):
            files += sorted(os.path.join(d, f) if d != '.' else f for f in os.listdir(p) if f.endswith('.v'))
    mk = 'Makefile.%d' % os.getpid()
    try:
        rc, o = sh('coq_makefile -f _CoqProject %s -o %s' % (' '.join(files), mk), cwd=COQ)
        if rc != 0: return rc, o
        rc, o = sh('timeout %d make -f %s -k -j%d %s' % (timeout, mk, NPROC, ' '.join(targets)), cwd=COQ, timeout=timeout + 60)
        if rc != 0:
            for m in re.finditer(r'\*\*\* \[[^\]]*?:\s*(\S+\.vo)\] Error', o): FAILED_VO.add(m.group(1))
            if rc == 124:      # the make timed out: every requested target that is still missing or stale counts as failed
                for t in targets:
                    if t.endswith('.vo') and not os.path.exists(os.path.join(COQ, t)): FAILED_VO.add(t)
            for t in targets:      # a target that exists but is older than its source did not get rebuilt
                v = os.path.join(COQ, t[:-1]) if t.endswith('.vo') else None
                if v and os.path.exists(v) and (not os.path.exists(os.path.join(COQ, t)) or os.path.getmtime(os.path.join(COQ, t)) < os.path.getmtime(v)): FAILED_VO.add(t)
        return rc, o
    finally:
        for f in (mk, mk + '.conf', '.' + mk + '.d'):
            try: os.remove(os.path.join(COQ, f))
            except OSError: pass

def ensure_model(group, api_module=None, dispatch=None, slow=False):
    """extract the dispatcher of a model group and link it with the generic driver.
       group 'core' -> SV.Model.ApiCore.dispatch_core"""
    api_module = api_module or 'Api' + group.capitalize()
    dispatch = dispatch or 'dispatch_' + group
    kind = 'slow' if slow else 'fast'
    d = os.path.join(BUILD, 'model_%s_%s' % (group, kind))
    exe = os.path.join(d, 'model')
    stamp = os.path.join(d, 'stamp')
    dig = model_sources_digest(api_module, kind)
    with Lock('model_' + group + kind):
        if os.path.exists(exe) and os.path.exists(stamp) and open(stamp).read() == dig:
            return exe
        os.makedirs(d, exist_ok=True)
        rc, o = coq_make(['Model/%s.vo' % api_module, 'Extract/Extract%s.vo' % kind.capitalize()])
        if rc != 0: raise BuildError('model does not compile:\n' + o[-3000:])
        open(os.path.join(d, 'ext.v'), 'w').write(
            'Require Import SV.Extract.Extract%s SV.Spec.Params SV.Model.Base SV.Model.%s.\n'
            'Definition dispatch := %s.\nExtraction "modelx.ml" dispatch secp256k1 mkParams.\n' % (kind.capitalize(), api_module, dispatch))
        rc, o = sh('coqc -R %s SV ext.v' % COQ, cwd=d)
        if rc != 0: raise BuildError('extraction failed:\n' + o[-3000:])
        pk = '-package zarith' if not slow else ''
        rc, o = sh('ocamlfind ocamlopt -w -a %s -linkpkg modelx.mli modelx.ml %s -o model' %
                   (pk, os.path.join(ROOT, 'harness', 'driver_%s.ml' % kind)), cwd=d)
        if rc != 0 or not os.path.exists(exe): raise BuildError('ocaml build failed:\n' + o[-3000:])
        open(stamp, 'w').write(dig)
        return exe

# ---------------------------------------------------------------- running cases
def _run_chunk(args):
    """run one shard; if the process dies on a case, that case is answered 'CRASH ...' and the
       remaining cases are run in a fresh process"""
    exe, lines, extra, timeout = args
    out = []; rc = 0; err = ''
    rest = list(lines)
    while rest:
        try:
            p = subprocess.run([exe] + extra, input=('\n'.join(rest) + '\n').encode(), stdout=subprocess.PIPE, stderr=subprocess.PIPE, timeout=timeout, preexec_fn=_big_stack)
            o = p.stdout.decode('utf-8', 'replace').split('\n'); prc = p.returncode; perr = p.stderr.decode('utf-8', 'replace')
        except subprocess.TimeoutExpired as e:
            o = (e.stdout or b'').decode('utf-8', 'replace').split('\n'); prc = -999; perr = 'TIMEOUT after %ds' % timeout
        if o and o[-1] == '': o.pop()
        if prc == 0 and len(o) >= len(rest):
            out += o[:len(rest)]; break
        # the process died: complete lines are answers; the next case is the one that crashed
        if len(o) > len(rest): o = o[:len(rest)]
        if prc != 0 and o and len(o) <= len(rest) and not perr and False: pass
        done = len(o)
        # a partially written last line belongs to the crashing case
        out += o[:done]
        if done < len(rest):
            out.append('CRASH rc=%d %s' % (prc, perr.strip().replace('\n', ' | ')[-300:]))
            rest = rest[done + 1:]
        else:
            rest = []
        rc = prc; err = perr
    return rc, out, err

def _big_stack():
    """the extracted model recurses on lists: give the runner processes the largest stack the system allows (a megabyte-long hash input
    otherwise ends in Stack_overflow, which the driver reports as #-97)"""
    try:
        import resource
        soft, hard = resource.getrlimit(resource.RLIMIT_STACK)
        resource.setrlimit(resource.RLIMIT_STACK, (hard, hard))
    except Exception: pass

def run_cases(exe, lines, extra=(), shards=None, timeout=3000):
    """run a driver over case lines, sharded over processes; returns list of result lines.
       A crashed shard yields 'CRASH <rc> <stderr tail>' for its unanswered cases."""
    if not lines: return []
    shards = shards or NPROC
    n = len(lines); shards = max(1, min(shards, (n + 3) // 4))
    # interleave so that expensive neighbouring cases spread out
    chunks = [lines[i::shards] for i in range(shards)]
    with cf.ThreadPoolExecutor(max_workers=shards) as ex:
        res = list(ex.map(_run_chunk, [(exe, c, list(extra), timeout) for c in chunks]))
    out = [None] * n
    for i, (rc, o, err) in enumerate(res):
        idxs = list(range(i, n, shards))
        for j, k in enumerate(idxs):
            out[k] = o[j] if j < len(o) else 'CRASH rc=%d %s' % (rc, err.strip().replace('\n', ' | ')[-400:])
    return out

# ---------------------------------------------------------------- known findings
def load_findings():
    p = os.path.join(ROOT, 'known_findings.json')
    return json.load(open(p)) if os.path.exists(p) else []

def finding_for(prop, case_line):
    for f in load_findings():
        if f.get('status') == 'known' and f.get('property') == prop and re.search(f['match'], case_line):
            return f
    return None

# ---------------------------------------------------------------- coq property files
FAILED_VO = set()      # .vo targets whose build failed earlier in this process (their dependents are not retried)

def coq_property(prop):
    """compile Properties_<id>.v (always recompiled: its Print Assumptions output is evidence).
       returns dict(ok, theorems, assumptions, log)"""
    if FAILED_VO:
        text = open(os.path.join(COQ, 'Properties_%s.v' % prop)).read()
        theorems = re.findall(r'^\s*(?:Theorem|Corollary)\s+([A-Za-z0-9_\']+)', text, re.M)
        dep = [v for v in FAILED_VO if re.search(r'\b' + re.escape(os.path.basename(v)[:-3]) + r'\b', text)]
        if dep:
            return dict(ok=False, theorems=theorems, assumptions=[], closed=0, log='not rebuilt: it imports %s, which failed to build earlier in this run' % ', '.join(sorted(dep)))
    rc, o = coq_make(['Properties_%s.vo' % prop])   # brings dependencies up to date
    src = os.path.join(COQ, 'Properties_%s.v' % prop)
    text = open(src).read()
    theorems = re.findall(r'^\s*(?:Theorem|Corollary)\s+([A-Za-z0-9_\']+)', text, re.M)
    if rc != 0 and not os.path.exists(os.path.join(COQ, 'Properties_%s.vo' % prop)):
        return dict(ok=False, theorems=theorems, assumptions=[], log=o[-6000:], closed=0)
    rc2, o2 = sh('timeout 1200 coqc -R . SV Properties_%s.v' % prop, cwd=COQ, timeout=1300)
    closed = o2.count('Closed under the global context')
    axioms = sorted(set(re.findall(r'^([A-Za-z0-9_\.]+)\s*:', o2.split('Axioms:')[1], re.M))) if 'Axioms:' in o2 else []
    return dict(ok=(rc2 == 0), theorems=theorems, assumptions=axioms, log=(o + o2)[-6000:], closed=closed)

def forbidden_scan():
    """no Admitted/admit/Axiom/Parameter/... anywhere in the development"""
    bad = []
    pat = re.compile(r'\b(Admitted|admit|Axiom|Axioms|Parameter|Parameters|Conjecture|Admit Obligations|Unset Guard Checking|Unset Positivity Checking|Unset Universe Checking|bypass_check)\b')
    for dp, dn, fn in os.walk(COQ):
        for f in fn:
            if f.endswith('.v'):
                for i, l in enumerate(open(os.path.join(dp, f), errors='replace')):
                    l2 = re.sub(r'\(\*.*?\*\)', '', l)
                    if pat.search(l2): bad.append('%s:%d: %s' % (os.path.relpath(os.path.join(dp, f), ROOT), i + 1, l.strip()))
    return bad

# ---------------------------------------------------------------- a check run
class Check:
    def __init__(self, prop, tier, seed):
        self.prop, self.tier, self.seed = prop, tier, seed
        self.rng = Rng(seed ^ int(hashlib.sha256(prop.encode()).hexdigest()[:15], 16))
        self.t0 = time.time()
        self.dir = os.path.join(BUILD, prop); os.makedirs(self.dir, exist_ok=True)
        self.cases = []          # (line, class)
        self.violations = []     # dicts
        self.known = []
        self.notes = []
        self.classes = {}
        self.evaluations = 0
        self.distinct = set()
        self.samples = []
        self.obligations = []    # (name, ok)
        self.trusted = []
        self.extra = {}
        self.abstain = 0
    def add(self, line, cls='misc'):
        self.cases.append((line, cls))
    def quick(self): return self.tier == 'quick'
    def scale(self, q, t): return q if self.tier == 'quick' else t

    def correspond(self, impl, model, label='', impl_extra=(), model_extra=(), nontrivial=None, cases=None):
        """run self.cases (or cases) on both sides, compare result lines"""
        cases = cases if cases is not None else self.cases
        lines = [c[0] for c in cases]
        if os.environ.get('VERIF_DUMP_CASES') and not impl_extra and not model_extra:
            os.makedirs(os.environ['VERIF_DUMP_CASES'], exist_ok=True)
            grp = os.path.basename(os.path.dirname(model)).replace('model_', '').replace('_fast', '')
            with open(os.path.join(os.environ['VERIF_DUMP_CASES'], grp + '.cases'), 'a') as f:
                for l, c in cases: f.write(c + '\t' + l + '\n')
        t = time.time()
        with cf.ThreadPoolExecutor(max_workers=2) as ex:
            fi = ex.submit(run_cases, impl, lines, impl_extra, 8)
            fm = ex.submit(run_cases, model, lines, model_extra, NPROC)
            ri, rm = fi.result(), fm.result()
        bad = []
        for (line, cls), a, b in zip(cases, ri, rm):
            self.evaluations += 1
            self.classes[cls] = self.classes.get(cls, 0) + 1
            if b.startswith('#-99') or b.startswith('#-97'):      # out of fuel / the model runner ran out of stack or memory: no verdict, counted
                self.abstain += 1; continue
            triv = (nontrivial(line, a, b) if nontrivial else True)
            if triv: self.distinct.add(hashlib.sha256((line + '|' + a).encode()).digest()[:12])
            if a != b:
                bad.append((line, cls, a, b))
        self.notes.append('%s: %d cases in %.1fs, %d disagreements' % (label or 'correspondence', len(lines), time.time() - t, len(bad)))
        if bad:
            hist = {}
            for _, cls, _, _ in bad: hist[cls] = hist.get(cls, 0) + 1
            self.notes.append('   disagreement classes: ' + ', '.join('%s=%d' % kv for kv in sorted(hist.items())))
            if os.environ.get('VERIF_DEBUG'):
                shown = set()
                for line, cls, a, b in bad:
                    if cls in shown: continue
                    shown.add(cls); print('DEBUG', cls, line[:300]); print('   impl :', a[:200]); print('   model:', b[:200])
        if cases and len(self.samples) < 12:
            for k in (0, len(cases) // 2, len(cases) - 1):
                self.samples.append({'case': cases[k][0][:600], 'class': cases[k][1], 'impl': ri[k][:300], 'model': rm[k][:300]})
        for line, cls, a, b in bad:
            self.disagreement(line, cls, a, b, impl, model, impl_extra, model_extra)
        return ri, rm

    def disagreement(self, line, cls, a, b, impl=None, model=None, impl_extra=(), model_extra=()):
        kf = finding_for(self.prop, line)
        if kf:
            if not any(k['what'] == kf['what'] for k in self.known): self.known.append(kf)
            return
        if sum(1 for v in self.violations if v['kind'] == 'correspondence') >= 20: return      # keep the first 20 concrete inputs (however many obligations failed)
        if impl and model:
            line, a, b = shrink(line, impl, model, impl_extra, model_extra, a, b)
        self.violations.append({'kind': 'correspondence', 'class': cls, 'case': line, 'impl': a, 'model': b})

    def obligation(self, name, ok, detail=''):
        self.obligations.append((name, bool(ok)))
        if not ok:
            self.violations.append({'kind': 'obligation', 'name': name, 'detail': detail[-4000:]})

    def coq(self):
        """proof obligations of this property: Properties_<id>.v compiles, theorems closed"""
        bad = forbidden_scan()
        self.obligation('no Admitted/Axiom/Parameter in the development', not bad, '\n'.join(bad))
        r = coq_property(self.prop)
        for t in r['theorems']:
            self.obligation('theorem ' + t, r['ok'], r['log'])
        if not r['theorems']:
            self.obligation('Properties_%s.v has theorems' % self.prop, False, 'none found')
        self.extra['print_assumptions_closed'] = r['closed']
        self.extra['axioms_reported'] = r['assumptions']
        return r

    def finish(self, level='proof', technique='', trusted=None, explanation=''):
        evdir = os.environ.get('VERIF_EVIDENCE_DIR') or os.path.join(ROOT, 'evidence')   # seed evaluations on scratch trees redirect it
        os.makedirs(evdir, exist_ok=True)
        os.makedirs(os.path.join(ROOT, 'replays'), exist_ok=True)
        # a violation backed by a concrete input outranks a bare broken obligation
        witnessed = [v for v in self.violations if v['kind'] == 'correspondence' or v.get('witness')]
        replay = None
        if self.violations:
            replay = os.path.join(ROOT, 'replays', '%s-%s.json' % (self.prop, hashlib.sha256(json.dumps(self.violations, sort_keys=True).encode()).hexdigest()[:10]))
            json.dump({'property': self.prop, 'seed': self.seed, 'tier': self.tier, 'violations': self.violations,
                       'how_to_replay': './check %s --replay %s' % (self.prop, replay)}, open(replay, 'w'), indent=1)
        nobl = len(self.obligations); ndis = sum(1 for _, ok in self.obligations if ok)
        ev = {'property_id': self.prop, 'tier': self.tier, 'seed': self.seed, 'level': level,
              'coverage': dict({
                  'obligations': nobl, 'discharged': ndis,
                  'checker_cmd': 'cd /verif/coq && make (coqc 8.16.1, full .vo build) ; coqc -R . SV Properties_%s.v' % self.prop,
                  'trusted_base': trusted or [],
                  'obligation_list': [{'name': n, 'ok': ok} for n, ok in self.obligations],
                  'evaluations': self.evaluations, 'distinct_nontrivial': len(self.distinct),
                  'rule': 'a case is one operation line executed by the C implementation (built from /repo working tree) and by the extracted Coq model; distinct = distinct (case, implementation result) pairs; non-trivial = the model gave a verdict (no fuel abstention)',
                  'samples': self.samples[:12], 'input_classes': self.classes, 'fuel_abstentions': self.abstain,
                  'notes': self.notes, 'explanation': explanation}, **self.extra),
              'assumptions': trusted or [], 'wall_s': round(time.time() - self.t0, 2), 'violations': len(self.violations)}
        json.dump(ev, open(os.path.join(evdir, self.prop + '.json'), 'w'), indent=1)
        for k in self.known:
            print('KNOWN-FINDING: property=%s %s' % (self.prop, k['what']))
        for n in self.notes: print('  ' + n)
        print('  obligations %d/%d discharged; %d evaluations, %d distinct; %.1fs' % (ndis, nobl, self.evaluations, len(self.distinct), time.time() - self.t0))
        if self.violations:
            tail = '' if witnessed else ' no-failing-input-found'
            print('VIOLATION property=%s replay=%s%s' % (self.prop, replay, tail))
            return 1
        return 0

# ---------------------------------------------------------------- shrinking
def _differs(line, impl, model, ie, me):
    a = run_cases(impl, [line], ie, 1)[0]; b = run_cases(model, [line], me, 1)[0]
    return (a != b and not b.startswith('#-99') and not b.startswith('#-97')), a, b

def shrink(line, impl, model, ie, me, a, b, budget=60):
    """greedy field simplification while the disagreement persists"""
    f = line.split(' ')
    def attempt(nf):
        nonlocal f, a, b, budget
        if budget <= 0: return False
        budget -= 1
        try:
            d, x, y = _differs(' '.join(nf), impl, model, ie, me)
        except Exception:
            return False
        if d: f, a, b = nf, x, y; return True
        return False
    for i in range(1, len(f)):
        v = f[i]
        if v in ('-', '.') or v.startswith('#'): continue
        n = len(v) // 2
        # try all-zero, then zeroing halves
        for cand in ('00' * n, v[:n // 2 * 2] + '00' * (n - n // 2), '00' * (n // 2) + v[n // 2 * 2:]):
            if cand != f[i] and attempt(f[:i] + [cand] + f[i + 1:]): break
    return ' '.join(f), a, b
