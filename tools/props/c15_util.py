"""Case-crafting helpers for C15 (sign-to-contract / anti-exfil).  Used ONLY to build inputs (commitment
triples with chosen nonces, valid signatures over them); verdicts come from implementation vs model."""
from pyec import *

def s2c_tweak(Q, data):
    """hash(Q, data) of the s2c point commitment, as an integer (not reduced)"""
    return int.from_bytes(tagged('s2c/ecdsa/point', ser33(Q) + data), 'big')

def host_commit(rho): return tagged('s2c/ecdsa/data', rho)

def s2c_commit_point(Q, data):
    t = s2c_tweak(Q, data)
    if t >= N: return None
    return add(Q, mul(t, G))

def s2c_sign_k(d, m, k, data):
    """sign-to-contract signature over message scalar m with ORIGINAL nonce k (opening = k*G):
       returns (r, s_low, opening) or None"""
    Q = mul(k, G); t = s2c_tweak(Q, data)
    if t >= N or (k + t) % N == 0: return None
    k2 = (k + t) % N
    r, s = ecdsa_sign_k(d, m, k2)
    if r == 0 or s == 0: return None
    if s > N // 2: s = N - s
    return r, s, Q
