"""C02 - BIP-340 signing and verification exact"""
from props.common import *
FINISH = dict(level='proof', technique='Coq theorems: model verify/sign equal a literal BIP-340 transcription for all messages of all lengths (Properties_C02.v) + differential correspondence model vs C',
              trusted=TRUSTED_COMMON + ['sign=>verify completeness assumes MathFacts (group law, n prime)'])
MAGIC = 'da6fb38c'
def runners(chk):
    impl, model = core_runners(chk); return impl, model, (), ()

def gen(chk):
    r = chk.rng
    def kp(d): 
        Q = mul(d, G); return h32(d) + pk_obj(Q)
    keys = [1, 2, 3, N - 1, N - 2] + [r.seckey() for _ in range(6)]
    # keys of both parities
    evens = [d for d in keys if mul(d, G)[1] % 2 == 0]; odds = [d for d in keys if mul(d, G)[1] % 2 == 1]
    # --- sign32 with aux None / zero / random: aux=None must equal aux=0^32
    for d in keys:
        m = r.bytes(32)
        chk.add('schnorrsig_sign32 %s %s -' % (m.hex(), kp(d)), 'sign32_aux_none')
        chk.add('schnorrsig_sign32 %s %s %s' % (m.hex(), kp(d), '00' * 32), 'sign32_aux_zero')
        chk.add('schnorrsig_sign32 %s %s %s' % (m.hex(), kp(d), r.bytes(32).hex()), 'sign32_aux_random')
    # invalid keypairs: zero object, secret key zero / >= n with a valid pubkey part
    chk.add('schnorrsig_sign32 %s %s -' % ('11' * 32, '00' * 96), 'sign_bad_keypair')
    chk.add('schnorrsig_sign32 %s %s -' % ('11' * 32, h32(0) + pk_obj(G)), 'sign_bad_keypair')
    chk.add('schnorrsig_sign32 %s %s -' % ('11' * 32, h32(N) + pk_obj(G)), 'sign_bad_keypair')
    # --- sign_custom: every message length 0..300 (quick: every 1..300 step via sampling all), longer sampled
    lens = list(range(0, 301)) + [447, 448, 512, 1000, 1001, 1023, 1024, 4095, 4096, 10000] + ([65536, 100000] if not chk.quick() else [100000])
    for L in lens:
        d = r.choice(keys); m = r.bytes(L)
        form = r.below(3)
        if form == 0: chk.add('schnorrsig_sign_custom %s %s - #0 -' % (hx(m), kp(d)), 'sign_custom_len')
        elif form == 1: chk.add('schnorrsig_sign_custom %s %s %s #0 -' % (hx(m), kp(d), MAGIC), 'sign_custom_len')
        else: chk.add('schnorrsig_sign_custom %s %s %s #0 %s' % (hx(m), kp(d), MAGIC, r.bytes(32).hex()), 'sign_custom_len')
        # and verify a python-made signature on the same message (checks the challenge hash at this length)
        sig = schnorr_sign(d, m, r.seckey()); Q = mul(d, G); X = lift_x(Q[0])
        chk.add('schnorrsig_verify %s %s %s' % (sig.hex(), hx(m), pk_obj(X)), 'verify_len')
    # the default nonce function named explicitly (documented to behave like NULL), with and without auxiliary data,
    # keys of both parities, several lengths; and the exported function called directly with various tags
    for L in [0, 1, 31, 32, 33, 55, 56, 64, 100, 300]:
        for d in (evens[:2] + odds[:2]):
            m = r.bytes(L)
            chk.add('schnorrsig_sign_custom %s %s %s #1 %s' % (hx(m), kp(d), MAGIC, opt(None if r.chance(1, 2) else r.bytes(32))), 'sign_custom_explicit_default_nonce')
    for i in range(chk.scale(30, 300)):
        m = r.bytes(r.choice([0, 1, 32, 33, 64, 200])); key = r.bytes(32); pk = r.bytes(32)
        algo = r.choice([None, b'BIP0340/nonce', b'BIP0340/nonc', b'BIP0340/nonce\x00', b'', b'MuSig/nonce', r.bytes(r.below(70))])
        chk.add('nonce_function_bip340 %s %s %s %s %s' % (hx(m), key.hex(), pk.hex(), '-' if algo is None else hx(algo), opt(None if r.chance(1, 2) else r.bytes(32))), 'nonce_function_direct')
    # custom nonce functions: fixed nonce (0, n -> fail; 1, n-1 ok), failing callback, bad magic
    for nd in (0, N, 1, N - 1, N + 1, (1 << 256) - 1, r.seckey()):
        chk.add('schnorrsig_sign_custom %s %s %s #2 %s' % (r.bytes(32).hex(), kp(r.choice(keys)), MAGIC, h32(nd)), 'sign_custom_nonce')
    chk.add('schnorrsig_sign_custom %s %s %s #3 -' % (r.bytes(32).hex(), kp(keys[0]), MAGIC), 'sign_custom_nonce_fail')
    chk.add('schnorrsig_sign_custom %s %s %s #0 -' % (r.bytes(32).hex(), kp(keys[0]), 'da6fb38d'), 'sign_custom_bad_magic')
    # --- verification: honest signatures, every single-bit flip, re-encodings, off-curve r
    for d in (evens[:1] + odds[:1]):
        m = r.bytes(32); sig = schnorr_sign(d, m, r.seckey()); X = lift_x(mul(d, G)[0])
        chk.add('schnorrsig_verify %s %s %s' % (sig.hex(), m.hex(), pk_obj(X)), 'verify_honest')
        nflip = 512 if not chk.quick() else 512
        for b in range(nflip):
            s2 = bytearray(sig); s2[b // 8] ^= 1 << (b % 8)
            chk.add('schnorrsig_verify %s %s %s' % (bytes(s2).hex(), m.hex(), pk_obj(X)), 'verify_bitflip')
        rr = int.from_bytes(sig[:32], 'big'); ss = int.from_bytes(sig[32:], 'big')
        for r2, s2, cls in [(rr + P, ss, 'verify_r_plus_p'), (rr, ss + N, 'verify_s_plus_n'), (P, ss, 'verify_r_eq_p'), (P - 1, ss, 'verify_r_pm1'), (rr, N, 'verify_s_eq_n'),
                            (rr, N - ss, 'verify_neg_s'), (0, ss, 'verify_r_zero'), (rr, 0, 'verify_s_zero'), ((1 << 256) - 1, ss, 'verify_r_max'), (rr, (1 << 256) - 1, 'verify_s_max')]:
            if r2 < (1 << 256) and s2 < (1 << 256):
                chk.add('schnorrsig_verify %s%s %s %s' % (h32(r2), h32(s2), m.hex(), pk_obj(X)), cls)
        # wrong key / negated key object (odd y) / wrong message
        chk.add('schnorrsig_verify %s %s %s' % (sig.hex(), m.hex(), pk_obj(neg(X))), 'verify_odd_key_obj')
        chk.add('schnorrsig_verify %s %s %s' % (sig.hex(), r.bytes(32).hex(), pk_obj(X)), 'verify_wrong_msg')
    # signatures whose R would have odd y (negate k) must fail: take s' = n - s pattern above; off-curve r
    for i in range(chk.scale(30, 300)):
        x = r.scalar256()
        m = r.bytes(r.below(80)); X = lift_x(mul(r.seckey(), G)[0])
        chk.add('schnorrsig_verify %s%s %s %s' % (h32(x), h32(r.scalar256()), hx(m), pk_obj(X)), 'verify_random_rs')
    for i in range(chk.scale(40, 1000)):
        d = r.seckey(); m = r.bytes(r.choice([0, 1, 31, 32, 33, 55, 56, 63, 64, 65, 119, 120, 200]))
        sig = schnorr_sign(d, m, r.seckey()); X = lift_x(mul(d, G)[0])
        chk.add('schnorrsig_verify %s %s %s' % (sig.hex(), hx(m), pk_obj(X)), 'verify_honest')
        aux = None if r.chance(1, 3) else r.bytes(32)
        if len(m) == 32: chk.add('schnorrsig_sign32 %s %s %s' % (m.hex(), kp(d), opt(aux)), 'sign32_random')

def run(chk):
    impl, model, ie, me = runners(chk)
    chk.coq(); gen(chk); chk.correspond(impl, model, 'schnorrsig api')
