"""Curve arithmetic with EXPLICIT curve constants (for the repository's EXHAUSTIVE_TEST_ORDER small
groups as well as secp256k1), BIP-340 signing and half-aggregation in that group.  Used only by the
C17 case generator to craft inputs; never decides a verdict."""
import hashlib

class Curve:
    def __init__(self, p, b, n, gx, gy): self.p, self.b, self.n, self.G = p, b, n, (gx, gy)
    def params(self): return ['--params'] + [str(v) for v in (self.p, self.b, self.n, self.G[0], self.G[1])]
    def add(self, a, c):
        p = self.p
        if a is None: return c
        if c is None: return a
        (x1, y1), (x2, y2) = a, c
        if x1 == x2:
            if (y1 + y2) % p == 0: return None
            l = 3 * x1 * x1 * pow(2 * y1, -1, p) % p
        else:
            l = (y2 - y1) * pow(x2 - x1, -1, p) % p
        x3 = (l * l - x1 - x2) % p
        return (x3, (l * (x1 - x3) - y1) % p)
    def neg(self, a): return None if a is None else (a[0], (-a[1]) % self.p)
    def mul(self, k, a):
        k %= self.n; r = None
        while k:
            if k & 1: r = self.add(r, a)
            a = self.add(a, a); k >>= 1
        return r
    def lift_x(self, x, odd=False):
        p = self.p
        if x >= p: return None
        y2 = (pow(x, 3, p) + self.b) % p
        y = pow(y2, (p + 1) // 4, p)
        if y * y % p != y2: return None
        if (y & 1) != int(odd): y = p - y
        return (x, y)
    def on_curve_x(self, x): return self.lift_x(x) is not None

P_FIELD = 0xFFFFFFFFFFFFFFFFFFFFFFFFFFFFFFFFFFFFFFFFFFFFFFFFFFFFFFFEFFFFFC2F
SECP = Curve(P_FIELD, 7, 0xFFFFFFFFFFFFFFFFFFFFFFFFFFFFFFFEBAAEDCE6AF48A03BBFD25E8CD0364141,
             0x79BE667EF9DCBBAC55A06295CE870B07029BFCDB2DCE28D959F2815B16F81798,
             0x483ADA7726A3C4655DA4FBFC0E1108A8FD17B448A68554199C47D08FFB10D4B8)
# /repo/src/group_impl.h, "#if EXHAUSTIVE_TEST_ORDER == 13" / 199 (SECP256K1_G_ORDER_13 / _199, SECP256K1_B 2 / 4)
ORDER13 = Curve(P_FIELD, 2, 13,
                0xa2482ff84bf34edfa51262fde57921dbe0dd2cb7a5914790bc71631fc09704fb,
                0x942536cba3e494923a701cc3ee3e443fdf182aa915b8aa6a166d3b19ba84b045)
ORDER199 = Curve(P_FIELD, 4, 199,
                 0x7fb07b5cd07c3bda553902e27a87ea2c35108a7f051f41e5b76abad51f2703ad,
                 0x0a2515395b4c4438952a634fac10dd4d6d6f474598990c273a4f3116d32ff969)

def b32(x): return (x % (1 << 256)).to_bytes(32, 'big')
def sha256(b): return hashlib.sha256(b).digest()
def tagged(tag, msg):
    t = sha256(tag.encode()); return sha256(t + t + msg)
def pk_obj(pt): return bytes(64) if pt is None else b32(pt[0]) + b32(pt[1])

def xonly_key(cv, d):
    """(d', P) with P = d*G made even-y (x-only public key object as the library stores it)"""
    Pt = cv.mul(d, cv.G)
    if Pt[1] & 1: return (cv.n - d) % cv.n, (Pt[0], cv.p - Pt[1])
    return d % cv.n, Pt

def schnorr_sign(cv, d, msg, k0):
    """BIP-340 signature with nonce k0 (no aux/nonce derivation: any k0 != 0 gives a valid signature)"""
    d, Pt = xonly_key(cv, d)
    R = cv.mul(k0, cv.G); k = (cv.n - k0) % cv.n if R[1] & 1 else k0 % cv.n
    e = int.from_bytes(tagged("BIP0340/challenge", b32(R[0]) + b32(Pt[0]) + msg), 'big') % cv.n
    return b32(R[0]) + b32((k + e * d) % cv.n)

def schnorr_verify(cv, pk, msg, sig):
    rx = int.from_bytes(sig[:32], 'big'); s = int.from_bytes(sig[32:], 'big')
    if rx >= cv.p or s >= cv.n: return False
    e = int.from_bytes(tagged("BIP0340/challenge", sig[:32] + b32(pk[0]) + msg), 'big') % cv.n
    R = cv.add(cv.mul(s, cv.G), cv.mul(cv.n - e, pk))
    return R is not None and R[1] % 2 == 0 and R[0] == rx

def aggregate(cv, pks, msgs, sigs):
    """one-shot half-aggregation per the draft specification; returns bytes of length 32*(n+1)"""
    pre = b''; s = 0
    for i, (pk, m, sig) in enumerate(zip(pks, msgs, sigs)):
        pre += sig[:32] + b32(pk[0]) + m
        z = 1 if i == 0 else int.from_bytes(tagged("HalfAgg/randomizer", pre), 'big') % cv.n
        s = (s + z * int.from_bytes(sig[32:], 'big')) % cv.n
    return b''.join(sig[:32] for sig in sigs) + b32(s)

def compositions(n, maxparts=None):
    """all ordered splits n = n1 + n2 + ... with parts >= 1"""
    if n == 0: yield []; return
    for first in range(1, n + 1):
        for rest in compositions(n - first):
            yield [first] + rest
