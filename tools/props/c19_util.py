"""helpers of the C19 (BP++ norm argument, generators) case generator: byte surgery on proofs and
generator serializations.  Nothing here decides a verdict."""
from pyec import *

def log2(x): return x.bit_length() - 1
def rounds(a, b): return max(log2(a), log2(b))
def need_scratch(a, b):
    """bytes the verifier allocates from the scratch space: gammas, s_g, s_h, rho_inv_pows (32-byte scalars)"""
    return 32 * (rounds(a, b) + a + b + log2(a))

def hexs(vals): return ''.join(h32(v) for v in vals) or '.'
def fld(b): return b.hex() if b else '.'

def flip_bit(b, bit):
    b = bytearray(b); b[bit // 8] ^= 1 << (bit % 8); return bytes(b)
def set_byte(b, i, v):
    b = bytearray(b); b[i] = v; return bytes(b)
def put(b, off, chunk):
    b = bytearray(b); b[off:off + len(chunk)] = chunk; return bytes(b)

def x_not_on_curve(start):
    """smallest x >= start (mod p) with x^3 + 7 a non-residue"""
    x = start % P
    while lift_x(x) is not None: x = (x + 1) % P
    return x

def is_square(y): return pow(y, (P - 1) // 2, P) == 1
def gen_ser(pt):
    """secp256k1_generator_serialize: 0x0a if y is a square, 0x0b otherwise"""
    return bytes([10 if is_square(pt[1]) else 11]) + b32(pt[0])

def scalar_vec(r, n, kind):
    """kinds: rand, zero, boundary (0, 1, n-1 mixed), one, nm1, small"""
    if kind == 'zero': return [0] * n
    if kind == 'one': return [1] * n
    if kind == 'nm1': return [N - 1] * n
    if kind == 'boundary': return [r.choice([0, 1, N - 1, 2, N - 2]) for _ in range(n)]
    if kind == 'small': return [r.below(1000) for _ in range(n)]
    if kind == 'edge': return [r.scalar256() for _ in range(n)]       # includes values >= n (reduced by both sides)
    return [r.seckey() for _ in range(n)]

TRANSCRIPT_LENS = [0, 1, 8, 31, 32, 47, 48, 55, 56, 63, 64, 65, 100, 119, 120, 128, 200, 300]
