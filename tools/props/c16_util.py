"""Generator-side helpers for C16 (whitelist): ring keys, message hash and a prover in which the nonce and
all forged scalars are chosen by the caller (Borromean core shared with c11_util).  Never decides a verdict."""
from pyec import *
from props.c11_util import bor_sign1, bor_verify1, ProverFail

def keys_hex(pts): return ''.join(pk_obj(p) for p in pts) or '.'
def wl_tweak(T):
    """H(T) * T as secp256k1_whitelist_tweak_pubkey (T unchanged if T is infinity)"""
    if T is None: return None
    t = int.from_bytes(sha256(ser33(T)), 'big')
    if t >= N or t == 0: return T
    return mul(t, T)
def wl_ring_keys(online, offline, W): return [add(wl_tweak(add(off, W)), on) for on, off in zip(online, offline)]
def wl_msg(online, offline, W): return sha256(ser33(W) + b''.join(ser33(off) + ser33(on) for on, off in zip(online, offline)))
def wl_secret(online_sk, summed_sk):
    t = int.from_bytes(sha256(ser33(mul(summed_sk, G))), 'big') % N
    return (summed_sk * t + online_sk) % N
def wl_prove(online, offline, W, index, online_sk, summed_sk, k, forged):
    return bor_sign1(wl_ring_keys(online, offline, W), index, wl_secret(online_sk, summed_sk), k, forged, wl_msg(online, offline, W))
def wl_data(e0, s_enc): return e0 + b''.join(b32(x) for x in s_enc)
def wl_serialize(nk, data): return bytes([nk & 255]) + data
def sig_fields(nk, data): return '#%d %s' % (nk, data.hex() or '.')
def f1_forgery(W): return sha256(sha256(ser33(W)))     # e0 that verifies against the EMPTY key list on the unchanged tree
