"""C06 - secret-dependent data never steers branches or memory addresses (partial: source level)"""
import os
from props.common import *
import kernel_gen
FINISH = dict(level='proof', technique='regenerated obligations: the branch-free selection/arithmetic primitives lie in the straight-line fragment of c2coq (no branch, loop, variable index or division can be expressed in it) + Coq theorems that the regenerated primitives compute exact selections; valgrind memcheck on the repository ctime_tests (built from the working tree, three limb configurations) as witness search for everything above the primitives',
              trusted=TRUSTED_COMMON + ['source-level only: compiler-introduced branches are invisible to the proof part; the valgrind run observes the compiled binary at -O2 on the executed paths (sampling)',
                                        'tools/c2coq.py: membership of a function in the straight-line fragment is decided by the translator'])
CONFIGS = {'default': [], 'int128_struct': ['-DUSE_FORCE_WIDEMUL_INT128_STRUCT=1'], 'int64': ['-DUSE_FORCE_WIDEMUL_INT64=1'], 'asm': ['-DUSE_ASM_X86_64=1']}
MODS = 'ECDH RECOVERY EXTRAKEYS SCHNORRSIG MUSIG ELLSWIFT ECDSA_S2C ECDSA_ADAPTOR GENERATOR RANGEPROOF WHITELIST SURJECTIONPROOF BPPP SCHNORRSIG_HALFAGG'.split()

def build_ctime(chk, name, flags):
    exe = os.path.join(chk.dir, 'ctime_' + name)
    src = [os.path.join(vlib.REPO, 'src', f) for f in ('ctime_tests.c', 'secp256k1.c', 'precomputed_ecmult.c', 'precomputed_ecmult_gen.c')]
    cmd = ['gcc', '-O2', '-g', '-w', '-I' + vlib.REPO, '-I' + vlib.REPO + '/src', '-I' + vlib.REPO + '/include', '-DVALGRIND=1', '-DECMULT_WINDOW_SIZE=15', '-DCOMB_BLOCKS=43', '-DCOMB_TEETH=6'] + \
          ['-DENABLE_MODULE_%s=1' % m for m in MODS] + list(flags) + src + ['-o', exe]
    rc, o = vlib.sh(cmd, timeout=900)
    if rc != 0: raise vlib.BuildError('ctime_tests does not build: ' + o[-2000:])
    return exe

def runners(chk): return None, None, (), ()

def run(chk):
    # (1) regenerated straight-line obligations + correctness of the selection primitives
    res = kernel_gen.ct_obligations(chk)
    rc, log = vlib.coq_make(['Kernel/CtPrimitives.vo'], timeout=600)
    for thm in ('scalar_cmov_correct', 'fe_cmov_correct', 'fe_storage_cmov_correct', 'scalar_is_zero_correct'):
        chk.obligation('kernel theorem %s over the regenerated primitive' % thm, rc == 0 and os.path.exists(os.path.join(vlib.COQ, 'Kernel/CtPrimitives.vo')), log[-3000:])
    chk.coq()
    # (1b) source-level lint of the constant-time layer: 85 functions that run on secret data must not gain a branch, an early return or a
    # variable-time (_var) callee with respect to the committed baseline (corpus/ct_baseline.json, taken from the pinned tree)
    import ct_lint, json
    cur = ct_lint.measure(vlib.REPO); base = json.load(open(ct_lint.BASELINE))
    bad = ct_lint.compare(cur, base)
    chk.obligation('constant-time layer: no function on the secret path gains control flow or a variable-time callee (%d functions)' % len(base), not bad,
                   '\n'.join('%s: %s' % b for b in bad))
    chk.extra['ct_lint_functions'] = len(base)
    # (2) valgrind memcheck on the maintainers' constant-time test, built from the working tree
    names = ['default', 'int128_struct', 'int64'] if chk.quick() else list(CONFIGS)
    for c in names:
        try: exe = build_ctime(chk, c, CONFIGS[c])
        except vlib.BuildError as e:
            chk.obligation('ctime_tests builds (%s)' % c, False, str(e)); continue
        rc, o = vlib.sh(['valgrind', '-q', '--error-exitcode=42', '--num-callers=30', exe], timeout=1800)
        chk.evaluations += 1; chk.classes['valgrind_' + c] = 1; chk.distinct.add('valgrind ' + c)
        chk.notes.append('valgrind ctime_tests (%s): rc=%d' % (c, rc))
        chk.samples.append({'case': 'valgrind -q --error-exitcode=42 ctime_tests [%s]' % c, 'rc': rc, 'output_tail': o[-400:]})
        if rc != 0:
            chk.violations.append({'kind': 'correspondence', 'class': 'valgrind_' + c, 'case': 'valgrind --error-exitcode=42 %s' % exe,
                                   'impl': o[-4000:], 'model': 'no conditional jump, address or variable-time instruction depends on secret (undefined) data'})
