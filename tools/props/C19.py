"""C19 - Bulletproofs++ norm argument and generator lists (DESIGN.md section 5, C19).
Stage 1: generator lists, codecs, helpers, commitments and the PROVER (model and C must produce
byte-identical proofs).  Stage 2: the verifier, on the model prover's proofs and on adversarial
variants of them (lengths, flips, sign bytes, infinity encodings, scalars >= n, bad points, scratch)."""
import threading
from props.common import *
from props.c19_util import *
FINISH = dict(level='proof',
              technique='Coq theorems about the executable BP++ model (Properties_C19.v: rejection clauses, scratch fail-closed, codec, generator prefix/round-trip) + differential correspondence of the model (prover, verifier, commitment, generators, codecs) with the C implementation built from the working tree',
              trusted=TRUSTED_COMMON + [
                  'completeness of the norm argument (prove_verifies) is NOT proved for secp256k1 (needs the group law); it is checked by vm_compute on a toy curve (Examples in Proofs/BpppProofs.v) and observed on every honest proof of the correspondence run',
                  'generators_roundtrip_partial assumes the member-level round trip parse1 (ser1 Q) = Some Q (Euler criterion for p = 3 mod 4); observed by the correspondence run',
                  'ecmult_multi_var (Strauss / Pippenger / simple, with or without scratch) is modelled by its result only',
                  'Shallue-van de Woestijne map: private copy in Model/Bppp.v (bp_svdw), constants c, d as in the C code'],
              explanation='verify_rejects_* theorems hold for all inputs of the model verifier; the model is tied to the C code by the cases counted here')

def runners(chk):
    impl = vlib.build_impl(chk.dir, name='impl')
    model = vlib.ensure_model('bppp')
    return impl, model, (), ()

class Inst:
    def __init__(self, a, b, nv, lv, cv, rho, tr, gens, kind, full):
        self.a, self.b, self.nv, self.lv, self.cv, self.rho, self.tr, self.gens, self.kind, self.full = a, b, nv, lv, cv, rho, tr, gens, kind, full
        self.ip = self.ic = None; self.lite = False
    def gens_hex(self): return ''.join(self.gens)
    def prove_line(self, scratch):
        return 'bppp_prove %s %s %s %s %s %s #%d' % (fld(self.tr), h32(self.rho), self.gens_hex(), hexs(self.nv), hexs(self.lv), hexs(self.cv), scratch)
    def commit_line(self, scratch):
        mu = (self.rho % N) ** 2 % N
        return 'bppp_commit %s %s %s %s %s #%d' % (self.gens_hex(), hexs(self.nv), hexs(self.lv), hexs(self.cv), h32(mu), scratch)
    def verify_line(self, proof, scratch, tr=None, rho=None, gens=None, g_len=None, cv=None, commit=None):
        return 'bppp_verify %s %s %s #%d %s %s %s #%d' % (
            fld(self.tr if tr is None else tr), h32(self.rho if rho is None else rho),
            (self.gens_hex() if gens is None else gens) or '.', self.a if g_len is None else g_len,
            hexs(self.cv if cv is None else cv), self.commit if commit is None else commit, fld(proof), scratch)

def dims(chk): return [1, 2, 4, 8, 16] if chk.quick() else [1, 2, 4, 8, 16, 32, 64]
def some_scratch(r): return r.choice([0, 1, 64, 100, 1000, 5000, 20000, 100000, 1000000, r.below(3000), r.below(60000)])

# ------------------------------------------------------------------------------------------ stage 1
def gen_small(chk, gens):
    """generator lists, codecs, helpers"""
    r = chk.rng
    cnt = (list(range(0, 25)) + [32, 33, 64, 65, 128, 256]) if chk.quick() else list(range(0, 257))
    for k in cnt: chk.add('bppp_gens_create #%d' % k, 'gens_create')
    # --- parse: exact strings, 33k+-1, bad member in the middle, tags, NULL
    pts = [(int(g[:64], 16), int(g[64:], 16)) for g in gens]
    for k in list(dict.fromkeys(min(k, len(pts)) for k in [0, 1, 2, 3, 4, 7, 8, 16, 33, 64, 100, 128, 255, 256])):
        s = b''.join(gen_ser(p) for p in pts[:k])
        chk.add('bppp_gens_parse ' + fld(s), 'gens_parse_exact')
        chk.add('bppp_gens_parse ' + fld(s + bytes([r.below(256)])), 'gens_parse_33k_plus_1')
        if k: chk.add('bppp_gens_parse ' + fld(s[:-1]), 'gens_parse_33k_minus_1')
        chk.add('bppp_gens_parse ' + fld(s + bytes(32)), 'gens_parse_33k_plus_32')
        if k:
            for j in sorted(set([0, k // 2, k - 1])):
                x = pts[j][0]
                for what, enc in [('x_not_on_curve', bytes([10]) + b32(x_not_on_curve(x + 1))), ('x_ge_p', bytes([11]) + b32(P + r.below(1000))),
                                  ('x_max', bytes([10]) + b32((1 << 256) - 1)),
                                  ('tag_bad', bytes([r.choice([0, 2, 3, 4, 8, 9, 12, 13, 0x8a, 0x8b, 0xff])]) + b32(x)),
                                  ('tag_flip', bytes([s[33 * j] ^ 1]) + b32(x)), ('zero', bytes(33))]:
                    chk.add('bppp_gens_parse ' + fld(put(s, 33 * j, enc)), 'gens_parse_bad_member' if what != 'tag_flip' else 'gens_parse_tag_flip')
    chk.add('bppp_gens_parse -', 'gens_parse_null')
    for i in range(chk.scale(30, 300)):
        k = r.below(6); chk.add('bppp_gens_parse ' + fld(r.bytes(33 * k + r.choice([0, 0, 0, 1, 32]))), 'gens_parse_random')
    # random valid x with random tag
    for i in range(chk.scale(40, 400)):
        k = 1 + r.below(4); s = b''
        for _ in range(k):
            x = r.bits(256) % P if r.chance(7, 8) else r.scalar256()
            s += bytes([r.choice([10, 11, 10, 11, 10, 11, 2, 9, 12])]) + b32(x)
        chk.add('bppp_gens_parse ' + fld(s), 'gens_parse_random_x')
    # --- serialize: buffer lengths around 33k
    for k in [0, 1, 2, 5, 16]:
        g = ''.join(gens[:k]) or '.'
        for bl in sorted(set([0, max(0, 33 * k - 33), max(0, 33 * k - 1), 33 * k, 33 * k + 1, 33 * k + 100])):
            chk.add('bppp_gens_serialize %s #%d' % (g, bl), 'gens_serialize_buflen')
    # --- two points in 65 bytes
    inf = '00' * 64
    somepts = gens[:6] + [pk_obj(mul(k, G)) for k in (1, 2, N - 1)] + [inf]
    for i in range(chk.scale(40, 400)):
        chk.add('bppp_points_serialize %s %s' % (r.choice(somepts), r.choice(somepts)), 'points_serialize')
    X, R = pts[0], pts[1]
    base = bytes([((X[1] & 1) << 1) | (R[1] & 1)]) + b32(X[0]) + b32(R[0])
    for sb in range(256):
        for idx in (0, 1): chk.add('bppp_points_parse %s #%d' % (set_byte(base, 0, sb).hex(), idx), 'points_parse_sign_byte')
    for sb in range(8):
        for xs in (bytes(32), b32(X[0])):
            for rs in (bytes(32), b32(R[0])):
                for idx in (0, 1): chk.add('bppp_points_parse %s #%d' % ((bytes([sb]) + xs + rs).hex(), idx), 'points_parse_infinity_sign')
    for i in range(chk.scale(60, 600)):
        x1 = r.choice([X[0], x_not_on_curve(r.bits(256)), P, P + 1, (1 << 256) - 1, 0, 1, r.bits(256) % P, r.scalar256()])
        x2 = r.choice([R[0], x_not_on_curve(r.bits(256)), P, P - 1, 0, 2, r.bits(256) % P, r.scalar256()])
        chk.add('bppp_points_parse %s #%d' % ((bytes([r.choice([0, 1, 2, 3, 3, 4, 255])]) + b32(x1) + b32(x2)).hex(), r.below(2)), 'points_parse_x')
    # --- log2 / power of two
    vals = set(range(1, 70))
    for k in range(64): vals |= {1 << k, (1 << k) + 1, max(1, (1 << k) - 1), (1 << k) + (1 << (k // 2)) if k else 1}
    vals |= {(1 << 64) - 1, (1 << 64) - 2}
    for v in sorted(vals): chk.add('bppp_log2 #%d' % v, 'log2_pow2')
    # --- transcript challenge
    for ln in list(range(0, 132)) if not chk.quick() else [0, 1, 46, 47, 48, 55, 56, 57, 63, 64, 65, 110, 111, 112, 119, 120, 128, 131]:
        chk.add('bppp_challenge %s #%d' % (fld(r.bytes(ln)), r.choice([0, 0, 1, 255, 256, 1 << 32, (1 << 64) - 1])), 'challenge')

def gen_commit(chk, gens):
    r = chk.rng
    shapes = [(0, 0), (1, 0), (0, 1), (1, 1), (2, 1), (3, 2), (5, 3), (4, 4), (7, 1), (8, 2), (16, 16)]
    for (a, b) in shapes:
        for kind in ['rand', 'boundary', 'zero', 'edge'][:chk.scale(3, 4)] if a + b else ['rand']:
            nv, lv, cv = scalar_vec(r, a, kind), scalar_vec(r, b, kind), scalar_vec(r, b, 'rand' if kind == 'zero' else kind)
            mu = r.choice([0, 1, N - 1, r.seckey(), r.scalar256()])
            g = list(gens); r.shuffle(g); g = ''.join(g[:a + b]) or '.'
            for sc in [-1, some_scratch(r)]:
                chk.add('bppp_commit %s %s %s %s %s #%d' % (g, hexs(nv), hexs(lv), hexs(cv), h32(mu), sc), 'commit_' + kind)

def gen_instances(chk, gens):
    """norm-argument instances; inst.full = derive the complete set of verifier cases from it"""
    r = chk.rng; out = []
    D = dims(chk)
    def tr(): return r.bytes(r.choice(TRANSCRIPT_LENS))
    def pick(n):
        g = list(gens[:max(n, min(len(gens), 2 * n))]); r.shuffle(g); return g[:n]
    for a in D:
        for b in D:
            big = a * b > 256       # thorough tier only
            heavy = (a + b > 12) if chk.quick() else (a + b > 48)
            out.append(Inst(a, b, scalar_vec(r, a, 'rand'), scalar_vec(r, b, 'rand'), scalar_vec(r, b, 'rand'), r.seckey(), tr(), gens[:a + b], 'rand', True))
            if not chk.quick() and not big:
                out.append(Inst(a, b, scalar_vec(r, a, 'rand'), scalar_vec(r, b, 'rand'), scalar_vec(r, b, 'rand'), r.seckey(), tr(), pick(a + b), 'rand', True))
            out.append(Inst(a, b, scalar_vec(r, a, 'zero'), scalar_vec(r, b, 'zero'), scalar_vec(r, b, 'rand'), r.seckey(), tr(), gens[:a + b], 'all_zero', True))
            if not heavy or not chk.quick():
                out.append(Inst(a, b, scalar_vec(r, a, 'boundary'), scalar_vec(r, b, 'boundary'), scalar_vec(r, b, 'boundary'), r.choice([1, 2, N - 1, N - 2]), tr(), pick(a + b), 'boundary', False))
            # rho = 0 (also encoded as n): the prover still produces a proof; the verifier must reject it.
            # With an all-zero n_vec the proof satisfies the final equation, so only the rho check rejects it.
            out.append(Inst(a, b, scalar_vec(r, a, 'zero'), scalar_vec(r, b, 'rand'), scalar_vec(r, b, 'rand'), r.choice([0, N]), tr(), gens[:a + b], 'rho_zero_n_zero', False))
            if not heavy:
                out.append(Inst(a, b, scalar_vec(r, a, 'rand'), scalar_vec(r, b, 'rand'), scalar_vec(r, b, 'rand'), 0, tr(), gens[:a + b], 'rho_zero', False))
                out.append(Inst(a, b, scalar_vec(r, a, 'rand'), scalar_vec(r, b, 'zero'), scalar_vec(r, b, 'rand'), r.seckey(), tr(), pick(a + b), 'l_zero', False))
                out.append(Inst(a, b, scalar_vec(r, a, 'edge'), scalar_vec(r, b, 'edge'), scalar_vec(r, b, 'zero'), r.scalar256(), tr(), pick(a + b), 'c_zero_edge', False))
            for t in out[-8:]:
                if t.a == a and t.b == b: t.lite = heavy
    # no-round instances with small scalars: the proof is n || l, re-encodable as s + n
    for i in range(chk.scale(4, 20)):
        out.append(Inst(1, 1, [r.below(1000)], [r.below(1000)], [r.seckey()], r.seckey(), tr(), pick(2), 'small_1x1', True))
    return out

def stage1(chk, insts):
    r = chk.rng; cases = []
    for t in insts:
        # heavy instances are proved once: with or without scratch space; the others without, and again with
        ps = r.choice([-1, -1, 0, 1000, 100000, r.below(40000)]) if t.lite else -1
        t.ip = len(cases); cases.append((t.prove_line(ps), ('prove_' if ps < 0 else 'prove_scratch_') + t.kind))
        t.ic = len(cases); cases.append((t.commit_line(-1 if not t.lite else some_scratch(r)), 'commit_for_' + t.kind))
        if t.full and not t.lite:
            cases.append((t.prove_line(r.choice([0, 100, 1000, 10000, 100000, 1000000])), 'prove_scratch_' + t.kind))
            if t.kind == 'rand':
                cases.append((t.prove_line(r.below(40000)), 'prove_scratch_' + t.kind))
                cases.append((t.commit_line(some_scratch(r)), 'commit_scratch_' + t.kind))
    return cases

# ------------------------------------------------------------------------------------------ stage 2
def stage2(chk, insts, res):
    r = chk.rng; cases = []
    def emit(line, cls): cases.append((line, cls))
    for t in insts:
        pr, cr = res[t.ip].split(' '), res[t.ic].split(' ')
        if pr[0] != '#1' or cr[0] != '#1' or len(pr) < 2: continue
        proof = bytes.fromhex(pr[1]); t.commit = cr[1]
        a, b = t.a, t.b; nr = rounds(a, b); need = need_scratch(a, b)
        honest = 'reject_rho_zero' if t.rho % N == 0 else 'accept'
        V = t.verify_line
        # --- scratch: exactly sufficient, generous; insufficient must fail closed
        emit(V(proof, need), honest + '_scratch_exact_' + t.kind)
        emit(V(proof, 1000000), honest + '_scratch_big_' + t.kind)
        emit(V(proof, need - 1), 'reject_scratch_need_minus_1')
        emit(V(proof + b'\x00', 1000000), 'reject_trailing_byte')
        if t.kind == 'all_zero':
            # the model decides these without group operations: sweep many scratch sizes
            for s in sorted(set([need + 1, need + 15, need + 16, need + 17, need + 31, need + 32] + [need + r.below(4000) for _ in range(chk.scale(6, 40))] + [need + r.below(200000) for _ in range(chk.scale(4, 20))])):
                emit(V(proof, s), 'accept_scratch_sweep_all_zero')
        if not t.full: continue
        if t.lite:
            # heavy dimensions: one representative of each family (the complete families run on the lighter ones)
            off = 65 * nr
            if t.kind == 'rand':
                emit(V(proof, need + 1 + r.below(100000)), 'accept_scratch_sufficient')
                emit(V(proof, 1000000, tr=t.tr + b'\x00'), 'reject_wrong_transcript')
                emit(V(flip_bit(proof, r.below(8 * len(proof))), 1000000), 'reject_bit_flip')
                k = r.below(nr); emit(V(set_byte(proof, 65 * k, proof[65 * k] ^ r.choice([1, 2, 3])), 1000000), 'reject_sign_flipped')
            emit(V(proof, 1000000, rho=0), 'reject_rho_zero_on_honest')
            emit(V(proof + proof[-64:], 1000000), 'reject_trailing_bytes')
            emit(V(proof[:-1], 1000000), 'reject_truncated')
            emit(V(proof, r.below(need)), 'reject_scratch_insufficient')
            emit(V(proof, 1000000, gens=''.join(t.gens[:-1])), 'reject_gen_count_minus_1')
            emit(V(put(proof, off + 32 * r.below(2), b32(N + r.below(3))), 1000000), 'reject_scalar_ge_n')
            for k in range(nr):
                emit(V(set_byte(proof, 65 * k, proof[65 * k] | r.choice([4, 8, 16, 32, 64, 128])), 1000000), 'reject_sign_byte_gt_3')
                po = 65 * k + 1 + 32 * r.below(2)
                emit(V(put(proof, po, b32(r.choice([x_not_on_curve(int.from_bytes(proof[po:po + 32], 'big') + 1), P, (1 << 256) - 1]))), 1000000), 'reject_bad_point')
                if t.kind == 'all_zero': emit(V(set_byte(proof, 65 * k, r.choice([1, 2, 3])), 1000000), 'reject_infinity_with_sign_bit')
            continue
        if t.kind == 'rand':
            for s in [need + 1 + r.below(3000), need + 1, need + 3000 + r.below(100000)][:chk.scale(2, 3)]: emit(V(proof, s), 'accept_scratch_sufficient')
        for s in sorted(set([0, 1, 31, 32, need - 32, need // 2, max(0, need - 1 - r.below(need)), 32 * nr, 32 * (nr + a), 32 * (nr + a + b), 32 * (nr + a + b) - 1])):
            if 0 <= s < need: emit(V(proof, s), 'reject_scratch_insufficient')
        # --- lengths
        for extra in [b'\xff', bytes(32), bytes(64), bytes(65), r.bytes(1 + r.below(130)), proof[-64:], proof[:65]]:
            emit(V(proof + extra, 1000000), 'reject_trailing_bytes')
        for cut in sorted(set([1, 32, 64, 65, len(proof), len(proof) - 1, r.below(len(proof)) + 1])):
            emit(V(proof[:-cut], 1000000), 'reject_truncated')
        if nr: emit(V(proof[65:], 1000000), 'reject_first_round_dropped')
        # --- other public inputs
        emit(V(proof, 1000000, tr=t.tr + b'\x00'), 'reject_wrong_transcript' if nr else 'accept_transcript_unused_0_rounds')
        few = chk.quick()       # fewer of the variants that cost the model a full verification
        emit(V(proof, 1000000, rho=(t.rho + 1) % N), 'reject_wrong_rho')
        emit(V(proof, 1000000, rho=0), 'reject_rho_zero_on_honest')
        emit(V(proof, 1000000, rho=N), 'reject_rho_zero_on_honest')
        C = (int(t.commit[:64], 16), int(t.commit[64:], 16)) if int(t.commit, 16) else None
        emit(V(proof, 1000000, commit=pk_obj(neg(C))), 'reject_negated_commit' if C else 'accept_infinity_commit')
        emit(V(proof, 1000000, commit=pk_obj(add(C, G))), 'reject_shifted_commit')
        emit(V(proof, 1000000, commit='00' * 64), 'reject_infinity_commit' if C else 'accept_infinity_commit')
        j = r.below(b); emit(V(proof, 1000000, cv=t.cv[:j] + [(t.cv[j] + 1) % N] + t.cv[j + 1:]), 'reject_wrong_c_vec' if t.kind != 'all_zero' else 'accept_c_vec_unused_l_zero')
        if a + b >= 2:
            g = list(t.gens); i, k = r.below(a + b), r.below(a + b)
            if i != k:
                g[i], g[k] = g[k], g[i]; emit(V(proof, 1000000, gens=''.join(g)), 'swapped_generators')
        # --- generator count / vector length mismatches, zero lengths, non powers of two
        extra_g = pk_obj(mul(r.seckey(), G))
        emit(V(proof, 1000000, gens=t.gens_hex() + extra_g), 'reject_gen_count_plus_1')
        emit(V(proof, 1000000, gens=''.join(t.gens[:-1])), 'reject_gen_count_minus_1')
        emit(V(proof, 1000000, g_len=2 * a), 'reject_gen_count_g_len_doubled')
        emit(V(proof, 1000000, g_len=0), 'reject_g_len_zero')
        emit(V(proof, 1000000, cv=[]), 'reject_c_vec_empty')
        emit(V(proof, 1000000, gens=t.gens_hex() + ''.join(t.gens[:b]), cv=t.cv + t.cv), 'reject_c_vec_doubled')
        if a >= 2: emit(V(proof, 1000000, g_len=a // 2), 'reject_gen_count_g_len_halved')
        # non power of two with matching generator count and a proof of the length the verifier expects
        for (ga, hb) in [(a + 1, b), (a, b + 1), (3 * a, b), (a, 3 * b)]:
            tot = ga + hb; gg = (t.gens * (tot // len(t.gens) + 1))[:tot]; want = 65 * rounds(ga, hb) + 64
            pf = (proof[:65] * 8)[:want - 64] + proof[-64:] if nr else bytes(want - 64) + proof[-64:]
            cvx = (t.cv * 4)[:hb]
            if not (ga & (ga - 1) == 0 and hb & (hb - 1) == 0):
                emit(V(pf, 1000000, gens=''.join(gg), g_len=ga, cv=cvx), 'reject_non_pow2')
        # --- the two final scalars
        off = 65 * nr
        nval, lval = int.from_bytes(proof[off:off + 32], 'big'), int.from_bytes(proof[off + 32:off + 64], 'big')
        for (o, v) in ((off, nval), (off + 32, lval)):
            if v + N < (1 << 256): emit(V(put(proof, o, b32(v + N)), 1000000), 'reject_scalar_reencoded_s_plus_n')
            for w in (N, N + 1, (1 << 256) - 1) + ((r.choice([N - 1, (v + 1) % N, 0]),) if few else (N - 1, (v + 1) % N, 0)):
                if w != v: emit(V(put(proof, o, b32(w)), 1000000), 'reject_scalar_ge_n' if w >= N else 'reject_scalar_changed')
        # --- points of each round
        kx = r.below(nr) if nr else 0
        for k in range(nr):
            o = 65 * k; sb = proof[o]
            for v in sorted(set([sb | 4, sb | 8, sb | 0x80, sb | 0xfc, 4, 255, sb + 4])): emit(V(set_byte(proof, o, v & 255), 1000000), 'reject_sign_byte_gt_3')
            xz, rz = proof[o + 1:o + 33] == bytes(32), proof[o + 33:o + 65] == bytes(32)
            one = r.choice([v for v in range(4) if v != sb])
            for v in range(4):
                if v != sb:
                    bad = (xz and v & 2) or (rz and v & 1)
                    if few and not bad and v != one: continue
                    emit(V(set_byte(proof, o, v), 1000000), 'reject_infinity_with_sign_bit' if bad else 'reject_sign_flipped')
            # make X / R the point at infinity, with and without its sign bit
            if not xz:
                emit(V(put(set_byte(proof, o, sb | 2), o + 1, bytes(32)), 1000000), 'reject_infinity_with_sign_bit')
                if not few or r.chance(1, 2): emit(V(put(set_byte(proof, o, sb & 1), o + 1, bytes(32)), 1000000), 'reject_point_replaced_by_infinity')
            if not rz:
                emit(V(put(set_byte(proof, o, sb | 1), o + 33, bytes(32)), 1000000), 'reject_infinity_with_sign_bit')
                if not few or r.chance(1, 2): emit(V(put(set_byte(proof, o, sb & 2), o + 33, bytes(32)), 1000000), 'reject_point_replaced_by_infinity')
            for po in (o + 1, o + 33):
                x = int.from_bytes(proof[po:po + 32], 'big')
                for bx in (x_not_on_curve(x + 1), P, P + 1 + r.below(1000), (1 << 256) - 1):
                    emit(V(put(proof, po, b32(bx)), 1000000), 'reject_bad_point')
            # X and R exchanged (sign bits too)
            if few and k != kx: continue
            emit(V(put(put(set_byte(proof, o, ((sb & 1) << 1) | (sb >> 1)), o + 1, proof[o + 33:o + 65]), o + 33, proof[o + 1:o + 33]), 1000000), 'reject_x_r_swapped' if proof[o + 1:o + 33] != proof[o + 33:o + 65] else 'accept_x_r_swapped_equal')
        if nr >= 2:
            emit(V(proof[65:130] + proof[:65] + proof[130:], 1000000), 'reject_rounds_swapped' if proof[:65] != proof[65:130] else 'accept_rounds_swapped_equal')
        # --- single-bit flips (uniform over the proof) and one per field
        nflip = chk.scale(3, 12) if t.kind == 'rand' else chk.scale(1, 4)
        for i in range(nflip): emit(V(flip_bit(proof, r.below(8 * len(proof))), 1000000), 'reject_bit_flip')
        if t.kind == 'rand' or not chk.quick():
            emit(V(flip_bit(proof, 8 * off + r.below(256)), 1000000), 'reject_bit_flip_n')
            emit(V(flip_bit(proof, 8 * (off + 32) + r.below(256)), 1000000), 'reject_bit_flip_l')
    return cases

def run(chk):
    impl, model, ie, me = runners(chk)
    err = []
    def coq_job():
        try: chk.coq()
        except BaseException as e: err.append(e)
    th = threading.Thread(target=coq_job); th.start()      # proof obligations, concurrently with the case runs
    # generators from the MODEL (the reference); the same list is compared with C in gens_create cases
    ng = 32 if chk.quick() else 256
    g = vlib.run_cases(model, ['bppp_gens_create #%d' % ng], me, 1)[0].split(' ')
    if g[0] != '#1': raise vlib.BuildError('model cannot derive generators: ' + ' '.join(g)[:200])
    gens = [g[1][128 * i:128 * i + 128] for i in range(ng)]
    insts = gen_instances(chk, gens)
    gen_small(chk, gens); gen_commit(chk, gens)
    s1 = chk.cases + stage1(chk, insts)
    off = len(chk.cases)
    ri, rm = chk.correspond(impl, model, 'stage 1: generators, codecs, commitments, prover', ie, me, cases=s1)
    s2 = stage2(chk, insts, rm[off:])
    ri2, rm2 = chk.correspond(impl, model, 'stage 2: verifier', ie, me, cases=s2)
    chk.extra['norm_argument_instances'] = len(insts)
    chk.extra['verifier_cases_accepted_by_both'] = sum(1 for x, y in zip(ri2, rm2) if x == '#1' and y == '#1')
    chk.extra['verifier_cases_rejected_by_both'] = sum(1 for x, y in zip(ri2, rm2) if x == '#0' and y == '#0')
    th.join()
    if err: raise err[0]
