"""Adversarial range-proof prover in Python (crafting only, never a verdict): builds proofs for the
verification algorithm of rangeproof_impl.h with EVERY free value chosen by the caller (header bits,
exponent, mantissa, min_value, digits, per-ring blinding, forged s values, nonces k)."""
from pyec import *
from props.c08_util import *

# ---- faster scalar multiplication (Jacobian) for crafting
def _jdbl(p):
    if p is None: return None
    X, Y, Z = p
    if Y == 0: return None
    S = 4 * X * Y * Y % P; M = 3 * X * X % P
    X3 = (M * M - 2 * S) % P
    return (X3, (M * (S - X3) - 8 * pow(Y, 4, P)) % P, 2 * Y * Z % P)
def _jadd(p, q):
    if p is None: return q
    if q is None: return p
    X1, Y1, Z1 = p; X2, Y2, Z2 = q
    Z1Z1 = Z1 * Z1 % P; Z2Z2 = Z2 * Z2 % P
    U1 = X1 * Z2Z2 % P; U2 = X2 * Z1Z1 % P
    S1 = Y1 * Z2 * Z2Z2 % P; S2 = Y2 * Z1 * Z1Z1 % P
    if U1 == U2:
        return _jdbl(p) if S1 == S2 else None
    Hh = (U2 - U1) % P; R = (S2 - S1) % P
    H2 = Hh * Hh % P; H3 = Hh * H2 % P; V = U1 * H2 % P
    X3 = (R * R - H3 - 2 * V) % P
    return (X3, (R * (V - X3) - S1 * H3) % P, Hh * Z1 * Z2 % P)
def _aff(p):
    if p is None: return None
    zi = inv(p[2], P); z2 = zi * zi % P
    return (p[0] * z2 % P, p[1] * z2 * zi % P)
def fmul(k, pt):
    k %= N
    if pt is None or k == 0: return None
    q = (pt[0], pt[1], 1); r = None
    for bit in bin(k)[2:]:
        r = _jdbl(r)
        if bit == '1': r = _jadd(r, q)
    return _aff(r)
def lin(a, A, b, Bp): return add(fmul(a, A), fmul(b, Bp))       # a*A + b*B

def ser_point(pt): return bytes([0 if is_square(pt[1]) else 1]) + b32(pt[0])
def bor_hash(m, e, ridx, eidx): return sha256(e + m + ridx.to_bytes(4, 'big') + eidx.to_bytes(4, 'big'))

def borromean_sign(pubs, rsizes, secidx, sec, k, forged, m):
    """pubs: flat list; forged: flat list of s values (entries at secret positions ignored).
    returns (e0, s list) or None when a degenerate event occurs"""
    s = list(forged); tmps = []; count = 0
    for i, rs in enumerate(rsizes):
        R = fmul(k[i], G)
        if R is None: return None
        tmp = ser33(R)
        for j in range(secidx[i] + 1, rs):
            ens = int.from_bytes(bor_hash(m, tmp, i, j), 'big')
            if ens >= N or ens == 0: return None
            R = lin(ens, pubs[count + j], s[count + j], G)
            if R is None: return None
            tmp = ser33(R)
        tmps.append(tmp); count += rs
    e0 = sha256(b''.join(tmps) + m)
    count = 0
    for i, rs in enumerate(rsizes):
        ens = int.from_bytes(bor_hash(m, e0, i, 0), 'big')
        if ens >= N or ens == 0: return None
        for j in range(secidx[i]):
            R = lin(ens, pubs[count + j], s[count + j], G)
            if R is None: return None
            ens = int.from_bytes(bor_hash(m, ser33(R), i, j + 1), 'big')
            if ens >= N or ens == 0: return None
        s[count + secidx[i]] = (k[i] - ens * sec[i]) % N
        if s[count + secidx[i]] == 0: return None
        count += rs
    return e0, s

def layout(mantissa):
    if mantissa == 0: return [1]
    return [4] * (mantissa >> 1) + ([2] if mantissa & 1 else [])

class Proof:
    pass

def prove(r, gen, mantissa, exp, min_value, digits=None, blind=None, extra=b'', b0_or=0, small_s=True, has_min=None, forged_at=None, sec_at=None, alias_at=()):
    """adversarial prover.  mantissa 0 = exact-value proof (no range).  exp is what is WRITTEN in the
    header (any 0..31); the group elements use scale = 10^exp.  All randomness from r (Rng).
    Forged s values are small (< 2^120) when small_s so that s + n still fits in 32 bytes."""
    rsizes = layout(mantissa); rings = len(rsizes)
    if digits is None: digits = [r.below(rs) for rs in rsizes]
    if mantissa == 0: digits = [0]
    scale = 10 ** exp if mantissa else 1
    v = sum(d << (2 * i) for i, d in enumerate(digits))
    sec = [r.seckey() for _ in range(rings)]
    if blind is not None: sec[-1] = (blind - sum(sec[:-1])) % N
    for i, x in (sec_at or {}).items(): sec[i] = x
    blind = sum(sec) % N
    value = v * scale + min_value
    commit = lin(blind, G, value, gen)
    if commit is None: return None
    if has_min is None: has_min = min_value != 0
    b0 = ((64 | (exp & 31)) if mantissa else 0) | (32 if has_min else 0) | b0_or
    hdr = bytes([b0]) + (bytes([mantissa - 1]) if mantissa else b'') + (u64be(min_value) if has_min else b'')
    D = [lin(sec[i], G, digits[i] * scale << (2 * i), gen) for i in range(rings)]
    if any(d is None for d in D): return None
    pubs = []
    for i, rs in enumerate(rsizes):
        base = neg(fmul(scale << (2 * i), gen)); q = D[i]
        for j in range(rs):
            pubs.append(q); q = add(q, base)
    nsign = (rings + 6) >> 3
    signs = bytearray(nsign); xs = b''; hashed = b''
    for i in range(rings - 1):
        sp = ser_point(D[i])
        if i in alias_at: sp = sp[:1] + b32(D[i][0] + P)      # non-canonical x coordinate (only encodable for tiny x); hashed as written
        signs[i >> 3] |= sp[0] << (i & 7); xs += sp[1:]; hashed += sp
    m = sha256(ser_point(commit) + ser_point(gen) + hdr + hashed + extra)
    k = [r.seckey() for _ in range(rings)]
    forged = [(r.bits(r.choice([1, 8, 64, 120])) or 1) if small_s else r.seckey() for _ in pubs]
    if forged_at:      # caller-chosen forged scalars at (ring, position) -> value; secret positions are skipped
        c = 0
        for i, rs in enumerate(rsizes):
            for j in range(rs):
                if j != digits[i] and (i, j) in forged_at: forged[c + j] = forged_at[(i, j)]
            c += rs
    res = borromean_sign(pubs, rsizes, digits, sec, k, forged, m)
    if res is None: return None
    e0, s = res
    pr = Proof()
    pr.commit, pr.gen, pr.hdr, pr.signs, pr.xs, pr.e0, pr.s, pr.extra = commit, gen, hdr, bytes(signs), xs, e0, s, extra
    pr.rsizes, pr.digits, pr.blind, pr.value, pr.min_value, pr.mantissa, pr.exp = rsizes, digits, blind, value, min_value, mantissa, exp
    pr.forged_idx = []
    c = 0
    for i, rs in enumerate(rsizes):
        pr.forged_idx += [c + j for j in range(rs) if j != digits[i]]; c += rs
    return pr

def encode(pr, s=None, signs=None, xs=None, e0=None, hdr=None):
    s = pr.s if s is None else s
    return (pr.hdr if hdr is None else hdr) + (pr.signs if signs is None else signs) + (pr.xs if xs is None else xs) + \
           (pr.e0 if e0 is None else e0) + b''.join((x % (1 << 256)).to_bytes(32, 'big') for x in s)
def s_offset(pr, i): return len(pr.hdr) + len(pr.signs) + len(pr.xs) + 32 + 32 * i
def verify_line(pr, proof, commit=None, gen=None, extra=None):
    e = pr.extra if extra is None else extra
    return 'rangeproof_verify %s %s %s %s' % (obj(pr.commit if commit is None else commit), proof.hex(), e.hex() if e else '.', obj(pr.gen if gen is None else gen))
