"""helpers for the C08/C09/C10 generators (Pedersen / range proofs); crafting only, never a verdict"""
from pyec import *
H = (0x50929b74c1a04954b78b4b6035e97a5e078a5a0f28ec96d547bfee9ace803ac0,
     0x31d3c6863973926e049e637cb1b5f40a36dac28af1766968c30c2313f3a38904)
U64 = (1 << 64) - 1
def is_square(y): return y % P == 0 or pow(y, (P - 1) // 2, P) == 1
def x_on_curve(x): return is_square((pow(x, 3, P) + 7) % P)
def lift_quad(x, flag):
    """point with abscissa x whose y is a quadratic residue (flag=0) or not (flag=1)"""
    y2 = (pow(x, 3, P) + 7) % P
    y = pow(y2, (P + 1) // 4, P)
    if y * y % P != y2: return None
    return (x, (P - y) % P if flag else y)
def ser_quad(base, pt): return bytes([base + (0 if is_square(pt[1]) else 1)]) + b32(pt[0])
def obj(pt): return pk_obj(pt)           # canonical 64-byte form of generator and commitment objects
def commit(b, v, gen): return add(mul(b % N, G), mul(v % N, gen))
def u64be(v): return (v & U64).to_bytes(8, 'big')
BLINDS = [0, 1, 2, N - 2, N - 1, N, N + 1, (1 << 256) - 1, 1 << 255, N // 2]
VALUES = [0, 1, 2, 1 << 63, (1 << 63) - 1, U64, U64 - 1, 10 ** 19, 1 << 32]
def rand_point(r): return mul(r.seckey(), G)
def rand_x(r, on):
    while True:
        x = r.bits(256) % P
        if x_on_curve(x) == on: return x
