"""C13 - a MuSig secret nonce signs at most once, whatever happens (DESIGN.md section 5, C13).
One case line = one whole HISTORY (op musig_history): a pool of secret-nonce objects, a pool of
session_secrand32 buffers, palettes of keypairs / caches / sessions / ..., and a sequence of operations.
After every step both sides print return code, callback count, ALL secret-nonce objects (canonical bytes),
the randomness buffer and the partial signature.  All sequences up to a depth are enumerated exhaustively
over an alphabet of operations x 2 nonce objects; deeper histories are random."""
from props.common import *
from props.c12_util import *
FINISH = dict(level='proof', technique='Coq theorems about the nonce history machine MusigNonceSM.step (Properties_C13.v; induction over operation lists, no premises) + exhaustive / randomised correspondence of whole call histories (secnonce bytes, randomness buffer, return code, callback count, signature after every call)',
              trusted=TRUSTED_COMMON + ['the wipe-before-checks order of secp256k1_musig_partial_sign is tied to the model by correspondence of histories only (the planned c2coq --skeleton obligation does not exist)'])

def runners(chk):
    impl = vlib.build_impl(chk.dir)
    model = vlib.ensure_model('musig')
    return impl, model, (), ()

NUL = 255
class Universe:
    """palettes of one family of histories"""
    def __init__(self, r, slots0=None):
        dA, dB = r.seckey(), r.seckey(); A, B = fmul(dA, G), fmul(dB, G); C = fmul(r.seckey(), G)
        self.dA, self.A = dA, A
        ctx = keyagg([A, B, C])
        if r.chance(1, 2): ctx = apply_tweak(ctx, r.seckey(), True)
        msg = r.bytes(32); msg2 = r.bytes(32)
        agg = (fmul(r.seckey(), G), fmul(r.seckey(), G))
        s1 = nonce_process(ctx, agg, msg); s2 = nonce_process(ctx, agg, msg2)
        cache = cache_canon(ctx)
        # keypairs: 0 right key, 1 other key, 2 NEGATED key (same x, other y), 3 zero secret key + right pubkey, 4 zero pubkey, 5 right secret + negated pubkey
        self.kps = [kp_canon(dA), kp_canon(dB), b32(N - dA) + pt64(neg(A)), bytes(32) + pt64(A), b32(dA) + bytes(64), b32(dA) + pt64(neg(A))]
        self.caches = [cache, bytes([cache[0] ^ 0xff]) + cache[1:]]                 # 0 good, 1 bad magic
        self.sessions = [session_canon(s1), session_canon(s2), bytes(4) + session_canon(s1)[4:]]      # 0, 1 good (different messages), 2 bad magic
        self.msgs = [msg, msg2]; self.extras = [r.bytes(32)]
        self.ctrs = [(5).to_bytes(8, 'big'), ((1 << 32) + 5).to_bytes(8, 'big'), ((1 << 64) - 1).to_bytes(8, 'big')]
        k1, k2 = r.seckey(), r.seckey()
        # blobs: 0 zeroed object, 1 foreign magic (a pubnonce-tagged but otherwise plausible secnonce), 2 right magic with k = 0,
        #        3 a live secnonce bound to A that the caller kept a copy of, 4 live secnonce bound to the NEGATED key
        self.blobs = [bytes(132), secnonce_canon(k1, k2, A, MAGIC_PUBNONCE), secnonce_canon(0, 0, A), secnonce_canon(k1, k2, A), secnonce_canon(k1, k2, neg(A))]
        self.rands = [r.bytes(32), r.bytes(32), bytes(32), r.bytes(32)]            # 2 is the all-zero buffer
        self.slots0 = slots0 if slots0 is not None else [bytes(132), bytes(132)]
    def env(self):
        return ' '.join(H(b''.join(x)) for x in (self.slots0, self.rands, self.kps, self.caches, self.sessions, self.msgs, self.extras, self.ctrs, self.blobs))
    def line(self, ops):
        return 'musig_history %s %s' % (self.env(), b''.join(ops).hex())
def H(b): return b.hex() if b else '.'

def op(code, slot, flags=0, a=NUL, b=NUL, c=NUL, d=NUL, e=NUL, f=NUL): return bytes([code, slot, flags, a, b, c, d, e, f, 0])
def alphabet(slot, full=True):
    """(name, record) for one nonce object"""
    g = [('gen_valid', op(1, slot, 0, 0, 0, 0, 0, 0, NUL)),
         ('gen_null_optional', op(1, slot, 0, 1, NUL, 0, NUL, NUL, NUL)),
         ('genctr_valid', op(2, slot, 0, 0, 0, NUL, 0, 0, 0)),
         ('sign_right', op(3, slot, 0, 0, 0, NUL, NUL, 0)),
         ('sign_wrong_keypair', op(3, slot, 0, 0, 1, NUL, NUL, 0)),
         ('sign_negated_keypair', op(3, slot, 0, 0, 2, NUL, NUL, 0)),
         ('sign_null_output', op(3, slot, 1, 0, 0, NUL, NUL, 0)),
         ('sign_bad_cache', op(3, slot, 0, 0, 0, NUL, NUL, 1)),
         ('sign_bad_session', op(3, slot, 0, 2, 0, NUL, NUL, 0)),
         ('poke_zero', op(4, slot, 0, 0)),
         ('poke_foreign_magic', op(4, slot, 0, 1))]
    if full:
        g += [('gen_zero_rand', op(1, slot, 0, 2, 0, 0, 0, 0, NUL)),
              ('gen_bad_seckey', op(1, slot, 0, 3, 3, 0, 0, 0, NUL)),
              ('genctr_bad_seckey', op(2, slot, 0, 1, 3, NUL, 0, 0, 0)),
              ('sign_other_session', op(3, slot, 0, 1, 0, NUL, NUL, 0)),
              ('sign_null_keypair', op(3, slot, 0, 0, NUL, NUL, NUL, 0))]
    return g
EXTRA_OPS = lambda slot: [
    ('gen_bad_cache', op(1, slot, 0, 3, 0, 0, 0, 1, NUL)), ('gen_null_pubnonce', op(1, slot, 1, 3, 0, 0, 0, 0, NUL)), ('gen_zero_pubkey', op(1, slot, 0, 3, 0, 4, 0, 0, NUL)),
    ('gen_null_pubkey', op(1, slot, 0, 3, 0, NUL, 0, 0, NUL)), ('gen_null_rand', op(1, slot, 0, NUL, 0, 0, 0, 0, NUL)), ('gen_pub_negated', op(1, slot, 0, 3, 0, 2, 0, 0, NUL)),
    ('genctr_bad_cache', op(2, slot, 0, 2, 0, NUL, 0, 1, 0)), ('genctr_null_keypair', op(2, slot, 0, 0, NUL, NUL, 0, 0, 0)), ('genctr_zero_pubkey', op(2, slot, 0, 0, 4, NUL, 0, 0, 0)),
    ('genctr_null_pubnonce', op(2, slot, 1, 0, 0, NUL, 0, 0, 0)), ('genctr_negated_keypair', op(2, slot, 0, 1, 2, NUL, NUL, NUL, NUL)),
    ('sign_zero_seckey_keypair', op(3, slot, 0, 0, 3, NUL, NUL, 0)), ('sign_zero_pubkey_keypair', op(3, slot, 0, 0, 4, NUL, NUL, 0)), ('sign_pub_negated_only', op(3, slot, 0, 0, 5, NUL, NUL, 0)),
    ('sign_null_cache', op(3, slot, 0, 0, 0, NUL, NUL, NUL)), ('sign_null_session', op(3, slot, 0, NUL, 0, NUL, NUL, 0)),
    ('poke_zero_k', op(4, slot, 0, 2)), ('poke_live_copy', op(4, slot, 0, 3)), ('poke_live_negated_key', op(4, slot, 0, 4))]

def gen(chk):
    r = chk.rng
    U = Universe(r)
    A2 = alphabet(0) + alphabet(1)                         # 32 operations over two nonce objects
    A1 = alphabet(0, full=False)                           # 11 core operations on one object
    names = {}
    def add(u, seq, cls):
        chk.add(u.line([o for _, o in seq]), cls)
    # exhaustive: every sequence of length 1, 2, 3 over the 32-op alphabet
    for a in A2: add(U, [a], 'exhaustive_depth1')
    for a in A2:
        for b in A2: add(U, [a, b], 'exhaustive_depth2')
    for a in A2:
        for b in A2:
            for c in A2: add(U, [a, b, c], 'exhaustive_depth3')
    # exhaustive depth 4 on one object over the core alphabet (11^4), thorough: also 16^4 on one object
    A4 = A1 if chk.quick() else alphabet(0)
    for a in A4:
        for b in A4:
            for c in A4:
                for d in A4: add(U, [a, b, c, d], 'exhaustive_depth4_one_object')
    # every operation of the extended alphabet after each successful generation and before a right signature
    ext = alphabet(0) + EXTRA_OPS(0) + alphabet(1) + EXTRA_OPS(1)
    gens = [alphabet(0)[0], alphabet(0)[1], alphabet(0)[2]]
    sign = alphabet(0)[3]
    for g0 in gens:
        for x in ext:
            add(U, [g0, x, sign], 'gen_x_sign')
            add(U, [x, g0, sign, sign], 'x_gen_sign_sign')
            for y in (EXTRA_OPS(0) if chk.quick() else ext): add(U, [g0, x, y, sign], 'gen_x_y_sign')
    # randomised deeper histories in fresh universes (other keys, tweaked / untweaked caches, garbage initial objects)
    nuni = chk.scale(6, 60); per = chk.scale(150, 1500); depth_max = chk.scale(12, 30)
    for ui in range(nuni):
        s0 = None
        if ui % 3 == 1: s0 = [r.bytes(132), bytes(132), MAGIC_SECNONCE + r.bytes(128)]
        if ui % 3 == 2: s0 = [MAGIC_SECNONCE + r.bytes(64) + pt64(fmul(r.seckey(), G))]
        u = Universe(r, s0); ns = len(u.slots0)
        pool = []
        for sl in range(ns): pool += alphabet(sl) + EXTRA_OPS(sl)
        hot = [x for x in pool if x[0] in ('gen_valid', 'gen_null_optional', 'genctr_valid', 'sign_right', 'sign_right', 'sign_negated_keypair', 'sign_null_output', 'sign_other_session')]
        for i in range(per):
            depth = 5 + r.below(depth_max - 4)
            seq = [r.choice(hot) if r.chance(3, 5) else r.choice(pool) for _ in range(depth)]
            add(u, seq, 'random_depth_5_%d' % depth_max)

def nontrivial(line, a, b): return True

def run(chk):
    impl, model, ie, me = runners(chk)
    chk.coq()
    gen(chk)
    ri, rm = chk.correspond(impl, model, 'nonce histories')
    # statistics for the evidence: how many steps, how many produced a signature, how many failing partial_sign calls
    steps = sigs = 0
    for res in ri:
        f = res.split(' ')
        for i in range(0, len(f) - 4, 5):
            steps += 1
            if f[i + 4] != '.' and f[i + 4].strip('0') != '': sigs += 1
    chk.extra['history_steps'] = steps; chk.extra['steps_producing_a_signature'] = sigs
