"""C16 - whitelist proofs verify only for a real member of a non-empty key list (DESIGN.md section 5, C16)

The model's whitelist_verify IS the property: it rejects an empty key list (Properties_C16.v,
verify_rejects_empty).  On the unchanged tree the C function accepts n_keys = 0 with the 33-byte string
00 || SHA256(SHA256(ser33(W))) - finding F1 - and the first class generated below (`empty_ring_forgery`)
exhibits exactly that as a disagreement.

Stages: 1. codec sweep, signing (honest / refused secrets / argument checks), verification of signatures
crafted by the Python prover (every free scalar chosen), forgeries from public data only;
2. verification of the stage-1 signatures, honest (must be 1) and altered."""
from props.common import *
from props.c16_util import *

FINISH = dict(level='proof',
              technique='Coq theorems about the executable whitelist model (Properties_C16.v: verify rejects the empty key list / count mismatch / zero or out-of-range scalars and is characterised exactly, signing refuses bad secrets, parser exactness and round trips, sign => verify under MathFacts; the as-coded variant of verification is refuted for the empty ring by an explicit witness - finding F1) + differential correspondence of the model with the C implementation built from the working tree, with a Python adversarial prover choosing every free scalar',
              trusted=TRUSTED_COMMON + ['theorems marked [MF] (sign_verifies, sign_verifies_honest) assume MathFacts (group law of the curve, p and n prime) and n < 2^256 as explicit premises, and that no ring key is the point at infinity',
                                        'the premises of the [MF] theorems cannot be instantiated on a toy curve inside Coq (every hash-derived scalar overflows when n < 2^255); their satisfiability is observed instead: every honest signature of the run verifies on the implementation and on the model',
                                        'Model/Borromean.v (shared ring-signature model) is compared with the C code only through the surjection / whitelist / rangeproof entry points'])

def runners(chk):
    impl = vlib.build_impl(chk.dir)
    model = vlib.ensure_model('whitelist')
    return impl, model, (), ()

class KeyPool:
    def __init__(self, r, n):
        self.r = r; self.k = []
        for _ in range(n):
            d = r.seckey(); self.k.append((d, mul(d, G)))
    def draw(self, n):
        idx = list(range(len(self.k))); self.r.shuffle(idx)
        while len(idx) < n: idx += idx
        return [self.k[i] for i in idx[:n]]

def vline(nk, data, on, off, nparam, W): return 'whitelist_verify %s %s %s #%d %s' % (sig_fields(nk, data), keys_hex(on), keys_hex(off), nparam, pk_obj(W))
def pvline(ser, on, off, nparam, W): return 'whitelist_parse_verify %s %s %s #%d %s' % (ser.hex() or '.', keys_hex(on), keys_hex(off), nparam, pk_obj(W))
def sline(on, off, nk, W, osk, ssk, idx): return 'whitelist_sign %s %s #%d %s %s %s #%d' % (keys_hex(on), keys_hex(off), nk, pk_obj(W), h32(osk), h32(ssk), idx)

class Ring:
    def __init__(self, pool, r, nk):
        on = pool.draw(nk); off = pool.draw(nk); w = pool.draw(1)[0]
        self.nk = nk; self.osk = [a for a, _ in on]; self.on = [b for _, b in on]
        self.fsk = [a for a, _ in off]; self.off = [b for _, b in off]; self.w, self.W = w
    def summed(self, i): return (self.fsk[i] + self.w) % N

# ------------------------------------------------------------------ stage 1
def gen_f1(chk, cases, pool):
    """forgeries computable from public data alone"""
    r = chk.rng
    # the empty ring: e0 = SHA256(msg), msg = SHA256(ser33(W)), as the 33-byte serialized signature 00 || e0.
    # (W with odd y, so that the greedy shrinker cannot replace y by zero without changing ser33(W).)
    def odd(Q): return Q if Q[1] & 1 else neg(Q)
    for i in range(chk.scale(8, 60)):
        W = odd(pool.draw(1)[0][1]) if i else neg(G)
        cases.append((pvline(wl_serialize(0, f1_forgery(W)), [], [], 0, W), 'empty_ring_forgery'))
    # empty ring: non-empty key arrays passed along with n_keys = 0; other e0 values
    for i in range(chk.scale(6, 40)):
        ring = Ring(pool, r, 2); W = odd(ring.W)
        cases.append((pvline(wl_serialize(0, f1_forgery(W)), ring.on, ring.off, 0, W), 'empty_ring_forgery'))
        cases.append((pvline(wl_serialize(0, r.bytes(32)), [], [], 0, W), 'empty_ring_random_e0'))
        cases.append((pvline(wl_serialize(0, sha256(wl_msg(ring.on, ring.off, W))), ring.on, ring.off, 0, W), 'empty_ring_random_e0'))
        cases.append((vline(0, r.bytes(32), [], [], 0, W), 'empty_ring_random_e0'))
    # the same construction for every count n >= 1 (e0 = SHA256(msg), arbitrary non-zero scalars): must fail
    for nk in list(range(1, 9)) + ([20] if chk.quick() else [20, 100, 255]):
        ring = Ring(pool, r, nk)
        msg = wl_msg(ring.on, ring.off, ring.W)
        for sc in ([1] * nk, [r.seckey() for _ in range(nk)]):
            cases.append((vline(nk, wl_data(sha256(msg), sc), ring.on, ring.off, nk, ring.W), 'public_data_forgery_nonempty'))
        cases.append((vline(nk, wl_data(f1_forgery(ring.W), [1] * nk), ring.on, ring.off, nk, ring.W), 'public_data_forgery_nonempty'))

def gen_codec(chk, cases):
    r = chk.rng
    cases.append(('whitelist_signature_parse .', 'parse_empty_input'))
    for nk in range(0, 256):
        exact = 32 * (nk + 1)
        for dl, cls in ((0, 'parse_exact_len'), (1, 'parse_len_plus1'), (-1, 'parse_len_minus1'), (32, 'parse_len_plus32'), (-32, 'parse_len_minus32')):
            if exact + dl < 0: continue
            if chk.quick() and dl in (32, -32) and nk > 16 and nk < 250 and not r.chance(1, 8): continue
            cases.append(('whitelist_signature_parse ' + (bytes([nk]) + r.bytes(exact + dl)).hex(), cls))
    cases.append(('whitelist_signature_parse 00', 'parse_len_minus32'))
    cases.append(('whitelist_signature_parse ff', 'parse_len_minus32'))
    for nk in list(range(0, 10)) + [127, 128, 254, 255] + [r.below(256) for _ in range(chk.scale(10, 100))]:
        data = r.bytes(32 * (nk + 1)); need = 1 + 32 * (nk + 1)
        for ol in (need, need - 1, need + 1, 0, need + 64):
            cases.append(('whitelist_signature_serialize #%d %s' % (ol, sig_fields(nk, data)), 'serialize_exact' if ol == need else 'serialize_other_len'))
        cases.append(('whitelist_signature_n_keys ' + sig_fields(nk, data), 'n_keys'))
    cases.append(('whitelist_signature_serialize #9000 #256 00', 'object_out_of_range'))

def gen_sign(chk, cases, pool, made):
    """made: (case index, ring, honest?)"""
    r = chk.rng
    def honest(ring, idx, cls):
        made.append((len(cases), ring, True))
        cases.append((sline(ring.on, ring.off, ring.nk, ring.W, ring.osk[idx], ring.summed(idx), idx), cls))
    # boundary counts first (they are the expensive ones: spread over the shards)
    big = [(255, 254), (254, 0)] if chk.quick() else [(255, i) for i in (0, 1, 127, 253, 254)] + [(254, i) for i in (0, 100, 253)]
    for nk, idx in big: honest(Ring(pool, r, nk), idx, 'sign_honest_254_255')
    for _ in range(chk.scale(2, 30)):
        nk = 9 + r.below(90 if chk.quick() else 245); honest(Ring(pool, r, nk), r.below(nk), 'sign_honest_sampled')
    # every count up to 8, every signer index
    for nk in range(1, 9):
        ring = Ring(pool, r, nk)
        for idx in range(nk):
            honest(ring, idx, 'sign_honest_small_exhaustive')
    # secrets that signing must refuse: zero / out of range online or summed key (measured surviving mutation)
    for nk in (1, 2, 3, 5, 8):
        ring = Ring(pool, r, nk)
        for idx in sorted(set([0, nk - 1])):
            for bad in (0, N, N + 1, (1 << 256) - 1):
                cases.append((sline(ring.on, ring.off, nk, ring.W, bad, ring.summed(idx), idx), 'sign_online_key_zero' if bad == 0 else 'sign_online_key_ge_n'))
                cases.append((sline(ring.on, ring.off, nk, ring.W, ring.osk[idx], bad, idx), 'sign_summed_key_zero' if bad == 0 else 'sign_summed_key_ge_n'))
            cases.append((sline(ring.on, ring.off, nk, ring.W, 0, 0, idx), 'sign_online_key_zero'))
    # valid scalars that are not the member's secrets: a signature is produced, it must not verify
    for _ in range(chk.scale(10, 80)):
        nk = 1 + r.below(6); ring = Ring(pool, r, nk); idx = r.below(nk)
        v = r.below(4)
        osk, ssk, cls = ring.osk[idx], ring.summed(idx), 'sign_wrong_secret'
        if v == 0: osk = r.seckey()
        elif v == 1: ssk = ring.fsk[idx]                    # offline key without the whitelisted key added
        elif v == 2: osk, ssk = ring.osk[(idx + 1) % nk], ring.summed((idx + 1) % nk); cls = 'sign_wrong_index' if nk > 1 else 'sign_honest_small_exhaustive'
        elif v == 3:
            # tweaked secret sums to zero: online = -(summed * H(summed*G))
            t = int.from_bytes(sha256(ser33(mul(ssk, G))), 'big') % N; osk = (-ssk * t) % N; cls = 'sign_secret_sums_to_zero'
        made.append((len(cases), ring, nk == 1 and v == 2))
        cases.append((sline(ring.on, ring.off, nk, ring.W, osk, ssk, idx), cls))
    # argument checks: n_keys 256, index >= n_keys, n_keys 0
    ring = Ring(pool, r, 3)
    for nk, idx in ((3, 3), (3, 4), (3, (1 << 64) - 1), (0, 0), (256, 0), (256, 255), (1000, 0)):
        cases.append((sline(ring.on, ring.off, nk, ring.W, ring.osk[0], ring.summed(0), idx), 'sign_argcheck'))
    # unloadable (zero) pubkey objects: illegal callback count compared, result masked
    for pos in range(3):
        on = list(ring.on); off = list(ring.off); W = ring.W
        if pos == 0: on[1] = None
        elif pos == 1: off[2] = None
        else: W = None
        cases.append((sline(on, off, 3, W, ring.osk[0], ring.summed(0), 0), 'zero_pubkey_object'))
        cases.append((vline(3, r.bytes(32) + b32(1) * 3, on, off, 3, W), 'zero_pubkey_object'))

def gen_crafted(chk, cases, pool, expect):
    r = chk.rng
    small = [1, 2, 3, 1 << 64, (1 << 128) - 1, 1 << 128, (1 << 256) - N - 1]
    for it in range(chk.scale(12, 100)):
        nk = 2 + r.below(4); ring = Ring(pool, r, nk); idx = r.below(nk)
        forged = [r.choice(small) for _ in range(nk)]
        try: e0, s = wl_prove(ring.on, ring.off, ring.W, idx, ring.osk[idx], ring.summed(idx), r.seckey(), forged)
        except ProverFail: continue
        assert bor_verify1(e0, s, wl_ring_keys(ring.on, ring.off, ring.W), wl_msg(ring.on, ring.off, ring.W))
        l = vline(nk, wl_data(e0, s), ring.on, ring.off, nk, ring.W); expect[l] = '#1'
        cases.append((l, 'verify_crafted_small_forged_scalars'))
        l = pvline(wl_serialize(nk, wl_data(e0, s)), ring.on, ring.off, nk, ring.W); expect[l] = '#1 #1'
        cases.append((l, 'verify_crafted_small_forged_scalars'))
        for j in range(nk):
            if j != idx:
                s2 = list(s); s2[j] = s[j] + N
                cases.append((vline(nk, wl_data(e0, s2), ring.on, ring.off, nk, ring.W), 'verify_scalar_reencoded_s_plus_n'))
        s2 = list(s); s2[r.below(nk)] = r.choice([0, N, N + 1, (1 << 256) - 1])
        cases.append((vline(nk, wl_data(e0, s2), ring.on, ring.off, nk, ring.W), 'verify_scalar_0_n_max'))
        # forged scalar 0 chosen by the prover: the equation holds, the zero check must reject
        forged = [r.seckey() for _ in range(nk)]; forged[(idx + 1) % nk] = 0
        try: e0, s = wl_prove(ring.on, ring.off, ring.W, idx, ring.osk[idx], ring.summed(idx), r.seckey(), forged)
        except ProverFail: continue
        cases.append((vline(nk, wl_data(e0, s), ring.on, ring.off, nk, ring.W), 'verify_crafted_zero_scalar'))
    # signature objects with n_keys > 255 (not producible by the parser)
    ring = Ring(pool, r, 2)
    for n in (256, 257, 1 << 32):
        cases.append((vline(n, r.bytes(96), ring.on, ring.off, n if n < 1000 else 2, ring.W), 'verify_object_n_keys_gt_255'))

# ------------------------------------------------------------------ stage 2
def verify_variants(chk, cases, expect, nk, data, ring, honest, heavy):
    r = chk.rng
    l = vline(nk, data, ring.on, ring.off, nk, ring.W)
    if honest: expect[l] = '#1'
    cases.append((l, 'verify_honest' if honest else 'verify_sign_with_wrong_secret'))
    if not honest: return
    if not heavy:
        l = pvline(wl_serialize(nk, data), ring.on, ring.off, nk, ring.W); expect[l] = '#1 #1'
        cases.append((l, 'verify_honest'))
    variants = list(range(13)); r.shuffle(variants)
    for v in variants[:((1 if nk == 255 or not chk.quick() else 0) if heavy else chk.scale(6, 10))]:
        d2, on, off, W, nparam, nsig, cls = bytearray(data), list(ring.on), list(ring.off), ring.W, nk, nk, None
        if v == 0: i = r.below(len(d2)); d2[i] ^= 1 << r.below(8); cls = 'verify_flip_sig_bit'
        elif v == 1: i = r.below(32); d2[i] ^= 1 << r.below(8); cls = 'verify_flip_e0_bit'
        elif v == 2: j = r.below(nk); d2[32 + 32 * j:64 + 32 * j] = b32(r.choice([0, N, (1 << 256) - 1])); cls = 'verify_scalar_0_n_max'
        elif v == 3:
            j = r.below(nk); sv = int.from_bytes(d2[32 + 32 * j:64 + 32 * j], 'big')
            if sv + N >= 1 << 256: continue
            d2[32 + 32 * j:64 + 32 * j] = b32(sv + N); cls = 'verify_scalar_reencoded_s_plus_n'
        elif v == 4: nparam = r.choice([nk - 1, nk + 1, 0]); cls = 'verify_count_mismatch'
        elif v == 5:
            if nk >= 255: continue
            nsig = nk + 1; d2 += b32(1); on.append(on[0]); off.append(off[0]); nparam = r.choice([nk, nk + 1]); cls = 'verify_count_mismatch'
        elif v == 6:
            if nk < 2: continue
            nsig = nk - 1; d2 = d2[:-32]; nparam = r.choice([nk, nk - 1]); cls = 'verify_count_mismatch'
        elif v == 7:
            if nk < 2 or on[0] == on[-1]: continue
            on[0], on[-1] = on[-1], on[0]; cls = 'verify_permuted_online_keys'
        elif v == 8:
            if nk < 2: continue
            on[0], on[-1] = on[-1], on[0]; off[0], off[-1] = off[-1], off[0]; cls = 'verify_permuted_key_pairs'
        elif v == 9: j = r.below(nk); on[j] = add(on[j], G) or G; cls = 'verify_replaced_online_key'
        elif v == 10: j = r.below(nk); off[j] = add(off[j], G) or G; cls = 'verify_replaced_offline_key'
        elif v == 11: W = add(W, G) or G; cls = 'verify_other_whitelisted_key'
        elif v == 12: on, off = off, on; cls = 'verify_online_offline_swapped'
        cases.append((vline(nsig, bytes(d2), on, off, nparam, W), cls))

def check_expect(chk, cases, ri, expect):
    for (line, cls), a in zip(cases, ri):
        e = expect.get(line)
        if e is not None and a != e and len(chk.violations) < 20:
            chk.violations.append({'kind': 'correspondence', 'class': cls + '_expected_to_verify', 'case': line, 'impl': a, 'model': e + ' (demanded by the property: honest signatures verify)'})

def run(chk):
    impl, model, ie, me = runners(chk)
    chk.coq()
    r = chk.rng
    pool = KeyPool(r, 300)
    expect = {}
    s1, made = [], []
    gen_f1(chk, s1, pool)               # first: a disagreement here is finding F1 and leads the replay file
    gen_sign(chk, s1, pool, made)
    gen_crafted(chk, s1, pool, expect)
    gen_codec(chk, s1)
    ri, rm = chk.correspond(impl, model, 'stage 1: forgeries from public data, sign, crafted signatures, codec', cases=s1)
    check_expect(chk, s1, ri, expect)
    s2 = []
    for (i, ring, honest) in made:
        f = ri[i].split(' ')
        if f[0] != '#1' or len(f) < 3:
            if honest: chk.violations.append({'kind': 'correspondence', 'class': 'sign_honest_must_succeed', 'case': s1[i][0][:3000], 'impl': ri[i][:300], 'model': rm[i][:300]})
            continue
        nk = int(f[1][1:]); data = bytes.fromhex(f[2])
        verify_variants(chk, s2, expect, nk, data, ring, honest, heavy=(nk > 64))
    ri2, rm2 = chk.correspond(impl, model, 'stage 2: verify of stage-1 signatures, honest and altered', cases=s2)
    check_expect(chk, s2, ri2, expect)
    chk.extra['honest_signatures'] = sum(1 for m in made if m[2])
