"""C15 - sign-to-contract commitments and the anti-exfil protocol (DESIGN.md section 5, C15)"""
from props.common import *
from props.c15_util import *
FINISH = dict(level='proof',
              technique='Coq theorems about the executable sign-to-contract model (Properties_C15.v: signer_commit_eq_sign_opening proved from the two '
                        'separately written nonce-derivation loops for all inputs, verify_commit_exact, host_verify_exact, midstate correctness, failure '
                        'zeroing) + differential correspondence of the model with the C implementation built from the working tree: boundary keys and '
                        'messages (>= n), repeated protocol runs with equal / different host randomness, every API call with the built-in AND with a '
                        'replaced (independently written, table-free) SHA-256 compression function installed in the context, all single-bit mutations of '
                        'signature (512), datum (256) and serialized opening (264)',
              trusted=TRUSTED_COMMON + ['"another datum / opening / signature fails" is collision resistance of SHA-256 plus the discrete logarithm: sampled on every single-bit mutation, not proved',
                                        'the retry of the signing loop after a tweaked nonce gave r = 0 or s = 0 (probability 2^-255) is outside the model (it abstains); there the C code overwrites the exported opening with the next nonce',
                                        'harness/ops_s2c.h contains the second SHA-256 compression implementation (FIPS 180-4, round constants derived by integer cube roots); the library self-test accepts it before use'])

def runners(chk):
    impl = vlib.build_impl(chk.dir)
    model = vlib.ensure_model('s2c')
    return impl, model, (), ()

TOP = (1 << 256) - 1

class Gen:
    def __init__(self, chk):
        self.chk = chk; self.r = chk.rng; self.expect = {}; self.same = []; self.differ = []
    def add(self, line, cls, expect=None):
        idx = len(self.chk.cases)
        if expect is not None: self.expect[idx] = expect
        self.chk.add(line, cls); return idx
    def alt(self): return self.r.below(2)

def gen_openings(g):
    chk, r = g.chk, g.r
    for i in range(chk.scale(12, 200)):
        Q = mul(r.seckey(), G); a = g.alt()
        g.add('s2c_opening_parse %s #%d' % (ser33(Q).hex(), a), 'opening_parse_valid', '#1 ' + pk_obj(Q))
        g.add('s2c_opening_serialize %s #%d' % (pk_obj(Q), a), 'opening_serialize', '#1 ' + ser33(Q).hex())
        for tag in (0, 1, 4, 5, 6, 7, 0xff): g.add('s2c_opening_parse %s #%d' % ((bytes([tag]) + b32(Q[0])).hex(), a), 'opening_parse_bad_tag', '#0')
    for x in (0, P, P + 1, TOP, P - 1, 1, 2, 3):
        for tag in (2, 3):
            Q = lift_x(x, tag == 3)
            g.add('s2c_opening_parse %s #0' % (bytes([tag]) + b32(x)).hex(), 'opening_parse_boundary_x', '#0' if Q is None else '#1 ' + pk_obj(Q))
    for i in range(chk.scale(6, 60)):
        x = r.bits(256) % P
        while lift_x(x) is not None: x = (x + 1) % P
        g.add('s2c_opening_parse %s #0' % (b'\x02' + b32(x)).hex(), 'opening_parse_off_curve', '#0')
    g.add('s2c_opening_parse %s #0' % ('00' * 33), 'opening_parse_zero', '#0')
    g.add('s2c_opening_serialize %s #0' % pk_obj(None), 'opening_serialize_bad_object', '#0 ' + '00' * 33 + ' ILL1')

def gen_sign(g):
    chk, r = g.chk, g.r
    keys = [1, N - 1, 2, 0, N, TOP]
    msgs = [0, 1, N - 1, N, N + 1, TOP]
    datas = [bytes(32), b'\xff' * 32, b'\x00' * 31 + b'\x01']
    for d in keys:
        for m in msgs:
            if chk.quick() and r.chance(1, 2): continue
            data = r.choice(datas) if r.chance(1, 2) else r.bytes(32)
            exp = '#0 ' + '00' * 64 if not 0 < d < N else None
            g.add('ecdsa_s2c_sign %s %s %s #%d #%d' % (h32(m), h32(d), data.hex(), r.below(2), g.alt()), 'sign_boundary', exp)
    # the same inputs with / without opening export, under both compression functions: identical signatures
    for i in range(chk.scale(10, 300)):
        d = r.choice([1, N - 1]) if r.chance(1, 6) else r.seckey(); m = r.choice(msgs) if r.chance(1, 4) else r.scalar256(); data = r.bytes(32)
        ids = [g.add('ecdsa_s2c_sign %s %s %s #%d #%d' % (h32(m), h32(d), data.hex(), w, a), 'sign_alt_%d' % a) for w in (1, 0) for a in (0, 1)]
        ids.append(g.add('anti_exfil_sign %s %s %s #%d' % (h32(m), h32(d), data.hex(), g.alt()), 'anti_exfil_sign'))
        for j in ids[1:]: g.same.append((ids[0], j, 2))      # first two fields (ret, signature) equal
    # messages >= n sign like msg mod n (same nonce: RFC 6979 is keyed with msg mod n; same opening)
    for i in range(chk.scale(6, 60)):
        d = r.seckey(); m = N + r.bits(r.choice([1, 64, 127])); data = r.bytes(32)
        a = g.add('ecdsa_s2c_sign %s %s %s #1 #%d' % (h32(m), h32(d), data.hex(), g.alt()), 'sign_msg_ge_n')
        b = g.add('ecdsa_s2c_sign %s %s %s #1 #%d' % (h32(m - N), h32(d), data.hex(), g.alt()), 'sign_msg_ge_n')
        g.same.append((a, b, 3))
    # different data: different nonce (r differs), different opening
    for i in range(chk.scale(6, 60)):
        d = r.seckey(); m = r.bits(256); data = r.bytes(32); d2 = bytearray(data); d2[r.below(32)] ^= 1 << r.below(8)
        a = g.add('ecdsa_s2c_sign %s %s %s #1 #0' % (h32(m), h32(d), data.hex()), 'sign_other_data')
        b = g.add('ecdsa_s2c_sign %s %s %s #1 #0' % (h32(m), h32(d), bytes(d2).hex()), 'sign_other_data')
        g.differ.append((a, b, 1)); g.differ.append((a, b, 2))

def gen_protocol(g):
    chk, r = g.chk, g.r
    msgs = [0, N, N + 1, TOP]
    for i in range(chk.scale(24, 400)):
        d = r.choice([1, N - 1]) if r.chance(1, 5) else r.seckey(); X = mul(d, G)
        m = r.choice(msgs) if r.chance(1, 3) else r.bits(256)
        rho = r.choice([bytes(32), b'\xff' * 32]) if r.chance(1, 8) else r.bytes(32)
        c = host_commit(rho)
        # the three steps separately, each under both compression functions
        hc = [g.add('anti_exfil_host_commit %s #%d' % (rho.hex(), a), 'host_commit_alt_%d' % a, '#1 ' + c.hex()) for a in (0, 1)]
        sc = [g.add('anti_exfil_signer_commit %s %s %s #%d' % (h32(m), h32(d), c.hex(), a), 'signer_commit_alt_%d' % a) for a in (0, 1)]
        sg = [g.add('ecdsa_s2c_sign %s %s %s #1 #%d' % (h32(m), h32(d), rho.hex(), a), 'sign_for_commit_alt_%d' % a) for a in (0, 1)]
        g.same.append((sc[0], sc[1], 2)); g.same.append((sg[0], sg[1], 3))
        g.same.append((sc[0], sg[0], (1, 2)))         # signer_commit's opening (field 1) == s2c_sign's opening (field 2)
        g.same.append((sc[1], sg[1], (1, 2))); g.same.append((sc[0], sg[1], (1, 2)))
        # signer_commit on msg + n (when representable) commits to the same nonce
        if m % N + N <= TOP and i % 3 == 0:
            a = g.add('anti_exfil_signer_commit %s %s %s #0' % (h32(m % N + N), h32(d), c.hex()), 'signer_commit_msg_plus_n')
            b = g.add('anti_exfil_signer_commit %s %s %s #0' % (h32(m % N), h32(d), c.hex()), 'signer_commit_msg_plus_n')
            g.same.append((a, b, 2)); g.same.append((a, sc[0], 2))
        # whole runs: honest (same rho) under every combination of replaced compression functions, repeated
        masks = [0, 15, r.below(16), r.below(16)] if chk.quick() else list(range(16))
        runs = [g.add('anti_exfil_protocol %s %s %s %s %s #%d' % (h32(m), h32(d), pk_obj(X), rho.hex(), rho.hex(), mk), 'protocol_same_rho') for mk in masks]
        for j in runs[1:]: g.same.append((runs[0], j, 6))
        for j in runs: g.same.append((j, j, (1, 4))); g.expect[j] = ('last', '#1')      # O1 == O2, host accepts
        # restart with DIFFERENT randomness: signer commits to O1 for rho, then signs with rho2 (different nonce, host rejects)
        rho2 = bytearray(rho); rho2[r.below(32)] ^= 1 << r.below(8); rho2 = bytes(rho2) if r.chance(1, 2) else r.bytes(32)
        j = g.add('anti_exfil_protocol %s %s %s %s %s #%d' % (h32(m), h32(d), pk_obj(X), rho.hex(), rho2.hex(), r.below(16)), 'protocol_other_rho', ('last', '#0'))
        g.differ.append((j, j, (1, 4))); g.differ.append((runs[0], j, 3)); g.same.append((runs[0], j, 2))
        # a second run with fresh randomness from the start: different commitment, different opening
        rho3 = r.bytes(32)
        j3 = g.add('anti_exfil_protocol %s %s %s %s %s #0' % (h32(m), h32(d), pk_obj(X), rho3.hex(), rho3.hex()), 'protocol_fresh_rho', ('last', '#1'))
        g.differ.append((runs[0], j3, 0)); g.differ.append((runs[0], j3, 1))
    # invalid keys: signer_commit does not look at the key range at all; signing fails
    for d in (0, N, TOP):
        rho = r.bytes(32); m = r.bits(256)
        g.add('anti_exfil_signer_commit %s %s %s #%d' % (h32(m), h32(d), host_commit(rho).hex(), g.alt()), 'signer_commit_invalid_key')
        g.add('anti_exfil_sign %s %s %s #%d' % (h32(m), h32(d), rho.hex(), g.alt()), 'anti_exfil_sign_invalid_key', '#0 ' + '00' * 64)
        g.add('anti_exfil_protocol %s %s %s %s %s #0' % (h32(m), h32(d), pk_obj(G), rho.hex(), rho.hex()), 'protocol_invalid_key')

def gen_verify(g):
    chk, r = g.chk, g.r
    triples = []
    for i in range(chk.scale(16, 300)):
        d = r.choice([1, N - 1]) if r.chance(1, 6) else r.seckey(); m = r.choice([0, N, TOP]) if r.chance(1, 4) else r.bits(256)
        k = r.choice([1, N - 1]) if r.chance(1, 8) else r.seckey(); data = r.bytes(32)
        t = s2c_sign_k(d, m % N, k, data)
        if t is None: continue
        rr, ss, Q = t; X = mul(d, G); triples.append((d, X, m, data, rr, ss, Q))
        sig = h32(rr) + h32(ss)
        g.add('ecdsa_s2c_verify_commit %s %s %s #%d' % (sig, data.hex(), pk_obj(Q), g.alt()), 'verify_commit_valid', '#1')
        g.add('anti_exfil_host_verify %s %s %s %s %s #%d' % (sig, h32(m), pk_obj(X), data.hex(), pk_obj(Q), g.alt()), 'host_verify_valid', '#1')
        v = i % 8
        a = g.alt()
        if v == 0: g.add('anti_exfil_host_verify %s %s %s %s %s #%d' % (sig, h32((m + 1) & TOP), pk_obj(X), data.hex(), pk_obj(Q), a), 'host_verify_wrong_msg', '#0')
        if v == 1: g.add('anti_exfil_host_verify %s %s %s %s %s #%d' % (sig, h32(m), pk_obj(mul(r.seckey(), G)), data.hex(), pk_obj(Q), a), 'host_verify_wrong_key', '#0')
        if v == 2:   # high-S twin: still commits (s is not part of the commitment) but is not a valid low-S signature
            g.add('ecdsa_s2c_verify_commit %s%s %s %s #%d' % (h32(rr), h32(N - ss), data.hex(), pk_obj(Q), a), 'verify_commit_high_s_twin', '#1')
            g.add('anti_exfil_host_verify %s%s %s %s %s %s #%d' % (h32(rr), h32(N - ss), h32(m), pk_obj(X), data.hex(), pk_obj(Q), a), 'host_verify_high_s_twin', '#0')
        if v == 3:   # negated opening: same x, the other tag byte goes into the hash
            g.add('ecdsa_s2c_verify_commit %s %s %s #%d' % (sig, data.hex(), pk_obj(neg(Q)), a), 'verify_commit_negated_opening', '#0')
        if v == 4:   # the commitment point itself / an unrelated point as opening
            g.add('ecdsa_s2c_verify_commit %s %s %s #%d' % (sig, data.hex(), pk_obj(s2c_commit_point(Q, data)), a), 'verify_commit_opening_is_commitment', '#0')
            g.add('ecdsa_s2c_verify_commit %s %s %s #%d' % (sig, data.hex(), pk_obj(mul(r.seckey(), G)), a), 'verify_commit_unrelated_opening', '#0')
        if v == 5:   # object that does not load: illegal callback from verify_commit; with a bad PUBKEY only after the commitment check passed
            g.add('ecdsa_s2c_verify_commit %s %s %s #%d' % (sig, data.hex(), pk_obj(None), a), 'verify_commit_bad_object', '#0 ILL1')
            g.add('anti_exfil_host_verify %s %s %s %s %s #%d' % (sig, h32(m), pk_obj(X), data.hex(), pk_obj(None), a), 'host_verify_bad_opening_object', '#0 ILL1')
            g.add('anti_exfil_host_verify %s %s %s %s %s #%d' % (sig, h32(m), pk_obj(None), data.hex(), pk_obj(Q), a), 'host_verify_bad_pubkey_object', '#0 ILL1')
            g.add('anti_exfil_host_verify %s %s %s %s %s #%d' % (sig, h32(m), pk_obj(None), r.bytes(32).hex(), pk_obj(Q), a), 'host_verify_bad_pubkey_short_circuit', '#0')
        if v == 6:   # r = 0 / r replaced
            g.add('ecdsa_s2c_verify_commit %s%s %s %s #%d' % (h32(0), h32(ss), data.hex(), pk_obj(Q), a), 'verify_commit_r_zero', '#0')
            g.add('ecdsa_s2c_verify_commit %s%s %s %s #%d' % (h32(N - rr), h32(ss), data.hex(), pk_obj(Q), a), 'verify_commit_r_negated', '#0')
            # s is never looked at by verify_commit: s = 0 / n-1 with the right r commit, with a wrong r they do not
            g.add('ecdsa_s2c_verify_commit %s%s %s %s #%d' % (h32(rr), h32(0), data.hex(), pk_obj(Q), a), 'verify_commit_s_zero_right_r', '#1')
            g.add('ecdsa_s2c_verify_commit %s%s %s %s #%d' % (h32((rr + 1) % N), h32(0), data.hex(), pk_obj(Q), a), 'verify_commit_s_zero_wrong_r', '#0')
            g.add('anti_exfil_host_verify %s%s %s %s %s %s #%d' % (h32(rr), h32(0), h32(m), pk_obj(X), data.hex(), pk_obj(Q), a), 'host_verify_s_zero', '#0')
        if v == 7:   # signature made for the same data with a different original nonce
            t2 = s2c_sign_k(d, m % N, r.seckey(), data)
            if t2: g.add('ecdsa_s2c_verify_commit %s%s %s %s #%d' % (h32(t2[0]), h32(t2[1]), data.hex(), pk_obj(Q), a), 'verify_commit_other_nonce', '#0')
    # all single-bit mutations of signature (512), datum (256), serialized opening (264)
    for (d, X, m, data, rr, ss, Q) in triples[:chk.scale(1, 5)]:
        sig = b32(rr) + b32(ss)
        for bit in range(512):
            b = bytearray(sig); b[bit // 8] ^= 0x80 >> (bit % 8)
            r2 = int.from_bytes(b[:32], 'big'); s2 = int.from_bytes(b[32:], 'big')
            if r2 >= N or s2 >= N: continue          # not a signature object (parse_compact would refuse it)
            part = 'r' if bit < 256 else 's'
            g.add('ecdsa_s2c_verify_commit %s %s %s #%d' % (bytes(b).hex(), data.hex(), pk_obj(Q), g.alt()), 'verify_commit_sig_bitflip_' + part, '#0' if bit < 256 else '#1')
            g.add('anti_exfil_host_verify %s %s %s %s %s #%d' % (bytes(b).hex(), h32(m), pk_obj(X), data.hex(), pk_obj(Q), g.alt()), 'host_verify_sig_bitflip_' + part, '#0')
        for bit in range(256):
            b = bytearray(data); b[bit // 8] ^= 0x80 >> (bit % 8)
            g.add('ecdsa_s2c_verify_commit %s %s %s #%d' % (sig.hex(), bytes(b).hex(), pk_obj(Q), g.alt()), 'verify_commit_datum_bitflip', '#0')
            if bit % 4 == 0 or not chk.quick():
                g.add('anti_exfil_host_verify %s %s %s %s %s #%d' % (sig.hex(), h32(m), pk_obj(X), bytes(b).hex(), pk_obj(Q), g.alt()), 'host_verify_datum_bitflip', '#0')
        op = ser33(Q)
        for bit in range(264):
            b = bytearray(op); b[bit // 8] ^= 0x80 >> (bit % 8)
            Q2 = lift_x(int.from_bytes(b[1:], 'big'), b[0] == 3) if b[0] in (2, 3) else None
            g.add('s2c_opening_parse %s #%d' % (bytes(b).hex(), g.alt()), 'opening_bitflip_parse', '#0' if Q2 is None else '#1 ' + pk_obj(Q2))
            if Q2 is not None:
                g.add('ecdsa_s2c_verify_commit %s %s %s #%d' % (sig.hex(), data.hex(), pk_obj(Q2), g.alt()), 'verify_commit_opening_bitflip', '#0')
        for bit in ([r.below(256) for _ in range(16)] if chk.quick() else range(256)):
            g.add('anti_exfil_host_verify %s %s %s %s %s #%d' % (sig.hex(), h32(m ^ (1 << bit)), pk_obj(X), data.hex(), pk_obj(Q), g.alt()), 'host_verify_msg_bitflip',
                  '#0' if (m ^ (1 << bit)) % N != m % N else '#1')

def gen(chk):
    g = Gen(chk)
    gen_openings(g); gen_sign(g); gen_protocol(g); gen_verify(g)
    return g

def fields(line): return line.split(' ')
def pick(line, k):
    """k: number of leading fields to compare, or a field index"""
    f = fields(line)
    return f[k] if k < len(f) else None

def run(chk):
    impl, model, ie, me = runners(chk)
    chk.coq()
    g = gen(chk)
    ri, rm = chk.correspond(impl, model, 'ecdsa_s2c api')
    def viol(cls, idx, what, other=None):
        if len(chk.violations) < 20:
            chk.violations.append({'kind': 'correspondence', 'class': cls + ':' + chk.cases[idx][1], 'case': chk.cases[idx][0], 'impl': ri[idx], 'model': rm[idx], 'expected': what,
                                   'other_case': None if other is None else chk.cases[other][0], 'other_impl': None if other is None else ri[other]})
    nexp = 0
    for idx, want in g.expect.items():
        nexp += 1
        if isinstance(want, tuple):
            if fields(ri[idx])[-1] != want[1]: viol('expectation', idx, 'last field ' + want[1])
        elif ri[idx] != want: viol('expectation', idx, want)
    # relations between results of the IMPLEMENTATION (same randomness => same opening, different => different, ...)
    for a, b, k in g.same:
        nexp += 1
        if isinstance(k, tuple): ok = pick(ri[a], k[0]) is not None and pick(ri[a], k[0]) == pick(ri[b], k[1])
        else: ok = fields(ri[a])[:k] == fields(ri[b])[:k] and len(fields(ri[a])) >= k
        if not ok: viol('must_be_equal', a, 'fields %s equal to the other case' % (k,), b)
    for a, b, k in g.differ:
        nexp += 1
        if isinstance(k, tuple): ok = pick(ri[a], k[0]) is not None and pick(ri[b], k[1]) is not None and pick(ri[a], k[0]) != pick(ri[b], k[1])
        else: ok = pick(ri[a], k) is not None and pick(ri[b], k) is not None and pick(ri[a], k) != pick(ri[b], k)
        if not ok: viol('must_differ', a, 'field %s different from the other case' % (k,), b)
    chk.notes.append('%d independent expectations / relations between implementation results checked (all met: %s)' % (nexp, not any(v.get('expected') for v in chk.violations)))
