"""C04 - key derivation algebra, failure cases, comparison and sorting"""
from props.common import *
FINISH = dict(level='proof', technique='Coq theorems on the key-algebra model (exact failure sets, commutation under MathFacts, sort = sorted permutation) + differential correspondence incl. tweak chains and long key lists',
              trusted=TRUSTED_COMMON + ['commutation theorems assume MathFacts (group law, n prime)'])
def runners(chk):
    impl, model = core_runners(chk); return impl, model, (), ()

def gen(chk):
    r = chk.rng
    LAM = LAMBDA
    edge = [0, 1, 2, N - 1, N - 2, N, N + 1, (1 << 256) - 1, 1 << 128, (1 << 128) - 1, LAM, N - LAM, (N - 1) // 2, (N + 1) // 2,
            0xe4437ed6010e88286f547fa90abfe4c3, 0x3086d221a7d46bcde86c90e49284eb15, (1 << 127), (1 << 129)]
    keys = edge + [r.scalar256() for _ in range(chk.scale(20, 300))]
    for d in keys:
        chk.add('ec_pubkey_create %s' % h32(d), 'create'); chk.add('ec_seckey_verify %s' % h32(d), 'seckey_verify')
        chk.add('ec_seckey_negate %s' % h32(d), 'seckey_negate'); chk.add('keypair_create %s' % h32(d), 'keypair_create')
    # tweaks: boundary x boundary, plus tweak == -key
    for d in edge + [r.seckey() for _ in range(chk.scale(6, 100))]:
        tw = edge + [(N - d) % N, (N - d + 1) % N, (2 * N - d) % (1 << 256)] + [r.scalar256() for _ in range(3)]
        for t in tw:
            chk.add('ec_seckey_tweak_add %s %s' % (h32(d), h32(t)), 'seckey_tweak_add')
            chk.add('ec_seckey_tweak_mul %s %s' % (h32(d), h32(t)), 'seckey_tweak_mul')
            if 0 < d < N:
                Q = mul(d, G)
                chk.add('ec_pubkey_tweak_add %s %s' % (pk_obj(Q), h32(t)), 'pubkey_tweak_add')
                chk.add('ec_pubkey_tweak_mul %s %s' % (pk_obj(Q), h32(t)), 'pubkey_tweak_mul')
                X = lift_x(Q[0])
                chk.add('xonly_pubkey_tweak_add %s %s' % (pk_obj(X), h32(t)), 'xonly_tweak_add')
                chk.add('keypair_xonly_tweak_add %s%s %s' % (h32(d), pk_obj(Q), h32(t)), 'keypair_tweak_add')
                if t < N:
                    T = add(X, mul(t, G))
                    if T is not None:
                        for par in (0, 1):
                            chk.add('xonly_pubkey_tweak_add_check %s #%d %s %s' % (h32(T[0]), par, pk_obj(X), h32(t)), 'tweak_add_check')
                        chk.add('xonly_pubkey_tweak_add_check %s #%d %s %s' % (h32(T[0] ^ 1), T[1] & 1, pk_obj(X), h32(t)), 'tweak_add_check_wrong_x')
    # the tweaked key is compared as 32 BYTES: an alias x + p of the right x coordinate (possible only for tiny x) is refused.
    # T is a curve point with tiny x, the internal key is X = T - t*G with even y, so the tweak really produces T
    found = 0; x = 0
    while found < chk.scale(4, 20):
        x += 1
        T0 = lift_x(x)
        if T0 is None: continue
        found += 1
        for T in (T0, neg(T0)):
            for _ in range(40):
                t = r.seckey(); X = add(T, neg(mul(t, G)))
                if X is not None and X[1] % 2 == 0: break
            else: continue
            par = T[1] & 1
            chk.add('xonly_pubkey_tweak_add_check %s #%d %s %s' % (h32(x), par, pk_obj(X), h32(t)), 'tweak_add_check_tiny_x')
            chk.add('xonly_pubkey_tweak_add_check %s #%d %s %s' % (h32(x + P), par, pk_obj(X), h32(t)), 'tweak_add_check_alias_x_plus_p')
            chk.add('xonly_pubkey_tweak_add_check %s #%d %s %s' % (h32(x + P), par ^ 1, pk_obj(X), h32(t)), 'tweak_add_check_alias_x_plus_p')
            chk.add('xonly_pubkey_tweak_add %s %s' % (pk_obj(X), h32(t)), 'xonly_tweak_add_tiny_x')
    # zero / invalid objects -> illegal callbacks
    z = '00' * 64
    for op in ('ec_pubkey_negate %s', 'ec_pubkey_tweak_add %s ' + h32(1), 'ec_pubkey_tweak_mul %s ' + h32(2), 'xonly_pubkey_from_pubkey %s', 'xonly_pubkey_tweak_add %s ' + h32(1)):
        chk.add(op % z, 'zero_object')
    chk.add('keypair_xonly_tweak_add %s %s' % ('00' * 96, h32(1)), 'zero_object'); chk.add('keypair_xonly_pub %s' % ('00' * 96), 'zero_object')
    chk.add('keypair_xonly_tweak_add %s%s %s' % (h32(0), pk_obj(G), h32(1)), 'keypair_bad_secret')
    for d in [r.seckey() for _ in range(chk.scale(10, 100))]:
        Q = mul(d, G)
        chk.add('ec_pubkey_negate %s' % pk_obj(Q), 'pubkey_negate'); chk.add('xonly_pubkey_from_pubkey %s' % pk_obj(Q), 'xonly_from_pubkey')
        chk.add('keypair_xonly_pub %s%s' % (h32(d), pk_obj(Q)), 'keypair_xonly_pub')
    # tweak chains: same chain applied on the secret side and on the public side, compared after each step
    for c in range(chk.scale(25, 400)):
        d = r.seckey(); Q = mul(d, G)
        for step in range(r.below(12) + 1):
            kind = r.below(3)
            t = r.choice(edge[:8]) if r.chance(1, 5) else r.scalar256() % N
            if kind == 0:
                chk.add('ec_seckey_negate %s' % h32(d), 'chain'); chk.add('ec_pubkey_negate %s' % pk_obj(Q), 'chain')
                d = (N - d) % N; Q = neg(Q)
            elif kind == 1:
                chk.add('ec_seckey_tweak_add %s %s' % (h32(d), h32(t)), 'chain'); chk.add('ec_pubkey_tweak_add %s %s' % (pk_obj(Q), h32(t)), 'chain')
                d2 = (d + t) % N
                if t >= N or d2 == 0: break
                d = d2; Q = mul(d, G)
            else:
                chk.add('ec_seckey_tweak_mul %s %s' % (h32(d), h32(t)), 'chain'); chk.add('ec_pubkey_tweak_mul %s %s' % (pk_obj(Q), h32(t)), 'chain')
                if t >= N or t == 0: break
                d = d * t % N; Q = mul(d, G)
            chk.add('ec_pubkey_create %s' % h32(d), 'chain')
    # combine: lists with cancelling pairs at arbitrary positions, duplicates, sum = infinity
    for c in range(chk.scale(40, 600)):
        n = r.choice([1, 2, 3, 4, 5, 8, 16, 33, 64, 200]) if r.chance(1, 2) else 1 + r.below(12)
        ds = [r.seckey() for _ in range(n)]
        mode = r.below(4)
        if mode == 0 and n >= 2:    # make the total cancel
            ds[r.below(n)] = 0; tot = sum(ds) % N; i = ds.index(0); ds[i] = (N - tot) % N
            if ds[i] == 0: ds[i] = 1
        elif mode == 1 and n >= 2:  # cancelling pair inside
            i, j = r.below(n), r.below(n)
            if i != j: ds[j] = N - ds[i]
        elif mode == 2 and n >= 2: ds[r.below(n)] = ds[r.below(n)]
        chk.add('ec_pubkey_combine %s' % ''.join(pk_obj(mul(d, G)) for d in ds), 'combine')
    chk.add('ec_pubkey_combine .', 'combine_empty')
    # comparison and sorting: 0..200 keys, duplicates, keys sharing x (P and -P), prefix-equal x
    pts = [mul(r.seckey(), G) for _ in range(60)]
    pts += [neg(q) for q in pts[:10]]
    for c in range(chk.scale(60, 600)):
        a, b = r.choice(pts), r.choice(pts)
        chk.add('ec_pubkey_cmp %s %s' % (pk_obj(a), pk_obj(b)), 'cmp')
    # keys whose encodings agree in all but the LAST bytes (tiny x: 31 leading zero bytes; a shared random 30/31-byte prefix)
    near = [q for q in (lift_x(x) for x in range(1, 200)) if q is not None][:40]
    near += [neg(q) for q in near[:8]]
    pre = r.bits(240) << 16
    near2 = [q for q in (lift_x(pre + t) for t in range(0, 400)) if q is not None][:40]
    for fam in (near, near2):
        for c in range(chk.scale(60, 600)):
            a, b = r.choice(fam), r.choice(fam)
            chk.add('ec_pubkey_cmp %s %s' % (pk_obj(a), pk_obj(b)), 'cmp_keys_differing_in_last_bytes')
        for n in (2, 3, 7, 20, 40):
            l = [r.choice(fam) for _ in range(n)]
            chk.add('ec_pubkey_sort %s' % ''.join(pk_obj(q) for q in l), 'sort_keys_differing_in_last_bytes')
            l.sort(key=lambda q: ser33(q), reverse=True)
            chk.add('ec_pubkey_sort %s' % ''.join(pk_obj(q) for q in l), 'sort_keys_differing_in_last_bytes')
    chk.add('ec_pubkey_cmp %s %s' % (z, pk_obj(pts[0])), 'cmp_invalid'); chk.add('ec_pubkey_cmp %s %s' % (pk_obj(pts[0]), z), 'cmp_invalid'); chk.add('ec_pubkey_cmp %s %s' % (z, z), 'cmp_invalid')
    for n in list(range(0, 12)) + [31, 32, 33, 40, 41, 42, 63, 64, 65, 100, 127, 128, 129, 199, 200] + [r.below(200) for _ in range(chk.scale(10, 200))]:
        for rep in range(2):
            l = [r.choice(pts) for _ in range(n)]
            if rep == 1: l.sort(key=lambda q: ser33(q), reverse=True)
            chk.add('ec_pubkey_sort %s' % (''.join(pk_obj(q) for q in l) or '.'), 'sort_n%d' % (n if n < 12 else (n // 32) * 32))

def run(chk):
    impl, model, ie, me = runners(chk)
    chk.coq(); gen(chk); chk.correspond(impl, model, 'key algebra')
