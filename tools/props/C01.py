"""C01 - ECDSA verification and signing exact (DESIGN.md section 5, C01)"""
from props.common import *
FINISH = dict(level='proof', technique='Coq theorems about the executable ECDSA model (Properties_C01.v) + differential correspondence of the model with the C implementation built from the working tree',
              trusted=TRUSTED_COMMON + ['theorems marked [MF] assume the group axioms for the curve (MathFacts hypothesis), p and n prime'])

def runners(chk):
    impl, model = core_runners(chk)
    return impl, model, (), ()

def gen(chk):
    r = chk.rng
    nsign = chk.scale(160, 3000); nver = chk.scale(260, 5000)
    keys = [0, 1, 2, N - 2, N - 1, N, N + 1, (1 << 256) - 1]
    msgs = [0, 1, N - 1, N, N + 1, P - 1, P, P + 1, (1 << 256) - 1, 1 << 255]
    # --- signing: default nonce, boundary keys x boundary messages, with/without extra data
    for d in keys:
        for m in msgs[:6] if chk.quick() else msgs:
            chk.add('ecdsa_sign #0 %s %s -' % (h32(m), h32(d)), 'sign_boundary')
    for i in range(nsign):
        d = r.choice(keys) if r.chance(1, 8) else r.scalar256()
        m = r.choice(msgs) if r.chance(1, 3) else r.scalar256()
        data = None if r.chance(1, 2) else r.bytes(32)
        kind = r.below(2)
        op = 'ecdsa_sign' if r.chance(2, 3) else 'ecdsa_sign_recoverable'
        chk.add('%s #%d %s %s %s' % (op, kind, h32(m), h32(d), opt(data)), 'sign_default')
    # messages >= n must sign like msg mod n and unlike the raw message (RFC 6979 keyed with msg mod n)
    for i in range(chk.scale(12, 100)):
        d = r.seckey(); t = r.bits(r.choice([1, 64, 127])); m = N + t
        if m < (1 << 256):
            chk.add('ecdsa_sign #0 %s %s -' % (h32(m), h32(d)), 'sign_msg_ge_n')
            chk.add('ecdsa_sign #0 %s %s -' % (h32(m - N), h32(d)), 'sign_msg_ge_n')
    # custom nonce functions: constant / retrying / failing
    for base, fail_at in [(0, 255), (0, 1), (0, 0), (N - 1, 255), (N, 255), (N, 1), ((1 << 256) - 1, 255), ((1 << 256) - 1, 2), (1, 255), (5, 0), (N - 3, 7), (N - 3, 5)]:
        for d in [1, N - 1, 0, N, r.seckey()]:
            m = r.scalar256()
            data = b32(base) + bytes([fail_at])
            for op in ('ecdsa_sign', 'ecdsa_sign_recoverable'):
                chk.add('%s #%d %s %s %s' % (op, 3 if fail_at != 255 else 2, h32(m), h32(d), data.hex()), 'sign_custom_nonce')
    # a first attempt that is REJECTED after r and s were computed (s = 0: the message is -r*d), followed by a failing
    # or a succeeding retry: the failure output must still be all-zero, the success must be the retry's signature
    for i in range(chk.scale(10, 120)):
        d = r.seckey(); k = r.seckey(); R = mul(k, G); rr = R[0] % N; m = (-rr * d) % N
        mm = m + N if (r.chance(1, 4) and m + N < (1 << 256)) else m
        for fail_at in (1, 2, 255):
            data = b32(k) + bytes([fail_at])
            for op in ('ecdsa_sign', 'ecdsa_sign_recoverable'):
                chk.add('%s #%d %s %s %s' % (op, 3 if fail_at != 255 else 2, h32(mm), h32(d), data.hex()), 'sign_s_zero_then_retry')
    # the library's RFC 6979 nonce function at retry counters above 0: called directly (every counter must give the counter-th candidate
    # of the generator) and through a signing run whose first candidate is invalid, so that the signature is the one of candidate 1
    for i in range(chk.scale(24, 300)):
        d = r.seckey(); m = r.choice(msgs) if r.chance(1, 4) else r.scalar256()
        data = None if r.chance(1, 2) else r.bytes(32); algo = None if r.chance(1, 2) else r.bytes(16)
        chk.add('nonce_function_rfc6979 %s %s %s %s #%d' % (h32(m), h32(d), opt(algo), opt(data), r.choice([0, 1, 1, 2, 3, 4, 5, 8, 17])), 'rfc6979_nonce_counter')
    for i in range(chk.scale(12, 150)):
        d = r.choice(keys) if r.chance(1, 8) else r.seckey(); m = r.choice(msgs) if r.chance(1, 4) else r.scalar256()
        data = None if r.chance(1, 2) else r.bytes(32)
        chk.add('%s #4 %s %s %s' % ('ecdsa_sign' if r.chance(2, 3) else 'ecdsa_sign_recoverable', h32(m), h32(d), opt(data)), 'sign_rfc6979_after_rejected_candidate')
    # inputs that live inside the output object (in-place use): same result as with separate buffers
    for i in range(chk.scale(12, 200)):
        d = r.seckey(); m = r.scalar256(); kind = r.below(2); data = None if r.chance(1, 2) else r.bytes(32)
        for where in (1, 2, 3):
            chk.add('ecdsa_sign_alias #%d %s %s %s #%d' % (kind, h32(m), h32(d), opt(data), where), 'sign_input_inside_output')
    # --- verification: valid signatures with chosen s (solve for the message), boundary s values
    half = N // 2
    svals = [1, 2, half - 1, half, half + 1, half + 2, N - 1, N - 2, 0]
    for i in range(nver):
        d = r.seckey(); Q = mul(d, G); k = r.seckey(); R = mul(k, G); rr = R[0] % N
        s = r.choice(svals) if r.chance(1, 3) else r.seckey()
        m = (s * k - rr * d) % N            # (rr, s) is a valid ECDSA signature on m (low-S rule aside)
        mm = m + N if (r.chance(1, 6) and m + N < (1 << 256)) else m
        variant = r.below(8)
        sig_r, sig_s, msg, pk = rr, s, mm, Q
        cls = 'verify_valid_chosen_s'
        if variant == 1: sig_s = (N - s) % N; cls = 'verify_negated_s'
        elif variant == 2: msg = (mm + 1) % (1 << 256); cls = 'verify_wrong_msg'
        elif variant == 3: sig_r = (rr + 1) % N; cls = 'verify_wrong_r'
        elif variant == 4: pk = mul(r.seckey(), G); cls = 'verify_wrong_key'
        elif variant == 5: pk = neg(Q); cls = 'verify_negated_key'
        elif variant == 6: sig_r = r.choice([0, rr]); sig_s = r.choice([0, s]); cls = 'verify_zero_rs'
        chk.add('ecdsa_verify %s%s %s %s' % (h32(sig_r), h32(sig_s), h32(msg), pk_obj(pk)), cls)
    # --- second comparison x(R) = r + n: points with n <= x < p, Q solved from (r, s, m)
    t = 0; found = 0
    want = chk.scale(6, 40)
    while found < want:
        x = N + t; t += 1
        for odd in (False, True):
            R = lift_x(x, odd)
            if R is None: continue
            found += 1
            rr = x - N
            for j in range(3):
                s = r.choice([1, half, r.seckey() % half + 1]); m = r.scalar256()
                if rr == 0: continue
                rinv = inv(rr, N)
                Q = add(mul(s * rinv % N, R), mul((-m * rinv) % N, G))      # Q = r^-1 (s R - m G)
                if Q is None: continue
                chk.add('ecdsa_verify %s%s %s %s' % (h32(rr), h32(s), h32(m), pk_obj(Q)), 'verify_second_compare')
                chk.add('ecdsa_verify %s%s %s %s' % (h32(rr), h32(s), h32((m + 1) % (1 << 256)), pk_obj(Q)), 'verify_second_compare_neg')
                # recovery with recid 2/3 must give Q back; with recid 0/1 something else or failure
                for recid in range(4):
                    chk.add('ecdsa_recover %s%s%02x %s' % (h32(rr), h32(s), recid, h32(m)), 'recover_high_x')
    # --- x-comparison logic in isolation: the verifier is made to reconstruct a KNOWN point R (Q is solved from
    # r, s, m), while r is a near miss of x(R): x + (p-n), x - (p-n), x +- n, x +- 1, x mod n ... ; only r = x mod n verifies
    for i in range(chk.scale(60, 1500)):
        k = r.seckey(); R = mul(k, G); X = R[0]
        cands = [X + (P - N), X - (P - N), X - N, X + N, X + 1, X - 1, X % N, (X + P) % N, P - X, N - X, X ^ 1]
        for rr in cands:
            if not (0 < rr < N): continue
            s = r.choice([1, half, r.seckey() % half + 1]); m = r.scalar256()
            Q = add(mul(s * inv(rr, N) % N, R), mul((-m * inv(rr, N)) % N, G))
            if Q is None: continue
            chk.add('ecdsa_verify %s%s %s %s' % (h32(rr), h32(s), h32(m), pk_obj(Q)), 'verify_xcompare_near_miss' if rr != X % N else 'verify_xcompare_exact')
    # r >= p - n can never use the second comparison
    for rr in (P - N - 1, P - N, P - N + 1, N - 1):
        s = r.seckey() % half + 1; m = r.scalar256(); Q = mul(r.seckey(), G)
        chk.add('ecdsa_verify %s%s %s %s' % (h32(rr), h32(s), h32(m), pk_obj(Q)), 'verify_r_near_p_minus_n')
        for recid in range(4):
            chk.add('ecdsa_recover %s%s%02x %s' % (h32(rr), h32(s), recid, h32(m)), 'recover_r_near_p_minus_n')
    # --- recovery of honest signatures (all four ids), parse of recoverable sigs with bad recid
    for i in range(chk.scale(40, 600)):
        d = r.seckey(); k = r.seckey(); m = r.scalar256() if r.chance(3, 4) else r.choice(msgs)
        R = mul(k, G); rr = R[0] % N; s = inv(k, N) * (m + rr * d) % N
        if rr == 0 or s == 0: continue
        recid = (2 if R[0] >= N else 0) | (R[1] & 1)
        if s > half: s = N - s; recid ^= 1
        for rc in range(4):
            chk.add('ecdsa_recover %s%s%02x %s' % (h32(rr), h32(s), rc, h32(m)), 'recover_honest' if rc == recid else 'recover_other_id')
    for recid in (-1, 0, 3, 4, 255):
        chk.add('recoverable_parse_compact %s%s #%d' % (h32(r.seckey()), h32(r.choice([1, N - 1, N, r.seckey()])), recid), 'recoverable_parse')
    for i in range(chk.scale(10, 100)):
        obj = h32(r.seckey()) + h32(r.seckey()) + '%02x' % r.below(4)
        chk.add('recoverable_convert ' + obj, 'recoverable_convert'); chk.add('recoverable_serialize_compact ' + obj, 'recoverable_serialize')
    # --- normalize
    for s in svals + [r.seckey() for _ in range(10)]:
        chk.add('ecdsa_signature_normalize %s%s' % (h32(r.seckey()), h32(s)), 'normalize')

def run(chk):
    impl, model, ie, me = runners(chk)
    chk.coq()
    gen(chk)
    chk.correspond(impl, model, 'ecdsa api')
