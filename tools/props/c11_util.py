"""Generator-side helpers for C11 (surjection proofs) and C16 (whitelist): a Borromean single-ring
prover/verifier in Python in which EVERY free value (nonce, forged scalars) is chosen by the caller, so
that boundary proofs (small forged scalars that can be re-encoded as s+n, zero scalars, ...) can be
crafted.  Never used to decide a verdict."""
from pyec import *

class ProverFail(Exception): pass

def to_scalar(b32):
    v = int.from_bytes(b32, 'big')
    if v >= N or v == 0: raise ProverFail('challenge overflow/zero')
    return v
def bor_hash(m, e, ridx, eidx): return sha256(e + m + ridx.to_bytes(4, 'big') + eidx.to_bytes(4, 'big'))
def ecmult(pub, ens, s):
    R = add(mul(ens, pub), mul(s, G))
    if R is None: raise ProverFail('R at infinity')
    return R
def bor_sign1(pubs, secidx, sec, k, s, msg):
    """single-ring Borromean signature; s: list of forged scalars (entry secidx ignored) -> (e0, s')"""
    n = len(pubs); s = list(s)
    R = mul(k, G)
    if R is None: raise ProverFail('k = 0')
    tmp = ser33(R)
    for j in range(secidx + 1, n):
        ens = to_scalar(bor_hash(msg, tmp, 0, j))
        tmp = ser33(ecmult(pubs[j], ens, s[j]))
    e0 = sha256(tmp + msg)
    ens = to_scalar(bor_hash(msg, e0, 0, 0))
    for j in range(secidx):
        tmp = ser33(ecmult(pubs[j], ens, s[j]))
        ens = to_scalar(bor_hash(msg, tmp, 0, j + 1))
    s[secidx] = (k - ens * sec) % N
    return e0, s
def bor_verify1(e0, s, pubs, msg):
    """Python re-implementation, used only to sanity-check the generators themselves"""
    n = len(pubs); tmp = b''
    try:
        if n: ens = to_scalar(bor_hash(msg, e0, 0, 0))
        for j in range(n):
            if s[j] % N == 0 or pubs[j] is None: return False
            tmp = ser33(ecmult(pubs[j], ens, s[j]))
            if j != n - 1: ens = to_scalar(bor_hash(msg, tmp, 0, j + 1))
    except ProverFail:
        return False
    return e0 == sha256(tmp + msg)

# ---------------------------------------------------------------- surjection
def gen_obj(pt): return b32(pt[0]) + b32(pt[1])          # secp256k1_generator wire form x32||y32
def gens_hex(pts): return b''.join(gen_obj(p) for p in pts).hex() or '.'
def bitmap(n, used):
    bm = bytearray((n + 7) // 8)
    for i in used: bm[i // 8] |= 1 << (i % 8)
    return bytes(bm)
def sj_msg(in_tags, out_tag): return sha256(b''.join(ser33(t) for t in in_tags) + ser33(out_tag))
def sj_pubs(in_tags, used, out_tag): return [add(neg(in_tags[i]), out_tag) for i in sorted(used)]
def sj_prove(in_tags, out_tag, used, ring_pos, sec, k, forged):
    """proof data (e0 || s_0 .. ) for the subset `used` (sorted list of input indices), signer at ring
    position ring_pos with secret sec (= out_blind - in_blind); forged = list of len(used) scalars"""
    e0, s = bor_sign1(sj_pubs(in_tags, used, out_tag), ring_pos, sec, k, forged, sj_msg(in_tags, out_tag))
    return e0, s
def sj_data(e0, s_enc): return e0 + b''.join(b32(x) for x in s_enc)    # s_enc may hold values >= n (re-encodings)
def sj_serialize(n, bm, data): return bytes([n % 256, n // 256]) + bm + data
def proof_fields(n, bm, data): return '#%d %s %s' % (n, bm.hex() or '.', data.hex() or '.')
def parse_proof_fields(fields):
    """inverse of the printing of a proof object: ['#n', bitmap, data] -> (n, bitmap bytes, data bytes)"""
    n = int(fields[0][1:]); bm = b'' if fields[1] == '.' else bytes.fromhex(fields[1])
    data = b'' if fields[2] == '.' else bytes.fromhex(fields[2])
    return n, bm, data

class TagFactory:
    """ephemeral tags = asset generator + blind*G; assets are arbitrary curve points"""
    def __init__(self, rng): self.r = rng; self.assets = {}
    def asset(self, name):
        if name not in self.assets: self.assets[name] = mul(self.r.seckey(), G)
        return self.assets[name]
    def tag(self, name, blind):
        return add(self.asset(name), mul(blind, G))
