"""C10 - range-proof verification consensus-exact (DESIGN.md section 5, C10)"""
from props.common import *
from props.c10_util import *
FINISH = dict(level='proof', technique='Coq theorems about the executable range-proof verification model (Properties_C10.v: named rejection theorems) + differential correspondence with the C implementation, driven by a Python adversarial prover that chooses every free value of a proof (forged scalars, header bits, exponent, mantissa, min_value, digits)',
              trusted=TRUSTED_COMMON + ['tools/props/c10_util.py adversarial prover only crafts inputs; verdicts come from model/implementation comparison',
                                        'unforgeability of Borromean ring signatures is cryptographic and not claimed; the proved/compared content is the acceptance predicate'])

def runners(chk):
    impl = vlib.build_impl(chk.dir)
    model = vlib.ensure_model('rangeproof')
    return impl, model, (), ()

def flip(b, bit):
    b = bytearray(b); b[bit >> 3] ^= 1 << (bit & 7); return bytes(b)

def mutations(chk, pr, tag, heavy=False, light=False):
    """structural mutations of one valid adversarial proof"""
    r = chk.rng
    good = encode(pr)
    chk.add(verify_line(pr, good), 'adv_valid_' + tag)
    # re-encodings s + n of the forged (small) scalars, s = 0, s = n
    idxs = pr.forged_idx[:]; r.shuffle(idxs)
    for i in idxs[:1 if heavy else 3]:
        if pr.s[i] + N < (1 << 256):
            s2 = list(pr.s); s2[i] += N
            chk.add(verify_line(pr, encode(pr, s=s2)), 'adv_s_plus_n')
    if heavy: return
    if light:
        chk.add(verify_line(pr, good + b'\x00'), 'adv_trailing'); chk.add(verify_line(pr, good[:-1]), 'adv_truncated')
        chk.add(verify_line(pr, encode(pr, hdr=flip(pr.hdr, r.below(8 * len(pr.hdr))))), 'adv_header_bitflip')
        chk.add(verify_line(pr, good, commit=add(pr.commit, G)), 'adv_other_commit')
        chk.add('rangeproof_info ' + good.hex(), 'info_adv')
        return
    for i in [0, len(pr.s) - 1]:
        for val, cls in ((0, 'adv_s_zero'), (N, 'adv_s_eq_n'), ((1 << 256) - 1, 'adv_s_max'), ((pr.s[i] + 1) % N, 'adv_s_plus_1')):
            s2 = list(pr.s); s2[i] = val
            chk.add(verify_line(pr, encode(pr, s=s2)), cls)
    # trailing bytes / truncation
    for extra_bytes in (b'\x00', b'\x01', bytes(32), r.bytes(33)):
        chk.add(verify_line(pr, good + extra_bytes), 'adv_trailing')
    for cut in (1, 31, 32, 33, len(good) - 65, len(good) - 64):
        if 0 < cut < len(good): chk.add(verify_line(pr, good[:-cut]), 'adv_truncated')
    # sign bits: spare ones must be zero, used ones are bound by the hash
    rings = len(pr.rsizes)
    for bit in range(8 * len(pr.signs)):
        sg = flip(pr.signs, bit)
        chk.add(verify_line(pr, encode(pr, signs=sg)), 'adv_spare_sign_bit' if bit >= rings - 1 else 'adv_flipped_sign_bit')
    # digit commitments: x >= p, off-curve x
    if pr.xs:
        for val in (P, P + 1, (1 << 256) - 1, rand_x(r, False), rand_x(r, True)):
            k = r.below(len(pr.xs) // 32)
            xs = pr.xs[:32 * k] + b32(val) + pr.xs[32 * k + 32:]
            chk.add(verify_line(pr, encode(pr, xs=xs)), 'adv_digit_x_ge_p' if val >= P else 'adv_digit_x_other')
    # binding: commitment, generator, extra data
    chk.add(verify_line(pr, good, commit=add(pr.commit, G)), 'adv_other_commit')
    chk.add(verify_line(pr, good, commit=neg(pr.commit)), 'adv_other_commit')
    chk.add(verify_line(pr, good, commit=add(pr.commit, pr.gen)), 'adv_other_commit')
    chk.add(verify_line(pr, good, gen=neg(pr.gen)), 'adv_other_gen')
    chk.add(verify_line(pr, good, gen=add(pr.gen, G)), 'adv_other_gen')
    chk.add(verify_line(pr, good, extra=pr.extra + b'\x00'), 'adv_other_extra')
    if pr.extra:
        chk.add(verify_line(pr, good, extra=flip(pr.extra, r.below(8 * len(pr.extra)))), 'adv_other_extra')
        chk.add(verify_line(pr, good, extra=pr.extra[:-1]), 'adv_other_extra')
    # header rewrites on the finished proof (the header is hashed: all must be rejected)
    h = bytearray(pr.hdr)
    for bit in range(8 * len(h)):
        chk.add(verify_line(pr, encode(pr, hdr=flip(bytes(h), bit))), 'adv_header_bitflip')
    chk.add('rangeproof_info ' + good.hex(), 'info_adv')
    chk.add('rangeproof_rewind %s %s %s %s %s #%d' % (r.bytes(32).hex(), obj(pr.commit), good.hex(), pr.extra.hex() if pr.extra else '-', obj(pr.gen), r.choice([0, 1, 64, 4096])), 'rewind_adv_random_nonce')

def gen(chk, impl=None):
    r = chk.rng
    gens = [H, fmul(r.seckey(), G), neg(H)]
    quick = chk.quick()
    # ---- heavy cases first (they spread over the shards): big mantissas
    for mant in ([64, 63, 32] if quick else [64, 64, 63, 62, 61, 48, 33, 32, 31, 17, 16]):
        pr = prove(r, r.choice(gens), mant, 0, 0, extra=r.bytes(r.below(5)))
        if pr: mutations(chk, pr, 'big', heavy=True)
    # ---- every (exp, has_min) with small mantissas; every mantissa up to 12 with some exp
    combos = []
    for exp in range(0, 19):
        combos.append((r.choice([1, 2, 3]), exp, r.choice([0, 1, r.bits(20)])))
    for mant in range(0, 13 if quick else 25):
        combos.append((mant, r.below(4), r.choice([0, 0, 1, (1 << 63), r.bits(40)])))
    for i in range(chk.scale(10, 200)):
        combos.append((r.below(7), r.below(19), r.choice([0, 1, 1 << 63, U64, r.bits(64), r.bits(10)])))
    for mant, exp, minv in combos:
        # keep the claimed range inside 2^64 (overflowing ones are a class of their own below)
        mx = ((1 << mant) - 1) * 10 ** exp if mant else 0
        while mant and exp and mx > U64: exp -= 1; mx = ((1 << mant) - 1) * 10 ** exp
        if mx + minv > U64: minv = U64 - mx if r.chance(1, 2) else 0
        pr = prove(r, r.choice(gens), mant, exp if mant else 0, minv, extra=r.bytes(r.choice([0, 0, 1, 32, 100])))
        nfull = getattr(chk, '_nfull', 0)
        full = mant <= 4 and nfull < chk.scale(8, 80)
        if pr and full: chk._nfull = nfull + 1
        if pr: mutations(chk, pr, 'm%d' % min(mant, 9) if mant < 9 else 'm9plus', heavy=(mant > 8), light=not full)
    # ---- a digit commitment with a TINY x coordinate, written canonically (accepted) and as x + p (must be rejected although the
    # ring signature is made over exactly those bytes).  The free generator is chosen so that the first digit commitment
    # sec0*G + 1*gen is a given point with tiny x.
    found = 0; x = 0
    while found < chk.scale(3, 12):
        x += 1
        T0 = lift_x(x)
        if T0 is None: continue
        found += 1
        for T in (T0, neg(T0)):
            sec0 = r.seckey(); gen_ = add(T, neg(fmul(sec0, G)))
            if gen_ is None: continue
            for mant in (3, 4):
                dig = [1] + [r.below(rs) for rs in layout(mant)[1:]]
                st = r.state if hasattr(r, 'state') else None
                pr = prove(r, gen_, mant, 0, r.choice([0, 9]), digits=dig, sec_at={0: sec0})
                if pr: chk.add(verify_line(pr, encode(pr)), 'adv_tiny_x_digit_commitment_canonical')
                pa = prove(r, gen_, mant, 0, r.choice([0, 9]), digits=dig, sec_at={0: sec0}, alias_at=(0,))
                if pa:
                    chk.add(verify_line(pa, encode(pa)), 'adv_digit_commitment_x_plus_p')
                    chk.add('rangeproof_rewind %s %s %s %s %s #64' % (r.bytes(32).hex(), obj(pa.commit), encode(pa).hex(), '-', obj(pa.gen)), 'adv_digit_commitment_x_plus_p_rewind')
    # has_min set with min_value = 0 (non-canonical but acceptable header)
    pr = prove(r, H, 2, 0, 0, has_min=True)
    if pr: mutations(chk, pr, 'hasmin_zero')
    # ---- exponent above 18, written in the header and used consistently by the prover
    for exp in list(range(19, 32)) + [19, 19, 19]:
        for mant in (1, 0, 2):
            pr = prove(r, r.choice(gens), mant, exp, r.choice([0, 5]))
            if pr:
                chk.add(verify_line(pr, encode(pr)), 'adv_exp_gt_18' if mant else 'adv_exact_ignores_exp')
                chk.add('rangeproof_info ' + encode(pr).hex(), 'info_exp_gt_18')
    # ---- reserved header bit
    for mant in (0, 1, 2, 3, 4):
        for minv in (0, 9):
            pr = prove(r, r.choice(gens), mant, r.below(3), minv, b0_or=128)
            if pr:
                chk.add(verify_line(pr, encode(pr)), 'adv_reserved_header_bit')
                chk.add('rangeproof_info ' + encode(pr).hex(), 'info_reserved_header_bit')
    # ---- range overflow: min + max around 2^64
    for mant, exp in [(1, 0), (2, 0), (1, 18), (3, 5), (64, 0), (63, 0), (4, 17), (0, 0)]:
        if mant > 8 and quick and mant != 64: continue
        mx = ((1 << mant) - 1) * 10 ** exp if mant else 0
        for delta in (0, 1, 2, 1 << 32):
            minv = U64 - mx + delta
            if not (0 <= minv <= U64): continue
            if mant == 64 and delta > 1: continue
            pr = prove(r, r.choice(gens), mant, exp, minv)
            if pr:
                chk.add(verify_line(pr, encode(pr)), 'adv_range_max_boundary' if delta == 0 else 'adv_range_overflow')
                chk.add('rangeproof_info ' + encode(pr).hex(), 'info_range_boundary')
    # scale overflow inside the header loop: (2^mant - 1) * 10^exp > 2^64
    for mant, exp in [(64, 1), (61, 1), (60, 1), (4, 18), (5, 18), (34, 9), (33, 9), (8, 17)]:
        b0 = 64 | exp
        pf = bytes([b0, mant - 1]) + r.bytes(200)
        chk.add('rangeproof_info ' + pf.hex(), 'info_scale_overflow')
        chk.add('rangeproof_verify %s %s . %s' % (obj(H), pf.hex(), obj(H)), 'verify_scale_overflow')
    # ---- forged scalar chosen as ZERO by the prover: the ring equation holds, the proof must still be rejected
    for mant, dig in [(1, [0]), (1, [1]), (2, [0]), (2, [3]), (3, [1, 0]), (4, [2, 2])]:
        for pos in range(4):
            fa = {(ri, pos): 0 for ri in range(len(dig))}
            pr = prove(r, r.choice(gens), mant, 0, r.choice([0, 3]), digits=dig, forged_at=fa)
            if pr and any(x == 0 for x in pr.s):
                chk.add(verify_line(pr, encode(pr)), 'adv_forged_s_zero')
    # ---- a ring public key at infinity (digit commitment = digit*scale*H exactly, blinding 0): equation holds, must be rejected
    for mant, ring in [(1, 0), (2, 0), (3, 0), (3, 1), (4, 0), (4, 1)]:
        dig = [r.below(rs) for rs in layout(mant)]
        if ring < len(dig) - 1 and dig[ring] == 0: dig[ring] = 1      # a transmitted commitment cannot itself be infinity
        pr = prove(r, r.choice(gens), mant, 0, r.choice([0, 3]), digits=dig, sec_at={ring: 0})
        if pr: chk.add(verify_line(pr, encode(pr)), 'adv_ring_pubkey_infinity')
    # ---- the last public key is the point at infinity (commit = min*H + sum of digit commitments)
    for mant in (0, 1, 2):
        pr = prove(r, H, mant, 0, 7)
        if pr:
            D0 = add(pr.commit, neg(fmul(7, H)))     # = sum of all digit commitments
            if mant == 0 or len(pr.rsizes) == 1:
                chk.add(verify_line(pr, encode(pr), commit=fmul(7, H)), 'adv_lastpub_infinity')
    # ---- every single-bit flip
    pr = prove(r, H, 1, 0, 0, extra=b'x')
    good = encode(pr)
    for bit in range(8 * len(good)): chk.add(verify_line(pr, flip(good, bit)), 'bitflip_all_1ring')
    for bit in range(8): chk.add(verify_line(pr, good, extra=flip(b'x', bit)), 'bitflip_extra')
    pr = prove(r, H, 4, 2, 3, extra=r.bytes(8))
    good = encode(pr)
    bits = range(8 * len(good)) if not quick else sorted(set(list(range(8 * 4)) + [8 * k + r.below(8) for k in range(0, len(good), 2)]))
    for bit in bits: chk.add(verify_line(pr, flip(good, bit)), 'bitflip_2ring')
    pr = prove(r, H, 0, 0, 1234)
    good = encode(pr)
    for bit in range(8 * len(good)): chk.add(verify_line(pr, flip(good, bit)), 'bitflip_all_exact')
    # ---- header decoding on its own: every first byte x many mantissa bytes x boundary min values
    body = bytes(200)
    mbytes = list(range(0, 70)) + [127, 128, 254, 255] if not quick else [0, 1, 2, 31, 32, 59, 60, 61, 62, 63, 64, 65, 127, 255]
    for b0 in range(256):
        for mb in mbytes:
            for minv in ([0, 1, 1 << 63, U64] if not quick else [r.choice([0, 1, 1 << 63, U64, r.bits(64)])]):
                pf = bytes([b0, mb]) + u64be(minv) + body[:r.choice([55, 56, 100])]
                chk.add('rangeproof_info ' + pf.hex(), 'info_header_sweep')
    for ln in (0, 1, 2, 9, 10, 63, 64, 65, 66):
        for b0 in (0, 32, 64, 96, 64 | 18, 96 | 3):
            chk.add('rangeproof_info ' + hx(bytes([b0] + [0] * (ln - 1))[:ln]), 'info_short')
            chk.add('rangeproof_verify %s %s . %s' % (obj(H), hx(bytes([b0] + [1] * (ln - 1))[:ln]), obj(H)), 'verify_short')
    # exact boundary of max + min for all exponents (mantissa byte chosen so that no scale overflow)
    for exp in range(19):
        for mant in (1, 2, 3, 4):
            mx = ((1 << mant) - 1) * 10 ** exp
            if mx > U64: continue
            for d in (-1, 0, 1):
                minv = U64 - mx + d
                if 0 <= minv <= U64:
                    chk.add('rangeproof_info ' + (bytes([96 | exp, mant - 1]) + u64be(minv) + body[:60]).hex(), 'info_max_boundary')
    # random byte strings as proofs
    for i in range(chk.scale(200, 3000)):
        pf = bytearray(r.bytes(r.choice([65, 66, 73, 98, 162, 200, 323, 700])))
        if r.chance(3, 4): pf[0] &= 0x7f
        if r.chance(1, 2): pf[0] = (pf[0] & 0xe0) | r.below(19)
        if r.chance(1, 2): pf[1] = r.below(8)
        chk.add('rangeproof_verify %s %s . %s' % (obj(H), bytes(pf).hex(), obj(H)), 'verify_random_bytes')

def lib_made(chk, impl):
    """library-made proofs (signed by the implementation in a first stage) and their mutations"""
    r = chk.rng
    lines = []; meta = []
    for i in range(chk.scale(12, 150)):
        value = r.choice([0, 1, 86, r.bits(8), r.bits(16)]); minv = r.choice([0, 0, min(value, 3)])
        exp = r.choice([-1, 0, 1, 2]); mb = r.choice([0, 0, 3, 5]); blind = r.seckey(); g = r.choice([H, fmul(r.seckey(), G)])
        c = commit(blind, value, g); nonce = r.bytes(32); msg = r.bytes(r.choice([0, 5, 32])); extra = r.bytes(r.choice([0, 3]))
        if c is None: continue
        lines.append('rangeproof_sign #5134 #%d %s %s %s #%d #%d #%d %s %s %s' % (minv, obj(c), h32(blind), nonce.hex(), exp, mb, value, hx(msg) if exp >= 0 and value - minv >= 4 else '-', hx(extra), obj(g)))
        meta.append((c, g, extra, nonce))
    out = vlib.run_cases(impl, lines, (), 8)
    for (c, g, extra, nonce), o in zip(meta, out):
        f = o.split(' ')
        if f[0] != '#1': continue
        pf = bytes.fromhex(f[2])
        ex = extra.hex() if extra else '.'
        chk.add('rangeproof_verify %s %s %s %s' % (obj(c), pf.hex(), ex, obj(g)), 'lib_valid')
        for bit in [r.below(8 * len(pf)) for _ in range(3)]:
            chk.add('rangeproof_verify %s %s %s %s' % (obj(c), flip(pf, bit).hex(), ex, obj(g)), 'lib_bitflip')
        chk.add('rangeproof_verify %s %s %s %s' % (obj(c), (pf + b'\x00').hex(), ex, obj(g)), 'lib_trailing')
        chk.add('rangeproof_verify %s %s %s %s' % (obj(c), pf[:-1].hex(), ex, obj(g)), 'lib_truncated')
        chk.add('rangeproof_verify %s %s %s %s' % (obj(add(c, G)), pf.hex(), ex, obj(g)), 'lib_other_commit')
        chk.add('rangeproof_rewind %s %s %s %s %s #64' % (nonce.hex(), obj(c), pf.hex(), ex, obj(g)), 'lib_rewind')
        chk.add('rangeproof_rewind %s %s %s %s %s #64' % (nonce.hex(), obj(c), flip(pf, r.below(8 * len(pf))).hex(), ex, obj(g)), 'lib_rewind_bitflip')

def run(chk):
    impl, model, ie, me = runners(chk)
    chk.coq()
    gen(chk, impl)
    lib_made(chk, impl)
    ri, rm = chk.correspond(impl, model, 'rangeproof verification')
    acc = {}
    for (line, cls), a in zip(chk.cases, ri):
        k = '%s %s' % (cls, a.split(' ')[0]); acc[k] = acc.get(k, 0) + 1
    chk.extra['result_histogram'] = dict(sorted(acc.items()))
    # prover sanity (not a verdict): every class meant to be valid was accepted by the implementation
    for k, v in acc.items():
        if (k.startswith('adv_valid_') or k.startswith('lib_valid') or k.startswith('adv_range_max_boundary')) and k.endswith('#0'):
            chk.notes.append('NOTE: %d crafted-valid cases of class %s were rejected by the implementation' % (v, k))
