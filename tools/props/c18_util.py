"""ElligatorSwift helpers for the C18 case generator: a plain transcription of doc/ellswift.md used ONLY
to aim inputs at branches (which of x1/x2/x3 a string decodes through, which of the 8 inverse branches
succeeds, the u^3+t^2+7=0 family, r=0 / s=0 corner cases).  Never decides a verdict."""
import re
from pyec import P, N, G, mul, add, lift_x, b32, h32, sha256, tagged

C0 = 0xa2d2ba93507f1df233770c2a797962cc61f6d15da14ecd47d8d27ae1cd5f852      # sqrt(-3)
C1 = (C0 - 1) * pow(2, -1, P) % P
C2 = (-C0 - 1) * pow(2, -1, P) % P
C3 = (C2 + 1) % P
C4 = (C1 + 1) % P
assert C0 * C0 % P == P - 3 and C1 == 0x851695d49a83f8ef919bb86153cbcb16630fb68aed0a766a3ec693d68e6afa40

def is_sq(a): a %= P; return a == 0 or pow(a, (P - 1) // 2, P) == 1
def sqrt(a):
    a %= P; r = pow(a, (P + 1) // 4, P)
    return r if r * r % P == a else None
def on_curve_x(x): return is_sq(x * x * x + 7)

def xswiftec(u, t):
    """-> (x, branch) with branch in 'x3','x2','x1'; flags the remapped cases"""
    u %= P; t %= P
    if u == 0: u = 1
    if t == 0: t = 1
    if (u * u * u + t * t + 7) % P == 0: t = 2 * t % P
    X = (u * u * u + 7 - t * t) * pow(2 * t, -1, P) % P
    Y = (X + t) * pow(C0 * u, -1, P) % P
    x3 = (u + 4 * Y * Y) % P
    if on_curve_x(x3): return x3, 'x3'
    x2 = (-X * pow(Y, -1, P) - u) * pow(2, -1, P) % P
    if on_curve_x(x2): return x2, 'x2'
    x1 = (X * pow(Y, -1, P) - u) * pow(2, -1, P) % P
    return x1, 'x1'

def xswiftec_inv(x, u, c):
    x %= P; u %= P
    if c & 2 == 0:
        if on_curve_x(-x - u): return None
        d = (u * u + u * x + x * x) % P
        if d == 0: return None
        s = -(u * u * u + 7) * pow(d, -1, P) % P
        if not is_sq(s): return None
        v = x
    else:
        s = (x - u) % P
        if not is_sq(s): return None
        r = sqrt(-s * (4 * (u * u * u + 7) + 3 * u * u * s))
        if r is None: return None
        if c & 1 and r == 0: return None
        if s == 0: return None
        v = (r * pow(s, -1, P) - u) * pow(2, -1, P) % P
    w = sqrt(s)
    if c & 5 == 0: return -w * (C3 * u + v) % P
    if c & 5 == 1: return w * (C4 * u + v) % P
    if c & 5 == 4: return w * (C3 * u + v) % P
    return -w * (C4 * u + v) % P

def family_t(u):
    """t with u^3 + t^2 + 7 = 0 (both roots) or []"""
    r = sqrt(-(u * u * u + 7))
    return [] if r is None or r == 0 else [r, P - r]

def encodings(v):
    """all 32-byte encodings of a field element (v and v+p when it fits)"""
    return [v] + ([v + P] if v + P < (1 << 256) else [])

def successful_branch(pk, rnd32, tag='secp256k1_ellswift_encode', pre=None):
    """replays the PRNG of secp256k1_ellswift_encode: (branch value that succeeded, iterations)"""
    pre = pre if pre is not None else bytes([2 + (pk[1] & 1)]) + b32(pk[0]) + bytes(31) + rnd32
    cnt = 0; left = 0; pool = b''; it = 0
    while it < 4096:
        if left == 0:
            pool = tagged(tag, pre + cnt.to_bytes(4, 'little')); cnt += 1; left = 64
        left -= 1
        branch = (pool[left >> 1] >> ((left & 1) << 2)) & 7
        u = int.from_bytes(tagged(tag, pre + cnt.to_bytes(4, 'little')), 'big') % P; cnt += 1; it += 1
        if xswiftec_inv(pk[0], u, branch) is not None: return branch, it
    return None, it

def bip324_vectors(repo):
    src = open(repo + '/src/modules/ellswift/tests_impl.h').read()
    i = src.find('ellswift_xdh_tests_bip324[] = {')
    if i < 0: return []
    blk = src[i:]; blk = blk[:blk.index('\n};')]
    out = []
    for line in blk.split('\n')[1:]:
        arrs = re.findall(r'\{((?:0x[0-9a-fA-F]{2},? ?)+)\}', line); init = re.search(r'\}, (\d), \{', line)
        if len(arrs) == 4 and init:
            priv, ours, theirs, secret = [bytes(int(x, 16) for x in re.findall(r'0x([0-9a-fA-F]{2})', a)) for a in arrs]
            out.append((priv, ours, theirs, int(init.group(1)), secret))
    return out
