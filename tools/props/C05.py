"""C05 - arithmetic and hashing kernel exact on every configuration"""
import os, concurrent.futures as cf
from props.common import *
FINISH = dict(level='proof', technique='Coq theorems over Gallina REGENERATED from the C source on every run (field 5x52 mul/sqr carry chains) and over the SHA-256 streaming model; differential correspondence of every internal kernel function with its mathematical definition on a build-configuration matrix',
              trusted=TRUSTED_COMMON + ['tools/c2coq.py translator (clang AST -> Gallina), validated on every run against the compiled C function on generated inputs',
                                        'group law / scalar-multiplication algorithms, modinv, 10x26/8x32 limb code and x86-64 asm: tied by differential correspondence only (sampling)'])
CONFIGS = {
    'default':        [],
    'asm':            ['-DUSE_ASM_X86_64=1'],
    'int128_struct':  ['-DUSE_FORCE_WIDEMUL_INT128_STRUCT=1', '-DECMULT_WINDOW_SIZE=2', '-DCOMB_BLOCKS=11', '-DCOMB_TEETH=6'],
    'int64':          ['-DUSE_FORCE_WIDEMUL_INT64=1', '-DCOMB_BLOCKS=2', '-DCOMB_TEETH=5'],
    'verify':         ['-DVERIFY=1'],
    'win2_comb22k':   ['-DECMULT_WINDOW_SIZE=2', '-DCOMB_BLOCKS=11', '-DCOMB_TEETH=6', '-DUSE_ASM_X86_64=1'],
    'int64_verify':   ['-DUSE_FORCE_WIDEMUL_INT64=1', '-DVERIFY=1', '-DECMULT_WINDOW_SIZE=8'],
    'struct_asm_w10': ['-DUSE_FORCE_WIDEMUL_INT128_STRUCT=1', '-DUSE_ASM_X86_64=1', '-DECMULT_WINDOW_SIZE=10', '-DCOMB_BLOCKS=2', '-DCOMB_TEETH=5'],
}
QUICK = ['default', 'asm', 'int128_struct', 'int64', 'verify']

def nm(s): return s.encode().hex()

def limb_value(r):
    """256-bit values built limb-wise for the three limb layouts (52-, 26-, 64-, 32-bit limbs)"""
    w = r.choice([52, 26, 64, 32])
    v = 0; i = 0
    while i * w < 256:
        c = r.below(6)
        l = [0, 1, (1 << w) - 1, (1 << w) - 2, r.bits(w), 1 << (w - 1)][c]
        v |= l << (i * w); i += 1
    return v & ((1 << 256) - 1)

def carry_pair_value(r):
    """two limbs (x, y) of width w whose product lies just below 2^(2w-1) with a large low word - the shape on which
    doubled partial products (a_i*a_j*2 in squaring) wrap their high word; other limbs patterned"""
    w = r.choice([32, 64, 26, 52])
    nl = (256 + w - 1) // w
    while True:
        x = r.bits(w) | (1 << (w - 1))
        y, rem = divmod((1 << (2 * w - 1)) - 1, x)
        if rem < (1 << (w - 1)) and y < (1 << w): break
    i = r.below(nl); j = r.below(nl)
    if i == j: j = (i + 1) % nl
    limbs = [r.choice([0, (1 << w) - 1, r.bits(w), r.bits(w), 1 << (w - 1)]) for _ in range(nl)]
    limbs[i] = x; limbs[j] = y
    v = 0
    for k, l in enumerate(limbs): v |= l << (k * w)
    return v & ((1 << 256) - 1)

def fe_val(r):
    c = r.below(10)
    if c < 3: return limb_value(r)
    if c < 5: return r.choice([0, 1, 2, P - 1, P - 2, P, P + 1, (1 << 256) - 1, (1 << 256) - 2, P - (1 << 32), 977, 0x1000003D0, 0x1000003D1, 0x1000003D2, (1 << 255), (P + 1) // 2, (P - 1) // 2, N, N - 1])
    if c < 6: return (P - r.bits(r.choice([1, 8, 33, 64]))) % (1 << 256)
    return r.scalar256()
def sc_val(r):
    c = r.below(10)
    if c < 3: return limb_value(r)
    if c < 5: return r.choice(EDGE256)
    if c < 6: return (N - r.bits(r.choice([1, 8, 64, 127, 128, 129]))) % (1 << 256)
    return r.scalar256()

def gen(chk):
    r = chk.rng
    S = chk.scale
    # ---- field ----
    binops = ['mul', 'mul_alias', 'add', 'cmp', 'equal', 'cmov']
    unops = ['sqr', 'negate', 'half', 'normalize', 'normalize_var', 'normalize_weak', 'ntz', 'inv', 'sqrt', 'is_odd_zero', 'set_b32', 'storage']
    for i in range(S(2500, 60000)):
        a, b = fe_val(r), fe_val(r)
        op = r.choice(binops + unops + ['mul', 'sqr', 'normalize', 'add_int', 'mul_int'])
        ra, rb = 0, 0
        if op in ('mul', 'mul_alias', 'sqr'): ra, rb = r.below(3), r.below(3)        # magnitude <= 8 in, as the contract demands
        elif op in ('normalize', 'normalize_var', 'normalize_weak', 'ntz', 'half'): ra = r.below(10)   # up to magnitude 31
        elif op in ('add', 'negate', 'cmov'): ra, rb = r.below(5), r.below(5)
        elif op in ('inv', 'sqrt'): ra = r.below(3)
        elif op in ('mul_int',): ra = r.below(2)
        k = r.choice([0, 1, 2, 3, 7, 8]) if op == 'mul_int' else r.below(2) if op == 'cmov' else r.choice([0, 1, 7, 0x7fff, 977])
        if op == 'half' and ra > 9: ra = 9
        if op == 'equal': ra = 0
        if op == 'equal' and r.chance(1, 3): b = a
        if op == 'cmp' and r.chance(1, 4): b = (a + r.choice([0, 1, P - 1])) % (1 << 256)
        chk.add('fe_op %s %s %s #%d #%d #%d' % (nm(op), h32(a), h32(b), ra, rb, k), 'fe_' + op)
    # squaring/multiplication on operands with limb pairs whose doubled product wraps (carry of the carry)
    for i in range(S(1500, 40000)):
        a = carry_pair_value(r)
        which = r.below(4)
        if which == 0: chk.add('sc_op %s %s %s #0' % (nm('sqr'), h32(a), h32(0)), 'sc_sqr_carry_pair')
        elif which == 1: chk.add('sc_op %s %s %s #0' % (nm('mul'), h32(a), h32(a if r.chance(1, 2) else carry_pair_value(r))), 'sc_mul_carry_pair')
        elif which == 2: chk.add('fe_op %s %s %s #%d #0 #0' % (nm('sqr'), h32(a), h32(0), r.below(3)), 'fe_sqr_carry_pair')
        else: chk.add('fe_op %s %s %s #%d #%d #0' % (nm('mul'), h32(a), h32(a if r.chance(1, 2) else carry_pair_value(r)), r.below(3), r.below(3)), 'fe_mul_carry_pair')
    # modular inversion (safegcd, 62- and 30-bit signed limbs): +-2^k and c*2^(62j), c*2^(30j) - values whose intermediate g
    # has only its top limb non-zero, where the early-exit test of the variable-time version looks at the limbs
    for k in range(0, 256):
        for v in ((1 << k), -(1 << k)):
            chk.add('fe_op %s %s %s #0 #0 #0' % (nm('inv'), h32(v % P), h32(0)), 'fe_inv_power_of_two')
            chk.add('sc_op %s %s %s #0' % (nm('inverse'), h32(v % N), h32(0)), 'sc_inverse_power_of_two')
    for w in (30, 62):
        for j in range(1, 256 // w + 1):
            for c in (1, 3, 5, (1 << (w - 1)) - 1, r.bits(w - 1) | 1):
                v = (c << (w * j)) % (1 << 256)
                for sgn in (1, -1):
                    chk.add('fe_op %s %s %s #0 #0 #0' % (nm('inv'), h32((sgn * v) % P), h32(0)), 'fe_inv_top_limb_only')
                    chk.add('sc_op %s %s %s #0' % (nm('inverse'), h32((sgn * v) % N), h32(0)), 'sc_inverse_top_limb_only')
    # limb blind spots: values that differ from 0 (mod p) only in ONE limb of the 5x52 / 10x26 representation, i.e. p - d*2^(w*k):
    # a zero test or an equality that forgets limb k calls them zero / equal
    for w, nl in ((52, 5), (26, 10)):
        for k in range(nl):
            for d in (1, 2, 1 << (w - 1), (1 << w) - 1, r.bits(w) | 1):
                if d << (w * k) >= P: continue
                v = P - (d << (w * k))
                for ra in (0, 1, 3):
                    chk.add('fe_op %s %s %s #%d #0 #0' % (nm('ntz'), h32(v), h32(0), ra), 'fe_ntz_one_limb_from_zero')
                a = fe_val(r) % P; b = (a + (d << (w * k))) % P
                chk.add('fe_op %s %s %s #0 #0 #0' % (nm('equal'), h32(a), h32(b)), 'fe_equal_one_limb_apart')
                chk.add('fe_op %s %s %s #0 #0 #0' % (nm('cmp'), h32(a), h32(b)), 'fe_cmp_one_limb_apart')
    # x = 0 / sqrt of special values
    for v in (0, 1, 4, 7, P - 1, 2, 3, P - 7):
        chk.add('fe_op %s %s %s #0 #0 #0' % (nm('sqrt'), h32(v), h32(0)), 'fe_sqrt')
    # ---- scalars ----
    sops = ['set_b32', 'add', 'mul', 'sqr', 'negate', 'half', 'inverse', 'is', 'cond_negate', 'cmov', 'split_128', 'split_lambda', 'mul_shift', 'get_bits', 'cadd_bit', 'set_int']
    for i in range(S(2500, 60000)):
        a, b = sc_val(r), sc_val(r)
        op = r.choice(sops + ['mul', 'add', 'split_lambda', 'inverse'])
        k = 0
        if op in ('cond_negate', 'cmov'): k = r.below(2)
        elif op == 'mul_shift': k = r.choice([256, 257, 272, 300, 383, 384, 385, 400, 511, 512])
        elif op == 'get_bits':
            cnt = 1 + r.below(32); off = r.below(256 - cnt + 1); k = off | (cnt << 8)
        elif op == 'cadd_bit':
            bit = r.below(256); a = (a % N) & ~(((1 << 256) - 1) >> bit << bit) if False else a % N
            # precondition of the C function: no overflow past the group order's 256 bits
            if (a % N) + (1 << bit) >= N: bit = r.below(100); a = a % (1 << 200)
            k = bit | (r.below(2) << 8)
        elif op == 'set_int': k = r.choice([0, 1, 0xffffffff, r.bits(32), r.bits(64), (1 << 64) - 1])
        if op == 'is' and r.chance(1, 4): b = a
        chk.add('sc_op %s %s %s #%d' % (nm(op), h32(a), h32(b), k), 'sc_' + op)
    # ripple carries across limb boundaries (32- and 64-bit limbs): a run of ones from bit j up to bit k, plus one at bit j
    for k in (31, 32, 33, 63, 64, 65, 95, 96, 97, 127, 128, 129, 159, 160, 191, 192, 193, 223, 224, 250):
        for j in sorted(set([0, 1, max(0, k - 33), max(0, k - 64), max(0, k - 65), max(0, k - 97), max(0, k - 1)])):
            if j >= k: continue
            hi = r.bits(250 - k) << (k + 1) if k < 249 else 0
            a = (hi | ((1 << k) - (1 << j))) % N
            if a + (1 << j) < N:
                chk.add('sc_op %s %s %s #%d' % (nm('cadd_bit'), h32(a), h32(0), j | (1 << 8)), 'sc_cadd_bit_ripple')
                chk.add('sc_op %s %s %s #%d' % (nm('cadd_bit'), h32(a), h32(0), j), 'sc_cadd_bit_ripple')
            chk.add('sc_op %s %s %s #0' % (nm('add'), h32(a), h32(1 << j)), 'sc_add_ripple')
            chk.add('sc_op %s %s %s #0' % (nm('add'), h32(a), h32((N - a) % N)), 'sc_add_ripple')
    # rounding multiplication by a shift (used by the lambda split): products whose truncated quotient ends in a run of ones
    for i in range(S(300, 5000)):
        sh = r.choice([384, 384, 385, 400])
        b = r.choice([0x3086D221A7D46BCDE86C90E49284EB153DAA8A1471E8CA7FE893209A45DBB031, 0xE4437ED6010E88286F547FA90ABFE4C4221208AC9DF506C61571B4AE8AC47F71, r.bits(256)]) % N
        top = 510 - sh      # the quotient of a 512-bit product has at most this many bits
        run = r.choice([64, 65, 70, 96, top - 8])
        want = ((r.bits(top - run) << run) | ((1 << run) - 1)) << sh
        a = ((want + (1 << (sh - 1)) + (1 << 258)) // b) % N if b else 0      # a*b = target - (target mod b): the slack keeps the rounding bit set
        for d in (0, 1, -1, 2):
            chk.add('sc_op %s %s %s #%d' % (nm('mul_shift'), h32((a + d) % N), h32(b), sh), 'sc_mul_shift_rounding_run_of_ones')
    # ---- group law: all special cases ----
    pts = [mul(d, G) for d in (1, 2, 3, N - 1, N - 2, 5, r.seckey(), r.seckey(), r.seckey())]
    def zval(): return r.choice([0, 1, 2, P - 1, r.scalar256()])
    gops = ['add_var', 'add_ge', 'add_ge_var', 'add_zinv_var', 'double', 'neg', 'set_gej', 'eq', 'valid', 'mul_lambda', 'cmov', 'storage']
    for i in range(S(900, 20000)):
        A = r.choice(pts) if r.chance(1, 2) else mul(r.seckey(), G)
        c = r.below(8)
        B = A if c == 0 else neg(A) if c == 1 else None if c == 2 else r.choice(pts) if c < 5 else mul(r.seckey(), G)
        if c == 6: A = None
        if c == 7 and A is not None:   # equal x through the endomorphism-free route: same point with different z
            B = A
        op = r.choice(gops)
        if op == 'add_ge' and B is None: op = 'add_ge_var'
        chk.add('ge_op %s %s %s %s %s #%d' % (nm(op), pk_obj(A), pk_obj(B), h32(zval()), h32(zval()), r.below(2)), 'ge_' + op + ('_special' if c in (0, 1, 2, 6, 7) else ''))
    for i in range(S(60, 1000)):
        x = r.choice([q[0] for q in pts]) if r.chance(1, 2) else fe_val(r) % P
        chk.add('ge_op %s %s%s %s %s %s #%d' % (nm('set_xo'), h32(x), h32(0), '00' * 64, h32(0), h32(0), r.below(2)), 'ge_set_xo')
    for n in [0, 1, 2, 3, 8, 33] + [r.below(60) for _ in range(S(4, 40))]:
        l = [r.choice(pts + [None]) for _ in range(n)]
        chk.add('ge_set_all %s #1' % (''.join(pk_obj(q) for q in l) or '.'), 'ge_set_all_var')
        l2 = [q for q in l if q is not None]
        chk.add('ge_set_all %s #0' % (''.join(pk_obj(q) for q in l2) or '.'), 'ge_set_all')
    # points whose x coordinates differ in exactly one limb (the equal-x test of the variable-time additions must not fire)
    for w, nl in ((52, 5), (26, 10)):
        for k in range(1, nl):
            for tries in range(60):
                A = mul(r.seckey(), G); c = 1 + r.below(200)
                x2 = (A[0] + (c << (w * k))) % P
                B2 = lift_x(x2)
                if B2 is None or x2 >= P: continue
                for Bp in (B2, neg(B2)):
                    for op in ('add_var', 'add_ge_var', 'add_ge', 'add_zinv_var'):
                        chk.add('ge_op %s %s %s %s %s #0' % (nm(op), pk_obj(A), pk_obj(Bp), h32(zval() or 1), h32(zval() or 1)), 'ge_' + op + '_x_one_limb_apart')
                break
    # ---- scalar multiplication ----
    kvals = [0, 1, 2, N - 1, N - 2, N, (1 << 128), (1 << 128) - 1, (1 << 127), LAMBDA, N - LAMBDA, (1 << 255), N // 2, N // 2 + 1,
             0xe4437ed6010e88286f547fa90abfe4c3, 0x3086d221a7d46bcde86c90e49284eb15]
    # scalars whose lambda-split quotients k*g1 >> 384 or k*g2 >> 384 end in a run of ones with the rounding bit set (the
    # round-to-nearest increment then carries across limbs)
    G1, G2 = 0x3086D221A7D46BCDE86C90E49284EB153DAA8A1471E8CA7FE893209A45DBB031, 0xE4437ED6010E88286F547FA90ABFE4C4221208AC9DF506C61571B4AE8AC47F71
    for i in range(S(20, 300)):
        b = r.choice([G1, G2]); run = r.choice([64, 65, 70, 96, 118])
        want = ((r.bits(126 - run) << run) | ((1 << run) - 1)) << 384
        k = (want + (1 << 383) + (1 << 258)) // b
        if 0 < k < N:
            kvals.append(k)
            chk.add('sc_op %s %s %s #0' % (nm('split_lambda'), h32(k), h32(0)), 'sc_split_lambda_rounding_carry')
    def kv(): return r.choice(kvals) if r.chance(1, 3) else sc_val(r)
    for i in range(S(220, 6000)):
        A = r.choice(pts + [None]) if r.chance(1, 2) else mul(r.seckey(), G)
        form = r.below(4)
        na = '-' if form == 3 else h32(kv()); ng = '-' if form == 2 else h32(kv())
        chk.add('ecmult %s %s %s %s' % (pk_obj(A), na, ng, h32(zval()) if r.chance(1, 2) else '-'), 'ecmult')
    for i in range(S(150, 4000)): chk.add('ecmult_gen %s' % h32(kv()), 'ecmult_gen')
    for i in range(S(150, 4000)):
        A = r.choice(pts) if r.chance(1, 2) else mul(r.seckey(), G)
        chk.add('ecmult_const %s %s' % (pk_obj(A), h32(kv())), 'ecmult_const')
    for i in range(S(150, 3000)):
        A = mul(r.seckey(), G); k = kv()
        if k % N == 0: k = 1
        if r.chance(1, 2):
            d = r.scalar256() % P or 1; xn = A[0] * d % P
            chk.add('ecmult_const_xonly %s %s %s #%d' % (h32(xn), h32(d), h32(k), r.below(2)), 'ecmult_const_xonly_frac')
        else:
            x = A[0] if r.chance(3, 4) else fe_val(r) % P
            chk.add('ecmult_const_xonly %s - %s #0' % (h32(x), h32(k)), 'ecmult_const_xonly')
    # multi-scalar: batch sizes 0..~300, every algorithm, scratch sizes from 0 up
    sizes = [0, 1, 2, 3, 4, 5, 8, 16, 31, 32, 33, 64, 87, 88, 89, 100, 150, 300] if not chk.quick() else [0, 1, 2, 3, 5, 17, 33, 88, 120]
    for n in sizes:
        for rep in range(S(2, 6)):
            P_ = []; K_ = []
            for j in range(n):
                c = r.below(10)
                q = None if c == 0 else r.choice(pts) if c < 4 else mul(r.seckey(), G)
                P_.append(q); K_.append(kv())
            if n >= 2 and r.chance(1, 3): P_[1] = neg(P_[0]) if P_[0] else None; K_[1] = K_[0]
            pw = ''.join(pk_obj(q) for q in P_) or '.'; kw = ''.join(h32(k) for k in K_) or '.'
            ng = '-' if r.chance(1, 3) else h32(kv())
            for algo, scr in [(0, -1), (0, 0), (0, 100), (0, 1000), (0, 5000), (0, 200000), (1, 2000000), (2, 2000000), (3, -1)]:
                if algo == 2 and n == 0: continue
                chk.add('ecmult_multi #%d #%d %s %s %s' % (algo, scr, ng, pw, kw), 'ecmult_multi_algo%d' % algo)
    for i in range(S(150, 3000)):
        chk.add('wnaf %s #%d' % (h32(kv()), r.choice(range(2, 25))), 'wnaf')
    # ---- hashing: every length to 300 (quick: all lengths, one split each), sampled to 2^20; arbitrary write splits ----
    lens = list(range(0, 301)) + [511, 512, 513, 1000, 1001, 1023, 1024, 1025, 4096, 10000, 65535, 65536] + ([1 << 20] if not chk.quick() else [])
    for L in lens:
        data = r.bytes(L)
        ncut = r.below(6)
        cuts = sorted(r.below(L + 1) for _ in range(ncut))
        if r.chance(1, 3): cuts = sorted(set(cuts + [c for c in (55, 56, 63, 64, 65, 119, 120, 127, 128) if c <= L]))
        chk.add('sha256_chunks %s %s' % (hx(data), ' '.join('#%d' % c for c in cuts)), 'sha256_chunks')
    for i in range(S(60, 2000)):
        L = r.below(200); data = r.bytes(L); cuts = sorted(r.below(L + 1) for _ in range(r.below(5)))
        chk.add('sha256_chunks %s %s' % (hx(data), ' '.join('#%d' % c for c in cuts)), 'sha256_chunks_small')
        key = r.bytes(r.choice([0, 1, 31, 32, 63, 64, 65, 100, 200]))
        chk.add('hmac_chunks %s %s %s' % (hx(key), hx(data), ' '.join('#%d' % c for c in cuts)), 'hmac')
        seed = r.bytes(r.choice([0, 32, 64, 96, 112]))
        chk.add('rfc6979_multi %s %s' % (hx(seed), ' '.join('#%d' % r.choice([0, 1, 31, 32, 33, 64, 65, 100]) for _ in range(1 + r.below(4)))), 'rfc6979')
        tag = r.bytes(r.below(70)); chk.add('sha256_midstate %s %s' % (hx(tag), hx(data)), 'tagged')
        chk.add('tagged_sha256 %s %s' % (hx(tag) , hx(data)), 'tagged_api')
    for L in (999, 1000, 1001, 2000, 5000):
        chk.add('tagged_sha256 %s %s' % (hx(r.bytes(5)), hx(r.bytes(L))), 'tagged_api_long')

def runners(chk):
    impl = vlib.build_impl(chk.dir, name='impl_default')
    return impl, vlib.ensure_model('kernel'), (), ()

def run(chk):
    import kernel_gen
    model = vlib.ensure_model('kernel'); core = vlib.ensure_model('core')
    names = QUICK if chk.quick() else list(CONFIGS)
    # every cell of the configuration matrix is built from the current tree
    with cf.ThreadPoolExecutor(max_workers=8) as ex:
        futs = {c: ex.submit(vlib.build_impl, chk.dir, 'impl_' + c, CONFIGS[c]) for c in names}
        impls = {}
        for c, f in futs.items():
            try: impls[c] = f.result()
            except vlib.BuildError as e:
                chk.obligation('configuration %s builds' % c, False, str(e))
    kernel_gen.kernel_obligations(chk)          # translator tie: regenerate Gen/*.v, re-check Kernel proofs, validate translator
    chk.coq()
    gen(chk)
    kcases = [c for c in chk.cases if not c[0].startswith('tagged_sha256')]
    ccases = [c for c in chk.cases if c[0].startswith('tagged_sha256')]
    first = True
    for c in names:
        if c not in impls: continue
        sub = kcases if (first or not chk.quick()) else [x for i, x in enumerate(kcases) if i % 3 == 0]
        chk.correspond(impls[c], model, 'kernel ops, configuration ' + c, cases=sub)
        chk.correspond(impls[c], core, 'tagged hash api, configuration ' + c, cases=ccases)
        first = False
    chk.extra['configurations'] = {c: CONFIGS[c] for c in names}
