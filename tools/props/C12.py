"""C12 - MuSig2 computes BIP-327 (DESIGN.md section 5, C12).
Every case line is ONE call of the public musig API; its inputs (caches, nonces, sessions, partial
signatures of honest or adversarial sessions) are crafted with the independent Python transcription
of BIP-327 in c12_util.py.  The verdict is the comparison implementation vs extracted Coq model."""
from props.common import *
from props.c12_util import *
FINISH = dict(level='proof', technique='Coq theorems about the executable MuSig2 model (Properties_C12.v: hash-input layout incl. the full 64-bit counter; key aggregation, tweak accumulators for any tweak sequence, nonce generation / aggregation, session values, partial signing and aggregation equal the BIP-327 transcription Spec/Bip327.v; parser acceptance sets; adapt/extract inverse; honest partial signatures verify [MathFacts]) + differential correspondence of every public musig function with the model on honest and adversarial sessions',
              trusted=TRUSTED_COMMON + ['honest_partial_sig_verifies and cbytes_injective_on_curve assume MathFacts (group law, p and n prime); validity of the AGGREGATE signature of an honest session under BIP-340 (honest_session_valid), partial_verify_eq_spec and the accumulator invariant are NOT proved: observed on every generated honest session on both sides',
                                        'the Python BIP-327 transcription tools/props/c12_util.py only crafts inputs; a defect there can only weaken the case classes (class counts and the expected-accept counters are in the evidence)'])

def runners(chk):
    impl = vlib.build_impl(chk.dir)
    model = vlib.ensure_model('musig')
    return impl, model, (), ()

H = lambda b: b.hex() if b else '.'
O = lambda b: '-' if b is None else b.hex()

def odd_tweak(r, ctx, xonly, want_odd):
    """a tweak after which the aggregate key has the requested y parity (so that x-only steps flip / do not flip)"""
    for _ in range(64):
        t = r.seckey(); c = apply_tweak(ctx, t, xonly)
        if c is not None and (c['Q'][1] & 1) == int(want_odd): return t, c
    return t, c

def key_list(r, n, shape):
    ds = [r.seckey() for _ in range(n)]
    if shape == 'first_repeated' and n > 1:
        for i in range(1, n):
            if r.chance(1, 2): ds[i] = ds[0]
    elif shape == 'all_equal': ds = [ds[0]] * n
    elif shape == 'second_dup' and n > 2:
        ds[1] = ds[0]; ds[-1] = ds[2] if n > 3 else ds[-1]
    elif shape == 'neg_first' and n > 1: ds[1] = N - ds[0]
    pks = [fmul(d, G) for d in ds]
    if shape == 'sorted':
        o = sorted(range(n), key=lambda i: ser33(pks[i])); ds = [ds[i] for i in o]; pks = [pks[i] for i in o]
    return ds, pks

def honest_session(chk, r, n, shape, ntweak, flip, entry, adaptor, cancel, nonce_first, nverify, tag):
    """emit the API calls of one complete honest session; returns the (line index, expectation) pairs"""
    exp = []
    def add(line, cls, want=None):
        if want is not None: exp.append((len(chk.cases), want, cls))
        chk.add(line, tag + cls)
    ds, pks = key_list(r, n, shape)
    msg = r.bytes(32)
    ctx = keyagg(pks)
    add('musig_pubkey_agg %s #%d #1' % (''.join(pt64(q).hex() for q in pks), r.below(2)), 'keyagg', '#1')
    ctx0 = ctx
    for j in range(ntweak):
        xonly = r.chance(1, 2) if not flip else (j % 2 == 0 or r.chance(1, 2))
        if flip: t, c2 = odd_tweak(r, ctx, xonly, True)     # next x-only tweak will have to negate again
        else: t = r.seckey(); c2 = apply_tweak(ctx, t, xonly)
        add('musig_pubkey_%s_tweak_add %s %s #%d' % ('xonly' if xonly else 'ec', cache_canon(ctx).hex(), h32(t), r.below(2)), 'tweak', '#1')
        if c2 is None: break
        ctx = c2
    cache_for_nonce = ctx0 if nonce_first else ctx        # nonces may be generated before the tweaks / before aggregation
    secs = []; pubs = []
    for i in range(n):
        if cancel and i == n - 1 and n >= 2:
            # the last signer's nonce is crafted so that a component of the aggregate cancels to infinity
            ka = (N - sum(x[0] for x in secs)) % N if cancel in ('first', 'both') else r.seckey()
            kb = (N - sum(x[1] for x in secs)) % N if cancel in ('second', 'both') else r.seckey()
            if ka == 0 or kb == 0: return exp
            secs.append((ka, kb))
        else:
            use_sk = r.chance(3, 4); use_msg = r.chance(1, 2); use_cache = (not nonce_first) or r.chance(1, 2); use_extra = r.chance(1, 2)
            extra = r.bytes(32) if use_extra else None
            c = cache_canon(cache_for_nonce) if use_cache else None
            aggx = b32(cache_for_nonce['Q'][0]) if use_cache else None
            if entry == 'counter' or (entry == 'mixed' and i % 2):
                cnt = r.choice([0, 1, (1 << 32) - 1, 1 << 32, (1 << 32) + 1, (1 << 63), (1 << 64) - 1, r.bits(64)])
                k = nonce_hash_k(cnt.to_bytes(8, 'big') + bytes(24), b32(ds[i]), pks[i], aggx, msg if use_msg else None, extra)
                add('musig_nonce_gen_counter #1 #1 #%d %s %s %s %s' % (cnt, kp_canon(ds[i]).hex(), O(msg if use_msg else None), O(c), O(extra)), 'nonce_gen_counter', '#1')
            else:
                rand = r.bytes(32)
                k = nonce_hash_k(rand, b32(ds[i]) if use_sk else None, pks[i], aggx, msg if use_msg else None, extra)
                add('musig_nonce_gen #1 #1 %s %s %s %s %s %s' % (rand.hex(), O(b32(ds[i]) if use_sk else None), pt64(pks[i]).hex(), O(msg if use_msg else None), O(c), O(extra)), 'nonce_gen', '#1')
            secs.append((k[0], k[1]))
        pubs.append((fmul(secs[i][0], G), fmul(secs[i][1], G)))
    add('musig_nonce_agg ' + ''.join(pubnonce_canon(*p).hex() for p in pubs), 'nonce_agg', '#1')
    agg = nonce_agg(pubs)
    if cancel:
        chk.extra.setdefault('aggnonce_infinity_components', [0, 0])
        chk.extra['aggnonce_infinity_components'][0] += agg[0] is None; chk.extra['aggnonce_infinity_components'][1] += agg[1] is None
    ser = ext33(agg[0]) + ext33(agg[1])
    add('musig_aggnonce_parse ' + ser.hex(), 'aggnonce_parse', '#1')
    add('musig_aggnonce_serialize ' + aggnonce_canon(*agg).hex(), 'aggnonce_serialize', '#1')
    T = None; tsec = None
    if adaptor:
        tsec = r.seckey(); T = fmul(tsec, G)
        if adaptor == 'cancel' and agg[0] is not None: tsec = None; T = neg(agg[0])     # R1 + T = infinity (secret unknown: no adapt step)
    add('musig_nonce_process %s %s %s %s' % (aggnonce_canon(*agg).hex(), msg.hex(), cache_canon(ctx).hex(), O(pt64(T) if T else None)), 'nonce_process', '#1')
    s = nonce_process(ctx, agg, msg, T)
    sess = session_canon(s)
    add('musig_nonce_parity ' + sess.hex(), 'nonce_parity', '#1')
    sigs = []
    for i in range(n):
        sn = secnonce_canon(secs[i][0], secs[i][1], pks[i])
        add('musig_partial_sign %s #1 %s %s %s' % (sn.hex(), kp_canon(ds[i]).hex(), cache_canon(ctx).hex(), sess.hex()), 'partial_sign', '#1')
        sigs.append(partial_sign(secs[i][0], secs[i][1], ds[i], pks[i], ctx, s))
    order = list(range(n)); r.shuffle(order)
    for i in order[:nverify]:
        add('musig_partial_sig_verify %s %s %s %s %s' % (psig_canon(sigs[i]).hex(), pubnonce_canon(*pubs[i]).hex(), pt64(pks[i]).hex(), cache_canon(ctx).hex(), sess.hex()), 'partial_verify_own', '#1')
    # fails for any other key, nonce or session
    if n >= 2:
        i, j = order[0], order[1]
        if pks[i] != pks[j]:
            add('musig_partial_sig_verify %s %s %s %s %s' % (psig_canon(sigs[i]).hex(), pubnonce_canon(*pubs[i]).hex(), pt64(pks[j]).hex(), cache_canon(ctx).hex(), sess.hex()), 'partial_verify_other_key', '#0')
        if pubs[i] != pubs[j] and sigs[i] != sigs[j]:
            add('musig_partial_sig_verify %s %s %s %s %s' % (psig_canon(sigs[i]).hex(), pubnonce_canon(*pubs[j]).hex(), pt64(pks[i]).hex(), cache_canon(ctx).hex(), sess.hex()), 'partial_verify_other_nonce', '#0')
    s2 = nonce_process(ctx, agg, r.bytes(32), T)
    add('musig_partial_sig_verify %s %s %s %s %s' % (psig_canon(sigs[0]).hex(), pubnonce_canon(*pubs[0]).hex(), pt64(pks[0]).hex(), cache_canon(ctx).hex(), session_canon(s2).hex()), 'partial_verify_other_session', '#0')
    add('musig_partial_sig_agg %s %s' % (sess.hex(), ''.join(psig_canon(x).hex() for x in sigs)), 'partial_sig_agg', '#1')
    pre = partial_agg(s, sigs)
    X = xonly_obj(ctx['Q']).hex()
    ok = '#0' if s['inf'] else '#1'      # final nonce at infinity: G is substituted, the session goes on but cannot produce a valid signature (BIP-327)
    if s['inf']: tag += 'finalinf_'
    if T is None:
        add('schnorrsig_verify %s %s %s' % (pre.hex(), msg.hex(), X), 'aggregate_bip340_verify', ok)
    else:
        add('schnorrsig_verify %s %s %s' % (pre.hex(), msg.hex(), X), 'presig_is_not_a_signature', '#0')
        if tsec is not None:
            add('musig_adapt %s %s #%d' % (pre.hex(), h32(tsec), s['par']), 'adapt', '#1')
            tt = (N - tsec) if s['par'] else tsec
            final = pre[:32] + b32((int.from_bytes(pre[32:], 'big') + tt) % N)
            add('schnorrsig_verify %s %s %s' % (final.hex(), msg.hex(), X), 'adapted_bip340_verify', ok)
            add('musig_extract_adaptor %s %s #%d' % (final.hex(), pre.hex(), s['par']), 'extract_adaptor', '#1 ' + h32(tsec))
            add('musig_extract_adaptor %s %s #%d' % (final.hex(), pre.hex(), 1 - s['par']), 'extract_adaptor_wrong_parity', '#1 ' + h32(N - tsec))
    return exp

def gen(chk):
    r = chk.rng
    expect = []
    quick = chk.quick()
    # ---------------------------------------------------------------- honest sessions, signer counts 1..16
    shapes = ['random', 'first_repeated', 'all_equal', 'sorted', 'second_dup', 'neg_first']
    reps = chk.scale(2, 8)
    for rep in range(reps):
        for n in range(1, 17):
            shape = shapes[(n + rep) % len(shapes)]
            ntweak = (n + rep) % 7
            expect += honest_session(chk, r, n, shape, ntweak, flip=(n % 2 == 0), entry=['gen', 'counter', 'mixed'][(n + rep) % 3],
                                     adaptor=[None, 'plain'][(n // 2 + rep) % 2], cancel=None, nonce_first=(n % 3 == 0),
                                     nverify=min(n, chk.scale(3, 16)), tag='honest_')
    # tweak sequences of every length 0..6 flipping parity at every step, 2 signers
    for nt in range(0, 7):
        for rep in range(chk.scale(1, 4)):
            expect += honest_session(chk, r, 2, 'random', nt, flip=True, entry='gen', adaptor=None, cancel=None, nonce_first=False, nverify=1, tag='tweakflip_')
    # ---------------------------------------------------------------- aggregate nonce with a component at infinity
    for cancel in ('first', 'second', 'both'):
        for n in (2, 3, 5):
            for adaptor in (None, 'plain', 'cancel'):
                if quick and n == 5 and adaptor == 'cancel': continue
                expect += honest_session(chk, r, n, 'random', r.below(3), flip=False, entry='gen', adaptor=adaptor, cancel=cancel,
                                         nonce_first=False, nverify=2, tag='inf_%s_' % cancel)
    gen_edges(chk, r)
    return expect

def gen_edges(chk, r):
    quick = chk.quick()
    ds = [r.seckey() for _ in range(4)]; pks = [fmul(d, G) for d in ds]
    A, Bk, Ck = pks[0], pks[1], pks[2]
    msg = r.bytes(32)
    P64 = lambda l: ''.join(pt64(q).hex() for q in l)
    # ---------------------------------------------------------------- key aggregation: second-key shortcut, duplicates, invalid objects
    for l in ([A], [A, A], [A, A, A], [A, Bk], [Bk, A], [A, A, Bk], [A, Bk, A], [A, Bk, Bk], [A, Bk, Ck, Bk, A], [A, neg(A)], [A, neg(Bk)], [A, neg(A), Bk],
              [A, A, A, Bk, Bk, Ck], [Ck, Bk, A, A]):
        for wa, wc in ((1, 1), (0, 1), (1, 0), (0, 0)):
            chk.add('musig_pubkey_agg %s #%d #%d' % (P64(l), wa, wc), 'keyagg_duplicates')
    chk.add('musig_pubkey_agg . #1 #1', 'keyagg_argcheck'); chk.add('musig_pubkey_agg - #1 #1', 'keyagg_argcheck')
    Z = None
    for l in ([Z], [A, Z], [Z, A], [A, A, Z], [A, Bk, Z], [Z, Z], [A, Z, Bk], [Z, Z, A]):
        chk.add('musig_pubkey_agg %s #1 #1' % P64(l), 'keyagg_invalid_object')
    for n in (chk.scale([17, 32], [17, 32, 64, 100])):
        l = [fmul(r.seckey(), G) for _ in range(n)]
        chk.add('musig_pubkey_agg %s #1 #1' % P64(l), 'keyagg_many')
    ctx = keyagg([A, Bk, Ck]); c = cache_canon(ctx)
    bad = bytes([c[0] ^ 1]) + c[1:]
    for cc in (c, bad, bytes(197), None):
        chk.add('musig_pubkey_get %s #1' % O(cc), 'pubkey_get'); chk.add('musig_pubkey_get %s #0' % O(cc), 'pubkey_get')
    # cache with parity byte carrying junk in the upper bits: only bit 0 counts
    ctxo = apply_tweak(ctx, 1, True)
    # ---------------------------------------------------------------- tweaks: boundary scalars, infinity, bad objects
    for t in (0, 1, N - 1, N, N + 1, (1 << 256) - 1):
        for xo in ('ec', 'xonly'):
            chk.add('musig_pubkey_%s_tweak_add %s %s #1' % (xo, c.hex(), h32(t)), 'tweak_boundary')
    for xo in ('ec', 'xonly'):
        chk.add('musig_pubkey_%s_tweak_add %s %s #1' % (xo, bad.hex(), h32(5)), 'tweak_bad_cache')
        chk.add('musig_pubkey_%s_tweak_add - %s #1' % (xo, h32(5)), 'tweak_null'); chk.add('musig_pubkey_%s_tweak_add %s - #1' % (xo, c.hex()), 'tweak_null')
        chk.add('musig_pubkey_%s_tweak_add %s %s #0' % (xo, c.hex(), h32(5)), 'tweak_null_output')
    # single signer: Q = a*d*G, so the tweak that sends Q (or -Q for the x-only odd case) to infinity is known
    for i in range(chk.scale(4, 20)):
        d = r.seckey(); pk = fmul(d, G); c1 = keyagg([pk]); a = keyagg_coef(c1['L'], pk, None); q = a * d % N
        for t in ((N - q) % N, q):
            for xo in ('ec', 'xonly'):
                chk.add('musig_pubkey_%s_tweak_add %s %s #1' % (xo, cache_canon(c1).hex(), h32(t)), 'tweak_to_infinity')
    # long tweak sequences (0..6 and beyond) are in the sessions; here accumulate 12 steps and replay each from its cache
    cx = ctx
    for j in range(chk.scale(12, 40)):
        xonly = (j % 3 != 1); t, c2 = odd_tweak(r, cx, xonly, j % 2 == 0)
        chk.add('musig_pubkey_%s_tweak_add %s %s #1' % ('xonly' if xonly else 'ec', cache_canon(cx).hex(), h32(t)), 'tweak_chain')
        if c2 is None: break
        cx = c2
    # ---------------------------------------------------------------- nonce_gen: optional arguments, failures, counter range
    rand = r.bytes(32)
    for mask in range(16):
        sk = b32(ds[0]) if mask & 1 else None; m = msg if mask & 2 else None; cc = c if mask & 4 else None; ex = r.bytes(32) if mask & 8 else None
        chk.add('musig_nonce_gen #1 #1 %s %s %s %s %s %s' % (rand.hex(), O(sk), pt64(A).hex(), O(m), O(cc), O(ex)), 'nonce_gen_optional_args')
        chk.add('musig_nonce_gen_counter #1 #1 #%d %s %s %s %s' % (r.bits(64), kp_canon(ds[0]).hex(), O(m), O(cc), O(ex)), 'nonce_gen_counter_optional_args')
    for sk in (0, N, N + 1, (1 << 256) - 1, N - 1, 1):
        chk.add('musig_nonce_gen #1 #1 %s %s %s %s - -' % (rand.hex(), h32(sk), pt64(A).hex(), msg.hex()), 'nonce_gen_seckey_boundary')
        chk.add('musig_nonce_gen_counter #1 #1 #7 %s %s - -' % ((b32(sk) + pt64(A)).hex(), msg.hex()), 'nonce_gen_counter_seckey_boundary')
    chk.add('musig_nonce_gen #1 #1 %s %s %s - - -' % ('00' * 32, h32(ds[0]), pt64(A).hex()), 'nonce_gen_zero_rand')
    chk.add('musig_nonce_gen #1 #1 %s - %s - - -' % ('00' * 31 + '01', pt64(A).hex()), 'nonce_gen_min_rand')
    chk.add('musig_nonce_gen #0 #1 %s - %s - - -' % (rand.hex(), pt64(A).hex()), 'nonce_gen_null')
    chk.add('musig_nonce_gen #1 #0 %s - %s - - -' % (rand.hex(), pt64(A).hex()), 'nonce_gen_null')
    chk.add('musig_nonce_gen #1 #1 - - %s - - -' % pt64(A).hex(), 'nonce_gen_null')
    chk.add('musig_nonce_gen #1 #1 %s - - - - -' % rand.hex(), 'nonce_gen_null')
    chk.add('musig_nonce_gen #1 #1 %s - %s - - -' % (rand.hex(), '00' * 64), 'nonce_gen_bad_pubkey')
    chk.add('musig_nonce_gen #1 #1 %s - %s - %s -' % (rand.hex(), pt64(A).hex(), bad.hex()), 'nonce_gen_bad_cache')
    chk.add('musig_nonce_gen #1 #1 %s %s %s - %s -' % (rand.hex(), h32(0), pt64(A).hex(), bad.hex()), 'nonce_gen_bad_cache')
    chk.add('musig_nonce_gen_counter #0 #1 #1 %s - - -' % kp_canon(ds[0]).hex(), 'nonce_gen_counter_null')
    chk.add('musig_nonce_gen_counter #1 #0 #1 %s - - -' % kp_canon(ds[0]).hex(), 'nonce_gen_counter_null')
    chk.add('musig_nonce_gen_counter #1 #1 #1 - - - -', 'nonce_gen_counter_null')
    chk.add('musig_nonce_gen_counter #1 #1 #1 %s - - -' % (b32(ds[0]) + bytes(64)).hex(), 'nonce_gen_counter_bad_keypair')
    chk.add('musig_nonce_gen_counter #1 #1 #1 %s - %s -' % (kp_canon(ds[0]).hex(), bad.hex()), 'nonce_gen_counter_bad_cache')
    # the full 64-bit counter enters the hash: c and c + 2^32 (and other pairs equal in the low / high half) must differ
    cnts = [0, 1, 2, 0xffffffff, 1 << 32, (1 << 32) + 1, (1 << 32) + 2, 1 << 33, 1 << 40, 1 << 48, 1 << 56, (1 << 63), (1 << 63) + 1, (1 << 64) - 1, (1 << 64) - (1 << 32), 0xffffffff00000001]
    for i in range(chk.scale(6, 60)):
        lo = r.bits(32); hi = r.bits(32) | 1
        cnts += [lo, lo + (hi << 32), lo + (1 << 32)]
    kpA = kp_canon(ds[0]).hex()
    for cn in cnts:
        chk.add('musig_nonce_gen_counter #1 #1 #%d %s %s %s -' % (cn, kpA, msg.hex(), c.hex()), 'nonce_gen_counter_range')
    # ---------------------------------------------------------------- parsers and serialisers
    R1 = fmul(r.seckey(), G); R2 = fmul(r.seckey(), G)
    good = [ser33(R1), ser33(R2), ser33(neg(R1)), ser33(G)]
    x_off = next(x for x in range(2, 1000) if lift_x(x) is None)
    badhalf = [bytes(33), b'\x02' + b32(P), b'\x02' + b32(P + 1 if P + 1 < (1 << 256) else P), b'\x03' + b32((1 << 256) - 1), b'\x02' + b32(x_off), b'\x03' + b32(x_off), b'\x02' + bytes(32), b'\x03' + bytes(32)] + \
              [bytes([t]) + b32(R1[0]) for t in (0, 1, 4, 5, 6, 7, 0x82, 0xff)] + [b'\x00' + b32(1), bytes(32) + b'\x01']
    for a in good[:2] + badhalf:
        for b in good[1:3] + badhalf[:4]:
            chk.add('musig_pubnonce_parse ' + (a + b).hex(), 'pubnonce_parse'); chk.add('musig_aggnonce_parse ' + (a + b).hex(), 'aggnonce_parse_edge')
            chk.add('musig_pubnonce_parse ' + (b + a).hex(), 'pubnonce_parse'); chk.add('musig_aggnonce_parse ' + (b + a).hex(), 'aggnonce_parse_edge')
    pn = pubnonce_canon(R1, R2); an = aggnonce_canon(R1, None); an2 = aggnonce_canon(None, R2); an3 = aggnonce_canon(None, None)
    for o in (pn, an, an2, an3, aggnonce_canon(R1, R2), bytes(132), bytes([pn[0] ^ 0x80]) + pn[1:]):
        chk.add('musig_pubnonce_serialize ' + o.hex(), 'pubnonce_serialize' if o[:4] == MAGIC_PUBNONCE else 'pubnonce_serialize_bad_magic')
        chk.add('musig_aggnonce_serialize ' + o.hex(), 'aggnonce_serialize_edge' if o[:4] == MAGIC_AGGNONCE else 'aggnonce_serialize_bad_magic')
    for v in (0, 1, N - 1, N, N + 1, (1 << 256) - 1, r.seckey(), N // 2):
        chk.add('musig_partial_sig_parse ' + h32(v), 'partial_sig_parse')
        chk.add('musig_partial_sig_serialize ' + psig_canon(v % N).hex(), 'partial_sig_serialize')
    chk.add('musig_partial_sig_serialize ' + psig_canon(5, MAGIC_SESSION).hex(), 'partial_sig_serialize_bad_magic'); chk.add('musig_partial_sig_serialize ' + '00' * 36, 'partial_sig_serialize_bad_magic')
    # ---------------------------------------------------------------- nonce_agg / nonce_process argument failures, infinity encodings fed directly
    chk.add('musig_nonce_agg .', 'nonce_agg_argcheck'); chk.add('musig_nonce_agg -', 'nonce_agg_argcheck')
    chk.add('musig_nonce_agg ' + (pn + an).hex(), 'nonce_agg_bad_magic'); chk.add('musig_nonce_agg ' + (bytes(132) + pn).hex(), 'nonce_agg_bad_magic')
    chk.add('musig_nonce_agg ' + (pn + pubnonce_canon(neg(R1), neg(R2))).hex(), 'nonce_agg_cancel_both')
    chk.add('musig_nonce_agg ' + (pn + pn).hex(), 'nonce_agg_doubling'); chk.add('musig_nonce_agg ' + (pn * 3 + pubnonce_canon(neg(R1), R2)).hex(), 'nonce_agg_doubling')
    T = fmul(r.seckey(), G)
    for a in (an, an2, an3, aggnonce_canon(R1, R2), aggnonce_canon(R1, R1), aggnonce_canon(R1, neg(R1))):
        for ad in (None, pt64(T), pt64(neg(R1)), pt64(R1)):
            for cc in (ctx, ctxo):
                chk.add('musig_nonce_process %s %s %s %s' % (a.hex(), msg.hex(), cache_canon(cc).hex(), O(ad)), 'nonce_process_infinity_forms')
    chk.add('musig_nonce_process %s %s %s %s' % (an.hex(), msg.hex(), c.hex(), '00' * 64), 'nonce_process_bad_adaptor')
    chk.add('musig_nonce_process %s %s %s -' % (pn.hex(), msg.hex(), c.hex()), 'nonce_process_bad_magic'); chk.add('musig_nonce_process %s %s %s -' % (an.hex(), msg.hex(), bad.hex()), 'nonce_process_bad_magic')
    chk.add('musig_nonce_process - %s %s -' % (msg.hex(), c.hex()), 'nonce_process_null'); chk.add('musig_nonce_process %s - %s -' % (an.hex(), c.hex()), 'nonce_process_null'); chk.add('musig_nonce_process %s %s - -' % (an.hex(), msg.hex()), 'nonce_process_null')
    # ---------------------------------------------------------------- partial_sign / verify / agg: object and argument failures
    ct = apply_tweak(apply_tweak(ctx, r.seckey(), True), r.seckey(), False)
    k1, k2 = r.seckey(), r.seckey(); pubs = (fmul(k1, G), fmul(k2, G))
    agg = nonce_agg([pubs, (R1, R2)])
    s = nonce_process(ct, agg, msg); sess = session_canon(s); cch = cache_canon(ct)
    sn = secnonce_canon(k1, k2, A); kp = kp_canon(ds[0])
    sig = partial_sign(k1, k2, ds[0], A, ct, s); ps = psig_canon(sig)
    for par in (0, 1, 2, 0x80, 0xff):                       # the session's parity byte is used as a truth value
        se2 = sess[:4] + bytes([par]) + sess[5:]
        chk.add('musig_partial_sign %s #1 %s %s %s' % (sn.hex(), kp.hex(), cch.hex(), se2.hex()), 'partial_sign_parity_byte')
        chk.add('musig_nonce_parity ' + se2.hex(), 'nonce_parity_byte')
        chk.add('musig_partial_sig_verify %s %s %s %s %s' % (ps.hex(), pubnonce_canon(*pubs).hex(), pt64(A).hex(), cch.hex(), se2.hex()), 'partial_verify_parity_byte')
    for pb in (0, 1, 2, 3, 0xfe, 0xff):                     # the cache's parity byte: only bit 0 counts
        c2 = cch[:164] + bytes([pb]) + cch[165:]
        chk.add('musig_partial_sign %s #1 %s %s %s' % (sn.hex(), kp.hex(), c2.hex(), sess.hex()), 'partial_sign_cache_parity_byte')
        chk.add('musig_partial_sig_verify %s %s %s %s %s' % (ps.hex(), pubnonce_canon(*pubs).hex(), pt64(A).hex(), c2.hex(), sess.hex()), 'partial_verify_cache_parity_byte')
        chk.add('musig_pubkey_xonly_tweak_add %s %s #1' % (c2.hex(), h32(3)), 'tweak_cache_parity_byte')
    kpn = b32(N - ds[0]) + pt64(neg(A))
    for kk, cls in ((kp_canon(ds[1]), 'wrong_keypair'), (kpn, 'negated_keypair'), (b32(ds[0]) + pt64(neg(A)), 'keypair_pub_negated_only'), (bytes(96), 'zero_keypair'),
                    (bytes(32) + pt64(A), 'keypair_zero_seckey'), (b32(N) + pt64(A), 'keypair_seckey_n'), (b32(ds[0]) + bytes(64), 'keypair_zero_pubkey'), (None, 'null_keypair')):
        chk.add('musig_partial_sign %s #1 %s %s %s' % (sn.hex(), O(kk), cch.hex(), sess.hex()), 'partial_sign_' + cls)
    for snx, cls in ((bytes(132), 'zero_secnonce'), (secnonce_canon(k1, k2, A, MAGIC_PUBNONCE), 'foreign_magic'), (secnonce_canon(0, 0, A), 'zero_k'), (secnonce_canon(0, k2, A), 'k1_zero_only'),
                     (secnonce_canon(k1, 0, A), 'k2_zero_only'), (None, 'null_secnonce'), (MAGIC_SECNONCE + b32(N) + b32(N + 5) + pt64(A), 'k_ge_n'), (secnonce_canon(k1, k2, neg(A)), 'bound_to_negated_key')):
        chk.add('musig_partial_sign %s #1 %s %s %s' % (O(snx), kp.hex(), cch.hex(), sess.hex()), 'partial_sign_' + cls)
    chk.add('musig_partial_sign %s #0 %s %s %s' % (sn.hex(), kp.hex(), cch.hex(), sess.hex()), 'partial_sign_null_output')
    chk.add('musig_partial_sign %s #1 %s - %s' % (sn.hex(), kp.hex(), sess.hex()), 'partial_sign_null'); chk.add('musig_partial_sign %s #1 %s %s -' % (sn.hex(), kp.hex(), cch.hex()), 'partial_sign_null')
    chk.add('musig_partial_sign %s #1 %s %s %s' % (sn.hex(), kp.hex(), bad.hex(), sess.hex()), 'partial_sign_bad_cache'); chk.add('musig_partial_sign %s #1 %s %s %s' % (sn.hex(), kp.hex(), cch.hex(), (b'\0' + sess[1:]).hex()), 'partial_sign_bad_session')
    pnc = pubnonce_canon(*pubs)
    args = [ps, pnc, pt64(A), cch, sess]
    for i in range(5):
        a2 = list(args); a2[i] = None; chk.add('musig_partial_sig_verify ' + ' '.join(O(x) for x in a2), 'partial_verify_null')
        a2 = list(args); a2[i] = bytes([args[i][0] ^ 0x40]) + args[i][1:]
        chk.add('musig_partial_sig_verify ' + ' '.join(O(x) for x in a2), 'partial_verify_bad_magic' if i != 2 else 'partial_verify_corrupt_key')
    chk.add('musig_partial_sig_verify %s %s %s %s %s' % (ps.hex(), pnc.hex(), '00' * 64, cch.hex(), sess.hex()), 'partial_verify_zero_key')
    for dv in (1, N - 1):
        chk.add('musig_partial_sig_verify %s %s %s %s %s' % (psig_canon((sig + dv) % N).hex(), pnc.hex(), pt64(A).hex(), cch.hex(), sess.hex()), 'partial_verify_s_off_by_one')
    chk.add('musig_partial_sig_verify %s %s %s %s %s' % (psig_canon((N - sig) % N).hex(), pnc.hex(), pt64(A).hex(), cch.hex(), sess.hex()), 'partial_verify_s_negated')
    chk.add('musig_partial_sig_verify %s %s %s %s %s' % (ps.hex(), pnc.hex(), pt64(neg(A)).hex(), cch.hex(), sess.hex()), 'partial_verify_negated_key')
    chk.add('musig_partial_sig_verify %s %s %s %s %s' % (ps.hex(), pubnonce_canon(neg(pubs[0]), neg(pubs[1])).hex(), pt64(A).hex(), cch.hex(), sess.hex()), 'partial_verify_negated_nonce')
    chk.add('musig_partial_sig_verify %s %s %s %s %s' % (ps.hex(), pnc.hex(), pt64(A).hex(), cache_canon(ctx).hex(), sess.hex()), 'partial_verify_untweaked_cache')
    chk.add('musig_partial_sig_agg %s .' % sess.hex(), 'partial_sig_agg_argcheck'); chk.add('musig_partial_sig_agg %s -' % sess.hex(), 'partial_sig_agg_argcheck'); chk.add('musig_partial_sig_agg - %s' % ps.hex(), 'partial_sig_agg_argcheck')
    chk.add('musig_partial_sig_agg %s %s' % ((b'\1' + sess[1:]).hex(), ps.hex()), 'partial_sig_agg_bad_session')
    for n in (1, 2, 3, 16, chk.scale(40, 200)):
        sg = [psig_canon(r.choice([0, 1, N - 1, r.seckey()])) for _ in range(n)]
        chk.add('musig_partial_sig_agg %s %s' % (sess.hex(), b''.join(sg).hex()), 'partial_sig_agg_many')
        sg[r.below(n)] = psig_canon(3, MAGIC_SECNONCE)
        chk.add('musig_partial_sig_agg %s %s' % (sess.hex(), b''.join(sg).hex()), 'partial_sig_agg_bad_magic_inside')
    # ---------------------------------------------------------------- adapt / extract on boundary scalars
    vals = [0, 1, N - 1, N, N + 1, (1 << 256) - 1, N // 2, r.seckey()]
    rx = r.bytes(32)
    for sv in vals:
        for tv in vals:
            for par in (0, 1):
                chk.add('musig_adapt %s%s %s #%d' % (rx.hex(), h32(sv), h32(tv), par), 'adapt_boundary')
                chk.add('musig_extract_adaptor %s%s %s%s #%d' % (rx.hex(), h32(sv), r.bytes(32).hex(), h32(tv), par), 'extract_boundary')
    for par in (-1, 2, 255, 1 << 31):
        chk.add('musig_adapt %s%s %s #%d' % (rx.hex(), h32(5), h32(7), par), 'adapt_bad_parity'); chk.add('musig_extract_adaptor %s%s %s%s #%d' % (rx.hex(), h32(5), rx.hex(), h32(7), par), 'extract_bad_parity')
    chk.add('musig_adapt - %s #0' % h32(7), 'adapt_null'); chk.add('musig_adapt %s%s - #0' % (rx.hex(), h32(5)), 'adapt_null')
    chk.add('musig_extract_adaptor - %s%s #0' % (rx.hex(), h32(5)), 'extract_null'); chk.add('musig_extract_adaptor %s%s - #0' % (rx.hex(), h32(5)), 'extract_null')

def run(chk):
    impl, model, ie, me = runners(chk)
    chk.coq()
    expect = gen(chk)
    ri, rm = chk.correspond(impl, model, 'musig api')
    # observed counterpart of honest_session_valid / negative clauses: what the generators built as honest must be
    # accepted, what they built as foreign must be rejected (guards the generators; also a violation of the property itself)
    bad = [(chk.cases[i][0][:300], want, ri[i][:120]) for i, want, cls in expect if not (ri[i] == want or ri[i].startswith(want + ' '))]
    n_acc = sum(1 for _, w, _ in expect if w.startswith('#1')); n_rej = len(expect) - n_acc
    chk.extra['expected_accept_lines'] = n_acc; chk.extra['expected_reject_lines'] = n_rej
    chk.obligation('observed on the implementation: %d calls of honest sessions succeed / verify, %d foreign-key/nonce/session verifications fail' % (n_acc, n_rej),
                   not bad, '\n'.join('%s\n   expected %s got %s' % b for b in bad[:10]))
