"""helpers shared by property generators"""
import os, vlib
from pyec import *
TRUSTED_COMMON = [
    'Coq 8.16.1 kernel (coqc; vm_compute used, native_compute not used); no Axiom/Parameter/Admitted in the development (scanned on every run)',
    'extraction: ExtrOcamlBasic, ExtrOcamlString, ExtrOcamlZBigInt (all directives as shipped in /usr/lib/ocaml/coq/theories/extraction) + Extract Constant Z.land/Z.lor/Z.lxor => Big_int_Z.and/or/xor_big_int; OCaml 4.13.1 + zarith',
    'correspondence harness: harness/impl_driver.c + ops_*.h (C side, single translation unit including /repo/src/secp256k1.c), harness/driver_fast.ml, tools/*.py; it samples (generated cases), the theorems do not',
    'kernel obligations of every check: tools/c2coq.py (translator of straight-line C, clang 14 JSON AST) + Kernel/CSem.v (LP64 integer semantics) + Kernel/Bind.v; the limb-level theorems are about the translator output regenerated from the working tree; the translator is validated against compiled code by ./check C05',
    'modelled, not verified: compiler, libc memcpy/memset/malloc, x86-64 inline assembly of scalar_4x64 (asm and portable C builds are compared differentially)',
]
def core_runners(chk, flags=(), name='impl'):
    impl = vlib.build_impl(chk.dir, name=name, flags=flags)
    model = vlib.ensure_model('core')
    return impl, model
def hx(b): return b.hex() if b else '.'
def opt(b): return '-' if b is None else hx(b)
