"""C08 - Pedersen commitments are the stated group elements and tally exactly (DESIGN.md section 5, C08)"""
from props.common import *
from props.c08_util import *
FINISH = dict(level='proof', technique='Coq theorems about the executable generator/Pedersen model (Properties_C08.v) + differential correspondence of the model with the C implementation built from the working tree',
              trusted=TRUSTED_COMMON + ['theorems marked [MF] assume the group axioms for the curve (MathFacts hypothesis)',
                                        'binding ("only if" direction of balance) needs discrete-log independence of generators: cryptographic, not provable; the proved/compared part is the boolean content: tally accepts exactly zero sums'])

def runners(chk):
    impl = vlib.build_impl(chk.dir)
    model = vlib.ensure_model('pedersen')
    return impl, model, (), ()

def gens_for(chk, impl):
    """generators used as inputs: h, seed-derived (computed by the implementation in a first stage;
    the same calls are ALSO correspondence cases), r*G, and negations"""
    r = chk.rng
    seeds = [r.bytes(32) for _ in range(chk.scale(4, 16))]
    out = vlib.run_cases(impl, ['generator_generate ' + s.hex() for s in seeds], (), 1)
    gens = [H, neg(H)]
    for o in out:
        f = o.split(' ')
        if len(f) == 2 and f[0] == '#1' and len(f[1]) == 128:
            gens.append((int(f[1][:64], 16), int(f[1][64:], 16)))
    gens += [rand_point(r) for _ in range(3)] + [G]
    return gens

def gen(chk, impl=None):
    r = chk.rng
    gens = gens_for(chk, impl) if impl else [H, G, rand_point(r)]
    chk.add('generator_h', 'generator_h')
    # --- generator derivation
    for k in [bytes(32), b'\xff' * 32, b32(1), b32(N), b32(P)] + [r.bytes(32) for _ in range(chk.scale(150, 1500))]:
        chk.add('generator_generate ' + k.hex(), 'generate')
    for i in range(chk.scale(250, 2500)):
        k = r.bytes(32)
        bl = r.choice(BLINDS) if r.chance(1, 2) else r.scalar256()
        chk.add('generator_generate_blinded %s %s' % (k.hex(), h32(bl)), 'generate_blinded_ge_n' if bl >= N else 'generate_blinded')
        if i % 4 == 0: chk.add('generator_generate ' + k.hex(), 'generate')     # unblinded twin (blinded = unblinded + blind*G is a theorem)
    # --- the two 33-byte parsers: every prefix x boundary abscissae, then many random abscissae
    xs_on = [rand_x(r, True) for _ in range(3)] + [H[0], G[0]]
    xs_off = [rand_x(r, False) for _ in range(3)] + [0]
    xs_edge = [P - 1, P, P + 1, (1 << 256) - 1, 1, 2, 3, P - 2, P - 3, N, 1 << 255]
    for pre in range(256):
        for x in xs_on[:2] + xs_off[:2] + ([P, P - 1] if not chk.quick() or pre in (8, 9, 10, 11) else []):
            chk.add('generator_parse %02x%s' % (pre, h32(x)), 'generator_parse_prefix')
            chk.add('pedersen_commitment_parse %02x%s' % (pre, h32(x)), 'commitment_parse_prefix')
    for x in xs_edge + xs_on + xs_off:
        for pre in (8, 9, 10, 11):
            chk.add('generator_parse %02x%s' % (pre, h32(x)), 'generator_parse_edge')
            chk.add('pedersen_commitment_parse %02x%s' % (pre, h32(x)), 'commitment_parse_edge')
            if x + P < (1 << 256):      # re-encoding x + p
                chk.add('generator_parse %02x%s' % (pre, h32(x + P)), 'generator_parse_x_plus_p')
                chk.add('pedersen_commitment_parse %02x%s' % (pre, h32(x + P)), 'commitment_parse_x_plus_p')
    for i in range(chk.scale(1500, 20000)):
        x = r.bits(256) % P
        cls = 'on' if x_on_curve(x) else 'off'
        chk.add('pedersen_commitment_parse %02x%s' % (8 + r.below(2), h32(x)), 'commitment_parse_random_' + cls)
        chk.add('generator_parse %02x%s' % (10 + r.below(2), h32(x)), 'generator_parse_random_' + cls)
    # --- serialisers and round trips (serialise in python, parse on both sides; serialise on both sides)
    for i in range(chk.scale(60, 800)):
        pt = r.choice(gens) if r.chance(1, 4) else rand_point(r)
        if r.chance(1, 2): pt = neg(pt)
        chk.add('generator_serialize ' + obj(pt), 'generator_serialize')
        chk.add('pedersen_commitment_serialize ' + obj(pt), 'commitment_serialize')
        chk.add('generator_parse ' + ser_quad(10, pt).hex(), 'generator_roundtrip')
        chk.add('pedersen_commitment_parse ' + ser_quad(8, pt).hex(), 'commitment_roundtrip')
    # --- commit: boundary blinds x boundary values x generators
    for b in BLINDS:
        for v in VALUES[:6]:
            chk.add('pedersen_commit %s #%d %s' % (h32(b), v, obj(r.choice(gens) if v else H)), 'commit_blind_ge_n' if b >= N else 'commit_boundary')
    for i in range(chk.scale(500, 5000)):
        b = r.choice(BLINDS) if r.chance(1, 4) else r.scalar256()
        v = r.choice(VALUES) if r.chance(1, 2) else r.bits(r.choice([1, 8, 32, 63, 64]))
        chk.add('pedersen_commit %s #%d %s' % (h32(b), v, obj(r.choice(gens))), 'commit_blind_ge_n' if b >= N else 'commit_random')
    # commitments that are the point at infinity: gen = k*G, blind = -v*k
    for i in range(chk.scale(6, 40)):
        k = r.seckey(); v = r.choice([1, 2, U64, 1 << 63, r.bits(64) | 1]); g2 = mul(k, G)
        chk.add('pedersen_commit %s #%d %s' % (h32((-v * k) % N), v, obj(g2)), 'commit_infinity')
        chk.add('pedersen_commit %s #%d %s' % (h32((-v * k + 1) % N), v, obj(g2)), 'commit_near_infinity')
    # --- blind_sum
    for n in list(range(0, 6)) + [8, 16, 33]:
        for npos in sorted(set([0, 1, n // 2, max(n - 1, 0), n, n + 1])):
            bl = [r.seckey() if r.chance(3, 4) else r.choice(BLINDS[:5]) for _ in range(n)]
            chk.add('pedersen_blind_sum %s #%d' % (hx(b''.join(b32(x) for x in bl)), npos), 'blind_sum' if npos <= n else 'blind_sum_npos_gt_n')
            if n:   # one overflowing entry at each of a few positions
                for pos in sorted(set([0, n - 1, r.below(n)])):
                    bl2 = list(bl); bl2[pos] = r.choice([N, N + 1, (1 << 256) - 1, N + r.bits(64)])
                    chk.add('pedersen_blind_sum %s #%d' % (hx(b''.join(b32(x) for x in bl2)), min(npos, n)), 'blind_sum_overflow')
    # --- tally: balanced / unbalanced by one unit / wrong blind, several assets, 0..32 commitments
    def tally_case(npos, nneg, nassets, mode):
        assets = [r.choice(gens) for _ in range(max(1, nassets))]
        pos, negs = [], []
        tot = npos + nneg
        if tot == 0:
            chk.add('pedersen_verify_tally . .', 'tally_empty'); return
        # per-asset values that balance: choose all but the last of each asset freely
        items = []   # (sign, asset index, value, blind)
        for i in range(tot):
            items.append([1 if i < npos else -1, r.below(len(assets)), r.choice([0, 1, r.bits(32), r.bits(62)]), r.seckey() if r.chance(7, 8) else r.choice([0, 1, N - 1])])
        ok = True
        for a in range(len(assets)):
            idx = [i for i, it in enumerate(items) if it[1] == a]
            d = sum(items[i][0] * items[i][2] for i in idx)
            for i in idx:        # shave the surplus side until the asset balances
                if d == 0: break
                if items[i][0] * d > 0:
                    cut = min(items[i][2], abs(d)); items[i][2] -= cut; d -= items[i][0] * cut
            if d != 0: ok = False
        # blinds: last one from the blind_sum rule
        s = sum(it[0] * it[3] for it in items[:-1])
        items[-1][3] = (-s * items[-1][0]) % N
        cls = 'tally_balanced'
        if mode == 1: k = r.below(tot); items[k][2] = (items[k][2] + 1) & U64; cls = 'tally_off_by_one_value'
        elif mode == 2: k = r.below(tot); items[k][3] = (items[k][3] + 1) % N; cls = 'tally_off_by_one_blind'
        elif mode == 3 and len(assets) > 1:
            nz = [i for i in range(tot) if items[i][2]] or [0]; k = r.choice(nz); items[k][1] = (items[k][1] + 1) % len(assets); cls = 'tally_wrong_asset'
        if not ok: cls = 'tally_unbalanced_random'
        cs = []
        for sg, a, v, b in items:
            c = commit(b, v, assets[a])
            if c is None: return
            cs.append(obj(c))
        if mode == 4: cs[r.below(tot)] = obj(rand_point(r)); cls = 'tally_foreign_commitment'
        chk.add('pedersen_verify_tally %s %s' % (''.join(cs[:npos]) or '.', ''.join(cs[npos:]) or '.'), cls)
        if mode == 0:
            # the same blinds through the helper: blind_sum over all but the last gives the last (with its sign)
            pl = [b32(it[3]) for it in items[:-1] if it[0] == 1]; nl = [b32(it[3]) for it in items[:-1] if it[0] == -1]
            chk.add('pedersen_blind_sum %s #%d' % (hx(b''.join(pl + nl)), len(pl)), 'blind_sum_for_tally')
    tally_case(0, 0, 1, 0)
    shapes = [(1, 1), (1, 0), (0, 1), (2, 1), (1, 2), (3, 3), (2, 0), (0, 2), (16, 16), (32, 32), (32, 0), (0, 32), (5, 9)]
    for (a, b) in shapes:
        for mode in range(5):
            tally_case(a, b, r.choice([1, 2, 3]), mode)
    for i in range(chk.scale(250, 3000)):
        tally_case(r.below(9), r.below(9), r.choice([1, 1, 2, 3, 5]), r.below(5))
    # the same commitment on both sides, duplicates, C and -C
    for i in range(chk.scale(6, 60)):
        c = rand_point(r)
        chk.add('pedersen_verify_tally %s %s' % (obj(c), obj(c)), 'tally_same')
        chk.add('pedersen_verify_tally %s %s' % (obj(c) + obj(neg(c)), '.'), 'tally_c_plus_minus_c')
        chk.add('pedersen_verify_tally %s %s' % (obj(c) + obj(c), obj(add(c, c))), 'tally_doubling')
        chk.add('pedersen_verify_tally %s %s' % (obj(c), obj(neg(c))), 'tally_c_vs_minus_c')
    # --- blind_generator_blind_sum
    for i in range(chk.scale(500, 5000)):
        n = r.choice([1, 1, 2, 3, 4, 8, 17]); ni = r.below(n + 2)
        vals = [r.choice(VALUES) if r.chance(1, 2) else r.bits(64) for _ in range(n)]
        gb = [r.choice(BLINDS[:5]) if r.chance(1, 5) else r.seckey() for _ in range(n)]
        bf = [r.choice(BLINDS[:5]) if r.chance(1, 5) else r.seckey() for _ in range(n)]
        cls = 'bgbs' if ni < n else 'bgbs_ninputs_ge_ntotal'
        m = r.below(4)
        if m == 0 and ni < n:
            (gb if r.chance(1, 2) else bf)[r.choice([0, n - 1, r.below(n)])] = r.choice([N, N + 1, (1 << 256) - 1, N + r.bits(100)]); cls = 'bgbs_overflow'
        chk.add('pedersen_blind_generator_blind_sum %s %s %s #%d #%d' % (hx(b''.join(u64be(v) for v in vals)), hx(b''.join(b32(x) for x in gb)), hx(b''.join(b32(x) for x in bf)), n, ni), cls)
    chk.add('pedersen_blind_generator_blind_sum . . . #0 #0', 'bgbs_empty')

def run(chk):
    impl, model, ie, me = runners(chk)
    chk.coq()
    gen(chk, impl)
    ri, rm = chk.correspond(impl, model, 'generator/pedersen api')
    # generator sanity (not a verdict): crafted balanced tallies are accepted, crafted unbalanced ones rejected
    acc = {}
    for (line, cls), a in zip(chk.cases, ri):
        if cls.startswith('tally_') or cls.startswith('commit_'):
            k = (cls, a.split(' ')[0]); acc[k] = acc.get(k, 0) + 1
    chk.extra['result_histogram'] = {'%s %s' % k: v for k, v in sorted(acc.items())}
