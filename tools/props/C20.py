"""C20 - results depend only on arguments, not on context history or threads"""
import os, glob, subprocess, json
from props.common import *
import globals_scan
FINISH = dict(level='proof', technique='Coq proof by induction over context histories (blinding invariant) + regenerated obligation "no writable global data" + history correspondence (every API family through contexts with arbitrary histories, static context) + TSan run as witness search for schedules',
              trusted=TRUSTED_COMMON + ['thread schedules are observed (ThreadSanitizer on 2..16 threads), not proved', 'tools/globals_scan.py reads the symbol/section tables of the object files it compiles from the working tree (gcc, readelf)'])
GROUP_OF = None

def hist(r, allow_sha=True):
    h = b''
    for i in range(r.below(7)):
        o = r.choice([1, 2, 3, 4, 5, 5, 5, 6] + ([7, 8] if allow_sha else []))
        h += bytes([o]) + (r.bytes(32) if o == 5 else b'')
    return h

def corpus():
    """(group, class, line) from the committed corpus of representative cases of every API family"""
    out = []
    for f in sorted(glob.glob(os.path.join(vlib.ROOT, 'corpus', 'C20', '*.cases'))):
        g = os.path.basename(f)[:-6]
        for l in open(f):
            l = l.rstrip('\n')
            if '\t' in l: c, line = l.split('\t', 1); out.append((g, c, line))
    return out

STATIC_SAFE = ('ec_pubkey_parse', 'ec_pubkey_serialize', 'ecdsa_verify', 'ecdsa_signature_parse_der', 'ecdsa_signature_parse_compact', 'ecdsa_signature_serialize_der',
               'ecdsa_signature_serialize_compact', 'ecdsa_signature_normalize', 'schnorrsig_verify', 'xonly_pubkey_parse', 'xonly_pubkey_serialize', 'ec_pubkey_cmp',
               'ec_seckey_verify', 'ec_seckey_negate', 'ec_seckey_tweak_add', 'ec_seckey_tweak_mul', 'ec_pubkey_negate', 'ec_pubkey_tweak_add', 'ec_pubkey_tweak_mul',
               'ec_pubkey_combine', 'ecdsa_recover', 'tagged_sha256', 'xonly_pubkey_from_pubkey', 'xonly_pubkey_tweak_add', 'xonly_pubkey_tweak_add_check')

def runners(chk):
    return vlib.build_impl(chk.dir), vlib.ensure_model('context'), (), ()

def run(chk):
    r = chk.rng
    impl = vlib.build_impl(chk.dir)
    # (3) regenerated obligation: no writable global data in the library objects
    found = globals_scan.scan(os.path.join(chk.dir, 'globals')); globals_scan.write_gen(found)
    chk.extra['writable_globals'] = [list(x) for x in found]
    res = chk.coq()
    for n, sec, size, src in found:
        kf = vlib.finding_for(chk.prop, 'writable_global ' + n)
        if kf:
            if not any(k['what'] == kf['what'] for k in chk.known): chk.known.append(kf)
            chk.violations[:] = [v for v in chk.violations if not (v['kind'] == 'obligation' and 'no_mutable_global_state' in v['name'])]
        else:
            chk.violations.append({'kind': 'obligation', 'witness': True, 'name': 'writable global data object in the library: %s (section %s, %d bytes, %s)' % (n, sec, size, src),
                                   'detail': 'the symbol is placed in a section that stays writable at run time; replay: python3 tools/globals_scan.py'})
    # (2) the blinding state machine, byte for byte, after arbitrary histories
    cmodel = vlib.ensure_model('context')
    cases = []
    for i in range(chk.scale(300, 5000)):
        h = hist(r, allow_sha=(i % 3 == 0))
        h2 = bytes(b for b in h)   # model ignores create/clone/sha opcodes (they do not change the blinding) except that create resets
        cases.append(('ctx_history %s %s #258' % (hx(h), h32(r.scalar256())), 'ctx_history'))
    cases.append(('ctx_alloc_count', 'alloc_count'))
    # the model treats opcodes 1,2 (fresh context) as reset: encode that by rewriting them to 06 for the model side
    def to_model(line):
        f = line.split(' ')
        if f[0] != 'ctx_history' or f[1] == '.': return line
        b = bytes.fromhex(f[1]); out = b''; i = 0
        while i < len(b):
            o = b[i]; i += 1
            if o == 5: out += bytes([5]) + b[i:i + 32]; i += 32
            elif o in (1, 2, 6): out += bytes([6])
            else: out += bytes([3])
        return ' '.join([f[0], hx(out)] + f[2:])
    ri = vlib.run_cases(impl, [c[0] for c in cases]); rm = vlib.run_cases(cmodel, [to_model(c[0]) for c in cases])
    bad = 0
    for (line, cls), a, b in zip(cases, ri, rm):
        chk.evaluations += 1; chk.classes[cls] = chk.classes.get(cls, 0) + 1; chk.distinct.add(line[:80])
        if a != b: bad += 1; chk.disagreement(line, cls, a, b)
    chk.notes.append('blinding state after context histories: %d cases, %d disagreements' % (len(cases), bad))
    chk.samples.append({'case': cases[0][0][:300], 'impl': ri[0][:200], 'model': rm[0][:200]})
    # (1) every API family through contexts with arbitrary histories: result must equal the context-free model
    cor = corpus()
    per_group = {}
    for g, c, line in cor: per_group.setdefault(g, []).append((c, line))
    total = 0
    for g, items in sorted(per_group.items()):
        try: model = vlib.ensure_model(g)
        except vlib.BuildError as e:
            chk.obligation('model group %s builds' % g, False, str(e)); continue
        r.shuffle(items); items = items[:chk.scale(60, 400)]
        wrapped = []; inner = []
        for c, line in items:
            op = line.split(' ')[0]; rest = line[len(op):]
            h = hist(r)
            wrapped.append('with_ctx %s %s%s' % (hx(h), op.encode().hex(), rest)); inner.append(line)
        if g == 'core':
            # long hash inputs (several 64-byte blocks in one write) through contexts whose SHA-256 compression function was replaced
            # by an equivalent one: the replaced function is called with block counts above 1 only for such inputs
            for L in [63, 64, 65, 127, 128, 129, 191, 192, 200, 256, 1000] + [r.below(3000) for _ in range(chk.scale(4, 40))]:
                for h in (b'\x07', hist(r) + b'\x07', b'\x07\x03', b'\x07\x04', b'\x07\x05' + r.bytes(32), b'\x07\x08'):
                    line = 'tagged_sha256 %s %s' % (hx(r.bytes(r.choice([0, 5, 64]))), hx(r.bytes(L)))
                    wrapped.append('with_ctx %s %s%s' % (hx(h), b'tagged_sha256'.hex(), line[len('tagged_sha256'):])); inner.append(line)
                    line = 'sha256 %s' % hx(r.bytes(L))
                    wrapped.append('with_ctx %s %s%s' % (hx(h), b'sha256'.hex(), line[len('sha256'):])); inner.append(line)
        ri = vlib.run_cases(impl, wrapped); rm = vlib.run_cases(model, inner)
        bad = 0
        for w, l, a, b in zip(wrapped, inner, ri, rm):
            chk.evaluations += 1; chk.classes['history_' + g] = chk.classes.get('history_' + g, 0) + 1; chk.distinct.add(w[:120])
            if b.startswith('#-99') or b.startswith('#-98'): continue
            if a != b: bad += 1; chk.disagreement(w, 'history_' + g, a, b)
        total += len(wrapped)
        chk.notes.append('API family %s through contexts with random histories: %d cases, %d disagreements' % (g, len(wrapped), bad))
        # static context (byte copy with counting callbacks): same result or an illegal-argument callback
        if True:
            sw = []; si = []
            for c, line in items:
                op = line.split(' ')[0]; rest = line[len(op):]
                sw.append('with_ctx 0a %s%s' % (op.encode().hex(), rest)); si.append(line)
            ri = vlib.run_cases(impl, sw); rm = vlib.run_cases(model, si); bad = 0
            for w, l, a, b in zip(sw, si, ri, rm):
                chk.evaluations += 1; chk.classes['static_ctx'] = chk.classes.get('static_ctx', 0) + 1; chk.distinct.add(w[:120])
                if b.startswith('#-99'): continue
                op = l.split(' ')[0]
                if b.startswith('#-98') or b.startswith('#-97'): continue
                ok = (a == b) or ((' ILL' in a or a.startswith('ILL')) and op not in STATIC_SAFE)
                if not ok: bad += 1; chk.disagreement(w, 'static_ctx_' + g, a, b)
            chk.notes.append('static context copy, family %s: %d cases, %d neither equal nor reported through the illegal callback' % (g, len(sw), bad))
    if total == 0: chk.obligation('corpus of API cases present (corpus/C20)', False, 'no cases')
    # schedules: ThreadSanitizer run (witness search)
    exe = os.path.join(chk.dir, 'threads_tsan')
    rc, o = vlib.sh(['clang', '-O1', '-g', '-w', '-fsanitize=thread', '-I' + vlib.REPO, '-I' + vlib.REPO + '/src', os.path.join(vlib.ROOT, 'harness', 'threads_driver.c'), '-o', exe, '-lpthread'], timeout=600)
    if rc != 0: chk.obligation('thread harness builds from the working tree', False, o[-2000:])
    else:
        for nt in ([2, 8] if chk.quick() else [2, 4, 8, 16]):
            rc, o = vlib.sh([exe, str(nt), '2' if chk.quick() else '6'], timeout=900, env=dict(os.environ, TSAN_OPTIONS='halt_on_error=0 exitcode=66'))
            chk.evaluations += 1; chk.classes['tsan_threads'] = chk.classes.get('tsan_threads', 0) + 1
            chk.notes.append('TSan %d threads: rc=%d %s' % (nt, rc, o.strip().split('\n')[-1][:120]))
            if rc != 0:
                chk.violations.append({'kind': 'correspondence', 'class': 'threads', 'case': '%s %d' % (exe, nt), 'impl': o[-3000:], 'model': 'no data race, results equal to the sequential ones'})
                break
