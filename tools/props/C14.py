"""C14 - ECDSA adaptor signatures consistent end-to-end and verified exactly (DESIGN.md section 5, C14)"""
from props.common import *
from props.c14_util import *
FINISH = dict(level='proof',
              technique='Coq theorems about the executable adaptor-signature model (Properties_C14.v: codec_exact, verify_eq_spec, '
                        'named rejection theorems, recover_rejects_unrelated, encrypt_failure_zeroes, midstate correctness) + differential '
                        'correspondence of the model with the C implementation built from the working tree on boundary keys/messages, custom '
                        'nonce functions, every single-bit flip of honest 162-byte strings, scalar re-encodings and invalid points; the '
                        'encrypt -> verify -> decrypt -> recover pipeline of the implementation is additionally checked end to end',
              trusted=TRUSTED_COMMON + ['completeness (encrypt => verify, decrypt/recover inverse) is NOT proved (needs the group law); it is checked on every generated honest case: the implementation must return the values predicted by the model and by an independent Python computation',
                                        'rejection of a DLEQ response s >= n has no constructible witness with a valid proof on the real curve (needs a hash preimage): proved for the model; observed on the repository\'s own order-13 test group (harness built with -DEXHAUSTIVE_TEST_ORDER=13, model instantiated with that group), where valid proofs re-encoded as s + 13*j exist'])

def runners(chk):
    impl = vlib.build_impl(chk.dir)
    model = vlib.ensure_model('adaptor')
    return impl, model, (), ()

TOP = (1 << 256) - 1
FIELDS = [('R', 0, 33), ('Rp', 33, 66), ('sp', 66, 98), ('e', 98, 130), ('s', 130, 162)]
def field_of(byte):
    for nm, a, b in FIELDS:
        if a <= byte < b: return nm

class Gen:
    def __init__(self, chk):
        self.chk = chk; self.r = chk.rng; self.expect = {}
    def add(self, line, cls, expect=None):
        """expect: the result line the implementation must give according to an independent Python computation"""
        if expect is not None: self.expect[len(self.chk.cases)] = expect
        self.chk.add(line, cls)
    def verify(self, sig, X, m, Y, cls, expect=None):
        self.add('adaptor_verify %s %s %s %s' % (sig.hex(), pk_obj(X), h32(m), pk_obj(Y)), cls, None if expect is None else '#%d' % expect)
    def decrypt(self, y, sig, cls, expect=None):
        self.add('adaptor_decrypt %s %s' % (h32(y), sig.hex()), cls, expect)
    def recover(self, rr, ss, sig, Y, cls, expect=None):
        self.add('adaptor_recover %s%s %s %s' % (h32(rr), h32(ss), sig.hex(), pk_obj(Y)), cls, expect)
    def honest(self, d=None, y=None, m=None, k=None, k2=None):
        r = self.r
        d = d or r.seckey(); y = y or r.seckey(); k = k or r.seckey(); k2 = k2 or r.seckey()
        m = r.bits(256) if m is None else m
        Y = mul(y, G); X = mul(d, G)
        R, Rp, sp, e, s = adaptor_encrypt(d, Y, m % N, k, k2)
        return dict(d=d, y=y, m=m, k=k, k2=k2, Y=Y, X=X, R=R, Rp=Rp, sp=sp, e=e, s=s, sig=ser162(R, Rp, sp, e, s))

def gen_encrypt(g):
    chk, r = g.chk, g.r
    keys = [1, N - 1, 0, N, N + 1, TOP, 2]
    msgs = [0, 1, N - 1, N, N + 1, TOP, P]
    encs = [G, mul(N - 1, G)]
    # boundary keys x boundary messages, default nonce function without / with aux, NULL and explicit pointer
    for d in keys:
        for m in (msgs if not chk.quick() else msgs[:5]):
            Y = r.choice(encs) if r.chance(1, 2) else mul(r.seckey(), G)
            kind = r.below(2); aux = None if r.chance(1, 2) else r.bytes(32)
            g.add('adaptor_encrypt #%d %s %s %s %s' % (kind, h32(d), pk_obj(Y), h32(m), opt(aux)), 'encrypt_boundary')
    for i in range(chk.scale(40, 1500)):
        d = r.choice(keys) if r.chance(1, 6) else r.seckey(); m = r.choice(msgs) if r.chance(1, 4) else r.scalar256()
        Y = r.choice(encs) if r.chance(1, 8) else mul(r.seckey(), G)
        for kind, aux in ((0, None), (1, None), (0, r.bytes(32)), (1, r.choice([bytes(32), b'\xff' * 32, r.bytes(32)]))):
            if i % 4 == kind * 2 + (aux is not None) or not chk.quick():
                g.add('adaptor_encrypt #%d %s %s %s %s' % (kind, h32(d), pk_obj(Y), h32(m), opt(aux)), 'encrypt_default_nonce' + ('_aux' if aux else ''))
    # the aux argument must matter, NULL and explicit pointer must not: same inputs under all four
    d, m, Y = r.seckey(), r.bits(256), mul(r.seckey(), G)
    for kind in (0, 1):
        for aux in (None, bytes(32), b'\x01' + bytes(31)):
            g.add('adaptor_encrypt #%d %s %s %s %s' % (kind, h32(d), pk_obj(Y), h32(m), opt(aux)), 'encrypt_same_inputs')
    # messages >= n encrypt like msg mod n in the signature equation but NOT in the nonce derivation
    for i in range(chk.scale(4, 40)):
        d = r.seckey(); Y = mul(r.seckey(), G); m = N + r.bits(r.choice([1, 64, 127]))
        g.add('adaptor_encrypt #0 %s %s %s -' % (h32(d), pk_obj(Y), h32(m)), 'encrypt_msg_ge_n')
        g.add('adaptor_encrypt #0 %s %s %s -' % (h32(d), pk_obj(Y), h32(m - N)), 'encrypt_msg_ge_n')
    # custom nonce function: chosen encryption nonce and DLEQ nonce (0, n, n+1, 2^256-1 are reduced silently)
    kvals = [0, 1, 2, N - 1, N, N + 1, TOP]
    for km in kvals:
        for kd in kvals:
            if chk.quick() and km not in (0, N, N + 1) and kd not in (0, N, 1): continue
            d = r.choice([1, N - 1, r.seckey()]); Y = mul(r.seckey(), G); m = r.scalar256()
            data = b32(km) + b32(kd) + b'\x07'
            py = None
            if km % N and kd % N:
                R, Rp, sp, e, s = adaptor_encrypt(d, Y, m % N, km % N, kd % N)
                if sp and R[0] % N: py = '#1 ' + ser162(R, Rp, sp, e, s).hex()
            else: py = '#0 ' + '00' * 162
            g.add('adaptor_encrypt #2 %s %s %s %s' % (h32(d), pk_obj(Y), h32(m), data.hex()), 'encrypt_custom_nonce', py)
    for sel in (0, 1, 2, 3):
        for d in (r.seckey(), 0):
            data = b32(r.seckey()) + b32(r.seckey()) + bytes([sel])
            g.add('adaptor_encrypt #3 %s %s %s %s' % (h32(d), pk_obj(mul(r.seckey(), G)), h32(r.bits(256)), data.hex()), 'encrypt_nonce_fn_fails',
                  '#0 ' + '00' * 162 if (sel < 3 or d == 0) else None)
    # s' = 0: message chosen as -R.x * d for the chosen nonce
    for i in range(chk.scale(3, 20)):
        d = r.seckey(); Y = mul(r.seckey(), G); k = r.seckey(); R = mul(k, Y); m = (-(R[0] % N) * d) % N
        data = b32(k) + b32(r.seckey()) + b'\x07'
        g.add('adaptor_encrypt #2 %s %s %s %s' % (h32(d), pk_obj(Y), h32(m), data.hex()), 'encrypt_sp_zero', '#0 ' + '00' * 162)
        g.add('adaptor_encrypt #2 %s %s %s %s' % (h32(d), pk_obj(Y), h32((m + 1) % N), data.hex()), 'encrypt_sp_one')
    # invalid signing key with otherwise fine inputs, invalid (all-zero) encryption key object
    for d in (0, N, TOP):
        g.add('adaptor_encrypt #0 %s %s %s -' % (h32(d), pk_obj(mul(r.seckey(), G)), h32(r.bits(256))), 'encrypt_bad_seckey', '#0 ' + '00' * 162)
    g.add('adaptor_encrypt #0 %s %s %s -' % (h32(r.seckey()), pk_obj(None), h32(1)), 'encrypt_bad_enckey_object', '#0 ILL1')

def gen_nonce(g):
    chk, r = g.chk, g.r
    algos = [b'ECDSAadaptor/non', b'DLEQ', b'ECDSAadaptor/aux', b'ECDSAadaptor/noN', b'ECDSAadaptor/no', b'ECDSAadaptor/non\x00', b'DLE', b'DLEQ\x00',
             b'dleq', b'', b'\x00', b'x' * 55, b'y' * 56, b'z' * 64, b'w' * 100, None]
    for al in algos:
        for aux in (None, bytes(32), r.bytes(32)):
            pk = ser33(mul(r.seckey(), G))
            g.add('adaptor_nonce %s %s %s %s %s' % (r.bytes(32).hex(), r.bytes(32).hex(), pk.hex(), '-' if al is None else hx(al), opt(aux)), 'nonce_function_direct')

def gen_verify(g):
    chk, r = g.chk, g.r
    half = N // 2
    honest = []
    # honest signatures over boundary keys / messages / nonces
    for d in (1, N - 1, None):
        for y in (1, N - 1, None):
            for m in (0, N, TOP, None):
                if chk.quick() and r.chance(1, 2) and None in (d, y, m): continue
                h = g.honest(d=d, y=y, m=m, k=r.choice([1, N - 1, None]), k2=r.choice([1, N - 1, None]))
                honest.append(h)
                g.verify(h['sig'], h['X'], h['m'], h['Y'], 'verify_honest_boundary', 1)
    for i in range(chk.scale(20, 600)):
        h = g.honest(); honest.append(h)
        g.verify(h['sig'], h['X'], h['m'], h['Y'], 'verify_honest', 1)
        # wrong message / keys
        v = i % 6
        if v == 0: g.verify(h['sig'], h['X'], (h['m'] + 1) & TOP, h['Y'], 'verify_wrong_msg', 0)
        elif v == 1: g.verify(h['sig'], mul(r.seckey(), G), h['m'], h['Y'], 'verify_wrong_pubkey', 0)
        elif v == 2: g.verify(h['sig'], neg(h['X']), h['m'], h['Y'], 'verify_negated_pubkey', 0)
        elif v == 3: g.verify(h['sig'], h['X'], h['m'], mul(r.seckey(), G), 'verify_wrong_enckey', 0)
        elif v == 4: g.verify(h['sig'], h['X'], h['m'], neg(h['Y']), 'verify_negated_enckey', 0)
        elif v == 5 and h['m'] % N + N <= TOP:
            g.verify(h['sig'], h['X'], h['m'] % N + N, h['Y'], 'verify_msg_plus_n', 1); g.verify(h['sig'], h['X'], h['m'] % N, h['Y'], 'verify_msg_plus_n', 1)
    # invalid key objects: enckey is loaded first; a bad pubkey is only noticed after a valid DLEQ proof
    h = honest[-1]
    g.add('adaptor_verify %s %s %s %s' % (h['sig'].hex(), pk_obj(h['X']), h32(h['m']), pk_obj(None)), 'verify_bad_enckey_object', '#0 ILL1')
    g.add('adaptor_verify %s %s %s %s' % (h['sig'].hex(), pk_obj(None), h32(h['m']), pk_obj(h['Y'])), 'verify_bad_pubkey_object', '#0 ILL1')
    g.add('adaptor_verify %s %s %s %s' % (h['sig'].hex(), pk_obj(None), h32(h['m']), pk_obj(None)), 'verify_bad_both_objects', '#0 ILL1')
    bad = bytearray(h['sig']); bad[161] ^= 1
    g.add('adaptor_verify %s %s %s %s' % (bytes(bad).hex(), pk_obj(None), h32(h['m']), pk_obj(h['Y'])), 'verify_bad_pubkey_object_bad_proof', '#0')
    # every single-bit flip of honest 162-byte strings
    nflip = chk.scale(1, 6)
    for h in [honest[-1 - j] for j in range(nflip)]:
        for bit in range(1296):
            b = bytearray(h['sig']); b[bit // 8] ^= 0x80 >> (bit % 8)
            g.verify(bytes(b), h['X'], h['m'], h['Y'], 'verify_bitflip_' + field_of(bit // 8), 0)
    # message and key bit flips
    h = honest[-2]
    for bit in (range(256) if not chk.quick() else [r.below(256) for _ in range(24)] + [0, 255]):
        g.verify(h['sig'], h['X'], h['m'] ^ (1 << bit), h['Y'], 'verify_msg_bitflip', 0 if (h['m'] ^ (1 << bit)) % N != h['m'] % N else 1)
    # each scalar replaced by 0 / n / s+n-style / negation / extremes
    for j in range(chk.scale(3, 30)):
        h = honest[j]
        def put(field, val, cls, expect=0):
            a = dict(h); a[field] = val
            g.verify(ser33(a['R']) + ser33(a['Rp']) + b32(a['sp']) + b32(a['e']) + b32(a['s']), h['X'], h['m'], h['Y'], cls, expect)
        for f in ('sp', 'e', 's'):
            for val, nm in ((0, 'zero'), (N, 'n'), (N - h[f], 'negated'), (TOP, 'max'), (h[f] ^ 1, 'lowbit'), (1, 'one'), (N - 1, 'n_minus_1')):
                exp = 0
                if f == 'e' and nm == 'n' : exp = None          # e = n reduces silently to 0: invalid unless e was 0
                if val == h[f]: exp = 1
                put(f, val, 'verify_%s_%s' % (f, nm), exp)
        # e is reduced silently: e + n (when it fits) is the same proof; s + n and s' + n must be rejected
        if h['e'] + N <= TOP: put('e', h['e'] + N, 'verify_e_plus_n', 1)
        if h['s'] + N <= TOP: put('s', h['s'] + N, 'verify_s_plus_n', 0)
        if h['sp'] + N <= TOP: put('sp', h['sp'] + N, 'verify_sp_plus_n', 0)
    # VALID adaptor signatures with a chosen small s' (message solved for), re-encoded as s' + n: must be rejected
    for j in range(chk.scale(6, 60)):
        d, y, k, k2 = r.seckey(), r.seckey(), r.seckey(), r.seckey(); Y = mul(y, G); X = mul(d, G)
        R = mul(k, Y); Rp = mul(k, G); s, e = dleq_prove(k, Y, k2)
        sp = r.choice([1, 2, r.bits(64) + 1, r.bits(127) + 1, (1 << 256) - N - 1, half, half + 1, N - 1])
        m = (sp * k - (R[0] % N) * d) % N
        g.verify(ser162(R, Rp, sp, e, s), X, m, Y, 'verify_valid_chosen_sp', 1)
        if sp + N <= TOP: g.verify(ser33(R) + ser33(Rp) + b32(sp + N) + b32(e) + b32(s), X, m, Y, 'verify_valid_sp_reencoded_plus_n', 0)
    # a fully consistent adaptor signature whose R has x = n, i.e. R.x mod n = 0: rejected only by the sigr != 0 check;
    # and consistent ones with x(R) in (n, p): sigr = x - n is accepted (silent reduction)
    t = 0; found = 0
    while found < chk.scale(4, 12):
        x = N + t; t += 1
        for odd in (False, True):
            R = lift_x(x, odd)
            if R is None: continue
            found += 1
            d, k, k2 = r.seckey(), r.seckey(), r.seckey(); X = mul(d, G)
            Y = mul(inv(k, N), R); Rp = mul(k, G); s, e = dleq_prove(k, Y, k2)
            m = r.bits(256) | 1; sigr = x % N
            sp = inv(k, N) * (m + sigr * d) % N
            if sp == 0: continue
            g.verify(ser162(R, Rp, sp, e, s), X, m, Y, 'verify_consistent_sigr_zero' if sigr == 0 else 'verify_valid_x_ge_n', 0 if sigr == 0 else 1)
    # points: negation, off-curve, x >= p, bad tags, swapped
    for j in range(chk.scale(3, 30)):
        h = honest[j + 3]
        def sigb(Rb=None, Rpb=None): return (Rb or ser33(h['R'])) + (Rpb or ser33(h['Rp'])) + b32(h['sp']) + b32(h['e']) + b32(h['s'])
        for which in (0, 1):
            pt = h['R'] if which == 0 else h['Rp']; nm = 'R' if which == 0 else 'Rp'
            def em(enc, cls, expect=0):
                if enc == ser33(pt): expect = 1       # an edge-biased 'unrelated' value may coincide with the honest one
                g.verify(sigb(Rb=enc) if which == 0 else sigb(Rpb=enc), h['X'], h['m'], h['Y'], 'verify_%s_%s' % (nm, cls), expect)
            em(ser33(neg(pt)), 'negated')
            em(bytes([2]) + b32(off_curve_x(r)), 'off_curve')
            for x in (P, P + 1, TOP, 0): em(bytes([r.choice([2, 3])]) + b32(x), 'x_ge_p_or_zero')
            for tag in (0, 1, 4, 5, 6, 7, 0x82, 0xff): em(bytes([tag]) + b32(pt[0]), 'bad_tag')
            em(ser33(mul(r.seckey(), G)), 'unrelated_point')
        g.verify(ser33(h['Rp']) + ser33(h['R']) + b32(h['sp']) + b32(h['e']) + b32(h['s']), h['X'], h['m'], h['Y'], 'verify_R_Rp_swapped', 0 if h['R'] != h['Rp'] else 1)
    # DLEQ verification reaching the point at infinity: s = e*k gives R1 = s*G - e*R' = O (and R2 = O when R = k*Y)
    for j in range(chk.scale(3, 20)):
        h = g.honest(); e = r.seckey()
        g.verify(ser162(h['R'], h['Rp'], h['sp'], e, e * h['k'] % N), h['X'], h['m'], h['Y'], 'verify_dleq_R1_R2_infinity', 0)
        k3 = r.seckey(); R3 = mul(k3, h['Y'])       # R = k3*Y with k3 != k: only R2 = s*Y - e*R is infinity for s = e*k3
        g.verify(ser162(R3, h['Rp'], h['sp'], e, e * k3 % N), h['X'], h['m'], h['Y'], 'verify_dleq_R2_infinity', 0)
        # adaptor equation reaching infinity: m = -R.x * d with a valid DLEQ proof and arbitrary s'
        m0 = (-(h['R'][0] % N) * h['d']) % N
        g.verify(ser162(h['R'], h['Rp'], r.seckey(), h['e'], h['s']), h['X'], m0, h['Y'], 'verify_equation_infinity', 0)
    return honest

def gen_decrypt_recover(g, honest):
    chk, r = g.chk, g.r
    half = N // 2
    for i, h in enumerate(honest):
        rr, ss = adaptor_decrypt(h['y'], h['R'], h['sp'])
        if rr == 0: continue
        g.decrypt(h['y'], h['sig'], 'decrypt_honest', '#1 ' + h32(rr) + h32(ss))
        g.add('ecdsa_verify %s%s %s %s' % (h32(rr), h32(ss), h32(h['m']), pk_obj(h['X'])), 'decrypted_sig_verifies', '#1')
        # recovery from the signature and from its negated-s twin gives exactly the decryption key
        g.recover(rr, ss, h['sig'], h['Y'], 'recover_honest', '#1 ' + h32(h['y']))
        g.recover(rr, N - ss, h['sig'], h['Y'], 'recover_negated_s_twin', '#1 ' + h32(h['y']))
        if i % 3 == 0:
            # against the negated encryption key the negated decryption key comes out
            g.recover(rr, ss, h['sig'], neg(h['Y']), 'recover_negated_enckey', '#1 ' + h32(N - h['y']))
            wk = mul(r.seckey(), G)       # an unrelated encryption key (edge-biased draw: may coincide with +-Y)
            g.recover(rr, ss, h['sig'], wk, 'recover_wrong_enckey', '#1 ' + h32(h['y']) if wk == h['Y'] else '#1 ' + h32(N - h['y']) if wk == neg(h['Y']) else '#0')
            g.recover(rr, ss, h['sig'], None, 'recover_bad_enckey_object', '#0 ILL1')
            # encryption keys whose x coordinate differs from the real one in a single byte position (near misses of the comparison)
            for pos in (31, 30, 16, 1, 0):
                for delta in range(1, 40):
                    xb = bytearray(b32(h['Y'][0])); xb[pos] ^= delta
                    Y2 = lift_x(int.from_bytes(xb, 'big'))
                    if Y2 is not None:
                        g.recover(rr, ss, h['sig'], Y2, 'recover_enckey_x_near_miss', '#0'); g.recover(rr, ss, h['sig'], neg(Y2), 'recover_enckey_x_near_miss', '#0')
                        break
        if i % 3 == 1:
            # unrelated ECDSA signatures: random, same s with another r, same r with another s
            g.recover(r.seckey(), r.seckey(), h['sig'], h['Y'], 'recover_unrelated_sig', '#0')
            g.recover((rr + 1) % N or 1, ss, h['sig'], h['Y'], 'recover_r_mismatch_same_s', '#0')
            g.recover(N - rr, ss, h['sig'], h['Y'], 'recover_r_mismatch_same_s', '#0')
            g.recover(rr, (ss + 1) % N, h['sig'], h['Y'], 'recover_same_r_other_s', '#0')
            g.recover(rr, 0, h['sig'], h['Y'], 'recover_s_zero', '#0')
            g.recover(0, ss, h['sig'], h['Y'], 'recover_r_zero', '#0')
            d2 = r.seckey(); k2 = r.seckey(); r2, s2 = ecdsa_sign_k(d2, h['m'] % N, k2)
            g.recover(r2, s2 if s2 <= half else N - s2, h['sig'], h['Y'], 'recover_other_valid_ecdsa_sig', '#0')
        if i % 3 == 2:
            # decryption with a wrong key still returns a (useless) signature; with 0 / n / out of range it fails
            g.decrypt(r.seckey(), h['sig'], 'decrypt_wrong_key')
            for dk in (0, N, N + 1, TOP): g.decrypt(dk, h['sig'], 'decrypt_bad_deckey', '#0 ' + '00' * 64)
            g.decrypt(1, h['sig'], 'decrypt_key_one'); g.decrypt(N - 1, h['sig'], 'decrypt_key_n_minus_1')
    # decrypt / recover look at bytes 1..32 (R.x mod n, non-zero) and 66..97 (s' in [1,n)) ONLY
    for j in range(chk.scale(3, 30)):
        h = honest[j]
        rr, ss = adaptor_decrypt(h['y'], h['R'], h['sp'])
        sig = h['sig']
        def mut(pos, repl): return sig[:pos] + repl + sig[pos + len(repl):]
        for tag in (0, 4, 0xff): g.decrypt(h['y'], mut(0, bytes([tag])), 'decrypt_ignores_R_tag', '#1 ' + h32(rr) + h32(ss))
        g.decrypt(h['y'], mut(33, r.bytes(33)), 'decrypt_ignores_Rp', '#1 ' + h32(rr) + h32(ss))
        g.decrypt(h['y'], mut(98, r.bytes(64)), 'decrypt_ignores_proof', '#1 ' + h32(rr) + h32(ss))
        g.decrypt(h['y'], mut(130, b32(TOP)), 'decrypt_ignores_proof', '#1 ' + h32(rr) + h32(ss))
        x_off = off_curve_x(r)
        if x_off % N: g.decrypt(h['y'], mut(1, b32(x_off)), 'decrypt_off_curve_R_accepted', '#1 ' + h32(x_off % N) + h32(ss))
        for x in (0, N): g.decrypt(h['y'], mut(1, b32(x)), 'decrypt_sigr_zero', '#0 ' + '00' * 64)
        g.decrypt(h['y'], mut(1, b32(N + 5)), 'decrypt_sigr_reduced', '#1 ' + h32(5) + h32(ss))
        for v in (0, N, N + 1, TOP): g.decrypt(h['y'], mut(66, b32(v)), 'decrypt_sp_out_of_range', '#0 ' + '00' * 64)
        if h['sp'] + N <= TOP: g.decrypt(h['y'], mut(66, b32(h['sp'] + N)), 'decrypt_sp_plus_n', '#0 ' + '00' * 64)
        for v in (0, N, N + 1, TOP):
            g.recover(rr, ss, mut(66, b32(v)), h['Y'], 'recover_sp_out_of_range', '#0')
        for x in (0, N): g.recover(rr, ss, mut(1, b32(x)), h['Y'], 'recover_sigr_zero', '#0')
        g.recover(rr, ss, mut(33, r.bytes(33)), h['Y'], 'recover_ignores_Rp', '#1 ' + h32(h['y']))
        g.recover(rr, ss, mut(98, r.bytes(64)), h['Y'], 'recover_ignores_proof', '#1 ' + h32(h['y']))
    # low-S normalisation boundary: s' = s_target * y for s_target around n/2
    for st in (half - 1, half, half + 1, half + 2, 1, N - 1):
        h = honest[3]; y = r.seckey(); sp = st * y % N
        sig = h['sig'][:66] + b32(sp) + h['sig'][98:]
        g.decrypt(y, sig, 'decrypt_low_s_boundary', '#1 ' + h32(h['R'][0] % N) + h32(st if st <= half else N - st))
    # every single-bit flip of an honest string through decrypt (scalar arithmetic only) and recover
    h = honest[-1]; rr, ss = adaptor_decrypt(h['y'], h['R'], h['sp'])
    for bit in range(1296):
        b = bytearray(h['sig']); b[bit // 8] ^= 0x80 >> (bit % 8)
        f = field_of(bit // 8)
        relevant = (8 <= bit < 264) or f == 'sp'
        g.decrypt(h['y'], bytes(b), 'decrypt_bitflip_' + f, None if relevant else '#1 ' + h32(rr) + h32(ss))
        if relevant or not chk.quick() or bit % 8 == 0:
            g.recover(rr, ss, bytes(b), h['Y'], 'recover_bitflip_' + f, '#0' if relevant else '#1 ' + h32(h['y']))

def pipeline(chk, g, impl):
    """encrypt with the library's own nonce function on the implementation, then require (of implementation AND
       model) verify = 1, decrypt = the signature computed here, ecdsa_verify = 1, recover = decryption key"""
    r = chk.rng; jobs = []
    for i in range(chk.scale(24, 400)):
        d = r.choice([1, N - 1]) if r.chance(1, 5) else r.seckey(); y = r.choice([1, N - 1]) if r.chance(1, 5) else r.seckey()
        m = r.choice([0, N, N + 1, TOP]) if r.chance(1, 4) else r.bits(256)
        aux = None if r.chance(1, 2) else r.bytes(32)
        jobs.append((d, y, m, 'adaptor_encrypt #%d %s %s %s %s' % (r.below(2), h32(d), pk_obj(mul(y, G)), h32(m), opt(aux))))
    res = vlib.run_cases(impl, [j[3] for j in jobs])
    for (d, y, m, line), out in zip(jobs, res):
        f = out.split(' ')
        g.add(line, 'pipeline_encrypt', None)
        if f[0] != '#1' or len(f) != 2 or len(f[1]) != 324:
            # honest inputs must encrypt (failure has probability 2^-128)
            chk.violations.append({'kind': 'correspondence', 'class': 'pipeline_encrypt_failed', 'case': line, 'impl': out, 'model': '#1 <162 bytes>'})
            continue
        sig = bytes.fromhex(f[1]); Y = mul(y, G); X = mul(d, G)
        R = lift_x(int.from_bytes(sig[1:33], 'big'), sig[0] == 3); sp = int.from_bytes(sig[66:98], 'big')
        g.verify(sig, X, m, Y, 'pipeline_verify', 1)
        rr, ss = adaptor_decrypt(y, R, sp)
        g.decrypt(y, sig, 'pipeline_decrypt', '#1 ' + h32(rr) + h32(ss))
        g.add('ecdsa_verify %s%s %s %s' % (h32(rr), h32(ss), h32(m), pk_obj(X)), 'pipeline_ecdsa_verify', '#1')
        g.recover(rr, ss, sig, Y, 'pipeline_recover', '#1 ' + h32(y))
        g.recover(rr, N - ss, sig, Y, 'pipeline_recover_negated_s', '#1 ' + h32(y))

def gen_small_group(chk):
    """cases for the harness built with -DEXHAUSTIVE_TEST_ORDER=13 and the model instantiated with that group:
       valid adaptor signatures whose scalars are re-encoded as v + 13*j (not constructible on the real curve)"""
    r = chk.rng; sg = SmallGroup(); n = sg.n; cases = []; expect = {}
    def add(line, cls, exp=None):
        if exp is not None: expect[len(cases)] = exp
        cases.append((line, cls))
    def enc(v):     # a random 32-byte re-encoding v + 13*j > v
        j = r.choice([1, 2, r.bits(8) + 1, r.bits(64) + 1, r.bits(200) + 1, (TOP - v) // n])
        return v + n * j
    for d in range(1, n):
        for y in (r.sample if hasattr(r, 'sample') else (lambda l, k: [r.choice(l) for _ in range(k)]))(list(range(1, n)), chk.scale(3, 12)):
            k = 1 + r.below(n - 1); k2 = 1 + r.below(n - 1); m = r.bits(256)
            Y = sg.mul(y, sg.G); X = sg.mul(d, sg.G)
            t = sg.adaptor_encrypt(d, Y, m % n, k, k2)
            add('adaptor_encrypt #2 %s %s %s %s' % (h32(d), pk_obj(Y), h32(m), (b32(k) + b32(k2) + b'\x07').hex()), 'small_encrypt_custom',
                ('#1 ' + ser162(*t).hex()) if t else '#0 ' + '00' * 162)
            add('adaptor_encrypt #2 %s %s %s %s' % (h32(enc(d)), pk_obj(Y), h32(m), (b32(k) + b32(k2) + b'\x07').hex()), 'small_encrypt_seckey_reencoded', '#0 ' + '00' * 162)
            add('adaptor_encrypt #2 %s %s %s %s' % (h32(d), pk_obj(Y), h32(m), (b32(enc(k)) + b32(enc(k2)) + b'\x07').hex()), 'small_encrypt_nonces_reencoded',
                ('#1 ' + ser162(*t).hex()) if t else '#0 ' + '00' * 162)
            add('adaptor_encrypt #%d %s %s %s %s' % (r.below(2), h32(d), pk_obj(Y), h32(m), opt(None if r.chance(1, 2) else r.bytes(32))), 'small_encrypt_default')
            if t is None: continue
            R, Rp, sp, e, s = t
            def V(sp_, e_, s_, msg, cls, exp): add('adaptor_verify %s %s %s %s' % ((ser33(R) + ser33(Rp) + b32(sp_) + b32(e_) + b32(s_)).hex(), pk_obj(X), h32(msg), pk_obj(Y)), cls, None if exp is None else '#%d' % exp)
            V(sp, e, s, m, 'small_verify_honest', 1)
            V(sp, e, s, enc(m % n), 'small_verify_msg_reencoded', 1)
            V(sp, enc(e), s, m, 'small_verify_e_reencoded_accepted', 1)          # e is reduced silently
            V(sp, e, enc(s), m, 'small_verify_valid_proof_s_reencoded', 0)       # the DLEQ response must be < n
            V(enc(sp), e, s, m, 'small_verify_valid_sp_reencoded', 0)            # s' must be < n
            V(sp, e, (s + 1) % n, m, 'small_verify_s_plus_1', None)              # a wrong response passes with probability 1/13 here
            if (sp + 1) % n: V((sp + 1) % n, e, s, m, 'small_verify_sp_plus_1', 0)
            V(sp, e, s, (m + 1) & TOP, 'small_verify_wrong_msg', 0)
            sig = ser162(R, Rp, sp, e, s); sigr = R[0] % n
            ss = sp * inv(y, n) % n; ss = ss if ss <= n // 2 else n - ss
            add('adaptor_decrypt %s %s' % (h32(y), sig.hex()), 'small_decrypt', '#1 ' + h32(sigr) + h32(ss))
            add('adaptor_decrypt %s %s' % (h32(enc(y)), sig.hex()), 'small_decrypt_key_reencoded', '#0 ' + '00' * 64)
            add('adaptor_decrypt %s %s' % (h32(y), (sig[:66] + b32(enc(sp)) + sig[98:]).hex()), 'small_decrypt_sp_reencoded', '#0 ' + '00' * 64)
            add('adaptor_recover %s%s %s %s' % (h32(sigr), h32(ss), sig.hex(), pk_obj(Y)), 'small_recover', '#1 ' + h32(y))
            add('adaptor_recover %s%s %s %s' % (h32(sigr), h32(n - ss), sig.hex(), pk_obj(Y)), 'small_recover_negated_s', '#1 ' + h32(y))
            add('adaptor_recover %s%s %s %s' % (h32((sigr + 1) % n), h32(ss), sig.hex(), pk_obj(Y)), 'small_recover_r_mismatch', '#0')
            add('adaptor_recover %s%s %s %s' % (h32(sigr), h32(ss), (sig[:66] + b32(enc(sp)) + sig[98:]).hex(), pk_obj(Y)), 'small_recover_sp_reencoded', '#0')
    return sg, cases, expect

def build_impl_tables(outdir, name, tabs, flags):
    """vlib.build_impl restricted to the given op tables (same compiler, same flags, same driver)"""
    os.makedirs(outdir, exist_ok=True)
    hd = os.path.join(vlib.ROOT, 'harness'); out = os.path.join(outdir, name)
    with open(os.path.join(outdir, 'ops_all.h'), 'w') as f:
        for t in tabs: f.write('#include "ops_%s.h"\n' % t)
        f.write('#define ALL_OP_TABLES ' + ' '.join('ops_%s,' % t for t in tabs) + '\n')
    cmd = ['gcc', '-O2', '-w', '-DSECP256K1_ZKP_VERIF=1', '-I' + outdir, '-I' + vlib.REPO, '-I' + vlib.REPO + '/src', '-I' + hd] + list(flags) + ['-o', out, os.path.join(hd, 'impl_driver.c')]
    rc, o = vlib.sh(cmd, timeout=900)
    if rc != 0: raise vlib.BuildError('implementation harness does not compile:\n' + o[-3000:])
    return out

def gen(chk, impl=None):
    g = Gen(chk)
    gen_encrypt(g); gen_nonce(g)
    honest = gen_verify(g)
    gen_decrypt_recover(g, honest)
    if impl: pipeline(chk, g, impl)
    return g

def run(chk):
    impl, model, ie, me = runners(chk)
    chk.coq()
    g = gen(chk, impl)
    ri, rm = chk.correspond(impl, model, 'ecdsa_adaptor api')
    # independent expectations (Python computation of what an honest / adversarial case must give)
    nexp = 0
    for idx, want in g.expect.items():
        nexp += 1
        if ri[idx] != want and len(chk.violations) < 20:
            chk.violations.append({'kind': 'correspondence', 'class': 'expectation:' + chk.cases[idx][1], 'case': chk.cases[idx][0], 'impl': ri[idx], 'model': rm[idx], 'expected': want})
    # the repository's own order-13 test group: re-encodings v + 13*j of the scalars of VALID adaptor signatures
    # (this harness carries the adaptor op table only: the other modules' tables need not build in the scalar_low configuration)
    try:
        impl13 = build_impl_tables(os.path.join(chk.dir, 'sg13'), 'impl13', ['adaptor'], ['-DEXHAUSTIVE_TEST_ORDER=13'])
    except vlib.BuildError as e:
        impl13 = None
        chk.notes.append('SMALL-GROUP STAGE SKIPPED: the harness does not build with -DEXHAUSTIVE_TEST_ORDER=13 (%s)' % str(e).strip().split('\n')[-1][:300])
        chk.extra['small_group_stage'] = 'skipped: harness build failed'
    sg, cases13, expect13 = gen_small_group(chk)
    if impl13:
        ri13, rm13 = chk.correspond(impl13, model, 'ecdsa_adaptor api, EXHAUSTIVE_TEST_ORDER=13 build vs model on the order-13 group', model_extra=sg.params(), cases=cases13)
        chk.extra['small_group_stage'] = 'run'
    else: expect13 = {}
    for idx, want in expect13.items():
        nexp += 1
        if ri13[idx] != want and len(chk.violations) < 20:
            chk.violations.append({'kind': 'correspondence', 'class': 'expectation:' + cases13[idx][1], 'case': cases13[idx][0], 'impl': ri13[idx], 'model': rm13[idx], 'expected': want,
                                   'note': 'small group: build the harness with -DEXHAUSTIVE_TEST_ORDER=13, run the model with ' + ' '.join(sg.params())})
    chk.notes.append('%d cases carried an independently computed expected result (all met: %s)' % (nexp, not any(v.get('expected') for v in chk.violations)))
