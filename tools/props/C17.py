"""C17 - Schnorr half-aggregation (DESIGN.md section 5, C17).
Two correspondences: secp256k1 (default build) and the repository's own order-13 group (harness built
with -DEXHAUSTIVE_TEST_ORDER=13, model run with the matching --params): only there every scalar has
re-encodings s+13k that fit in 32 bytes, which is what makes the `s >= n` rejection observable for n >= 1."""
from props.common import *
from props import c17_util as U
import vlib, os

FINISH = dict(level='proof', technique='Coq theorems about the executable half-aggregation model (Properties_C17.v: incremental aggregation over any split = one-shot, exact length, closed form of the aggregate, rejection clauses, completeness under the group premises) + differential correspondence of the model with the C implementation built from the working tree, on secp256k1 and on the EXHAUSTIVE_TEST_ORDER=13 group',
              trusted=TRUSTED_COMMON + ['aggregate_verifies (completeness) is stated under the explicit premise MathFacts P (p, n prime; group law of the curve; n*G = infinity) and for signatures valid in the lifted form s*G = lift_x(r) + e*P; all other C17 theorems need only 0 < n <= 2^256',
                                        'order-13 correspondence only feeds points of the order-13 subgroup (outside it the result of secp256k1_ecmult depends on the multiplication algorithm); on secp256k1 the dropped s >= n check is observable only for n = 0 signatures (aggsig = bytes of n), in the order-13 group for every n',
                                        'scalar_low (EXHAUSTIVE_TEST_ORDER builds): secp256k1_scalar_set_b32 reduces byte by byte and sets overflow iff some running value reaches the order, which is equivalent to value >= order; Model/Base.v sc_of_b32 is used unchanged'])

def runners(chk):
    impl = vlib.build_impl(chk.dir, name='impl')
    model = vlib.ensure_model('halfagg')
    return impl, model, (), ()

def runners13(chk):
    impl13 = vlib.build_impl(chk.dir, name='impl13', flags=['-DEXHAUSTIVE_TEST_ORDER=13'])
    return impl13, vlib.ensure_model('halfagg'), (), tuple(U.ORDER13.params())

# ------------------------------------------------------------------ material
class Pool:
    """key pairs and nonce pairs computed once (python scalar multiplication is slow)"""
    def __init__(self, cv, rng, nkeys, nnonces, small=False):
        self.cv, self.r = cv, rng
        sk = (lambda: 1 + rng.below(cv.n - 1)) if small else rng.seckey
        self.keys = [U.xonly_key(cv, sk()) for _ in range(nkeys)]
        self.nonces = []
        for _ in range(nnonces):
            k = sk(); self.nonces.append((k, cv.mul(k, cv.G)))
    def sign(self, key, msg):
        cv = self.cv; d, Pt = key; k0, R = self.r.choice(self.nonces)
        k = (cv.n - k0) % cv.n if R[1] & 1 else k0
        e = int.from_bytes(U.tagged("BIP0340/challenge", U.b32(R[0]) + U.b32(Pt[0]) + msg), 'big') % cv.n
        return U.b32(R[0]) + U.b32((k + e * d) % cv.n)
    def batch(self, n):
        keys = [self.r.choice(self.keys) for _ in range(n)]
        msgs = [self.r.bytes(32) if self.r.chance(7, 8) else bytes([self.r.below(2) * 255]) * 32 for _ in range(n)]
        sigs = [self.sign(k, m) for k, m in zip(keys, msgs)]
        return [k[1] for k in keys], msgs, sigs

def cat(l): return b''.join(l)
def pkcat(pks): return cat(U.pk_obj(p) for p in pks)
def f(b): return '-' if b is None else hx(b)

def line_inc(buf, alen, pks, msgs, sigs, nb, nn):
    return 'schnorrsig_inc_aggregate %s %s %s %s %s #%d #%d' % (f(buf), '-' if alen is None else '#%d' % alen, f(pks), f(msgs), f(sigs), nb, nn)
def line_agg(buf, alen, pks, msgs, sigs, n):
    return 'schnorrsig_aggregate %s %s %s %s %s #%d' % (f(buf), '-' if alen is None else '#%d' % alen, f(pks), f(msgs), f(sigs), n)
def line_ver(pks, msgs, n, agg):
    return 'schnorrsig_aggverify %s %s #%d %s' % (f(pks), f(msgs), n, f(agg))

def random_split(r, n, zero_parts=True):
    parts = []; left = n
    while left > 0:
        k = 1 + r.below(left) if r.chance(1, 2) else 1 + r.below(min(left, 4))
        parts.append(k); left -= k
        if zero_parts and r.chance(1, 6): parts.append(0)
    if zero_parts and r.chance(1, 6): parts.insert(0, 0)
    return parts

# ------------------------------------------------------------------ chains of incremental aggregation
def run_chains(chk, impl, jobs, pfx=''):
    """jobs: (pks, msgs, sigs, parts, bufsize).  Stage k of every job is fed the buffer the IMPLEMENTATION
    returned at stage k-1; every stage line is also recorded for the model comparison.  Finally the chained
    buffer must equal the implementation's own one-shot result."""
    r = chk.rng
    state = []
    first = []
    for (pks, msgs, sigs, parts, bufsize) in jobs:
        n = len(sigs); buf0 = r.bytes(bufsize)
        first.append(line_agg(buf0, bufsize, pkcat(pks), cat(msgs), cat(sigs), n))
        state.append(dict(buf=buf0, done=0, parts=list(parts), ok=True, lines=[]))
    for l in first: chk.add(l, pfx + 'agg_oneshot')
    oneshot = vlib.run_cases(impl, first, (), 8)
    rounds = max([len(j[3]) for j in jobs] + [0])
    for k in range(rounds):
        lines = []; idx = []
        for ji, (pks, msgs, sigs, parts, bufsize) in enumerate(jobs):
            st = state[ji]
            if k >= len(parts) or not st['ok']: continue
            nb, nn = st['done'], parts[k]; need = 32 * (nb + nn + 1)
            alen = bufsize if r.chance(1, 2) else need + r.below(bufsize - need + 1)
            l = line_inc(st['buf'], alen, pkcat(pks[:nb + nn]), cat(msgs[:nb + nn]), cat(sigs[nb:nb + nn]), nb, nn)
            lines.append(l); idx.append(ji); st['lines'].append(l)
            chk.add(l, pfx + ('inc_all_splits' if len(sigs) <= 6 else 'inc_random_split'))
        res = vlib.run_cases(impl, lines, (), 8)
        for ji, l, o in zip(idx, lines, res):
            st = state[ji]; fld = o.split(' ')
            if len(fld) >= 3 and fld[0] == '#1' and len(fld[2]) == 2 * len(st['buf']):
                st['buf'] = bytes.fromhex(fld[2]); st['done'] += jobs[ji][3][k]
            else:
                st['ok'] = False      # the model comparison of this very line reports it
    bad = 0
    for ji, (pks, msgs, sigs, parts, bufsize) in enumerate(jobs):
        st = state[ji]; n = len(sigs)
        if not st['ok'] or not parts: continue
        fld = oneshot[ji].split(' ')
        one = bytes.fromhex(fld[2])[:32 * (n + 1)] if len(fld) >= 3 and fld[0] == '#1' else None
        if one != st['buf'][:32 * (n + 1)]:
            bad += 1
            if len(chk.violations) < 20:
                chk.violations.append({'kind': 'correspondence', 'class': pfx + 'split_ne_oneshot', 'case': ' ;; '.join([first[ji]] + st['lines'])[:20000],
                                       'impl': 'chained: ' + st['buf'][:32 * (n + 1)].hex(), 'model': 'one-shot (impl): ' + (one.hex() if one else oneshot[ji][:200])})
    chk.notes.append('%sincremental chains: %d jobs, %d differ from the one-shot result' % (pfx, len(jobs), bad))

# ------------------------------------------------------------------ generators
def gen_secp(chk, impl):
    r = chk.rng; cv = U.SECP; p, N_ = cv.p, cv.n
    pool = Pool(cv, r, 40, 60)
    # --- one-shot + splits + honest verification for n = 0..64
    jobs = []
    ver_ns = set(range(0, 13)) | {16, 31, 32, 33, 63, 64} if chk.quick() else set(range(65))
    for n in range(65):
        pks, msgs, sigs = pool.batch(n)
        if n <= 6:
            for parts in U.compositions(n):
                jobs.append((pks, msgs, sigs, parts, 32 * (n + 1) + 32 * r.below(3)))
            jobs.append((pks, msgs, sigs, random_split(r, n), 32 * (n + 2)))       # with empty parts
        else:
            for _ in range(chk.scale(2, 8)):
                jobs.append((pks, msgs, sigs, random_split(r, n), 32 * (n + 1) + r.below(70)))
        if n in ver_ns:
            agg = U.aggregate(cv, pks, msgs, sigs)
            chk.add(line_ver(pkcat(pks), cat(msgs), n, agg), 'aggverify_honest')
    run_chains(chk, impl, jobs)
    # --- buffer length contract: every *aggsig_len from 0 to 32(n+2) (+ a few beyond)
    for n in (0, 1, 2, 3, 5):
        pks, msgs, sigs = pool.batch(n)
        for alen in range(0, 32 * (n + 2) + 3):
            if chk.quick() and n >= 3 and alen % 32 not in (0, 1, 31) and not r.chance(1, 6): continue
            buf = r.bytes(alen + (r.below(40) if r.chance(1, 4) else 0))
            chk.add(line_agg(buf, alen, pkcat(pks), cat(msgs), cat(sigs), n), 'agg_buffer_len')
        for nb in range(0, n + 1):
            base = U.aggregate(cv, pks[:nb], msgs[:nb], sigs[:nb])
            for alen in sorted(set([0, 31, 32, 32 * n, 32 * n + 31, 32 * (n + 1) - 1, 32 * (n + 1), 32 * (n + 1) + 1, 32 * (n + 2)] + [r.below(32 * (n + 2) + 1) for _ in range(4)])):
                size = max(alen, len(base))
                buf = (base + r.bytes(size))[:size]
                if alen > len(buf): continue
                chk.add(line_inc(buf, alen, pkcat(pks), cat(msgs), cat(sigs[nb:]), nb, n - nb), 'inc_buffer_len')
    # --- argument checks, n_before + n_new wrap-around
    pks, msgs, sigs = pool.batch(3); buf = r.bytes(160); M = 1 << 64
    A = (pkcat(pks), cat(msgs), cat(sigs))
    for nb, nn in [(M - 1, 1), (M - 1, 2), (M - 2, 3), (M // 2, M // 2), (M // 2, M // 2 + 1), (M - 1, M - 1), (1, M - 1), (2, M - 1), (M - 1, 0), (0, M - 1), (M // 32, 1), (M // 32 - 1, 1), (3, M - 3), (3, M - 2)]:
        chk.add(line_inc(buf, 160, A[0], A[1], A[2], nb, nn), 'inc_count_overflow')
        chk.add(line_inc(buf, 160, None, None, None, nb, nn), 'inc_count_overflow')
    agg2 = U.aggregate(cv, pks[:2], msgs[:2], sigs[:2]) + r.bytes(64)
    for mask in range(32):
        a = [None if mask & 1 else agg2, None if mask & 2 else 160, None if mask & 4 else A[0], None if mask & 8 else A[1], None if mask & 16 else sigs[2]]
        chk.add(line_inc(a[0], a[1], a[2], a[3], a[4], 2, 1), 'inc_null_args')
        chk.add(line_inc(a[0], a[1], a[2], a[3], a[4], 0, 0), 'inc_null_args')
        chk.add(line_inc(a[0], a[1], a[2], a[3], a[4], 2, 0), 'inc_null_args')
        chk.add(line_agg(a[0], a[1], a[2], a[3], None if mask & 16 else A[2], 3), 'agg_null_args')
        chk.add(line_agg(a[0], a[1], a[2], a[3], None if mask & 16 else A[2], 0), 'agg_null_args')
    aggok = U.aggregate(cv, pks, msgs, sigs)
    for mask in range(8):
        a = [None if mask & 1 else A[0], None if mask & 2 else A[1], None if mask & 4 else aggok]
        chk.add(line_ver(a[0], a[1], 3, a[2]), 'aggverify_null_args')
        chk.add(line_ver(a[0], a[1], 0, None if mask & 4 else bytes(32)), 'aggverify_null_args')
    # --- aggregation does not validate: arbitrary r_i, s_i >= n silently reduced, invalid key objects
    for i in range(chk.scale(80, 600)):
        n = 1 + r.below(5); pks, msgs, sigs = pool.batch(n); nb = r.below(n + 1)
        sigs = list(sigs); j = r.below(n); kind = r.below(4)
        sv = int.from_bytes(sigs[j][32:], 'big')
        if kind == 0: sigs[j] = sigs[j][:32] + U.b32(r.choice([N_, N_ + 1, (1 << 256) - 1, N_ + r.bits(127), 0, sv + N_ if sv + N_ < (1 << 256) else N_]))
        elif kind == 1: sigs[j] = U.b32(r.choice([p, p + 1, (1 << 256) - 1, 0, 5, r.bits(256)])) + sigs[j][32:]
        elif kind == 2: sigs[j] = r.bytes(64)
        base = U.aggregate(cv, pks[:nb], msgs[:nb], sigs[:nb])
        if kind == 3 and nb > 0: base = base[:-32] + U.b32(r.choice([N_, N_ + 2, (1 << 256) - 1, int.from_bytes(base[-32:], 'big') ^ (1 << r.below(256))]))
        buf = base + r.bytes(32 * (n - nb) + r.below(33))
        chk.add(line_inc(buf, len(buf), pkcat(pks), cat(msgs), cat(sigs[nb:]), nb, n - nb), 'inc_unvalidated_inputs')
        # the (possibly invalid) aggregate must then fail / pass verification identically
        if r.chance(1, 3):
            chk.add(line_ver(pkcat(pks), cat(msgs), n, U.aggregate(cv, pks, msgs, sigs)), 'aggverify_of_altered_signature')
    for i in range(chk.scale(24, 200)):
        n = 1 + r.below(5); pks, msgs, sigs = pool.batch(n); nb = r.below(n + 1); j = r.below(n)
        objs = [U.pk_obj(q) for q in pks]; objs[j] = bytes(64) if r.chance(2, 3) else bytes(32) + r.bytes(32)
        if r.chance(1, 4): objs[r.below(n)] = bytes(64)
        base = U.aggregate(cv, pks[:nb], msgs[:nb], sigs[:nb]); buf = base + r.bytes(32 * (n - nb))
        chk.add(line_inc(buf, len(buf), cat(objs), cat(msgs), cat(sigs[nb:]), nb, n - nb), 'inc_invalid_key_object')
        agg = bytearray(U.aggregate(cv, pks, msgs, sigs))
        if r.chance(1, 2):                      # a bad r_i before / after the bad key decides whether the callback fires
            k = r.below(n); agg[32 * k:32 * k + 32] = U.b32(r.choice([p, (1 << 256) - 1, 5]))
        chk.add(line_ver(cat(objs), cat(msgs), n, bytes(agg)), 'aggverify_invalid_key_object')
    # --- verification, negative cases
    chk.add(line_ver(None, None, 0, U.b32(N_)), 'aggverify_empty_s_eq_n')          # n = 0: s = n is a re-encoding of the valid s = 0
    chk.add(line_ver(b'', b'', 0, U.b32(N_)), 'aggverify_empty_s_eq_n')
    for s in (0, 1, N_ - 1, N_ + 1, 2 * N_ if 2 * N_ < (1 << 256) else N_, (1 << 256) - 1): chk.add(line_ver(None, None, 0, U.b32(s)), 'aggverify_empty')
    offcurve = [x for x in range(1, 60) if not cv.on_curve_x(x)][:8]
    for i in range(chk.scale(144, 1200)):
        n = r.choice([1, 1, 2, 2, 3, 4, 5, 8]) if chk.quick() else 1 + r.below(20)
        pks, msgs, sigs = pool.batch(n); agg = U.aggregate(cv, pks, msgs, sigs)
        P_, M_ = pkcat(pks), cat(msgs)
        j = r.below(n); kind = i % 12; a = bytearray(agg); cls = None
        sv = int.from_bytes(agg[-32:], 'big')
        if kind == 0: bit = r.below(8 * len(a)); a[bit // 8] ^= 1 << (bit % 8); cls = 'aggverify_bit_flip'
        elif kind == 1: a[32 * j:32 * j + 32] = U.b32(r.choice([p, p + 1, p + 2, (1 << 256) - 1, p + int.from_bytes(agg[32 * j:32 * j + 32], 'big') % ((1 << 256) - p)])); cls = 'aggverify_r_ge_p'
        elif kind == 2: a[32 * j:32 * j + 32] = U.b32(r.choice(offcurve)); cls = 'aggverify_r_offcurve'
        elif kind == 3: a[-32:] = U.b32(r.choice([N_, N_ + 1, (1 << 256) - 1, N_ + r.bits(120), sv + N_ if sv + N_ < (1 << 256) else N_ + 5])); cls = 'aggverify_s_ge_n'
        elif kind == 4: a = a + r.bytes(1 + r.below(31)) if r.chance(1, 2) else a[:len(a) - 1 - r.below(31)]; cls = 'aggverify_len_not_mult_32'
        elif kind == 5:
            # same bytes, count n+1 / n-1 (with enough keys supplied), and aggregates of n+-1 signatures under count n
            pk2, ms2, sg2 = pool.batch(1)
            chk.add(line_ver(P_ + pkcat(pk2), M_ + ms2[0], n + 1, agg), 'aggverify_len_for_other_n')
            chk.add(line_ver(P_, M_, n - 1, agg), 'aggverify_len_for_other_n')
            chk.add(line_ver(P_, M_, n, U.aggregate(cv, pks + pk2, msgs + ms2, sigs + sg2)), 'aggverify_len_for_other_n')
            chk.add(line_ver(P_, M_, n, U.aggregate(cv, pks[:-1], msgs[:-1], sigs[:-1])), 'aggverify_len_for_other_n')
            chk.add(line_ver(P_, M_, n, agg + bytes(32)), 'aggverify_len_for_other_n')
            continue
        elif kind == 6 and n >= 2:
            k = (j + 1 + r.below(n - 1)) % n; q = list(pks); q[j], q[k] = q[k], q[j]; P_ = pkcat(q); cls = 'aggverify_reordered_keys'
        elif kind == 7 and n >= 2:
            k = (j + 1 + r.below(n - 1)) % n; q = list(msgs); q[j], q[k] = q[k], q[j]; M_ = cat(q); cls = 'aggverify_reordered_msgs'
        elif kind == 8: q = list(msgs); q[j] = bytes([q[j][0] ^ 1]) + q[j][1:]; M_ = cat(q); cls = 'aggverify_altered_msg'
        elif kind == 9: q = list(pks); q[j] = r.choice(pool.keys)[1]; P_ = pkcat(q); cls = 'aggverify_altered_key'
        elif kind == 10:
            s2 = list(sigs); s2[j] = s2[j][:32] + U.b32((int.from_bytes(s2[j][32:], 'big') + 1) % N_); a = bytearray(U.aggregate(cv, pks, msgs, s2)); cls = 'aggverify_one_signature_altered'
        elif kind == 11 and n >= 2:
            k = (j + 1) % n; a[32 * j:32 * j + 32], a[32 * k:32 * k + 32] = agg[32 * k:32 * k + 32], agg[32 * j:32 * j + 32]; cls = 'aggverify_reordered_r'
        if cls is None: cls = 'aggverify_honest'
        chk.add(line_ver(P_, M_, n, bytes(a)), cls)

def gen_small(chk, impl13, cv, pfx='o13_'):
    """the order-13 group: keys, nonces, R_i all in the subgroup generated by G"""
    r = chk.rng; n_ = cv.n; p = cv.p
    pool = Pool(cv, r, 12, 12, small=True)
    sub_x = sorted(set(cv.mul(k, cv.G)[0] for k in range(1, n_)))
    big = [1, 2, 3, 1 << 64, (1 << 128) + 1, (1 << 250), ((1 << 256) - 1) // n_ - 1, ((1 << 256) - 1) // n_]
    def reenc(s, k):
        v = s + n_ * k
        while v >= (1 << 256): v -= n_
        return U.b32(v)
    jobs = []
    for n in list(range(0, 7)) + [9, 13, 20]:
        for rep in range(chk.scale(3, 12)):
            pks, msgs, sigs = pool.batch(n)
            agg = U.aggregate(cv, pks, msgs, sigs); s = int.from_bytes(agg[-32:], 'big'); P_, M_ = pkcat(pks), cat(msgs)
            chk.add(line_ver(P_, M_, n, agg), pfx + 'aggverify_honest')
            for k in big if rep == 0 else [r.choice(big), 1 + r.bits(r.choice([8, 64, 200, 250]))]:
                chk.add(line_ver(P_, M_, n, agg[:-32] + reenc(s, k)), pfx + 'aggverify_s_reencoded')      # must be rejected: s >= n
            for ds in ([1, 5, 12] if rep == 0 else [1 + r.below(n_ - 1)]):
                w = (s + ds) % n_
                chk.add(line_ver(P_, M_, n, agg[:-32] + U.b32(w)), pfx + 'aggverify_wrong_s')
                chk.add(line_ver(P_, M_, n, agg[:-32] + reenc(w, r.choice(big))), pfx + 'aggverify_wrong_s_reencoded')
            if n >= 1:
                j = r.below(n); a = bytearray(agg)
                a[32 * j:32 * j + 32] = U.b32(r.choice([x for x in sub_x if U.b32(x) != agg[32 * j:32 * j + 32]]))
                chk.add(line_ver(P_, M_, n, bytes(a)), pfx + 'aggverify_other_subgroup_r')
                a = bytearray(agg); a[32 * j:32 * j + 32] = U.b32(r.choice([p, p + 1, (1 << 256) - 1])); chk.add(line_ver(P_, M_, n, bytes(a)), pfx + 'aggverify_r_ge_p')
                # input signatures with re-encoded s_i: aggregation reduces silently, result identical
                s2 = [sg[:32] + reenc(int.from_bytes(sg[32:], 'big'), r.choice(big)) if r.chance(1, 2) else sg for sg in sigs]
                buf = r.bytes(32 * (n + 1))
                chk.add(line_agg(buf, len(buf), P_, M_, cat(s2), n), pfx + 'agg_reencoded_inputs')
                nb = r.below(n + 1); base = U.aggregate(cv, pks[:nb], msgs[:nb], sigs[:nb])
                if nb > 0: base = base[:-32] + reenc(int.from_bytes(base[-32:], 'big'), r.choice(big))
                buf = base + r.bytes(32 * (n - nb))
                chk.add(line_inc(buf, len(buf), P_, M_, cat(s2[nb:]), nb, n - nb), pfx + 'inc_reencoded_inputs')
            if n <= 4:
                for parts in U.compositions(n): jobs.append((pks, msgs, sigs, parts, 32 * (n + 1)))
            else:
                jobs.append((pks, msgs, sigs, random_split(r, n), 32 * (n + 1) + r.below(40)))
    chk.add(line_ver(None, None, 0, U.b32(n_)), pfx + 'aggverify_empty_s_eq_n')
    return jobs

def expected(chk, cases, ri):
    """completeness is not a Coq theorem here (it needs the group law): honest aggregates must verify on the
    implementation; the classes below are rejected by theorem on the model side, checked again on the C side"""
    zero = ('aggverify_s_reencoded', 'aggverify_s_ge_n', 'aggverify_r_ge_p', 'aggverify_r_offcurve', 'aggverify_len_not_mult_32',
            'aggverify_len_for_other_n', 'aggverify_empty_s_eq_n', 'aggverify_wrong_s', 'aggverify_wrong_s_reencoded',
            'aggverify_one_signature_altered', 'aggverify_altered_msg')
    for (line, cls), a in zip(cases, ri):
        c = cls[4:] if cls.startswith('o13_') else cls
        want = '#1' if c == 'aggverify_honest' else ('#0' if c in zero else None)
        if want and a != want and len(chk.violations) < 20:
            chk.violations.append({'kind': 'correspondence', 'class': cls, 'case': line, 'impl': a, 'model': 'expected ' + want + ' (property statement)'})

def asan_pass(chk, cases, ri, label):
    """thorough tier: the same lines on a clang ASan+UBSan build must give the same result lines (a sanitizer
    report aborts the driver and shows up as CRASH lines)"""
    import os
    try:
        exe = vlib.build_impl(chk.dir, name='impl_asan', cc='clang', opt='-O1', flags=['-fsanitize=address,undefined', '-fno-sanitize-recover=undefined', '-g', '-DVERIF_EXACT_BUFFERS=1'])
    except vlib.BuildError as e:
        chk.notes.append('ASan build not available: ' + str(e)[-200:]); return
    os.environ.setdefault('ASAN_OPTIONS', 'detect_leaks=0')
    out = vlib.run_cases(exe, [c[0] for c in cases], (), 16)
    bad = [(c, a, b) for c, a, b in zip(cases, ri, out) if a != b]
    chk.notes.append('%s: ASan/UBSan build, %d cases, %d differ from the plain build' % (label, len(cases), len(bad)))
    for (line, cls), a, b in bad[:5]:
        if len(chk.violations) < 20:
            chk.violations.append({'kind': 'correspondence', 'class': 'asan_' + cls, 'case': line, 'impl': 'ASan build: ' + b[:600], 'model': 'plain build: ' + a[:300]})

def run(chk):
    impl, model, ie, me = runners(chk)
    impl13, model13, ie13, me13 = runners13(chk)
    chk.coq()
    gen_secp(chk, impl)
    ri, rm = chk.correspond(impl, model, 'halfagg api, secp256k1')
    expected(chk, chk.cases, ri)
    if not chk.quick(): asan_pass(chk, list(chk.cases), ri, 'halfagg api, secp256k1')
    mark = len(chk.cases)
    jobs = gen_small(chk, impl13, U.ORDER13)
    run_chains(chk, impl13, jobs, 'o13_')
    ri, rm = chk.correspond(impl13, model13, 'halfagg api, EXHAUSTIVE_TEST_ORDER=13 group', impl_extra=ie13, model_extra=me13, cases=chk.cases[mark:])
    expected(chk, chk.cases[mark:], ri)
    chk.extra['small_group'] = dict(order=13, params=U.ORDER13.params()[1:], cases=len(chk.cases) - mark)

def replay(chk, rep):
    """order-13 cases (class o13_*) are replayed on the order-13 build"""
    std = runners(chk); small = runners13(chk); bad = 0
    for v in rep.get('violations', []):
        if v['kind'] != 'correspondence':
            print('obligation replay: re-run ./check %s (obligation: %s)' % (chk.prop, v.get('name'))); continue
        impl, model, ie, me = small if v.get('class', '').startswith('o13_') else std
        for case in v['case'].split(' ;; '):
            a = vlib.run_cases(impl, [case], ie, 1)[0]; b = vlib.run_cases(model, [case], me, 1)[0]
            print('case : ' + case[:2000]); print('impl : ' + a[:2000]); print('model: ' + b[:2000])
            if a != b: bad += 1
        if 'split_ne_oneshot' in v.get('class', ''): bad += 1; print('chained result differs from one-shot result (recorded)')
    if bad: print('VIOLATION property=%s replay=%s' % (chk.prop, 'recorded')); return 1
    print('replay: implementation and model agree on all recorded cases'); return 0
