"""C07 - untrusted bytes never cause undefined behaviour or callback aborts (partial)"""
import os, glob
from props.common import *
FINISH = dict(level='proof', technique='Coq theorems on the parser/verifier models (only 0/1, no callback on parsed objects, DER result independent of bytes outside the input) + the implementation built with AddressSanitizer/UndefinedBehaviorSanitizer consuming the corpus of every API family, content and length mutations of every serialized input and random strings of every length, compared with the models (return code, outputs, callback counts, allocation deltas)',
              trusted=TRUSTED_COMMON + ['memory safety / absence of UB of the compiled code is OBSERVED on generated inputs (ASan, UBSan), not proved; libc is trusted'])
# serialized (attacker-controlled) inputs per op: field index -> True if its length is free, False if only the content may vary
UNTRUSTED = {
 'ec_pubkey_parse': {1: True}, 'xonly_pubkey_parse': {1: False}, 'ecdsa_signature_parse_der': {1: True}, 'ecdsa_signature_parse_compact': {1: False},
 'recoverable_parse_compact': {1: False}, 'schnorrsig_verify': {1: False, 2: True}, 'ecdsa_verify': {2: False}, 'ecdsa_recover': {2: False},
 'adaptor_verify': {1: False, 3: False}, 'adaptor_decrypt': {2: False}, 'adaptor_recover': {2: False},
 'bppp_gens_parse': {1: True}, 'bppp_points_parse': {1: True}, 'bppp_verify': {7: True},
 'ellswift_decode': {1: False}, 'ellswift_xdh': {1: False, 2: False},
 'schnorrsig_aggverify': {4: True, 2: True},
 'musig_aggnonce_parse': {1: False}, 'musig_pubnonce_parse': {1: True}, 'musig_partial_sig_parse': {1: False},
 'generator_parse': {1: False}, 'pedersen_commitment_parse': {1: False},
 'rangeproof_info': {1: True}, 'rangeproof_verify': {2: True, 3: True}, 'rangeproof_rewind': {3: True},
 's2c_opening_parse': {1: False}, 'ecdsa_s2c_verify_commit': {2: False},
 'surjectionproof_parse': {1: True}, 'whitelist_signature_parse': {1: True}, 'whitelist_parse_verify': {1: True},
}
BOUND = [b'\x00' * 32, b'\xff' * 32, b32(N), b32(N - 1), b32(P), b32(P - 1), b32(P + 1), b32(1)]

def mutate(r, b, free_len):
    c = r.below(11 if free_len else 7)
    ba = bytearray(b)
    if c >= (9 if free_len else 5):      # header / length-field edit: small change in one of the first bytes
        if ba: i = r.below(min(4, len(ba))); ba[i] = (ba[i] + r.choice([1, 2, 3, 7, 8, 255, 254, 128])) & 255
        return bytes(ba)
    if c == 0 and ba: i = r.below(len(ba)); ba[i] ^= 1 << r.below(8)
    elif c == 1 and ba: i = r.below(len(ba)); ba[i] = r.choice([0, 0xff, 0x80, 0x7f, 1])
    elif c == 2 and len(ba) >= 32: off = r.choice([0, 1, len(ba) - 32, max(0, (len(ba) - 32) // 33 * 33 + 1)]); off = min(off, len(ba) - 32); ba[off:off + 32] = r.choice(BOUND)
    elif c == 3 and ba: i = r.below(len(ba)); j = min(len(ba), i + 1 + r.below(8)); ba[i:j] = r.bytes(j - i)
    elif c == 4: ba = bytearray(r.bytes(len(ba)))
    elif c == 5: ba = ba[:r.below(len(ba) + 1)]
    elif c == 6: ba = ba + bytearray(r.bytes(1 + r.below(40)))
    elif c == 7 and ba: ba = ba[:-1]
    else: ba = bytearray(r.bytes(r.below(len(ba) + 40)))
    return bytes(ba)

def runners(chk): return vlib.build_impl(chk.dir), None, (), ()

def run(chk):
    r = chk.rng
    chk.coq()
    asan = vlib.build_impl(chk.dir, name='impl_asan', cc='clang', opt='-O1', flags=['-g', '-DVERIF_EXACT_BUFFERS=1', '-fsanitize=address,undefined', '-fno-sanitize-recover=undefined', '-fno-omit-frame-pointer'])
    env_note = 'ASAN_OPTIONS default (abort on error); UBSan non-recoverable'
    tot_bad = 0
    for f in sorted(glob.glob(os.path.join(vlib.ROOT, 'corpus', 'api', '*.cases'))):
        g = os.path.basename(f)[:-6]
        try: model = vlib.ensure_model(g)
        except vlib.BuildError as e: chk.obligation('model group %s builds' % g, False, str(e)); continue
        lines = [l.rstrip('\n').split('\t', 1) for l in open(f) if '\t' in l]
        cases = [(line, 'corpus_' + g) for c, line in lines]
        nm = chk.scale(14, 120)
        for c, line in lines:
            fl = line.split(' ')
            spec = UNTRUSTED.get(fl[0])
            if not spec: continue
            for k in range(nm):
                i = r.choice(sorted(spec)); free = spec[i]
                if i >= len(fl) or fl[i] in ('-',) or fl[i].startswith('#'): continue
                b = bytes.fromhex(fl[i]) if fl[i] != '.' else b''
                nb = mutate(r, b, free)
                cases.append((' '.join(fl[:i] + [hx(nb)] + fl[i + 1:]), 'mut_%s_f%d_%s' % (fl[0], i, 'len' if len(nb) != len(b) else 'content')))
        # random strings of every length for the length-free inputs of this group
        done = set()
        for c, line in lines:
            fl = line.split(' ')
            spec = UNTRUSTED.get(fl[0])
            if not spec or fl[0] in done: continue
            done.add(fl[0])
            for i, free in spec.items():
                if not free or i >= len(fl): continue
                base = len(fl[i]) // 2 if fl[i] not in ('.', '-') else 0
                for L in sorted(set(list(range(0, 90)) + [base - 1, base, base + 1, base + 33, 2 * base] + [r.below(700) for _ in range(chk.scale(10, 100))])):
                    if L < 0: continue
                    nb = r.bytes(L)
                    if L and r.chance(1, 2) and fl[i] not in ('.', '-'): nb = (bytes.fromhex(fl[i]) * (L // max(1, base) + 1))[:L]
                    cases.append((' '.join(fl[:i] + [hx(nb)] + fl[i + 1:]), 'randlen_%s_f%d' % (fl[0], i)))
        if g == 'rangeproof':
            # every size the proof header can announce: exponent, mantissa 1..64 (1..32 rings), optional minimum value, followed by bytes that
            # are long enough to pass the length checks (the exact minimum, and the maximum proof size) - the arrays indexed by ring and by
            # digit are sized for the maximum, which only such headers reach
            tmpl = {}
            for c, line in lines:
                fl = line.split(' ')
                if fl[0] in ('rangeproof_verify', 'rangeproof_rewind', 'rangeproof_info') and fl[0] not in tmpl: tmpl[fl[0]] = fl
            pidx = {'rangeproof_verify': 2, 'rangeproof_rewind': 3, 'rangeproof_info': 1}
            mants = sorted(set([1, 2, 3, 4, 31, 32, 33, 61, 62, 63, 64] + [1 + r.below(64) for _ in range(chk.scale(4, 40))]))
            for op, fl in sorted(tmpl.items()):
                i = pidx[op]
                for mant in mants:
                    for exp in (0, 18) if chk.quick() else (0, 1, 7, 18, 19, 31):
                        for minflag in (0, 1):
                            hdr = bytes([0x40 | (0x20 if minflag else 0) | exp, mant - 1]) + (r.bytes(8) if minflag else b'')
                            rings = mant // 2 + (mant & 1); npub = (mant // 2) * 4 + (mant & 1) * 2
                            need = len(hdr) + ((rings + 6) >> 3) + 32 * (npub + rings - 1) + 32
                            for L in ([need] if op == 'rangeproof_info' else [need, 5134, need - 1]):
                                body = r.bytes(max(0, L - len(hdr)))
                                if r.chance(1, 2): body = bytes(len(body))      # all sign bits clear / all-zero digits
                                elif r.chance(1, 2): body = b'\xff' * len(body)
                                cases.append((' '.join(fl[:i] + [hx(hdr + body)] + fl[i + 1:]), 'header_sweep_%s' % op))
        ri = vlib.run_cases(asan, [c[0] for c in cases], (), 12); rm = vlib.run_cases(model, [c[0] for c in cases])
        bad = 0
        for (line, cls), a, b in zip(cases, ri, rm):
            chk.evaluations += 1; chk.classes[cls.split('_f')[0]] = chk.classes.get(cls.split('_f')[0], 0) + 1
            chk.distinct.add(line[:160] + a[:40])
            if b.startswith('#-99') or b.startswith('#-98') or b.startswith('#-97'): continue
            if a != b or 'ERR' in a:
                bad += 1; chk.disagreement(line, cls, a, b)
        tot_bad += bad
        chk.notes.append('%s under ASan+UBSan: %d cases (corpus, mutations, random lengths), %d disagreements/crashes' % (g, len(cases), bad))
        if cases: chk.samples.append({'case': cases[-1][0][:300], 'class': cases[-1][1], 'impl_asan': ri[-1][:200], 'model': rm[-1][:200]})
    chk.extra['sanitizers'] = env_note
