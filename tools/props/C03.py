"""C03 - key and signature encodings strict, canonical, round-trip"""
from props.common import *
FINISH = dict(level='proof', technique='Coq theorems on the parser/serializer models for all byte strings (Properties_C03.v) + exhaustive structural enumeration compared between model and C',
              trusted=TRUSTED_COMMON)
def runners(chk):
    impl, model = core_runners(chk); return impl, model, (), ()

def der_len(n, form=0):
    if form == 0: return bytes([n]) if n < 128 else (bytes([0x81, n]) if n < 256 else bytes([0x82, n >> 8, n & 255]))
    if form == 1: return bytes([0x81, n & 255])                 # long form, non-minimal when n < 128
    if form == 2: return bytes([0x82, (n >> 8) & 255, n & 255])  # leading zero length byte when n < 256
    if form == 3: return bytes([0x80])                           # indefinite
    if form == 4: return bytes([0xFF])
    if form == 5: return bytes([0x84, 0, 0, 0, n & 255])
    if form == 6: return bytes([0x89] + [0] * 8 + [n & 255])     # more than sizeof(size_t) length bytes
    if form == 7: return bytes([0x88, 0x80] + [0] * 6 + [n & 255])  # huge length
    if form == 8: return bytes([(n + 1) & 0x7f])
    if form == 9: return bytes([(n - 1) & 0x7f])
    return bytes([n & 0x7f])

def der_intbody(v, variant):
    b = v.to_bytes(34, 'big').lstrip(b'\x00') or b'\x00'
    if b[0] & 0x80: b = b'\x00' + b
    if variant == 1: b = b'\x00' + b                   # excessive zero padding
    elif variant == 2: b = b'\xff' + (b if b[0] & 0x80 else bytes([b[0] | 0x80]) + b[1:])   # 0xFF padding, negative
    elif variant == 3: b = b[1:] if (b[0] == 0 and len(b) > 1) else bytes([b[0] | 0x80]) + b[1:]   # negative
    elif variant == 4: b = b''                          # zero length
    elif variant == 5: b = b'\x00' * 2 + b
    return b

def gen_der(chk, r):
    vals = [0, 1, 127, 128, 255, 256, N - 1, N, N + 1, N // 2, N // 2 + 1, P, (1 << 255), (1 << 255) - 1, (1 << 256) - 1, 1 << 256, (1 << 264) - 1, (1 << 248) - 1, 1 << 248]
    count = 0
    def emit(b, cls):
        nonlocal count; count += 1
        chk.add('ecdsa_signature_parse_der %s' % hx(b), cls)
    # systematic: every (length form, int variant) on boundary values
    for v1 in vals:
        for v2 in ([1, N - 1, 1 << 255] if chk.quick() else vals):
            for iv in range(6):
                b1 = der_intbody(v1, iv); b2 = der_intbody(v2, 0)
                body = b'\x02' + der_len(len(b1)) + b1 + b'\x02' + der_len(len(b2)) + b2
                emit(b'\x30' + der_len(len(body)) + body, 'der_int_variant_%d' % iv)
                body = b'\x02' + der_len(len(b2)) + b2 + b'\x02' + der_len(len(b1)) + b1
                emit(b'\x30' + der_len(len(body)) + body, 'der_int_variant_%d_s' % iv)
    for v1 in vals:
        b1 = der_intbody(v1, 0); b2 = der_intbody(r.choice(vals), 0)
        for f1 in range(11):
            for where in range(3):
                l0 = der_len(len(b1), f1 if where == 1 else 0); l2 = der_len(len(b2), f1 if where == 2 else 0)
                body = b'\x02' + l0 + b1 + b'\x02' + l2 + b2
                emit(b'\x30' + der_len(len(body), f1 if where == 0 else 0) + body, 'der_len_form_%d' % f1)
    # tags, trailing bytes, truncation at every position, random mutation of valid encodings
    for i in range(chk.scale(60, 1500)):
        rr, ss = r.choice(vals[:15]) if r.chance(1, 2) else r.scalar256(), r.scalar256()
        good = der_sig(rr % (1 << 256), ss)
        emit(good, 'der_valid_form')
        for t in (0x31, 0x10, 0x00): emit(bytes([t]) + good[1:], 'der_bad_seq_tag')
        k = 2 + (good[1] >= 0x80)
        emit(good[:k] + b'\x03' + good[k + 1:], 'der_bad_int_tag')
        emit(good + b'\x00', 'der_trailing_outside'); emit(good + r.bytes(3), 'der_trailing_outside')
        g2 = bytearray(good + b'\x00'); g2[1] += 1; emit(bytes(g2), 'der_trailing_inside')
        if i < chk.scale(6, 60):
            for cut in range(len(good)): emit(good[:cut], 'der_truncated')
            for pos in range(len(good)):
                for bit in (0, 7, r.below(8)):
                    g = bytearray(good); g[pos] ^= 1 << bit; emit(bytes(g), 'der_bitflip')
    for i in range(chk.scale(300, 20000)):
        L = r.below(80); b = bytearray(r.bytes(L))
        if L > 0 and r.chance(3, 4): b[0] = 0x30
        if L > 1 and r.chance(1, 2): b[1] = L - 2
        if L > 2 and r.chance(1, 2): b[2] = 2
        emit(bytes(b), 'der_random')
    emit(b'', 'der_empty')
    der_wrapping_lengths(chk, emit)
    # 300-byte inputs: long garbage, long-form lengths pointing beyond
    emit(b'\x30\x82\x01\x28' + b'\x02\x82\x01\x24' + b'\x00' * 292, 'der_long'); emit(b'\x30\x81\xff' + b'\x02\x81\xfb' + b'\x01' * 251 + b'\x02\x01\x01', 'der_long')

def der_wrapping_lengths(chk, emit):
    """long-form lengths with MORE than sizeof(size_t) length octets whose low eight octets spell the true length (a parser that
    shifts the leading octets out of its accumulator would accept them); the contents need a length >= 128 so that the wrapped
    value passes the minimality rule: an oversize first INTEGER (parses to an overflowed, i.e. zero, scalar) and a small second one"""
    r = chk.rng
    for ilen in (128, 129, 200):
        body1 = bytes([1 + r.below(0x7f)]) + r.bytes(ilen - 1)
        int1 = b'\x02' + bytes([0x81, ilen]) + body1
        int2 = b'\x02\x01' + bytes([1 + r.below(0x7f)])
        content = int1 + int2; n = len(content)
        canon = bytes([0x81, n]) if n < 256 else bytes([0x82, n >> 8, n & 255])
        emit(b'\x30' + canon + content, 'der_oversize_integer_canonical_lengths')
        for nlen in (9, 10, 16, 126):
            for lead in (1, 0x80, 0xff):
                wrap = bytes([0x80 | nlen, lead]) + bytes(nlen - 1 - 8) + n.to_bytes(8, 'big')
                emit(b'\x30' + wrap + content, 'der_length_more_than_8_octets_wrapping')
                wrapi = bytes([0x80 | nlen, lead]) + bytes(nlen - 1 - 8) + ilen.to_bytes(8, 'big')
                c2 = b'\x02' + wrapi + body1 + int2; n2 = len(c2)
                emit(b'\x30' + (bytes([0x81, n2]) if n2 < 256 else bytes([0x82, n2 >> 8, n2 & 255])) + c2, 'der_length_more_than_8_octets_wrapping')
        for nlen in (8, 7, 3):      # within size_t but with leading zero octets: non-minimal
            wrap = bytes([0x80 | nlen]) + n.to_bytes(nlen, 'big')
            emit(b'\x30' + wrap + content, 'der_length_leading_zero_octets')

def gen(chk):
    r = chk.rng
    coords = [0, 1, 7, P - 1, P, P + 1, N, N - 1, (1 << 256) - 1, P - 2]
    goodpts = [mul(d, G) for d in (1, 2, 3, N - 1, 0x1234567)]
    xs_valid = [q[0] for q in goodpts]
    # --- public keys: every length 0..80 x prefix bytes x coordinate choices
    prefixes = list(range(0, 9)) + [0x0a, 0x0b, 0x10, 0x80, 0xff, 0x82, 0x83, 0x84]
    if not chk.quick(): prefixes = list(range(256))
    for L in list(range(0, 81)):
        for pre in (prefixes if L in (32, 33, 34, 64, 65, 66) else [2, 3, 4, 6, 7, 0]):
            q = r.choice(goodpts)
            body = b32(q[0]) + b32(q[1])
            data = (bytes([pre]) + body + r.bytes(20))[:L]
            chk.add('ec_pubkey_parse %s' % hx(data), 'pubkey_len_prefix')
    for pre in (2, 3):
        for x in coords + xs_valid + [xv ^ 1 for xv in xs_valid] + [r.scalar256() for _ in range(chk.scale(20, 400))]:
            chk.add('ec_pubkey_parse %s' % (bytes([pre]) + b32(x)).hex(), 'pubkey_compressed_x')
            chk.add('xonly_pubkey_parse %s' % h32(x), 'xonly_parse')
    # coordinates built limb by limb (52-, 26-, 64-bit limb layouts): carry / comparison slips in the
    # field-element range check need such shapes (probability ~2^-100 for a random x)
    from props.C05 import limb_value
    for i in range(chk.scale(700, 20000)):
        x = limb_value(r)
        if r.chance(1, 2): x |= ((1 << 256) - 1) ^ ((1 << r.choice([52, 104, 156, 208, 26, 64, 128])) - 1)   # all-ones above a limb boundary
        chk.add('ec_pubkey_parse %s' % (bytes([2 + r.below(2)]) + b32(x)).hex(), 'pubkey_compressed_limb_pattern')
        chk.add('xonly_pubkey_parse %s' % h32(x), 'xonly_limb_pattern')
        if r.chance(1, 4):
            q = lift_x(x % P) if x < P else None
            y = q[1] if q else r.scalar256()
            chk.add('ec_pubkey_parse %s' % (bytes([4]) + b32(x) + b32(y)).hex(), 'pubkey_uncompressed_limb_pattern')
            chk.add('ec_pubkey_parse %s' % (bytes([4]) + b32(GX) + b32(limb_value(r))).hex(), 'pubkey_uncompressed_limb_pattern_y')
    for pre in (4, 6, 7):
        for q in goodpts + [neg(q) for q in goodpts]:
            for (x, y) in [q, (q[0], q[1] ^ 1), (q[0] ^ 1, q[1]), (q[0] + P if q[0] + P < (1 << 256) else q[0], q[1]), (q[0], (q[1] + P) % (1 << 256) if q[1] + P < (1 << 256) else q[1]), (q[0], 0), (0, q[1]), (P, q[1]), (q[0], P)]:
                chk.add('ec_pubkey_parse %s' % (bytes([pre]) + b32(x) + b32(y)).hex(), 'pubkey_uncompressed')
    # x = 0 with y^2 = 7: not on curve (7 is a non-residue) - parser must reject even if crafted
    # round trips: parse result -> serialize both ways -> parse again (stage 2 computed in python)
    for q in goodpts + [mul(r.seckey(), G) for _ in range(chk.scale(10, 200))]:
        for flags, need in ((258, 33), (2, 65)):
            for outlen in (need, need + 1, need + 30, need - 1, 0, 64, 65 if need == 33 else 33):
                chk.add('ec_pubkey_serialize #%d %s #%d' % (outlen, pk_obj(q), flags), 'pubkey_serialize_buflen')
        chk.add('ec_pubkey_serialize #65 %s #%d' % (pk_obj(q), r.choice([0, 1, 3, 256, 259, 514])), 'pubkey_serialize_badflags')
        chk.add('xonly_pubkey_serialize %s' % pk_obj(lift_x(q[0])), 'xonly_serialize')
        chk.add('ec_pubkey_parse %s' % ser33(q).hex(), 'pubkey_roundtrip'); chk.add('ec_pubkey_parse %s' % ser65(q).hex(), 'pubkey_roundtrip')
        hyb = bytes([6 + (q[1] & 1)]) + b32(q[0]) + b32(q[1]); chk.add('ec_pubkey_parse %s' % hyb.hex(), 'pubkey_hybrid')
        hyb = bytes([7 - (q[1] & 1)]) + b32(q[0]) + b32(q[1]); chk.add('ec_pubkey_parse %s' % hyb.hex(), 'pubkey_hybrid_wrong_parity')
    chk.add('ec_pubkey_serialize #33 %s #258' % ('00' * 64), 'pubkey_serialize_zero_obj')
    chk.add('xonly_pubkey_serialize %s' % ('00' * 64), 'xonly_serialize_zero_obj')
    # --- compact signatures
    svals = [0, 1, N - 1, N, N + 1, (1 << 256) - 1, N // 2, P]
    for a in svals:
        for b in svals:
            chk.add('ecdsa_signature_parse_compact %s%s' % (h32(a), h32(b)), 'compact_boundary')
            if a < N and b < N:
                for outlen in (0, 5, 6, 8, 9, 70, 71, 72, 73, 80):
                    chk.add('ecdsa_signature_serialize_der #%d %s%s' % (outlen, h32(a), h32(b)), 'der_serialize_buflen')
                chk.add('ecdsa_signature_serialize_compact %s%s' % (h32(a), h32(b)), 'compact_serialize')
    for i in range(chk.scale(80, 2000)):
        a, b = r.scalar256(), r.scalar256()
        chk.add('ecdsa_signature_parse_compact %s%s' % (h32(a), h32(b)), 'compact_random')
        if a < N and b < N:
            need = len(der_sig(a, b))
            for outlen in (need - 1, need, need + 1):
                chk.add('ecdsa_signature_serialize_der #%d %s%s' % (outlen, h32(a), h32(b)), 'der_serialize_exact')
            chk.add('ecdsa_signature_parse_der %s' % der_sig(a, b).hex(), 'der_roundtrip')
    # --- breach candidate for "failed parse never verifies": valid signature (r, s) with tiny s on a solved
    # message, fed as compact (r, s+n): must be rejected AND the object left must not verify m.
    for i in range(chk.scale(8, 60)):
        d = r.seckey(); Q = mul(d, G); k = r.seckey(); R = mul(k, G); rr = R[0] % N
        s = 1 + r.below(1 << 20); m = (s * k - rr * d) % N
        chk.add('ecdsa_signature_parse_compact %s%s' % (h32(rr), h32(s + N)), 'compact_breach_parse')
        # what a non-zeroing parser would leave: (r, s) -> that object verifies; the all-zero object does not
        chk.add('ecdsa_verify %s %s %s' % ('00' * 64, h32(m), pk_obj(Q)), 'zero_object_never_verifies')
        chk.add('ecdsa_verify %s%s %s %s' % (h32(rr), h32(s), h32(m), pk_obj(Q)), 'breach_control_valid')
        # the same through DER with a 33-byte integer s+n (parser must turn it into 0, not s)
        chk.add('ecdsa_signature_parse_der %s' % der_sig(rr, s + N).hex(), 'der_s_plus_n')
        chk.add('ecdsa_verify %s%s %s %s' % (h32(rr), h32(0), h32(m), pk_obj(Q)), 'der_overflow_object_never_verifies')
    gen_der(chk, r)
    for a in (0, 1, N - 1):
        for recid in (0, 1, 2, 3):
            chk.add('recoverable_parse_compact %s%s #%d' % (h32(a), h32(N if a == 1 else 5), recid), 'recoverable_parse')

def run(chk):
    impl, model, ie, me = runners(chk)
    import kernel_gen
    # the range test behind every coordinate parser, proved over the regenerated code (all 2^256 strings)
    kernel_gen.single_obligation(chk, 'secp256k1_fe_impl_set_b32_limit')
    chk.coq(); gen(chk); chk.correspond(impl, model, 'codecs')
