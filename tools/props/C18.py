"""C18 - ECDH and ElligatorSwift (DESIGN.md section 5, C18).
Stage 1: ecdh, decode of crafted strings, the static forward/inverse maps, encode, create, xdh on crafted
remote keys and the BIP-324 vectors.  Stage 2 (uses what the IMPLEMENTATION returned in stage 1): decode of
every encoding produced, xdh in both party roles on created keys.  Besides model = implementation on every
line, the properties that need the group law (not proved in Coq) are checked on the implementation's
outputs: round trip, both roles agree, ECDH symmetric, published vectors."""
from props.common import *
from props import c18_util as E
import vlib

FINISH = dict(level='proof', technique='Coq theorems about the executable ECDH / ElligatorSwift model (Properties_C18.v: exact failure set and masking of ecdh and xdh, decode returns an on-curve point, structure of the inverse map and of the encoding search) + differential correspondence of the model with the C implementation built from the working tree (byte-identical encodings: same PRNG draws, same branch, same u)',
              trusted=TRUSTED_COMMON + ['the algebraic identities of the ElligatorSwift map (decode total, inverse sound) need p prime and field reasoning: NOT proved; the model carries the corresponding run-time checks (#-96 on failure) and the round trip is checked on every generated case',
                                        'ecdh_symmetric is stated under the explicit premise MathFacts P (group law); symmetry of the x-only ElligatorSwift exchange additionally needs square-root uniqueness and the round trip of the map: checked on the implementation outputs of every generated pair, not proved'])

def runners(chk):
    impl = vlib.build_impl(chk.dir, name='impl')
    model = vlib.ensure_model('ecdh')
    return impl, model, (), ()

M256 = (1 << 256) - 1
EDGE_FE = [0, 1, P - 1, P, P + 1, M256]

class Gen:
    def __init__(self, chk): self.chk = chk; self.meta = []; self.base = len(chk.cases)
    def add(self, line, cls, **m): self.chk.add(line, cls); self.meta.append(m)

def ser33x(pt): return bytes([2 + (pt[1] & 1)]) + b32(pt[0])

def stage1(chk, g):
    r = chk.rng
    secrets = [0, 1, 2, N - 2, N - 1, N, N + 1, M256, N // 2, (1 << 255)]
    pts = [G, mul(2, G), mul(N - 1, G)] + [mul(r.seckey(), G) for _ in range(chk.scale(6, 40))]
    # ---- ECDH: boundary secrets x peers x hash choices
    for Q in pts[:chk.scale(5, 20)]:
        for s in secrets:
            for kind, data in ((0, None), (1, None), (2, None), (2, b'\xa5'), (3, None), (3, b'\x01')):
                if chk.quick() and kind in (1, 3) and s not in (0, 1, N - 1, N): continue
                exp = None
                if kind <= 1 and 1 <= s < N: exp = '#1 ' + sha256(ser33x(mul(s, Q))).hex() if chk.quick() is False or r.chance(1, 3) else None
                g.add('ecdh %s %s #%d %s' % (pk_obj(Q), h32(s), kind, opt(data)), 'ecdh_boundary_secret', expect=exp)
    for i in range(chk.scale(40, 600)):
        a, b = r.seckey(), r.seckey(); A, B = mul(a, G), mul(b, G); kind = r.choice([0, 0, 1, 2]); data = r.choice([None, r.bytes(1)]) if kind == 2 else None
        g.add('ecdh %s %s #%d %s' % (pk_obj(B), h32(a), kind, opt(data)), 'ecdh_both_roles', pair=('e', i))
        g.add('ecdh %s %s #%d %s' % (pk_obj(A), h32(b), kind, opt(data)), 'ecdh_both_roles', pair=('e', i))
    for i in range(chk.scale(30, 300)):
        s = r.scalar256(); Q = r.choice(pts)
        g.add('ecdh %s %s #%d -' % (pk_obj(Q), h32(s), r.choice([0, 2, 3])), 'ecdh_random_secret')
    # ---- decode / forward map: edge values, the u^3+t^2+7=0 family, branch classes
    strings = []
    for u in EDGE_FE:
        for t in EDGE_FE: strings.append((u, t, 'decode_edge_u_t'))
    fam = 0; u = 1
    while fam < chk.scale(24, 200):
        uu = u if fam % 2 == 0 else r.bits(256) % P; u += 1
        for t in E.family_t(uu):
            for ue in E.encodings(uu):
                for te in E.encodings(t): strings.append((ue, te, 'decode_family_u3_t2_7')); fam += 1
    for i in range(chk.scale(500, 4000)):
        u = r.choice(EDGE_FE) if r.chance(1, 6) else r.scalar256(); t = r.choice(EDGE_FE) if r.chance(1, 6) else r.scalar256()
        strings.append((u, t, 'decode_' + E.xswiftec(u, t)[1]))
    for u, t, cls in strings:
        g.add('ellswift_decode %s%s' % (h32(u), h32(t)), cls)
        if r.chance(1, 3): g.add('ellswift_xswiftec %s %s' % (h32(u), h32(t)), 'xswiftec_' + cls[7:])
    # ---- inverse map: all 8 branches on random and crafted (x, u)
    xs = [q[0] for q in pts]
    for i in range(chk.scale(160, 1200)):
        x = r.choice(xs); u = r.choice([1, 2, P - 1, P, 0, P + 1]) if r.chance(1, 8) else r.scalar256()
        for c in range(8):
            ok = E.xswiftec_inv(x, u, c) is not None if u % P else None
            g.add('ellswift_xswiftec_inv %s %s #%d' % (h32(x), h32(u), c), 'inv_c%d_%s' % (c, 'ok' if ok else 'fail'))
    # s = x - u = 0, and r = 0 (4(u^3+7) + 3u^2 s = 0) corner cases of branches 2,3,6,7
    for x in xs[:6]:
        for c in range(8): g.add('ellswift_xswiftec_inv %s %s #%d' % (h32(x), h32(x), c), 'inv_s_zero')
    found = 0; tries = 0
    while found < chk.scale(4, 20) and tries < 4000:
        tries += 1; u = r.bits(256) % P
        if u == 0: continue
        s = -4 * (u ** 3 + 7) * pow(3 * u * u, -1, P) % P; x = (u + s) % P
        if E.is_sq(s) and E.on_curve_x(x) and s != 0:
            found += 1
            for c in range(8): g.add('ellswift_xswiftec_inv %s %s #%d' % (h32(x), h32(u), c), 'inv_r_zero')
    for i in range(chk.scale(8, 60)):      # precondition "x on the curve" not met: still the same arithmetic
        x = r.bits(256) % P
        if E.on_curve_x(x): continue
        for c in range(8): g.add('ellswift_xswiftec_inv %s %s #%d' % (h32(x), h32(r.bits(256)), c), 'inv_x_not_on_curve')
    # ---- encode: every successful branch value 0..7, many randomness values, edge randomness
    for Q in pts[:chk.scale(4, 12)]:
        seen = set(); n = 0
        while (len(seen) < 8 or n < chk.scale(16, 100)) and n < 400:
            rnd = r.choice([bytes(32), b'\xff' * 32]) if n < 2 else r.bytes(32); n += 1
            br, it = E.successful_branch(Q, rnd)
            if br in seen and n > chk.scale(16, 100): continue
            seen.add(br)
            g.add('ellswift_encode %s %s' % (pk_obj(Q), rnd.hex()), 'encode_branch_%s' % br, pk=Q, iters=it)
    for i in range(chk.scale(30, 400)):
        Q = mul(r.seckey(), G) if r.chance(1, 2) else r.choice(pts)
        g.add('ellswift_encode %s %s' % (pk_obj(Q), r.bytes(32).hex()), 'encode_random', pk=Q)
    g.add('ellswift_encode %s %s' % ('00' * 64, r.bytes(32).hex()), 'encode_invalid_key_object')
    g.add('ellswift_encode %s %s' % ('00' * 32 + h32(5), r.bytes(32).hex()), 'encode_invalid_key_object')
    # ---- create
    for s in secrets + [r.seckey() for _ in range(chk.scale(30, 300))]:
        for aux in (None, r.bytes(32)) if s in secrets else (r.choice([None, r.bytes(32)]),):
            g.add('ellswift_create %s %s' % (h32(s), opt(aux)), 'create_boundary_secret' if s in secrets else 'create_random', sk=s)
    # ---- xdh on crafted remote keys, every hash choice, invalid secrets; BIP-324 vectors
    ours = h32(r.bits(256)) + h32(r.bits(256))
    for (u, t, cls) in strings[:36] + [x for x in strings if x[2] == 'decode_family_u3_t2_7'][:chk.scale(8, 60)] + strings[-chk.scale(12, 100):]:
        party = r.below(2); kind = r.choice([0, 0, 1, 2]); s = r.choice(secrets) if r.chance(1, 4) else r.seckey()
        theirs = h32(u) + h32(t); a, b = (theirs, ours) if party else (ours, theirs)
        data = r.bytes(64) if kind == 1 else (r.choice([None, r.bytes(1)]) if kind >= 2 else None)
        g.add('ellswift_xdh %s %s %s #%d #%d %s' % (a, b, h32(s), party, kind, opt(data)), 'xdh_crafted_remote_' + cls[7:])
    for s in secrets:
        for kind in (0, 1, 2, 3, 4):
            data = r.bytes(64) if kind == 1 else None
            g.add('ellswift_xdh %s %s %s #%d #%d %s' % (ours, h32(r.bits(256)) + h32(r.bits(256)), h32(s), r.below(2), kind, opt(data)), 'xdh_boundary_secret')
    for (priv, mine, theirs, init, secret) in E.bip324_vectors(vlib.REPO):
        party = 0 if init else 1; a, b = (theirs, mine) if party else (mine, theirs)
        g.add('ellswift_xdh %s %s %s #%d #0 -' % (a.hex(), b.hex(), priv.hex(), party), 'xdh_bip324_vector', expect='#1 ' + secret.hex())

def stage2(chk, g1, ri, g):
    r = chk.rng
    created = []
    for (line, cls), m, out in zip(chk.cases[g1.base:], g1.meta, ri):
        f = out.split(' ')
        if 'pk' in m and f[0] == '#1':
            g.add('ellswift_decode ' + f[1], 'decode_of_' + cls, expect='#1 ' + pk_obj(m['pk']))
        if 'sk' in m and f[0] == '#1':
            g.add('ellswift_decode ' + f[1], 'decode_of_created', expect='#1 ' + pk_obj(mul(m['sk'], G)))
            created.append((m['sk'], f[1]))
    # both roles: A = (a, ellA), B = (b, ellB); A calls with party 0, B with party 1
    for i in range(chk.scale(40, 500)):
        if len(created) < 2: break
        (a, ea), (b, eb) = r.choice(created), r.choice(created)
        kind = r.choice([0, 0, 1, 2]); data = r.bytes(64) if kind == 1 else (r.choice([None, r.bytes(1)]) if kind == 2 else None)
        g.add('ellswift_xdh %s %s %s #0 #%d %s' % (ea, eb, h32(a), kind, opt(data)), 'xdh_both_roles', pair=('x', i))
        g.add('ellswift_xdh %s %s %s #1 #%d %s' % (ea, eb, h32(b), kind, opt(data)), 'xdh_both_roles', pair=('x', i))
        if r.chance(1, 2):      # the exported hash functions reached through a forwarding callback instead of by name
            k2 = 5 if kind != 1 else 6; d2 = data if kind == 1 else None
            if kind in (0, 1):
                g.add('ellswift_xdh %s %s %s #0 #%d %s' % (ea, eb, h32(a), k2, opt(d2)), 'xdh_exported_hash_via_forwarding_callback', pair=('x', i))
                g.add('ellswift_xdh %s %s %s #1 #%d %s' % (ea, eb, h32(b), k2, opt(d2)), 'xdh_exported_hash_via_forwarding_callback', pair=('x', i))
        if r.chance(1, 3):      # party is a boolean: every non-zero value means "we are B" and must give B's (= A's) secret
            pv = r.choice([2, 3, 4, 256, 65536, -1, -2, 2147483647, -2147483648])
            g.add('ellswift_xdh %s %s %s #%d #%d %s' % (ea, eb, h32(b), pv, kind, opt(data)), 'xdh_party_nonzero_non_one', pair=('x', i))
        if r.chance(1, 6):      # wrong role: the secrets must (practically) differ, and both sides still agree with the model
            g.add('ellswift_xdh %s %s %s #1 #%d %s' % (ea, eb, h32(a), kind, opt(data)), 'xdh_wrong_role')

def expected(chk, cases, meta, ri):
    """properties that are not Coq theorems here, checked on the implementation's own outputs"""
    pairs = {}
    def bad(line, cls, a, why):
        if len(chk.violations) < 20:
            chk.violations.append({'kind': 'correspondence', 'class': cls, 'case': line, 'impl': a, 'model': why})
    for (line, cls), m, a in zip(cases, meta, ri):
        if m.get('expect') and a != m['expect']: bad(line, cls, a, 'expected ' + m['expect'])
        if 'pair' in m:
            if m['pair'] in pairs:
                l0, a0 = pairs[m['pair']]
                if a0 != a or not a.startswith('#1 '): bad(l0 + ' ;; ' + line, cls, a0 + ' / ' + a, 'both roles must succeed and derive the same secret')
            else: pairs[m['pair']] = (line, a)

def asan_pass(chk, cases, ri, label):
    """thorough tier: the same lines on a clang ASan+UBSan build must give the same result lines (a sanitizer
    report aborts the driver and shows up as CRASH lines)"""
    import os
    try:
        exe = vlib.build_impl(chk.dir, name='impl_asan', cc='clang', opt='-O1', flags=['-fsanitize=address,undefined', '-fno-sanitize-recover=undefined', '-g', '-DVERIF_EXACT_BUFFERS=1'])
    except vlib.BuildError as e:
        chk.notes.append('ASan build not available: ' + str(e)[-200:]); return
    os.environ.setdefault('ASAN_OPTIONS', 'detect_leaks=0')
    out = vlib.run_cases(exe, [c[0] for c in cases], (), 16)
    bad = [(c, a, b) for c, a, b in zip(cases, ri, out) if a != b]
    chk.notes.append('%s: ASan/UBSan build, %d cases, %d differ from the plain build' % (label, len(cases), len(bad)))
    for (line, cls), a, b in bad[:5]:
        if len(chk.violations) < 20:
            chk.violations.append({'kind': 'correspondence', 'class': 'asan_' + cls, 'case': line, 'impl': 'ASan build: ' + b[:600], 'model': 'plain build: ' + a[:300]})

def run(chk):
    impl, model, ie, me = runners(chk)
    chk.coq()
    g1 = Gen(chk); stage1(chk, g1)
    ri, rm = chk.correspond(impl, model, 'ecdh + ellswift, stage 1')
    expected(chk, chk.cases[g1.base:], g1.meta, ri)
    if not chk.quick(): asan_pass(chk, chk.cases[g1.base:], ri, 'stage 1')
    chk.extra['model_check_failures'] = sum(1 for x in rm if x.startswith('#-96'))
    g2 = Gen(chk); stage2(chk, g1, ri, g2)
    ri2, rm2 = chk.correspond(impl, model, 'ellswift stage 2 (decode of produced encodings, both roles)', cases=chk.cases[g2.base:])
    expected(chk, chk.cases[g2.base:], g2.meta, ri2)
    chk.extra['model_check_failures'] += sum(1 for x in rm2 if x.startswith('#-96'))

def replay(chk, rep):
    impl, model, ie, me = runners(chk); bad = 0
    for v in rep.get('violations', []):
        if v['kind'] != 'correspondence':
            print('obligation replay: re-run ./check %s (obligation: %s)' % (chk.prop, v.get('name'))); continue
        outs = []
        for case in v['case'].split(' ;; '):
            a = vlib.run_cases(impl, [case], ie, 1)[0]; b = vlib.run_cases(model, [case], me, 1)[0]; outs.append(a)
            print('case : ' + case[:2000]); print('impl : ' + a[:2000]); print('model: ' + b[:2000])
            if a != b: bad += 1
        if v['model'].startswith('expected ') and outs[0] != v['model'][9:]: bad += 1
        if v['model'].startswith('both roles') and (len(set(outs)) != 1 or not outs[0].startswith('#1 ')): bad += 1
    if bad: print('VIOLATION property=%s replay=%s' % (chk.prop, 'recorded')); return 1
    print('replay: implementation and model agree on all recorded cases'); return 0
