"""Case-crafting helpers for C14 (ECDSA adaptor signatures).  Used ONLY to build inputs (honest and
adversarial adaptor signatures with chosen nonces); verdicts come from implementation vs model."""
from pyec import *

def scal(b): return int.from_bytes(b, 'big') % N

def dleq_challenge(gen2, r1, r2, p1, p2):
    return scal(tagged('DLEQ', ser33(p1) + ser33(gen2) + ser33(p2) + ser33(r1) + ser33(r2)))

def dleq_prove(sk, gen2, k2):
    """proof (s, e) that log_G(sk*G) = log_gen2(sk*gen2) with chosen nonce k2"""
    p1 = mul(sk, G); p2 = mul(sk, gen2)
    r1 = mul(k2, G); r2 = mul(k2, gen2)
    e = dleq_challenge(gen2, r1, r2, p1, p2)
    return (k2 + e * sk) % N, e

def ser162(R, Rp, sp, e, s):
    return ser33(R) + ser33(Rp) + b32(sp) + b32(e) + b32(s)

def adaptor_encrypt(d, Y, m, k, k2):
    """honest adaptor signature of message scalar m under signing key d, encryption point Y,
       encryption nonce k and DLEQ nonce k2; returns (R, Rp, sp, e, s)"""
    R = mul(k, Y); Rp = mul(k, G)
    s, e = dleq_prove(k, Y, k2)
    sigr = R[0] % N
    sp = inv(k, N) * (m + sigr * d) % N
    return R, Rp, sp, e, s

def adaptor_decrypt(y, R, sp):
    s = sp * inv(y, N) % N
    if s > N // 2: s = N - s
    return R[0] % N, s

def off_curve_x(rng):
    while True:
        x = rng.bits(256) % P
        if lift_x(x) is None: return x

# ---------------------------------------------------------------- the repository's small test group
# (EXHAUSTIVE_TEST_ORDER = 13: the order-13 subgroup of y^2 = x^3 + 2 over the secp256k1 field, generator
# from src/group_impl.h).  Every scalar has ~2^252 encodings s + 13*j on 32 bytes, so VALID proofs with a
# re-encoded DLEQ response - which have no constructible witness on the real curve - can be built.
class SmallGroup:
    def __init__(self, n=13, b=2,
                 gx=0xa2482ff84bf34edfa51262fde57921dbe0dd2cb7a5914790bc71631fc09704fb,
                 gy=0x942536cba3e494923a701cc3ee3e443fdf182aa915b8aa6a166d3b19ba84b045):
        self.n, self.b, self.G = n, b, (gx, gy)
        assert (gy * gy - gx ** 3 - b) % P == 0
    def params(self): return ['--params', str(P), str(self.b), str(self.n), str(self.G[0]), str(self.G[1])]
    def add(self, p1, p2):
        if p1 is None: return p2
        if p2 is None: return p1
        (x1, y1), (x2, y2) = p1, p2
        if x1 == x2:
            if (y1 + y2) % P == 0: return None
            l = 3 * x1 * x1 * inv(2 * y1, P) % P
        else:
            l = (y2 - y1) * inv(x2 - x1, P) % P
        x3 = (l * l - x1 - x2) % P
        return (x3, (l * (x1 - x3) - y1) % P)
    def mul(self, k, pt):
        k %= self.n; r = None
        while k:
            if k & 1: r = self.add(r, pt)
            pt = self.add(pt, pt); k >>= 1
        return r
    def scal(self, b): return int.from_bytes(b, 'big') % self.n
    def dleq_prove(self, sk, gen2, k2):
        p1 = self.mul(sk, self.G); p2 = self.mul(sk, gen2); r1 = self.mul(k2, self.G); r2 = self.mul(k2, gen2)
        if None in (p1, p2, r1, r2): return None
        e = self.scal(tagged('DLEQ', ser33(p1) + ser33(gen2) + ser33(p2) + ser33(r1) + ser33(r2)))
        return (k2 + e * sk) % self.n, e
    def adaptor_encrypt(self, d, Y, m, k, k2):
        R = self.mul(k, Y); Rp = self.mul(k, self.G)
        pr = self.dleq_prove(k, Y, k2)
        if R is None or pr is None: return None
        s, e = pr; sigr = R[0] % self.n
        sp = inv(k, self.n) * (m + sigr * d) % self.n
        if sigr == 0 or sp == 0: return None
        return R, Rp, sp, e, s
