"""Case-crafting helpers for C14 (ECDSA adaptor signatures).  Used ONLY to build inputs (honest and
adversarial adaptor signatures with chosen nonces); verdicts come from implementation vs model."""
from pyec import *

def scal(b): return int.from_bytes(b, 'big') % N

def dleq_challenge(gen2, r1, r2, p1, p2):
    return scal(tagged('DLEQ', ser33(p1) + ser33(gen2) + ser33(p2) + ser33(r1) + ser33(r2)))

def dleq_prove(sk, gen2, k2):
    """proof (s, e) that log_G(sk*G) = log_gen2(sk*gen2) with chosen nonce k2"""
    p1 = mul(sk, G); p2 = mul(sk, gen2)
    r1 = mul(k2, G); r2 = mul(k2, gen2)
    e = dleq_challenge(gen2, r1, r2, p1, p2)
    return (k2 + e * sk) % N, e

def ser162(R, Rp, sp, e, s):
    return ser33(R) + ser33(Rp) + b32(sp) + b32(e) + b32(s)

def adaptor_encrypt(d, Y, m, k, k2):
    """honest adaptor signature of message scalar m under signing key d, encryption point Y,
       encryption nonce k and DLEQ nonce k2; returns (R, Rp, sp, e, s)"""
    R = mul(k, Y); Rp = mul(k, G)
    s, e = dleq_prove(k, Y, k2)
    sigr = R[0] % N
    sp = inv(k, N) * (m + sigr * d) % N
    return R, Rp, sp, e, s

def adaptor_decrypt(y, R, sp):
    s = sp * inv(y, N) % N
    if s > N // 2: s = N - s
    return R[0] % N, s

def off_curve_x(rng):
    while True:
        x = rng.bits(256) % P
        if lift_x(x) is None: return x
