"""C11 - surjection proofs: complete, exact and canonically encoded (DESIGN.md section 5, C11)

Stages (each one a correspondence run of the C implementation against the extracted Coq model):
  1. parser / serializer / accessors sweep, initialize + allocate_initialized (subset selection from the
     seeded csprng, reported index, leak counter), generate on subsets chosen here, verify of proofs crafted
     by the Python prover (every free scalar chosen: small forged scalars, their s+n re-encodings, ...)
  2. generate on the subsets that stage-1 initialize selected; verify of the stage-1 proofs, honest and altered
  3. verify of the stage-2 proofs (the full chain initialize -> generate -> verify of the property)
Honest chains must also end in 1 on the implementation (completeness is sampled, not only compared)."""
from props.common import *
from props.c11_util import *

FINISH = dict(level='proof',
              technique='Coq theorems about the executable surjection-proof model (Properties_C11.v: parser exactness and both round trips, verify exact characterisation and rejection clauses, initialize soundness / exact subset size / exact iteration limit, generate => verify under MathFacts) + differential correspondence of the model with the C implementation built from the working tree, with a Python adversarial prover choosing every free scalar (small forged scalars re-encoded as s+n)',
              trusted=TRUSTED_COMMON + ['theorems marked [MF] (borromean_single_ring_sign_verifies, generate_verifies) assume MathFacts (group law of the curve, p and n prime) and n < 2^256 as explicit premises; generate_verifies additionally assumes: one ring key per set bitmap bit, no ring key at infinity, hash-derived forged scalars non-zero',
                                        'the premises of the [MF] theorems cannot be instantiated on a toy curve inside Coq (every hash-derived scalar overflows when n < 2^255); their satisfiability is observed instead: every honest initialize -> generate -> verify chain of the run ends in 1 on the implementation and on the model',
                                        'Model/Borromean.v (shared ring-signature model) is compared with the C code only through the surjection / whitelist / rangeproof entry points'])

def runners(chk):
    impl = vlib.build_impl(chk.dir)
    model = vlib.ensure_model('surjection')
    return impl, model, (), ()

# ------------------------------------------------------------------ helpers
class Pools:
    """pre-computed assets and blinding pairs so that case generation needs point additions only"""
    def __init__(self, r, n_assets, n_blinds):
        self.r = r
        self.assets = [mul(r.seckey(), G) for _ in range(n_assets)]
        self.blinds = []
        for _ in range(n_blinds):
            b = r.seckey(); self.blinds.append((b, mul(b, G)))
    def fixed(self, a): return sha256(b'asset%d' % a)                  # fixed asset tag of asset a
    def eph(self, a, bi): return add(self.assets[a], self.blinds[bi][1])  # ephemeral tag = asset + blind*G
    def blind(self, bi): return self.blinds[bi][0]

def subsets_k(r, n, k):
    l = list(range(n)); r.shuffle(l); return sorted(l[:k])

def ser_len(n, used): return 2 + (n + 7) // 8 + 32 * (1 + used)

def popcount(b): return sum(bin(x).count('1') for x in b)

def vline(n, bm, data, ins, out): return 'surjectionproof_verify %s %s %s' % (proof_fields(n, bm, data), gens_hex(ins), gens_hex([out]))
def gline(n, bm, ins, out, idx, ik, ok, data=b''):
    return 'surjectionproof_generate %s %s %s #%d %s %s' % (proof_fields(n, bm, data), gens_hex(ins), gens_hex([out]), idx, h32(ik), h32(ok))

# ------------------------------------------------------------------ stage 1a: parser, serializer, accessors
def gen_codec(chk, cases):
    r = chk.rng
    def add(line, cls): cases.append((line, cls))
    def rand_bitmap(n, density):
        used = [i for i in range(n) if r.chance(density, 8)]
        return bitmap(n, used)
    def enc(n, bm, data): return (bytes([n & 255, (n >> 8) & 255]) + bm + data).hex()
    # every n_inputs value 0..263 (256 is the limit; 257..263 is the measured surviving mutation):
    # exact length, +-1, all padding-bit patterns of the last bitmap byte, several bit densities
    for n in range(0, 272):
        for density in (0, 1, 4, 8):
            bm = rand_bitmap(n, density)
            k = popcount(bm)
            data = r.bytes(32 * (1 + k))
            cls = 'parse_n_le_256' if n <= 256 else 'parse_n_257_271'
            add('surjectionproof_parse ' + enc(n, bm, data), cls + '_exact_len')
            if density in (1, 8) or n >= 250:
                add('surjectionproof_parse ' + enc(n, bm, data + b'\x00'), cls + '_len_plus1')
                add('surjectionproof_parse ' + enc(n, bm, data[:-1]), cls + '_len_minus1')
                add('surjectionproof_parse ' + enc(n, bm, data + r.bytes(32)), cls + '_len_plus32')
                add('surjectionproof_parse ' + enc(n, bm, data[:-32]), cls + '_len_minus32')
        if n % 8 != 0:
            bl = (n + 7) // 8
            for pat in range(1, 1 << (8 - n % 8)):
                if not chk.quick() or pat in (1, 1 << (7 - n % 8)) or (pat & (pat - 1)) == 0 or r.chance(1, 6):
                    bm = bytearray(rand_bitmap(n, r.choice([0, 2, 8])))
                    bm[bl - 1] |= (pat << (n % 8)) & 255
                    # length as if the padding bits counted, and as if they did not
                    k = popcount(bm); k2 = popcount(bitmap(n, [i for i in range(n) if bm[i // 8] >> (i % 8) & 1]))
                    add('surjectionproof_parse ' + enc(n, bytes(bm), r.bytes(32 * (1 + k))), 'parse_padding_bits_set')
                    add('surjectionproof_parse ' + enc(n, bytes(bm), r.bytes(32 * (1 + k2))), 'parse_padding_bits_set')
    # truncations of a valid encoding at every prefix length (small n), empty and 1-byte inputs
    for n in (0, 1, 3, 8, 9):
        bm = rand_bitmap(n, 4); full = bytes.fromhex(enc(n, bm, r.bytes(32 * (1 + popcount(bm)))))
        for l in range(0, len(full)):
            add('surjectionproof_parse ' + (full[:l].hex() or '.'), 'parse_truncated')
    # every n_inputs field value 257..65535: would-be-canonical length for n <= 1024 and a sample above,
    # a short input for all the others
    step = chk.scale(1, 1)
    for n in range(272, 65536, step):
        full = n <= 1024 or n % 251 == 0 or (n & 255) in (0, 1, 255) and r.chance(1, 4) or n >= 65530
        if full:
            bm = bytearray((n + 7) // 8)
            for _ in range(r.below(4)): i = r.below(n); bm[i // 8] |= 1 << (i % 8)
            add('surjectionproof_parse ' + enc(n, bytes(bm), r.bytes(32 * (1 + popcount(bm)))), 'parse_n_gt_271_canonical_len')
        else:
            add('surjectionproof_parse ' + enc(n, r.bytes(32), r.bytes(32)), 'parse_n_gt_271_short')
    # serializer: objects (as parse would produce them) with output buffers exact, +-1, 0, large; accessors
    for n in list(range(0, 20)) + [31, 32, 33, 63, 64, 65, 127, 128, 129, 200, 247, 248, 249, 254, 255, 256] + [r.below(257) for _ in range(chk.scale(20, 300))]:
        bm = rand_bitmap(n, r.choice([0, 1, 4, 8]))
        k = popcount(bm); data = r.bytes(32 * (1 + k)); need = ser_len(n, k)
        obj = proof_fields(n, bm, data)
        for ol in (need, need - 1, need + 1, 0, need + 100):
            add('surjectionproof_serialize #%d %s' % (ol, obj), 'serialize_exact' if ol == need else 'serialize_other_len')
        add('surjectionproof_info ' + obj, 'info')
    add('surjectionproof_info #257 . .', 'object_out_of_range')

# ------------------------------------------------------------------ stage 1b: initialize
def gen_initialize(chk, cases, pools, chains):
    """chains: list of dicts describing honest chains; the initialize line index is remembered in it"""
    r = chk.rng
    def line(op, fixed, k, out, nmax, seed):
        return '%s %s #%d %s #%d %s' % (op, b''.join(fixed).hex() or '.', k, out.hex(), nmax, seed.hex())
    seeds = [bytes(32), b'\xff' * 32, bytes(range(32))]
    nmaxs = [0, 1, 2, 3, 10, 100]
    # exhaustive for n <= 8: every subset size 0..n+1, every set M of positions holding the output tag
    for n in range(1, 9):
        for k in range(0, n + 2):
            for M in range(0, 1 << n):
                if chk.quick() and n >= 7 and not r.chance(1, 3) and M not in (0, (1 << n) - 1) and (M & (M - 1)): continue
                fixed = [pools.fixed(0) if (M >> i) & 1 else pools.fixed(1 + i) for i in range(n)]
                seed = r.choice(seeds) if r.chance(1, 10) else r.bytes(32)
                op = 'surjectionproof_allocate_initialized' if r.chance(1, 4) else 'surjectionproof_initialize'
                cls = 'init_small_exhaustive' if k <= n else 'init_to_use_gt_n'
                cases.append((line(op, fixed, k, pools.fixed(0), r.choice(nmaxs), seed), cls))
    # n = 0 and the ARG_CHECK boundaries
    cases.append((line('surjectionproof_initialize', [], 0, pools.fixed(0), 3, r.bytes(32)), 'init_n0'))
    cases.append((line('surjectionproof_allocate_initialized', [], 0, pools.fixed(0), 0, r.bytes(32)), 'init_n0'))
    for n, k in ((257, 1), (257, 257), (300, 0), (256, 257), (255, 256)):
        fixed = [pools.fixed(i % 50) for i in range(n)]
        for op in ('surjectionproof_initialize', 'surjectionproof_allocate_initialized'):
            cases.append((line(op, fixed, k, pools.fixed(0), 5, r.bytes(32)), 'init_argcheck_boundary'))
    # larger n: boundary counts 255, 256 always, others sampled; multiplicities 0, 1, 2, many, all
    big = [255, 256] * chk.scale(6, 40) + [r.choice([9, 16, 17, 31, 32, 33, 64, 100, 128, 129, 200, 254]) for _ in range(chk.scale(40, 600))]
    for n in big:
        k = r.choice([0, 1, 2, 3, n // 2, n - 1, n]) if r.chance(2, 3) else 1 + r.below(n)
        mult = r.choice([0, 1, 1, 1, 2, 3, n // 2, n])
        pos = subsets_k(r, n, mult)
        fixed = [pools.fixed(0) if i in pos else pools.fixed(1 + (i % 60)) for i in range(n)]
        op = 'surjectionproof_allocate_initialized' if r.chance(1, 4) else 'surjectionproof_initialize'
        nmax = r.choice(nmaxs) if (k > 64 or mult == 0) else r.choice(nmaxs + [1000])
        if mult == 0 and k > 32: nmax = min(nmax, 10)
        cases.append((line(op, fixed, k, pools.fixed(0), nmax, r.bytes(32)), 'init_n_%s' % ('255_256' if n >= 255 else 'sampled')))
    # honest chains: assets per input, output asset among them; ephemeral tags from the pools
    def chain(n, k, mult, cls):
        pos = subsets_k(r, n, mult)
        asset_of = [0 if i in pos else 1 + (i % (len(pools.assets) - 1)) for i in range(n)]
        for attempt in range(8):       # an input tag equal to the output tag is refused by generate: draw again
            bi = [r.below(len(pools.blinds)) for _ in range(n)]; bo = r.below(len(pools.blinds))
            c = dict(n=n, k=k, asset_of=asset_of, bi=bi, bo=bo, cls=cls, idx=len(cases),
                     ins=[pools.eph(asset_of[i], bi[i]) for i in range(n)], out=pools.eph(0, bo))
            if not (any(t == c['out'] for t in c['ins']) or c['out'] is None or any(t is None for t in c['ins'])): break
        else: return
        fixed = [pools.fixed(a) for a in asset_of]
        cases.append((line('surjectionproof_initialize', fixed, k, pools.fixed(0), 200, r.bytes(32)), 'chain_init_' + cls))
        chains.append(c)
    for n in range(1, chk.scale(7, 9)):
        for k in range(1, n + 1):
            for mult in sorted(set([1, 2, n])):
                if mult <= n: chain(n, k, mult, 'small')
    chain(256, 256, 1, 'n256_all_used'); chain(255, 255, 2, 'n255_all_used')
    for _ in range(chk.scale(6, 40)):
        n = r.choice([255, 256]); chain(n, r.choice([1, 2, 3, 5, 8]), r.choice([1, 2, n]), 'n255_256_few_used')
    for _ in range(chk.scale(4, 60)):
        n = 9 + r.below(200); chain(n, 1 + r.below(min(n, 12)), r.choice([1, 2, 3]), 'sampled')
    if not chk.quick():
        for _ in range(6): chain(r.choice([255, 256]), r.choice([100, 200, 254]), 3, 'n255_256_many_used')

# ------------------------------------------------------------------ stage 1c: generate on subsets chosen here
def gen_generate(chk, cases, pools, made):
    """made: list of (case index, ins, out, honest?) whose resulting proof is verified in stage 2"""
    r = chk.rng
    nb = len(pools.blinds)
    for n in range(1, chk.scale(7, 9)):
        for k in range(1, n + 1):
            used = subsets_k(r, n, k)
            bm = bitmap(n, used)
            for m in used + [None]:
                # input m carries the output asset; m = None: the signer index given is not a used input
                sign_at = m if m is not None else r.choice([i for i in range(n) if i not in used] or [used[0]])
                asset_of = [1 + i for i in range(n)]; asset_of[sign_at] = 0
                dup = None
                if r.chance(1, 3) and n > 1:     # multiplicity: a second input with the output asset
                    dup = r.choice([i for i in range(n) if i != sign_at]); asset_of[dup] = 0
                bi = [r.below(nb) for _ in range(n)]; bo = r.below(nb)
                if dup is not None and r.chance(1, 2): bi[dup] = bi[sign_at]     # byte-identical duplicate tag
                ins = [pools.eph(asset_of[i], bi[i]) for i in range(n)]; out = pools.eph(0, bo)
                if out in ins or out is None or None in ins: continue
                honest = m is not None
                made.append((len(cases), ins, out, honest))
                cases.append((gline(n, bm, ins, out, sign_at, pools.blind(bi[sign_at]), pools.blind(bo)),
                              'generate_honest' if honest else 'generate_index_not_used'))
                if r.chance(1, 3):
                    v = r.below(9)
                    ik, ok, idx, ins2, out2, bm2, cls = pools.blind(bi[sign_at]), pools.blind(bo), sign_at, ins, out, bm, None
                    if v == 0: ik = r.choice([N, N + 1, (1 << 256) - 1]); cls = 'generate_input_key_ge_n'
                    elif v == 1: ok = r.choice([N, N + 1, (1 << 256) - 1]); cls = 'generate_output_key_ge_n'
                    elif v == 2: ik = 0; cls = 'generate_key_zero'
                    elif v == 3: ok = 0; cls = 'generate_key_zero'
                    elif v == 4: ik = r.seckey(); cls = 'generate_wrong_key'
                    elif v == 5: ins2 = list(ins); ins2[r.below(n)] = out; cls = 'generate_input_equals_output'
                    elif v == 6: ins2 = ins + [pools.eph(3, 0)] if r.chance(1, 2) else ins[:-1]; cls = 'generate_count_mismatch'
                    elif v == 7: bm2 = bytes(len(bm)); cls = 'generate_no_used_input'
                    elif v == 8: idx = r.choice([n, n + 1, 1 << 32, (1 << 64) - 1]); cls = 'generate_index_out_of_range'
                    if cls in ('generate_key_zero', 'generate_wrong_key', 'generate_index_out_of_range'):
                        made.append((len(cases), ins2, out2, False))
                    cases.append((gline(n, bm2, ins2, out2, idx, ik, ok), cls))

    # systematic: an input tag IDENTICAL to the output tag at every position (selected or not, before or after the first
    # n_used positions), with a legitimate designated input elsewhere: generation must refuse
    for n in range(2, chk.scale(6, 8)):
        for k in range(1, n + 1):
            for e in range(n):
                used = subsets_k(r, n, k); bm = bitmap(n, used)
                sign_at = r.choice(used)
                asset_of = [1 + i for i in range(n)]; asset_of[sign_at] = 0
                bi = [r.below(nb) for _ in range(n)]; bo = r.below(nb)
                ins = [pools.eph(asset_of[i], bi[i]) for i in range(n)]; out = pools.eph(0, bo)
                if out is None or any(t is None for t in ins): continue
                ins2 = list(ins); ins2[e] = out
                cls = 'generate_input_equals_output_at_%s_%s' % ('selected' if e in used else 'unselected', 'low' if e < k else 'high')
                cases.append((gline(n, bm, ins2, out, sign_at, pools.blind(bi[sign_at]), pools.blind(bo)), cls))
                if e == sign_at:      # the designated input itself equals the output: key difference is zero
                    cases.append((gline(n, bm, ins2, out, sign_at, pools.blind(bo), pools.blind(bo)), cls))

# ------------------------------------------------------------------ stage 1d: proofs crafted by the Python prover
def gen_crafted(chk, cases, pools, expect):
    r = chk.rng
    nb = len(pools.blinds)
    small = [1, 2, 3, (1 << 64), (1 << 128) - 1, (1 << 128), (1 << 256) - N - 1]    # s + n still fits in 32 bytes
    for it in range(chk.scale(14, 120)):
        n = 2 + r.below(5); k = 2 + r.below(n - 1); used = subsets_k(r, n, k); bm = bitmap(n, used)
        pos = r.below(k); m = used[pos]
        asset_of = [1 + i for i in range(n)]; asset_of[m] = 0
        bi = [r.below(nb) for _ in range(n)]; bo = r.below(nb)
        ins = [pools.eph(asset_of[i], bi[i]) for i in range(n)]; out = pools.eph(0, bo)
        if out in ins: continue
        sec = (pools.blind(bo) - pools.blind(bi[m])) % N
        forged = [r.choice(small) for _ in range(k)]
        try: e0, s = sj_prove(ins, out, used, pos, sec, r.seckey(), forged)
        except ProverFail: continue
        assert bor_verify1(e0, s, sj_pubs(ins, used, out), sj_msg(ins, out))
        l = vline(n, bm, sj_data(e0, s), ins, out); expect[l] = '#1'
        cases.append((l, 'verify_crafted_small_forged_scalars'))
        # re-encode each forged scalar in turn as s + n (must be rejected: measured surviving mutation)
        for j in range(k):
            if j != pos and s[j] + N < (1 << 256):
                s2 = list(s); s2[j] = s[j] + N
                cases.append((vline(n, bm, sj_data(e0, s2), ins, out), 'verify_scalar_reencoded_s_plus_n'))
        s2 = list(s); j = r.below(k); s2[j] = r.choice([0, N, N + 1, (1 << 256) - 1])
        cases.append((vline(n, bm, sj_data(e0, s2), ins, out), 'verify_scalar_0_n_max'))
    # forged scalar 0 chosen by the prover (equation holds, the zero check must reject)
    for it in range(chk.scale(4, 30)):
        n = 3; used = [0, 1, 2]; bm = bitmap(n, used); pos = r.below(3)
        asset_of = [1, 2, 3]; asset_of[pos] = 0
        bi = [r.below(nb) for _ in range(n)]; bo = r.below(nb)
        ins = [pools.eph(asset_of[i], bi[i]) for i in range(n)]; out = pools.eph(0, bo)
        if out in ins: continue
        forged = [0 if j == (pos + 1) % 3 else r.seckey() for j in range(3)]
        try: e0, s = sj_prove(ins, out, used, pos, (pools.blind(bo) - pools.blind(bi[pos])) % N, r.seckey(), forged)
        except ProverFail: continue
        cases.append((vline(n, bm, sj_data(e0, s), ins, out), 'verify_crafted_zero_scalar'))
    # a selected input EQUAL to the output: the ring key is the point at infinity; the prover treats it as
    # the identity (the equation then holds), verification must still reject
    for it in range(chk.scale(4, 30)):
        n = 3; used = [0, 1, 2]; bm = bitmap(n, used)
        bi = [r.below(nb) for _ in range(n)]; bo = r.below(nb)
        out = pools.eph(0, bo); ins = [pools.eph(1, bi[0]), out, pools.eph(0, bi[2])]
        if ins[2] == out or ins[0] == out: continue
        try: e0, s = sj_prove_inf(ins, out, used, 2, (pools.blind(bo) - pools.blind(bi[2])) % N, r.seckey(), [r.seckey() for _ in range(3)])
        except ProverFail: continue
        cases.append((vline(n, bm, sj_data(e0, s), ins, out), 'verify_selected_input_equals_output'))
    # empty selection with e0 = SHA256(msg) (the analogue of finding F1 for this module: must be rejected)
    for n in (0, 1, 2, 5, 8, 9):
        bi = [r.below(nb) for _ in range(n)]
        ins = [pools.eph(1 + i % 5, bi[i]) for i in range(n)]; out = pools.eph(0, r.below(nb))
        cases.append((vline(n, bytes((n + 7) // 8), sha256(sj_msg(ins, out)), ins, out), 'verify_empty_selection_forgery'))
        cases.append((vline(n, bytes((n + 7) // 8), r.bytes(32), ins, out), 'verify_empty_selection'))

def sj_prove_inf(ins, out, used, pos, sec, k, forged):
    """like sj_prove but tolerates ring keys at infinity (ens*inf = inf)"""
    from props import c11_util as u
    pubs = sj_pubs(ins, used, out); msg = sj_msg(ins, out)
    def em(pub, ens, s):
        R = add(mul(ens, pub) if pub is not None else None, mul(s, G))
        if R is None: raise ProverFail('inf')
        return R
    old = u.ecmult; u.ecmult = em
    try: return u.bor_sign1(pubs, pos, sec, k, forged, msg)
    finally: u.ecmult = old

# ------------------------------------------------------------------ stage 2/3: verify produced proofs, honest and altered
def verify_variants(chk, cases, expect, proof, ins, out, honest, heavy=False):
    r = chk.rng
    n, bm, data = proof
    k = popcount(bm)
    l = vline(n, bm, data, ins, out)
    if honest: expect[l] = '#1'
    cases.append((l, 'verify_honest' if honest else 'verify_dishonest_generate'))
    if not honest or (heavy and chk.quick()): return
    nv = 2 if heavy else chk.scale(5, 8)
    for v in r_sample(r, 11, nv):
        d2, bm2, ins2, out2, cls = bytearray(data), bytearray(bm), list(ins), out, None
        if v == 0: i = r.below(len(d2)); d2[i] ^= 1 << r.below(8); cls = 'verify_flip_proof_bit'
        elif v == 1: i = r.below(32); d2[i] ^= 1 << r.below(8); cls = 'verify_flip_e0_bit'
        elif v == 2:
            unused = [i for i in range(n) if not bm[i // 8] >> (i % 8) & 1]; used = [i for i in range(n) if bm[i // 8] >> (i % 8) & 1]
            if not unused: continue
            a, b = r.choice(used), r.choice(unused); bm2[a // 8] ^= 1 << (a % 8); bm2[b // 8] ^= 1 << (b % 8); cls = 'verify_other_subset'
        elif v == 3: i = r.below(n); ins2[i] = add(ins2[i], G) or G; cls = 'verify_altered_input_tag'
        elif v == 4: out2 = add(out, G) or G; cls = 'verify_altered_output_tag'
        elif v == 5:
            if n < 2 or ins2[0] == ins2[-1]: continue
            ins2[0], ins2[-1] = ins2[-1], ins2[0]; cls = 'verify_permuted_inputs'
        elif v == 6: ins2 = ins2[:-1]; cls = 'verify_count_mismatch'
        elif v == 7: ins2 = ins2 + [ins2[0]]; cls = 'verify_count_mismatch'
        elif v == 8:
            j = r.below(k); val = r.choice([0, N, (1 << 256) - 1]); d2[32 + 32 * j: 64 + 32 * j] = b32(val); cls = 'verify_scalar_0_n_max'
        elif v == 9:
            j = r.below(k); sv = int.from_bytes(d2[32 + 32 * j: 64 + 32 * j], 'big')
            if sv + N >= (1 << 256): continue
            d2[32 + 32 * j: 64 + 32 * j] = b32(sv + N); cls = 'verify_scalar_reencoded_s_plus_n'
        elif v == 10: ins2 = [neg(t) for t in ins2]; cls = 'verify_negated_inputs'
        cases.append((vline(n, bytes(bm2), bytes(d2), ins2, out2), cls))

def r_sample(r, n, k):
    l = list(range(n)); r.shuffle(l); return l[:k]

def check_expect(chk, cases, ri, expect):
    """completeness is sampled: an honest chain must end in 1 on the implementation"""
    for (line, cls), a in zip(cases, ri):
        e = expect.get(line)
        if e is not None and a != e and len(chk.violations) < 20:
            chk.violations.append({'kind': 'correspondence', 'class': cls + '_expected_to_verify', 'case': line, 'impl': a, 'model': e + ' (demanded by the property: honest proofs verify)'})

def run(chk):
    impl, model, ie, me = runners(chk)
    chk.coq()
    r = chk.rng
    pools = Pools(r, 64, 48)
    expect = {}
    # ---- stage 1
    s1, chains, made = [], [], []
    gen_initialize(chk, s1, pools, chains)      # heavy cases early: they are spread over the shards
    gen_generate(chk, s1, pools, made)
    gen_crafted(chk, s1, pools, expect)
    gen_codec(chk, s1)
    ri, rm = chk.correspond(impl, model, 'stage 1: codec, initialize, generate, crafted proofs', cases=s1)
    check_expect(chk, s1, ri, expect)
    # ---- stage 2
    s2, gen2 = [], []; skipped_chains = 0
    for c in chains:
        f = ri[c['idx']].split(' ')
        if f[0] == '#0' and rm[c['idx']].split(' ')[0] == '#0':
            # the random subsets drawn within the iteration limit all missed the output tag: a legitimate failure that the
            # model reproduces (same CSPRNG stream); the property only constrains successful initialisations
            skipped_chains += 1; continue
        if f[0] in ('#0', 'CRASH') or len(f) < 5 or not f[0].startswith('#'):
            chk.violations.append({'kind': 'correspondence', 'class': 'chain_initialize_must_succeed', 'case': s1[c['idx']][0][:3000], 'impl': ri[c['idx']][:300], 'model': rm[c['idx']][:300]})
            continue
        idx = int(f[1][1:]); n, bm, data = parse_proof_fields(f[2:5])
        # initialize soundness, also observed directly: the reported index holds the output asset and is selected
        if c['asset_of'][idx] != 0 or not (bm[idx // 8] >> (idx % 8)) & 1 or popcount(bm) != c['k']:
            chk.violations.append({'kind': 'correspondence', 'class': 'initialize_unsound', 'case': s1[c['idx']][0][:3000], 'impl': ri[c['idx']][:300], 'model': rm[c['idx']][:300]})
            continue
        gen2.append((len(s2), c))
        s2.append((gline(n, bm, c['ins'], c['out'], idx, pools.blind(c['bi'][idx]), pools.blind(c['bo'])), 'chain_generate_' + c['cls']))
    for (i, ins, out, honest) in made:
        f = ri[i].split(' ')
        if f[0] != '#1':
            if honest: chk.violations.append({'kind': 'correspondence', 'class': 'generate_honest_must_succeed', 'case': s1[i][0][:3000], 'impl': ri[i][:300], 'model': rm[i][:300]})
            continue
        verify_variants(chk, s2, expect, parse_proof_fields(f[1:4]), ins, out, honest)
    ri2, rm2 = chk.correspond(impl, model, 'stage 2: generate after initialize, verify of stage-1 proofs', cases=s2)
    check_expect(chk, s2, ri2, expect)
    # ---- stage 3
    s3 = []
    for (i, c) in gen2:
        f = ri2[i].split(' ')
        if f[0] != '#1':
            chk.violations.append({'kind': 'correspondence', 'class': 'chain_generate_must_succeed', 'case': s2[i][0][:3000], 'impl': ri2[i][:300], 'model': rm2[i][:300]})
            continue
        verify_variants(chk, s3, expect, parse_proof_fields(f[1:4]), c['ins'], c['out'], True, heavy=(c['k'] > 64))
    ri3, rm3 = chk.correspond(impl, model, 'stage 3: verify of chain proofs', cases=s3)
    check_expect(chk, s3, ri3, expect)
    chk.extra['honest_chains'] = len(gen2); chk.extra['chains_skipped_iteration_limit_reached'] = skipped_chains
