"""Case-crafting helpers for the musig group (C12, C13): an independent Python transcription of BIP-327 on
top of tools/pyec.py plus encoders of the CANONICAL object forms (see coq/Model/Musig.v).  Used ONLY to
build inputs (honest sessions, cancelling nonces, parity-flipping tweaks); verdicts come from comparing
the C implementation with the extracted Coq model."""
from pyec import *

MAGIC_CACHE = bytes([0xf4, 0xad, 0xbb, 0xdf]); MAGIC_SECNONCE = bytes([0x22, 0x0e, 0xdc, 0xf1])
MAGIC_PUBNONCE = bytes([0xf5, 0x7a, 0x3d, 0xa0]); MAGIC_AGGNONCE = bytes([0xa8, 0xb7, 0xe4, 0x67])
MAGIC_SESSION = bytes([0x9d, 0xed, 0xe9, 0x17]); MAGIC_PSIG = bytes([0xeb, 0xfb, 0x1a, 0x32])

# ---- faster scalar multiplication (Jacobian) for the generators
def _jdbl(p):
    X, Y, Z = p
    if Y == 0: return (0, 1, 0)
    S = 4 * X * Y * Y % P; M = 3 * X * X % P
    X3 = (M * M - 2 * S) % P; Y3 = (M * (S - X3) - 8 * Y * Y * Y * Y) % P
    return (X3, Y3, 2 * Y * Z % P)
def _jadd(p, q):
    if p[2] == 0: return q
    if q[2] == 0: return p
    X1, Y1, Z1 = p; X2, Y2, Z2 = q
    Z1Z1 = Z1 * Z1 % P; Z2Z2 = Z2 * Z2 % P
    U1 = X1 * Z2Z2 % P; U2 = X2 * Z1Z1 % P; S1 = Y1 * Z2 * Z2Z2 % P; S2 = Y2 * Z1 * Z1Z1 % P
    if U1 == U2:
        return _jdbl(p) if S1 == S2 else (0, 1, 0)
    H = (U2 - U1) % P; R = (S2 - S1) % P; HH = H * H % P; HHH = H * HH % P; V = U1 * HH % P
    X3 = (R * R - HHH - 2 * V) % P; Y3 = (R * (V - X3) - S1 * HHH) % P
    return (X3, Y3, H * Z1 * Z2 % P)
def fmul(k, pt):
    k %= N
    if pt is None or k == 0: return None
    acc = (0, 1, 0); base = (pt[0], pt[1], 1)
    for bit in bin(k)[2:]:
        acc = _jdbl(acc)
        if bit == '1': acc = _jadd(acc, base)
    if acc[2] == 0: return None
    zi = inv(acc[2], P); zi2 = zi * zi % P
    return (acc[0] * zi2 % P, acc[1] * zi2 * zi % P)

def pt64(pt): return bytes(64) if pt is None else b32(pt[0]) + b32(pt[1])
def ext33(pt): return bytes(33) if pt is None else ser33(pt)
def has_even_y(pt): return pt[1] % 2 == 0

# ---- key aggregation context: dict Q, second, L, par (parity_acc), tacc
def keyagg_coef(L, pk, second):
    if second is not None and pk == second: return 1
    return int.from_bytes(tagged('KeyAgg coefficient', L + ser33(pk)), 'big') % N
def keyagg(pks):
    second = None
    for q in pks[1:]:
        if q != pks[0]: second = q; break
    L = tagged('KeyAgg list', b''.join(ser33(q) for q in pks))
    Q = None
    for q in pks: Q = add(Q, fmul(keyagg_coef(L, q, second), q))
    return dict(Q=Q, second=second, L=L, par=0, tacc=0)
def apply_tweak(ctx, t, xonly):
    """t < n; returns new ctx or None (infinity)"""
    Q = ctx['Q']; par = ctx['par']; tacc = ctx['tacc']
    if xonly and not has_even_y(Q): Q = neg(Q); par ^= 1; tacc = (-tacc) % N
    Q2 = add(Q, fmul(t, G))
    if Q2 is None: return None
    return dict(Q=Q2, second=ctx['second'], L=ctx['L'], par=par, tacc=(tacc + t) % N)
def cache_canon(ctx, magic=MAGIC_CACHE):
    return magic + pt64(ctx['Q']) + pt64(ctx['second']) + ctx['L'] + bytes([ctx['par']]) + b32(ctx['tacc'])

# ---- nonces
def nonce_hash_k(rand_in, sk, pk, aggpk32, msg, extra):
    """BIP-327 NonceGen restricted to the argument shapes of the C API (32-byte msg / extra)"""
    if sk is not None: rand = bytes(a ^ b for a, b in zip(tagged('MuSig/aux', rand_in), sk))
    else: rand = rand_in
    pkb = ser33(pk)
    buf = rand + bytes([len(pkb)]) + pkb
    buf += bytes([0]) if aggpk32 is None else bytes([32]) + aggpk32
    buf += bytes([0]) if msg is None else bytes([1]) + (32).to_bytes(8, 'big') + msg
    buf += (0).to_bytes(4, 'big') if extra is None else (32).to_bytes(4, 'big') + extra
    return [int.from_bytes(tagged('MuSig/nonce', buf + bytes([i])), 'big') % N for i in (0, 1)]
def secnonce_canon(k1, k2, pk, magic=MAGIC_SECNONCE): return magic + b32(k1) + b32(k2) + pt64(pk)
def pubnonce_canon(R1, R2, magic=MAGIC_PUBNONCE): return magic + pt64(R1) + pt64(R2)
def aggnonce_canon(R1, R2, magic=MAGIC_AGGNONCE): return magic + pt64(R1) + pt64(R2)
def nonce_agg(pubs):
    R1 = R2 = None
    for a, b in pubs: R1 = add(R1, a); R2 = add(R2, b)
    return R1, R2

# ---- session
def nonce_process(ctx, agg, msg, adaptor=None):
    R1, R2 = agg
    if adaptor is not None: R1 = add(R1, adaptor)
    aggpk = b32(ctx['Q'][0])
    b = int.from_bytes(tagged('MuSig/noncecoef', ext33(R1) + ext33(R2) + aggpk + msg), 'big') % N
    F = add(R1, fmul(b, R2)); was_inf = F is None
    if F is None: F = G
    e = int.from_bytes(tagged('BIP0340/challenge', b32(F[0]) + aggpk + msg), 'big') % N
    sp = 0
    if ctx['tacc'] != 0:
        sp = e * ctx['tacc'] % N
        if not has_even_y(ctx['Q']): sp = (-sp) % N
    return dict(par=F[1] & 1, fin=b32(F[0]), b=b, e=e, sp=sp, inf=was_inf)
def session_canon(s, magic=MAGIC_SESSION): return magic + bytes([s['par']]) + s['fin'] + b32(s['b']) + b32(s['e']) + b32(s['sp'])
def partial_sign(k1, k2, d, pk, ctx, s):
    if (ctx['Q'][1] & 1) != ctx['par']: d = (-d) % N
    mu = keyagg_coef(ctx['L'], pk, ctx['second'])
    if s['par']: k1 = (-k1) % N; k2 = (-k2) % N
    return (s['e'] * mu * d + k1 + s['b'] * k2) % N
def psig_canon(s, magic=MAGIC_PSIG): return magic + b32(s)
def partial_agg(s, sigs): return s['fin'] + b32((s['sp'] + sum(sigs)) % N)
def kp_canon(d): return b32(d) + pt64(fmul(d, G))
def xonly_obj(pt): return pt64(pt if has_even_y(pt) else neg(pt))
