"""C09 - every range proof the library creates verifies, bounds the value and rewinds (DESIGN.md section 5, C09)"""
from props.common import *
from props.c10_util import *
FINISH = dict(level='proof', technique='Coq theorems about the parameter logic of the executable model (Properties_C09.v: range_proveparams for all 64-bit inputs) + differential correspondence (byte-identical proofs from rangeproof_sign, then verify / rewind / info of those proofs on both sides) + direct assertions of the property clauses on the implementation outputs',
              trusted=TRUSTED_COMMON + ['"any other nonce fails" and completeness of the Borromean ring signature are cryptographic/algebraic facts not proved here; they are compared and asserted on every generated case'])

def runners(chk):
    impl = vlib.build_impl(chk.dir)
    model = vlib.ensure_model('rangeproof')
    return impl, model, (), ()

EDGE64 = [0, 1, 2, 3, 4, 9, 10, 11, 99, 100, 101, (1 << 63) - 1, 1 << 63, (1 << 63) + 1, U64, U64 - 1, (1 << 62), (1 << 62) - 1, (1 << 61), (1 << 32), (1 << 32) - 1] + \
         [10 ** k for k in range(1, 20)] + [10 ** k - 1 for k in range(1, 20)] + [(1 << k) for k in range(1, 64, 7)] + [(1 << k) - 1 for k in range(2, 64, 5)]
def edge64(r):
    c = r.below(8)
    if c < 3: return r.choice(EDGE64)
    if c < 4: return (r.choice(EDGE64) + r.below(5) - 2) & U64
    if c < 6: return r.bits(r.choice([1, 2, 3, 4, 8, 16, 32, 62, 63, 64]))
    return r.bits(64)

def params(r):
    value = edge64(r)
    m = r.below(6)
    minv = 0 if m < 2 else value if m == 2 else edge64(r) if m == 3 else r.below(value + 1) if value else 0
    if m == 5 and value: minv = value - r.below(min(value, 1000) + 1)
    exp = r.choice([-1, 0, 0, 1, 2, 3, 9, 17, 18, r.below(19)])
    mb = r.choice([0, 0, 0, 1, 2, 3, 5, 8, 16, 32, 59, 60, 61, 62, 63, 64, r.below(65)])
    return value, minv, exp, mb

def expected_rings(value, minv, exp, mb):
    """rough size of the proof (python re-computation only used to budget the quick tier)"""
    return max(mb, (value - minv).bit_length(), 1)

def gen_params_sweep(chk):
    """cheap integer-only ops: the parameter derivation itself and max_size, tens of thousands of edge-biased inputs"""
    r = chk.rng
    for i in range(chk.scale(30000, 400000)):
        value, minv, exp, mb = params(r)
        if minv > value: minv, value = value, minv
        chk.add('range_proveparams #%d #%d #%d #%d' % (minv, exp, mb, value), 'proveparams')
    for i in range(chk.scale(3000, 30000)):
        chk.add('rangeproof_max_size #%d #%d' % (edge64(r), r.choice([-1, 0, 1, 2, 31, 32, 33, 63, 64, 65, r.below(65)])), 'max_size')

def sign_cases(chk):
    r = chk.rng
    gens = [H, H, fmul(r.seckey(), G), neg(H)]
    cases = []   # (line, class, meta)
    def one(value, minv, exp, mb, plen=5134, blind=None, msg=None, extra=b'', cls='sign', g=None, commit_pt=None):
        g = g or r.choice(gens)
        blind = r.seckey() if blind is None else blind
        c = commit_pt or commit(blind, value, g) or G
        nonce = r.bytes(32)
        line = 'rangeproof_sign #%d #%d %s %s %s #%d #%d #%d %s %s %s' % (plen, minv, obj(c), h32(blind), nonce.hex(), exp, mb, value,
               '-' if msg is None else hx(msg), '-' if extra is None else hx(extra), obj(g))
        cases.append((line, cls, dict(value=value, minv=minv, exp=exp, mb=mb, blind=blind, nonce=nonce, msg=msg or b'', extra=extra or b'', g=g, c=c, plen=plen)))
    # heavy first: full-size proofs
    one(U64, 0, 0, 0, msg=r.bytes(3968), cls='sign_full'); one((1 << 63) - 1, 0, 18, 64, msg=r.bytes(100), cls='sign_full'); one(U64 - 5, 0, 3, 0, extra=r.bytes(100), cls='sign_full')
    if not chk.quick():
        for i in range(12): one(r.bits(64), 0, r.below(19), r.choice([0, 64, 63]), msg=r.bytes(r.below(4000)), cls='sign_full')
    # documented-invalid / out-of-domain parameters (cheap: rejected before any group operation)
    for exp in (-2, 19, -100, 31, 1 << 20):
        one(86, 0, exp, 0, cls='sign_bad_exp')
    for mb in (-1, 65, 100, -64):
        one(86, 0, 0, mb, cls='sign_bad_min_bits')
    for (v, m) in [(5, 6), (0, 1), (U64 - 1, U64), (1 << 63, (1 << 63) + 1)]:
        one(v, m, 0, 0, cls='sign_min_gt_value')
    for (v, m) in [((1 << 63), 1), (U64, 1), (U64, (1 << 63) - 1), ((1 << 63) - 1, (1 << 63) - 1), ((1 << 63), (1 << 63) - 1), (U64, U64), (U64, U64 - 1), ((1 << 63) + 5, (1 << 63))]:
        for exp in (0, -1):
            one(v, m, exp, 0, cls='sign_2_63_guard')
    for plen in (0, 1, 64, 65, 66, 72, 73, 74, 96, 97, 98, 104, 105, 106):
        one(r.choice([0, 86]), r.choice([0, 0, 86]), -1, 0, plen=plen, cls='sign_small_buffer_exact')
    # blinding factors 0, n-1, >= n
    for b in (0, 1, N - 1, N, N + 1, (1 << 256) - 1):
        one(r.bits(6), 0, 0, 0, blind=b, cls='sign_blind_ge_n' if b >= N else 'sign_blind_edge')
        one(5, 5, -1, 0, blind=b, cls='sign_blind_ge_n' if b >= N else 'sign_blind_edge')
    # edge-biased parameter sets, kept small (<= 16 bits of mantissa) so that the model side is affordable
    nsmall = chk.scale(170, 3000)
    tries = 0
    while nsmall and tries < 100000:
        tries += 1
        value, minv, exp, mb = params(r)
        if minv > value: minv, value = value, minv
        if mb > 16: mb = r.choice([0, 1, 7, 8, 15, 16])
        if expected_rings(value, minv, exp, mb) > 16:
            # shrink the distance, keep the magnitude (still exercises the 2^63 guards and the exponent logic)
            minv = value - r.bits(r.choice([1, 4, 8, 12, 16])) if value > (1 << 16) else 0
            if minv < 0: minv = 0
            if expected_rings(value, minv, exp, mb) > 16: continue
        rings = (expected_rings(value, minv, exp, mb) + 1) // 2
        cap = 128 * (rings - 1)
        msg = None if r.chance(1, 4) else r.bytes(r.choice([cap + 1, cap + 32]) if r.chance(1, 10) else min(cap, r.choice([0, 1, 31, 32, 33, max(cap - 1, 0), cap, cap, r.below(cap + 1)])))
        extra = r.choice([None, b'', r.bytes(1), r.bytes(32), r.bytes(100), r.bytes(r.below(101))])
        one(value, minv, exp, mb, msg=msg, extra=extra, cls='sign_edge_params')
        nsmall -= 1
    # buffers around the exact need: sign once with a big buffer in stage 0 is not possible here, so sweep plausible sizes
    for i in range(chk.scale(40, 400)):
        value = r.bits(r.choice([1, 2, 3, 4, 5, 6])); minv = r.choice([0, 0, r.below(value + 1)])
        mant = max((value - minv).bit_length(), 1); rings = (mant + 1) // 2; npub = 4 * rings - (2 if mant & 1 else 0)
        need = 2 + (8 if minv else 0) + 32 * (npub + rings - 1) + 32 + ((rings + 6) >> 3)
        one(value, minv, 0, 0, plen=need + r.choice([-33, -2, -1, 0, 1, 2, 32]), cls='sign_buffer_boundary')
    return cases

def flipbit(b, bit):
    b = bytearray(b); b[bit >> 3] ^= 1 << (bit & 7); return bytes(b)

def run(chk):
    impl, model, ie, me = runners(chk)
    chk.coq()
    r = chk.rng
    # ---- stage 0: integer-only sweeps
    gen_params_sweep(chk)
    ri0, rm0 = chk.correspond(impl, model, 'parameter logic (range_proveparams, max_size)')
    bad = 0
    for (line, cls), a in zip(chk.cases, ri0):
        if cls != 'proveparams': continue
        f = a.split(' '); q = [int(x[1:]) for x in line.split(' ')[1:]]
        if f[0] != '#1': continue
        v, rings, npub, minv2, mant, scale, exp2 = int(f[1][1:]), int(f[2][1:]), int(f[4][1:]), int(f[6][1:]), int(f[7][1:]), int(f[8][1:]), int(f[9][1:])
        ok = v * scale + minv2 == q[3] and 1 <= rings <= 32 and npub <= 128
        if q[1] >= 0 and q[0] != U64:
            ok = ok and 1 <= mant <= 64 and v < (1 << mant) and scale == 10 ** exp2 and minv2 + ((1 << mant) - 1) * scale <= U64 and q[0] <= minv2 <= q[3]
        if not ok and bad < 5:
            bad += 1; chk.disagreement(line, 'property_assertion_proveparams', a, 'expected: v*scale+min=value, 1<=mantissa<=64, v<2^mantissa, rings<=32, npub<=128, proven range below 2^64')
    # ---- stage 1: signing (byte-identical proofs)
    cases = sign_cases(chk)
    s1 = [(l, c) for l, c, _ in cases]
    ri, rm = chk.correspond(impl, model, 'rangeproof_sign', cases=s1)
    # ---- stage 2: verify / info / rewind of what the implementation produced, and the property clauses
    s2 = []; expect = []
    nsucc = 0
    for (line, cls, m), a in zip(cases, ri):
        f = a.split(' ')
        if f[0] != '#1' or len(f) < 3 or f[2].startswith('#'): continue      # '#-1': the reported length exceeds the buffer (already a disagreement)
        nsucc += 1
        pf = bytes.fromhex(f[2]); ex = '-' if not m['extra'] else m['extra'].hex()
        com, g = obj(m['c']), obj(m['g'])
        heavy = len(pf) > 2600
        def add(l, c, e=None): s2.append((l, c)); expect.append((e, m, pf))
        add('rangeproof_verify %s %s %s %s' % (com, pf.hex(), ex, g), 'verify_made', 'verify')
        add('rangeproof_info ' + pf.hex(), 'info_made', 'info')
        cap = r.choice([4096, 4096, 0, 1, 33, len(m['msg']), len(m['msg']) + 1]) if not heavy else 4096
        add('rangeproof_rewind %s %s %s %s %s #%d' % (m['nonce'].hex(), com, pf.hex(), ex, g, cap), 'rewind_made', ('rewind', cap))
        if not heavy:
            if r.chance(1, 3): add('rangeproof_rewind %s %s %s %s %s -' % (m['nonce'].hex(), com, pf.hex(), ex, g), 'rewind_made_nomsg', ('rewind', None))
            add('rangeproof_rewind %s %s %s %s %s #64' % (flipbit(m['nonce'], r.below(256)).hex(), com, pf.hex(), ex, g), 'rewind_other_nonce', 'reject')
            add('rangeproof_verify %s %s %s %s' % (com, flipbit(pf, r.below(8 * len(pf))).hex(), ex, g), 'verify_made_bitflip', 'reject')
            if r.chance(1, 3): add('rangeproof_verify %s %s %s %s' % (com, pf.hex(), (m['extra'] + b'\x01').hex(), g), 'verify_made_other_extra', 'reject')
            # determinism: the same call again (and with a larger buffer) gives the same bytes
            if r.chance(1, 6): add(line, 'sign_again', ('same', a))
            # buffer exactly as long as the proof / one byte short (exact-value proofs need more room than they use:
            # the size check of sign_impl counts npub = 2 for them; the model mirrors that, no python expectation)
            single = not (pf[0] & 64)
            if r.chance(1, 6): add(line.replace('#%d ' % m['plen'], '#%d ' % (len(pf)), 1), 'sign_exact_buffer', None if single else ('same', a))
            if r.chance(1, 6) and len(pf) > 65: add(line.replace('#%d ' % m['plen'], '#%d ' % (len(pf) - 1), 1), 'sign_buffer_one_short', 'reject')
    ri2, rm2 = chk.correspond(impl, model, 'verify/info/rewind of library-made proofs', cases=s2)
    # ---- the property clauses asserted directly on the implementation's outputs
    nbad = 0
    def fail(l, a, what):
        nonlocal nbad
        nbad += 1
        if nbad <= 5: chk.disagreement(l, 'property_assertion', a, 'expected: ' + what)
    for (l, c), a, (e, m, pf) in zip(s2, ri2, expect):
        f = a.split(' ')
        if e == 'reject':
            if f[0] != '#0': fail(l, a, 'rejection (ret 0)')
        elif e == 'verify':
            if f[0] != '#1': fail(l, a, 'library-made proof verifies'); continue
            mn, mx = int(f[1][1:]), int(f[2][1:])
            if not (0 <= mn <= m['value'] <= mx <= U64): fail(l, a, 'min <= value <= max inside [0,2^64)')
            m['range'] = (mn, mx)
        elif e == 'info':
            if f[0] != '#1': fail(l, a, 'info succeeds on a library-made proof'); continue
            if m.get('range') and (int(f[3][1:]), int(f[4][1:])) != m['range']: fail(l, a, 'info reports the range verification reports %r' % (m['range'],))
        elif isinstance(e, tuple) and e[0] == 'rewind':
            if f[0] != '#1': fail(l, a, 'rewind with the creator nonce succeeds'); continue
            cap = e[1]
            single = len(pf) <= 73 and not (pf[0] & 64)
            blind_ok = f[1] == h32(m['blind'] % N)
            want_v = m['value']
            if not blind_ok or int(f[2][1:]) != want_v: fail(l, a, 'rewind returns blind and value exactly')
            if cap is not None and not single:
                got = bytes.fromhex(f[3]) if f[3] != '.' else b''
                rings = None
                full = m['msg'] + bytes(4096)
                if got != full[:len(got)] or len(got) > cap: fail(l, a, 'rewind returns the embedded message zero-padded')
        elif isinstance(e, tuple) and e[0] == 'same':
            if a != e[1]: fail(l, a, 'deterministic proof bytes: ' + e[1][:80])
    # size bound: length written <= max_size(max_value, min_bits) and <= 5134
    ms = []
    for (line, cls, m), a in zip(cases, ri):
        f = a.split(' ')
        if f[0] == '#1' and m.get('range'): ms.append(('rangeproof_max_size #%d #%d' % (m['range'][1], max(m['mb'], 0)), 'max_size_of_made', int(f[1][1:])))
    if ms:
        rs, _ = chk.correspond(impl, model, 'max_size of library-made proofs', cases=[(l, c) for l, c, _ in ms])
        for (l, c, ln), a in zip(ms, rs):
            if not (ln <= int(a[1:]) and ln <= 5134): fail(l, a, 'proof length %d <= advertised maximum' % ln)
    chk.extra['signed_ok'] = nsucc
    chk.extra['property_assertion_failures'] = nbad
    acc = {}
    for (line, cls, m), a in zip(cases, ri):
        k = '%s %s' % (cls, a.split(' ')[0]); acc[k] = acc.get(k, 0) + 1
    chk.extra['sign_result_histogram'] = dict(sorted(acc.items()))
