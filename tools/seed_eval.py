#!/usr/bin/env python3
"""Confirm a seeded breaking change delivered in /tmp/seed_<tag>/out and run our check against it.
usage: seed_eval.py <tag> <property id> [<seed dir name under /verif/seeded>]
Steps (all in a fresh scratch worktree under /tmp, removed afterwards):
 1. demo passes on the original tree;  2. patch applies, library builds, full ctest passes (317);
 3. demo fails on the changed tree;    4. VERIF_REPO=<changed tree> ./check <id> must report a VIOLATION.
Writes /verif/seeded/<name>/{patch.diff,demo.c,run_demo.sh,meta.json}."""
import sys, os, subprocess, json, shutil, time
tag, prop = sys.argv[1], sys.argv[2]
name = sys.argv[3] if len(sys.argv) > 3 else tag
src = '/tmp/seed_%s/out' % tag
if not os.path.isdir(src): src = '/verif/seeded/%s' % name      # re-evaluation of a seed already kept
wt = '/tmp/seedeval_%s' % tag
def sh(cmd, cwd=None, timeout=3000, env=None):
    p = subprocess.run(cmd, shell=True, cwd=cwd, stdout=subprocess.PIPE, stderr=subprocess.STDOUT, timeout=timeout, env=env)
    return p.returncode, p.stdout.decode('utf-8', 'replace')
res = {'property': prop, 'tag': tag}
sh('git -C /repo worktree remove --force %s' % wt); shutil.rmtree(wt, ignore_errors=True)
rc, o = sh('git -C /repo worktree add -q %s HEAD' % wt); assert rc == 0, o
try:
    for f in ('demo.c', 'run_demo.sh'): shutil.copy(os.path.join(src, f), wt) if os.path.exists(os.path.join(src, f)) else None
    os.makedirs(os.path.join(wt, 'out'), exist_ok=True)
    for f in os.listdir(src):
        if os.path.isfile(os.path.join(src, f)): shutil.copy(os.path.join(src, f), os.path.join(wt, 'out', f))
    rc0, o0 = sh('bash out/run_demo.sh', cwd=wt, timeout=900); res['demo_on_original_rc'] = rc0; res['demo_on_original_tail'] = o0[-300:]
    rc, o = sh('git apply out/patch.diff', cwd=wt); res['patch_applies'] = (rc == 0)
    if rc != 0: res['error'] = o[-500:]
    else:
        rc, o = sh('cmake -G Ninja -S . -B _build -DCMAKE_BUILD_TYPE=RelWithDebInfo -DCMAKE_C_FLAGS=-Wno-error > /dev/null && cmake --build _build 2>&1 | tail -2 && ctest --test-dir _build -j8 --timeout 900 2>&1 | tail -14', cwd=wt, timeout=3000)
        res['ctest_tail'] = o[-700:]; import re as _re; m = _re.search(r'(\d+)% tests passed, (\d+) tests failed out of (\d+)', o); res['tests_pass_with_change'] = bool(m and m.group(1) == '100' and m.group(3) == '317')
        shutil.rmtree(os.path.join(wt, '_build'), ignore_errors=True)
        rc1, o1 = sh('bash out/run_demo.sh', cwd=wt, timeout=900); res['demo_on_changed_rc'] = rc1; res['demo_on_changed_tail'] = o1[-300:]
        env = dict(os.environ, VERIF_REPO=wt, VERIF_EVIDENCE_DIR='/tmp/seedeval_evidence')
        t = time.time(); rc2, o2 = sh('./check %s' % prop, cwd='/verif', timeout=3000, env=env)
        res['check_rc'] = rc2; res['check_tail'] = o2[-600:]; res['check_caught'] = ('VIOLATION property=%s' % prop in o2); res['check_wall_s'] = round(time.time() - t, 1)
finally:
    sh('git -C /repo worktree remove --force %s' % wt); shutil.rmtree(wt, ignore_errors=True)
    # the check regenerated coq/Gen from the changed tree: put the translation of /repo back
    sh('python3 -c "import sys; sys.path.insert(0, \'/verif/tools\'); import kernel_gen as k; k.regenerate(); k.regenerate(k.CT_FUNCS); k.regenerate(k.K32_FUNCS)"', cwd='/verif', env=dict(os.environ, VERIF_REPO='/repo'))
ok = res.get('demo_on_original_rc') == 0 and res.get('tests_pass_with_change') and res.get('demo_on_changed_rc') not in (0, None)
res['confirmed'] = bool(ok)
print(json.dumps(res, indent=1))
if ok:
    dst = '/verif/seeded/%s' % name; os.makedirs(dst, exist_ok=True)
    for f in ('patch.diff', 'demo.c', 'run_demo.sh'):
        if os.path.exists(os.path.join(src, f)) and os.path.abspath(src) != os.path.abspath(dst): shutil.copy(os.path.join(src, f), dst)
    meta = json.load(open(os.path.join(src, 'meta.json'))) if os.path.exists(os.path.join(src, 'meta.json')) else {}
    meta.update({'property': prop, 'confirmed_by_lead': {'demo_passes_on_original': True, 'tests_pass_with_change': True, 'demo_fails_on_changed': True,
                 'what_was_run': 'tools/seed_eval.py: fresh worktree, bash run_demo.sh (rc 0), git apply patch.diff, cmake+ninja build, ctest -j8 (317/317), bash run_demo.sh (rc %s), VERIF_REPO=<worktree> ./check %s' % (res.get('demo_on_changed_rc'), prop)},
                 'caught_by_check': res.get('check_caught'), 'check_output_tail': res.get('check_tail', '')[-300:]})
    json.dump(meta, open(os.path.join(dst, 'meta.json'), 'w'), indent=1)
