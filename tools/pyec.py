"""Small secp256k1 toolbox used ONLY by case generators (to craft boundary inputs such as valid
signatures with chosen scalars).  Never used to decide a verdict: verdicts come from comparing the
implementation with the extracted Coq model."""
import hashlib
P = 0xFFFFFFFFFFFFFFFFFFFFFFFFFFFFFFFFFFFFFFFFFFFFFFFFFFFFFFFEFFFFFC2F
N = 0xFFFFFFFFFFFFFFFFFFFFFFFFFFFFFFFEBAAEDCE6AF48A03BBFD25E8CD0364141
GX = 0x79BE667EF9DCBBAC55A06295CE870B07029BFCDB2DCE28D959F2815B16F81798
GY = 0x483ADA7726A3C4655DA4FBFC0E1108A8FD17B448A68554199C47D08FFB10D4B8
G = (GX, GY)
B7 = 7

def inv(a, m): return pow(a, -1, m)
def add(p1, p2):
    if p1 is None: return p2
    if p2 is None: return p1
    (x1, y1), (x2, y2) = p1, p2
    if x1 == x2:
        if (y1 + y2) % P == 0: return None
        l = 3 * x1 * x1 * inv(2 * y1, P) % P
    else:
        l = (y2 - y1) * inv(x2 - x1, P) % P
    x3 = (l * l - x1 - x2) % P
    return (x3, (l * (x1 - x3) - y1) % P)
def neg(p): return None if p is None else (p[0], (-p[1]) % P)
def mul(k, p):
    k %= N
    r = None
    while k:
        if k & 1: r = add(r, p)
        p = add(p, p); k >>= 1
    return r
def lift_x(x, odd=False):
    if x >= P: return None
    y2 = (pow(x, 3, P) + B7) % P
    y = pow(y2, (P + 1) // 4, P)
    if y * y % P != y2: return None
    if (y & 1) != int(odd): y = P - y
    return (x, y)
def b32(x): return (x % (1 << 256)).to_bytes(32, 'big')
def h32(x): return b32(x).hex()
def pk_obj(pt): return ('00' * 64) if pt is None else (h32(pt[0]) + h32(pt[1]))
def ser33(pt): return bytes([2 + (pt[1] & 1)]) + b32(pt[0])
def ser65(pt): return b'\x04' + b32(pt[0]) + b32(pt[1])
def sha256(b): return hashlib.sha256(b).digest()
def tagged(tag, msg):
    t = sha256(tag.encode() if isinstance(tag, str) else tag)
    return sha256(t + t + msg)
def ecdsa_sign_k(d, m, k):
    R = mul(k, G); r = R[0] % N
    s = inv(k, N) * (m + r * d) % N
    return r, s
def der_int(v):
    b = v.to_bytes(32, 'big').lstrip(b'\x00') or b'\x00'
    if b[0] & 0x80: b = b'\x00' + b
    return b
def der_sig(r, s):
    rb, sb = der_int(r), der_int(s)
    return bytes([0x30, 4 + len(rb) + len(sb), 2, len(rb)]) + rb + bytes([2, len(sb)]) + sb
def schnorr_sign(d, msg, k0):
    Pt = mul(d, G)
    if Pt[1] & 1: d = N - d
    R = mul(k0, G); k = N - k0 if R[1] & 1 else k0
    e = int.from_bytes(tagged("BIP0340/challenge", b32(R[0]) + b32(Pt[0]) + msg), 'big') % N
    return b32(R[0]) + b32((k + e * d) % N)

class Rng:
    """SplitMix64; every random choice of a check derives from one instance seeded by VERIF_SEED."""
    def __init__(self, seed): self.s = seed & 0xFFFFFFFFFFFFFFFF
    def u64(self):
        self.s = (self.s + 0x9E3779B97F4A7C15) & 0xFFFFFFFFFFFFFFFF
        z = self.s
        z = ((z ^ (z >> 30)) * 0xBF58476D1CE4E5B9) & 0xFFFFFFFFFFFFFFFF
        z = ((z ^ (z >> 27)) * 0x94D049BB133111EB) & 0xFFFFFFFFFFFFFFFF
        return z ^ (z >> 31)
    def below(self, n): return self.u64() % n if n > 0 else 0
    def bits(self, k):
        v = 0
        for _ in range((k + 63) // 64): v = (v << 64) | self.u64()
        return v & ((1 << k) - 1)
    def bytes(self, n): return self.bits(8 * n).to_bytes(n, 'big') if n else b''
    def choice(self, l): return l[self.below(len(l))]
    def chance(self, num, den): return self.below(den) < num
    def shuffle(self, l):
        for i in range(len(l) - 1, 0, -1):
            j = self.below(i + 1); l[i], l[j] = l[j], l[i]
    def scalar256(self):
        """edge-biased 256-bit value"""
        c = self.below(10)
        if c < 4: return self.bits(256)
        if c < 6: return self.choice(EDGE256)
        if c < 7: return (self.choice(EDGE256) + self.below(5) - 2) % (1 << 256)
        if c < 8: return self.bits(self.choice([1, 8, 32, 64, 127, 128, 129, 200, 255]))
        if c < 9: return (1 << 256) - 1 - self.bits(self.choice([1, 8, 32, 64, 128]))
        k = self.below(257); return ((1 << k) - self.below(2)) % (1 << 256)
    def seckey(self):
        while True:
            v = self.scalar256()
            if 0 < v < N: return v
LAMBDA = 0x5363AD4CC05C30E0A5261C028812645A122E22EA20816678DF02967C1B23BD72
EDGE256 = [0, 1, 2, 3, N - 2, N - 1, N, N + 1, N // 2, N // 2 + 1, N // 2 - 1, P - N - 1, P - N, P - N + 1,
           P - 1, P, P + 1, (1 << 256) - 1, (1 << 256) - 2, 1 << 255, (1 << 255) - 1, 1 << 128, (1 << 128) - 1,
           LAMBDA, N - LAMBDA, (1 << 256) - N, (1 << 256) - P, 0x7FFFFFFFFFFFFFFF, 0xFFFFFFFFFFFFFFFF,
           0xFFFFFFFFFFFFF, 0xFFFFFFFFFFFFF << 52, 0xFFFFFFFFFFFFF << 104, 0xFFFFFFFF << 224]
