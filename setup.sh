#!/bin/sh
# Builds the framework from files on disk only: full Coq build (.vo), extraction, OCaml runners.
set -e
cd "$(dirname "$0")"
python3 - <<'PY'
import sys, os, glob
sys.path.insert(0, 'tools')
import vlib, kernel_gen, globals_scan
# generated kernel (Gen/*.v) from /repo's current tree; every check regenerates it again
kernel_gen.prefetch(kernel_gen.all_lists())
for _l in kernel_gen.all_lists(): print(kernel_gen.regenerate(_l))
try: globals_scan.write_gen(globals_scan.scan(os.path.join(vlib.BUILD, 'setup_globals')))
except Exception as e: print('setup: globals scan failed', e)
rc, o = vlib.coq_make([], timeout=5400)
print(o[-3000:])
if rc != 0:
    print('setup: coq build reported errors (checks will report the affected properties)')
for f in sorted(glob.glob('coq/Model/Api*.v')):
    g = os.path.basename(f)[3:-2].lower()
    try:
        print(vlib.ensure_model(g))
    except vlib.BuildError as e:
        print('setup: model group %s failed: %s' % (g, str(e)[:500]))
PY
