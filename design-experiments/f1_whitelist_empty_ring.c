#define ENABLE_MODULE_GENERATOR 1
#define ENABLE_MODULE_RANGEPROOF 1
#define ENABLE_MODULE_WHITELIST 1
#define ENABLE_MODULE_EXTRAKEYS 1
#define ENABLE_MODULE_SCHNORRSIG 1
#define ECMULT_WINDOW_SIZE 15
#define COMB_BLOCKS 43
#define COMB_TEETH 6
#include "/repo/src/secp256k1.c"
#include "/repo/src/precomputed_ecmult.c"
#include "/repo/src/precomputed_ecmult_gen.c"
#include <stdio.h>
int main(void){
  secp256k1_context *ctx = secp256k1_context_create(SECP256K1_CONTEXT_NONE);
  unsigned char sk[32]; memset(sk,0x11,32);
  secp256k1_pubkey W; secp256k1_ec_pubkey_create(ctx,&W,sk);
  unsigned char ser[33]; size_t l=33; secp256k1_ec_pubkey_serialize(ctx,ser,&l,&W,SECP256K1_EC_COMPRESSED);
  unsigned char msg[32], e0[32], in[33];
  secp256k1_sha256 sha; const secp256k1_hash_ctx *h = secp256k1_get_hash_context(ctx);
  secp256k1_sha256_initialize(&sha); secp256k1_sha256_write(h,&sha,ser,33); secp256k1_sha256_finalize(h,&sha,msg);
  secp256k1_sha256_initialize(&sha); secp256k1_sha256_write(h,&sha,msg,32); secp256k1_sha256_finalize(h,&sha,e0);
  in[0]=0; memcpy(in+1,e0,32);
  secp256k1_whitelist_signature sig;
  int pr = secp256k1_whitelist_signature_parse(ctx,&sig,in,33);
  secp256k1_pubkey dummy[1]; dummy[0]=W;
  int vr = secp256k1_whitelist_verify(ctx,&sig,dummy,dummy,0,&W);
  printf("parse=%d verify_empty_list=%d\n",pr,vr);
  return 0;
}
