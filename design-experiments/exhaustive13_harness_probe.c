#define EXHAUSTIVE_TEST_ORDER 13
#define ENABLE_MODULE_BPPP 1
#define ENABLE_MODULE_ECDH 1
#define ENABLE_MODULE_RECOVERY 1
#define ENABLE_MODULE_EXTRAKEYS 1
#define ENABLE_MODULE_SCHNORRSIG 1
#define ENABLE_MODULE_MUSIG 1
#define ENABLE_MODULE_SCHNORRSIG_HALFAGG 1
#define ENABLE_MODULE_ELLSWIFT 1
#define ENABLE_MODULE_ECDSA_S2C 1
#define ENABLE_MODULE_ECDSA_ADAPTOR 1
#define ENABLE_MODULE_GENERATOR 1
#define ENABLE_MODULE_RANGEPROOF 1
#define ENABLE_MODULE_WHITELIST 1
#define ENABLE_MODULE_SURJECTIONPROOF 1
#define ECMULT_WINDOW_SIZE 15
#include <stdio.h>
#include "/repo/src/secp256k1.c"
#include "/repo/src/ecmult_compute_table_impl.h"
#include "/repo/src/ecmult_gen_compute_table_impl.h"
int main(void){
  secp256k1_ecmult_gen_compute_table(&secp256k1_ecmult_gen_prec_table[0][0], &secp256k1_ge_const_g, COMB_BLOCKS, COMB_TEETH, COMB_SPACING);
  secp256k1_ecmult_compute_two_tables(secp256k1_pre_g, secp256k1_pre_g_128, WINDOW_G, &secp256k1_ge_const_g);
  secp256k1_context *ctx = secp256k1_context_create(SECP256K1_CONTEXT_NONE);
  /* keypair with sk=3, sign a message, halfagg aggregate 1 sig, verify, then re-encode s+13 */
  unsigned char sk[32]={0}; sk[31]=3; secp256k1_keypair kp; int r=secp256k1_keypair_create(ctx,&kp,sk);
  unsigned char msg[32]={1}, sig[64]; int s=secp256k1_schnorrsig_sign32(ctx,sig,msg,&kp,NULL);
  secp256k1_xonly_pubkey pk; secp256k1_keypair_xonly_pub(ctx,&pk,NULL,&kp);
  int v=secp256k1_schnorrsig_verify(ctx,sig,msg,32,&pk);
  unsigned char agg[64]; size_t al=64; int a=secp256k1_schnorrsig_aggregate(ctx,agg,&al,&pk,msg,sig,1);
  int av=secp256k1_schnorrsig_aggverify(ctx,&pk,msg,1,agg,al);
  agg[63]+=13; int av2=secp256k1_schnorrsig_aggverify(ctx,&pk,msg,1,agg,al);
  sig[63]+=13; int v2=secp256k1_schnorrsig_verify(ctx,sig,msg,32,&pk);
  printf("create=%d sign=%d verify=%d agg=%d aggverify=%d aggverify(s+13)=%d verify(s+13)=%d\n",r,s,v,a,av,av2,v2);
  return 0; }
