Require Import Reals Nsatz.
Local Open Scope R_scope.
Goal forall b x1 y1 x2 y2 x3 y3 i12 i123 i23 i1_23 : R,
  y1*y1 = x1*x1*x1 + b -> y2*y2 = x2*x2*x2 + b -> y3*y3 = x3*x3*x3 + b ->
  i12 * (x2 - x1) = 1 ->
  let l12 := (y2 - y1) * i12 in
  let x12 := l12*l12 - x1 - x2 in let y12 := l12 * (x1 - x12) - y1 in
  i123 * (x3 - x12) = 1 ->
  let l123 := (y3 - y12) * i123 in
  let xa := l123*l123 - x12 - x3 in
  i23 * (x3 - x2) = 1 ->
  let l23 := (y3 - y2) * i23 in
  let x23 := l23*l23 - x2 - x3 in let y23 := l23 * (x2 - x23) - y2 in
  i1_23 * (x23 - x1) = 1 ->
  let l1_23 := (y23 - y1) * i1_23 in
  let xb := l1_23*l1_23 - x1 - x23 in
  xa = xb.
Proof. intros. subst xa xb l123 l1_23 y12 y23 x12 x23 l12 l23. Time nsatz. Qed.
(* generic case: y coordinate *)
Goal forall b x1 y1 x2 y2 x3 y3 i12 i123 i23 i1_23 : R,
  y1*y1 = x1*x1*x1 + b -> y2*y2 = x2*x2*x2 + b -> y3*y3 = x3*x3*x3 + b ->
  i12 * (x2 - x1) = 1 ->
  let l12 := (y2 - y1) * i12 in
  let x12 := l12*l12 - x1 - x2 in let y12 := l12 * (x1 - x12) - y1 in
  i123 * (x3 - x12) = 1 ->
  let l123 := (y3 - y12) * i123 in
  let xa := l123*l123 - x12 - x3 in let ya := l123 * (x12 - xa) - y12 in
  i23 * (x3 - x2) = 1 ->
  let l23 := (y3 - y2) * i23 in
  let x23 := l23*l23 - x2 - x3 in let y23 := l23 * (x2 - x23) - y2 in
  i1_23 * (x23 - x1) = 1 ->
  let l1_23 := (y23 - y1) * i1_23 in
  let xb := l1_23*l1_23 - x1 - x23 in let yb := l1_23 * (x1 - xb) - y1 in
  ya = yb.
Proof. intros. subst ya yb xa xb l123 l1_23 y12 y23 x12 x23 l12 l23. Time nsatz. Qed.
(* doubling case: (P+P)+R = P+(P+R), x coordinate *)
Goal forall b x1 y1 x3 y3 i11 i113 i13 i1_13 : R,
  y1*y1 = x1*x1*x1 + b -> y3*y3 = x3*x3*x3 + b ->
  i11 * (2 * y1) = 1 ->
  let l11 := (3 * x1 * x1) * i11 in
  let x11 := l11*l11 - x1 - x1 in let y11 := l11 * (x1 - x11) - y1 in
  i113 * (x3 - x11) = 1 ->
  let la := (y3 - y11) * i113 in
  let xa := la*la - x11 - x3 in
  i13 * (x3 - x1) = 1 ->
  let l13 := (y3 - y1) * i13 in
  let x13 := l13*l13 - x1 - x3 in let y13 := l13 * (x1 - x13) - y1 in
  i1_13 * (x13 - x1) = 1 ->
  let lb := (y13 - y1) * i1_13 in
  let xb := lb*lb - x1 - x13 in
  xa = xb.
Proof. intros. subst xa xb la lb y11 y13 x11 x13 l11 l13. Time nsatz. Qed.
