import random, itertools
M64=(1<<64)-1; I64=(1<<63)-1
def clz(x): return 64-x.bit_length()
def proveparams(min_value, exp, min_bits, value):
    rings=1; rsizes=[1]; secidx=[0]; scale=1; mantissa=0; npub=0; v=0
    if min_value==M64: exp=-1
    if exp>=0:
        if (min_value and value>I64) or (value and min_value>=I64): return None
        max_bits = clz(min_value) if min_value else 64
        if min_bits>max_bits: min_bits=max_bits
        if min_bits>61 or value>I64: exp=0
        v=(value-min_value)&M64
        v2 = (M64>>(64-min_bits)) if min_bits else 0
        i=0
        while i<exp and v2<=M64//10:
            v//=10; v2=(v2*10)&M64; i+=1
        exp=i
        v2=v
        for i in range(exp):
            v2=(v2*10)&M64; scale=(scale*10)&M64
        min_value=(value-v2)&M64
        mantissa = 64-clz(v) if v else 1
        if min_bits>mantissa: mantissa=min_bits
        rings=(mantissa+1)>>1
        rsizes=[]; secidx=[]
        for i in range(rings):
            rs = 4 if ((i<rings-1) or (not (mantissa&1))) else 2
            rsizes.append(rs); npub+=rs; secidx.append((v>>(i*2))&3)
        assert mantissa>0
        assert (v & ~(M64>>(64-mantissa)))&M64==0, ('bits',value,min_value,exp,min_bits)
    else:
        exp=0; min_value=value; v=0; npub=2
    assert (v*scale+min_value)&M64==value and v*scale+min_value==value, ('wrap',)
    assert 0<rings<=32 and npub<=128
    return dict(v=v,rings=rings,rsizes=rsizes,npub=npub,secidx=secidx,min_value=min_value,mantissa=mantissa,scale=scale,exp=exp,min_bits=min_bits)
def header(pp):
    rs0=pp['rsizes'][0]
    b=[((64|pp['exp']) if rs0>1 else 0)|(32 if pp['min_value'] else 0)]
    if rs0>1: b.append(pp['mantissa']-1)
    if pp['min_value']: b+=list(pp['min_value'].to_bytes(8,'big'))
    return b
def getheader(proof):
    off=0
    if proof[0]&128: return None
    nz=proof[0]&64; hm=proof[0]&32; exp=-1; mant=0
    if nz:
        exp=proof[0]&31; off+=1
        if exp>18: return None
        mant=proof[off]+1
        if mant>64: return None
        maxv=M64>>(64-mant)
    else: maxv=0
    off+=1; scale=1
    for i in range(max(exp,0)):
        if maxv>M64//10: return None
        maxv*=10; scale*=10
    minv=0
    if hm:
        minv=int.from_bytes(bytes(proof[off:off+8]),'big'); off+=8
    if maxv>M64-minv: return None
    return exp,mant,scale,minv,maxv+minv,off
edge=set()
for k in range(65):
    for d in (-2,-1,0,1,2):
        x=(1<<k)+d
        if 0<=x<=M64: edge.add(x)
for k in range(20):
    for d in (-1,0,1):
        x=10**k+d
        if 0<=x<=M64: edge.add(x)
edge|={0,1,I64,I64+1,M64,M64-1}
edge=sorted(edge)
random.seed(7)
cnt=0; bad=0; fail=0
def check(value,minv,exp,mb):
    global cnt,bad,fail
    if minv>value: return
    cnt+=1
    try: pp=proveparams(minv,exp,mb,value)
    except AssertionError as e:
        bad+=1; print('VERIFY_CHECK fails',e,value,minv,exp,mb); return
    if pp is None: fail+=1; return
    h=getheader(header(pp)+[0]*80)
    if h is None: bad+=1; print('verifier rejects header',value,minv,exp,mb,pp); return
    e2,mant,scale,mn,mx,off=h
    if not (mn<=value<=mx): bad+=1; print('range excludes value',value,minv,exp,mb,h)
    if pp['rsizes'][0]>1 and (e2!=pp['exp'] or mant!=pp['mantissa'] or scale!=pp['scale']): bad+=1; print('mismatch',pp,h)
    # size bound
    maxsize=lambda maxval,minbits: (lambda vm: (lambda m: (lambda r: 10+32*((r*4-2*(m%2))+r-1)+32+((r-1+7)//8))((m+1)//2))(max(minbits,vm)))(64-clz(maxval) if maxval>0 else 1)
    length=off+((pp['rings']+6)>>3)+32*(pp['rings']-1)+32+32*sum(pp['rsizes'])
    if length>maxsize(value,mb if 0<=mb<=64 else 0): bad+=1; print('size',length,maxsize(value,mb),value,minv,exp,mb)
for value in edge:
    for minv in edge:
        for exp in range(-1,19):
            for mb in (0,1,2,31,32,33,59,60,61,62,63,64):
                check(value,minv,exp,mb)
for _ in range(300000):
    value=random.choice(edge) if random.random()<.5 else random.getrandbits(random.randint(1,64))
    minv=random.choice(edge) if random.random()<.5 else random.getrandbits(random.randint(1,64))
    if minv>value: minv=value-random.getrandbits(random.randint(0,value.bit_length())) if value else 0
    if minv<0: minv=0
    check(value,minv,random.randint(-1,18),random.randint(0,64))
print('cases',cnt,'rejected',fail,'bad',bad)
