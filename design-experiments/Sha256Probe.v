Require Import ZArith List. Import ListNotations. Local Open Scope Z_scope.
Definition w32 x := x mod 2^32.
Definition rotr n x := Z.lor (Z.shiftr x n) (w32 (Z.shiftl x (32 - n))).
Definition Ch x y z := Z.lxor z (Z.land x (Z.lxor y z)).
Definition Maj x y z := Z.lor (Z.land x y) (Z.land z (Z.lor x y)).
Definition S0 x := Z.lxor (Z.lxor (rotr 2 x) (rotr 13 x)) (rotr 22 x).
Definition S1 x := Z.lxor (Z.lxor (rotr 6 x) (rotr 11 x)) (rotr 25 x).
Definition s0 x := Z.lxor (Z.lxor (rotr 7 x) (rotr 18 x)) (Z.shiftr x 3).
Definition s1 x := Z.lxor (Z.lxor (rotr 17 x) (rotr 19 x)) (Z.shiftr x 10).
Definition K : list Z := [0x428a2f98;0x71374491;0xb5c0fbcf;0xe9b5dba5;0x3956c25b;0x59f111f1;0x923f82a4;0xab1c5ed5;0xd807aa98;0x12835b01;0x243185be;0x550c7dc3;0x72be5d74;0x80deb1fe;0x9bdc06a7;0xc19bf174;0xe49b69c1;0xefbe4786;0x0fc19dc6;0x240ca1cc;0x2de92c6f;0x4a7484aa;0x5cb0a9dc;0x76f988da;0x983e5152;0xa831c66d;0xb00327c8;0xbf597fc7;0xc6e00bf3;0xd5a79147;0x06ca6351;0x14292967;0x27b70a85;0x2e1b2138;0x4d2c6dfc;0x53380d13;0x650a7354;0x766a0abb;0x81c2c92e;0x92722c85;0xa2bfe8a1;0xa81a664b;0xc24b8b70;0xc76c51a3;0xd192e819;0xd6990624;0xf40e3585;0x106aa070;0x19a4c116;0x1e376c08;0x2748774c;0x34b0bcb5;0x391c0cb3;0x4ed8aa4a;0x5b9cca4f;0x682e6ff3;0x748f82ee;0x78a5636f;0x84c87814;0x8cc70208;0x90befffa;0xa4506ceb;0xbef9a3f7;0xc67178f2].
Fixpoint words (bs : list Z) : list Z := match bs with a::b::c::d::r => (a*2^24 + b*2^16 + c*2^8 + d) :: words r | _ => [] end.
(* message schedule: extend 16 words to 64, list kept newest-first *)
Fixpoint sched (n : nat) (rev_w : list Z) : list Z :=
  match n with O => rev_w | S m =>
    match rev_w with
    | w1::w2::_::_::_::_::w7::_::_::_::_::_::_::_::w15::w16::_ => sched m (w32 (s1 w2 + w7 + s0 w15 + w16) :: rev_w)
    | _ => rev_w end end.
Definition st := (Z*Z*Z*Z*Z*Z*Z*Z)%type.
Definition round (s : st) (kw : Z*Z) : st :=
  let '(a,b,c,d,e,f,g,h) := s in let '(k,w) := kw in
  let t1 := h + S1 e + Ch e f g + k + w in let t2 := S0 a + Maj a b c in
  (w32 (t1 + t2), a, b, c, w32 (d + t1), e, f, g).
Definition compress (s : st) (block : list Z) : st :=
  let w := rev (sched 48 (rev (words block))) in
  let '(a,b,c,d,e,f,g,h) := fold_left round (combine K w) s in
  let '(a0,b0,c0,d0,e0,f0,g0,h0) := s in
  (w32 (a0+a), w32 (b0+b), w32 (c0+c), w32 (d0+d), w32 (e0+e), w32 (f0+f), w32 (g0+g), w32 (h0+h)).
Definition iv : st := (0x6a09e667,0xbb67ae85,0x3c6ef372,0xa54ff53a,0x510e527f,0x9b05688c,0x1f83d9ab,0x5be0cd19).
Fixpoint blocks (fuel : nat) (s : st) (bs : list Z) : st :=
  match fuel with O => s | S f => match bs with [] => s | _ => blocks f (compress s (firstn 64 bs)) (skipn 64 bs) end end.
Definition be (n : nat) (x : Z) : list Z := map (fun i => (x / 2^(8 * Z.of_nat i)) mod 256) (rev (seq 0 n)).
Definition pad (bs : list Z) : list Z :=
  let l := Z.of_nat (length bs) in
  bs ++ [0x80] ++ repeat 0 (Z.to_nat ((119 - l mod 64) mod 64)) ++ be 8 (l * 8).
Definition sha256 (bs : list Z) : list Z :=
  let p := pad bs in
  let '(a,b,c,d,e,f,g,h) := blocks (length p) iv p in
  be 4 a ++ be 4 b ++ be 4 c ++ be 4 d ++ be 4 e ++ be 4 f ++ be 4 g ++ be 4 h.
Definition hex := fold_left (fun acc b => acc * 256 + b).
Time Eval vm_compute in hex (sha256 [0x61;0x62;0x63]) 0.
Require Extraction. Require Import ExtrOcamlBasic ExtrOcamlZBigInt.
Extract Constant Z.land => "Big_int_Z.and_big_int".
Extract Constant Z.lor => "Big_int_Z.or_big_int".
Extract Constant Z.lxor => "Big_int_Z.xor_big_int".
Extraction "sha.ml" sha256 hex.
