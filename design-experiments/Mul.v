Require Import ZArith Lia.
Local Open Scope Z_scope.
Definition u64 x := x mod 2^64.
Definition u128 x := x mod 2^128.
Definition M := 0xFFFFFFFFFFFFF.
Definition R := 0x1000003D10.
Definition P := 2^256 - 2^32 - 977.

(* as the translator would emit: one let per C statement, wraps explicit *)
Definition fe_mul_inner_k {T} (a0 a1 a2 a3 a4 b0 b1 b2 b3 b4 : Z) (k : Z -> Z -> Z -> Z -> Z -> T) : T :=
  let d := u128 (a0 * b3) in
  let d := u128 (d + a1 * b2) in
  let d := u128 (d + a2 * b1) in
  let d := u128 (d + a3 * b0) in
  let c := u128 (a4 * b4) in
  let d := u128 (d + R * u64 c) in let c := c / 2^64 in
  let t3 := Z.land (u64 d) M in let d := d / 2^52 in
  let d := u128 (d + a0 * b4) in
  let d := u128 (d + a1 * b3) in
  let d := u128 (d + a2 * b2) in
  let d := u128 (d + a3 * b1) in
  let d := u128 (d + a4 * b0) in
  let d := u128 (d + u64 (R * 2^12) * u64 c) in
  let t4 := Z.land (u64 d) M in let d := d / 2^52 in
  let tx := t4 / 2^48 in let t4 := Z.land t4 (M / 2^4) in
  let c := u128 (a0 * b0) in
  let d := u128 (d + a1 * b4) in
  let d := u128 (d + a2 * b3) in
  let d := u128 (d + a3 * b2) in
  let d := u128 (d + a4 * b1) in
  let u0 := Z.land (u64 d) M in let d := d / 2^52 in
  let u0 := Z.lor (u64 (u0 * 2^4)) tx in
  let c := u128 (c + u0 * (R / 2^4)) in
  let r0 := Z.land (u64 c) M in let c := c / 2^52 in
  let c := u128 (c + a0 * b1) in
  let c := u128 (c + a1 * b0) in
  let d := u128 (d + a2 * b4) in
  let d := u128 (d + a3 * b3) in
  let d := u128 (d + a4 * b2) in
  let c := u128 (c + (Z.land (u64 d) M) * R) in let d := d / 2^52 in
  let r1 := Z.land (u64 c) M in let c := c / 2^52 in
  let c := u128 (c + a0 * b2) in
  let c := u128 (c + a1 * b1) in
  let c := u128 (c + a2 * b0) in
  let d := u128 (d + a3 * b4) in
  let d := u128 (d + a4 * b3) in
  let c := u128 (c + R * u64 d) in let d := d / 2^64 in
  let r2 := Z.land (u64 c) M in let c := c / 2^52 in
  let c := u128 (c + u64 (R * 2^12) * u64 d) in
  let c := u128 (c + t3) in
  let r3 := Z.land (u64 c) M in let c := c / 2^52 in
  let r4 := u64 (u64 c + t4) in
  k r0 r1 r2 r3 r4.
Definition fe_mul_inner a0 a1 a2 a3 a4 b0 b1 b2 b3 b4 := fe_mul_inner_k a0 a1 a2 a3 a4 b0 b1 b2 b3 b4 (fun r0 r1 r2 r3 r4 => (r0, r1, r2, r3, r4)).

Definition val5 '(r0, r1, r2, r3, r4) := r0 + r1 * 2^52 + r2 * 2^104 + r3 * 2^156 + r4 * 2^208.
