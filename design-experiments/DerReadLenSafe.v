Require Import ZArith List Lia Bool. Import ListNotations. Local Open Scope Z_scope.
(* CPS/WP-style hand translation of secp256k1_der_read_len, in the shape c2coq would emit.
   Pointers are offsets into the single buffer [bs]; sigend = length bs.
   kret : the function's return continuation (ret, len, new offset); ub : result on undefined behaviour. *)
Ltac Zify.zify_post_hook ::= Z.div_mod_to_equations.
Section RL.
Context {T : Type} (ub : T).
Definition rd (bs : list Z) (i : Z) (k : Z -> T) : T :=
  if (0 <=? i) && (i <? Z.of_nat (length bs)) then k (nth (Z.to_nat i) bs 0) else ub.
Definition u64 x := x mod 2^64.
Fixpoint rl_loop (fuel : nat) (bs : list Z) (lenleft len off : Z) (k : Z -> Z -> T) : T :=
  match fuel with
  | O => ub                                  (* out of fuel: reported as a translator obligation *)
  | S f => if lenleft >? 0 then
             rd bs off (fun b => rl_loop f bs (lenleft - 1) (Z.lor (u64 (Z.shiftl len 8)) b) (off + 1) k)
           else k len off
  end.
Definition der_read_len_k (bs : list Z) (off : Z) (kret : Z -> Z -> Z -> T) : T :=
  let sigend := Z.of_nat (length bs) in
  if off >=? sigend then kret 0 0 off else
  rd bs off (fun b1 => let off := off + 1 in
  if b1 =? 0xFF then kret 0 0 off else
  if Z.land b1 0x80 =? 0 then kret 1 b1 off else
  if b1 =? 0x80 then kret 0 0 off else
  let lenleft := Z.land b1 0x7F in
  if lenleft >? sigend - off then kret 0 0 off else
  rd bs off (fun b => if b =? 0 then kret 0 0 off else
  if lenleft >? 8 then kret 0 0 off else
  rl_loop 9 bs lenleft 0 off (fun len off =>
  if len >? sigend - off then kret 0 len off else
  if len <? 128 then kret 0 len off else kret 1 len off))).
End RL.

Definition bytes_ok (bs : list Z) := Forall (fun b => 0 <= b < 256) bs.

Lemma nth_bytes bs i : bytes_ok bs -> 0 <= i < Z.of_nat (length bs) -> 0 <= nth (Z.to_nat i) bs 0 < 256.
Proof.
  intros H Hi. unfold bytes_ok in H. rewrite Forall_forall in H. apply H. apply nth_In. lia.
Qed.

(* Safety + postcondition: no UB for ANY byte string and offset; on success the reported length fits
   in the remaining buffer and the new offset stays within the buffer. *)
Lemma rl_loop_safe : forall fuel bs lenleft len off (Q : Z -> Z -> Prop),
  bytes_ok bs -> 0 <= lenleft -> (Z.to_nat lenleft < fuel)%nat -> 0 <= off -> off + lenleft <= Z.of_nat (length bs) ->
  (forall len' , 0 <= len' -> Q len' (off + lenleft)) -> 0 <= len ->
  rl_loop False fuel bs lenleft len off Q.
Proof.
  induction fuel as [|f IH]; intros bs lenleft len off Q Hb Hl Hf Ho Hend HQ Hlen; [lia|].
  cbn [rl_loop]. destruct (lenleft >? 0) eqn:E.
  - unfold rd. assert (Hin : (0 <=? off) && (off <? Z.of_nat (length bs)) = true) by lia. rewrite Hin.
    apply IH; try lia; auto.
    + intros len' Hl'. replace (off + 1 + (lenleft - 1)) with (off + lenleft) by lia. auto.
    + pose proof (nth_bytes bs off Hb ltac:(lia)). apply Z.lor_nonneg. split; [unfold u64; apply Z.mod_pos_bound; lia | lia].
  - replace lenleft with 0 in * by lia. rewrite Z.add_0_r in HQ. auto.
Qed.

(* byte-level bit facts by exhaustive sweep over 0..255, lifted *)
Definition byte_facts (b : Z) : bool :=
  (Z.land b 127 =? b mod 128) && Bool.eqb (Z.land b 128 =? 0) (b <? 128).
Lemma byte_facts_all : forallb byte_facts (map Z.of_nat (seq 0 256)) = true.
Proof. vm_compute. reflexivity. Qed.
Lemma byte_facts_ok b : 0 <= b < 256 -> Z.land b 127 = b mod 128 /\ ((Z.land b 128 =? 0) = (b <? 128)).
Proof.
  intros H. pose proof byte_facts_all as A. rewrite forallb_forall in A.
  specialize (A b). unfold byte_facts in A.
  assert (In b (map Z.of_nat (seq 0 256))).
  { replace b with (Z.of_nat (Z.to_nat b)) by lia. apply in_map. apply in_seq. lia. }
  specialize (A H0). apply andb_true_iff in A. destruct A as [A1 A2].
  split. lia. apply Bool.eqb_prop. exact A2.
Qed.

Theorem der_read_len_safe bs off :
  bytes_ok bs -> 0 <= off <= Z.of_nat (length bs) ->
  der_read_len_k False bs off (fun ret len off' =>
     (ret = 0 \/ ret = 1) /\ off <= off' <= Z.of_nat (length bs) /\ 0 <= len /\
     (ret = 1 -> 128 <= len -> len <= Z.of_nat (length bs) - off')).
Proof.
  intros Hb Ho. unfold der_read_len_k.
  destruct (off >=? Z.of_nat (length bs)) eqn:E1; [lia|].
  unfold rd at 1. assert (H1 : (0 <=? off) && (off <? Z.of_nat (length bs)) = true) by lia. rewrite H1.
  pose proof (nth_bytes bs off Hb ltac:(lia)) as Hb1. set (b1 := nth (Z.to_nat off) bs 0) in *.
  destruct (byte_facts_ok b1 Hb1) as [F1 F2].
  destruct (b1 =? 255) eqn:E2; [lia|].
  rewrite F2. destruct (b1 <? 128) eqn:E3; [lia|].
  destruct (b1 =? 128) eqn:E4; [lia|].
  rewrite F1.
  destruct (b1 mod 128 >? Z.of_nat (length bs) - (off + 1)) eqn:E5; [lia|].
  unfold rd at 1.
  assert (H2 : (0 <=? off + 1) && (off + 1 <? Z.of_nat (length bs)) = true) by lia. rewrite H2.
  pose proof (nth_bytes bs (off+1) Hb ltac:(lia)) as Hb2.
  destruct (nth (Z.to_nat (off + 1)) bs 0 =? 0) eqn:E7; [lia|].
  destruct (b1 mod 128 >? 8) eqn:E8; [lia|].
  apply rl_loop_safe; auto; try lia.
  intros len' Hl'.
  destruct (len' >? Z.of_nat (length bs) - (off + 1 + b1 mod 128)) eqn:E9; [lia|].
  destruct (len' <? 128) eqn:E10; lia.
Qed.
Print Assumptions der_read_len_safe.
