#!/usr/bin/env python3
# prototype: straight-line C (clang JSON AST) -> three-address CPS Gallina
import json, sys
WIDTH={'uint64_t':64,'unsigned long':64,'secp256k1_uint128':128,'unsigned __int128':128,'uint32_t':32,'unsigned int':32,'int':32,'const uint64_t':64}
class Tr:
    def __init__(s, fn):
        s.fn=fn; s.lines=[]; s.ver={}; s.cnt=0; s.params=[]; s.arrays={}; s.outs={}
    def fresh(s,base):
        s.ver[base]=s.ver.get(base,-1)+1
        return f"{base}_{s.ver[base]}"
    def cur(s,base): return f"{base}_{s.ver[base]}"
    def emit(s,name,expr): s.lines.append(f"  let {name} := {expr} in")
    def tmp(s,expr):
        s.cnt+=1; n=f"t{s.cnt}"; s.emit(n,expr); return n
    def wrap(s,ty,e):
        w=WIDTH[ty.replace('const ','')] if ty.replace('const ','') in WIDTH else None
        if w is None: raise Exception('type '+ty)
        return f"(wrap {w} ({e}))"
    # expressions -> atom (variable name or literal)
    def ex(s,n):
        k=n['kind']
        if k in('ImplicitCastExpr','ParenExpr','CStyleCastExpr'):
            inner=s.ex(n['inner'][0])
            ck=n.get('castKind')
            if ck in('IntegralCast',):
                return s.tmp(s.wrap(n['type']['qualType'],inner))
            return inner
        if k=='IntegerLiteral': return n['value']
        if k=='DeclRefExpr':
            nm=n['referencedDecl']['name']; return s.cur(nm)
        if k=='ArraySubscriptExpr':
            base=n['inner'][0]
            while base['kind'] in('ImplicitCastExpr','ParenExpr'): base=base['inner'][0]
            arr=base['referencedDecl']['name']; idx=int(s.ex(n['inner'][1]))
            return s.cur(f"{arr}{idx}")
        if k=='BinaryOperator':
            op=n['opcode']; a=s.ex(n['inner'][0]); b=s.ex(n['inner'][1]); ty=n['type']['qualType']
            m={'+':f"{a} + {b}",'-':f"{a} - {b}",'*':f"{a} * {b}",'&':f"Z.land {a} {b}",'|':f"Z.lor {a} {b}",'^':f"Z.lxor {a} {b}",
               '>>':f"Z.shiftr {a} {b}",'<<':f"Z.shiftl {a} {b}"}
            return s.tmp(s.wrap(ty,m[op]))
        if k=='CallExpr':
            f=n['inner'][0]
            while f['kind']!='DeclRefExpr': f=f['inner'][0]
            fn=f['referencedDecl']['name']; args=n['inner'][1:]
            if fn=='secp256k1_u128_to_u64':
                v=s.lv(args[0]); return s.tmp(f"(wrap 64 ({s.cur(v)}))")
            raise Exception('call in expr '+fn)
        raise Exception('expr '+k)
    def lv(s,n):   # &x  -> base name
        while n['kind'] in('ImplicitCastExpr','ParenExpr'): n=n['inner'][0]
        if n['kind']=='UnaryOperator' and n['opcode']=='&': n=n['inner'][0]
        return n['referencedDecl']['name']
    def assign(s,base,atom):
        nm=s.fresh(base); s.emit(nm,atom)
    def stmt(s,n):
        k=n['kind']
        if k=='NullStmt': return
        if k=='DeclStmt':
            for v in n['inner']:
                if v.get('inner'):
                    init=[c for c in v['inner'] if c['kind']!='ConstAttr']
                    a=s.ex(init[0]); s.assign(v['name'],a)
                else: s.ver[v['name']]=-1
            return
        if k=='CallExpr':
            f=n['inner'][0]
            while f['kind']!='DeclRefExpr': f=f['inner'][0]
            fn=f['referencedDecl']['name']; args=n['inner'][1:]
            if fn=='secp256k1_u128_mul':
                d=s.lv(args[0]); a=s.ex(args[1]); b=s.ex(args[2]); s.assign(d,f"(wrap 128 ({a} * {b}))"); return
            if fn=='secp256k1_u128_accum_mul':
                d=s.lv(args[0]); a=s.ex(args[1]); b=s.ex(args[2]); old=s.cur(d); s.assign(d,f"(wrap 128 ({old} + {a} * {b}))"); return
            if fn=='secp256k1_u128_accum_u64':
                d=s.lv(args[0]); a=s.ex(args[1]); old=s.cur(d); s.assign(d,f"(wrap 128 ({old} + {a}))"); return
            if fn=='secp256k1_u128_rshift':
                d=s.lv(args[0]); a=s.ex(args[1]); old=s.cur(d); s.assign(d,f"(Z.shiftr {old} {a})"); return
            raise Exception('call stmt '+fn)
        if k=='BinaryOperator' and n['opcode']=='=':
            lhs=n['inner'][0]; a=s.ex(n['inner'][1])
            if lhs['kind']=='DeclRefExpr': s.assign(lhs['referencedDecl']['name'],a)
            elif lhs['kind']=='ArraySubscriptExpr':
                base=lhs['inner'][0]
                while base['kind'] in('ImplicitCastExpr','ParenExpr'): base=base['inner'][0]
                arr=base['referencedDecl']['name']; idx=int(s.ex(lhs['inner'][1])); s.assign(f"{arr}{idx}",a); s.outs[f"{arr}{idx}"]=1
            else: raise Exception('lhs')
            return
        if k=='CompoundAssignOperator':
            lhs=n['inner'][0]; nm=lhs['referencedDecl']['name']; a=s.ex(n['inner'][1]); op=n['opcode'][:-1]; ty=n['type']['qualType']
            m={'&':f"Z.land {s.cur(nm)} {a}",'+':f"{s.cur(nm)} + {a}",'|':f"Z.lor {s.cur(nm)} {a}"}
            s.assign(nm,s.wrap(ty,m[op])); return
        raise Exception('stmt '+k)
d=json.load(open(sys.argv[1]))
t=Tr(d['name'])
body=[c for c in d['inner'] if c['kind']=='CompoundStmt'][0]
# inputs: arrays a[5], b[5] flattened (prototype: hard-wired shapes)
ins=[f"a{i}" for i in range(5)]+[f"b{i}" for i in range(5)]
for x in ins: t.ver[x]=0
for st in body['inner']: t.stmt(st)
outs=[t.cur(f"r{i}") for i in range(5)]
print("Require Import ZArith. Local Open Scope Z_scope.")
print("Definition wrap (w x : Z) := x mod 2^w.")
print(f"Definition {t.fn}_k {{T}} ({' '.join(x+'_0' for x in ins)} : Z) (k : Z -> Z -> Z -> Z -> Z -> T) : T :=")
print("\n".join(t.lines))
print("  k "+" ".join(outs)+".")
print(f"Definition {t.fn} {' '.join(x+'_0' for x in ins)} := {t.fn}_k {' '.join(x+'_0' for x in ins)} (fun r0 r1 r2 r3 r4 => (r0,r1,r2,r3,r4)).")
