(* C12 - MuSig2 computes BIP-327.
   Theorems about Model/Musig.v; the specification side is the literal transcription Spec/Bip327.v.
   Only cbytes_injective_on_curve and honest_partial_sig_verifies take the mathematical premises [MathFacts].
   NOT proved (see evidence): validity of the AGGREGATE of an honest session under BIP-340
   (honest_session_valid; only its signer-level half honest_partial_sig_verifies is proved), the accumulator invariant Q = g.gacc.Q0 + tacc.G, partial_verify_eq_spec (the C
   code tests -s.G + e.P + R = infinity, the BIP s.G = R + e.P: equivalent only under the group law) and
   the adaptor variant of process_eq_spec; those are tied to BIP-327 by correspondence only. *)
From Coq Require Import ZArith List Bool.
Require Import Spec.Params Spec.Curve Spec.Bytes Spec.Sha256 Spec.Bip327.
Require Import Model.Base Model.Keys Model.Musig.
Require Import Proofs.BytesLemmas Proofs.MathFacts Proofs.MusigProofs.
Require Proofs.Toy.
Import ListNotations.
Local Open Scope Z_scope.

(* ---- nonce_gen_counter: the FULL 64-bit counter is in the hash input (be64 is injective) *)
Theorem nonce_gen_counter_full_counter : forall c c',
  0 <= c < 2 ^ 64 -> 0 <= c' < 2 ^ 64 -> counter_buf c = counter_buf c' -> c = c'.
Proof. exact counter_buf_inj. Qed.
Print Assumptions nonce_gen_counter_full_counter.

Theorem nonce_gen_counter_low32_not_enough : forall c,
  0 <= c -> c + 2 ^ 32 < 2 ^ 64 -> counter_buf c <> counter_buf (c + 2 ^ 32).
Proof. exact counter_buf_plus_2_32. Qed.
Print Assumptions nonce_gen_counter_low32_not_enough.

(* nonce_gen_counter = nonce_gen_internal on be64(counter) || 0^24 with the keypair's secret and public key *)
Theorem nonce_gen_counter_layout : forall P before want_pubnonce cnt kpb msg32 cache extra32,
  ng_res_of (nonce_gen_counter_sec P true before want_pubnonce cnt (Some kpb) msg32 cache extra32) =
  Some (nonce_gen_internal P want_pubnonce (be_enc 8 cnt ++ zeros 24) (Some (firstn 32 kpb)) (Some (skipn 32 kpb)) msg32 cache extra32).
Proof. exact nonce_gen_counter_layout. Qed.
Print Assumptions nonce_gen_counter_layout.

(* whenever nonce_gen_internal runs to the end, the two scalars are the nonce function of exactly the given
   input buffer, the serialised public key, and the x coordinate of the cache's aggregate key (if any) *)
Theorem nonce_gen_uses_nonce_function : forall P want_pubnonce input seckey pubkey msg32 cache extra32 ok k1 k2 pk,
  nonce_gen_internal P want_pubnonce input seckey pubkey msg32 cache extra32 = NgDone ok k1 k2 pk ->
  exists aggpk, (k1, k2) = nonce_fn_musig P input msg32 seckey (ser33 pk) aggpk extra32 /\
    (cache = None -> aggpk = None) /\
    (forall cb, cache = Some cb -> exists ci, cache_load P cb = Some ci /\ aggpk = Some (fe_to_b32 (px (c_pk ci)))).
Proof. exact nonce_gen_internal_k. Qed.
Print Assumptions nonce_gen_uses_nonce_function.

(* the nonce function is BIP-327 NonceGen (k_1, k_2) for the argument shapes the C API can express *)
Theorem nonce_gen_eq_spec : forall P rand' sk pk33 aggpk msg extra,
  length pk33 = 33%nat ->
  (forall a, aggpk = Some a -> length a = 32%nat) ->
  (forall m, msg = Some m -> length m = 32%nat) ->
  (forall e, extra = Some e -> length e = 32%nat) ->
  nonce_fn_musig P rand' msg sk pk33 aggpk extra =
  (Bip327.nonce_gen_k P rand' sk pk33 aggpk msg extra 1, Bip327.nonce_gen_k P rand' sk pk33 aggpk msg extra 2).
Proof. exact nonce_fn_eq_spec. Qed.
Print Assumptions nonce_gen_eq_spec.

(* ---- key aggregation *)
Theorem keyagg_second_key_coefficient_one : forall P h x y, keyaggcoef P h (Some (x, y)) (Some (x, y)) = 1.
Proof. exact keyaggcoef_second_one. Qed.
Print Assumptions keyagg_second_key_coefficient_one.

(* for every non-empty list of public keys (duplicates allowed) given as canonical objects of points with
   in-range coordinates on which cbytes is injective (true for curve points), pubkey_agg returns BIP-327 KeyAgg:
   the cache holds Q, the second key, the key-list hash, gacc = 1 (parity 0), tacc = 0; agg_pk is Q with even y *)
Theorem keyagg_eq_spec : forall P F rest want_agg want_cache,
  let pts := F :: rest in
  Forall valid_pt pts -> cbytes_inj_on pts ->
  musig_pubkey_agg P want_agg want_cache (Some (map pk_obj pts)) =
  match Bip327.key_agg P pts with
  | Some ctx => [AInt 1; out_opt want_agg (pk_obj (fst (even_y P (Bip327.ctx_Q ctx))));
                 out_opt want_cache (cache_save (mkCache (Bip327.ctx_Q ctx) (second_pt F rest)
                                                 (Bip327.hash_keys (map (Bip327.cbytes) pts)) 0 0))]
  | None => abstain
  end.
Proof. exact keyagg_eq_spec_lemma. Qed.
Print Assumptions keyagg_eq_spec.

(* ---- tweaking: for ANY sequence of plain / x-only tweaks the cache accumulators follow BIP-327 ApplyTweak
   (cache_rel: same Q; parity_acc = 0 <-> gacc = 1, parity_acc = 1 <-> gacc = n-1; tweak = tacc) *)
Theorem tweak_eq_spec : forall P tw ci ctx,
  2 < cn P -> Forall (fun tx => bytes_okP (fst tx)) tw -> cache_rel P ci ctx ->
  match tweak_steps P ci tw, Bip327.apply_tweaks P ctx tw with
  | Some ci', Some ctx' => cache_rel P ci' ctx' /\ c_second ci' = c_second ci /\ c_hash ci' = c_hash ci
  | None, None => True
  | _, _ => False
  end.
Proof. exact tweak_steps_spec. Qed.
Print Assumptions tweak_eq_spec.

Theorem tweak_api_is_tweak_step : forall P xonly want_out c t ci,
  cache_load P c = Some ci ->
  musig_pubkey_tweak_add P xonly want_out (Some c) (Some t) =
  match tweak_step P xonly ci t with
  | None => [AInt 0; out_opt want_out pk_obj_zero; ABytes c]
  | Some ci' => [AInt 1; out_opt want_out (pk_obj (c_pk ci')); ABytes (cache_save ci')]
  end.
Proof. exact musig_pubkey_tweak_add_unfold. Qed.
Print Assumptions tweak_api_is_tweak_step.

Theorem keyagg_cache_starts_related : forall P Q second h, 0 < cn P ->
  cache_rel P (mkCache Q second h 0 0) (Bip327.mkCtx Q 1 0).
Proof. exact cache_rel_init. Qed.
Print Assumptions keyagg_cache_starts_related.

(* ---- parsers: exact acceptance sets *)
Theorem partial_sig_parse_exact : forall P in32,
  musig_partial_sig_parse P in32 =
  if cn P <=? be_val in32 then [AInt 0; ABytes (zeros 36)]
  else [AInt 1; ABytes (magic_psig ++ be_enc 32 (be_val in32 mod cn P))].
Proof. exact partial_sig_parse_exact. Qed.
Print Assumptions partial_sig_parse_exact.

Theorem pubnonce_parse_rejects : forall P in66,
  eckey_pubkey_parse P (firstn 33 in66) = None \/ eckey_pubkey_parse P (skipn 33 in66) = None ->
  musig_pubnonce_parse P in66 = [AInt 0; ABytes (zeros 132)].
Proof. exact pubnonce_parse_rejects. Qed.
Print Assumptions pubnonce_parse_rejects.

Theorem pubnonce_parse_accepts : forall P in66 R1 R2,
  eckey_pubkey_parse P (firstn 33 in66) = Some R1 -> eckey_pubkey_parse P (skipn 33 in66) = Some R2 ->
  musig_pubnonce_parse P in66 = [AInt 1; ABytes (magic_pubnonce ++ pk_obj R1 ++ pk_obj R2)].
Proof. exact pubnonce_parse_accepts. Qed.
Print Assumptions pubnonce_parse_accepts.

Theorem pubnonce_rejects_infinity_encoding : forall P, eckey_pubkey_parse P (zeros 33) = None.
Proof. exact eckey_parse_zeros33. Qed.
Print Assumptions pubnonce_rejects_infinity_encoding.

Theorem aggnonce_accepts_infinity_encoding : forall P, ge_parse_ext P (zeros 33) = Some None.
Proof. exact ge_parse_ext_zeros33. Qed.
Print Assumptions aggnonce_accepts_infinity_encoding.

Theorem aggnonce_parse_exact : forall P in66,
  musig_aggnonce_parse P in66 =
  match ge_parse_ext P (firstn 33 in66), ge_parse_ext P (skipn 33 in66) with
  | Some R1, Some R2 => [AInt 1; ABytes (magic_aggnonce ++ pk_obj R1 ++ pk_obj R2)]
  | _, _ => [AInt 0; ABytes (zeros 132)]
  end.
Proof. exact aggnonce_parse_exact. Qed.
Print Assumptions aggnonce_parse_exact.

Theorem partial_sig_serialize_rejects_foreign_magic : forall o,
  bytes_eqb (firstn 4 o) magic_psig = false -> musig_partial_sig_serialize o = [AInt 0; ABytes (zeros 32); AIll 1].
Proof. exact partial_sig_serialize_rejects. Qed.
Print Assumptions partial_sig_serialize_rejects_foreign_magic.

(* ---- adaptor: adapt and extract are inverse (both nonce parities), scalar level and API level *)
Theorem adapt_extract_inverse : forall P s t par, 0 < cn P -> 0 <= t < cn P -> (par = 0 \/ par = 1) ->
  extract_scalar P (adapt_scalar P s t par) s par = t.
Proof. exact adapt_extract_scalar. Qed.
Print Assumptions adapt_extract_inverse.

Theorem extract_adapt_inverse : forall P s' s par, 0 < cn P -> 0 <= s' < cn P -> (par = 0 \/ par = 1) ->
  adapt_scalar P s (extract_scalar P s' s par) par = s'.
Proof. exact extract_adapt_scalar. Qed.
Print Assumptions extract_adapt_inverse.

Theorem adapt_extract_inverse_api : forall P rx s t par,
  0 <= s < cn P -> 0 <= t < cn P -> cn P <= 2 ^ 256 -> length rx = 32%nat -> (par = 0 \/ par = 1) ->
  let s' := adapt_scalar P s t par in
  musig_adapt P (Some (rx ++ be_enc 32 s)) (Some (be_enc 32 t)) par = [AInt 1; ABytes (rx ++ be_enc 32 s')] /\
  musig_extract_adaptor P (Some (rx ++ be_enc 32 s')) (Some (rx ++ be_enc 32 s)) par = [AInt 1; ABytes (be_enc 32 t)].
Proof. exact adapt_extract_api. Qed.
Print Assumptions adapt_extract_inverse_api.

(* ---- nonce aggregation, session creation, partial signing, aggregation = BIP-327 *)
Theorem nonce_agg_eq_spec : forall P p0 pubs,
  Forall (fun R => valid_pt (fst R) /\ valid_pt (snd R)) (p0 :: pubs) ->
  musig_nonce_agg P (Some (map (fun R => pubnonce_save (fst R) (snd R)) (p0 :: pubs))) =
  [AInt 1; ABytes (aggnonce_save (fst (Bip327.nonce_agg P (p0 :: pubs))) (snd (Bip327.nonce_agg P (p0 :: pubs))))].
Proof. exact nonce_agg_eq_spec_lemma. Qed.
Print Assumptions nonce_agg_eq_spec.

(* without adaptor: b, the final nonce R (G substituted for infinity), its parity, e are GetSessionValues;
   the s-part is e * tacc with the sign of the aggregate key's parity *)
Theorem process_eq_spec : forall P an m c ci R1 R2,
  cache_load P c = Some ci -> aggnonce_load an = Some (R1, R2) ->
  let Q := c_pk ci in
  let R := Bip327.session_R P R1 R2 Q m in
  musig_nonce_process P (Some an) (Some m) (Some c) None =
  [AInt 1; ABytes (session_save (mkSession (b2z (Z.odd (py R))) (Bip327.xbytes R) (Bip327.session_b P R1 R2 Q m)
                                           (Bip327.session_e P R1 R2 Q m)
                                           (session_s_part P ci (Bip327.session_e P R1 R2 Q m))))].
Proof. exact nonce_process_eq_spec_lemma. Qed.
Print Assumptions process_eq_spec.

Theorem partial_sign_eq_spec : forall P sec k1 k2 pk kp d c ci se si ctx R,
  secnonce_load P sec = Some (k1, k2, pk) -> keypair_load P kp = Some (d, pk) ->
  cache_load P c = Some ci -> session_load P se = Some si ->
  cache_rel P ci ctx -> (s_parity si =? 0) = Bip327.has_even_y R ->
  partial_sign_core P sec true (Some kp) (Some c) (Some se) =
  (true, 0, Some (Bip327.sign_s P ctx R (s_b si) (s_e si) (keyaggcoef P (c_hash ci) pk (c_second ci)) k1 k2 d)).
Proof. exact partial_sign_eq_spec_lemma. Qed.
Print Assumptions partial_sign_eq_spec.

Theorem keyaggcoef_eq_spec : forall P pts Q second,
  Forall valid_pt pts -> cbytes_inj_on pts -> In Q pts -> (second = None \/ In second pts) ->
  keyaggcoef P (pks_hash_of pts) Q second =
  Bip327.key_agg_coeff_internal P (map Bip327.cbytes pts) (Bip327.cbytes Q) (Bip327.cbytes_ext second).
Proof. exact keyaggcoef_spec. Qed.
Print Assumptions keyaggcoef_eq_spec.

Theorem agg_eq_spec : forall P se si ci ctx R ss,
  session_load P se = Some si -> cache_rel P ci ctx ->
  s_part si = session_s_part P ci (s_e si) -> s_fin si = Bip327.xbytes R ->
  ss <> [] -> Forall (fun s => 0 <= s < cn P) ss -> 0 < cn P <= 2 ^ 256 ->
  musig_partial_sig_agg P (Some se) (Some (map psig_save ss)) =
  [AInt 1; ABytes (Bip327.partial_sig_agg P ctx R (s_e si) ss)].
Proof. exact partial_sig_agg_eq_spec_lemma. Qed.
Print Assumptions agg_eq_spec.

(* the injectivity premise of keyagg_eq_spec holds for curve points [MathFacts: p prime, p = 3 mod 4] *)
Theorem cbytes_injective_on_curve : forall P, MathFacts.MathFacts P -> cp P < 2 ^ 256 ->
  forall pts, Forall (fun Q => MathFacts.oc P Q /\ Q <> None) pts -> cbytes_inj_on pts.
Proof. exact cbytes_inj_on_curve. Qed.
Print Assumptions cbytes_injective_on_curve.

(* ---- completeness, signer level [MathFacts]: the partial signature the model computes for a signer with
   secret d and secret nonces k1, k2 passes the model's partial verification against the signer's public
   key d.G and public nonce (k1.G, k2.G), for EVERY cache and session content (any tweak history, parity
   accumulator, nonce coefficient b, challenge e, nonce parity: with or without adaptor). *)
Theorem honest_partial_sig_verifies : forall P, MathFacts.MathFacts P -> forall ci si d k1 k2,
  0 <= d < cn P -> 0 <= k1 < cn P -> 0 <= k2 < cn P ->
  0 <= s_b si < cn P -> 0 <= s_e si < cn P ->
  let pk := Curve.pmul P d (Curve.G P) in
  let s := partial_sign_scalar P ci si k1 k2 pk d in
  partial_sig_verify_core P ci si s (Curve.pmul P k1 (Curve.G P)) (Curve.pmul P k2 (Curve.G P)) pk = true.
Proof. exact honest_partial_sig_verifies_lemma. Qed.
Print Assumptions honest_partial_sig_verifies.

(* not vacuous: MathFacts is PROVED for the toy curve y^2 = x^3 + 7 over F_43 (Proofs/Toy.v) *)
Example honest_partial_sig_verifies_toy := honest_partial_sig_verifies Toy.toy Toy.toy_MathFacts.

(* the premises of keyagg_eq_spec are satisfiable: the key list [G; -G; G] on secp256k1 *)
Example keyagg_premises :
  let pts := [G secp256k1; pneg secp256k1 (G secp256k1); G secp256k1] in
  Forall valid_pt pts /\ cbytes_inj_on pts.
Proof.
  split.
  - repeat constructor; vm_compute; repeat split; congruence.
  - intros A B HA HB. simpl in HA, HB.
    destruct HA as [<-|[<-|[<-|[]]]]; destruct HB as [<-|[<-|[<-|[]]]]; intros H; try reflexivity; vm_compute in H; discriminate.
Qed.
