(* C20 - Results depend only on arguments, not on context history or threads.
   (1) The API models (Model/*.v) take no context argument at all: in the model every result is a function of
       the explicit arguments by construction; the correspondence check of ./check C20 runs the C functions
       through contexts with arbitrary histories and compares them with those models.
   (2) The one place where context state enters a computation - the blinded fixed-base multiplication - is
       modelled in Model/Context.v (tied to the C code byte for byte: scalar_offset, ge_offset, proj_blind after
       any history) and proved independent of the history below.
   (3) "No mutable global state" is a regenerated obligation: Gen/Globals.v lists the library's data objects
       in writable sections (tools/globals_scan.py); the theorem says the list is empty.
   Thread schedules are observed (TSan build), not proved. *)
From Coq Require Import ZArith List Bool String.
Require Import Spec.Params Spec.Field Spec.Curve Spec.Bytes.
Require Import Model.Base Model.Context Proofs.MathFacts Proofs.ContextProofs Proofs.Toy.
Require Import Gen.Globals.
Import ListNotations.
Local Open Scope Z_scope.
Notation S := secp256k1.

(* [MF] For every finite history of {randomize(seed), randomize(NULL), clone} the context computes k*G. *)
Theorem ecmult_gen_independent_of_history :
  MathFacts S -> forall comb_bits ops k, 0 <= k < cn S ->
    ecmult_gen S comb_bits (ctx_run S comb_bits ops) k = pmul S k (G S).
Proof. intros MF cb. exact (ecmult_gen_independent_of_history S cb MF). Qed.
Print Assumptions ecmult_gen_independent_of_history.

(* [MF] The invariant behind it holds in every reachable state; in particular the offset point is never the
   point at infinity (which the addition formula used there could not handle). *)
Theorem blinding_invariant_every_reachable_state :
  MathFacts S -> forall comb_bits ops, Inv S comb_bits (ctx_run S comb_bits ops).
Proof. intros MF cb ops. apply (inv_run_from S cb MF). apply (inv_reset S cb MF). Qed.
Print Assumptions blinding_invariant_every_reachable_state.

(* The library keeps no mutable global state: no data object of the built library lives in a writable section. *)
Theorem no_mutable_global_state : writable_globals = [].
Proof. reflexivity. Qed.
Print Assumptions no_mutable_global_state.

(* non-vacuity: on the toy curve (premises proved) a two-step history gives k*G *)
Example history_toy : ecmult_gen toy 8 (ctx_run toy 8 [OpRandomize [1;2;3]; OpClone; OpRandomize [9]]) 5 = pmul toy 5 (G toy).
Proof. apply (Proofs.ContextProofs.ecmult_gen_independent_of_history toy 8 toy_MathFacts). simpl. split; [discriminate|reflexivity]. Qed.
