(* C08 - stub, replaced once Proofs/PedersenProofs.v is in place *)
From Coq Require Import ZArith.
Theorem c08_stub : (0 = 0)%Z. Proof. exact eq_refl. Qed.
Print Assumptions c08_stub.
