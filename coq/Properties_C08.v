(* C08 - Pedersen commitments are the stated group elements and tally exactly.
   Only statements here; proofs are in Proofs/PedersenProofs.v.  Model: Model/Pedersen.v (tied to the
   C code by the correspondence check of ./check C08).  [MF] = assumes the group premises MathFacts. *)
From Coq Require Import ZArith List Bool Lia.
Require Import Spec.Params Spec.Field Spec.Curve Spec.Bytes Spec.Sha256.
Require Import Model.Base Model.Pedersen.
Require Import Proofs.MathFacts Proofs.PedersenProofs Proofs.Toy.
Import ListNotations.
Local Open Scope Z_scope.
Notation S := secp256k1.
Lemma secp_p_gt_3 : 3 < cp S. Proof. reflexivity. Qed.

(* commit(b, v, H) is exactly the encoding of b*G + v*H; it fails exactly when b >= n or that point is infinity *)
Theorem commit_exact :
  forall blind value gen,
    pedersen_commit S blind value gen =
      if cn S <=? be_val blind then [AInt 0]
      else match padd S (pmul S (be_val blind mod cn S) (G S)) (pmul S value (gen_load gen)) with
           | None => [AInt 0]
           | R => [AInt 1; ABytes (pk_obj R)]
           end.
Proof. exact (commit_exact S). Qed.
Print Assumptions commit_exact.

Theorem commit_point_exact :
  forall blind value gen R,
    pedersen_commit_pt S blind value gen = Some R <->
    (be_val blind < cn S /\ R = padd S (pmul S (be_val blind mod cn S) (G S)) (pmul S value (gen_load gen)) /\ R <> None).
Proof. exact (commit_pt_exact S). Qed.
Print Assumptions commit_point_exact.

Theorem commit_rejects_overflow :
  forall blind value gen, cn S <= be_val blind -> pedersen_commit S blind value gen = [AInt 0].
Proof. exact (commit_rejects_overflow S). Qed.
Print Assumptions commit_rejects_overflow.

(* any blinding factor >= n makes the blind-sum helper return 0 (the illegal callback fires only for npositive > n) *)
Theorem blind_sum_rejects_overflow :
  forall blinds npositive, (exists b, In b blinds /\ cn S <= be_val b) ->
    pedersen_blind_sum S blinds npositive = [AInt 0] \/ pedersen_blind_sum S blinds npositive = [AInt 0; AIll 1].
Proof. exact (blind_sum_rejects_overflow S). Qed.
Print Assumptions blind_sum_rejects_overflow.

(* without overflow the helper returns (sum of the first npositive) - (sum of the rest) modulo n *)
Theorem blind_sum_exact :
  forall blinds i npos acc, (forall b, In b blinds -> be_val b < cn S) ->
    exists r, blind_sum_loop S i npos acc blinds = Some r /\ r mod cn S = (acc + signed_sum i npos blinds) mod cn S.
Proof. intros. apply (blind_sum_loop_exact S); [reflexivity|assumption]. Qed.
Print Assumptions blind_sum_exact.

Theorem blind_generator_blind_sum_rejects_overflow :
  forall values gblinds blinds n_total n_inputs,
    (exists v gb bf, In (v, gb, bf) (combine (combine values gblinds) blinds) /\ (cn S <= be_val gb \/ cn S <= be_val bf)) ->
    pedersen_blind_generator_blind_sum S values gblinds blinds n_total n_inputs = [AInt 0] \/
    pedersen_blind_generator_blind_sum S values gblinds blinds n_total n_inputs = [AInt 0; AIll 1].
Proof. exact (bgbs_rejects_overflow S). Qed.
Print Assumptions blind_generator_blind_sum_rejects_overflow.

(* the commitment parser accepts iff prefix in {8,9}, x < p, and x^3 + 7 passes the square test *)
Theorem commitment_parse_exact :
  forall input,
    pedersen_commitment_parse S input =
      if (Z.land (nth 0 input 0) 0xFE =? 8) && (be_val (firstn 32 (skipn 1 input)) <? cp S)
         && x_on_curve S (be_val (firstn 32 (skipn 1 input)))
      then [AInt 1; ABytes (pk_obj (commit_point S (be_val (firstn 32 (skipn 1 input))) (Z.odd (nth 0 input 0))))]
      else [AInt 0].
Proof. exact (commitment_parse_exact S). Qed.
Print Assumptions commitment_parse_exact.

Theorem commitment_parse_rejects_off_curve :
  forall input, x_on_curve S (be_val (firstn 32 (skipn 1 input))) = false -> pedersen_commitment_parse S input = [AInt 0].
Proof. exact (commitment_parse_rejects_off_curve S). Qed.
Print Assumptions commitment_parse_rejects_off_curve.

Theorem commitment_parse_rejects_x_ge_p :
  forall input, cp S <= be_val (firstn 32 (skipn 1 input)) -> pedersen_commitment_parse S input = [AInt 0].
Proof. exact (commitment_parse_rejects_x_ge_p S). Qed.
Print Assumptions commitment_parse_rejects_x_ge_p.

Theorem commitment_parse_rejects_prefix :
  forall input, 0 <= nth 0 input 0 < 256 -> nth 0 input 0 <> 8 -> nth 0 input 0 <> 9 -> pedersen_commitment_parse S input = [AInt 0].
Proof. exact (commitment_parse_rejects_prefix S). Qed.
Print Assumptions commitment_parse_rejects_prefix.

(* whatever the parser accepts is a finite point ON THE CURVE with reduced coordinates *)
Theorem commitment_parse_on_curve :
  forall input o, 0 <= be_val (firstn 32 (skipn 1 input)) ->
    pedersen_commitment_parse S input = [AInt 1; ABytes o] ->
    exists Q, o = pk_obj Q /\ Q <> None /\ on_curve S Q = true.
Proof. exact (commitment_parse_on_curve S secp_p_gt_3). Qed.
Print Assumptions commitment_parse_on_curve.

Theorem generator_parse_exact :
  forall input,
    generator_parse S input =
      if (Z.land (nth 0 input 0) 0xFE =? 10) && (be_val (firstn 32 (skipn 1 input)) <? cp S)
         && x_on_curve S (be_val (firstn 32 (skipn 1 input)))
      then let x := be_val (firstn 32 (skipn 1 input)) in
           let y := fst (fe_sqrt S (curve_rhs S x)) in
           [AInt 1; ABytes (pk_obj (Some (x, if Z.odd (nth 0 input 0) then mneg (cp S) y else y)))]
      else [AInt 0].
Proof. exact (generator_parse_exact S). Qed.
Print Assumptions generator_parse_exact.

Theorem generator_parse_rejects_prefix :
  forall input, 0 <= nth 0 input 0 < 256 -> nth 0 input 0 <> 10 -> nth 0 input 0 <> 11 -> generator_parse S input = [AInt 0].
Proof. exact (generator_parse_rejects_prefix S). Qed.
Print Assumptions generator_parse_rejects_prefix.

Theorem generator_parse_on_curve :
  forall input o, 0 <= be_val (firstn 32 (skipn 1 input)) ->
    generator_parse S input = [AInt 1; ABytes o] ->
    exists Q, o = pk_obj Q /\ Q <> None /\ on_curve S Q = true.
Proof. exact (generator_parse_on_curve S secp_p_gt_3). Qed.
Print Assumptions generator_parse_on_curve.

(* [MF] tally returns 1 exactly when sum(positives) = sum(negatives) as curve points *)
Theorem tally_exact :
  MathFacts S -> forall pos neg,
    Forall (oc S) (map (commit_load S) pos) -> Forall (oc S) (map (commit_load S) neg) ->
    (pedersen_verify_tally S pos neg = [AInt 1] <->
     psum S (map (commit_load S) pos) = psum S (map (commit_load S) neg)).
Proof. exact (tally_exact S). Qed.
Print Assumptions tally_exact.

(* [MF] blinded derivation = unblinded derivation + blind*G.  Partial: the premise that the two
   Shallue-van de Woestijne outputs are curve points is number theory about the map (not proved here). *)
Theorem generate_blinded_eq_partial :
  MathFacts S -> forall key32 blind32,
    oc S (shallue_van_de_woestijne S (be_val (sha256 (prefix_1st ++ key32)) mod cp S)) ->
    oc S (shallue_van_de_woestijne S (be_val (sha256 (prefix_2nd ++ key32)) mod cp S)) ->
    snd (generator_generate_internal S key32 (Some blind32)) =
      padd S (pmul S (be_val blind32 mod cn S) (G S)) (snd (generator_generate_internal S key32 None)).
Proof. exact (generate_blinded_eq_partial S). Qed.
Print Assumptions generate_blinded_eq_partial.

Theorem generate_blinded_fails_iff_overflow :
  forall key32 blind32,
    fst (generator_generate_internal S key32 (Some blind32)) =
      negb (cn S <=? be_val blind32) && fst (generator_generate_internal S key32 None).
Proof. exact (generate_blinded_ret S). Qed.
Print Assumptions generate_blinded_fails_iff_overflow.

Theorem generator_h_is_sha256_of_G :
  firstn 32 generator_h_bytes = sha256 (ser65 (G S)) /\ on_curve S (gen_load generator_h_bytes) = true.
Proof. exact generator_h_is_sha256_of_G. Qed.
Print Assumptions generator_h_is_sha256_of_G.

(* non-vacuity: on the toy curve MathFacts is a theorem, so tally_exact holds there without premises *)
Example tally_exact_toy :
  forall pos neg, Forall (oc toy) (map (commit_load toy) pos) -> Forall (oc toy) (map (commit_load toy) neg) ->
    (pedersen_verify_tally toy pos neg = [AInt 1] <-> psum toy (map (commit_load toy) pos) = psum toy (map (commit_load toy) neg)).
Proof. exact (Proofs.PedersenProofs.tally_exact toy toy_MathFacts). Qed.
