(* Completeness of ECDSA adaptor signatures under the group premises (property C14): what encrypt produces,
   verify accepts - stated after deserialization (the byte round trip of compressed points needs the
   square-root facts about p, which are not part of MathFacts). *)
From Coq Require Import ZArith List Bool Lia Znumtheory Zdiv Morphisms Setoid.
Require Import Spec.Params Spec.Field Spec.Curve Spec.Bytes Spec.Sha256.
Require Import Model.Base Model.Der Model.Adaptor.
Require Import Proofs.MathFacts Proofs.GroupLemmas Proofs.BytesLemmas Proofs.AdaptorProofs.
Import ListNotations.
Local Open Scope Z_scope.

Section AdaptorComplete.
Variable P : Params.
Hypothesis MF : MathFacts P.
Hypothesis IF : InvFacts P.
Notation n := (cn P).
Notation p := (cp P).
Notation G := (Curve.G P).
Notation pmul := (Curve.pmul P).
Notation padd := (Curve.padd P).
Notation oc := (oc P).

Local Instance eqm_equiv : Equivalence (eqm n) := eqm_setoid n.
Local Instance add_eqm : Proper (eqm n ==> eqm n ==> eqm n) Z.add := Zplus_eqm n.
Local Instance mul_eqm : Proper (eqm n ==> eqm n ==> eqm n) Z.mul := Zmult_eqm n.
Local Instance opp_eqm : Proper (eqm n ==> eqm n) Z.opp := Zopp_eqm n.
Lemma eqm_mod a : eqm n (a mod n) a. Proof. apply Zmod_eqm. Qed.
Lemma eq_eqm a b : a = b -> eqm n a b. Proof. intros ->. reflexivity. Qed.
Lemma npos : 0 < n. Proof. apply (n_pos P MF). Qed.

(* points of order dividing n: scalars act modulo n *)
Definition ordn (Q : point) : Prop := oc Q /\ pmul n Q = None.
Lemma ordn_G : ordn G. Proof. split; [apply (oc_G P MF)|apply (pmul_n_G P MF)]. Qed.
Lemma pmul_mod_n_gen Q k : ordn Q -> 0 <= k -> pmul (k mod n) Q = pmul k Q.
Proof.
  intros [HQ HnQ] Hk. pose proof npos as Hn.
  rewrite (Z.div_mod k n) at 2 by lia.
  assert (0 <= k / n) by (apply Z.div_pos; lia).
  assert (0 <= k mod n) by (apply Z.mod_pos_bound; lia).
  rewrite (pmul_add P MF) by (auto; nia).
  rewrite (Z.mul_comm n), (pmul_mul P MF) by (auto; lia).
  rewrite HnQ, (pmul_None P MF). reflexivity.
Qed.
Lemma pmul_eqm_gen Q a b : ordn Q -> 0 <= a -> 0 <= b -> eqm n a b -> pmul a Q = pmul b Q.
Proof.
  intros HQ Ha Hb H. rewrite <- (pmul_mod_n_gen Q a), <- (pmul_mod_n_gen Q b) by assumption.
  unfold eqm in H. rewrite H. reflexivity.
Qed.
Lemma mpow_pos_nonneg m a e : 0 < m -> 0 <= mpow_pos m a e.
Proof. intros Hm. destruct e; simpl; apply Z.mod_pos_bound; exact Hm. Qed.
Lemma minv_nonneg m a : 0 < m -> 0 <= minv m a.
Proof.
  intros Hm. unfold minv, mpow. destruct (m - 2); [apply Z.mod_pos_bound; exact Hm|apply mpow_pos_nonneg; exact Hm|lia].
Qed.
(* n is prime: a non-zero scalar below n does not kill a non-trivial point of order n *)
Lemma pmul_nonzero Q k : ordn Q -> Q <> None -> 0 < k < n -> pmul k Q <> None.
Proof.
  intros HQ HQn Hk E. apply HQn.
  assert (Ik : eqm n (minv n k * k) 1).
  { unfold eqm. rewrite (if_ninv P IF k Hk). rewrite Z.mod_small; [reflexivity|]. pose proof npos. lia. }
  assert (Hi : 0 <= minv n k) by (apply minv_nonneg; apply npos).
  rewrite <- (pmul_1 P Q). rewrite <- (pmul_eqm_gen Q (minv n k * k) 1 HQ) by (auto; nia).
  destruct HQ as [HQ _]. rewrite (pmul_mul P MF) by (auto; lia). rewrite E. apply (pmul_None P MF).
Qed.

Lemma point_eqb_refl (Q : point) : point_eqb Q Q = true.
Proof. destruct Q as [[x y]|]; simpl; [rewrite !Z.eqb_refl|]; reflexivity. Qed.

(* ---------------------------------------------------------------- DLEQ: an honest proof verifies *)
Lemma dleq_complete Y sk k :
  ordn Y -> 0 <= sk < n -> 0 <= k < n ->
  pmul k G <> None -> pmul k Y <> None ->
  let P1 := pmul sk G in let P2 := pmul sk Y in
  let e := dleq_challenge P Y (pmul k G) (pmul k Y) P1 P2 in
  let s := sc_add P (sc_mul P e sk) k in
  dleq_verify P s e P1 Y P2 = true.
Proof.
  intros HY Hsk Hk HR1 HR2 P1 P2 e s. pose proof npos as Hn.
  assert (He : 0 <= e < n) by (unfold e, dleq_challenge, sc_of_b32; cbn [fst]; apply Z.mod_pos_bound; exact Hn).
  assert (Hs : 0 <= s < n) by (unfold s, sc_add, madd; apply Z.mod_pos_bound; exact Hn).
  set (en := sc_neg P e).
  assert (Hen : 0 <= en < n) by (unfold en, sc_neg, mneg; apply Z.mod_pos_bound; exact Hn).
  assert (Ek : eqm n (en * sk + s) k).
  { unfold en, s, sc_neg, mneg, sc_add, sc_mul, madd, mmul. rewrite !eqm_mod. apply eq_eqm. ring. }
  assert (Ek' : eqm n (s + en * sk) k) by (rewrite Z.add_comm; exact Ek).
  assert (base : forall Q, ordn Q -> padd (pmul en (pmul sk Q)) (pmul s Q) = pmul k Q /\ padd (pmul s Q) (pmul en (pmul sk Q)) = pmul k Q).
  { intros Q HQ. destruct HQ as [HQ HnQ].
    rewrite <- !(pmul_mul P MF) by (auto; lia). rewrite <- !(pmul_add P MF) by (auto; nia).
    split; apply pmul_eqm_gen; try (split; assumption); try nia; assumption. }
  unfold dleq_verify. fold en. unfold P1, P2.
  rewrite (proj1 (base G ordn_G)), (proj2 (base Y HY)).
  destruct (pmul k G) as [r1|]; [|contradiction]. destruct (pmul k Y) as [r2|]; [|contradiction]. cbn [is_inf orb].
  fold P1 P2. fold e. apply Z.eqb_eq.
  unfold en, sc_add, sc_neg, madd, mneg. rewrite Zplus_mod_idemp_r. replace (e + - e) with 0 by ring. apply Z.mod_0_l. lia.
Qed.

(* ---------------------------------------------------------------- the adaptor equation *)
Lemma adaptor_equation d m k sigr :
  0 <= d < n -> 0 <= m < n -> 0 < k < n -> 0 <= sigr < n ->
  let sp := sc_mul P (sc_inv P k) (sc_add P (sc_mul P sigr d) m) in
  sp <> 0 ->
  padd (pmul (sc_mul P (sc_inv P sp) sigr) (pmul d G)) (pmul (sc_mul P (sc_inv P sp) m) G) = pmul k G.
Proof.
  intros Hd Hm Hk Hr sp Hsp. pose proof npos as Hn. pose proof (oc_G P MF) as HG.
  assert (Hspr : 0 < sp < n) by (pose proof (Z.mod_pos_bound (sc_inv P k * sc_add P (sc_mul P sigr d) m) n Hn); unfold sp, sc_mul, mmul in *; lia).
  assert (Ik : eqm n (sc_inv P k * k) 1) by (unfold eqm, sc_inv; rewrite (if_ninv P IF k Hk); rewrite Z.mod_small; lia).
  assert (Is : eqm n (sc_inv P sp * sp) 1) by (unfold eqm, sc_inv; rewrite (if_ninv P IF sp Hspr); rewrite Z.mod_small; lia).
  set (u1 := sc_mul P (sc_inv P sp) m). set (u2 := sc_mul P (sc_inv P sp) sigr).
  assert (Hu1 : 0 <= u1 < n) by (apply Z.mod_pos_bound; exact Hn).
  assert (Hu2 : 0 <= u2 < n) by (apply Z.mod_pos_bound; exact Hn).
  rewrite <- (pmul_mul P MF) by (auto; lia). rewrite <- (pmul_add P MF) by (auto; nia).
  apply pmul_eqm_gen; [exact ordn_G|nia|lia|].
  assert (Esp : eqm n (k * sp) (sigr * d + m)).
  { unfold sp, sc_mul, sc_add, mmul, madd. rewrite !eqm_mod.
    transitivity ((sc_inv P k * k) * (sigr * d + m)); [apply eq_eqm; ring|]. rewrite Ik. apply eq_eqm. ring. }
  transitivity (sc_inv P sp * (sigr * d + m)).
  { unfold u1, u2, sc_mul, mmul. rewrite !eqm_mod. apply eq_eqm. ring. }
  rewrite <- Esp. transitivity ((sc_inv P sp * sp) * k); [apply eq_eqm; ring|]. rewrite Is. apply eq_eqm. ring.
Qed.

(* ---------------------------------------------------------------- encrypt => verify *)
Lemma seckey_range b k : seckey_of_b32 P b = Some k -> 0 < k < n.
Proof.
  unfold seckey_of_b32. destruct ((0 <? be_val b) && (be_val b <? n)) eqn:E; [|discriminate].
  intros H. inversion H. subst k. apply andb_true_iff in E. destruct E as [E1 E2].
  apply Z.ltb_lt in E1. apply Z.ltb_lt in E2. lia.
Qed.

Lemma dleq_prove_verifies kind Y k ndata ds de :
  ordn Y -> Y <> None -> 0 < k < n ->
  dleq_prove P kind k (pmul k G) Y (pmul k Y) ndata = Some (ds, de) ->
  dleq_verify P ds de (pmul k G) Y (pmul k Y) = true.
Proof.
  intros HY HYn Hk. unfold dleq_prove, dleq_nonce. pose proof npos as Hn.
  destruct (adaptor_nonce_fn kind _ _ _ tag_dleq ndata) as [nonce|]; [|discriminate].
  set (k2 := fst (sc_of_b32 P nonce)).
  assert (Hk2 : 0 <= k2 < n) by (unfold k2, sc_of_b32; cbn [fst]; apply Z.mod_pos_bound; exact Hn).
  destruct (k2 =? 0) eqn:Ez; [discriminate|]. apply Z.eqb_neq in Ez.
  intros H. inversion H. subst ds de. clear H.
  apply (dleq_complete Y k k2); try assumption; try lia.
  - apply pmul_nonzero; [exact ordn_G|apply (mf_G P MF)|lia].
  - apply pmul_nonzero; [exact HY|exact HYn|lia].
Qed.

(* [encrypt_verifies], partial: what is missing is the byte round trip of the two compressed points
   (eckey_pubkey_parse (ser33 R) = Some R needs "x^3 + b is a square iff the candidate root squares back", i.e.
   Euler's criterion for p); it appears as the premise that the produced string deserializes to the produced values *)
Lemma encrypt_verifies_partial : forall kind seckey32 encobj msg32 ndata sig Y d,
  pk_load encobj = Some Y -> ordn Y -> seckey_of_b32 P seckey32 = Some d ->
  adaptor_encrypt P kind seckey32 encobj msg32 ndata = [AInt 1; ABytes sig] ->
  exists R Rp sp e s,
    sig = adaptor_sig_serialize R Rp sp e s /\
    (adaptor_sig_deserialize_full P sig = Some (R, fst (sc_of_b32 P (fe_to_b32 (px R))), Rp, sp, e, s) ->
     adaptor_verify_spec P sig (pmul d G) (fst (sc_of_b32 P msg32)) Y = true).
Proof.
  intros kind seckey32 encobj msg32 ndata sig Y d HL HY Hd. pose proof npos as Hn.
  assert (HYn : Y <> None) by (unfold pk_load in HL; destruct (_ =? 0); [discriminate|inversion HL; discriminate]).
  pose proof (seckey_range _ _ Hd) as Hdr.
  unfold adaptor_encrypt. rewrite HL, Hd.
  destruct (adaptor_nonce_fn kind msg32 seckey32 (ser33 Y) tag_adaptor_non ndata) as [nb|].
  2:{ cbv zeta. cbn [andb]. destruct (dleq_prove P kind _ _ Y _ ndata) as [[ds de]|]; discriminate. }
  cbv zeta. cbn [andb].
  set (k0 := fst (sc_of_b32 P nb)).
  assert (Hk0 : 0 <= k0 < n) by (unfold k0, sc_of_b32; cbn [fst]; apply Z.mod_pos_bound; exact Hn).
  destruct (k0 =? 0) eqn:Ez; cbn [negb andb].
  { destruct (dleq_prove P kind _ _ Y _ ndata) as [[ds de]|]; discriminate. }
  apply Z.eqb_neq in Ez. assert (Hk : 0 < k0 < n) by lia.
  destruct (dleq_prove P kind k0 (pmul k0 G) Y (pmul k0 Y) ndata) as [[ds de]|] eqn:Ed; [|discriminate].
  set (m := fst (sc_of_b32 P msg32)). set (sigr := fst (sc_of_b32 P (fe_to_b32 (px (pmul k0 Y))))).
  assert (Hm : 0 <= m < n) by (unfold m, sc_of_b32; cbn [fst]; apply Z.mod_pos_bound; exact Hn).
  assert (Hsr : 0 <= sigr < n) by (unfold sigr, sc_of_b32; cbn [fst]; apply Z.mod_pos_bound; exact Hn).
  destruct (sigr =? 0) eqn:Er; cbn [negb andb]; [discriminate|].
  set (sp := sc_mul P (sc_inv P k0) (sc_add P (sc_mul P sigr d) m)).
  destruct (sp =? 0) eqn:Es; cbn [negb]; [discriminate|]. apply Z.eqb_neq in Es.
  intros H. injection H as Hsig. subst sig.
  exists (pmul k0 Y), (pmul k0 G), sp, de, ds. split; [reflexivity|].
  fold sigr. intros Hdes. unfold adaptor_verify_spec. rewrite Hdes.
  rewrite (dleq_prove_verifies kind Y k0 ndata ds de HY HYn Hk Ed). cbn [andb].
  fold m.
  assert (AE := adaptor_equation d m k0 sigr (conj (Z.lt_le_incl _ _ (proj1 Hdr)) (proj2 Hdr)) Hm Hk Hsr Es).
  cbv zeta in AE. fold sp in AE. rewrite AE.
  assert (HR : pmul k0 G <> None) by (apply pmul_nonzero; [exact ordn_G|apply (mf_G P MF)|lia]).
  destruct (pmul k0 G) as [q|] eqn:EkG; [|contradiction]. cbn [is_inf negb andb]. apply point_eqb_refl.
Qed.

(* ---------------------------------------------------------------- decrypt / recover are inverse *)
Hypothesis Hn256 : n < 2 ^ 256.
Hypothesis Hn2 : 2 < n.

Lemma mneg_involutive y : 0 < y < n -> mneg n (mneg n y) = y.
Proof.
  intros Hy. unfold mneg.
  replace (- y) with (n - y + (-1) * n) by ring. rewrite Z.mod_add by lia. rewrite (Z.mod_small (n - y)) by lia.
  replace (- (n - y)) with (y + (-1) * n) by ring. rewrite Z.mod_add by lia. apply Z.mod_small. lia.
Qed.

Lemma ordn_pmul_G y : 0 <= y -> ordn (pmul y G).
Proof.
  intros Hy. pose proof npos as Hn. pose proof (oc_G P MF) as HG. split; [apply (oc_pmul P MF); exact HG|].
  rewrite <- (pmul_mul P MF) by (auto; lia). rewrite Z.mul_comm. rewrite (pmul_mul P MF) by (auto; lia).
  rewrite (pmul_n_G P MF). apply (pmul_None P MF).
Qed.

(* a point of odd prime order has y <> 0, so negation flips the parity of y *)
Lemma neg_flips_parity Q x yc : ordn Q -> Q = Some (x, yc) ->
  Z.odd (mneg p yc) = negb (Z.odd yc).
Proof.
  intros HQ EQ. pose proof HQ as [Hoc _].
  assert (Hy : 0 <= yc < p).
  { rewrite EQ in Hoc. unfold MathFacts.oc, on_curve in Hoc.
    destruct (0 <=? x), (x <? p), (0 <=? yc) eqn:C, (yc <? p) eqn:D; cbn [andb] in Hoc; try discriminate.
    apply Z.leb_le in C. apply Z.ltb_lt in D. lia. }
  assert (Hy0 : yc <> 0).
  { intros E0. subst yc.
    assert (E2 : pmul 2 Q = None).
    { change (pmul 2 Q) with (pdbl P Q). rewrite (pdbl_padd P). rewrite EQ at 2.
      replace (Some (x, 0)) with (Curve.pneg P Q) by (rewrite EQ; unfold Curve.pneg, mneg; rewrite Z.mod_0_l by lia; reflexivity).
      apply (padd_neg P MF). exact Hoc. }
    revert E2. apply pmul_nonzero; [exact HQ|rewrite EQ; discriminate|lia]. }
  assert (Hpodd : Z.odd p = true).
  { pose proof (mf_p_3mod4 P MF) as H4.
    assert (E : p = 1 + 2 * (2 * (p / 4) + 1)) by (pose proof (Z.div_mod p 4); lia).
    rewrite E. rewrite Z.odd_add_mul_2. reflexivity. }
  unfold mneg. replace (- yc) with (p - yc + (-1) * p) by ring. rewrite Z.mod_add by lia. rewrite Z.mod_small by lia.
  rewrite Z.odd_sub, Hpodd. destruct (Z.odd yc); reflexivity.
Qed.

Lemma recover_inverse : forall sig162 encobj sigr sp y s,
  adaptor_sig_deserialize_part P sig162 = Some (sigr, sp) ->
  0 < y < n -> pk_load encobj = Some (pmul y G) ->
  0 <= s < n -> (eqm n (s * y) sp \/ eqm n (s * y) (- sp)) ->
  adaptor_recover P (sig_obj sigr s) sig162 encobj = [AInt 1; ABytes (sc_to_b32 y)].
Proof.
  intros sig162 encobj sigr sp y s Hpart Hy HL Hs Hrel. pose proof npos as Hn.
  pose proof (proj1 (codec_part_exact P sig162 sigr sp) Hpart) as (Esr & Hsr0 & Esp & Hspr).
  assert (Hsr : 0 <= sigr < n) by (rewrite Esr; apply Z.mod_pos_bound; exact Hn).
  assert (Hspn : ~ eqm n sp 0) by (unfold eqm; rewrite Z.mod_small, Z.mod_0_l by lia; lia).
  assert (Hs0 : s <> 0).
  { intros E. subst s. destruct Hrel as [H|H]; apply Hspn.
    - rewrite <- H. apply eq_eqm. ring.
    - transitivity (- (- sp)); [apply eq_eqm; ring|]. rewrite <- H. apply eq_eqm. ring. }
  assert (Is : eqm n (sc_inv P s * s) 1) by (unfold eqm, sc_inv; rewrite (if_ninv P IF s) by lia; rewrite Z.mod_small; lia).
  unfold adaptor_recover. rewrite Hpart, HL.
  unfold sc_of_b32, sig_obj, sc_to_b32. cbn [fst].
  rewrite firstn_app, be_enc_length, Nat.sub_diag, firstn_O, app_nil_r.
  rewrite firstn_all2 by (rewrite be_enc_length; lia).
  rewrite skipn_app, be_enc_length, Nat.sub_diag. rewrite skipn_all2 by (rewrite be_enc_length; lia). cbn [skipn app].
  rewrite !be_val_enc by (rewrite pow256_32; lia).
  rewrite (Z.mod_small sigr), (Z.mod_small s) by lia.
  rewrite Z.eqb_refl. destruct (s =? 0) eqn:Es; [apply Z.eqb_eq in Es; contradiction|]. cbn [negb andb].
  set (dk := sc_mul P (sc_inv P s) sp).
  assert (Hdk : 0 <= dk < n) by (apply Z.mod_pos_bound; exact Hn).
  pose proof (ordn_pmul_G y (Z.lt_le_incl _ _ (proj1 Hy))) as HordY.
  assert (HYn : pmul y G <> None) by (apply pmul_nonzero; [exact ordn_G|apply (mf_G P MF)|lia]).
  destruct Hrel as [Hrel|Hrel].
  - (* s = y^-1 s': the implied key is y itself *)
    assert (E : dk = y).
    { assert (X : eqm n dk y).
      { unfold dk, sc_mul, mmul. rewrite eqm_mod, <- Hrel.
        transitivity ((sc_inv P s * s) * y); [apply eq_eqm; ring|]. rewrite Is. apply eq_eqm. ring. }
      unfold eqm in X. rewrite (Z.mod_small dk), (Z.mod_small y) in X by lia. exact X. }
    rewrite E. rewrite Z.eqb_refl. cbn [negb]. rewrite Bool.eqb_reflx. reflexivity.
  - (* s = -(y^-1 s'): the implied key is -y, its point is -Y with the other parity *)
    assert (E : dk = mneg n y).
    { assert (X : eqm n dk (- y)).
      { unfold dk, sc_mul, mmul. rewrite eqm_mod.
        transitivity (- (sc_inv P s * (- sp))); [apply eq_eqm; ring|]. rewrite <- Hrel.
        transitivity (- ((sc_inv P s * s) * y)); [apply eq_eqm; ring|]. rewrite Is. apply eq_eqm. ring. }
      unfold eqm in X. rewrite (Z.mod_small dk) in X by lia. exact X. }
    rewrite E. rewrite (pmul_mneg P MF) by lia.
    destruct (pmul y G) as [[x yc]|] eqn:EY; [|contradiction].
    cbn [Curve.pneg px py]. rewrite Z.eqb_refl. cbn [negb].
    rewrite (neg_flips_parity (Some (x, yc)) x yc HordY eq_refl).
    destruct (Z.odd yc); cbn [negb Bool.eqb].
    + unfold sc_neg. rewrite mneg_involutive by lia. reflexivity.
    + unfold sc_neg. rewrite mneg_involutive by lia. reflexivity.
Qed.

(* decrypt then recover, from the signature AND from its negated-s twin, gives back exactly the decryption key *)
Lemma recover_decrypt : forall deckey32 sig162 encobj sigr sp,
  adaptor_sig_deserialize_part P sig162 = Some (sigr, sp) ->
  0 < be_val deckey32 < n -> pk_load encobj = Some (pmul (be_val deckey32) G) ->
  exists s, adaptor_decrypt P deckey32 sig162 = [AInt 1; ABytes (sig_obj sigr s)] /\ sc_is_high P s = false /\
    adaptor_recover P (sig_obj sigr s) sig162 encobj = [AInt 1; ABytes (sc_to_b32 (be_val deckey32))] /\
    adaptor_recover P (sig_obj sigr (sc_neg P s)) sig162 encobj = [AInt 1; ABytes (sc_to_b32 (be_val deckey32))].
Proof.
  intros deckey32 sig162 encobj sigr sp Hpart Hy HL. pose proof npos as Hn.
  set (y := be_val deckey32) in *.
  assert (Ey : y mod n = y) by (apply Z.mod_small; lia).
  pose proof (decrypt_success P deckey32 sig162 sigr sp Hpart (proj2 Hy)) as HD. fold y in HD. rewrite Ey in HD.
  specialize (HD ltac:(lia)). cbv zeta in HD.
  set (s0 := sc_mul P (sc_inv P y) sp) in *.
  assert (Iy : eqm n (sc_inv P y * y) 1) by (unfold eqm, sc_inv; rewrite (if_ninv P IF y) by lia; rewrite Z.mod_small; lia).
  assert (R0 : eqm n (s0 * y) sp).
  { unfold s0, sc_mul, mmul. rewrite eqm_mod. transitivity ((sc_inv P y * y) * sp); [apply eq_eqm; ring|]. rewrite Iy. apply eq_eqm. ring. }
  assert (Rn : forall t, eqm n (sc_neg P t * y) (- (t * y))).
  { intros t. unfold sc_neg, mneg. rewrite eqm_mod. apply eq_eqm. ring. }
  assert (Hr : forall t, 0 <= sc_neg P t < n) by (intros; apply Z.mod_pos_bound; exact Hn).
  assert (Hs0 : 0 <= s0 < n) by (apply Z.mod_pos_bound; exact Hn).
  exists (if sc_is_high P s0 then sc_neg P s0 else s0). split; [exact HD|]. split; [apply (low_s_normalised P Hn)|].
  destruct (sc_is_high P s0).
  - split; apply (recover_inverse sig162 encobj sigr sp y); auto.
    + right. rewrite Rn, R0. reflexivity.
    + left. rewrite Rn, Rn, R0. apply eq_eqm. ring.
  - split; apply (recover_inverse sig162 encobj sigr sp y); auto.
    right. rewrite Rn, R0. reflexivity.
Qed.
End AdaptorComplete.
