(* Lemmas about the MuSig2 model (Model/Musig.v) and the nonce history machine (Model/MusigNonceSM.v).
   Part 1: C13 (no premises at all).  Part 2: C12. *)
From Coq Require Import ZArith List Bool Lia Arith.
Require Import Spec.Params Spec.Field Spec.Curve Spec.Bytes Spec.Sha256.
Require Import Model.Base Model.Keys Model.Schnorr Model.Musig Model.MusigNonceSM.
Require Import Proofs.BytesLemmas.
Require Spec.Bip327.
Import ListNotations.
Local Open Scope Z_scope.

(* hashing and curve arithmetic never need to be unfolded here *)
Local Opaque tagged_hash sha256 pmul padd nonce_fn_musig keyaggcoef.

(* ------------------------------------------------------------------ list helpers *)
Lemma set_nth_length {A} k (v : A) l : length (set_nth k v l) = length l.
Proof. revert k; induction l; intros [|k]; simpl; auto. Qed.

Lemma nth_error_set_nth_eq {A} k (v : A) l : (k < length l)%nat -> nth_error (set_nth k v l) k = Some v.
Proof. revert k; induction l; intros [|k] H; simpl in *; try lia; auto. apply IHl; lia. Qed.

Lemma nth_error_set_nth_neq {A} k j (v : A) l : j <> k -> nth_error (set_nth k v l) j = nth_error l j.
Proof. revert k j; induction l; intros [|k] [|j] H; simpl in *; auto; try congruence. Qed.

Lemma nth_set_nth_eq {A} k (v d : A) l : (k < length l)%nat -> nth k (set_nth k v l) d = v.
Proof. revert k; induction l; intros [|k] H; simpl in *; try lia; auto. apply IHl; lia. Qed.

Lemma nth_set_nth_neq {A} k j (v d : A) l : j <> k -> nth j (set_nth k v l) d = nth j l d.
Proof. revert k j; induction l; intros [|k] [|j] H; simpl in *; auto; try congruence. Qed.

Lemma nth_error_lt {A} (l : list A) k x : nth_error l k = Some x -> (k < length l)%nat.
Proof. intros H. apply nth_error_Some. congruence. Qed.

Lemma In_set_nth {A} k (v x : A) l : In x (set_nth k v l) -> x = v \/ In x l.
Proof. revert k; induction l; intros [|k] H; simpl in *; auto; destruct H; auto. apply IHl in H. tauto. Qed.

Lemma NoDup_set_nth_fresh k (v : nat) l : NoDup l -> ~ In v l -> NoDup (set_nth k v l).
Proof.
  revert k; induction l; intros [|k] Hn Hv; simpl in *; auto.
  - inversion Hn; subst. constructor; auto.
  - inversion Hn; subst. constructor.
    + intros Hi. apply In_set_nth in Hi. destruct Hi; [subst; tauto|tauto].
    + apply IHl; auto.
Qed.

Lemma skipn_exact {A} (a b : list A) k : length a = k -> skipn k (a ++ b) = b.
Proof. intros <-. induction a; simpl; auto. Qed.
Lemma firstn_exact {A} (a b : list A) k : length a = k -> firstn k (a ++ b) = a.
Proof. intros <-. induction a; simpl; auto. f_equal. auto. Qed.

(* from here on [simpl] must not unfold firstn/skipn/slice at numeral arguments *)
Local Arguments firstn : simpl never.
Local Arguments skipn : simpl never.
Local Arguments be_enc : simpl never.
Local Arguments be_val : simpl never.

(* ------------------------------------------------------------------ congruence modulo m, with a decision tactic
   for equalities  X mod m = Y mod m  between expressions built from + - * opp, inner "mod m" and m itself *)
Section Cg.
Variable m : Z.
Definition cg (a b : Z) := a mod m = b mod m.
Lemma cg_refl a : cg a a. Proof. reflexivity. Qed.
Lemma cg_sym a b : cg a b -> cg b a. Proof. unfold cg; auto. Qed.
Lemma cg_trans a b c : cg a b -> cg b c -> cg a c. Proof. unfold cg; congruence. Qed.
Lemma cg_add a a' b b' : cg a a' -> cg b b' -> cg (a + b) (a' + b').
Proof. unfold cg. intros H1 H2. rewrite Zplus_mod, H1, H2, <- Zplus_mod. reflexivity. Qed.
Lemma cg_sub a a' b b' : cg a a' -> cg b b' -> cg (a - b) (a' - b').
Proof. unfold cg. intros H1 H2. rewrite Zminus_mod, H1, H2, <- Zminus_mod. reflexivity. Qed.
Lemma cg_mul a a' b b' : cg a a' -> cg b b' -> cg (a * b) (a' * b').
Proof. unfold cg. intros H1 H2. rewrite Zmult_mod, H1, H2, <- Zmult_mod. reflexivity. Qed.
Lemma cg_opp a a' : cg a a' -> cg (- a) (- a').
Proof. intros H. replace (- a) with (0 - a) by lia. replace (- a') with (0 - a') by lia. apply cg_sub; auto. apply cg_refl. Qed.
Lemma cg_mod a : cg (a mod m) a. Proof. unfold cg. apply Zmod_mod. Qed.
Lemma cg_m0 : cg m 0. Proof. unfold cg. rewrite Z_mod_same_full. rewrite Zmod_0_l. reflexivity. Qed.
Lemma cg_eq a b : a = b -> cg a b. Proof. intros ->. apply cg_refl. Qed.
End Cg.
(* proves [cg m X ?Y] where ?Y is X with every "mod m" removed and every m replaced by 0 *)
Ltac cg_strip m :=
  lazymatch goal with
  | |- cg m (?a mod m) _ => eapply cg_trans; [apply cg_mod | cg_strip m]
  | |- cg m m _ => apply cg_m0
  | |- cg m (?a + ?b) _ => eapply cg_add; [cg_strip m | cg_strip m]
  | |- cg m (?a - ?b) _ => eapply cg_sub; [cg_strip m | cg_strip m]
  | |- cg m (?a * ?b) _ => eapply cg_mul; [cg_strip m | cg_strip m]
  | |- cg m (- ?a) _ => eapply cg_opp; cg_strip m
  | |- cg m _ _ => apply cg_refl
  end.
(* goal: X mod m = Y mod m *)
Ltac cg_solve m :=
  change (cg m _ _) || idtac;
  match goal with |- ?X mod m = ?Y mod m => change (cg m X Y) | _ => idtac end;
  eapply cg_trans; [cg_strip m |];
  apply cg_sym; eapply cg_trans; [cg_strip m |];
  apply cg_eq; ring.

(* ------------------------------------------------------------------ object facts *)
Lemma secnonce_load_zeros P : secnonce_load P (zeros 132) = None.
Proof. reflexivity. Qed.

Lemma point_eqb_true A B : point_eqb A B = true -> A = B.
Proof.
  destruct A as [[a b]|], B as [[c d]|]; simpl; try discriminate; auto.
  intros H. apply andb_true_iff in H. destruct H as [H1 H2].
  apply Z.eqb_eq in H1. apply Z.eqb_eq in H2. congruence.
Qed.
Lemma point_eqb_refl A : point_eqb A A = true.
Proof. destruct A as [[a b]|]; simpl; auto. rewrite !Z.eqb_refl. reflexivity. Qed.
Lemma point_eqb_false A B : A <> B -> point_eqb A B = false.
Proof. intros H. destruct (point_eqb A B) eqn:E; auto. apply point_eqb_true in E. contradiction. Qed.

Section C13.
Variable P : Params.

(* ---- partial_sign_core: when a signature comes out *)
Lemma core_unloadable sec want kp c se :
  secnonce_load P sec = None -> partial_sign_core P sec want kp c se = (false, 1, None).
Proof. intros H. unfold partial_sign_core. rewrite H. reflexivity. Qed.

Lemma core_signs_loadable sec want kp c se ret ill v :
  partial_sign_core P sec want kp c se = (ret, ill, Some v) ->
  secnonce_load P sec <> None /\ ret = true /\ ill = 0 /\ want = true.
Proof.
  unfold partial_sign_core. destruct (secnonce_load P sec) as [[[k1 k2] pk]|]; [|discriminate].
  destruct want; simpl; [|discriminate].
  destruct kp; [|discriminate]. destruct c; [|discriminate]. destruct se; [|discriminate].
  destruct (keypair_load P b) as [[d kpk]|]; [|discriminate].
  destruct (point_eqb pk kpk); simpl; [|discriminate].
  destruct (cache_load P b0); [|discriminate].
  destruct (session_load P b1); [|discriminate].
  intros H. inversion H. repeat split; auto. discriminate.
Qed.

Lemma core_ret_iff_sig sec want kp c se :
  let '(ret, ill, sg) := partial_sign_core P sec want kp c se in
  (ret = true <-> sg <> None) /\ (ret = false -> ill = 1) /\ (ret = true -> ill = 0).
Proof.
  unfold partial_sign_core. destruct (secnonce_load P sec) as [[[k1 k2] pk]|]; [|repeat split; intros; congruence].
  destruct want; simpl; [|repeat split; intros; congruence].
  destruct kp; [|repeat split; intros; congruence]. destruct c; [|repeat split; intros; congruence].
  destruct se; [|repeat split; intros; congruence].
  destruct (keypair_load P b) as [[d kpk]|]; [|repeat split; intros; congruence].
  destruct (point_eqb pk kpk); simpl; [|repeat split; intros; congruence].
  destruct (cache_load P b0); [|repeat split; intros; congruence].
  destruct (session_load P b1); repeat split; intros; congruence.
Qed.

(* the public-key binding: a nonce bound to pk and a keypair whose public key is a DIFFERENT point
   (x or y differs) never sign, whatever the other arguments *)
Lemma core_foreign_key sec k1 k2 pk want kp d kpk c se :
  secnonce_load P sec = Some (k1, k2, pk) -> keypair_load P kp = Some (d, kpk) -> pk <> kpk ->
  partial_sign_core P sec want (Some kp) c se = (false, 1, None).
Proof.
  intros H1 H2 H3. unfold partial_sign_core. rewrite H1.
  destruct want; simpl; auto. destruct c; auto. destruct se; auto.
  rewrite H2. rewrite (point_eqb_false _ _ H3). reflexivity.
Qed.

(* ---- step-level statements *)
Definition slot_of (s : state) (k : nat) : option bytes := nth_error (slots s) k.

Lemma step_sign_wipes s k want kp c se :
  (k < length (slots s))%nat ->
  slot_of (fst (step P s (OSign (Some k) want kp c se))) k = Some (zeros 132).
Proof.
  intros Hk. unfold step, get_slot, slot_of.
  destruct (nth_error (slots s) k) eqn:E.
  - destruct (partial_sign_core P b want kp c se) as [[ret ill] sg]. simpl.
    apply nth_error_set_nth_eq; auto.
  - apply nth_error_None in E. lia.
Qed.

Lemma step_sign_unloadable s k sec want kp c se :
  slot_of s k = Some sec -> secnonce_load P sec = None ->
  let r := step P s (OSign (Some k) want kp c se) in
  o_ret (snd r) = 0 /\ o_ill (snd r) = 1 /\ siglog (fst r) = siglog s /\
  o_sig (snd r) = (if want then Some (zeros 36) else None).
Proof.
  unfold slot_of. intros E H. unfold step, get_slot. rewrite E.
  rewrite (core_unloadable _ _ _ _ _ H). simpl. auto.
Qed.

(* operations that put new content into slot k *)
Definition refills (k : nat) (o : op) : bool :=
  match o with
  | OGen (Some j) _ _ _ _ _ _ _ => Nat.eqb j k
  | OGenCtr (Some j) _ _ _ _ _ _ => Nat.eqb j k
  | OPoke j _ => Nat.eqb j k
  | _ => false
  end.

Lemma step_keeps_zero s k o :
  refills k o = false -> slot_of s k = Some (zeros 132) -> slot_of (fst (step P s o)) k = Some (zeros 132).
Proof.
  unfold slot_of. intros Hr Hz. destruct o; simpl in *.
  - destruct slot as [j|]; simpl; auto. destruct (nth_error (slots s) j) eqn:E; simpl; auto.
    apply Nat.eqb_neq in Hr. rewrite nth_error_set_nth_neq; auto.
  - destruct slot as [j|]; simpl; auto. destruct (nth_error (slots s) j) eqn:E; simpl; auto.
    apply Nat.eqb_neq in Hr. rewrite nth_error_set_nth_neq; auto.
  - destruct slot as [j|]; simpl; auto. destruct (nth_error (slots s) j) eqn:E; simpl; auto.
    destruct (partial_sign_core P b want_sig keypair cache session) as [[ret ill] sg]. simpl.
    destruct (Nat.eq_dec k j) as [->|Hne].
    + apply nth_error_set_nth_eq. eapply nth_error_lt; eauto.
    + rewrite nth_error_set_nth_neq; auto.
  - destruct (nth_error (slots s) slot) eqn:E; simpl; auto.
    apply Nat.eqb_neq in Hr. rewrite nth_error_set_nth_neq; auto.
Qed.

Lemma final_keeps_zero ops : forall s k,
  forallb (fun o => negb (refills k o)) ops = true -> slot_of s k = Some (zeros 132) ->
  slot_of (final P s ops) k = Some (zeros 132).
Proof.
  induction ops as [|o ops IH]; intros s k Hf Hz; simpl in *; auto.
  apply andb_true_iff in Hf. destruct Hf as [H1 H2]. apply negb_true_iff in H1.
  apply IH; auto. apply step_keeps_zero; auto.
Qed.

(* ---- the history invariant *)
Definition logged (s : state) : list nat := map fst (siglog s).

Record wf (s : state) : Prop := {
  wf_len : length (ids s) = length (slots s);
  wf_ids_lt : forall i, In i (ids s) -> (i < next_id s)%nat;
  wf_log_lt : forall i, In i (logged s) -> (i < next_id s)%nat;
  wf_ids_nodup : NoDup (ids s);
  wf_log_nodup : NoDup (logged s);
  (* a slot whose generation event has already produced a signature is not loadable any more *)
  wf_dead : forall k sec, nth_error (slots s) k = Some sec -> In (slot_id s k) (logged s) -> secnonce_load P sec = None
}.

Lemma slot_id_in s k : (k < length (ids s))%nat -> In (slot_id s k) (ids s).
Proof. intros H. unfold slot_id. apply nth_In. auto. Qed.

Lemma wf_init slots0 rands0 : wf (init_state slots0 rands0).
Proof.
  constructor; simpl.
  - apply seq_length.
  - intros i Hi. apply in_seq in Hi. lia.
  - intros i [].
  - apply seq_NoDup.
  - constructor.
  - intros k sec _ [].
Qed.

Lemma wf_fill s k content rands' : wf s -> (k < length (slots s))%nat -> wf (fill s k content rands').
Proof.
  intros W Hk. destruct W. constructor; simpl.
  - rewrite !set_nth_length. auto.
  - intros i Hi. apply In_set_nth in Hi. destruct Hi as [->|Hi]; [lia|]. apply wf_ids_lt0 in Hi. lia.
  - intros i Hi. apply wf_log_lt0 in Hi. lia.
  - apply NoDup_set_nth_fresh; auto. intros Hi. apply wf_ids_lt0 in Hi. lia.
  - auto.
  - intros j sec Hj Hin. unfold slot_id in Hin. simpl in Hin.
    destruct (Nat.eq_dec j k) as [->|Hne].
    + rewrite nth_set_nth_eq in Hin by lia. apply wf_log_lt0 in Hin. lia.
    + rewrite nth_set_nth_neq in Hin by auto. rewrite nth_error_set_nth_neq in Hj by auto.
      eapply wf_dead0; eauto.
Qed.

Lemma wf_step s o : wf s -> wf (fst (step P s o)).
Proof.
  intros W. destruct o; simpl.
  - destruct slot as [k|]; simpl; auto. destruct (nth_error (slots s) k) eqn:E; simpl; auto.
    apply wf_fill; auto. eapply nth_error_lt; eauto.
  - destruct slot as [k|]; simpl; auto. destruct (nth_error (slots s) k) eqn:E; simpl; auto.
    apply wf_fill; auto. eapply nth_error_lt; eauto.
  - destruct slot as [k|]; simpl; auto. destruct (nth_error (slots s) k) as [sec|] eqn:E; simpl; auto.
    destruct (partial_sign_core P sec want_sig keypair cache session) as [[ret ill] sg] eqn:C. simpl.
    pose proof (nth_error_lt _ _ _ E) as Hk.
    destruct W. constructor; simpl; auto.
    + rewrite set_nth_length. auto.
    + destruct sg as [v|]; auto. unfold logged. simpl. intros i [<-|Hi]; auto.
      apply wf_ids_lt0. apply slot_id_in. lia.
    + destruct sg as [v|]; auto. unfold logged. simpl. constructor; auto.
      intros Hin. apply core_signs_loadable in C. destruct C as [C _]. apply C.
      eapply wf_dead0; eauto.
    + intros j sec' Hj Hin. destruct (Nat.eq_dec j k) as [->|Hne].
      * rewrite nth_error_set_nth_eq in Hj by auto. inversion Hj. apply secnonce_load_zeros.
      * rewrite nth_error_set_nth_neq in Hj by auto.
        assert (Hin' : In (slot_id s j) (logged s)).
        { destruct sg as [v|]; auto. unfold logged in Hin. simpl in Hin. destruct Hin as [Heq|]; auto.
          exfalso. unfold slot_id in Heq.
          pose proof (nth_error_lt _ _ _ Hj) as Hjl.
          apply (proj1 (NoDup_nth (ids s) O) wf_ids_nodup0) in Heq; try lia. }
        eapply wf_dead0; eauto.
  - destruct (nth_error (slots s) slot) eqn:E; simpl; auto.
    apply wf_fill; auto. eapply nth_error_lt; eauto.
Qed.

Lemma wf_final ops : forall s, wf s -> wf (final P s ops).
Proof. induction ops; intros s W; simpl; auto. apply IHops. apply wf_step. auto. Qed.

(* every signature that a step returns is logged under the identifier of the slot it was made from *)
Lemma step_sign_logged s k sec want kp c se :
  slot_of s k = Some sec ->
  let r := step P s (OSign (Some k) want kp c se) in
  (o_ret (snd r) = 1 ->
     exists v, siglog (fst r) = (slot_id s k, v) :: siglog s /\ o_sig (snd r) = Some (psig_save v)) /\
  (o_ret (snd r) <> 1 -> siglog (fst r) = siglog s /\ (o_sig (snd r) = None \/ o_sig (snd r) = Some (zeros 36))).
Proof.
  unfold slot_of. intros E. unfold step, get_slot. rewrite E.
  pose proof (core_ret_iff_sig sec want kp c se) as H.
  destruct (partial_sign_core P sec want kp c se) as [[ret ill] sg] eqn:C. simpl.
  destruct H as [H1 [H2 H3]]. split.
  - intros Hr. destruct ret; simpl in Hr; [|discriminate].
    destruct sg as [v|]; [|exfalso; apply (proj1 H1); auto].
    exists v. split; auto. apply core_signs_loadable in C. destruct C as [_ [_ [_ ->]]]. reflexivity.
  - intros Hr. destruct ret; simpl in Hr; [congruence|].
    destruct sg as [v|]. { exfalso. assert (false = true) by (apply H1; discriminate). discriminate. }
    split; auto. destruct want; auto.
Qed.

(* ---- nonce generation contract (about nonce_gen_sec / nonce_gen_counter_sec, hence about the step) *)
Lemma ng_secnonce_fail r : ng_ret r = false -> ng_secnonce r = zeros 132.
Proof. destruct r as [z|ok k1 k2 pk]; simpl; auto. intros ->. reflexivity. Qed.

Lemma nonce_gen_internal_done wp inp sk pko msg c ex ok k1 k2 pk :
  nonce_gen_internal P wp inp sk pko msg c ex = NgDone ok k1 k2 pk ->
  exists o, pko = Some o /\ pk_load o = Some pk.
Proof.
  unfold nonce_gen_internal. destruct wp; simpl; [|discriminate]. destruct pko as [o|]; [|discriminate].
  destruct (match c with Some c0 => _ | None => _ end); [|discriminate].
  destruct (pk_load o) as [pk'|] eqn:E; [|discriminate].
  destruct (nonce_fn_musig P inp msg sk (ser33 pk') o0 ex). intros H. injection H as _ _ _ H4. subst. eauto.
Qed.


Lemma skipn_68_secnonce k1 k2 pk : skipn 68 (secnonce_save k1 k2 pk) = pk_obj pk.
Proof.
  unfold secnonce_save, sc_to_b32.
  replace (magic_secnonce ++ be_enc 32 k1 ++ be_enc 32 k2 ++ pk_obj pk)
    with ((magic_secnonce ++ be_enc 32 k1 ++ be_enc 32 k2) ++ pk_obj pk) by (rewrite <- !app_assoc; reflexivity).
  apply skipn_exact. rewrite !app_length, !be_enc_length. reflexivity.
Qed.

(* a canonical public-key object (64 bytes in range) is stored back unchanged *)
Lemma pk_obj_of_load o pk : length o = 64%nat -> bytes_okP o -> pk_load o = Some pk -> pk_obj pk = o.
Proof.
  intros L B H. unfold pk_load in H. destruct (be_val (firstn 32 o) =? 0); [discriminate|].
  assert (E : pk = Some (be_val (firstn 32 o), be_val (skipn 32 o))) by congruence.
  rewrite E. clear H E. unfold pk_obj, fe_to_b32.
  assert (L1 : length (firstn 32 o) = 32%nat) by (rewrite firstn_length; lia).
  assert (L2 : length (skipn 32 o) = 32%nat) by (rewrite skipn_length; lia).
  assert (B1 : bytes_okP (firstn 32 o)).
  { apply Forall_forall; intros x Hx. eapply (proj1 (Forall_forall _ _) B). rewrite <- (firstn_skipn 32 o). apply in_or_app; auto. }
  assert (B2 : bytes_okP (skipn 32 o)).
  { apply Forall_forall; intros x Hx. eapply (proj1 (Forall_forall _ _) B). rewrite <- (firstn_skipn 32 o). apply in_or_app; auto. }
  pose proof (be_enc_val _ B1) as E1. rewrite L1 in E1.
  pose proof (be_enc_val _ B2) as E2. rewrite L2 in E2.
  rewrite E1, E2. apply firstn_skipn.
Qed.

Lemma nonce_gen_sec_contract before wp rand sk pko msg c ex :
  let o := nonce_gen_sec P true before wp rand sk pko msg c ex in
  (forall r, rand = Some r -> is_zero_bytes r = true -> ng_r o = false /\ ng_i o = 0 /\ ng_sec o = zeros 132) /\
  (ng_r o = true -> ng_rand o = Some (zeros 32)) /\
  (ng_r o = false -> ng_sec o = zeros 132 /\ ng_rand o = rand) /\
  (ng_r o = true -> exists k1 k2 pk obj, pko = Some obj /\ pk_load obj = Some pk /\
                    ng_sec o = secnonce_save k1 k2 pk /\ skipn 68 (ng_sec o) = pk_obj pk).
Proof.
  unfold nonce_gen_sec. simpl. destruct rand as [r|]; simpl.
  2: { repeat split; try discriminate; auto. }
  destruct (is_zero_bytes r) eqn:Z; simpl.
  { repeat split; try discriminate; auto. }
  remember (nonce_gen_internal P wp r sk pko msg c ex) as res.
  split; [|split; [|split]].
  - intros r1 H1 H2. inversion H1; subst. congruence.
  - intros ->. reflexivity.
  - intros H. split; [apply ng_secnonce_fail; auto|rewrite H; reflexivity].
  - intros H. destruct res as [z|ok k1 k2 pk]; simpl in H; [discriminate|]. subst ok.
    symmetry in Heqres. destruct (nonce_gen_internal_done _ _ _ _ _ _ _ _ _ _ _ Heqres) as [obj [E1 E2]].
    exists k1, k2, pk, obj. simpl. repeat split; auto; try apply skipn_68_secnonce.
Qed.

Lemma nonce_gen_counter_sec_contract before wp cnt kp msg c ex :
  let o := nonce_gen_counter_sec P true before wp cnt kp msg c ex in
  (ng_r o = false -> ng_sec o = zeros 132) /\
  (ng_r o = true -> exists k1 k2 pk kpb, kp = Some kpb /\ pk_load (skipn 32 kpb) = Some pk /\
                    seckey_of_b32 P (firstn 32 kpb) <> None /\
                    ng_sec o = secnonce_save k1 k2 pk /\ skipn 68 (ng_sec o) = pk_obj pk).
Proof.
  unfold nonce_gen_counter_sec. simpl. destruct kp as [kpb|]; simpl.
  2: { split; [auto|discriminate]. }
  remember (nonce_gen_internal P wp (counter_buf cnt) (Some (firstn 32 kpb)) (Some (skipn 32 kpb)) msg c ex) as res.
  split.
  - apply ng_secnonce_fail.
  - intros H. destruct res as [z|ok k1 k2 pk]; simpl in H; [discriminate|]. subst ok.
    symmetry in Heqres. destruct (nonce_gen_internal_done _ _ _ _ _ _ _ _ _ _ _ Heqres) as [obj [E1 E2]].
    inversion E1; subst obj.
    exists k1, k2, pk, kpb. simpl. repeat split; auto; try apply skipn_68_secnonce.
    revert Heqres. unfold nonce_gen_internal. destruct wp; simpl; [|discriminate].
    destruct (seckey_of_b32 P (firstn 32 kpb)); [discriminate|].
    destruct (match c with Some c0 => _ | None => _ end); [|discriminate].
    rewrite E2. destruct (nonce_fn_musig P (counter_buf cnt) msg (Some (firstn 32 kpb)) (ser33 pk) o ex). discriminate.
Qed.

(* step level *)
Lemma step_gen_contract s k wp ri sk pko msg c ex :
  (k < length (slots s))%nat ->
  let r := step P s (OGen (Some k) wp ri sk pko msg c ex) in
  (o_ret (snd r) <> 1 -> slot_of (fst r) k = Some (zeros 132)) /\
  (forall rb, get_rand s ri = Some rb -> is_zero_bytes rb = true ->
        o_ret (snd r) = 0 /\ o_ill (snd r) = 0 /\ slot_of (fst r) k = Some (zeros 132)) /\
  (o_ret (snd r) = 1 -> forall i, ri = Some i -> nth_error (rands (fst r)) i = Some (zeros 32)) /\
  (o_ret (snd r) = 1 -> exists k1 k2 pk obj, pko = Some obj /\ pk_load obj = Some pk /\
        slot_of (fst r) k = Some (secnonce_save k1 k2 pk) /\ skipn 68 (secnonce_save k1 k2 pk) = pk_obj pk).
Proof.
  intros Hk. unfold step, get_slot, slot_of.
  destruct (nth_error (slots s) k) as [before|] eqn:E; [|apply nth_error_None in E; lia].
  pose proof (nonce_gen_sec_contract before wp (get_rand s ri) sk pko msg c ex) as C.
  remember (nonce_gen_sec P true before wp (get_rand s ri) sk pko msg c ex) as o.
  simpl in C. destruct C as [C1 [C2 [C3 C4]]]. simpl.
  split; [|split; [|split]].
  - intros H. rewrite nth_error_set_nth_eq by auto. f_equal. apply C3. destruct (ng_r o); simpl in H; congruence.
  - intros rb H H0. destruct (C1 rb H H0) as [E1 [E2 E3]]. rewrite E1, E2, E3.
    rewrite nth_error_set_nth_eq by auto. auto.
  - intros H i ->. assert (T : ng_r o = true) by (destruct (ng_r o); simpl in H; congruence).
    specialize (C2 T). unfold get_rand in *. destruct (nth_error (rands s) i) eqn:Er.
    + rewrite C2. simpl. apply nth_error_set_nth_eq. eapply nth_error_lt; eauto.
    + exfalso. subst o. unfold nonce_gen_sec in T. simpl in T. discriminate.
  - intros H. assert (T : ng_r o = true) by (destruct (ng_r o); simpl in H; congruence).
    destruct (C4 T) as [k1 [k2 [pk [obj [A1 [A2 [A3 A4]]]]]]].
    exists k1, k2, pk, obj. repeat split; auto; try apply skipn_68_secnonce.
    rewrite nth_error_set_nth_eq by auto. congruence.
Qed.
End C13.

(* ================================================================== Part 2: C12 *)
(* ---- the full 64-bit counter enters the hash *)
Lemma counter_buf_inj c c' : 0 <= c < 2 ^ 64 -> 0 <= c' < 2 ^ 64 -> counter_buf c = counter_buf c' -> c = c'.
Proof.
  unfold counter_buf. intros H1 H2 H. apply app_inv_tail in H.
  apply (f_equal be_val) in H. rewrite !be_val_enc in H; auto.
Qed.

Lemma counter_buf_plus_2_32 c : 0 <= c -> c + 2 ^ 32 < 2 ^ 64 -> counter_buf c <> counter_buf (c + 2 ^ 32).
Proof. intros H1 H2 H. apply counter_buf_inj in H; lia. Qed.

Lemma counter_buf_length c : length (counter_buf c) = 32%nat.
Proof. unfold counter_buf. rewrite app_length, be_enc_length, zeros_length. reflexivity. Qed.

Section C12.
Variable P : Params.
Let n := cn P.

(* nonce_gen_counter is nonce_gen_internal on buf = be64(counter) || 0^24, secret key and public key taken
   from the keypair; on success the two scalars are the nonce function of exactly that buffer *)
Lemma nonce_gen_internal_k wp inp sk pko msg c ex ok k1 k2 pk :
  nonce_gen_internal P wp inp sk pko msg c ex = NgDone ok k1 k2 pk ->
  exists aggpk, (k1, k2) = nonce_fn_musig P inp msg sk (ser33 pk) aggpk ex /\
    (c = None -> aggpk = None) /\
    (forall cb, c = Some cb -> exists ci, cache_load P cb = Some ci /\ aggpk = Some (fe_to_b32 (px (c_pk ci)))).
Proof.
  unfold nonce_gen_internal. destruct wp; simpl; [|discriminate]. destruct pko as [o|]; [|discriminate].
  destruct c as [cb|].
  - destruct (cache_load P cb) as [ci|] eqn:E; [|discriminate].
    destruct (pk_load o) as [pk'|]; [|discriminate].
    destruct (nonce_fn_musig P inp msg sk (ser33 pk') (Some (fe_to_b32 (px (c_pk ci)))) ex) as [a b] eqn:F.
    intros H. assert (pk' = pk /\ a = k1 /\ b = k2) as [-> [-> ->]] by (repeat split; congruence).
    eexists; split; [symmetry; exact F|]. split; [discriminate|]. intros cb0 H0. inversion H0; subst. eauto.
  - destruct (pk_load o) as [pk'|]; [|discriminate].
    destruct (nonce_fn_musig P inp msg sk (ser33 pk') None ex) as [a b] eqn:F.
    intros H. assert (pk' = pk /\ a = k1 /\ b = k2) as [-> [-> ->]] by (repeat split; congruence).
    eexists; split; [symmetry; exact F|]. split; auto. discriminate.
Qed.

Lemma nonce_gen_counter_layout before wp cnt kpb msg c ex :
  ng_res_of (nonce_gen_counter_sec P true before wp cnt (Some kpb) msg c ex) =
  Some (nonce_gen_internal P wp (be_enc 8 cnt ++ zeros 24) (Some (firstn 32 kpb)) (Some (skipn 32 kpb)) msg c ex).
Proof. reflexivity. Qed.

(* ---- parsers *)
Lemma partial_sig_parse_exact in32 :
  musig_partial_sig_parse P in32 =
  if n <=? be_val in32 then [AInt 0; ABytes (zeros 36)]
  else [AInt 1; ABytes (magic_psig ++ be_enc 32 (be_val in32 mod n))].
Proof. unfold musig_partial_sig_parse, sc_of_b32. fold n. destruct (n <=? be_val in32); reflexivity. Qed.

Lemma pubnonce_parse_rejects in66 :
  eckey_pubkey_parse P (firstn 33 in66) = None \/ eckey_pubkey_parse P (skipn 33 in66) = None ->
  musig_pubnonce_parse P in66 = [AInt 0; ABytes (zeros 132)].
Proof.
  unfold musig_pubnonce_parse. intros [H|H]; rewrite H; auto.
  destruct (eckey_pubkey_parse P (firstn 33 in66)); auto.
Qed.

Lemma pubnonce_parse_accepts in66 R1 R2 :
  eckey_pubkey_parse P (firstn 33 in66) = Some R1 -> eckey_pubkey_parse P (skipn 33 in66) = Some R2 ->
  musig_pubnonce_parse P in66 = [AInt 1; ABytes (magic_pubnonce ++ pk_obj R1 ++ pk_obj R2)].
Proof. unfold musig_pubnonce_parse. intros -> ->. reflexivity. Qed.

(* the infinity encoding (33 zero bytes) is rejected in a public nonce and accepted in an aggregate nonce *)
Lemma eckey_parse_zeros33 : eckey_pubkey_parse P (zeros 33) = None.
Proof. reflexivity. Qed.
Lemma ge_parse_ext_zeros33 : ge_parse_ext P (zeros 33) = Some None.
Proof. reflexivity. Qed.

Lemma aggnonce_parse_exact in66 :
  musig_aggnonce_parse P in66 =
  match ge_parse_ext P (firstn 33 in66), ge_parse_ext P (skipn 33 in66) with
  | Some R1, Some R2 => [AInt 1; ABytes (magic_aggnonce ++ pk_obj R1 ++ pk_obj R2)]
  | _, _ => [AInt 0; ABytes (zeros 132)]
  end.
Proof. reflexivity. Qed.

Lemma partial_sig_serialize_rejects o :
  bytes_eqb (firstn 4 o) magic_psig = false -> musig_partial_sig_serialize o = [AInt 0; ABytes (zeros 32); AIll 1].
Proof. unfold musig_partial_sig_serialize. intros ->. reflexivity. Qed.

(* ---- adapt / extract are inverse at the scalar level (pure arithmetic mod n, n > 0) *)
Lemma mod_opp_opp a : 0 < n -> (- ((- a) mod n)) mod n = a mod n.
Proof.
  intros Hn. rewrite <- (Z.sub_0_l ((- a) mod n)). rewrite Zminus_mod_idemp_r. f_equal. lia.
Qed.

Lemma adapt_extract_scalar s t par : 0 < n -> 0 <= t < n -> (par = 0 \/ par = 1) ->
  extract_scalar P (adapt_scalar P s t par) s par = t.
Proof.
  intros Hn Ht Hp. unfold extract_scalar, adapt_scalar, sc_add, sc_neg, madd, mneg. fold n.
  destruct Hp as [-> | ->]; simpl.
  - (* parity 0: s' = s + t; t = -(-(s') + s) *)
    rewrite Zplus_mod_idemp_l.
    rewrite <- (Z.sub_0_l ((- ((s + t) mod n) + s) mod n)). rewrite Zminus_mod_idemp_r.
    replace (0 - (- ((s + t) mod n) + s)) with ((s + t) mod n - s) by lia.
    rewrite Zminus_mod_idemp_l. replace (s + t - s) with t by lia. apply Z.mod_small; auto.
  - rewrite Zplus_mod_idemp_l.
    replace (- ((s + (- t) mod n) mod n) + s) with (s - (s + (- t) mod n) mod n) by lia.
    rewrite Zminus_mod_idemp_r. replace (s - (s + (- t) mod n)) with (- ((- t) mod n)) by lia.
    rewrite mod_opp_opp by auto. apply Z.mod_small; auto.
Qed.

Lemma extract_adapt_scalar s' s par : 0 < n -> 0 <= s' < n -> (par = 0 \/ par = 1) ->
  adapt_scalar P s (extract_scalar P s' s par) par = s'.
Proof.
  intros Hn Hs Hp. unfold extract_scalar, adapt_scalar, sc_add, sc_neg, madd, mneg. fold n.
  assert (K : (s + (- (((- s') mod n + s) mod n)) mod n) mod n = s').
  { rewrite Zplus_mod_idemp_r. replace (s + - (((- s') mod n + s) mod n)) with (s - ((- s') mod n + s) mod n) by lia.
    rewrite Zminus_mod_idemp_r. replace (s - ((- s') mod n + s)) with (- ((- s') mod n)) by lia.
    rewrite mod_opp_opp by auto. apply Z.mod_small; auto. }
  destruct Hp as [-> | ->]; simpl; auto.
Qed.

Lemma sc_of_b32_enc x : 0 <= x < n -> n <= 2 ^ 256 -> sc_of_b32 P (be_enc 32 x) = (x, false).
Proof.
  intros Hx Hn. unfold sc_of_b32. fold n. rewrite be_val_enc by (rewrite pow256_32; lia).
  rewrite Z.mod_small by lia. f_equal. apply Z.leb_gt. lia.
Qed.

(* API level: adapt a pre-signature (rx || s) with t, then extract from (adapted, pre-signature): t comes back *)
Lemma adapt_extract_api rx s t par :
  0 <= s < n -> 0 <= t < n -> n <= 2 ^ 256 -> length rx = 32%nat -> (par = 0 \/ par = 1) ->
  let s' := adapt_scalar P s t par in
  musig_adapt P (Some (rx ++ be_enc 32 s)) (Some (be_enc 32 t)) par = [AInt 1; ABytes (rx ++ be_enc 32 s')] /\
  musig_extract_adaptor P (Some (rx ++ be_enc 32 s')) (Some (rx ++ be_enc 32 s)) par = [AInt 1; ABytes (be_enc 32 t)].
Proof.
  intros Hs Ht Hn Hl Hp. cbv zeta.
  assert (Hs' : 0 <= adapt_scalar P s t par < n).
  { unfold adapt_scalar, sc_add, madd. fold n. apply Z.mod_pos_bound. lia. }
  unfold musig_adapt, musig_extract_adaptor.
  assert (Hpar : negb ((par =? 0) || (par =? 1)) = false) by (destruct Hp as [-> | ->]; reflexivity).
  rewrite Hpar.
  rewrite (skipn_exact rx (be_enc 32 s) 32 Hl), (skipn_exact rx (be_enc 32 (adapt_scalar P s t par)) 32 Hl),
          (firstn_exact rx (be_enc 32 s) 32 Hl).
  rewrite (sc_of_b32_enc s), (sc_of_b32_enc t), (sc_of_b32_enc (adapt_scalar P s t par)) by auto.
  simpl. split; auto.
  unfold sc_to_b32. rewrite adapt_extract_scalar by (auto; lia). reflexivity.
Qed.

(* ---- the nonce hash input is the BIP-327 NonceGen layout *)
Lemma xor_bytes_comm a b : xor_bytes a b = xor_bytes b a.
Proof.
  unfold xor_bytes. revert b. induction a as [|x a IH]; intros [|y b]; simpl; auto.
  rewrite Z.lxor_comm. f_equal. apply IH.
Qed.

Local Transparent nonce_fn_musig.
Lemma nonce_fn_eq_spec rand' sk pk33 aggpk msg extra :
  length pk33 = 33%nat ->
  (forall a, aggpk = Some a -> length a = 32%nat) ->
  (forall m, msg = Some m -> length m = 32%nat) ->
  (forall e, extra = Some e -> length e = 32%nat) ->
  nonce_fn_musig P rand' msg sk pk33 aggpk extra =
  (Bip327.nonce_gen_k P rand' sk pk33 aggpk msg extra 1, Bip327.nonce_gen_k P rand' sk pk33 aggpk msg extra 2).
Proof.
  intros Lp La Lm Le.
  assert (R : nonce_rand rand' sk = match sk with Some s => xor_bytes s (tagged_hash Bip327.bip_tag_aux rand') | None => rand' end).
  { unfold nonce_rand. destruct sk; auto. apply xor_bytes_comm. }
  assert (I : forall i, (i = 0 \/ i = 1) ->
     nonce_hash_input (nonce_rand rand' sk) pk33 aggpk msg extra i =
     match sk with Some s => xor_bytes s (tagged_hash Bip327.bip_tag_aux rand') | None => rand' end
       ++ Bip327.bytes_k 1 (Bip327.blen pk33) ++ pk33 ++ Bip327.opt_len_prefixed 1 aggpk
       ++ match msg with None => Bip327.bytes_k 1 0 | Some mm => Bip327.bytes_k 1 1 ++ Bip327.bytes_k 8 (Bip327.blen mm) ++ mm end
       ++ Bip327.opt_len_prefixed 4 extra ++ Bip327.bytes_k 1 (i + 1 - 1)).
  { intros i Hi. rewrite R. unfold nonce_hash_input, nonce_helper, Bip327.opt_len_prefixed, Bip327.bytes_k, Bip327.blen.
    rewrite Lp. f_equal.
    destruct aggpk as [a|]; [rewrite (La a eq_refl)|];
    (destruct msg as [m|]; [rewrite (Lm m eq_refl)|]);
    (destruct extra as [e|]; [rewrite (Le e eq_refl)|]);
    destruct Hi as [-> | ->]; reflexivity. }
  unfold nonce_fn_musig, Bip327.nonce_gen_k, sc_b, sc_of_b32, Bip327.int_of. cbn [fst].
  rewrite (I 0), (I 1) by auto. reflexivity.
Qed.
Local Opaque nonce_fn_musig.

(* ---- key aggregation equals BIP-327 KeyAgg *)
Definition valid_pt (Q : point) : Prop :=
  match Q with Some (x, y) => 0 < x < 2 ^ 256 /\ 0 <= y < 2 ^ 256 | None => False end.

Lemma bytes_eqb_eq a b : bytes_eqb a b = true <-> a = b.
Proof.
  revert b. induction a as [|x a IH]; intros [|y b]; simpl; split; intros H; try discriminate; auto.
  - apply andb_true_iff in H. destruct H as [H1 H2]. apply Z.eqb_eq in H1. apply IH in H2. congruence.
  - inversion H; subst. rewrite Z.eqb_refl. apply IH. reflexivity.
Qed.
Lemma bytes_eqb_neq a b : a <> b -> bytes_eqb a b = false.
Proof. intros H. destruct (bytes_eqb a b) eqn:E; auto. apply bytes_eqb_eq in E. contradiction. Qed.

Lemma pk_load_obj Q : valid_pt Q -> pk_load (pk_obj Q) = Some Q.
Proof.
  destruct Q as [[x y]|]; [|simpl; tauto]. unfold valid_pt, pk_obj. intros [Hx Hy]. unfold pk_load, fe_to_b32.
  rewrite (firstn_exact (be_enc 32 x) (be_enc 32 y) 32 (be_enc_length 32 x)).
  rewrite (skipn_exact (be_enc 32 x) (be_enc 32 y) 32 (be_enc_length 32 x)).
  rewrite !be_val_enc by (rewrite pow256_32; lia).
  destruct (x =? 0) eqn:E; [apply Z.eqb_eq in E; lia|reflexivity].
Qed.

Lemma pk_obj_inj Q R : valid_pt Q -> valid_pt R -> pk_obj Q = pk_obj R -> Q = R.
Proof.
  intros HQ HR H. apply pk_load_obj in HQ. apply pk_load_obj in HR. rewrite H in HQ. congruence.
Qed.

Lemma ser33_cbytes Q : Q <> None -> ser33 Q = Bip327.cbytes Q.
Proof.
  destruct Q as [[x y]|]; [|congruence]. intros _. unfold ser33, Bip327.cbytes, Bip327.has_even_y, Bip327.xbytes, Bip327.bytes_k, fe_to_b32.
  simpl. destruct (Z.odd y); reflexivity.
Qed.

Lemma valid_not_None Q : valid_pt Q -> Q <> None.
Proof. destruct Q; simpl; [discriminate|tauto]. Qed.

Fixpoint second_pt (first : point) (rest : list point) : point :=
  match rest with
  | [] => None
  | Q :: r => if point_eqb first Q then second_pt first r else Q
  end.

Lemma second_pt_In F rest : second_pt F rest = None \/ In (second_pt F rest) rest.
Proof. induction rest as [|Q r IH]; simpl; auto. destruct (point_eqb F Q); [destruct IH; auto|auto]. Qed.

Lemma find_second_pts F rest : valid_pt F -> Forall valid_pt rest ->
  find_second (pk_obj F) (map pk_obj rest) = inl (second_pt F rest).
Proof.
  intros HF HR. induction HR as [|Q r HQ HR IH]; simpl; auto.
  destruct (point_eqb F Q) eqn:E.
  - apply point_eqb_true in E. subst Q. rewrite (proj2 (bytes_eqb_eq _ _) eq_refl). apply IH.
  - rewrite bytes_eqb_neq. { rewrite pk_load_obj by auto. reflexivity. }
    intros H. apply pk_obj_inj in H; auto. subst Q. rewrite point_eqb_refl in E. discriminate.
Qed.

Lemma load_all_pts pts : Forall valid_pt pts -> load_all (map pk_obj pts) = Some pts.
Proof. intros H. induction H as [|Q r HQ HR IH]; simpl; auto. rewrite pk_load_obj by auto. rewrite IH. reflexivity. Qed.

Lemma pks_hash_spec pts : Forall valid_pt pts -> pks_hash_of pts = Bip327.hash_keys (map (Bip327.cbytes) pts).
Proof.
  intros H. unfold pks_hash_of, Bip327.hash_keys. f_equal.
  induction H as [|Q r HQ HR IH]; simpl; auto. rewrite IH. rewrite ser33_cbytes by (apply valid_not_None; auto). reflexivity.
Qed.

Definition cbytes_inj_on (pts : list point) : Prop :=
  forall A B, In A pts -> In B pts -> Bip327.cbytes A = Bip327.cbytes B -> A = B.

Local Arguments Bip327.cbytes : simpl never.
Lemma second_key_from_spec F all r : cbytes_inj_on all -> In F all -> (forall Q, In Q r -> In Q all /\ Q <> None) ->
  Bip327.get_second_key_from (Bip327.cbytes F) (map Bip327.cbytes r) = Bip327.cbytes_ext (second_pt F r) /\
  (second_pt F r <> None -> second_pt F r <> F).
Proof.
  intros Inj HF. induction r as [|Q r IH]; intros Sub.
  - split; [reflexivity|]. cbn [second_pt]. congruence.
  - cbn [map Bip327.get_second_key_from second_pt].
    destruct (point_eqb F Q) eqn:E.
    + apply point_eqb_true in E. subst Q. rewrite (proj2 (bytes_eqb_eq _ _) eq_refl). cbn [negb].
      apply IH. intros; apply Sub; right; auto.
    + rewrite bytes_eqb_neq.
      * cbn [negb]. split.
        { destruct Q as [[x y]|]; [reflexivity|]. exfalso. apply (proj2 (Sub None (or_introl eq_refl))). reflexivity. }
        { intros _ H. subst Q. rewrite point_eqb_refl in E. discriminate. }
      * intros H. apply Inj in H; [|apply Sub; left; auto|auto]. subst Q. rewrite point_eqb_refl in E. discriminate.
Qed.

Lemma second_key_spec F rest : cbytes_inj_on (F :: rest) -> (forall Q, In Q rest -> Q <> None) ->
  Bip327.get_second_key (map Bip327.cbytes (F :: rest)) = Bip327.cbytes_ext (second_pt F rest) /\
  (second_pt F rest <> None -> second_pt F rest <> F).
Proof.
  intros Inj NN. cbn [map Bip327.get_second_key Bip327.get_second_key_from].
  rewrite (proj2 (bytes_eqb_eq _ _) eq_refl). cbn [negb].
  apply (second_key_from_spec F (F :: rest) rest Inj); [left; auto|intros; split; [right; auto|auto]].
Qed.

Local Transparent keyaggcoef.
Lemma keyaggcoef_spec pts Q second :
  Forall valid_pt pts -> cbytes_inj_on pts -> In Q pts -> (second = None \/ In second pts) ->
  keyaggcoef P (pks_hash_of pts) Q second =
  Bip327.key_agg_coeff_internal P (map Bip327.cbytes pts) (Bip327.cbytes Q) (Bip327.cbytes_ext second).
Proof.
  intros V Inj HQ HS. unfold keyaggcoef, Bip327.key_agg_coeff_internal.
  assert (VQ : valid_pt Q) by (eapply (proj1 (Forall_forall _ _) V); eauto).
  rewrite <- pks_hash_spec by auto. rewrite <- ser33_cbytes by (apply valid_not_None; auto).
  destruct second as [s|]; simpl.
  - destruct HS as [HS|HS]; [discriminate|].
    destruct (point_eqb Q (Some s)) eqn:E.
    + apply point_eqb_true in E. subst Q. rewrite ser33_cbytes by discriminate. rewrite (proj2 (bytes_eqb_eq _ _) eq_refl). reflexivity.
    + rewrite bytes_eqb_neq; [reflexivity|]. intros H. rewrite ser33_cbytes in H by (apply valid_not_None; auto).
      apply Inj in H; auto. subst Q. rewrite point_eqb_refl in E. discriminate.
  - rewrite bytes_eqb_neq; [reflexivity|]. destruct Q as [[x y]|]; [|simpl in VQ; tauto].
    unfold ser33. destruct (Z.odd y); discriminate.
Qed.
Lemma keyaggcoef_second_one h x y : keyaggcoef P h (Some (x, y)) (Some (x, y)) = 1.
Proof. unfold keyaggcoef. simpl. rewrite !Z.eqb_refl. reflexivity. Qed.
Local Opaque keyaggcoef.

Theorem keyagg_eq_spec_lemma F rest wa wc :
  let pts := F :: rest in
  Forall valid_pt pts -> cbytes_inj_on pts ->
  musig_pubkey_agg P wa wc (Some (map pk_obj pts)) =
  match Bip327.key_agg P pts with
  | Some ctx => [AInt 1; out_opt wa (pk_obj (fst (even_y P (Bip327.ctx_Q ctx))));
                 out_opt wc (cache_save (mkCache (Bip327.ctx_Q ctx) (second_pt F rest)
                                                 (Bip327.hash_keys (map Bip327.cbytes pts)) 0 0))]
  | None => abstain
  end.
Proof.
  intros pts V Inj. unfold musig_pubkey_agg. subst pts. simpl map.
  inversion V as [|? ? VF VR]; subst.
  rewrite find_second_pts by auto.
  change (pk_obj F :: map pk_obj rest) with (map pk_obj (F :: rest)). rewrite load_all_pts by auto.
  unfold keyagg_point, Bip327.key_agg, psum.
  assert (NN : forall Q, In Q rest -> Q <> None) by (intros Q HQ; apply valid_not_None; eapply (proj1 (Forall_forall _ _) VR); eauto).
  destruct (second_key_spec F rest Inj NN) as [SK _].
  assert (M : map (fun Q => Curve.pmul P (keyaggcoef P (pks_hash_of (F :: rest)) Q (second_pt F rest)) Q) (F :: rest) =
              map (fun Pi => Curve.pmul P (Bip327.key_agg_coeff_internal P (map Bip327.cbytes (F :: rest)) (Bip327.cbytes Pi)
                                              (Bip327.get_second_key (map Bip327.cbytes (F :: rest)))) Pi) (F :: rest)).
  { apply map_ext_in. intros Q HQ. rewrite SK. f_equal. apply keyaggcoef_spec; auto.
    destruct (second_pt_In F rest); auto. right. right. auto. }
  rewrite M. rewrite pks_hash_spec by auto.
  destruct (fold_left (Curve.padd P) _ None); reflexivity.
Qed.

(* ---- tweaking equals BIP-327 ApplyTweak, for every tweak sequence *)
Definition cache_rel (ci : cache_i) (ctx : Bip327.keyagg_ctx) : Prop :=
  c_pk ci = Bip327.ctx_Q ctx /\
  ((c_parity ci = 0 /\ Bip327.ctx_gacc ctx = 1) \/ (c_parity ci = 1 /\ Bip327.ctx_gacc ctx = n - 1)) /\
  c_tweak ci = Bip327.ctx_tacc ctx /\ 0 <= Bip327.ctx_tacc ctx < n.

Lemma m1_mod : 1 < n -> (-1) mod n = n - 1.
Proof. intros H. symmetry. apply Z.mod_unique with (q := -1); lia. Qed.

Lemma tweak_step_spec xonly ci ctx t32 :
  2 < n -> bytes_okP t32 -> cache_rel ci ctx ->
  match tweak_step P xonly ci t32, Bip327.apply_tweak P ctx t32 xonly with
  | Some ci', Some ctx' => cache_rel ci' ctx' /\ c_second ci' = c_second ci /\ c_hash ci' = c_hash ci
  | None, None => True
  | _, _ => False
  end.
Proof.
  intros Hn Hb [RQ [RG [RT RB]]].
  unfold tweak_step, Bip327.apply_tweak, sc_of_b32, Bip327.int_of. fold n.
  pose proof (be_val_bound t32 Hb) as [Hv _].
  destruct (n <=? be_val t32) eqn:Ov; auto.
  apply Z.leb_gt in Ov. rewrite (Z.mod_small (be_val t32) n) by lia.
  unfold Bip327.has_even_y. rewrite <- RQ. rewrite negb_involutive.
  destruct (xonly && Z.odd (py (c_pk ci))) eqn:Flip.
  - rewrite m1_mod by lia. unfold Bip327.gmul.
    replace (n - 1 =? 1) with false by (symmetry; apply Z.eqb_neq; lia).
    destruct (Curve.padd P (Curve.pneg P (c_pk ci)) (Curve.pmul P (be_val t32) (Curve.G P))) eqn:E; auto.
    split; [|auto]. unfold cache_rel.
    cbn [c_pk c_parity c_tweak c_second c_hash Bip327.ctx_Q Bip327.ctx_gacc Bip327.ctx_tacc]. split; auto. split; [|split].
    + destruct RG as [[-> ->] | [-> ->]]; [right|left]; split; auto.
      * rewrite ?Z.mul_1_r. apply Z.mod_small. lia.
      * replace ((n - 1) * (n - 1)) with (1 + (n - 2) * n) by ring. rewrite Z.mod_add by lia. apply Z.mod_small. lia.
    + unfold sc_add, sc_neg, madd, mneg. fold n. rewrite RT. rewrite Zplus_mod_idemp_l.
      replace (be_val t32 + (n - 1) * Bip327.ctx_tacc ctx) with (- Bip327.ctx_tacc ctx + be_val t32 + Bip327.ctx_tacc ctx * n) by ring.
      rewrite Z.mod_add by lia. reflexivity.
    + apply Z.mod_pos_bound. lia.
  - unfold Bip327.gmul. simpl (1 =? 1).
    destruct (Curve.padd P (c_pk ci) (Curve.pmul P (be_val t32) (Curve.G P))) eqn:E; auto.
    split; [|auto]. unfold cache_rel.
    cbn [c_pk c_parity c_tweak c_second c_hash Bip327.ctx_Q Bip327.ctx_gacc Bip327.ctx_tacc]. split; auto. split; [|split].
    + destruct RG as [[-> ->] | [-> ->]]; [left|right]; split; auto;
        rewrite ?Z.mul_1_l, ?Z.mul_1_r; apply Z.mod_small; lia.
    + unfold sc_add, madd. fold n. rewrite RT. f_equal. ring.
    + apply Z.mod_pos_bound. lia.
Qed.

Fixpoint tweak_steps (ci : cache_i) (tw : list (bytes * bool)) : option cache_i :=
  match tw with
  | [] => Some ci
  | (t, x) :: r => match tweak_step P x ci t with Some c => tweak_steps c r | None => None end
  end.

Lemma tweak_steps_spec tw : forall ci ctx,
  2 < n -> Forall (fun tx => bytes_okP (fst tx)) tw -> cache_rel ci ctx ->
  match tweak_steps ci tw, Bip327.apply_tweaks P ctx tw with
  | Some ci', Some ctx' => cache_rel ci' ctx' /\ c_second ci' = c_second ci /\ c_hash ci' = c_hash ci
  | None, None => True
  | _, _ => False
  end.
Proof.
  induction tw as [|[t x] r IH]; intros ci ctx Hn Hb R; simpl; auto.
  inversion Hb; subst. simpl in *.
  pose proof (tweak_step_spec x ci ctx t Hn H1 R) as S.
  destruct (tweak_step P x ci t) as [ci1|], (Bip327.apply_tweak P ctx t x) as [ctx1|]; auto; try contradiction.
  destruct S as [R1 [S2 S3]].
  specialize (IH ci1 ctx1 Hn H2 R1).
  destruct (tweak_steps ci1 r), (Bip327.apply_tweaks P ctx1 r); auto.
  destruct IH as [A [B C]]. split; [exact A|split; congruence].
Qed.

(* the API function is load -> tweak_step -> save *)
Lemma musig_pubkey_tweak_add_unfold xonly wo c t ci :
  cache_load P c = Some ci ->
  musig_pubkey_tweak_add P xonly wo (Some c) (Some t) =
  match tweak_step P xonly ci t with
  | None => [AInt 0; out_opt wo pk_obj_zero; ABytes c]
  | Some ci' => [AInt 1; out_opt wo (pk_obj (c_pk ci')); ABytes (cache_save ci')]
  end.
Proof. intros H. unfold musig_pubkey_tweak_add. rewrite H. reflexivity. Qed.

Lemma cache_rel_init Q second h : 0 < n -> cache_rel (mkCache Q second h 0 0) (Bip327.mkCtx Q 1 0).
Proof. intros H. unfold cache_rel. simpl. repeat split; auto; lia. Qed.
End C12.

(* ================================================================== statements exported to Properties_C13.v *)
Section C13_statements.
Variable P : Params.

(* after ANY partial_sign step on an existing nonce object - success, or failure for whatever reason,
   including every ARG_CHECK that follows the load - the object is all-zero *)
Lemma partial_sign_always_wipes_stmt : forall s k want_sig keypair cache session,
  (k < length (slots s))%nat ->
  nth_error (slots (fst (step P s (OSign (Some k) want_sig keypair cache session)))) k = Some (zeros 132).
Proof. intros. apply step_sign_wipes. auto. Qed.

(* the API-level function: the secnonce output is zeros whatever the other arguments *)
Lemma partial_sign_api_wipes_stmt : forall sec want_sig keypair cache session,
  snd (partial_sign P (Some sec) want_sig keypair cache session) = Some (zeros 132).
Proof.
  intros. unfold partial_sign. destruct (partial_sign_core P sec want_sig keypair cache session) as [[r i] s]. reflexivity.
Qed.

Lemma zero_nonce_never_signs_stmt : forall s k want_sig keypair cache session,
  nth_error (slots s) k = Some (zeros 132) ->
  let r := step P s (OSign (Some k) want_sig keypair cache session) in
  o_ret (snd r) = 0 /\ o_ill (snd r) = 1 /\ siglog (fst r) = siglog s /\
  o_sig (snd r) = (if want_sig then Some (zeros 36) else None).
Proof. intros. eapply step_sign_unloadable; eauto. Qed.

(* once a partial_sign step has touched object k, no later partial_sign on k signs, until k is refilled
   by a nonce generation (or overwritten by the caller) *)
Lemma used_nonce_never_signs_stmt : forall s k w1 kp1 c1 se1 ops w2 kp2 c2 se2,
  (k < length (slots s))%nat ->
  forallb (fun o => negb (refills k o)) ops = true ->
  let s1 := fst (step P s (OSign (Some k) w1 kp1 c1 se1)) in
  let s2 := final P s1 ops in
  let r := step P s2 (OSign (Some k) w2 kp2 c2 se2) in
  o_ret (snd r) = 0 /\ siglog (fst r) = siglog s2 /\ o_sig (snd r) = (if w2 then Some (zeros 36) else None).
Proof.
  intros s k w1 kp1 c1 se1 ops w2 kp2 c2 se2 Hk Hops. cbv zeta.
  pose proof (step_sign_wipes P s k w1 kp1 c1 se1 Hk) as Z1.
  pose proof (final_keeps_zero P ops _ k Hops Z1) as Z2.
  destruct (step_sign_unloadable P _ k (zeros 132) w2 kp2 c2 se2 Z2 (secnonce_load_zeros P)) as [A [B [C D]]].
  auto.
Qed.

(* binding: the keypair must carry exactly the public key (x AND y) the nonce was generated for *)
Lemma foreign_key_never_signs_stmt : forall s k sec k1 k2 pk want_sig kp d kpk cache session,
  nth_error (slots s) k = Some sec ->
  secnonce_load P sec = Some (k1, k2, pk) -> keypair_load P kp = Some (d, kpk) -> pk <> kpk ->
  let r := step P s (OSign (Some k) want_sig (Some kp) cache session) in
  o_ret (snd r) = 0 /\ o_ill (snd r) = 1 /\ siglog (fst r) = siglog s /\
  o_sig (snd r) = (if want_sig then Some (zeros 36) else None) /\
  nth_error (slots (fst r)) k = Some (zeros 132).
Proof.
  intros s k sec k1 k2 pk w kp d kpk c se E L K N. cbv zeta.
  pose proof (step_sign_wipes P s k w (Some kp) c se (nth_error_lt _ _ _ E)) as W.
  unfold step, get_slot in *. rewrite E in *.
  rewrite (core_foreign_key P sec k1 k2 pk w kp d kpk c se L K N) in *. simpl in *. auto.
Qed.

Lemma negated_key_is_foreign : forall x y y' : Z, y <> y' -> Some (x, y) <> Some (x, y').
Proof. intros x y y' H E. inversion E. contradiction. Qed.

(* history invariant: over ANY operation list from ANY initial pool, no generation event (nonce_gen,
   nonce_gen_counter, or the caller overwriting the object) is logged with two signatures *)
Lemma at_most_one_signature_stmt : forall slots0 rands0 ops,
  NoDup (map fst (siglog (final P (init_state slots0 rands0) ops))).
Proof. intros. apply (wf_log_nodup P). apply wf_final. apply wf_init. Qed.

Lemma at_most_one_signature_fold : forall slots0 rands0 ops,
  NoDup (map fst (siglog (fold_left (fun st o => fst (step P st o)) ops (init_state slots0 rands0)))).
Proof. exact at_most_one_signature_stmt. Qed.

(* and the log is faithful: a partial_sign step returns 1 iff it appends exactly one entry, tagged with
   the identifier of the object's current content, whose signature is the one written to the output *)
Lemma signature_is_logged_stmt : forall s k sec want_sig keypair cache session,
  nth_error (slots s) k = Some sec ->
  let r := step P s (OSign (Some k) want_sig keypair cache session) in
  (o_ret (snd r) = 1 ->
     exists v, siglog (fst r) = (slot_id s k, v) :: siglog s /\ o_sig (snd r) = Some (psig_save v)) /\
  (o_ret (snd r) <> 1 -> siglog (fst r) = siglog s /\ (o_sig (snd r) = None \/ o_sig (snd r) = Some (zeros 36))).
Proof. intros s k sec w kp c se H. apply (step_sign_logged P s k sec w kp c se H). Qed.

(* only partial_sign steps extend the log; generation events get fresh identifiers *)
Lemma only_sign_logs_stmt : forall s o,
  match o with OSign _ _ _ _ _ => True | _ => siglog (fst (step P s o)) = siglog s end.
Proof.
  intros s o. destruct o; auto; simpl.
  - destruct slot as [k|]; simpl; auto. destruct (nth_error (slots s) k); auto.
  - destruct slot as [k|]; simpl; auto. destruct (nth_error (slots s) k); auto.
  - destruct (nth_error (slots s) slot); auto.
Qed.

Lemma nonce_gen_contract_stmt : forall s k want_pubnonce ri seckey pubkey msg32 cache extra32,
  (k < length (slots s))%nat ->
  let r := step P s (OGen (Some k) want_pubnonce ri seckey pubkey msg32 cache extra32) in
  (* every failure leaves the secret nonce zeroed *)
  (o_ret (snd r) <> 1 -> nth_error (slots (fst r)) k = Some (zeros 132)) /\
  (* all-zero session randomness is rejected, without callback *)
  (forall rb, get_rand s ri = Some rb -> is_zero_bytes rb = true ->
        o_ret (snd r) = 0 /\ o_ill (snd r) = 0 /\ nth_error (slots (fst r)) k = Some (zeros 132)) /\
  (* success wipes the caller's randomness buffer *)
  (o_ret (snd r) = 1 -> forall i, ri = Some i -> nth_error (rands (fst r)) i = Some (zeros 32)) /\
  (* success binds the nonce to the supplied public key *)
  (o_ret (snd r) = 1 -> exists k1 k2 pk obj, pubkey = Some obj /\ pk_load obj = Some pk /\
        nth_error (slots (fst r)) k = Some (secnonce_save k1 k2 pk) /\ skipn 68 (secnonce_save k1 k2 pk) = pk_obj pk).
Proof. intros. apply step_gen_contract. auto. Qed.

Lemma stored_pubkey_is_supplied_stmt : forall o pk, length o = 64%nat -> bytes_okP o -> pk_load o = Some pk -> pk_obj pk = o.
Proof. exact pk_obj_of_load. Qed.

Lemma nonce_gen_counter_contract_stmt : forall before want_pubnonce cnt keypair msg32 cache extra32,
  let o := nonce_gen_counter_sec P true before want_pubnonce cnt keypair msg32 cache extra32 in
  (ng_r o = false -> ng_sec o = zeros 132) /\
  (ng_r o = true -> exists k1 k2 pk kpb, keypair = Some kpb /\ pk_load (skipn 32 kpb) = Some pk /\
                    seckey_of_b32 P (firstn 32 kpb) <> None /\
                    ng_sec o = secnonce_save k1 k2 pk /\ skipn 68 (ng_sec o) = pk_obj pk).
Proof. intros. apply nonce_gen_counter_sec_contract. Qed.
End C13_statements.

(* ================================================================== C12, continued: signing and aggregation *)
Section C12_sign.
Variable P : Params.

(* partial signing computes BIP-327 Sign:  s = k1 + b k2 + e a d  with the BIP's sign conventions
   (k negated for an odd final nonce; d' multiplied by g . gacc) *)
Lemma partial_sign_eq_spec_lemma sec k1 k2 pk kp d c ci se si ctx R :
  secnonce_load P sec = Some (k1, k2, pk) -> keypair_load P kp = Some (d, pk) ->
  cache_load P c = Some ci -> session_load P se = Some si ->
  cache_rel P ci ctx -> (s_parity si =? 0) = Bip327.has_even_y R ->
  partial_sign_core P sec true (Some kp) (Some c) (Some se) =
  (true, 0, Some (Bip327.sign_s P ctx R (s_b si) (s_e si) (keyaggcoef P (c_hash ci) pk (c_second ci)) k1 k2 d)).
Proof.
  intros L1 L2 L3 L4 [RQ [RG [RT RB]]] RP.
  unfold partial_sign_core. rewrite L1. cbn [negb]. rewrite L2, point_eqb_refl. cbn [negb]. rewrite L3, L4.
  f_equal. f_equal.
  unfold partial_sign_scalar, Bip327.sign_s, sc_add, sc_mul, sc_neg, madd, mmul, mneg, Bip327.has_even_y in *.
  rewrite <- RQ. rewrite RP.
  set (mu := keyaggcoef P (c_hash ci) pk (c_second ci)).
  destruct RG as [[-> ->] | [-> ->]]; destruct (Z.odd (py (c_pk ci))); destruct (Z.odd (py R));
    cbn [negb xorb Z.eqb Pos.eqb]; cg_solve (cn P).
Qed.

(* aggregation: s = sum s_i + e . g . tacc, sig = xbytes(R) || s *)
Lemma fold_sc_add_cg ss : forall acc, cg (cn P) (fold_left (sc_add P) ss acc) (acc + fold_left Z.add ss 0).
Proof.
  induction ss as [|x r IH]; intros acc; cbn [fold_left].
  - apply cg_eq. lia.
  - eapply cg_trans; [apply IH|].
    assert (E : forall a, fold_left Z.add r a = a + fold_left Z.add r 0).
    { clear. induction r as [|y r IH]; intros a; cbn [fold_left]; [lia|]. rewrite (IH (a + y)), (IH (0 + y)). lia. }
    rewrite (E (0 + x)). unfold sc_add, madd.
    eapply cg_trans; [eapply cg_add; [apply cg_mod|apply cg_refl]|]. apply cg_eq. lia.
Qed.

Lemma psig_load_save s : 0 <= s < cn P -> cn P <= 2 ^ 256 -> psig_load P (psig_save s) = Some s.
Proof.
  intros Hs Hn. unfold psig_load, psig_save, sc_to_b32.
  rewrite (firstn_exact magic_psig (be_enc 32 s) 4 eq_refl). cbn [bytes_eqb magic_psig Z.eqb Pos.eqb andb].
  rewrite (skipn_exact magic_psig (be_enc 32 s) 4 eq_refl). unfold sc_b. rewrite sc_of_b32_enc by auto. reflexivity.
Qed.

Lemma sum_psigs_objs ss : forall acc, Forall (fun s => 0 <= s < cn P) ss -> cn P <= 2 ^ 256 ->
  sum_psigs P (map psig_save ss) acc = Some (fold_left (sc_add P) ss acc).
Proof.
  induction ss as [|x r IH]; intros acc H Hn; cbn [map sum_psigs fold_left]; auto.
  inversion H; subst. rewrite psig_load_save by auto. apply IH; auto.
Qed.

Lemma session_s_part_cg ci ctx e : cache_rel P ci ctx ->
  cg (cn P) (session_s_part P ci e)
     (e * (if Bip327.has_even_y (Bip327.ctx_Q ctx) then 1 else cn P - 1) * Bip327.ctx_tacc ctx).
Proof.
  intros [RQ [_ [RT RB]]]. unfold session_s_part, Bip327.has_even_y. rewrite <- RQ, RT.
  destruct (Bip327.ctx_tacc ctx =? 0) eqn:E.
  - apply Z.eqb_eq in E. rewrite E. apply cg_eq. ring.
  - unfold sc_mul, sc_neg, mmul, mneg. destruct (Z.odd (py (c_pk ci))); cbn [negb]; unfold cg; cg_solve (cn P).
Qed.

Theorem partial_sig_agg_eq_spec_lemma se si ci ctx R ss :
  session_load P se = Some si -> cache_rel P ci ctx ->
  s_part si = session_s_part P ci (s_e si) -> s_fin si = Bip327.xbytes R ->
  ss <> [] -> Forall (fun s => 0 <= s < cn P) ss -> 0 < cn P <= 2 ^ 256 ->
  musig_partial_sig_agg P (Some se) (Some (map psig_save ss)) =
  [AInt 1; ABytes (Bip327.partial_sig_agg P ctx R (s_e si) ss)].
Proof.
  intros L R1 SP SF NE V Hn. unfold musig_partial_sig_agg.
  destruct ss as [|s0 r]; [congruence|]. cbn [map]. rewrite L.
  change (psig_save s0 :: map psig_save r) with (map psig_save (s0 :: r)).
  rewrite sum_psigs_objs by (auto; lia).
  unfold Bip327.partial_sig_agg, Bip327.bytes_k, sc_to_b32. rewrite SF.
  pose proof (fold_sc_add_cg (s0 :: r) (s_part si)) as F.
  assert (B : 0 <= fold_left (sc_add P) (s0 :: r) (s_part si) < cn P).
  { cbn [fold_left]. clear -Hn. revert s0. generalize (s_part si). induction r as [|y r IH]; intros a s0; cbn [fold_left].
    - unfold sc_add, madd. apply Z.mod_pos_bound. lia.
    - apply IH. }
  assert (E : fold_left (sc_add P) (s0 :: r) (s_part si) =
              (fold_left Z.add (s0 :: r) 0 + s_e si * (if Bip327.has_even_y (Bip327.ctx_Q ctx) then 1 else cn P - 1) * Bip327.ctx_tacc ctx) mod cn P).
  { rewrite <- (Z.mod_small _ _ B).
    eapply cg_trans; [exact F|]. rewrite SP.
    eapply cg_trans; [eapply cg_add; [apply (session_s_part_cg ci ctx (s_e si) R1)|apply cg_refl]|].
    apply cg_eq. ring. }
  rewrite E. reflexivity.
Qed.

(* nonce aggregation and session creation equal BIP-327 NonceAgg / GetSessionValues *)
Lemma ser_ext_cbytes R : ge_serialize_ext R = Bip327.cbytes_ext R.
Proof.
  destruct R as [[x y]|]; [|reflexivity]. unfold ge_serialize_ext. cbn [Bip327.cbytes_ext].
  apply ser33_cbytes. discriminate.
Qed.

Lemma nonce_process_internal_spec R1 R2 Q m :
  nonce_process_internal P R1 R2 (Bip327.xbytes Q) m =
  (b2z (Z.odd (py (Bip327.session_R P R1 R2 Q m))), Bip327.xbytes (Bip327.session_R P R1 R2 Q m), Bip327.session_b P R1 R2 Q m).
Proof.
  unfold nonce_process_internal, Bip327.session_R, Bip327.session_b, Bip327.aggnonce_bytes, sc_b, sc_of_b32, Bip327.int_of.
  cbn [fst snd]. rewrite !ser_ext_cbytes. rewrite <- !app_assoc. reflexivity.
Qed.

Lemma nonce_process_eq_spec_lemma an m c ci R1 R2 :
  cache_load P c = Some ci -> aggnonce_load an = Some (R1, R2) ->
  let Q := c_pk ci in
  let R := Bip327.session_R P R1 R2 Q m in
  musig_nonce_process P (Some an) (Some m) (Some c) None =
  [AInt 1; ABytes (session_save (mkSession (b2z (Z.odd (py R))) (Bip327.xbytes R) (Bip327.session_b P R1 R2 Q m)
                                           (Bip327.session_e P R1 R2 Q m)
                                           (session_s_part P ci (Bip327.session_e P R1 R2 Q m))))].
Proof.
  intros L1 L2. cbv zeta. unfold musig_nonce_process. rewrite L1, L2.
  change (fe_to_b32 (px (c_pk ci))) with (Bip327.xbytes (c_pk ci)).
  rewrite nonce_process_internal_spec. reflexivity.
Qed.

Lemma sum_pubnonces_spec pubs : forall acc, Forall (fun R => valid_pt (fst R) /\ valid_pt (snd R)) pubs ->
  sum_pubnonces P (map (fun R => pubnonce_save (fst R) (snd R)) pubs) acc =
  Some (fold_left (Curve.padd P) (map fst pubs) (fst acc), fold_left (Curve.padd P) (map snd pubs) (snd acc)).
Proof.
  induction pubs as [|[A B] r IH]; intros [a b] V; cbn [map sum_pubnonces fold_left fst snd]; auto.
  inversion V as [|? ? [VA VB] VR]; subst. cbn [fst snd] in *.
  assert (L : pubnonce_load (pubnonce_save A B) = Some (A, B)).
  { unfold pubnonce_load, pubnonce_save.
    rewrite (firstn_exact magic_pubnonce (pk_obj A ++ pk_obj B) 4 eq_refl). cbn [bytes_eqb magic_pubnonce Z.eqb Pos.eqb andb].
    destruct A as [[x1 y1]|]; [|cbn in VA; tauto]. destruct B as [[x2 y2]|]; [|cbn in VB; tauto].
    cbn [valid_pt] in VA, VB. unfold slice, pk_obj, fe_to_b32, pt_of_c64.
    rewrite (skipn_exact magic_pubnonce _ 4 eq_refl).
    assert (L64 : length (be_enc 32 x1 ++ be_enc 32 y1) = 64%nat) by (rewrite app_length, !be_enc_length; reflexivity).
    rewrite (firstn_exact (be_enc 32 x1 ++ be_enc 32 y1) (be_enc 32 x2 ++ be_enc 32 y2) 64 L64).
    replace (magic_pubnonce ++ (be_enc 32 x1 ++ be_enc 32 y1) ++ be_enc 32 x2 ++ be_enc 32 y2)
      with ((magic_pubnonce ++ be_enc 32 x1 ++ be_enc 32 y1) ++ be_enc 32 x2 ++ be_enc 32 y2) by (rewrite <- !app_assoc; reflexivity).
    rewrite (skipn_exact (magic_pubnonce ++ be_enc 32 x1 ++ be_enc 32 y1) _ 68) by (rewrite !app_length, !be_enc_length; reflexivity).
    assert (L64' : length (be_enc 32 x2 ++ be_enc 32 y2) = 64%nat) by (rewrite app_length, !be_enc_length; reflexivity).
    assert (FA : firstn 64 (be_enc 32 x2 ++ be_enc 32 y2) = be_enc 32 x2 ++ be_enc 32 y2) by (rewrite <- L64'; apply firstn_all).
    rewrite !FA.
    rewrite !(firstn_exact _ _ 32 (be_enc_length 32 _)), !(skipn_exact _ _ 32 (be_enc_length 32 _)).
    rewrite !be_val_enc by (rewrite pow256_32; lia). reflexivity. }
  rewrite L. apply IH. auto.
Qed.

Theorem nonce_agg_eq_spec_lemma p0 pubs :
  Forall (fun R => valid_pt (fst R) /\ valid_pt (snd R)) (p0 :: pubs) ->
  musig_nonce_agg P (Some (map (fun R => pubnonce_save (fst R) (snd R)) (p0 :: pubs))) =
  [AInt 1; ABytes (aggnonce_save (fst (Bip327.nonce_agg P (p0 :: pubs))) (snd (Bip327.nonce_agg P (p0 :: pubs))))].
Proof.
  intros V. unfold musig_nonce_agg.
  rewrite (sum_pubnonces_spec (p0 :: pubs) (None, None) V). reflexivity.
Qed.
End C12_sign.

(* ================================================================== cbytes is injective on curve points [MathFacts] *)
Require Import Proofs.MathFacts.
From Coq Require Import Znumtheory.
Section CbytesInj.
Variable P : Params.
Hypothesis MF : MathFacts P.
Hypothesis Hp : cp P < 2 ^ 256.

Lemma cons_inj_Z (a b : Z) l l' : a :: l = b :: l' -> a = b /\ l = l'.
Proof. intros H. injection H; auto. Qed.

Lemma cbytes_inj_curve A B : oc P A -> oc P B -> A <> None -> B <> None -> Bip327.cbytes A = Bip327.cbytes B -> A = B.
Proof.
  destruct A as [[x y]|]; [|congruence]. destruct B as [[x' y']|]; [|congruence].
  unfold oc, on_curve. intros HA HB _ _ H.
  apply andb_true_iff in HA. destruct HA as [HA Ec]. apply andb_true_iff in HA. destruct HA as [HA Hy2].
  apply andb_true_iff in HA. destruct HA as [HA Hy1]. apply andb_true_iff in HA. destruct HA as [Hx1 Hx2].
  apply andb_true_iff in HB. destruct HB as [HB Ec']. apply andb_true_iff in HB. destruct HB as [HB Hy2'].
  apply andb_true_iff in HB. destruct HB as [HB Hy1']. apply andb_true_iff in HB. destruct HB as [Hx1' Hx2'].
  apply Z.leb_le in Hx1, Hy1, Hx1', Hy1'. apply Z.ltb_lt in Hx2, Hy2, Hx2', Hy2'. apply Z.eqb_eq in Ec, Ec'.
  unfold Bip327.cbytes, Bip327.has_even_y, Bip327.xbytes, Bip327.bytes_k in H. cbn [px py] in H.
  apply cons_inj_Z in H. destruct H as [Hpar Hx].
  apply (f_equal be_val) in Hx. rewrite !be_val_enc in Hx by (rewrite pow256_32; lia). subst x'.
  assert (Ho : Z.odd y = Z.odd y') by (destruct (Z.odd y), (Z.odd y'); cbn in Hpar; congruence).
  assert (Hsq : (y * y) mod cp P = (y' * y') mod cp P) by congruence.
  assert (Hd : (cp P | (y - y') * (y + y'))).
  { apply Z.mod_divide; [lia|]. replace ((y - y') * (y + y')) with (y * y - y' * y') by ring.
    rewrite Zminus_mod, Hsq, Z.sub_diag. apply Zmod_0_l. }
  apply (prime_mult _ (mf_p_prime P MF)) in Hd.
  assert (y = y'); [|congruence].
  destruct Hd as [[k Hk] | [k Hk]].
  - assert (k = 0) by nia. lia.
  - assert (k = 0 \/ k = 1) as [-> | ->] by nia; [lia|].
    exfalso. pose proof (mf_p_3mod4 P MF) as H4.
    assert (Z.odd (cp P) = true).
    { rewrite Zodd_mod. apply Zeq_is_eq_bool. symmetry. apply Z.mod_unique with (q := 2 * (cp P / 4) + 1); [lia|].
      pose proof (Z.div_mod (cp P) 4 ltac:(lia)). lia. }
    replace (cp P) with (y + y') in H by lia. rewrite Z.odd_add in H. rewrite Ho in H. destruct (Z.odd y'); discriminate.
Qed.

Lemma cbytes_inj_on_curve pts : Forall (fun Q => oc P Q /\ Q <> None) pts -> cbytes_inj_on pts.
Proof.
  intros V A B HA HB H. rewrite Forall_forall in V. destruct (V A HA), (V B HB). apply cbytes_inj_curve; auto.
Qed.
End CbytesInj.

(* ================================================================== completeness of partial signatures [MathFacts] *)
Require Import Proofs.GroupLemmas.
Section Honest.
Variable P : Params.
Hypothesis MF : MathFacts P.
Notation G := (Curve.G P).

Lemma mod_bound x : 0 <= x mod cn P < cn P.
Proof. apply Z.mod_pos_bound. apply (n_pos P MF). Qed.

(* every point occurring in the verification of an honest partial signature is a multiple of G, so the
   verification equation reduces to a congruence between scalars, decided by cg_solve *)
Lemma honest_partial_sig_verifies_lemma ci si d k1 k2 :
  0 <= d < cn P -> 0 <= k1 < cn P -> 0 <= k2 < cn P ->
  0 <= s_b si < cn P -> 0 <= s_e si < cn P ->
  let pk := Curve.pmul P d G in
  let s := partial_sign_scalar P ci si k1 k2 pk d in
  partial_sig_verify_core P ci si s (Curve.pmul P k1 G) (Curve.pmul P k2 G) pk = true.
Proof.
  intros Hd Hk1 Hk2 Hb He pk s.
  pose proof (n_pos P MF) as Hn.
  unfold partial_sig_verify_core. fold pk.
  set (mu := keyaggcoef P (c_hash ci) pk (c_second ci)).
  set (fl := xorb (Z.odd (py (c_pk ci))) (c_parity ci =? 1)).
  set (e := if fl then sc_neg P (sc_mul P (s_e si) mu) else sc_mul P (s_e si) mu).
  assert (He' : 0 <= e < cn P) by (unfold e, sc_neg, sc_mul, mneg, mmul; destruct fl; apply mod_bound).
  assert (Hs : 0 <= s < cn P) by (unfold s, partial_sign_scalar, sc_add, madd; apply mod_bound).
  (* R1 + b R2 = (k1 + b k2) G *)
  assert (ERe : Curve.padd P (Curve.pmul P k1 G) (Curve.pmul P (s_b si) (Curve.pmul P k2 G)) =
                Curve.pmul P (madd (cn P) k1 (mmul (cn P) (s_b si) k2)) G).
  { rewrite <- (pmul_mmul P MF) by lia. rewrite <- (pmul_madd P MF); [reflexivity|lia|]. apply mod_bound. }
  rewrite ERe.
  set (re := madd (cn P) k1 (mmul (cn P) (s_b si) k2)).
  assert (Hre : 0 <= re < cn P) by (apply mod_bound).
  set (re' := if s_parity si =? 0 then re else mneg (cn P) re).
  assert (ERe' : (if s_parity si =? 0 then Curve.pmul P re G else Curve.pneg P (Curve.pmul P re G)) = Curve.pmul P re' G).
  { unfold re'. destruct (s_parity si =? 0); [reflexivity|]. rewrite (pmul_mneg P MF) by auto. reflexivity. }
  rewrite ERe'.
  assert (Hre' : 0 <= re' < cn P) by (unfold re'; destruct (s_parity si =? 0); [auto|apply mod_bound]).
  unfold pk. rewrite <- (pmul_mmul P MF) by lia.
  unfold sc_neg at 1.
  rewrite <- (pmul_madd P MF); [|apply mod_bound|apply mod_bound].
  rewrite <- (pmul_madd P MF); [|apply mod_bound|lia].
  (* the scalar is 0 mod n *)
  match goal with |- is_inf (Curve.pmul P ?t G) = true => assert (Z0 : t = 0) end.
  { unfold madd at 1. rewrite <- (Zmod_0_l (cn P)).
    unfold re', re, e, s, partial_sign_scalar, sc_add, sc_mul, sc_neg, madd, mmul, mneg. fold pk. fold mu. fold fl.
    destruct fl; destruct (s_parity si =? 0); cbn [negb]; cg_solve (cn P). }
  rewrite Z0. reflexivity.
Qed.
End Honest.
