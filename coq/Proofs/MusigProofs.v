(* Lemmas about the MuSig2 model (Model/Musig.v) and the nonce history machine (Model/MusigNonceSM.v).
   Part 1: C13 (no premises at all).  Part 2: C12. *)
From Coq Require Import ZArith List Bool Lia Arith.
Require Import Spec.Params Spec.Field Spec.Curve Spec.Bytes Spec.Sha256.
Require Import Model.Base Model.Keys Model.Schnorr Model.Musig Model.MusigNonceSM.
Require Import Proofs.BytesLemmas.
Import ListNotations.
Local Open Scope Z_scope.

(* hashing and curve arithmetic never need to be unfolded here *)
Local Opaque tagged_hash sha256 pmul padd.

(* ------------------------------------------------------------------ list helpers *)
Lemma set_nth_length {A} k (v : A) l : length (set_nth k v l) = length l.
Proof. revert k; induction l; intros [|k]; simpl; auto. Qed.

Lemma nth_error_set_nth_eq {A} k (v : A) l : (k < length l)%nat -> nth_error (set_nth k v l) k = Some v.
Proof. revert k; induction l; intros [|k] H; simpl in *; try lia; auto. apply IHl; lia. Qed.

Lemma nth_error_set_nth_neq {A} k j (v : A) l : j <> k -> nth_error (set_nth k v l) j = nth_error l j.
Proof. revert k j; induction l; intros [|k] [|j] H; simpl in *; auto; try congruence. Qed.

Lemma nth_set_nth_eq {A} k (v d : A) l : (k < length l)%nat -> nth k (set_nth k v l) d = v.
Proof. revert k; induction l; intros [|k] H; simpl in *; try lia; auto. apply IHl; lia. Qed.

Lemma nth_set_nth_neq {A} k j (v d : A) l : j <> k -> nth j (set_nth k v l) d = nth j l d.
Proof. revert k j; induction l; intros [|k] [|j] H; simpl in *; auto; try congruence. Qed.

Lemma nth_error_lt {A} (l : list A) k x : nth_error l k = Some x -> (k < length l)%nat.
Proof. intros H. apply nth_error_Some. congruence. Qed.

Lemma In_set_nth {A} k (v x : A) l : In x (set_nth k v l) -> x = v \/ In x l.
Proof. revert k; induction l; intros [|k] H; simpl in *; auto; destruct H; auto. apply IHl in H. tauto. Qed.

Lemma NoDup_set_nth_fresh k (v : nat) l : NoDup l -> ~ In v l -> NoDup (set_nth k v l).
Proof.
  revert k; induction l; intros [|k] Hn Hv; simpl in *; auto.
  - inversion Hn; subst. constructor; auto.
  - inversion Hn; subst. constructor.
    + intros Hi. apply In_set_nth in Hi. destruct Hi; [subst; tauto|tauto].
    + apply IHl; auto.
Qed.

(* ------------------------------------------------------------------ object facts *)
Lemma secnonce_load_zeros P : secnonce_load P (zeros 132) = None.
Proof. reflexivity. Qed.

Lemma point_eqb_true A B : point_eqb A B = true -> A = B.
Proof.
  destruct A as [[a b]|], B as [[c d]|]; simpl; try discriminate; auto.
  intros H. apply andb_true_iff in H. destruct H as [H1 H2].
  apply Z.eqb_eq in H1. apply Z.eqb_eq in H2. congruence.
Qed.
Lemma point_eqb_refl A : point_eqb A A = true.
Proof. destruct A as [[a b]|]; simpl; auto. rewrite !Z.eqb_refl. reflexivity. Qed.
Lemma point_eqb_false A B : A <> B -> point_eqb A B = false.
Proof. intros H. destruct (point_eqb A B) eqn:E; auto. apply point_eqb_true in E. contradiction. Qed.

Section C13.
Variable P : Params.

(* ---- partial_sign_core: when a signature comes out *)
Lemma core_unloadable sec want kp c se :
  secnonce_load P sec = None -> partial_sign_core P sec want kp c se = (false, 1, None).
Proof. intros H. unfold partial_sign_core. rewrite H. reflexivity. Qed.

Lemma core_signs_loadable sec want kp c se ret ill v :
  partial_sign_core P sec want kp c se = (ret, ill, Some v) ->
  secnonce_load P sec <> None /\ ret = true /\ ill = 0 /\ want = true.
Proof.
  unfold partial_sign_core. destruct (secnonce_load P sec) as [[[k1 k2] pk]|]; [|discriminate].
  destruct want; simpl; [|discriminate].
  destruct kp; [|discriminate]. destruct c; [|discriminate]. destruct se; [|discriminate].
  destruct (keypair_load P b) as [[d kpk]|]; [|discriminate].
  destruct (point_eqb pk kpk); simpl; [|discriminate].
  destruct (cache_load P b0); [|discriminate].
  destruct (session_load P b1); [|discriminate].
  intros H. inversion H. repeat split; auto. discriminate.
Qed.

Lemma core_ret_iff_sig sec want kp c se :
  let '(ret, ill, sg) := partial_sign_core P sec want kp c se in
  (ret = true <-> sg <> None) /\ (ret = false -> ill = 1) /\ (ret = true -> ill = 0).
Proof.
  unfold partial_sign_core. destruct (secnonce_load P sec) as [[[k1 k2] pk]|]; [|repeat split; intros; congruence].
  destruct want; simpl; [|repeat split; intros; congruence].
  destruct kp; [|repeat split; intros; congruence]. destruct c; [|repeat split; intros; congruence].
  destruct se; [|repeat split; intros; congruence].
  destruct (keypair_load P b) as [[d kpk]|]; [|repeat split; intros; congruence].
  destruct (point_eqb pk kpk); simpl; [|repeat split; intros; congruence].
  destruct (cache_load P b0); [|repeat split; intros; congruence].
  destruct (session_load P b1); repeat split; intros; congruence.
Qed.

(* the public-key binding: a nonce bound to pk and a keypair whose public key is a DIFFERENT point
   (x or y differs) never sign, whatever the other arguments *)
Lemma core_foreign_key sec k1 k2 pk want kp d kpk c se :
  secnonce_load P sec = Some (k1, k2, pk) -> keypair_load P kp = Some (d, kpk) -> pk <> kpk ->
  partial_sign_core P sec want (Some kp) c se = (false, 1, None).
Proof.
  intros H1 H2 H3. unfold partial_sign_core. rewrite H1.
  destruct want; simpl; auto. destruct c; auto. destruct se; auto.
  rewrite H2. rewrite (point_eqb_false _ _ H3). reflexivity.
Qed.

(* ---- step-level statements *)
Definition slot_of (s : state) (k : nat) : option bytes := nth_error (slots s) k.

Lemma step_sign_wipes s k want kp c se :
  (k < length (slots s))%nat ->
  slot_of (fst (step P s (OSign (Some k) want kp c se))) k = Some (zeros 132).
Proof.
  intros Hk. unfold step, get_slot, slot_of.
  destruct (nth_error (slots s) k) eqn:E.
  - destruct (partial_sign_core P b want kp c se) as [[ret ill] sg]. simpl.
    apply nth_error_set_nth_eq; auto.
  - apply nth_error_None in E. lia.
Qed.

Lemma step_sign_unloadable s k sec want kp c se :
  slot_of s k = Some sec -> secnonce_load P sec = None ->
  let r := step P s (OSign (Some k) want kp c se) in
  o_ret (snd r) = 0 /\ o_ill (snd r) = 1 /\ siglog (fst r) = siglog s /\
  o_sig (snd r) = (if want then Some (zeros 36) else None).
Proof.
  unfold slot_of. intros E H. unfold step, get_slot. rewrite E.
  rewrite (core_unloadable _ _ _ _ _ H). simpl. auto.
Qed.

(* operations that put new content into slot k *)
Definition refills (k : nat) (o : op) : bool :=
  match o with
  | OGen (Some j) _ _ _ _ _ _ _ => Nat.eqb j k
  | OGenCtr (Some j) _ _ _ _ _ _ => Nat.eqb j k
  | OPoke j _ => Nat.eqb j k
  | _ => false
  end.

Lemma step_keeps_zero s k o :
  refills k o = false -> slot_of s k = Some (zeros 132) -> slot_of (fst (step P s o)) k = Some (zeros 132).
Proof.
  unfold slot_of. intros Hr Hz. destruct o; simpl in *.
  - destruct slot as [j|]; simpl; auto. destruct (nth_error (slots s) j) eqn:E; simpl; auto.
    apply Nat.eqb_neq in Hr. rewrite nth_error_set_nth_neq; auto.
  - destruct slot as [j|]; simpl; auto. destruct (nth_error (slots s) j) eqn:E; simpl; auto.
    apply Nat.eqb_neq in Hr. rewrite nth_error_set_nth_neq; auto.
  - destruct slot as [j|]; simpl; auto. destruct (nth_error (slots s) j) eqn:E; simpl; auto.
    destruct (partial_sign_core P b want_sig keypair cache session) as [[ret ill] sg]. simpl.
    destruct (Nat.eq_dec k j) as [->|Hne].
    + apply nth_error_set_nth_eq. eapply nth_error_lt; eauto.
    + rewrite nth_error_set_nth_neq; auto.
  - destruct (nth_error (slots s) slot) eqn:E; simpl; auto.
    apply Nat.eqb_neq in Hr. rewrite nth_error_set_nth_neq; auto.
Qed.

Lemma final_keeps_zero ops : forall s k,
  forallb (fun o => negb (refills k o)) ops = true -> slot_of s k = Some (zeros 132) ->
  slot_of (final P s ops) k = Some (zeros 132).
Proof.
  induction ops as [|o ops IH]; intros s k Hf Hz; simpl in *; auto.
  apply andb_true_iff in Hf. destruct Hf as [H1 H2]. apply negb_true_iff in H1.
  apply IH; auto. apply step_keeps_zero; auto.
Qed.

(* ---- the history invariant *)
Definition logged (s : state) : list nat := map fst (siglog s).

Record wf (s : state) : Prop := {
  wf_len : length (ids s) = length (slots s);
  wf_ids_lt : forall i, In i (ids s) -> (i < next_id s)%nat;
  wf_log_lt : forall i, In i (logged s) -> (i < next_id s)%nat;
  wf_ids_nodup : NoDup (ids s);
  wf_log_nodup : NoDup (logged s);
  (* a slot whose generation event has already produced a signature is not loadable any more *)
  wf_dead : forall k sec, nth_error (slots s) k = Some sec -> In (slot_id s k) (logged s) -> secnonce_load P sec = None
}.

Lemma slot_id_in s k : (k < length (ids s))%nat -> In (slot_id s k) (ids s).
Proof. intros H. unfold slot_id. apply nth_In. auto. Qed.

Lemma wf_init slots0 rands0 : wf (init_state slots0 rands0).
Proof.
  constructor; simpl.
  - apply seq_length.
  - intros i Hi. apply in_seq in Hi. lia.
  - intros i [].
  - apply seq_NoDup.
  - constructor.
  - intros k sec _ [].
Qed.

Lemma wf_fill s k content rands' : wf s -> (k < length (slots s))%nat -> wf (fill s k content rands').
Proof.
  intros W Hk. destruct W. constructor; simpl.
  - rewrite !set_nth_length. auto.
  - intros i Hi. apply In_set_nth in Hi. destruct Hi as [->|Hi]; [lia|]. apply wf_ids_lt0 in Hi. lia.
  - intros i Hi. apply wf_log_lt0 in Hi. lia.
  - apply NoDup_set_nth_fresh; auto. intros Hi. apply wf_ids_lt0 in Hi. lia.
  - auto.
  - intros j sec Hj Hin. unfold slot_id in Hin. simpl in Hin.
    destruct (Nat.eq_dec j k) as [->|Hne].
    + rewrite nth_set_nth_eq in Hin by lia. apply wf_log_lt0 in Hin. lia.
    + rewrite nth_set_nth_neq in Hin by auto. rewrite nth_error_set_nth_neq in Hj by auto.
      eapply wf_dead0; eauto.
Qed.

Lemma wf_step s o : wf s -> wf (fst (step P s o)).
Proof.
  intros W. destruct o; simpl.
  - destruct slot as [k|]; simpl; auto. destruct (nth_error (slots s) k) eqn:E; simpl; auto.
    apply wf_fill; auto. eapply nth_error_lt; eauto.
  - destruct slot as [k|]; simpl; auto. destruct (nth_error (slots s) k) eqn:E; simpl; auto.
    apply wf_fill; auto. eapply nth_error_lt; eauto.
  - destruct slot as [k|]; simpl; auto. destruct (nth_error (slots s) k) as [sec|] eqn:E; simpl; auto.
    destruct (partial_sign_core P sec want_sig keypair cache session) as [[ret ill] sg] eqn:C. simpl.
    pose proof (nth_error_lt _ _ _ E) as Hk.
    destruct W. constructor; simpl; auto.
    + rewrite set_nth_length. auto.
    + destruct sg as [v|]; auto. unfold logged. simpl. intros i [<-|Hi]; auto.
      apply wf_ids_lt0. apply slot_id_in. lia.
    + destruct sg as [v|]; auto. unfold logged. simpl. constructor; auto.
      intros Hin. apply core_signs_loadable in C. destruct C as [C _]. apply C.
      eapply wf_dead0; eauto.
    + intros j sec' Hj Hin. destruct (Nat.eq_dec j k) as [->|Hne].
      * rewrite nth_error_set_nth_eq in Hj by auto. inversion Hj. apply secnonce_load_zeros.
      * rewrite nth_error_set_nth_neq in Hj by auto.
        assert (Hin' : In (slot_id s j) (logged s)).
        { destruct sg as [v|]; auto. unfold logged in Hin. simpl in Hin. destruct Hin as [Heq|]; auto.
          exfalso. unfold slot_id in Heq.
          pose proof (nth_error_lt _ _ _ Hj) as Hjl.
          apply (proj1 (NoDup_nth (ids s) O) wf_ids_nodup0) in Heq; try lia. }
        eapply wf_dead0; eauto.
  - destruct (nth_error (slots s) slot) eqn:E; simpl; auto.
    apply wf_fill; auto. eapply nth_error_lt; eauto.
Qed.

Lemma wf_final ops : forall s, wf s -> wf (final P s ops).
Proof. induction ops; intros s W; simpl; auto. apply IHops. apply wf_step. auto. Qed.

(* every signature that a step returns is logged under the identifier of the slot it was made from *)
Lemma step_sign_logged s k sec want kp c se :
  slot_of s k = Some sec ->
  let r := step P s (OSign (Some k) want kp c se) in
  (o_ret (snd r) = 1 ->
     exists v, siglog (fst r) = (slot_id s k, v) :: siglog s /\ o_sig (snd r) = Some (psig_save v)) /\
  (o_ret (snd r) <> 1 -> siglog (fst r) = siglog s /\ (o_sig (snd r) = None \/ o_sig (snd r) = Some (zeros 36))).
Proof.
  unfold slot_of. intros E. unfold step, get_slot. rewrite E.
  pose proof (core_ret_iff_sig sec want kp c se) as H.
  destruct (partial_sign_core P sec want kp c se) as [[ret ill] sg] eqn:C. simpl.
  destruct H as [H1 [H2 H3]]. split.
  - intros Hr. destruct ret; simpl in Hr; [|discriminate].
    destruct sg as [v|]; [|exfalso; apply (proj1 H1); auto].
    exists v. split; auto. apply core_signs_loadable in C. destruct C as [_ [_ [_ ->]]]. reflexivity.
  - intros Hr. destruct ret; simpl in Hr; [congruence|].
    destruct sg as [v|]. { exfalso. assert (false = true) by (apply H1; discriminate). discriminate. }
    split; auto. destruct want; auto.
Qed.

(* ---- nonce generation contract (about nonce_gen_sec / nonce_gen_counter_sec, hence about the step) *)
Lemma ng_secnonce_fail r : ng_ret r = false -> ng_secnonce r = zeros 132.
Proof. destruct r as [z|ok k1 k2 pk]; simpl; auto. intros ->. reflexivity. Qed.

Lemma nonce_gen_internal_done wp inp sk pko msg c ex ok k1 k2 pk :
  nonce_gen_internal P wp inp sk pko msg c ex = NgDone ok k1 k2 pk ->
  exists o, pko = Some o /\ pk_load o = Some pk.
Proof.
  unfold nonce_gen_internal. destruct wp; simpl; [|discriminate]. destruct pko as [o|]; [|discriminate].
  destruct (match c with Some c0 => _ | None => _ end); [|discriminate].
  destruct (pk_load o) as [pk'|] eqn:E; [|discriminate].
  destruct (nonce_fn_musig P inp msg sk (ser33 pk') o0 ex). intros H. inversion H; subst. eauto.
Qed.

Lemma skipn_68_secnonce k1 k2 pk : skipn 68 (secnonce_save k1 k2 pk) = pk_obj pk.
Proof.
  unfold secnonce_save, sc_to_b32.
  assert (L : length (magic_secnonce ++ be_enc 32 k1 ++ be_enc 32 k2) = 68%nat)
    by (rewrite !app_length, !be_enc_length; reflexivity).
  rewrite !app_assoc. rewrite <- (app_assoc magic_secnonce). rewrite <- L at 1. apply skipn_app_exact || idtac.
Abort.
End C13.
