(* Lemmas about the ECDSA model (Model/Ecdsa.v). *)
From Coq Require Import ZArith List Bool Lia.
Require Import Spec.Params Spec.Field Spec.Curve Spec.Bytes Spec.Sha256.
Require Import Model.Base Model.Der Model.Ecdsa Proofs.BytesLemmas.
Import ListNotations.
Local Open Scope Z_scope.
Ltac Zify.zify_post_hook ::= Z.div_mod_to_equations.

Section EcdsaProofs.
Variable P : Params.
Notation n := (cn P).
Notation p := (cp P).
Notation G := (Curve.G P).
Notation pmul := (Curve.pmul P).
Notation padd := (Curve.padd P).

(* coordinates produced by the group operations are reduced *)
Definition inr (Q : point) : Prop :=
  match Q with Some (x, y) => 0 <= x < p /\ 0 <= y < p | None => True end.

Hypothesis Hp : 0 < p.

Lemma pdbl_inr Q : inr (pdbl P Q).
Proof.
  destruct Q as [[x y]|]; simpl; [|exact I]. destruct (y =? 0); simpl; [exact I|].
  unfold msub. split; apply Z.mod_pos_bound; lia.
Qed.
Lemma padd_inr A B : inr A -> inr B -> inr (padd A B).
Proof.
  destruct A as [[x1 y1]|], B as [[x2 y2]|]; simpl; auto.
  intros HA HB. destruct (x1 =? x2).
  - destruct (y1 =? y2); [|exact I]. apply (pdbl_inr (Some (x1, y1))).
  - simpl. unfold msub. split; apply Z.mod_pos_bound; lia.
Qed.
Lemma pneg_inr A : inr A -> inr (pneg P A).
Proof. destruct A as [[x y]|]; simpl; auto. intros [H1 H2]. split; auto. unfold mneg. apply Z.mod_pos_bound; lia. Qed.
Lemma pmul_pos_inr k Q : inr Q -> inr (pmul_pos P k Q).
Proof.
  intros HQ. induction k; simpl; auto using pdbl_inr, padd_inr.
Qed.
Lemma pmul_inr k Q : inr Q -> inr (pmul k Q).
Proof. intros HQ. destruct k; simpl; auto using pmul_pos_inr, pneg_inr. Qed.

(* ---- verification ---- *)
Hypothesis Hn : 0 < n.
Hypothesis Hnp : n < p.
Hypothesis Hp2n : p < 2 * n.

Lemma two_compares_iff_mod x r : 0 <= x < p -> 0 <= r < n ->
  ((x = r \/ (r < p - n /\ x = r + n)) <-> x mod n = r).
Proof.
  intros Hx Hr. split.
  - intros [->|[H ->]].
    + apply Z.mod_small; lia.
    + replace (r + n) with (r + 1 * n) by lia. rewrite Z.mod_add by lia. apply Z.mod_small; lia.
  - intros H. assert (x = n * (x / n) + x mod n) by (apply Z.div_mod; lia).
    assert (0 <= x / n) by (apply Z.div_pos; lia).
    assert (x / n < 2) by (apply Z.div_lt_upper_bound; lia).
    assert (x / n = 0 \/ x / n = 1) as [E|E] by lia; rewrite E in *; lia.
Qed.

(* the point the verifier reconstructs *)
Definition verify_point (r s : Z) (Q : point) (m : Z) : point :=
  let sn := sc_inv P s in padd (pmul (sc_mul P sn r) Q) (pmul (sc_mul P sn m) G).

Lemma sig_verify_exact r s Q m : 0 <= r < n -> inr Q -> inr G ->
  sig_verify P r s Q m = true <->
  (r <> 0 /\ s <> 0 /\ exists x y, verify_point r s Q m = Some (x, y) /\ x mod n = r).
Proof.
  intros Hr HQ HG. unfold sig_verify, verify_point.
  destruct (r =? 0) eqn:Er; [split; [discriminate|intros [H _]; lia]|].
  destruct (s =? 0) eqn:Es; simpl; [split; [discriminate|intros [_ [H _]]; lia]|].
  set (R := padd _ _).
  assert (HR : inr R) by (apply padd_inr; apply pmul_inr; assumption).
  destruct R as [[x y]|].
  - destruct HR as [Hx _]. pose proof (two_compares_iff_mod x r Hx Hr) as T.
    split.
    + intros H. split; [lia|split; [lia|]]. exists x, y. split; [reflexivity|]. apply T.
      apply orb_true_iff in H. destruct H as [H|H]; [left; lia|right].
      apply andb_true_iff in H. lia.
    + intros [_ [_ [x' [y' [E H]]]]]. inversion E; subst x' y'. apply T in H.
      apply orb_true_iff. destruct H as [H|[H1 H2]]; [left; lia|right]. apply andb_true_iff. lia.
  - split; [discriminate|]. intros [_ [_ [x [y [E _]]]]]. discriminate.
Qed.

(* API level: exact acceptance condition, and no callback unless the key object is the zero object *)
Lemma ecdsa_verify_exact sigobj msg32 pkobj Q :
  pk_load pkobj = Some Q -> inr Q -> inr G -> 0 <= sig_obj_r sigobj < n ->
  let r := sig_obj_r sigobj in let s := sig_obj_s sigobj in let m := fst (sc_of_b32 P msg32) in
  (ecdsa_verify P sigobj msg32 pkobj = [AInt 1] <->
     (r <> 0 /\ s <> 0 /\ s <= n / 2 /\ exists x y, verify_point r s Q m = Some (x, y) /\ x mod n = r))
  /\ (ecdsa_verify P sigobj msg32 pkobj = [AInt 1] \/ ecdsa_verify P sigobj msg32 pkobj = [AInt 0]).
Proof.
  intros HL HQ HG Hr. cbv zeta. unfold ecdsa_verify. rewrite HL.
  unfold sc_is_high. destruct (n / 2 <? sig_obj_s sigobj) eqn:Eh.
  - split; [|right; reflexivity]. split; [discriminate|]. intros [_ [_ [H _]]]. lia.
  - pose proof (sig_verify_exact (sig_obj_r sigobj) (sig_obj_s sigobj) Q (fst (sc_of_b32 P msg32)) Hr HQ HG) as E.
    destruct (sig_verify P _ _ Q _) eqn:Ev; simpl.
    + split; [|left; reflexivity]. split; [intros _|reflexivity].
      destruct E as [E _]. destruct (E eq_refl) as [A [B C]]. repeat split; auto. lia.
    + split; [|right; reflexivity]. split; [discriminate|]. intros [A [B [_ C]]].
      destruct E as [_ E]. assert (X : false = true) by (apply E; auto). discriminate.
Qed.

(* an all-zero signature object never verifies, whatever message and key *)
Lemma zero_sig_never_verifies msg32 pkobj :
  ecdsa_verify P (zeros 64) msg32 pkobj = [AInt 0] \/ ecdsa_verify P (zeros 64) msg32 pkobj = [AInt 0; AIll 1].
Proof.
  unfold ecdsa_verify. assert (E0 : sig_obj_r (zeros 64) = 0) by reflexivity.
  assert (E1 : sig_obj_s (zeros 64) = 0) by reflexivity. rewrite E0, E1.
  destruct (sc_is_high P 0); [left; reflexivity|]. destruct (pk_load pkobj); [left|right; reflexivity].
  unfold sig_verify. reflexivity.
Qed.
(* more generally: r = 0 or s = 0 never verifies *)
Lemma zero_r_or_s_never_verifies sigobj msg32 pkobj :
  sig_obj_r sigobj = 0 \/ sig_obj_s sigobj = 0 ->
  ecdsa_verify P sigobj msg32 pkobj = [AInt 0] \/ ecdsa_verify P sigobj msg32 pkobj = [AInt 0; AIll 1].
Proof.
  intros H. unfold ecdsa_verify.
  destruct (sc_is_high P _); [left; reflexivity|]. destruct (pk_load pkobj); [left|right; reflexivity].
  unfold sig_verify. destruct H as [-> | ->]; [reflexivity|]. rewrite orb_true_r. reflexivity.
Qed.

(* ---- signing ---- *)
(* low-S: the s returned by sig_sign is never above n/2 (n odd) *)
Hypothesis Hnodd : n mod 2 = 1.
Lemma sig_sign_low_s d m k ok r s recid : sig_sign P d m k = (ok, r, s, recid) -> 0 <= s <= n / 2.
Proof.
  unfold sig_sign. destruct (pmul k G) as [[x y]|]; [|intros E; inversion E; lia].
  set (s0 := sc_mul P _ _). unfold sc_is_high.
  assert (Hs0 : 0 <= s0 < n) by (unfold s0, sc_mul, mmul; apply Z.mod_pos_bound; lia).
  destruct (n / 2 <? s0) eqn:Eh; intros E; inversion E; subst.
  - unfold sc_neg, mneg. assert (s0 <> 0) by lia.
    rewrite Z_mod_nz_opp_full by (rewrite Z.mod_small; lia). rewrite Z.mod_small by lia. lia.
  - lia.
Qed.

(* what a successful run of the retry loop means *)
Lemma sign_loop_ok fuel c kind msg32 seckey data d m r s recid :
  sign_loop P fuel c kind msg32 seckey data d m = SignOk r s recid ->
  exists c' nonce32 k, (c <= c')%nat /\ nonce_fn P kind msg32 seckey data c' = Some nonce32 /\
     seckey_of_b32 P nonce32 = Some k /\ sig_sign P d m k = (true, r, s, recid) /\
     (* no earlier attempt made the callback fail *)
     forall j, (c <= j < c')%nat -> nonce_fn P kind msg32 seckey data j <> None.
Proof.
  revert c. induction fuel as [|f IH]; intros c; simpl; [discriminate|].
  destruct (nonce_fn P kind msg32 seckey data c) as [nonce32|] eqn:En; [|discriminate].
  assert (Hrec : sign_loop P f (S c) kind msg32 seckey data d m = SignOk r s recid ->
     exists c' nonce32 k, (c <= c')%nat /\ nonce_fn P kind msg32 seckey data c' = Some nonce32 /\
       seckey_of_b32 P nonce32 = Some k /\ sig_sign P d m k = (true, r, s, recid) /\
       forall j, (c <= j < c')%nat -> nonce_fn P kind msg32 seckey data j <> None).
  { intros H. destruct (IH _ H) as [c' [nn [k [A [B [C [D E]]]]]]]. exists c', nn, k.
    repeat split; auto; try lia. intros j Hj. destruct (Nat.eq_dec j c) as [->|]; [congruence|apply E; lia]. }
  destruct (seckey_of_b32 P nonce32) as [k|] eqn:Ek; [|exact Hrec].
  destruct (sig_sign P d m k) as [[[ok r'] s'] recid'] eqn:Es. destruct ok; [|exact Hrec].
  intros H. inversion H; subst. exists c, nonce32, k. repeat split; auto. intros j Hj. lia.
Qed.

(* a failing callback at the first attempt that is reached ends the loop with failure *)
Lemma sign_loop_nonce_fail fuel c kind msg32 seckey data d m :
  nonce_fn P kind msg32 seckey data c = None ->
  sign_loop P (S fuel) c kind msg32 seckey data d m = SignFail.
Proof. intros H. simpl. rewrite H. reflexivity. Qed.

(* invalid key: never a signature, output object all-zero *)
Lemma sign_invalid_key kind msg32 seckey data :
  seckey_of_b32 P seckey = None ->
  ecdsa_sign P kind msg32 seckey data = [AInt 0; ABytes (zeros 64)] \/ ecdsa_sign P kind msg32 seckey data = abstain.
Proof.
  intros H. unfold ecdsa_sign, sign_inner. rewrite H.
  destruct (sign_loop P sign_fuel 0 kind msg32 seckey data 1 _); auto.
Qed.
Lemma sign_recoverable_invalid_key kind msg32 seckey data :
  seckey_of_b32 P seckey = None ->
  ecdsa_sign_recoverable P kind msg32 seckey data = [AInt 0; ABytes (zeros 65)] \/ ecdsa_sign_recoverable P kind msg32 seckey data = abstain.
Proof.
  intros H. unfold ecdsa_sign_recoverable, sign_inner. rewrite H.
  destruct (sign_loop P sign_fuel 0 kind msg32 seckey data 1 _); auto.
Qed.

(* every outcome of ecdsa_sign: either (1, non-trivial object) or (0, all-zero object) or abstain *)
Lemma sign_outcomes kind msg32 seckey data :
  (exists r s, ecdsa_sign P kind msg32 seckey data = [AInt 1; ABytes (sig_obj r s)] /\ 0 <= s <= n / 2)
  \/ ecdsa_sign P kind msg32 seckey data = [AInt 0; ABytes (zeros 64)]
  \/ ecdsa_sign P kind msg32 seckey data = abstain.
Proof.
  unfold ecdsa_sign, sign_inner.
  destruct (sign_loop P sign_fuel 0 kind msg32 seckey data _ _) as [r s recid| |] eqn:E; auto.
  destruct (seckey_of_b32 P seckey); auto.
  left. exists r, s. split; [reflexivity|].
  apply sign_loop_ok in E. destruct E as [c' [nn [k [_ [_ [_ [E _]]]]]]]. eapply sig_sign_low_s; eauto.
Qed.

(* the default nonce function only sees the message reduced modulo n *)
Lemma nonce_rfc6979_mod msg32 msg32' key32 algo data c :
  fst (sc_of_b32 P msg32) = fst (sc_of_b32 P msg32') ->
  nonce_rfc6979 P msg32 key32 algo data c = nonce_rfc6979 P msg32' key32 algo data c.
Proof. intros H. unfold nonce_rfc6979. rewrite H. reflexivity. Qed.

Lemma sign_loop_msg_mod fuel c kind msg32 msg32' seckey data d m :
  (kind = 0 \/ kind = 1) ->
  fst (sc_of_b32 P msg32) = fst (sc_of_b32 P msg32') ->
  sign_loop P fuel c kind msg32 seckey data d m = sign_loop P fuel c kind msg32' seckey data d m.
Proof.
  intros Hk H. revert c. induction fuel as [|f IH]; intros c; simpl; [reflexivity|].
  assert (E : nonce_fn P kind msg32 seckey data c = nonce_fn P kind msg32' seckey data c).
  { unfold nonce_fn. destruct Hk as [-> | ->]; simpl; f_equal; apply nonce_rfc6979_mod; assumption. }
  rewrite E. destruct (nonce_fn P kind msg32' seckey data c); [|reflexivity].
  destruct (seckey_of_b32 P b); [|apply IH].
  destruct (sig_sign P d m z) as [[[ok r] s] recid]. destruct ok; [reflexivity|apply IH].
Qed.

(* messages congruent modulo n get identical signatures with the RFC 6979 nonce function *)
Lemma sign_depends_on_msg_mod_n kind msg32 msg32' seckey data :
  (kind = 0 \/ kind = 1) ->
  fst (sc_of_b32 P msg32) = fst (sc_of_b32 P msg32') ->
  ecdsa_sign P kind msg32 seckey data = ecdsa_sign P kind msg32' seckey data.
Proof.
  intros Hk H. unfold ecdsa_sign, sign_inner. rewrite <- H.
  rewrite (sign_loop_msg_mod _ _ _ msg32 msg32') by assumption. reflexivity.
Qed.
End EcdsaProofs.
