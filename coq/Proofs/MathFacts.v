(* Mathematical premises about the curve constants (DESIGN.md 2.4).  These are facts about p, n, G
   and the chord-and-tangent law that no change of the C code can affect.  They are NOT axioms: every
   theorem that needs them takes [MathFacts P] as an explicit hypothesis. *)
From Coq Require Import ZArith List Bool Znumtheory.
Require Import Spec.Params Spec.Field Spec.Curve.
Local Open Scope Z_scope.

Definition oc (P : Params) (Q : point) : Prop := on_curve P Q = true.

Record MathFacts (P : Params) : Prop := {
  mf_p_prime : prime (cp P);
  mf_n_prime : prime (cn P);
  mf_p_3mod4 : cp P mod 4 = 3;
  mf_b : 0 <= cb P < cp P;
  mf_closed : forall A B, oc P A -> oc P B -> oc P (padd P A B);
  mf_assoc : forall A B C, oc P A -> oc P B -> oc P C -> padd P (padd P A B) C = padd P A (padd P B C);
  mf_comm : forall A B, oc P A -> oc P B -> padd P A B = padd P B A;
  mf_neg_oc : forall A, oc P A -> oc P (pneg P A);
  mf_neg : forall A, oc P A -> padd P A (pneg P A) = None;
  mf_G : oc P (G P) /\ G P <> None;
  mf_ord : pmul P (cn P) (G P) = None;
  (* the group of curve points has (prime) order n: cofactor 1 *)
  mf_cofactor : forall Q, oc P Q -> pmul P (cn P) Q = None
}.

(* Consequences of the primality of n and p for the Fermat-style inverse used by the model
   (minv m a = a^(m-2) mod m).  Kept separate so that it can be discharged from [mf_n_prime] /
   [mf_p_prime] by Fermat's little theorem (Proofs/Fermat.v) without touching the users. *)
Record InvFacts (P : Params) : Prop := {
  if_ninv : forall a, 0 < a < cn P -> (minv (cn P) a * a) mod (cn P) = 1;
  if_pinv : forall a, 0 < a < cp P -> (minv (cp P) a * a) mod (cp P) = 1
}.
