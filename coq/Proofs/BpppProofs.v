(* Lemmas about Model/Bppp.v (property C19). *)
From Coq Require Import ZArith List Bool Lia.
Require Import Spec.Params Spec.Field Spec.Curve Spec.Bytes Spec.Sha256 Model.Base Model.Bppp.
Import ListNotations.
Local Open Scope Z_scope.

(* ------------------------------------------------------------------ power of two / log2 *)
Lemma is_pow2_spec : forall x, is_pow2 x = true <-> exists k, 0 <= k /\ x = 2 ^ k.
Proof.
  intros x. unfold is_pow2. rewrite andb_true_iff, Z.ltb_lt, Z.eqb_eq. split.
  - intros [Hx Hl]. exists (Z.log2 x). split; [apply Z.log2_nonneg|].
    destruct (Z.log2_spec x Hx) as [Hlo Hhi].
    destruct (Z.eq_dec x (2 ^ Z.log2 x)) as [|Hne]; [assumption|exfalso].
    assert (Hb : Z.testbit (Z.land x (x - 1)) (Z.log2 x) = true).
    { rewrite Z.land_spec, Z.bit_log2 by assumption.
      assert (Hx1 : 0 < x - 1) by (pose proof (Z.pow_pos_nonneg 2 (Z.log2 x) ltac:(lia) (Z.log2_nonneg x)); lia).
      assert (Z.log2 (x - 1) = Z.log2 x) as E.
      { apply Z.log2_unique; [apply Z.log2_nonneg|]. rewrite Z.pow_succ_r in Hhi by apply Z.log2_nonneg.
        rewrite Z.pow_succ_r by apply Z.log2_nonneg. lia. }
      rewrite <- E. rewrite Z.bit_log2 by assumption. reflexivity. }
    rewrite Hl in Hb. rewrite Z.bits_0 in Hb. discriminate.
  - intros [k [Hk ->]]. split; [apply Z.pow_pos_nonneg; lia|].
    change (2 ^ k - 1) with (Z.pred (2 ^ k)). rewrite <- Z.ones_equiv, Z.land_ones by assumption.
    apply Z.mod_same. apply Z.pow_nonzero; lia.
Qed.

Lemma log2_pow2 : forall k, 0 <= k -> bppp_log2 (2 ^ k) = k.
Proof. intros. apply Z.log2_pow2. assumption. Qed.

(* ------------------------------------------------------------------ scratch *)
Lemma round_align_mul32 : forall k, round_align (k * 32) = k * 32.
Proof.
  intros k. unfold round_align. replace (k * 32 + 15) with (15 + (2 * k) * 16) by lia.
  rewrite Z.div_add by lia. replace (15 / 16) with 0 by reflexivity. lia.
Qed.

Lemma scratch_allocs4 : forall m a b c d,
  0 <= a -> 0 <= b -> 0 <= c -> 0 <= d ->
  scratch_allocs m 0 [a * 32; b * 32; c * 32; d * 32] = (32 * (a + b + c + d) <=? m).
Proof.
  intros m a b c d Ha Hb Hc Hd. unfold scratch_allocs, scratch_alloc. rewrite !round_align_mul32.
  destruct (m - 0 <? a * 32) eqn:E1; [apply Z.ltb_lt in E1; symmetry; apply Z.leb_gt; lia|apply Z.ltb_ge in E1].
  destruct (m - (0 + a * 32) <? b * 32) eqn:E2; [apply Z.ltb_lt in E2; symmetry; apply Z.leb_gt; lia|apply Z.ltb_ge in E2].
  destruct (m - (0 + a * 32 + b * 32) <? c * 32) eqn:E3; [apply Z.ltb_lt in E3; symmetry; apply Z.leb_gt; lia|apply Z.ltb_ge in E3].
  destruct (m - (0 + a * 32 + b * 32 + c * 32) <? d * 32) eqn:E4; [apply Z.ltb_lt in E4; symmetry; apply Z.leb_gt; lia|apply Z.ltb_ge in E4].
  symmetry; apply Z.leb_le; lia.
Qed.

(* ------------------------------------------------------------------ bytes *)
Lemma be_enc_length : forall k x, length (be_enc k x) = k.
Proof. induction k; intros; simpl; [reflexivity|]. rewrite app_length, IHk. simpl. lia. Qed.

Lemma is_zero_bytes_app : forall a b, is_zero_bytes (a ++ b) = is_zero_bytes a && is_zero_bytes b.
Proof. intros. unfold is_zero_bytes. apply forallb_app. Qed.

Lemma be_enc_zero : forall k x, is_zero_bytes (be_enc k x) = true -> x mod 256 ^ Z.of_nat k = 0.
Proof.
  induction k; intros x H.
  - simpl. apply Z.mod_1_r.
  - simpl be_enc in H. rewrite is_zero_bytes_app, andb_true_iff in H. destruct H as [H1 H2].
    apply IHk in H1. simpl in H2. rewrite andb_true_r in H2. apply Z.eqb_eq in H2.
    rewrite Nat2Z.inj_succ, Z.pow_succ_r by lia.
    assert (0 < 256 ^ Z.of_nat k) by (apply Z.pow_pos_nonneg; lia).
    rewrite Z.rem_mul_r by lia. rewrite H2, H1. lia.
Qed.

Lemma is_zero_bytes_zeros : forall k, is_zero_bytes (zeros k) = true.
Proof. induction k; simpl; [reflexivity|assumption]. Qed.

(* ------------------------------------------------------------------ folding halves the lengths *)
Lemma pairs_length : forall {A} m (l : list A), length l = (2 * m)%nat -> length (pairs l) = m.
Proof.
  intros A. induction m; intros l H.
  - destruct l; [reflexivity|discriminate].
  - destruct l as [|a [|b r]]; simpl in H; try lia.
    unfold pairs. cbn [evens odds combine length]. f_equal. apply IHm. lia.
Qed.

Lemma fold_pairs_length : forall {A} (f : A * A -> A) k (l : list A),
  length l = (2 ^ k)%nat -> length (fold_pairs f l) = (2 ^ (Nat.pred k))%nat.
Proof.
  intros A f k l H. destruct k.
  - simpl in *. destruct l as [|a [|b r]]; simpl in *; try lia; try reflexivity.
  - assert (H2 : length l = (2 * 2 ^ k)%nat) by (rewrite H; simpl; lia).
    assert (0 < 2 ^ k)%nat by (apply Nat.neq_0_lt_0; apply Nat.pow_nonzero; lia).
    destruct l as [|a [|b r]]; simpl in H2; try lia.
    unfold fold_pairs. rewrite map_length. apply pairs_length. exact H2.
Qed.

Lemma sc_to_b32_length : forall s, length (sc_to_b32 s) = 32%nat.
Proof. intros. unfold sc_to_b32. apply be_enc_length. Qed.

Section BpppProofs.
Variable P : Params.

(* ------------------------------------------------------------------ verifier: what the checks establish *)
Definition needed_scratch (g_len h_len : Z) : Z :=
  32 * (Z.max (Z.log2 g_len) (Z.log2 h_len) + g_len + h_len + Z.log2 g_len).

Lemma verify_pre_some : forall sm proof rho ng g h nn ll lg nr,
  verify_pre P sm proof rho ng g h = Some (nn, ll, lg, nr) ->
  g <> 0 /\ h <> 0 /\ lg = Z.log2 g /\ nr = Z.max (Z.log2 g) (Z.log2 h) /\
  ng = h + g /\ Z.of_nat (length proof) = 65 * nr + 64 /\
  is_pow2 g = true /\ is_pow2 h = true /\
  sc_of_b32 P (slice (Z.to_nat (nr * 65)) 32 proof) = (nn, false) /\
  sc_of_b32 P (slice (Z.to_nat (nr * 65 + 32)) 32 proof) = (ll, false) /\
  rho <> 0 /\
  scratch_allocs sm 0 [nr * 32; g * 32; h * 32; lg * 32] = true.
Proof.
  intros sm proof rho ng g h nn ll lg nr. unfold verify_pre, bppp_log2, sizeof_scalar.
  set (NR := Z.max (Z.log2 g) (Z.log2 h)).
  destruct ((g =? 0) || (h =? 0)) eqn:E1; [discriminate|].
  destruct (negb (ng =? h + g) || negb (Z.of_nat (length proof) =? 65 * NR + 64)) eqn:E2; [discriminate|].
  destruct (negb (is_pow2 g) || negb (is_pow2 h)) eqn:E3; [discriminate|].
  destruct (sc_of_b32 P (slice (Z.to_nat (NR * 65)) 32 proof)) as [n1 o1] eqn:E4. cbn [fst snd].
  destruct o1; [discriminate|].
  destruct (sc_of_b32 P (slice (Z.to_nat (NR * 65 + 32)) 32 proof)) as [l1 o2] eqn:E5. cbn [fst snd].
  destruct o2; [discriminate|].
  destruct (rho =? 0) eqn:E6; [discriminate|].
  destruct (negb (scratch_allocs sm 0 [NR * 32; g * 32; h * 32; Z.log2 g * 32])) eqn:E7; [discriminate|].
  intros H. injection H as <- <- <- <-.
  apply orb_false_iff in E1, E2, E3. destruct E1 as [A1 A2], E2 as [B1 B2], E3 as [C1 C2].
  apply negb_false_iff in B1, B2, C1, C2, E7.
  apply Z.eqb_neq in A1, A2, E6. apply Z.eqb_eq in B1, B2.
  repeat split; auto.
Qed.

Lemma verify_true_inv : forall sm proof tr rho gens g cv C,
  norm_verify P sm proof tr rho gens g cv C = true ->
  exists nn ll lg nr xr,
    verify_pre P sm proof rho (Z.of_nat (length gens)) g (Z.of_nat (length cv)) = Some (nn, ll, lg, nr) /\
    verify_points P proof (Z.to_nat nr) = Some xr /\
    verify_equation P proof tr rho gens cv C nn ll lg nr xr = true.
Proof.
  intros until C. unfold norm_verify.
  destruct (verify_pre P sm proof rho (Z.of_nat (length gens)) g (Z.of_nat (length cv))) as [[[[nn ll] lg] nr]|] eqn:E1; [|discriminate].
  destruct (verify_points P proof (Z.to_nat nr)) as [xr|] eqn:E2; [|discriminate].
  intros H. exists nn, ll, lg, nr, xr. repeat split; assumption.
Qed.

(* verification returns 1 exactly when every check passes and the final equation holds *)
Lemma verify_eq_spec : forall sm proof tr rho gens g cv C,
  norm_verify P sm proof tr rho gens g cv C = true <->
  exists nn ll lg nr xr,
    verify_pre P sm proof rho (Z.of_nat (length gens)) g (Z.of_nat (length cv)) = Some (nn, ll, lg, nr) /\
    verify_points P proof (Z.to_nat nr) = Some xr /\
    verify_equation P proof tr rho gens cv C nn ll lg nr xr = true.
Proof.
  intros. split; [apply verify_true_inv|].
  intros (nn & ll & lg & nr & xr & H1 & H2 & H3). unfold norm_verify. rewrite H1, H2. exact H3.
Qed.

Ltac reject :=
  apply not_true_is_false; intros Hacc;
  apply verify_true_inv in Hacc; destruct Hacc as (nn & ll & lg & nr & xr & Hpre & Hpts & Heq);
  apply verify_pre_some in Hpre;
  destruct Hpre as (Hg & Hh & Hlg & Hnr & Hng & Hlen & Hpg & Hph & Hn & Hl & Hrho & Hscr).

Definition rounds_of (g_len : Z) (cv : list Z) : Z := Z.max (Z.log2 g_len) (Z.log2 (Z.of_nat (length cv))).

Lemma verify_rejects_length : forall sm proof tr rho gens g cv C,
  Z.of_nat (length proof) <> 65 * rounds_of g cv + 64 ->
  norm_verify P sm proof tr rho gens g cv C = false.
Proof. intros until C. intros H. reject. subst nr. apply H. exact Hlen. Qed.

Lemma verify_rejects_empty : forall sm proof tr rho gens g cv C,
  g = 0 \/ cv = [] -> norm_verify P sm proof tr rho gens g cv C = false.
Proof. intros until C. intros H. reject. destruct H as [H|H]; [auto|]. subst cv. apply Hh. reflexivity. Qed.

Lemma verify_rejects_non_pow2 : forall sm proof tr rho gens g cv C,
  (~ exists k, 0 <= k /\ g = 2 ^ k) \/ (~ exists k, 0 <= k /\ Z.of_nat (length cv) = 2 ^ k) ->
  norm_verify P sm proof tr rho gens g cv C = false.
Proof.
  intros until C. intros H. reject.
  destruct H as [H|H]; apply H; apply is_pow2_spec; assumption.
Qed.

Lemma verify_rejects_gen_count : forall sm proof tr rho gens g cv C,
  Z.of_nat (length gens) <> g + Z.of_nat (length cv) ->
  norm_verify P sm proof tr rho gens g cv C = false.
Proof. intros until C. intros H. reject. lia. Qed.

Lemma verify_rejects_rho_zero : forall sm proof tr gens g cv C,
  norm_verify P sm proof tr 0 gens g cv C = false.
Proof. intros. reject. apply Hrho. reflexivity. Qed.

(* the two final scalars are the 32-byte strings at offsets 65*rounds and 65*rounds+32 *)
Lemma verify_rejects_scalar_ge_n : forall sm proof tr rho gens g cv C,
  cn P <= be_val (slice (Z.to_nat (65 * rounds_of g cv)) 32 proof) \/
  cn P <= be_val (slice (Z.to_nat (65 * rounds_of g cv + 32)) 32 proof) ->
  norm_verify P sm proof tr rho gens g cv C = false.
Proof.
  intros until C. intros H. reject. unfold rounds_of in H. rewrite <- Hnr in H.
  unfold sc_of_b32 in Hn, Hl. injection Hn as _ Hn. injection Hl as _ Hl.
  apply Z.leb_gt in Hn, Hl.
  replace (nr * 65) with (65 * nr) in * by lia. lia.
Qed.

Lemma sequence_some_nth : forall {A} (l : list (option A)) r,
  sequence l = Some r -> forall i, (i < length l)%nat -> nth i l None <> None.
Proof.
  induction l as [|[a|] l IH]; intros r H i Hi; simpl in *; try lia; try discriminate.
  destruct (sequence l) eqn:E; [|discriminate]. destruct i; [discriminate|]. eapply IH; [reflexivity|lia].
Qed.

Lemma parse_idx_norm : forall in65 idx,
  parse_one_of_points P in65 idx = parse_one_of_points P in65 (if idx =? 0 then 0 else 1).
Proof. intros. unfold parse_one_of_points. destruct (idx =? 0); reflexivity. Qed.

Lemma verify_points_some : forall proof nr xr i idx,
  verify_points P proof nr = Some xr -> (i < nr)%nat ->
  parse_one_of_points P (slice (65 * i) 65 proof) idx <> None.
Proof.
  intros proof nr xr i idx H Hi. unfold verify_points in H.
  pose proof (sequence_some_nth _ _ H i) as Hn. rewrite map_length, seq_length in Hn. specialize (Hn Hi).
  set (f := fun i0 : nat => _) in *.
  rewrite (nth_indep _ None (f 0%nat)) in Hn by (rewrite map_length, seq_length; exact Hi).
  rewrite map_nth, seq_nth in Hn by exact Hi. simpl in Hn. subst f. cbv beta in Hn.
  intros Hbad. rewrite parse_idx_norm in Hbad.
  destruct (idx =? 0); rewrite Hbad in Hn.
  - apply Hn. reflexivity.
  - destruct (parse_one_of_points P (slice (65 * i) 65 proof) 0); apply Hn; reflexivity.
Qed.

(* an X (idx = 0) or R (idx = 1) encoding of some round that does not parse *)
Lemma verify_rejects_bad_point : forall sm proof tr rho gens g cv C i idx,
  0 <= i < rounds_of g cv ->
  parse_one_of_points P (slice (65 * Z.to_nat i) 65 proof) idx = None ->
  norm_verify P sm proof tr rho gens g cv C = false.
Proof.
  intros until idx. intros Hi Hbad. reject.
  unfold rounds_of in Hi. rewrite <- Hnr in Hi.
  eapply verify_points_some; [exact Hpts| |exact Hbad]. lia.
Qed.

(* ------------------------------------------------------------------ the 65-byte codec *)
Lemma parse_sign_byte_gt_3 : forall in65 idx, 3 < hd 0 in65 -> parse_one_of_points P in65 idx = None.
Proof. intros in65 idx H. unfold parse_one_of_points. apply Z.ltb_lt in H. rewrite H. reflexivity. Qed.

Lemma verify_rejects_sign_byte_gt_3 : forall sm proof tr rho gens g cv C i,
  0 <= i < rounds_of g cv ->
  3 < nth (65 * Z.to_nat i) proof 0 ->
  norm_verify P sm proof tr rho gens g cv C = false.
Proof.
  intros until i. intros Hi Hb. eapply verify_rejects_bad_point with (idx := 0); [exact Hi|].
  apply parse_sign_byte_gt_3. unfold slice.
  assert (E : forall (l : list Z) k, hd 0 (firstn 65 (skipn k l)) = nth k l 0).
  { intros l k. revert l. induction k; intros l; destruct l; cbn [skipn nth]; auto. }
  rewrite E. exact Hb.
Qed.

(* an all-zero x coordinate (point at infinity) whose sign bit is set *)
Lemma parse_infinity_with_sign : forall in65 idx,
  let i := if idx =? 0 then 0 else 1 in
  is_zero_bytes (slice (Z.to_nat (1 + 32 * i)) 32 in65) = true ->
  Z.land (hd 0 in65) (2 - i) <> 0 ->
  parse_one_of_points P in65 idx = None.
Proof.
  intros in65 idx i Hz Hs. unfold parse_one_of_points. fold i.
  destruct (3 <? hd 0 in65); [reflexivity|]. rewrite Hz. cbn [negb].
  apply Z.eqb_neq in Hs. rewrite Hs. reflexivity.
Qed.

Lemma verify_rejects_infinity_with_sign : forall sm proof tr rho gens g cv C i idx,
  0 <= i < rounds_of g cv ->
  let in65 := slice (65 * Z.to_nat i) 65 proof in
  let j := if idx =? 0 then 0 else 1 in
  is_zero_bytes (slice (Z.to_nat (1 + 32 * j)) 32 in65) = true ->
  Z.land (hd 0 in65) (2 - j) <> 0 ->
  norm_verify P sm proof tr rho gens g cv C = false.
Proof.
  intros until idx. intros Hi in65 j Hz Hs. eapply verify_rejects_bad_point with (idx := idx); [exact Hi|].
  apply parse_infinity_with_sign; [exact Hz|exact Hs].
Qed.

(* fail closed on a scratch space that cannot hold the verifier's four vectors; any scratch space
   that can hold them gives the same verdict *)
Lemma verify_rejects_small_scratch : forall sm proof tr rho gens g cv C,
  sm < needed_scratch g (Z.of_nat (length cv)) ->
  norm_verify P sm proof tr rho gens g cv C = false.
Proof.
  intros until C. intros H. reject.
  apply is_pow2_spec in Hpg, Hph. destruct Hpg as [kg [Hkg Eg]], Hph as [kh [Hkh Eh]].
  subst lg nr. rewrite scratch_allocs4 in Hscr.
  - apply Z.leb_le in Hscr. unfold needed_scratch in H. lia.
  - pose proof (Z.log2_nonneg g). pose proof (Z.log2_nonneg (Z.of_nat (length cv))). lia.
  - lia.
  - lia.
  - apply Z.log2_nonneg.
Qed.

Lemma verify_pre_scratch_irrelevant : forall sm sm' proof rho ng g h,
  needed_scratch g h <= sm -> needed_scratch g h <= sm' ->
  verify_pre P sm proof rho ng g h = verify_pre P sm' proof rho ng g h.
Proof.
  intros sm sm' proof rho ng g h H1 H2. unfold verify_pre, bppp_log2, sizeof_scalar.
  destruct ((g =? 0) || (h =? 0)); [reflexivity|].
  destruct (negb (ng =? h + g) || _); [reflexivity|].
  destruct (negb (is_pow2 g) || negb (is_pow2 h)) eqn:E; [reflexivity|].
  apply orb_false_iff in E. destruct E as [Eg Eh]. apply negb_false_iff in Eg, Eh.
  apply is_pow2_spec in Eg, Eh. destruct Eg as [kg [Hkg Eg]], Eh as [kh [Hkh Eh]].
  destruct (snd _); [reflexivity|]. destruct (snd _); [reflexivity|]. destruct (rho =? 0); [reflexivity|].
  assert (0 <= Z.log2 g) by apply Z.log2_nonneg. assert (0 <= Z.log2 h) by apply Z.log2_nonneg.
  rewrite !scratch_allocs4 by lia. unfold needed_scratch in *.
  replace (32 * (Z.max (Z.log2 g) (Z.log2 h) + g + h + Z.log2 g) <=? sm) with true by (symmetry; apply Z.leb_le; lia).
  replace (32 * (Z.max (Z.log2 g) (Z.log2 h) + g + h + Z.log2 g) <=? sm') with true by (symmetry; apply Z.leb_le; lia).
  reflexivity.
Qed.

Lemma verify_scratch_irrelevant : forall sm sm' proof tr rho gens g cv C,
  needed_scratch g (Z.of_nat (length cv)) <= sm -> needed_scratch g (Z.of_nat (length cv)) <= sm' ->
  norm_verify P sm proof tr rho gens g cv C = norm_verify P sm' proof tr rho gens g cv C.
Proof.
  intros. unfold norm_verify. rewrite (verify_pre_scratch_irrelevant sm sm') by assumption. reflexivity.
Qed.

(* the pair codec is two independent ge_serialize_ext / ge_parse_ext codecs sharing one sign byte *)
Definition codec_wf (Q : point) : Prop :=
  match Q with None => True | Some (x, y) => 0 < x < 2 ^ 256 end.

Lemma ser33_length : forall Q, length (ser33 Q) = 33%nat.
Proof. intros [[x y]|]; [unfold ser33, fe_to_b32; cbn [length]; rewrite be_enc_length; reflexivity|reflexivity]. Qed.

Lemma serialize_points_length : forall X R, length (serialize_points X R) = 65%nat.
Proof.
  intros X R. unfold serialize_points, ge_serialize_ext. simpl length. rewrite app_length.
  pose proof (ser33_length X). pose proof (ser33_length R).
  destruct (ser33 X), (ser33 R); simpl in *; try discriminate. lia.
Qed.

Lemma serialize_points_sign_le_3 : forall X R, 0 <= hd 0 (serialize_points X R) <= 3.
Proof.
  intros X R. unfold serialize_points, ge_serialize_ext. cbn [hd].
  assert (H : forall Q, Z.land (hd 0 (ser33 Q)) 1 = 0 \/ Z.land (hd 0 (ser33 Q)) 1 = 1).
  { intros [[x y]|]; simpl; [destruct (Z.odd y); auto|auto]. }
  destruct (H X) as [-> | ->], (H R) as [-> | ->]; simpl; lia.
Qed.

Lemma fe_nonzero_bytes : forall x, 0 < x < 2 ^ 256 -> is_zero_bytes (fe_to_b32 x) = false.
Proof.
  intros x Hx. unfold fe_to_b32. destruct (is_zero_bytes (be_enc 32 x)) eqn:E; [|reflexivity].
  apply be_enc_zero in E. change (256 ^ Z.of_nat 32) with (2 ^ 256) in E.
  rewrite Z.mod_small in E by lia. lia.
Qed.

Lemma slice_app_l : forall (a b : bytes) k, length a = k -> slice 0 k (a ++ b) = a.
Proof. intros a b k H. unfold slice. simpl. rewrite firstn_app, H, Nat.sub_diag, firstn_O, app_nil_r, <- H. apply firstn_all. Qed.

Lemma slice_app_r : forall (a b c : bytes) k, length a = k -> slice k (length b) (a ++ b ++ c) = b.
Proof.
  intros a b c k H. unfold slice. rewrite skipn_app, H, Nat.sub_diag. simpl skipn at 2.
  rewrite <- H, skipn_all. simpl. rewrite firstn_app, Nat.sub_diag, firstn_O, app_nil_r. apply firstn_all.
Qed.

Lemma points_codec : forall X R,
  codec_wf X -> codec_wf R ->
  parse_one_of_points P (serialize_points X R) 0 = ge_parse_ext P (ge_serialize_ext X) /\
  parse_one_of_points P (serialize_points X R) 1 = ge_parse_ext P (ge_serialize_ext R).
Proof.
  intros X R HX HR.
  assert (Hz : ge_parse_ext P (zeros 33) = Some None) by reflexivity.
  unfold parse_one_of_points, serialize_points, ge_serialize_ext.
  change (0 =? 0) with true. change (1 =? 0) with false. cbv iota.
  change (Z.to_nat (1 + 32 * 0)) with 1%nat. change (Z.to_nat (1 + 32 * 1)) with 33%nat.
  cbn [hd].
  assert (HlX : length (tl (ser33 X)) = 32%nat) by (pose proof (ser33_length X); destruct (ser33 X); simpl in *; lia).
  assert (HlR : length (tl (ser33 R)) = 32%nat) by (pose proof (ser33_length R); destruct (ser33 R); simpl in *; lia).
  assert (S1 : forall b0, slice 1 32 (b0 :: tl (ser33 X) ++ tl (ser33 R)) = tl (ser33 X)).
  { intros b0. change (slice 1 32 (b0 :: ?l)) with (slice 0 32 l). apply slice_app_l. exact HlX. }
  assert (S2 : forall b0, slice 33 32 (b0 :: tl (ser33 X) ++ tl (ser33 R)) = tl (ser33 R)).
  { intros b0. change (slice 33 32 (b0 :: ?l)) with (slice 32 32 l).
    rewrite <- (app_nil_r (tl (ser33 R))) at 1. rewrite <- HlR at 2. apply slice_app_r. exact HlX. }
  rewrite S1, S2.
  destruct X as [[x y]|], R as [[x' y']|]; cbn [ser33 hd tl codec_wf] in *;
    repeat rewrite fe_nonzero_bytes by assumption; cbn [negb];
    change (is_zero_bytes (zeros 32)) with true; cbn [negb].
  - destruct (Z.odd y), (Z.odd y'); split; reflexivity.
  - destruct (Z.odd y); split; reflexivity.
  - destruct (Z.odd y'); split; reflexivity.
  - split; reflexivity.
Qed.

(* ------------------------------------------------------------------ generator lists *)
Lemma gens_from_prefix : forall m k d, (m <= k)%nat -> firstn m (gens_from P d k) = gens_from P d m.
Proof.
  induction m; intros k d H; [reflexivity|].
  destruct k; [lia|]. simpl. f_equal. apply IHm. lia.
Qed.

Lemma generators_prefix_consistent : forall m k, (m <= k)%nat -> firstn m (gens_create P k) = gens_create P m.
Proof. intros. apply gens_from_prefix. assumption. Qed.

Lemma gens_from_length : forall k d, length (gens_from P d k) = k.
Proof. induction k; intros; simpl; [reflexivity|]. rewrite IHk. reflexivity. Qed.

Lemma sequence_firstn : forall {A} (l : list (option A)) r m,
  sequence l = Some r -> sequence (firstn m l) = Some (firstn m r).
Proof.
  induction l as [|[a|] l IH]; intros r m H; simpl in H.
  - injection H as <-. destruct m; reflexivity.
  - destruct (sequence l) eqn:E; [|discriminate]. injection H as <-.
    destruct m; [reflexivity|]. simpl. rewrite (IH l0 m eq_refl). reflexivity.
  - discriminate.
Qed.

Lemma sequence_length : forall {A} (l : list (option A)) r, sequence l = Some r -> length r = length l.
Proof.
  induction l as [|[a|] l IH]; intros r H; simpl in H.
  - injection H as <-. reflexivity.
  - destruct (sequence l) eqn:E; [|discriminate]. injection H as <-. simpl. f_equal. apply IH. reflexivity.
  - discriminate.
Qed.

(* API level: whenever the longer list is derived without abstaining, so is the shorter one, and it
   is the prefix *)
Lemma generators_prefix_consistent_api : forall m k l,
  (m <= k)%nat -> sequence (gens_create P k) = Some l ->
  sequence (gens_create P m) = Some (firstn m l).
Proof.
  intros m k l H Hs. rewrite <- (generators_prefix_consistent m k H). apply sequence_firstn. exact Hs.
Qed.

Lemma bp_gen_ser1_length : forall Q, length (bp_gen_ser1 P Q) = 33%nat.
Proof. intros [[x y]|]; [unfold bp_gen_ser1, fe_to_b32; cbn [length]; rewrite be_enc_length; reflexivity|reflexivity]. Qed.

Lemma gens_serialize_length : forall l, length (gens_serialize P l) = (33 * length l)%nat.
Proof.
  induction l; simpl; [reflexivity|]. unfold gens_serialize in *. simpl. rewrite app_length, IHl, bp_gen_ser1_length. lia.
Qed.

Lemma gens_serialize_prefix : forall m l,
  gens_serialize P (firstn m l) = firstn (33 * m) (gens_serialize P l).
Proof.
  induction m; intros l; [reflexivity|]. destruct l as [|a l]; [reflexivity|].
  unfold gens_serialize in *. cbn [firstn flat_map].
  replace (33 * S m)%nat with (length (bp_gen_ser1 P a) + 33 * m)%nat by (rewrite bp_gen_ser1_length; lia).
  rewrite firstn_app_2. f_equal. apply IHm.
Qed.

Lemma chunks_flat_map : forall (f : point -> bytes) l fuel,
  (forall Q, length (f Q) = 33%nat) -> (length l < fuel)%nat ->
  chunks_f fuel 33 (flat_map f l) = map f l.
Proof.
  intros f l. induction l as [|a l IH]; intros fuel Hf Hfuel.
  - destruct fuel; [lia|reflexivity].
  - destruct fuel; [simpl in Hfuel; lia|]. cbn [flat_map map chunks_f].
    destruct (f a ++ flat_map f l) eqn:E.
    { pose proof (Hf a) as Ha. apply (f_equal (@length Z)) in E. rewrite app_length, Ha in E. simpl in E. lia. }
    rewrite <- E. rewrite <- (Hf a) at 1 3. rewrite firstn_app, Nat.sub_diag, firstn_O, app_nil_r, firstn_all.
    rewrite skipn_app, Nat.sub_diag, skipn_all. simpl. f_equal. apply IH; [assumption|simpl in Hfuel; lia].
Qed.

Lemma sequence_map_some : forall {A B} (f : A -> option B) (g : A -> B) l,
  (forall a, In a l -> f a = Some (g a)) -> sequence (map f l) = Some (map g l).
Proof.
  induction l as [|a l IH]; intros H; [reflexivity|]. simpl. rewrite (H a (or_introl eq_refl)).
  rewrite IH by (intros; apply H; right; assumption). reflexivity.
Qed.

(* round trip of a list, given the round trip of each of its members.  The member-level premise
   (parse1 (ser1 Q) = Some Q for a curve point Q) is a fact about square roots modulo p: the candidate
   root a^((p+1)/4) is the square one of the two roots (Euler's criterion, p = 3 mod 4); it is not
   derived here. *)
Lemma generators_roundtrip_partial : forall l,
  (forall Q, In Q l -> bp_gen_parse1 P (bp_gen_ser1 P Q) = Some Q) ->
  gens_parse P (gens_serialize P l) = (Some l, 2).
Proof.
  intros l H. unfold gens_parse. rewrite gens_serialize_length, Nat2Z.inj_mul.
  rewrite Z.mul_comm, Z.mod_mul by lia. change (negb (0 =? 0)) with false. cbv iota.
  unfold gens_parse_list, chunks, gens_serialize.
  rewrite chunks_flat_map; [|apply bp_gen_ser1_length|].
  - rewrite map_map. rewrite (sequence_map_some _ (fun Q => Q)) by exact H. rewrite map_id. reflexivity.
  - fold (gens_serialize P l). rewrite gens_serialize_length. lia.
Qed.

(* a rejected encoding leaves no allocation behind; wrong lengths are rejected before allocating *)
Lemma parse_rejects_malformed_without_leak : forall data,
  fst (gens_parse P data) = None -> snd (gens_parse P data) = 0.
Proof.
  intros data. unfold gens_parse. destruct (negb _); [reflexivity|].
  destruct (gens_parse_list P data); [discriminate|reflexivity].
Qed.

Lemma parse_rejects_bad_length : forall data,
  Z.of_nat (length data) mod 33 <> 0 -> gens_parse P data = (None, 0).
Proof. intros data H. unfold gens_parse. apply Z.eqb_neq in H. rewrite H. reflexivity. Qed.

Lemma sequence_none : forall {A} (l : list (option A)) i, nth i l (None) = None -> (i < length l)%nat -> sequence l = None.
Proof.
  induction l as [|[a|] l IH]; intros i H Hi; simpl in *; try lia; [|reflexivity].
  destruct i; [discriminate|]. rewrite (IH i H) by lia. reflexivity.
Qed.

Lemma parse_rejects_bad_member : forall data i,
  (i < length (chunks 33 data))%nat ->
  bp_gen_parse1 P (nth i (chunks 33 data) []) = None ->
  fst (gens_parse P data) = None.
Proof.
  intros data i Hi H. unfold gens_parse. destruct (negb _); [reflexivity|].
  unfold gens_parse_list. rewrite (sequence_none _ i); [reflexivity| |rewrite map_length; exact Hi].
  rewrite (nth_indep _ None (bp_gen_parse1 P [])) by (rewrite map_length; exact Hi).
  rewrite map_nth. exact H.
Qed.

(* ------------------------------------------------------------------ prover: length, totality *)
Lemma prove_loop_length : forall fuel tr rho_f mu_f gv hv nv lv cv acc pf ka kb,
  length nv = (2 ^ ka)%nat -> length lv = (2 ^ kb)%nat ->
  prove_loop P fuel tr rho_f mu_f gv hv nv lv cv acc = Some pf ->
  length pf = (length acc + 65 * Nat.max ka kb + 64)%nat.
Proof.
  induction fuel; intros tr rho_f mu_f gv hv nv lv cv acc pf ka kb Hn Hl H.
  - cbn [prove_loop] in H.
    destruct ((length nv <=? 1)%nat && (length lv <=? 1)%nat) eqn:E; [|discriminate].
    apply andb_true_iff in E. destruct E as [E1 E2]. apply Nat.leb_le in E1, E2.
    assert (ka = 0%nat) by (destruct ka; [reflexivity|]; rewrite Hn in E1; simpl in E1; pose proof (Nat.pow_nonzero 2 ka); lia).
    assert (kb = 0%nat) by (destruct kb; [reflexivity|]; rewrite Hl in E2; simpl in E2; pose proof (Nat.pow_nonzero 2 kb); lia).
    subst. assert (Hpf : pf = acc ++ sc_to_b32 (hd 0 nv) ++ sc_to_b32 (hd 0 lv)) by congruence. rewrite Hpf, !app_length, !sc_to_b32_length. simpl. lia.
  - cbn [prove_loop] in H.
    destruct ((length nv <=? 1)%nat && (length lv <=? 1)%nat) eqn:E.
    + apply andb_true_iff in E. destruct E as [E1 E2]. apply Nat.leb_le in E1, E2.
      assert (ka = 0%nat) by (destruct ka; [reflexivity|]; rewrite Hn in E1; simpl in E1; pose proof (Nat.pow_nonzero 2 ka); lia).
      assert (kb = 0%nat) by (destruct kb; [reflexivity|]; rewrite Hl in E2; simpl in E2; pose proof (Nat.pow_nonzero 2 kb); lia).
      subst. assert (Hpf : pf = acc ++ sc_to_b32 (hd 0 nv) ++ sc_to_b32 (hd 0 lv)) by congruence. rewrite Hpf, !app_length, !sc_to_b32_length. simpl. lia.
    + destruct (prove_round P tr rho_f mu_f gv hv nv lv cv) as [[pr [gv' hv']] [[nv' lv'] cv']] eqn:R.
      unfold prove_round in R. injection R as Rpr _ _ Rn Rl _.
      apply (IHfuel _ _ _ _ _ _ _ _ _ _ (Nat.pred ka) (Nat.pred kb)) in H.
      * rewrite H, app_length. rewrite <- Rpr, serialize_points_length.
        assert (ka <> 0 \/ kb <> 0)%nat.
        { apply andb_false_iff in E. destruct E as [E|E]; apply Nat.leb_gt in E.
          - left. intros ->. rewrite Hn in E. simpl in E. lia.
          - right. intros ->. rewrite Hl in E. simpl in E. lia. }
        lia.
      * rewrite <- Rn. apply fold_pairs_length. exact Hn.
      * rewrite <- Rl. apply fold_pairs_length. exact Hl.
Qed.

Lemma prove_loop_some : forall fuel tr rho_f mu_f gv hv nv lv cv acc ka kb,
  length nv = (2 ^ ka)%nat -> length lv = (2 ^ kb)%nat -> (Nat.max ka kb <= fuel)%nat ->
  exists pf, prove_loop P fuel tr rho_f mu_f gv hv nv lv cv acc = Some pf.
Proof.
  induction fuel; intros tr rho_f mu_f gv hv nv lv cv acc ka kb Hn Hl Hf.
  - assert (ka = 0 /\ kb = 0)%nat as [-> ->] by lia. cbn [prove_loop]. rewrite Hn, Hl. simpl. eexists. reflexivity.
  - cbn [prove_loop]. destruct ((length nv <=? 1)%nat && (length lv <=? 1)%nat) eqn:E; [eexists; reflexivity|].
    destruct (prove_round P tr rho_f mu_f gv hv nv lv cv) as [[pr [gv' hv']] [[nv' lv'] cv']] eqn:R.
    unfold prove_round in R. injection R as Rpr _ _ Rn Rl _.
    apply (IHfuel _ _ _ _ _ _ _ _ _ (Nat.pred ka) (Nat.pred kb)).
    + rewrite <- Rn. apply fold_pairs_length. exact Hn.
    + rewrite <- Rl. apply fold_pairs_length. exact Hl.
    + lia.
Qed.

Lemma pow2_nat : forall m, is_pow2 (Z.of_nat m) = true ->
  exists k, m = (2 ^ k)%nat /\ Z.log2 (Z.of_nat m) = Z.of_nat k.
Proof.
  intros m H. apply is_pow2_spec in H. destruct H as [k [Hk E]]. exists (Z.to_nat k). split.
  - apply Nat2Z.inj. rewrite E, Nat2Z.inj_pow, Z2Nat.id by assumption. reflexivity.
  - rewrite E, Z.log2_pow2, Z2Nat.id by assumption. reflexivity.
Qed.

(* an honest proof has exactly the length the verifier insists on *)
Lemma prove_length : forall tr rho gens nv lv cv pf,
  is_pow2 (Z.of_nat (length nv)) = true -> is_pow2 (Z.of_nat (length lv)) = true ->
  norm_prove P tr rho gens nv lv cv = Some pf ->
  Z.of_nat (length pf) = 65 * Z.max (Z.log2 (Z.of_nat (length nv))) (Z.log2 (Z.of_nat (length lv))) + 64.
Proof.
  intros tr rho gens nv lv cv pf Hn Hl H.
  apply pow2_nat in Hn, Hl. destruct Hn as [ka [Hn Lg]], Hl as [kb [Hl Lh]].
  unfold norm_prove in H. apply (prove_loop_length _ _ _ _ _ _ _ _ _ _ _ ka kb Hn Hl) in H.
  rewrite Lg, Lh, H. simpl length. lia.
Qed.

(* the fuel of the model prover always suffices on power-of-two lengths: it never abstains *)
Lemma prove_total : forall tr rho gens nv lv cv,
  is_pow2 (Z.of_nat (length nv)) = true -> is_pow2 (Z.of_nat (length lv)) = true ->
  exists pf, norm_prove P tr rho gens nv lv cv = Some pf.
Proof.
  intros tr rho gens nv lv cv Hn Hl.
  apply pow2_nat in Hn, Hl. destruct Hn as [ka [Hn _]], Hl as [kb [Hl _]].
  unfold norm_prove. apply (prove_loop_some _ _ _ _ _ _ _ _ _ _ ka kb Hn Hl).
  rewrite Hn, Hl. pose proof (Nat.pow_gt_lin_r 2 ka). pose proof (Nat.pow_gt_lin_r 2 kb). lia.
Qed.
End BpppProofs.

(* ------------------------------------------------------------------ premises are satisfiable *)
(* member-level round trip of generators_roundtrip_partial, on the secp256k1 base point *)
Example gen_roundtrip_G :
  bp_gen_parse1 secp256k1 (bp_gen_ser1 secp256k1 (G secp256k1)) = Some (G secp256k1).
Proof. vm_compute. reflexivity. Qed.

(* the accepting path of the verifier is inhabited: on the toy curve y^2 = x^3 + 7 over F_43 (group
   order 31) a proof made by the model prover for lengths 2 x 2 (one round) and one for lengths
   1 x 1 (no round) verify against the model commitment *)
Definition toy : Params := mkParams 43 7 31 2 12.
Definition toy_gens : list point :=
  [pmul toy 3 (G toy); pmul toy 5 (G toy); pmul toy 7 (G toy); pmul toy 11 (G toy)].
Example toy_prove_verifies_2x2 :
  let nv := [3; 4] in let lv := [5; 6] in let cv := [2; 9] in let rho := 2 in let tr := [1; 2; 3] in
  match norm_prove toy tr rho toy_gens nv lv cv with
  | Some pf => norm_verify toy 100000 pf tr rho toy_gens 2 cv (norm_commit toy toy_gens nv lv cv (rho * rho)) = true
  | None => False
  end.
Proof. vm_compute. reflexivity. Qed.
Example toy_prove_verifies_1x1 :
  let g := firstn 2 toy_gens in
  match norm_prove toy [] 5 g [3] [7] [9] with
  | Some pf => norm_verify toy 64 pf [] 5 g 1 [9] (norm_commit toy g [3] [7] [9] 25) = true
               /\ norm_verify toy 63 pf [] 5 g 1 [9] (norm_commit toy g [3] [7] [9] 25) = false
  | None => False
  end.
Proof. vm_compute. split; reflexivity. Qed.

Definition toy_gens8 : list point := map (fun k => pmul toy k (G toy)) [3; 5; 7; 11; 13; 17; 19; 23].
(* two rounds, different lengths (4 x 2): exercises the s_g / s_h recursions of the verifier *)
Example toy_prove_verifies_4x2 :
  let nv := [3; 4; 30; 1] in let lv := [5; 6] in let cv := [2; 9] in let rho := 3 in let tr := [9] in
  let g := firstn 6 toy_gens8 in
  match norm_prove toy tr rho g nv lv cv with
  | Some pf => norm_verify toy 100000 pf tr rho g 4 cv (norm_commit toy g nv lv cv (rho * rho)) = true
               /\ norm_verify toy 100000 pf tr 4 g 4 cv (norm_commit toy g nv lv cv (rho * rho)) = false
  | None => False
  end.
Proof. vm_compute. split; reflexivity. Qed.
