(* Lemmas about Model/Whitelist.v (property C16).  No premise about the curve is needed. *)
From Coq Require Import ZArith List Bool Lia.
Require Import Spec.Params Spec.Field Spec.Curve Spec.Bytes Spec.Sha256.
Require Import Model.Base Model.Der Model.Ecdsa Model.Borromean Model.Whitelist.
Import ListNotations.
Local Open Scope Z_scope.

(* ------------------------------------------------------------------ parser / serializer *)
Lemma wl_parse_some_iff : forall input,
  (exists s, wl_parse input = Some s) <->
  (input <> [] /\ nth 0 input 0 <= 255 /\ Z.of_nat (length input) = 1 + 32 * (nth 0 input 0 + 1)).
Proof.
  intros [| nk rest]; unfold wl_parse, wsig_len, WL_MAX_KEYS.
  - split; [intros [s H]; discriminate | intros (H & _); contradiction].
  - cbn [nth]. destruct (Z.ltb_spec 255 nk); cbn [orb].
    + split; [intros [s H0]; discriminate | intros (_ & H0 & _); lia].
    + destruct (Z.eqb_spec (Z.of_nat (length (nk :: rest))) (1 + 32 * (nk + 1))); cbn [negb].
      * split; [intros _; repeat split; auto; discriminate | intros _; eexists; reflexivity].
      * split; [intros [s H0]; discriminate | intros (_ & _ & H0); contradiction].
Qed.

Lemma wl_parse_result : forall input s, wl_parse input = Some s ->
  input = ws_n s :: ws_data s /\ ws_n s <= 255 /\ Z.of_nat (length (ws_data s)) = 32 * (ws_n s + 1).
Proof.
  intros [| nk rest] s H; unfold wl_parse, wsig_len, WL_MAX_KEYS in H; [discriminate |].
  destruct (Z.ltb_spec 255 nk); cbn [orb] in H; [discriminate |].
  destruct (Z.eqb_spec (Z.of_nat (length (nk :: rest))) (1 + 32 * (nk + 1))); cbn [negb] in H; [| discriminate].
  inversion H; subst; cbn [ws_n ws_data]. repeat split; auto.
  change (length (nk :: rest)) with (S (length rest)) in e. lia.
Qed.

Lemma wl_serialize_parse_lemma : forall input s, 0 <= nth 0 input 0 -> wl_parse input = Some s ->
  wl_serialize_bytes s = input /\ wsig_len (ws_n s) = Z.of_nat (length input).
Proof.
  intros input s H0 H. destruct (wl_parse_result _ _ H) as (E & Hn & Hl).
  rewrite E in H0. cbn [nth] in H0. unfold wl_serialize_bytes.
  rewrite Z.mod_small by lia. rewrite firstn_all2 by lia. split; [symmetry; exact E |].
  rewrite E. unfold wsig_len. change (length (ws_n s :: ws_data s)) with (S (length (ws_data s))). lia.
Qed.

Lemma wl_parse_serialize_lemma : forall s, 0 <= ws_n s <= 255 ->
  (Z.to_nat (32 * (ws_n s + 1)) <= length (ws_data s))%nat ->
  wl_parse (wl_serialize_bytes s) = Some (mkWsig (ws_n s) (firstn (Z.to_nat (32 * (ws_n s + 1))) (ws_data s))).
Proof.
  intros s Hn Hl. unfold wl_serialize_bytes, wl_parse, wsig_len, WL_MAX_KEYS.
  rewrite Z.mod_small by lia.
  destruct (Z.ltb_spec 255 (ws_n s)); [lia |]. cbn [orb].
  assert (E : Z.of_nat (length (ws_n s :: firstn (Z.to_nat (32 * (ws_n s + 1))) (ws_data s))) = 1 + 32 * (ws_n s + 1)).
  { change (length (ws_n s :: ?l)) with (S (length l)). rewrite firstn_length. lia. }
  rewrite E, Z.eqb_refl. reflexivity.
Qed.

(* ------------------------------------------------------------------ verification: rejection clauses *)
Section Verify.
Variable P : Params.

Lemma verify_rejects_empty_lemma : forall s online offline n_keys sub,
  ws_n s = 0 \/ n_keys = 0 -> whitelist_verify P s online offline n_keys sub = false.
Proof.
  intros s on off nk sub H. unfold whitelist_verify, verify_gen, verify_prelude_rejects.
  destruct (Z.eqb_spec (ws_n s) 0) as [E | E]; [reflexivity |].
  destruct H as [H | H]; [contradiction |]. subst nk.
  destruct (Z.eqb_spec (ws_n s) 0); [contradiction |]. cbn [andb orb negb]. rewrite orb_true_r. reflexivity.
Qed.

Lemma verify_rejects_count_mismatch_lemma : forall guard s online offline n_keys sub,
  ws_n s <> n_keys -> verify_gen P guard s online offline n_keys sub = false.
Proof.
  intros g s on off nk sub H. unfold verify_gen, verify_prelude_rejects.
  destruct (Z.eqb_spec (ws_n s) nk); [contradiction |]. cbn [negb]. rewrite orb_true_r. reflexivity.
Qed.

Lemma verify_rejects_too_many_keys_lemma : forall guard s online offline n_keys sub,
  255 < ws_n s -> verify_gen P guard s online offline n_keys sub = false.
Proof.
  intros g s on off nk sub H. unfold verify_gen, verify_prelude_rejects, WL_MAX_KEYS.
  destruct (Z.ltb_spec 255 (ws_n s)); [| lia]. rewrite orb_true_r. reflexivity.
Qed.

Lemma wl_load_scalars_bad : forall chunks c, In c chunks -> (be_val c = 0 \/ cn P <= be_val c) ->
  wl_load_scalars P chunks = None.
Proof.
  induction chunks as [| x rest IH]; intros c Hin Hc; [destruct Hin |].
  cbn [wl_load_scalars]. unfold sc_of_b32. destruct Hin as [-> | Hin].
  - destruct Hc as [Hc | Hc].
    + rewrite Hc. rewrite Zmod_0_l, Z.eqb_refl, orb_true_r. reflexivity.
    + destruct (Z.leb_spec (cn P) (be_val c)); [reflexivity | lia].
  - destruct ((cn P <=? be_val x) || (be_val x mod cn P =? 0)); [reflexivity |].
    rewrite (IH c Hin Hc). reflexivity.
Qed.

(* the i-th ring scalar of the signature, as stored: data[32+32i .. 64+32i) *)
Definition sig_scalar_bytes (s : wsig) (i : nat) : bytes := firstn 32 (skipn (32 + 32 * i)%nat (ws_data s)).

Lemma verify_rejects_zero_or_big_scalar_lemma : forall guard s online offline n_keys sub i,
  (i < Z.to_nat (ws_n s))%nat ->
  be_val (sig_scalar_bytes s i) = 0 \/ cn P <= be_val (sig_scalar_bytes s i) ->
  verify_gen P guard s online offline n_keys sub = false.
Proof.
  intros g s on off nk sub i Hi Hc. unfold verify_gen.
  destruct (verify_prelude_rejects g s nk); [reflexivity |].
  rewrite (wl_load_scalars_bad (wl_chunks (ws_data s) (Z.to_nat (ws_n s))) (sig_scalar_bytes s i)); auto.
  unfold wl_chunks, sig_scalar_bytes. apply in_map_iff. exists i. split; [reflexivity | apply in_seq; lia].
Qed.

(* on non-empty rings the property-conforming function and the as-coded function coincide: the repair
   changes the verdict of empty rings only *)
Lemma verify_eq_as_coded_nonempty_lemma : forall s online offline n_keys sub,
  ws_n s <> 0 -> whitelist_verify P s online offline n_keys sub = whitelist_verify_as_coded P s online offline n_keys sub.
Proof.
  intros s on off nk sub H. unfold whitelist_verify, whitelist_verify_as_coded, verify_gen, verify_prelude_rejects.
  destruct (Z.eqb_spec (ws_n s) 0); [contradiction |]. reflexivity.
Qed.

Lemma wl_load_scalars_some : forall chunks,
  (forall c, In c chunks -> 0 < be_val c < cn P) ->
  wl_load_scalars P chunks = Some (map be_val chunks).
Proof.
  induction chunks as [| x rest IH]; intros H; [reflexivity |].
  cbn [wl_load_scalars map]. unfold sc_of_b32.
  pose proof (H x (or_introl eq_refl)) as Hx.
  destruct (Z.leb_spec (cn P) (be_val x)); [lia |].
  rewrite Z.mod_small by lia. destruct (Z.eqb_spec (be_val x) 0); [lia |]. cbn [orb].
  rewrite IH by (intros c Hc; apply H; right; exact Hc). reflexivity.
Qed.

Lemma wl_load_scalars_none_inv : forall chunks, 0 < cn P -> wl_load_scalars P chunks = None ->
  exists c, In c chunks /\ (be_val c mod cn P = 0 \/ cn P <= be_val c).
Proof.
  induction chunks as [| x rest IH]; intros Hn; cbn [wl_load_scalars]; [discriminate |]. unfold sc_of_b32.
  destruct (Z.leb_spec (cn P) (be_val x)) as [Hge | Hlt]; cbn [orb]; intros HN.
  - exists x. split; [left; reflexivity | right; exact Hge].
  - destruct (Z.eqb_spec (be_val x mod cn P) 0) as [Hz | Hnz].
    + exists x. split; [left; reflexivity | left; exact Hz].
    + destruct (wl_load_scalars P rest) eqn:E; [discriminate |].
      destruct (IH Hn eq_refl) as (c & Hc & Hv). exists c. split; [right; exact Hc | exact Hv].
Qed.

(* exact characterisation of the property-conforming verification *)
Lemma verify_iff_lemma : forall s online offline n_keys sub,
  0 < cn P -> (forall i, 0 <= be_val (sig_scalar_bytes s i)) ->
  (whitelist_verify P s online offline n_keys sub = true <->
   (1 <= ws_n s <= 255 /\ ws_n s = n_keys /\
    (forall i, (i < Z.to_nat (ws_n s))%nat -> 0 < be_val (sig_scalar_bytes s i) < cn P) /\
    borromean_verify P (firstn 32 (ws_data s)) (map be_val (wl_chunks (ws_data s) (Z.to_nat (ws_n s))))
      (compute_keys P online offline (Z.to_nat (ws_n s)) sub) [Z.to_nat (ws_n s)] 1
      (compute_message online offline (Z.to_nat (ws_n s)) sub) = true)).
Proof.
  intros s on off nk sub Hn Hnonneg. unfold whitelist_verify, verify_gen, verify_prelude_rejects, WL_MAX_KEYS.
  cbn [andb].
  destruct (Z.eqb_spec (ws_n s) 0) as [E0 | E0]; cbn [orb].
  { split; [discriminate | intros ((X & _) & _); lia]. }
  destruct (Z.ltb_spec 255 (ws_n s)) as [E1 | E1]; cbn [orb].
  { split; [discriminate | intros ((_ & X) & _); lia]. }
  destruct (Z.eqb_spec (ws_n s) nk) as [E2 | E2]; cbn [negb].
  2:{ split; [discriminate | intros (_ & X & _); contradiction]. }
  destruct (wl_load_scalars P (wl_chunks (ws_data s) (Z.to_nat (ws_n s)))) eqn:E.
  - assert (Hall : forall c, In c (wl_chunks (ws_data s) (Z.to_nat (ws_n s))) -> 0 < be_val c < cn P).
    { intros c Hc.
      assert (Hc0 : 0 <= be_val c).
      { unfold wl_chunks in Hc. apply in_map_iff in Hc. destruct Hc as (i & <- & _). apply (Hnonneg i). }
      destruct (Z.eq_dec (be_val c) 0) as [Z0 | Z0].
      { rewrite (wl_load_scalars_bad _ c Hc (or_introl Z0)) in E. discriminate. }
      destruct (Z.lt_ge_cases (be_val c) (cn P)); [lia |].
      rewrite (wl_load_scalars_bad _ c Hc) in E by (right; lia). discriminate. }
    rewrite (wl_load_scalars_some _ Hall) in E. inversion E; subst l.
    split.
    + intros Hv. split; [| split; [exact E2 | split; [| exact Hv]]].
      * assert (0 <= ws_n s) by (destruct (Z.le_gt_cases 0 (ws_n s)); [assumption |];
          exfalso; destruct (ws_n s); try lia; discriminate || lia). lia.
      * intros i Hi. apply Hall. unfold wl_chunks, sig_scalar_bytes. apply in_map_iff. exists i.
        split; [reflexivity | apply in_seq; lia].
    + intros (_ & _ & _ & Hv). exact Hv.
  - split; [discriminate |]. intros (_ & _ & Hs & _).
    destruct (wl_load_scalars_none_inv _ Hn E) as (c & Hc & Hv).
    unfold wl_chunks in Hc. apply in_map_iff in Hc. destruct Hc as (i & <- & Hi). apply in_seq in Hi.
    assert (Hi' : (i < Z.to_nat (ws_n s))%nat) by lia.
    specialize (Hs i Hi'). unfold sig_scalar_bytes in Hs.
    destruct Hv as [Hv | Hv]; [rewrite Z.mod_small in Hv by lia; lia | lia].
Qed.

(* ------------------------------------------------------------------ signing refuses bad secrets *)
Lemma tweaked_privkey_rejects : forall online_key summed_key,
  (be_val online_key = 0 \/ cn P <= be_val online_key \/ be_val summed_key = 0 \/ cn P <= be_val summed_key) ->
  compute_tweaked_privkey P online_key summed_key = None.
Proof.
  intros ok sk H. unfold compute_tweaked_privkey, sc_of_b32.
  destruct (Z.leb_spec (cn P) (be_val sk)) as [S1 | S1]; cbn [orb]; [reflexivity |].
  destruct (Z.eqb_spec (be_val sk mod cn P) 0) as [S2 | S2]; [reflexivity |].
  destruct (hash_pubkey P (Curve.pmul P (be_val sk mod cn P) (Curve.G P))); [| reflexivity].
  destruct (Z.leb_spec (cn P) (be_val ok)) as [O1 | O1]; cbn [orb]; [reflexivity |].
  destruct (Z.eqb_spec (be_val ok mod cn P) 0) as [O2 | O2]; [reflexivity |].
  exfalso. destruct H as [H | [H | [H | H]]]; try lia.
  - apply O2. rewrite H. apply Zmod_0_l.
  - apply S2. rewrite H. apply Zmod_0_l.
Qed.

Lemma sign_rejects_bad_secret_lemma : forall online offline nk sub online_key summed_key index,
  (be_val online_key = 0 \/ cn P <= be_val online_key \/ be_val summed_key = 0 \/ cn P <= be_val summed_key) ->
  whitelist_sign_core P online offline nk sub online_key summed_key index = WSignFail.
Proof.
  intros. unfold whitelist_sign_core. rewrite tweaked_privkey_rejects by assumption. reflexivity.
Qed.

(* at API level: whatever the keys, a zero / out-of-range secret gives return value 0 (possibly after
   illegal-argument callbacks for bad arguments), never a signature *)
Lemma api_sign_rejects_bad_secret_lemma : forall online offline n_keys sub online_key summed_key index,
  (be_val online_key = 0 \/ cn P <= be_val online_key \/ be_val summed_key = 0 \/ cn P <= be_val summed_key) ->
  exists rest, whitelist_sign P online offline n_keys sub online_key summed_key index = AInt 0 :: rest.
Proof.
  intros. unfold whitelist_sign.
  destruct ((WL_MAX_KEYS <? n_keys) || negb (index <? n_keys)); [eexists; reflexivity |].
  destruct (0 <? count_bad online offline (Z.to_nat n_keys) sub); [eexists; reflexivity |].
  rewrite sign_rejects_bad_secret_lemma by assumption. eexists; reflexivity.
Qed.
End Verify.

(* ------------------------------------------------------------------ F1: the as-coded function accepts an empty ring *)
(* witness: W = G, signature object n_keys = 0, e0 = SHA256(SHA256(ser33(G))); no group operation is
   involved, only two SHA-256 computations *)
Definition f1_W : bytes := pk_obj (Curve.G secp256k1).
Definition f1_sig : wsig := mkWsig 0 (sha256 (sha256 (ser33 (Curve.G secp256k1)))).

Lemma as_coded_accepts_empty_ring_witness :
  whitelist_verify_as_coded secp256k1 f1_sig [] [] 0 f1_W = true /\
  wl_parse (0 :: ws_data f1_sig) = Some f1_sig /\ length (0 :: ws_data f1_sig) = 33%nat.
Proof. vm_compute. repeat split. Qed.

Lemma as_coded_accepts_empty_ring_lemma :
  exists sig W, whitelist_verify_as_coded secp256k1 sig [] [] 0 W = true.
Proof. exists f1_sig, f1_W. exact (proj1 as_coded_accepts_empty_ring_witness). Qed.

(* ------------------------------------------------------------------ premises are satisfiable *)
Example wl_parse_example : exists s, wl_parse (1 :: repeat 9 64) = Some s /\ ws_n s = 1.
Proof. eexists. split; vm_compute; reflexivity. Qed.
