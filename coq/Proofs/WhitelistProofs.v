(* Lemmas about Model/Whitelist.v (property C16).  No premise about the curve is needed. *)
From Coq Require Import ZArith List Bool Lia.
Require Import Spec.Params Spec.Field Spec.Curve Spec.Bytes Spec.Sha256.
Require Import Model.Base Model.Der Model.Ecdsa Model.Borromean Model.Whitelist.
Import ListNotations.
Local Open Scope Z_scope.

(* ------------------------------------------------------------------ parser / serializer *)
Lemma wl_parse_some_iff : forall input,
  (exists s, wl_parse input = Some s) <->
  (input <> [] /\ nth 0 input 0 <= 255 /\ Z.of_nat (length input) = 1 + 32 * (nth 0 input 0 + 1)).
Proof.
  intros [| nk rest]; unfold wl_parse, wsig_len, WL_MAX_KEYS.
  - split; [intros [s H]; discriminate | intros (H & _); contradiction].
  - cbn [nth]. destruct (Z.ltb_spec 255 nk); cbn [orb].
    + split; [intros [s H0]; discriminate | intros (_ & H0 & _); lia].
    + destruct (Z.eqb_spec (Z.of_nat (length (nk :: rest))) (1 + 32 * (nk + 1))); cbn [negb].
      * split; [intros _; repeat split; auto; discriminate | intros _; eexists; reflexivity].
      * split; [intros [s H0]; discriminate | intros (_ & _ & H0); contradiction].
Qed.

Lemma wl_parse_result : forall input s, wl_parse input = Some s ->
  input = ws_n s :: ws_data s /\ ws_n s <= 255 /\ Z.of_nat (length (ws_data s)) = 32 * (ws_n s + 1).
Proof.
  intros [| nk rest] s H; unfold wl_parse, wsig_len, WL_MAX_KEYS in H; [discriminate |].
  destruct (Z.ltb_spec 255 nk); cbn [orb] in H; [discriminate |].
  destruct (Z.eqb_spec (Z.of_nat (length (nk :: rest))) (1 + 32 * (nk + 1))); cbn [negb] in H; [| discriminate].
  inversion H; subst; cbn [ws_n ws_data]. repeat split; auto.
  change (length (nk :: rest)) with (S (length rest)) in e. lia.
Qed.

Lemma wl_serialize_parse_lemma : forall input s, 0 <= nth 0 input 0 -> wl_parse input = Some s ->
  wl_serialize_bytes s = input /\ wsig_len (ws_n s) = Z.of_nat (length input).
Proof.
  intros input s H0 H. destruct (wl_parse_result _ _ H) as (E & Hn & Hl).
  rewrite E in H0. cbn [nth] in H0. unfold wl_serialize_bytes.
  rewrite Z.mod_small by lia. rewrite firstn_all2 by lia. split; [symmetry; exact E |].
  rewrite E. unfold wsig_len. change (length (ws_n s :: ws_data s)) with (S (length (ws_data s))). lia.
Qed.

Lemma wl_parse_serialize_lemma : forall s, 0 <= ws_n s <= 255 ->
  (Z.to_nat (32 * (ws_n s + 1)) <= length (ws_data s))%nat ->
  wl_parse (wl_serialize_bytes s) = Some (mkWsig (ws_n s) (firstn (Z.to_nat (32 * (ws_n s + 1))) (ws_data s))).
Proof.
  intros s Hn Hl. unfold wl_serialize_bytes, wl_parse, wsig_len, WL_MAX_KEYS.
  rewrite Z.mod_small by lia.
  destruct (Z.ltb_spec 255 (ws_n s)); [lia |]. cbn [orb].
  assert (E : Z.of_nat (length (ws_n s :: firstn (Z.to_nat (32 * (ws_n s + 1))) (ws_data s))) = 1 + 32 * (ws_n s + 1)).
  { change (length (ws_n s :: ?l)) with (S (length l)). rewrite firstn_length. lia. }
  rewrite E, Z.eqb_refl. reflexivity.
Qed.

(* ------------------------------------------------------------------ verification: rejection clauses *)
Section Verify.
Variable P : Params.

Lemma verify_rejects_empty_lemma : forall s online offline n_keys sub,
  ws_n s = 0 \/ n_keys = 0 -> whitelist_verify P s online offline n_keys sub = false.
Proof.
  intros s on off nk sub H. unfold whitelist_verify, verify_gen, verify_prelude_rejects.
  destruct (Z.eqb_spec (ws_n s) 0) as [E | E]; [reflexivity |].
  destruct H as [H | H]; [contradiction |]. subst nk.
  destruct (Z.eqb_spec (ws_n s) 0); [contradiction |]. cbn [andb orb negb]. rewrite orb_true_r. reflexivity.
Qed.

Lemma verify_rejects_count_mismatch_lemma : forall guard s online offline n_keys sub,
  ws_n s <> n_keys -> verify_gen P guard s online offline n_keys sub = false.
Proof.
  intros g s on off nk sub H. unfold verify_gen, verify_prelude_rejects.
  destruct (Z.eqb_spec (ws_n s) nk); [contradiction |]. cbn [negb]. rewrite orb_true_r. reflexivity.
Qed.

Lemma verify_rejects_too_many_keys_lemma : forall guard s online offline n_keys sub,
  255 < ws_n s -> verify_gen P guard s online offline n_keys sub = false.
Proof.
  intros g s on off nk sub H. unfold verify_gen, verify_prelude_rejects, WL_MAX_KEYS.
  destruct (Z.ltb_spec 255 (ws_n s)); [| lia]. rewrite orb_true_r. reflexivity.
Qed.

Lemma wl_load_scalars_bad : forall chunks c, In c chunks -> (be_val c = 0 \/ cn P <= be_val c) ->
  wl_load_scalars P chunks = None.
Proof.
  induction chunks as [| x rest IH]; intros c Hin Hc; [destruct Hin |].
  cbn [wl_load_scalars]. unfold sc_of_b32. destruct Hin as [-> | Hin].
  - destruct Hc as [Hc | Hc].
    + rewrite Hc. rewrite Zmod_0_l, Z.eqb_refl, orb_true_r. reflexivity.
    + destruct (Z.leb_spec (cn P) (be_val c)); [reflexivity | lia].
  - destruct ((cn P <=? be_val x) || (be_val x mod cn P =? 0)); [reflexivity |].
    rewrite (IH c Hin Hc). reflexivity.
Qed.

(* the i-th ring scalar of the signature, as stored: data[32+32i .. 64+32i) *)
Definition sig_scalar_bytes (s : wsig) (i : nat) : bytes := firstn 32 (skipn (32 + 32 * i)%nat (ws_data s)).

Lemma verify_rejects_zero_or_big_scalar_lemma : forall guard s online offline n_keys sub i,
  (i < Z.to_nat (ws_n s))%nat ->
  be_val (sig_scalar_bytes s i) = 0 \/ cn P <= be_val (sig_scalar_bytes s i) ->
  verify_gen P guard s online offline n_keys sub = false.
Proof.
  intros g s on off nk sub i Hi Hc. unfold verify_gen.
  destruct (verify_prelude_rejects g s nk); [reflexivity |].
  rewrite (wl_load_scalars_bad (wl_chunks (ws_data s) (Z.to_nat (ws_n s))) (sig_scalar_bytes s i)); auto.
  unfold wl_chunks, sig_scalar_bytes. apply in_map_iff. exists i. split; [reflexivity | apply in_seq; lia].
Qed.

(* on non-empty rings the property-conforming function and the as-coded function coincide: the repair
   changes the verdict of empty rings only *)
Lemma verify_eq_as_coded_nonempty_lemma : forall s online offline n_keys sub,
  ws_n s <> 0 -> whitelist_verify P s online offline n_keys sub = whitelist_verify_as_coded P s online offline n_keys sub.
Proof.
  intros s on off nk sub H. unfold whitelist_verify, whitelist_verify_as_coded, verify_gen, verify_prelude_rejects.
  destruct (Z.eqb_spec (ws_n s) 0); [contradiction |]. reflexivity.
Qed.

Lemma wl_load_scalars_some : forall chunks,
  (forall c, In c chunks -> 0 < be_val c < cn P) ->
  wl_load_scalars P chunks = Some (map be_val chunks).
Proof.
  induction chunks as [| x rest IH]; intros H; [reflexivity |].
  cbn [wl_load_scalars map]. unfold sc_of_b32.
  pose proof (H x (or_introl eq_refl)) as Hx.
  destruct (Z.leb_spec (cn P) (be_val x)); [lia |].
  rewrite Z.mod_small by lia. destruct (Z.eqb_spec (be_val x) 0); [lia |]. cbn [orb].
  rewrite IH by (intros c Hc; apply H; right; exact Hc). reflexivity.
Qed.

Lemma wl_load_scalars_none_inv : forall chunks, 0 < cn P -> wl_load_scalars P chunks = None ->
  exists c, In c chunks /\ (be_val c mod cn P = 0 \/ cn P <= be_val c).
Proof.
  induction chunks as [| x rest IH]; intros Hn; cbn [wl_load_scalars]; [discriminate |]. unfold sc_of_b32.
  destruct (Z.leb_spec (cn P) (be_val x)) as [Hge | Hlt]; cbn [orb]; intros HN.
  - exists x. split; [left; reflexivity | right; exact Hge].
  - destruct (Z.eqb_spec (be_val x mod cn P) 0) as [Hz | Hnz].
    + exists x. split; [left; reflexivity | left; exact Hz].
    + destruct (wl_load_scalars P rest) eqn:E; [discriminate |].
      destruct (IH Hn eq_refl) as (c & Hc & Hv). exists c. split; [right; exact Hc | exact Hv].
Qed.

(* exact characterisation of the property-conforming verification *)
Lemma verify_iff_lemma : forall s online offline n_keys sub,
  0 < cn P -> 0 <= ws_n s -> (forall i, 0 <= be_val (sig_scalar_bytes s i)) ->
  (whitelist_verify P s online offline n_keys sub = true <->
   (1 <= ws_n s <= 255 /\ ws_n s = n_keys /\
    (forall i, (i < Z.to_nat (ws_n s))%nat -> 0 < be_val (sig_scalar_bytes s i) < cn P) /\
    borromean_verify P (firstn 32 (ws_data s)) (map be_val (wl_chunks (ws_data s) (Z.to_nat (ws_n s))))
      (compute_keys P online offline (Z.to_nat (ws_n s)) sub) [Z.to_nat (ws_n s)] 1
      (compute_message online offline (Z.to_nat (ws_n s)) sub) = true)).
Proof.
  intros s on off nk sub Hn Hns Hnonneg. unfold whitelist_verify, verify_gen, verify_prelude_rejects, WL_MAX_KEYS.
  cbn [andb].
  destruct (Z.eqb_spec (ws_n s) 0) as [E0 | E0]; cbn [orb].
  { split; [discriminate | intros ((X & _) & _); lia]. }
  destruct (Z.ltb_spec 255 (ws_n s)) as [E1 | E1]; cbn [orb].
  { split; [discriminate | intros ((_ & X) & _); lia]. }
  destruct (Z.eqb_spec (ws_n s) nk) as [E2 | E2]; cbn [negb].
  2:{ split; [discriminate | intros (_ & X & _); contradiction]. }
  destruct (wl_load_scalars P (wl_chunks (ws_data s) (Z.to_nat (ws_n s)))) eqn:E.
  - assert (Hall : forall c, In c (wl_chunks (ws_data s) (Z.to_nat (ws_n s))) -> 0 < be_val c < cn P).
    { intros c Hc.
      assert (Hc0 : 0 <= be_val c).
      { unfold wl_chunks in Hc. apply in_map_iff in Hc. destruct Hc as (i & <- & _). apply (Hnonneg i). }
      destruct (Z.eq_dec (be_val c) 0) as [Z0 | Z0].
      { rewrite (wl_load_scalars_bad _ c Hc (or_introl Z0)) in E. discriminate. }
      destruct (Z.lt_ge_cases (be_val c) (cn P)); [lia |].
      rewrite (wl_load_scalars_bad _ c Hc) in E by (right; lia). discriminate. }
    rewrite (wl_load_scalars_some _ Hall) in E. inversion E; subst l.
    split.
    + intros Hv. split; [| split; [exact E2 | split; [| exact Hv]]].
      * lia.
      * intros i Hi. apply Hall. unfold wl_chunks, sig_scalar_bytes. apply in_map_iff. exists i.
        split; [reflexivity | apply in_seq; lia].
    + intros (_ & _ & _ & Hv). exact Hv.
  - split; [discriminate |]. intros (_ & _ & Hs & _).
    destruct (wl_load_scalars_none_inv _ Hn E) as (c & Hc & Hv).
    unfold wl_chunks in Hc. apply in_map_iff in Hc. destruct Hc as (i & <- & Hi). apply in_seq in Hi.
    assert (Hi' : (i < Z.to_nat (ws_n s))%nat) by lia.
    specialize (Hs i Hi'). unfold sig_scalar_bytes in Hs.
    destruct Hv as [Hv | Hv]; [rewrite Z.mod_small in Hv by lia; lia | lia].
Qed.

(* ------------------------------------------------------------------ signing refuses bad secrets *)
Lemma tweaked_privkey_rejects : forall online_key summed_key,
  (be_val online_key = 0 \/ cn P <= be_val online_key \/ be_val summed_key = 0 \/ cn P <= be_val summed_key) ->
  compute_tweaked_privkey P online_key summed_key = None.
Proof.
  intros ok sk H. unfold compute_tweaked_privkey, sc_of_b32.
  destruct (Z.leb_spec (cn P) (be_val sk)) as [S1 | S1]; cbn [orb]; [reflexivity |].
  destruct (Z.eqb_spec (be_val sk mod cn P) 0) as [S2 | S2]; [reflexivity |].
  destruct (hash_pubkey P (Curve.pmul P (be_val sk mod cn P) (Curve.G P))); [| reflexivity].
  destruct (Z.leb_spec (cn P) (be_val ok)) as [O1 | O1]; cbn [orb]; [reflexivity |].
  destruct (Z.eqb_spec (be_val ok mod cn P) 0) as [O2 | O2]; [reflexivity |].
  exfalso. destruct H as [H | [H | [H | H]]]; try lia.
  - apply O2. rewrite H. apply Zmod_0_l.
  - apply S2. rewrite H. apply Zmod_0_l.
Qed.

Lemma sign_rejects_bad_secret_lemma : forall online offline nk sub online_key summed_key index,
  (be_val online_key = 0 \/ cn P <= be_val online_key \/ be_val summed_key = 0 \/ cn P <= be_val summed_key) ->
  whitelist_sign_core P online offline nk sub online_key summed_key index = WSignFail.
Proof.
  intros. unfold whitelist_sign_core. rewrite tweaked_privkey_rejects by assumption. reflexivity.
Qed.

(* at API level: whatever the keys, a zero / out-of-range secret gives return value 0 (possibly after
   illegal-argument callbacks for bad arguments), never a signature *)
Lemma api_sign_rejects_bad_secret_lemma : forall online offline n_keys sub online_key summed_key index,
  (be_val online_key = 0 \/ cn P <= be_val online_key \/ be_val summed_key = 0 \/ cn P <= be_val summed_key) ->
  exists rest, whitelist_sign P online offline n_keys sub online_key summed_key index = AInt 0 :: rest.
Proof.
  intros. unfold whitelist_sign.
  destruct ((WL_MAX_KEYS <? n_keys) || negb (index <? n_keys)); [eexists; reflexivity |].
  destruct (0 <? count_bad online offline (Z.to_nat n_keys) sub); [eexists; reflexivity |].
  rewrite sign_rejects_bad_secret_lemma by assumption. eexists; reflexivity.
Qed.
End Verify.

(* ------------------------------------------------------------------ F1: the as-coded function accepts an empty ring *)
(* witness: W = G, signature object n_keys = 0, e0 = SHA256(SHA256(ser33(G))); no group operation is
   involved, only two SHA-256 computations *)
Definition f1_W : bytes := pk_obj (Curve.G secp256k1).
Definition f1_sig : wsig := mkWsig 0 (sha256 (sha256 (ser33 (Curve.G secp256k1)))).

Lemma as_coded_accepts_empty_ring_witness :
  whitelist_verify_as_coded secp256k1 f1_sig [] [] 0 f1_W = true /\
  wl_parse (0 :: ws_data f1_sig) = Some f1_sig /\ length (0 :: ws_data f1_sig) = 33%nat.
Proof. vm_compute. repeat split. Qed.

Lemma as_coded_accepts_empty_ring_lemma :
  exists sig W, whitelist_verify_as_coded secp256k1 sig [] [] 0 W = true.
Proof. exists f1_sig, f1_W. exact (proj1 as_coded_accepts_empty_ring_witness). Qed.

(* ------------------------------------------------------------------ premises are satisfiable *)
Example wl_parse_example : exists s, wl_parse (1 :: repeat 9 64) = Some s /\ ws_n s = 1.
Proof. eexists. split; vm_compute; reflexivity. Qed.

(* ================================================================== completeness: sign => verify *)
Require Import Proofs.MathFacts Proofs.GroupLemmas Proofs.SurjectionProofs Proofs.BytesLemmas.

Section Complete.
Variable P : Params.
Hypothesis MF : MathFacts P.
Hypothesis Hn256 : cn P < 2 ^ 256.
Notation G := (Curve.G P).
Notation pmul := (Curve.pmul P).

Definition sc_ok (s : Z) : Prop := 0 < s < cn P.

Lemma wl_Forall_firstn : forall {A} (Q : A -> Prop) l k, Forall Q l -> Forall Q (firstn k l).
Proof. induction l; intros [| k] H; cbn [firstn]; auto. inversion H; subst. constructor; auto. Qed.
Lemma wl_Forall_skipn : forall {A} (Q : A -> Prop) l k, Forall Q l -> Forall Q (skipn k l).
Proof. induction l; intros [| k] H; cbn [skipn]; auto. inversion H; subst. auto. Qed.

Lemma sc_ok_nz : forall l, Forall sc_ok l -> forallb nz l = true.
Proof.
  induction 1; [reflexivity |]. cbn [forallb]. rewrite IHForall, andb_true_r.
  unfold nz. apply negb_true_iff, Z.eqb_neq. unfold sc_ok in H. lia.
Qed.

Lemma gen_s_spec : forall idxs count msg key ss, gen_s P idxs count msg key = Some ss ->
  length ss = length idxs /\ Forall sc_ok ss.
Proof.
  induction idxs as [| i rest IH]; cbn [gen_s]; intros count msg key ss H.
  - inversion H; subst. split; [reflexivity | constructor].
  - destruct (sc_of_b32 P (nonce_rfc6979 P (xor_msg msg (Z.of_nat i)) key None None count)) as [s ov] eqn:E.
    destruct ov; cbn [orb] in H; [discriminate |].
    destruct (s =? 0) eqn:Hz; [discriminate |].
    destruct (gen_s P rest count msg key) as [l |] eqn:Eg; [| discriminate].
    inversion H; subst ss. destruct (IH _ _ _ _ Eg) as [L F].
    pose proof (sc_of_b32_range P MF _ _ _ E) as R. apply Z.eqb_neq in Hz.
    split; [cbn [length]; f_equal; exact L | constructor; [unfold sc_ok; lia | exact F]].
Qed.

Lemma sign_nonces_spec : forall fuel count msg key nk non ss,
  sign_nonces P fuel count msg key nk = Some (non, ss) ->
  sc_ok non /\ length ss = nk /\ Forall sc_ok ss.
Proof.
  induction fuel as [| f IH]; cbn [sign_nonces]; intros count msg key nk non ss H; [discriminate |].
  destruct (sc_of_b32 P (nonce_rfc6979 P msg key None None count)) as [v ov] eqn:E.
  destruct ov; cbn [orb] in H; [exact (IH _ _ _ _ _ _ H) |].
  destruct (v =? 0) eqn:Hz; [exact (IH _ _ _ _ _ _ H) |].
  destruct (gen_s P (seq 0 nk) count msg key) as [l |] eqn:Eg; [| exact (IH _ _ _ _ _ _ H)].
  inversion H; subst non ss. destruct (gen_s_spec _ _ _ _ _ Eg) as [L F].
  pose proof (sc_of_b32_range P MF _ _ _ E) as R. apply Z.eqb_neq in Hz.
  rewrite seq_length in L. repeat split; auto; lia.
Qed.

Lemma tweaked_privkey_range : forall ok sk sec, compute_tweaked_privkey P ok sk = Some sec -> 0 <= sec < cn P.
Proof.
  intros ok sk sec H. unfold compute_tweaked_privkey in H.
  destruct (sc_of_b32 P sk) as [a ov]. destruct (ov || (a =? 0)); [discriminate |].
  destruct (hash_pubkey P (pmul a G)); [| discriminate].
  destruct (sc_of_b32 P ok) as [b ov2]. destruct (ov2 || (b =? 0)); [discriminate |].
  inversion H; subst. unfold sc_add, madd. apply Z.mod_pos_bound. apply (n_pos P MF).
Qed.

Lemma wl_load_scalars_written : forall ss, Forall sc_ok ss -> wl_load_scalars P (map sc_to_b32 ss) = Some ss.
Proof.
  induction 1 as [| s l Hs F IH]; [reflexivity |]. cbn [map wl_load_scalars]. unfold sc_of_b32.
  unfold sc_ok in Hs. rewrite be_val_sc_to_b32 by lia.
  destruct (Z.leb_spec (cn P) s); [lia |]. rewrite Z.mod_small by lia.
  destruct (Z.eqb_spec s 0); [lia |]. cbn [orb]. rewrite IH. reflexivity.
Qed.

Lemma compute_keys_length : forall online offline nk sub, length (compute_keys P online offline nk sub) = nk.
Proof. intros. unfold compute_keys. rewrite map_length, seq_length. reflexivity. Qed.

(* signing with a secret that matches the ring key at [index] yields a signature that verifies against
   exactly that key list and whitelisted key *)
Lemma sign_verifies_lemma : forall online offline nk sub online_key summed_key index sig sec,
  (1 <= nk <= 255)%nat -> (index < nk)%nat ->
  compute_tweaked_privkey P online_key summed_key = Some sec ->
  nth index (compute_keys P online offline nk sub) None = pmul sec G ->
  forallb ninf (compute_keys P online offline nk sub) = true ->
  whitelist_sign_core P online offline nk sub online_key summed_key index = WSignOk sig ->
  whitelist_verify P sig online offline (Z.of_nat nk) sub = true.
Proof.
  intros online offline nk sub ok sk index sig sec Hnk Hidx Hsec Hkey Hninf H.
  unfold whitelist_sign_core in H. rewrite Hsec in H.
  set (pubs := compute_keys P online offline nk sub) in *.
  set (msg := compute_message online offline nk sub) in *.
  destruct (sign_nonces P 64 0 msg (sc_to_b32 sec) nk) as [[non ss] |] eqn:En; [| discriminate].
  destruct (borromean_sign P ss pubs [non] [sec] [nk] [index] 1 msg) as [[e0 s'] |] eqn:Eb; [| discriminate].
  inversion H; subst sig. clear H.
  destruct (sign_nonces_spec _ _ _ _ _ _ _ En) as (Hnon & Lss & Fss).
  assert (Lp : length pubs = nk) by apply compute_keys_length.
  pose proof (tweaked_privkey_range _ _ _ Hsec) as Rsec.
  destruct (list_split_at ss index 0 ltac:(lia)) as [Ess Ls1].
  destruct (list_split_at pubs index None ltac:(lia)) as [Epp Lp1].
  rewrite Hkey in Epp.
  set (s_pre := firstn index ss) in *. set (s_suf := skipn (S index) ss) in *.
  set (p_pre := firstn index pubs) in *. set (p_suf := skipn (S index) pubs) in *.
  assert (Fpre : Forall sc_ok s_pre) by (unfold s_pre; apply wl_Forall_firstn; exact Fss).
  assert (Fsuf : Forall sc_ok s_suf) by (unfold s_suf; apply wl_Forall_skipn; exact Fss).
  assert (Hsuflen : length s_suf = length p_suf) by (unfold s_suf, p_suf; rewrite !skipn_length; lia).
  assert (Hinfx : is_inf (pmul sec G) = false).
  { rewrite Epp in Hninf. rewrite forallb_app in Hninf. apply andb_true_iff in Hninf. destruct Hninf as [_ Hx].
    cbn [forallb] in Hx. apply andb_true_iff in Hx. destruct Hx as [Hx _]. unfold ninf in Hx. apply negb_true_iff in Hx. exact Hx. }
  remember (nth index ss 0) as sx eqn:Hsx.
  assert (Eb' : borromean_sign P (s_pre ++ sx :: s_suf) (p_pre ++ pmul sec G :: p_suf) [non] [sec]
                  [length (s_pre ++ sx :: s_suf)] [length s_pre] 1 msg = Some (e0, s')).
  { rewrite <- Ess, <- Epp, Lss, Ls1. exact Eb. }
  assert (Hprelen : length s_pre = length p_pre) by lia.
  assert (Rnon : 0 <= non < cn P) by (unfold sc_ok in Hnon; lia).
  assert (Hfp1 : forallb ninf p_pre = true) by (unfold p_pre; apply forallb_firstn; exact Hninf).
  assert (Hfp2 : forallb ninf p_suf = true) by (unfold p_suf; apply forallb_skipn; exact Hninf).
  destruct (ring1_sign_verifies P MF msg s_pre sx s_suf p_pre p_suf non sec e0 s'
              Hprelen Hsuflen Rnon Rsec (sc_ok_nz _ Fpre) (sc_ok_nz _ Fsuf) Hfp1 Hfp2 Hinfx Eb')
    as (Hv & snew & Es' & Rnew & Le0).
  rewrite <- Ess, <- Epp, Lss in Hv.
  assert (Fs' : Forall sc_ok s') by (rewrite Es'; apply Forall_app; split; [exact Fpre | constructor; [exact Rnew | exact Fsuf]]).
  assert (Ls' : length s' = nk) by (rewrite Es', app_length; cbn [length]; unfold s_suf; rewrite skipn_length; lia).
  unfold whitelist_verify, verify_gen, verify_prelude_rejects, WL_MAX_KEYS. cbn [ws_n ws_data andb].
  destruct (Z.eqb_spec (Z.of_nat nk) 0); [lia |].
  destruct (Z.ltb_spec 255 (Z.of_nat nk)); [lia |].
  rewrite Z.eqb_refl. cbn [orb negb]. rewrite Nat2Z.id.
  unfold wl_chunks. rewrite <- (app_nil_r (flat_map sc_to_b32 s')). rewrite <- Ls' at 1.
  rewrite (chunks_of_written_sig e0 s' [] Le0).
  rewrite (wl_load_scalars_written _ Fs').
  rewrite (firstn_app_exact e0 _ 32 Le0). fold pubs msg. exact Hv.
Qed.
(* the same with the premise in the property's own terms: the online secret is the discrete log of the
   online key at [index], the summed secret that of offline_index + W *)
Lemma hash_pubkey_range : forall Q t, hash_pubkey P Q = Some t -> 0 <= t < cn P.
Proof.
  intros Q t H. unfold hash_pubkey in H. destruct Q; [| discriminate].
  destruct (sc_of_b32 P (sha256 (ser33 (Some p)))) as [v ov] eqn:E.
  destruct (ov || (v =? 0)); [discriminate |]. inversion H; subst. exact (sc_of_b32_range P MF _ _ _ E).
Qed.

Lemma nth_compute_keys : forall online offline nk sub index, (index < nk)%nat ->
  nth index (compute_keys P online offline nk sub) None =
  ring_key P (pk_pt sub) (pk_pt (key_obj online index)) (pk_pt (key_obj offline index)).
Proof.
  intros online offline nk sub index H. unfold compute_keys.
  set (f := fun i => ring_key P (pk_pt sub) (pk_pt (key_obj online i)) (pk_pt (key_obj offline i))).
  rewrite (nth_indep _ None (f O)) by (rewrite map_length, seq_length; exact H).
  rewrite map_nth. rewrite seq_nth by exact H. reflexivity.
Qed.

Lemma sign_verifies_honest_lemma : forall online offline nk sub online_key summed_key index sig,
  (1 <= nk <= 255)%nat -> (index < nk)%nat ->
  0 < be_val online_key < cn P -> 0 < be_val summed_key < cn P ->
  pk_pt (key_obj online index) = pmul (be_val online_key) G ->
  Curve.padd P (pk_pt (key_obj offline index)) (pk_pt sub) = pmul (be_val summed_key) G ->
  forallb ninf (compute_keys P online offline nk sub) = true ->
  whitelist_sign_core P online offline nk sub online_key summed_key index = WSignOk sig ->
  whitelist_verify P sig online offline (Z.of_nat nk) sub = true.
Proof.
  intros online offline nk sub okb skb index sig Hnk Hidx Hok Hsk Hon Hoff Hninf H.
  set (ok := be_val okb) in *. set (sk := be_val skb) in *.
  destruct (compute_tweaked_privkey P okb skb) as [sec |] eqn:Hsec.
  2:{ unfold whitelist_sign_core in H. rewrite Hsec in H. discriminate. }
  eapply sign_verifies_lemma; eauto.
  rewrite nth_compute_keys by exact Hidx. unfold ring_key. rewrite Hoff, Hon.
  unfold compute_tweaked_privkey, sc_of_b32 in Hsec. fold sk ok in Hsec.
  destruct (Z.leb_spec (cn P) sk); [lia |]. destruct (Z.leb_spec (cn P) ok); [lia |].
  rewrite !Z.mod_small in Hsec by lia.
  destruct (Z.eqb_spec sk 0); [lia |]. destruct (Z.eqb_spec ok 0); [lia |]. cbn [orb] in Hsec.
  unfold tweak_pubkey.
  destruct (hash_pubkey P (pmul sk G)) as [t |] eqn:Ht; [| discriminate].
  inversion Hsec; subst sec. clear Hsec.
  pose proof (hash_pubkey_range _ _ Ht) as Rt.
  pose proof (oc_G P MF) as HG.
  unfold sc_add, sc_mul.
  rewrite (pmul_madd P MF) by (try lia; unfold mmul; apply Z.mod_pos_bound; lia).
  rewrite (pmul_mmul P MF) by lia.
  f_equal.
  rewrite <- (pmul_mul P MF) by (auto; lia). rewrite <- (pmul_mul P MF) by (auto; lia).
  f_equal. lia.
Qed.
End Complete.
