(* Lemmas about Model/Pedersen.v (property C08).  All statements are about the executable model,
   for all inputs.  Group-law facts enter only through the explicit premise [MathFacts P]. *)
From Coq Require Import ZArith List Bool Lia Znumtheory.
Require Import Spec.Params Spec.Field Spec.Curve Spec.Bytes Spec.Sha256.
Require Import Model.Base Model.Pedersen.
Require Import Proofs.MathFacts Proofs.GroupLemmas Proofs.BytesLemmas Proofs.Toy.
Import ListNotations.
Local Open Scope Z_scope.

Section PedersenProofs.
Variable P : Params.
Notation p := (cp P).
Notation n := (cn P).
Notation G := (Curve.G P).
Notation pmul := (Curve.pmul P).
Notation padd := (Curve.padd P).
Notation pneg := (Curve.pneg P).

Local Opaque pk_obj.
(* ------------------------------------------------------------------ commit *)
(* the exact characterisation of pedersen_commit: success iff blind < n and b*G + v*H is not infinity;
   the object then holds exactly that point *)
Lemma commit_pt_exact blind value gen R :
  pedersen_commit_pt P blind value gen = Some R <->
  (be_val blind < n /\ R = padd (pmul (be_val blind mod n) G) (pmul value (gen_load gen)) /\ R <> None).
Proof.
  unfold pedersen_commit_pt, sc_of_b32, pedersen_ecmult.
  destruct (n <=? be_val blind) eqn:E.
  - apply Z.leb_le in E. split; [discriminate|]. intros [H _]. lia.
  - apply Z.leb_gt in E.
    destruct (padd (pmul (be_val blind mod n) G) (pmul value (gen_load gen))) as [q|] eqn:E2.
    + split.
      * intros H. inversion H. subst. repeat split; auto. discriminate.
      * intros [_ [H _]]. subst. reflexivity.
    + split; [discriminate|]. intros [_ [H H2]]. subst. congruence.
Qed.

Lemma commit_exact blind value gen :
  pedersen_commit P blind value gen =
    if n <=? be_val blind then [AInt 0]
    else match padd (pmul (be_val blind mod n) G) (pmul value (gen_load gen)) with
         | None => [AInt 0]
         | R => [AInt 1; ABytes (pk_obj R)]
         end.
Proof.
  unfold pedersen_commit, pedersen_commit_pt, sc_of_b32, pedersen_ecmult.
  destruct (n <=? be_val blind); [reflexivity|].
  destruct (padd (pmul (be_val blind mod n) G) (pmul value (gen_load gen))); reflexivity.
Qed.

Lemma commit_rejects_overflow blind value gen :
  n <= be_val blind -> pedersen_commit P blind value gen = [AInt 0].
Proof. intros H. rewrite commit_exact. apply Z.leb_le in H. rewrite H. reflexivity. Qed.

(* ------------------------------------------------------------------ blind_sum *)
Lemma blind_sum_loop_overflow blinds : forall i npos acc,
  (exists b, In b blinds /\ n <= be_val b) -> blind_sum_loop P i npos acc blinds = None.
Proof.
  induction blinds as [|b rest IH]; intros i npos acc [b0 [Hin Hb]].
  - destruct Hin.
  - simpl. unfold sc_of_b32. destruct (n <=? be_val b) eqn:E; [reflexivity|].
    destruct Hin as [->|Hin]; [apply Z.leb_gt in E; lia|].
    apply IH. exists b0. auto.
Qed.

Lemma blind_sum_rejects_overflow blinds npositive :
  (exists b, In b blinds /\ n <= be_val b) ->
  pedersen_blind_sum P blinds npositive = [AInt 0] \/ pedersen_blind_sum P blinds npositive = [AInt 0; AIll 1].
Proof.
  intros H. unfold pedersen_blind_sum.
  destruct (Z.of_nat (length blinds) <? npositive); [right; reflexivity|].
  rewrite blind_sum_loop_overflow by exact H. left; reflexivity.
Qed.

(* what the helper computes when nothing overflows: sum of the first npositive minus the rest, mod n *)
Fixpoint signed_sum (i npos : nat) (blinds : list bytes) : Z :=
  match blinds with
  | [] => 0
  | b :: rest => (if Nat.leb npos i then - be_val b else be_val b) + signed_sum (S i) npos rest
  end.

Lemma blind_sum_loop_exact (Hn : 0 < n) blinds : forall i npos acc,
  (forall b, In b blinds -> be_val b < n) ->
  exists r, blind_sum_loop P i npos acc blinds = Some r /\ r mod n = (acc + signed_sum i npos blinds) mod n.
Proof.
  induction blinds as [|b rest IH]; intros i npos acc Hall.
  - exists acc. simpl. rewrite Z.add_0_r. auto.
  - simpl. unfold sc_of_b32.
    assert (Hb : be_val b < n) by (apply Hall; left; reflexivity).
    destruct (n <=? be_val b) eqn:E; [apply Z.leb_le in E; lia|].
    destruct (IH (S i) npos
               (sc_add P acc (if Nat.leb npos i then sc_neg P (be_val b mod n) else be_val b mod n)))
      as [r [Hr Hm]]; [intros; apply Hall; right; auto|].
    exists r. split; [exact Hr|]. rewrite Hm. unfold sc_add, sc_neg, madd, mneg.
    destruct (Nat.leb npos i).
    + rewrite Z.add_mod_idemp_l by lia.
      replace (acc + (- (be_val b mod n)) mod n + signed_sum (S i) npos rest)
        with ((- (be_val b mod n)) mod n + (acc + signed_sum (S i) npos rest)) by lia.
      rewrite Z.add_mod_idemp_l by lia.
      rewrite <- (Z.add_mod_idemp_l (- (be_val b mod n))) by lia.
      assert (Hneg : (- (be_val b mod n)) mod n = (- be_val b) mod n).
      { rewrite <- (Z.sub_0_l (be_val b mod n)), <- (Z.sub_0_l (be_val b)). rewrite Zminus_mod_idemp_r. reflexivity. }
      rewrite Hneg. rewrite Z.add_mod_idemp_l by lia. f_equal. lia.
    + rewrite Z.add_mod_idemp_l by lia.
      replace (acc + be_val b mod n + signed_sum (S i) npos rest)
        with (be_val b mod n + (acc + signed_sum (S i) npos rest)) by lia.
      rewrite Z.add_mod_idemp_l by lia. f_equal. lia.
Qed.

(* ------------------------------------------------------------------ blind_generator_blind_sum *)
Lemma bgbs_loop_overflow l : forall i ni sum tmp,
  (exists v gb bf, In (v, gb, bf) l /\ (n <= be_val gb \/ n <= be_val bf)) ->
  bgbs_loop P i ni sum tmp l = None.
Proof.
  induction l as [|[[v gb] bf] rest IH]; intros i ni sum tmp [v0 [gb0 [bf0 [Hin Hov]]]].
  - destruct Hin.
  - simpl. unfold sc_of_b32.
    destruct (n <=? be_val gb) eqn:E1; [reflexivity|].
    destruct (n <=? be_val bf) eqn:E2; [reflexivity|].
    apply Z.leb_gt in E1, E2.
    destruct Hin as [Heq|Hin]; [inversion Heq; subst; lia|].
    apply IH. exists v0, gb0, bf0. auto.
Qed.

Lemma bgbs_rejects_overflow values gblinds blinds n_total n_inputs :
  (exists v gb bf, In (v, gb, bf) (combine (combine values gblinds) blinds) /\ (n <= be_val gb \/ n <= be_val bf)) ->
  pedersen_blind_generator_blind_sum P values gblinds blinds n_total n_inputs = [AInt 0] \/
  pedersen_blind_generator_blind_sum P values gblinds blinds n_total n_inputs = [AInt 0; AIll 1].
Proof.
  intros H. unfold pedersen_blind_generator_blind_sum.
  destruct (n_total <=? n_inputs); [right; reflexivity|].
  rewrite bgbs_loop_overflow by exact H. left; reflexivity.
Qed.

(* ------------------------------------------------------------------ field helpers *)
Lemma mpow_pos_range m a e : 0 < m -> 0 <= mpow_pos m a e < m.
Proof. intros Hm. destruct e; simpl; apply Z.mod_pos_bound; lia. Qed.
Lemma mpow_range m a e : 0 < m -> 0 < e -> 0 <= mpow m a e < m.
Proof. intros Hm He. destruct e; try lia. apply mpow_pos_range; auto. Qed.

Hypothesis Hp : 3 < p.

Lemma sqrt_exp_pos : 0 < (p + 1) / 4.
Proof. apply Z.div_str_pos. lia. Qed.

Lemma fe_sqrt_range a : 0 <= fst (fe_sqrt P a) < p.
Proof. unfold fe_sqrt. simpl. apply mpow_range; [lia|apply sqrt_exp_pos]. Qed.

Lemma curve_rhs_range x : 0 <= curve_rhs P x < p.
Proof. unfold curve_rhs. apply Z.mod_pos_bound. lia. Qed.

Lemma sq_neg_mod y : (mneg p y * mneg p y) mod p = (y * y) mod p.
Proof.
  unfold mneg. rewrite <- Z.mul_mod by lia. f_equal. lia.
Qed.

Lemma mneg_range y : 0 <= mneg p y < p.
Proof. unfold mneg. apply Z.mod_pos_bound. lia. Qed.

(* a successful ge_set_xquad yields a point on the curve, and so does its negation *)
Lemma xquad_on_curve x y (flag : bool) :
  0 <= x < p -> ge_set_xquad P x = ((x, y), true) ->
  on_curve P (Some (x, if flag then mneg p y else y)) = true.
Proof.
  intros Hx H. unfold ge_set_xquad, fe_sqrt in H.
  assert (Hr : 0 <= mpow p (curve_rhs P x) ((p + 1) / 4) < p) by (apply mpow_range; [lia|apply sqrt_exp_pos]).
  set (r := mpow p (curve_rhs P x) ((p + 1) / 4)) in *.
  injection H as Hy Hok. subst y.
  apply Z.eqb_eq in Hok.
  assert (Hc : curve_rhs P x mod p = (x * x * x + cb P) mod p).
  { unfold curve_rhs. apply Z.mod_mod. lia. }
  rewrite Hc in Hok.
  unfold on_curve.
  pose proof (mneg_range r) as Hn.
  destruct flag.
  - rewrite sq_neg_mod. apply Z.eqb_eq in Hok. rewrite Hok.
    replace (0 <=? x) with true by (symmetry; apply Z.leb_le; lia).
    replace (x <? p) with true by (symmetry; apply Z.ltb_lt; lia).
    replace (0 <=? mneg p r) with true by (symmetry; apply Z.leb_le; lia).
    replace (mneg p r <? p) with true by (symmetry; apply Z.ltb_lt; lia).
    reflexivity.
  - apply Z.eqb_eq in Hok. rewrite Hok.
    replace (0 <=? x) with true by (symmetry; apply Z.leb_le; lia).
    replace (x <? p) with true by (symmetry; apply Z.ltb_lt; lia).
    replace (0 <=? r) with true by (symmetry; apply Z.leb_le; lia).
    replace (r <? p) with true by (symmetry; apply Z.ltb_lt; lia).
    reflexivity.
Qed.

(* ------------------------------------------------------------------ commitment parser *)
(* accepted iff the prefix is 8 or 9, x < p, and x^3 + b is a square (fe_is_square) *)
Lemma commitment_parse_exact input :
  pedersen_commitment_parse P input =
    if (Z.land (nth 0 input 0) 0xFE =? 8) && (be_val (firstn 32 (skipn 1 input)) <? p)
       && x_on_curve P (be_val (firstn 32 (skipn 1 input)))
    then [AInt 1; ABytes (pk_obj (commit_point P (be_val (firstn 32 (skipn 1 input))) (Z.odd (nth 0 input 0))))]
    else [AInt 0].
Proof.
  unfold pedersen_commitment_parse, fe_of_b32.
  set (x := be_val (firstn 32 (skipn 1 input))). set (b0 := nth 0 input 0).
  destruct (Z.land b0 254 =? 8); cbn [andb negb]; [|reflexivity].
  destruct (x <? p); cbn [andb negb]; [|reflexivity].
  destruct (x_on_curve P x); reflexivity.
Qed.

Lemma commitment_parse_rejects_off_curve input :
  x_on_curve P (be_val (firstn 32 (skipn 1 input))) = false -> pedersen_commitment_parse P input = [AInt 0].
Proof. intros H. rewrite commitment_parse_exact, H, andb_false_r. reflexivity. Qed.

Lemma commitment_parse_rejects_x_ge_p input :
  p <= be_val (firstn 32 (skipn 1 input)) -> pedersen_commitment_parse P input = [AInt 0].
Proof.
  intros H. rewrite commitment_parse_exact. apply Z.ltb_ge in H. rewrite H, andb_false_r. reflexivity.
Qed.

Lemma land254_8 b : 0 <= b < 256 -> Z.land b 254 = 8 -> b = 8 \/ b = 9.
Proof.
  intros Hb H.
  assert (A : forallb (fun b => implb (Z.land b 254 =? 8) ((b =? 8) || (b =? 9))) (zrange 256) = true)
    by (vm_compute; reflexivity).
  rewrite forallb_forall in A. specialize (A b (zrange_In 256 b Hb)).
  apply Z.eqb_eq in H. rewrite H in A. simpl in A.
  apply orb_true_iff in A. destruct A as [A|A]; apply Z.eqb_eq in A; auto.
Qed.
Lemma land254_10 b : 0 <= b < 256 -> Z.land b 254 = 10 -> b = 10 \/ b = 11.
Proof.
  intros Hb H.
  assert (A : forallb (fun b => implb (Z.land b 254 =? 10) ((b =? 10) || (b =? 11))) (zrange 256) = true)
    by (vm_compute; reflexivity).
  rewrite forallb_forall in A. specialize (A b (zrange_In 256 b Hb)).
  apply Z.eqb_eq in H. rewrite H in A. simpl in A.
  apply orb_true_iff in A. destruct A as [A|A]; apply Z.eqb_eq in A; auto.
Qed.

Lemma commitment_parse_rejects_prefix input :
  0 <= nth 0 input 0 < 256 -> nth 0 input 0 <> 8 -> nth 0 input 0 <> 9 -> pedersen_commitment_parse P input = [AInt 0].
Proof.
  intros Hr H8 H9. rewrite commitment_parse_exact.
  destruct (Z.land (nth 0 input 0) 254 =? 8) eqn:E; [|reflexivity].
  apply Z.eqb_eq in E. destruct (land254_8 _ Hr E); congruence.
Qed.

(* an accepted commitment holds a point of the curve (finite, coordinates reduced) *)
Lemma commitment_parse_on_curve input o :
  0 <= be_val (firstn 32 (skipn 1 input)) ->
  pedersen_commitment_parse P input = [AInt 1; ABytes o] ->
  exists Q, o = pk_obj Q /\ Q <> None /\ on_curve P Q = true.
Proof.
  intros Hx0 H. rewrite commitment_parse_exact in H.
  set (x := be_val (firstn 32 (skipn 1 input))) in *.
  destruct (Z.land (nth 0 input 0) 254 =? 8); cbn [andb] in H; [|discriminate].
  destruct (x <? p) eqn:Ex; cbn [andb] in H; [|discriminate].
  destruct (x_on_curve P x) eqn:Eo; [|discriminate].
  apply Z.ltb_lt in Ex.
  inversion H; subst o. clear H.
  unfold commit_point. unfold x_on_curve, fe_is_square in Eo.
  destruct (ge_set_xquad P x) as [[x' y] ok] eqn:E.
  assert (x' = x /\ ok = true) as [-> ->].
  { unfold ge_set_xquad in E. destruct (fe_sqrt P (curve_rhs P x)) as [r k]. simpl in Eo. inversion E. subst. auto. }
  eexists. split; [reflexivity|]. split; [discriminate|].
  apply xquad_on_curve; auto; lia.
Qed.

(* ------------------------------------------------------------------ generator parser *)
Lemma generator_parse_exact input :
  generator_parse P input =
    if (Z.land (nth 0 input 0) 0xFE =? 10) && (be_val (firstn 32 (skipn 1 input)) <? p)
       && x_on_curve P (be_val (firstn 32 (skipn 1 input)))
    then let x := be_val (firstn 32 (skipn 1 input)) in
         let y := fst (fe_sqrt P (curve_rhs P x)) in
         [AInt 1; ABytes (pk_obj (Some (x, if Z.odd (nth 0 input 0) then mneg p y else y)))]
    else [AInt 0].
Proof.
  unfold generator_parse, fe_of_b32, x_on_curve, fe_is_square, ge_set_xquad.
  set (x := be_val (firstn 32 (skipn 1 input))). set (b0 := nth 0 input 0).
  destruct (Z.land b0 254 =? 10); cbn [andb negb]; [|reflexivity].
  destruct (x <? p); cbn [andb negb]; [|reflexivity].
  destruct (fe_sqrt P (curve_rhs P x)) as [r ok]. cbn [fst snd].
  destruct ok; reflexivity.
Qed.

Lemma generator_parse_rejects_prefix input :
  0 <= nth 0 input 0 < 256 -> nth 0 input 0 <> 10 -> nth 0 input 0 <> 11 -> generator_parse P input = [AInt 0].
Proof.
  intros Hr H8 H9. rewrite generator_parse_exact.
  destruct (Z.land (nth 0 input 0) 254 =? 10) eqn:E; [|reflexivity].
  apply Z.eqb_eq in E. destruct (land254_10 _ Hr E); congruence.
Qed.

Lemma generator_parse_on_curve input o :
  0 <= be_val (firstn 32 (skipn 1 input)) ->
  generator_parse P input = [AInt 1; ABytes o] ->
  exists Q, o = pk_obj Q /\ Q <> None /\ on_curve P Q = true.
Proof.
  intros Hx0 H. rewrite generator_parse_exact in H.
  set (x := be_val (firstn 32 (skipn 1 input))) in *.
  destruct (Z.land (nth 0 input 0) 254 =? 10); cbn [andb] in H; [|discriminate].
  destruct (x <? p) eqn:Ex; cbn [andb] in H; [|discriminate].
  destruct (x_on_curve P x) eqn:Eo; [|discriminate].
  apply Z.ltb_lt in Ex. inversion H; subst o. clear H.
  eexists. split; [reflexivity|]. split; [discriminate|].
  apply xquad_on_curve; [lia|].
  unfold x_on_curve, fe_is_square in Eo. unfold ge_set_xquad, fe_sqrt in *. cbn [fst snd] in *.
  rewrite Eo. reflexivity.
Qed.

(* ------------------------------------------------------------------ tally *)
(* by definition: 1 iff (sum of positives) + -(sum of negatives), accumulated as the C code does, is infinity *)
Lemma tally_exact_def pos neg :
  pedersen_verify_tally P pos neg =
    [AInt (if is_inf (fold_left padd (map (commit_load P) pos)
                                (pneg (fold_left padd (map (commit_load P) neg) None))) then 1 else 0)].
Proof. reflexivity. Qed.

Section WithGroup.
Hypothesis MF : MathFacts P.
Notation oc := (oc P).

Lemma fold_padd_oc l : forall A, oc A -> Forall oc l -> oc (fold_left padd l A).
Proof.
  induction l as [|B l IH]; intros A HA Hl; simpl; auto.
  inversion Hl; subst. apply IH; auto. apply (oc_add P MF); auto.
Qed.

Lemma fold_padd_sum l : forall A, oc A -> Forall oc l -> fold_left padd l A = padd A (psum P l).
Proof.
  unfold psum. induction l as [|B l IH]; intros A HA Hl; simpl.
  - symmetry. apply padd_None_r.
  - inversion Hl; subst.
    rewrite IH by (auto; apply (oc_add P MF); auto).
    rewrite (IH B) by auto.
    apply (padd_assoc P MF); auto. apply fold_padd_oc; auto. reflexivity.
Qed.

Lemma psum_oc l : Forall oc l -> oc (psum P l).
Proof. intros. unfold psum. apply fold_padd_oc; auto. reflexivity. Qed.

(* [MF] tally returns 1 exactly when the two sums are the same point, i.e. positives minus negatives is infinity *)
Lemma tally_exact pos neg :
  Forall oc (map (commit_load P) pos) -> Forall oc (map (commit_load P) neg) ->
  (pedersen_verify_tally P pos neg = [AInt 1] <->
   psum P (map (commit_load P) pos) = psum P (map (commit_load P) neg)).
Proof.
  intros Hp' Hn'. rewrite tally_exact_def.
  set (Ps := map (commit_load P) pos) in *. set (Ns := map (commit_load P) neg) in *.
  assert (HN : oc (psum P Ns)) by (apply psum_oc; auto).
  assert (HP : oc (psum P Ps)) by (apply psum_oc; auto).
  change (fold_left padd Ns None) with (psum P Ns).
  rewrite fold_padd_sum by (auto; apply (oc_neg P MF); auto).
  split.
  - intros H.
    destruct (padd (pneg (psum P Ns)) (psum P Ps)) eqn:E; simpl in H; [discriminate|].
    apply (inv_unique P MF) in E; auto; [|apply (oc_neg P MF); auto].
    rewrite E. apply (pneg_involutive P MF); auto.
  - intros H. rewrite H.
    rewrite (padd_comm P MF) by (auto; apply (oc_neg P MF); auto).
    rewrite (padd_neg P MF) by auto. reflexivity.
Qed.

(* [MF] blinded generation = unblinded generation + blind*G, provided the two Shallue-van de Woestijne
   points are on the curve (that premise is a number-theoretic fact about the map, not about the code) *)
Lemma generate_blinded_eq_partial key32 blind32 :
  let t1 := be_val (sha256 (prefix_1st ++ key32)) mod p in
  let t2 := be_val (sha256 (prefix_2nd ++ key32)) mod p in
  oc (shallue_van_de_woestijne P t1) -> oc (shallue_van_de_woestijne P t2) ->
  snd (generator_generate_internal P key32 (Some blind32)) =
    padd (pmul (be_val blind32 mod n) G) (snd (generator_generate_internal P key32 None)).
Proof.
  intros t1 t2 H1 H2. unfold generator_generate_internal, sc_of_b32. cbn [fst snd].
  fold t1 t2. rewrite padd_None_l.
  apply (padd_assoc P MF); auto.
  apply (oc_pmul P MF). apply (oc_G P MF).
Qed.
End WithGroup.

(* generation is a function of the seed only: same seed, same generator (trivially, the model is a function),
   and the return value does not depend on the blind unless it overflows *)
Lemma generate_blinded_ret key32 blind32 :
  fst (generator_generate_internal P key32 (Some blind32)) =
    negb (n <=? be_val blind32) && fst (generator_generate_internal P key32 None).
Proof.
  unfold generator_generate_internal, sc_of_b32. cbn [fst snd].
  destruct (n <=? be_val blind32); cbn [negb andb]; reflexivity.
Qed.
End PedersenProofs.

(* ------------------------------------------------------------------ constants *)
(* the static generator h: x = SHA256(uncompressed encoding of G), and (x, y) is on the curve *)
Lemma generator_h_is_sha256_of_G :
  firstn 32 generator_h_bytes = sha256 (ser65 (G secp256k1)) /\
  on_curve secp256k1 (gen_load generator_h_bytes) = true.
Proof. split; vm_compute; reflexivity. Qed.

(* non-vacuity on the toy curve (p = 43, n = 31), where MathFacts is a theorem:
   every point survives a serialise/parse round trip of the commitment encoding, and tally accepts C - C *)
Definition toy_ser_commit (Q : point) : bytes :=
  match Q with Some (x, y) => (if fe_is_square toy y then 8 else 9) :: be_enc 32 x | None => [] end.
Example toy_commitment_roundtrip :
  forallb (fun Q => match Q with
                    | None => true
                    | Some _ => match pedersen_commitment_parse toy (toy_ser_commit Q) with
                                | [AInt 1; ABytes o] => bytes_eqb o (pk_obj Q)
                                | _ => false end
                    end) toy_points = true.
Proof. vm_compute. reflexivity. Qed.
Example toy_tally :
  pedersen_verify_tally toy [pk_obj (pmul toy 5 (G toy))] [pk_obj (pmul toy 5 (G toy))] = [AInt 1] /\
  pedersen_verify_tally toy [pk_obj (pmul toy 5 (G toy))] [pk_obj (pmul toy 6 (G toy))] = [AInt 0].
Proof. split; vm_compute; reflexivity. Qed.
