(* Lemmas about Model/Surjection.v (property C11).  No premises about the curve are needed: everything
   here is about encodings, counts, scalar ranges and the subset-selection loop. *)
From Coq Require Import ZArith List Bool Lia.
Require Import Spec.Params Spec.Field Spec.Curve Spec.Bytes Spec.Sha256 Model.Base Model.Borromean Model.Surjection.
Import ListNotations.
Local Open Scope Z_scope.

(* ------------------------------------------------------------------ small facts *)
Lemma b2z_range : forall b, 0 <= b2z b <= 1.
Proof. destruct b; simpl; lia. Qed.

Lemma popcount8_nonneg : forall b, 0 <= popcount8 b <= 8.
Proof.
  intros b. unfold popcount8.
  pose proof (b2z_range (Z.testbit b 0)). pose proof (b2z_range (Z.testbit b 1)).
  pose proof (b2z_range (Z.testbit b 2)). pose proof (b2z_range (Z.testbit b 3)).
  pose proof (b2z_range (Z.testbit b 4)). pose proof (b2z_range (Z.testbit b 5)).
  pose proof (b2z_range (Z.testbit b 6)). pose proof (b2z_range (Z.testbit b 7)). lia.
Qed.

Lemma count_bits_nonneg : forall l, 0 <= count_bits l.
Proof. induction l; simpl; [lia | pose proof (popcount8_nonneg a); lia]. Qed.

Lemma testbit_255 : forall j, Z.testbit 255 j = (0 <=? j) && (j <? 8).
Proof. intros j. change 255 with (Z.ones 8). apply Z.testbit_ones. lia. Qed.

(* bit j of the padding mask (unsigned char)(~0U << k) *)
Lemma padding_mask_bit : forall k j, 0 <= k < 8 -> 0 <= j ->
  Z.testbit (Z.land (Z.shiftl 255 k) 255) j = (k <=? j) && (j <? 8).
Proof.
  intros k j Hk Hj. rewrite Z.land_spec. rewrite (Z.shiftl_spec 255 k j Hj). rewrite !testbit_255.
  destruct (Z.leb_spec k j); destruct (Z.ltb_spec j 8); destruct (Z.leb_spec 0 (j - k)); destruct (Z.ltb_spec (j - k) 8);
      destruct (Z.leb_spec 0 j); simpl; try reflexivity; lia.
Qed.

(* "no padding bit set" in its two forms *)
Lemma land_mask_zero_iff : forall b k, 0 <= k < 8 ->
  (Z.land b (Z.land (Z.shiftl 255 k) 255) = 0 <-> forall j, k <= j < 8 -> Z.testbit b j = false).
Proof.
  intros b k Hk. split.
  - intros H j Hj.
    assert (E : Z.testbit (Z.land b (Z.land (Z.shiftl 255 k) 255)) j = false) by (rewrite H; apply Z.bits_0).
    rewrite Z.land_spec, padding_mask_bit in E by lia.
    destruct (Z.leb_spec k j); destruct (Z.ltb_spec j 8); try lia. simpl in E. rewrite andb_true_r in E. exact E.
  - intros H. apply Z.bits_inj'. intros j Hj. rewrite Z.bits_0, Z.land_spec, padding_mask_bit by lia.
    destruct (Z.leb_spec k j); destruct (Z.ltb_spec j 8); simpl; try apply andb_false_r.
    rewrite H by lia. reflexivity.
Qed.

(* ------------------------------------------------------------------ parser exactness *)
Definition n_field (input : bytes) : Z := nth 1 input 0 * 256 + nth 0 input 0.
Definition bitmap_of (input : bytes) : bytes := firstn (Z.to_nat (bitmap_len (n_field input))) (skipn 2 input).

(* the canonical encodings: at most 256 inputs, exact length 2 + ceil(n/8) + 32*(1 + popcount), and no
   bit set in the bitmap at a position >= n *)
Definition canonical (input : bytes) : Prop :=
  let len := Z.of_nat (length input) in
  let n := n_field input in
  2 <= len /\ n <= 256 /\
  len = 2 + bitmap_len n + 32 * (1 + count_bits (bitmap_of input)) /\
  (forall j, n mod 8 <> 0 -> n mod 8 <= j < 8 -> Z.testbit (nth (Z.to_nat (2 + bitmap_len n - 1)) input 0) j = false).

Lemma parse_some_iff : forall input,
  (exists pr, parse input = Some pr) <-> canonical input.
Proof.
  intros input. unfold parse, canonical, bitmap_of, n_field, padding_mask, SJ_MAX_N_INPUTS.
  set (len := Z.of_nat (length input)).
  set (n := nth 1 input 0 * 256 + nth 0 input 0).
  set (bl := bitmap_len n).
  set (bm := firstn (Z.to_nat bl) (skipn 2 input)).
  pose proof (count_bits_nonneg bm) as Hcb.
  assert (Hmod : 0 <= n mod 8 < 8) by (apply Z.mod_pos_bound; lia).
  destruct (Z.ltb_spec len 2).
  { split; [intros [pr H0]; discriminate | intros (H1 & _); lia]. }
  destruct (Z.ltb_spec 256 n).
  { split; [intros [pr H1]; discriminate | intros (_ & H2 & _); lia]. }
  destruct (Z.ltb_spec len (2 + bl)).
  { split; [intros [pr H2]; discriminate | intros (_ & _ & H3 & _); lia]. }
  destruct (Z.eqb_spec (n mod 8) 0) as [Hz | Hnz]; cbn [negb andb].
  - destruct (Z.eqb_spec len (2 + bl + 32 * (1 + count_bits bm))); cbn [negb andb].
    + split; [intros _ | intros _; eexists; reflexivity]. repeat split; try lia; try (intros; lia).
    + split; [intros [pr H3]; discriminate | intros (_ & _ & H3 & _); lia].
  - destruct (Z.eqb_spec (Z.land (nth (Z.to_nat (2 + bl - 1)) input 0) (Z.land (Z.shiftl 255 (n mod 8)) 255)) 0) as [Hp | Hp]; cbn [negb andb].
    + destruct (Z.eqb_spec len (2 + bl + 32 * (1 + count_bits bm))); cbn [negb andb].
      * split; [intros _ | intros _; eexists; reflexivity]. repeat split; try lia.
        intros j _ Hj. apply (proj1 (land_mask_zero_iff _ _ Hmod) Hp). exact Hj.
      * split; [intros [pr H3]; discriminate | intros (_ & _ & H3 & _); lia].
    + split; [intros [pr H3]; discriminate |]. intros (_ & _ & _ & H4). exfalso. apply Hp.
      apply (proj2 (land_mask_zero_iff _ _ Hmod)). intros j Hj. apply H4; assumption.
Qed.

Lemma parse_result : forall input pr, parse input = Some pr ->
  sp_n pr = n_field input /\ sp_used pr = bitmap_of input /\
  sp_data pr = skipn (Z.to_nat (2 + bitmap_len (n_field input))) input /\
  Z.of_nat (length input) = 2 + bitmap_len (n_field input) + 32 * (1 + count_bits (bitmap_of input)) /\
  2 <= Z.of_nat (length input) /\ n_field input <= 256.
Proof.
  intros input pr H.
  assert (C : canonical input) by (apply parse_some_iff; eauto).
  destruct C as (C1 & C2 & C3 & _).
  unfold parse in H. fold (n_field input) in H.
  repeat match type of H with
  | (if ?c then None else _) = Some _ => destruct c; [discriminate |]
  end.
  inversion H; subst; simpl. unfold bitmap_of. repeat split; auto.
Qed.

Lemma two_bytes : forall b0 b1, 0 <= b0 < 256 -> 0 <= b1 < 256 ->
  (b1 * 256 + b0) mod 256 = b0 /\ ((b1 * 256 + b0) / 256) mod 256 = b1.
Proof.
  intros. split.
  - rewrite Z.add_comm, Z.mod_add by lia. apply Z.mod_small; lia.
  - rewrite Z.add_comm, Z.div_add by lia. rewrite (Z.div_small b0) by lia. simpl. apply Z.mod_small; lia.
Qed.

(* serialization of a parsed proof gives back the input bytes *)
Lemma serialize_parse_lemma : forall input pr, bytes_ok input = true -> parse input = Some pr ->
  serialize_bytes pr = input /\ serialized_size pr = Z.of_nat (length input).
Proof.
  intros input pr Hok H. destruct (parse_result _ _ H) as (Hn & Hu & Hd & Hlen & H2 & H256).
  set (n := n_field input) in *. set (bl := bitmap_len n) in *.
  assert (Hbl : 0 <= bl) by (unfold bl, bitmap_len; apply Z.div_pos; [|lia];
    unfold n, n_field; unfold bytes_ok in Hok; rewrite forallb_forall in Hok;
    assert (forall k, 0 <= nth k input 0) by (intros k; destruct (nth_in_or_default k input 0) as [Hi|Hi];
      [apply Hok in Hi; lia | rewrite Hi; lia]);
    pose proof (H0 0%nat); pose proof (H0 1%nat); lia).
  assert (Hbm : length (bitmap_of input) = Z.to_nat bl).
  { unfold bitmap_of. fold n bl. rewrite firstn_length, skipn_length.
    pose proof (count_bits_nonneg (bitmap_of input)). lia. }
  assert (Hup : used_prefix pr = bitmap_of input).
  { unfold used_prefix. rewrite Hn, Hu. fold n bl. rewrite <- Hbm. apply firstn_all. }
  assert (Hsl : sig_len pr = 32 * (1 + count_bits (bitmap_of input))).
  { unfold sig_len, n_used_inputs. rewrite Hup. reflexivity. }
  split.
  2:{ unfold serialized_size. rewrite Hsl, Hn. fold n bl. lia. }
  unfold serialize_bytes. rewrite Hup, Hsl, Hd, Hn. fold n.
  destruct input as [| b0 [| b1 rest]]; [simpl in H2; lia | simpl in H2; lia |].
  assert (R0 : 0 <= b0 < 256 /\ 0 <= b1 < 256).
  { unfold bytes_ok in Hok. simpl in Hok. rewrite !andb_true_iff in Hok. lia. }
  assert (En : n = b1 * 256 + b0) by reflexivity.
  destruct (two_bytes b0 b1 (proj1 R0) (proj2 R0)) as [E0 E1].
  assert (Ebm : bitmap_of (b0 :: b1 :: rest) = firstn (Z.to_nat bl) rest) by reflexivity.
  assert (Esk : skipn (Z.to_nat (2 + bl)) (b0 :: b1 :: rest) = skipn (Z.to_nat bl) rest).
  { replace (Z.to_nat (2 + bl)) with (S (S (Z.to_nat bl))) by lia. reflexivity. }
  assert (Hrest : Z.of_nat (length rest) = bl + 32 * (1 + count_bits (bitmap_of (b0 :: b1 :: rest)))).
  { change (length (b0 :: b1 :: rest)) with (S (S (length rest))) in Hlen. lia. }
  pose proof (count_bits_nonneg (bitmap_of (b0 :: b1 :: rest))) as Hcb.
  rewrite Esk, En, E0, E1. cbn [app]. do 2 f_equal.
  rewrite firstn_all2 by (rewrite skipn_length; lia).
  rewrite Ebm. apply firstn_skipn.
Qed.

(* ------------------------------------------------------------------ serialize then parse *)
(* a well-formed object: what initialize / parse / generate produce *)
Definition wf_proof (pr : sproof) : Prop :=
  0 <= sp_n pr <= 256 /\
  (Z.to_nat (bitmap_len (sp_n pr)) <= length (sp_used pr))%nat /\
  (Z.to_nat (sig_len pr) <= length (sp_data pr))%nat /\
  (forall j, sp_n pr mod 8 <> 0 -> sp_n pr mod 8 <= j < 8 ->
     Z.testbit (nth (Z.to_nat (bitmap_len (sp_n pr) - 1)) (sp_used pr) 0) j = false).

Lemma nth_app_firstn : forall (l r : bytes) k i, (i < k)%nat -> (k <= length l)%nat -> nth i (firstn k l ++ r) 0 = nth i l 0.
Proof.
  intros l r k i Hi Hk. rewrite app_nth1 by (rewrite firstn_length; lia).
  revert l k Hi Hk. induction i; intros [|x l] [|k] Hi Hk; simpl in *; try lia; auto. apply IHi; lia.
Qed.

Lemma parse_serialize_lemma : forall pr, wf_proof pr ->
  parse (serialize_bytes pr) =
  Some (mkProof (sp_n pr) (used_prefix pr) (firstn (Z.to_nat (sig_len pr)) (sp_data pr))).
Proof.
  intros pr (Hn & Hu & Hd & Hpad).
  set (n := sp_n pr) in *. set (bl := bitmap_len n) in *.
  assert (Hbl : 0 <= bl <= 32).
  { unfold bl, bitmap_len. split; [apply Z.div_pos; lia |].
    assert ((n + 7) / 8 < 33) by (apply Z.div_lt_upper_bound; lia). lia. }
  assert (Hsl : 32 <= sig_len pr) by (unfold sig_len, n_used_inputs; pose proof (count_bits_nonneg (used_prefix pr)); lia).
  assert (Lup : length (used_prefix pr) = Z.to_nat bl) by (unfold used_prefix; fold n bl; rewrite firstn_length; lia).
  assert (Ldat : length (firstn (Z.to_nat (sig_len pr)) (sp_data pr)) = Z.to_nat (sig_len pr)) by (rewrite firstn_length; lia).
  assert (E0 : (n / 256 mod 256) * 256 + n mod 256 = n).
  { rewrite (Z.mod_small (n / 256)) by (split; [apply Z.div_pos; lia | apply Z.div_lt_upper_bound; lia]).
    pose proof (Z.div_mod n 256). lia. }
  unfold parse, serialize_bytes. fold n.
  change (nth 1 ([n mod 256; n / 256 mod 256] ++ _) 0) with (n / 256 mod 256).
  change (nth 0 ([n mod 256; n / 256 mod 256] ++ _) 0) with (n mod 256).
  rewrite E0. fold bl.
  set (tail := used_prefix pr ++ firstn (Z.to_nat (sig_len pr)) (sp_data pr)).
  assert (Ltot : Z.of_nat (length ([n mod 256; n / 256 mod 256] ++ tail)) = 2 + bl + sig_len pr).
  { unfold tail. rewrite !app_length, Lup, Ldat. simpl length. lia. }
  rewrite Ltot.
  assert (Ebm : firstn (Z.to_nat bl) (skipn 2 ([n mod 256; n / 256 mod 256] ++ tail)) = used_prefix pr).
  { simpl skipn. unfold tail. rewrite <- Lup. rewrite firstn_app, Nat.sub_diag, firstn_all. simpl. apply app_nil_r. }
  rewrite Ebm.
  assert (Esl : 32 * (1 + count_bits (used_prefix pr)) = sig_len pr) by reflexivity.
  rewrite Esl.
  destruct (Z.ltb_spec (2 + bl + sig_len pr) 2); [lia |].
  unfold SJ_MAX_N_INPUTS. destruct (Z.ltb_spec 256 n); [lia |].
  destruct (Z.ltb_spec (2 + bl + sig_len pr) (2 + bl)); [lia |].
  rewrite Z.eqb_refl. simpl negb at 3.
  assert (Hmod : 0 <= n mod 8 < 8) by (apply Z.mod_pos_bound; lia).
  assert (Epad : negb (n mod 8 =? 0) &&
                 negb (Z.land (nth (Z.to_nat (2 + bl - 1)) ([n mod 256; n / 256 mod 256] ++ tail) 0) (padding_mask n) =? 0) = false).
  { destruct (Z.eqb_spec (n mod 8) 0); [reflexivity |]. cbn [negb andb].
    assert (Hbl1 : 1 <= bl).
    { unfold bl, bitmap_len. assert (n mod 8 <= n) by (apply Z.mod_le; lia). apply Z.div_le_lower_bound; lia. }
    replace (Z.to_nat (2 + bl - 1)) with (S (S (Z.to_nat (bl - 1)))) by lia.
    cbn [app nth]. unfold tail, used_prefix. fold n bl.
    rewrite nth_app_firstn by lia.
    apply negb_false_iff, Z.eqb_eq. apply (proj2 (land_mask_zero_iff _ _ Hmod)).
    intros j Hj. apply Hpad; assumption. }
  rewrite Epad.
  f_equal. f_equal.
  replace (Z.to_nat (2 + bl)) with (S (S (Z.to_nat bl))) by lia. simpl skipn. unfold tail.
  rewrite <- Lup. rewrite skipn_app, Nat.sub_diag, skipn_all. reflexivity.
Qed.

(* ------------------------------------------------------------------ verification: rejection clauses *)
Section Verify.
Variable P : Params.

Lemma verify_rejects_empty_lemma : forall pr in_tags out_tag,
  n_used_inputs pr = 0 -> verify P pr in_tags out_tag = false.
Proof. intros pr i o H. unfold verify. rewrite H. reflexivity. Qed.

Lemma verify_rejects_count_mismatch_lemma : forall pr in_tags out_tag,
  sp_n pr <> Z.of_nat (length in_tags) -> verify P pr in_tags out_tag = false.
Proof.
  intros pr i o H. unfold verify, n_total_inputs.
  destruct (Z.eqb_spec (sp_n pr) (Z.of_nat (length i))); [contradiction |].
  simpl. rewrite !orb_true_r. reflexivity.
Qed.

Lemma verify_rejects_more_used_than_total_lemma : forall pr in_tags out_tag,
  sp_n pr < n_used_inputs pr -> verify P pr in_tags out_tag = false.
Proof.
  intros pr i o H. unfold verify, n_total_inputs.
  destruct (Z.ltb_spec (sp_n pr) (n_used_inputs pr)); [| lia].
  rewrite orb_true_r. reflexivity.
Qed.

Lemma load_scalars_overflow : forall chunks c, In c chunks -> cn P <= be_val c -> load_scalars P chunks = None.
Proof.
  induction chunks as [| x rest IH]; intros c Hin Hc; [destruct Hin |].
  simpl. unfold sc_of_b32. destruct Hin as [-> | Hin].
  - destruct (Z.leb_spec (cn P) (be_val c)); [reflexivity | lia].
  - destruct (cn P <=? be_val x); [reflexivity |]. rewrite (IH c Hin Hc). reflexivity.
Qed.

(* the i-th ring scalar of the proof, as stored: data[32+32i .. 64+32i) *)
Definition proof_scalar_bytes (pr : sproof) (i : nat) : bytes := firstn 32 (skipn (32 + 32 * i)%nat (sp_data pr)).

Lemma verify_rejects_scalar_ge_n_lemma : forall pr in_tags out_tag i,
  (i < Z.to_nat (n_used_inputs pr))%nat -> cn P <= be_val (proof_scalar_bytes pr i) ->
  verify P pr in_tags out_tag = false.
Proof.
  intros pr it o i Hi Hc. unfold verify.
  destruct ((n_used_inputs pr =? 0) || (n_total_inputs pr <? n_used_inputs pr) ||
            negb (n_total_inputs pr =? Z.of_nat (length it))); [reflexivity |].
  destruct (SJ_MAX_USED_INPUTS <? n_used_inputs pr); [reflexivity |].
  rewrite (load_scalars_overflow (data_chunks (sp_data pr) (Z.to_nat (n_used_inputs pr))) (proof_scalar_bytes pr i)); auto.
  unfold data_chunks, proof_scalar_bytes. apply in_map_iff. exists i. split; [reflexivity |].
  apply in_seq. lia.
Qed.

(* exact characterisation: verify returns 1 iff the counts are consistent, every stored scalar is < n,
   and the Borromean ring signature over (output - selected inputs) holds *)
Lemma load_scalars_some : forall chunks,
  (forall c, In c chunks -> be_val c < cn P) ->
  load_scalars P chunks = Some (map (fun c => be_val c mod cn P) chunks).
Proof.
  induction chunks as [| x rest IH]; intros H; [reflexivity |].
  simpl. unfold sc_of_b32. destruct (Z.leb_spec (cn P) (be_val x)).
  - specialize (H x (or_introl eq_refl)). lia.
  - rewrite IH by (intros c Hc; apply H; right; exact Hc). reflexivity.
Qed.

Lemma load_scalars_none_inv : forall chunks, load_scalars P chunks = None -> exists c, In c chunks /\ cn P <= be_val c.
Proof.
  induction chunks as [| x rest IH]; simpl; [discriminate |]. unfold sc_of_b32.
  destruct (Z.leb_spec (cn P) (be_val x)) as [Hge | Hlt]; intros HN.
  - exists x. auto.
  - destruct (load_scalars P rest) eqn:E; [discriminate |]. destruct (IH eq_refl) as (c & Hc & Hv). exists c. auto.
Qed.

Lemma verify_iff_lemma : forall pr in_tags out_tag,
  verify P pr in_tags out_tag = true <->
  (n_used_inputs pr <> 0 /\ n_used_inputs pr <= sp_n pr /\ n_used_inputs pr <= 256 /\
   sp_n pr = Z.of_nat (length in_tags) /\
   (forall i, (i < Z.to_nat (n_used_inputs pr))%nat -> be_val (proof_scalar_bytes pr i) < cn P) /\
   borromean_verify P (firstn 32 (sp_data pr))
     (map (fun c => be_val c mod cn P) (data_chunks (sp_data pr) (Z.to_nat (n_used_inputs pr))))
     (fst (compute_public_keys P in_tags 0 (sp_used pr) (tag_load out_tag) 0 0))
     [Z.to_nat (n_used_inputs pr)] 1 (genmessage in_tags out_tag) = true).
Proof.
  intros pr it o. unfold verify, n_total_inputs, SJ_MAX_USED_INPUTS.
  destruct (Z.eqb_spec (n_used_inputs pr) 0); cbn [negb orb].
  { split; [discriminate | intros (X & _); contradiction]. }
  destruct (Z.ltb_spec (sp_n pr) (n_used_inputs pr)); cbn [negb orb].
  { split; [discriminate | intros (_ & X1 & _); lia]. }
  destruct (Z.eqb_spec (sp_n pr) (Z.of_nat (length it))); cbn [negb orb].
  2:{ split; [discriminate | intros (_ & _ & _ & X1 & _); contradiction]. }
  destruct (Z.ltb_spec 256 (n_used_inputs pr)).
  { split; [discriminate | intros (_ & _ & X1 & _); lia]. }
  destruct (load_scalars P (data_chunks (sp_data pr) (Z.to_nat (n_used_inputs pr)))) eqn:E.
  - assert (Hall : forall c, In c (data_chunks (sp_data pr) (Z.to_nat (n_used_inputs pr))) -> be_val c < cn P).
    { intros c Hc. destruct (Z.lt_ge_cases (be_val c) (cn P)); [assumption |].
      rewrite (load_scalars_overflow _ c Hc) in E by lia. discriminate. }
    rewrite (load_scalars_some _ Hall) in E. inversion E; subst l.
    split.
    + intros Hv. repeat split; auto; try lia. intros i Hi. apply Hall.
      unfold data_chunks, proof_scalar_bytes. apply in_map_iff. exists i. split; [reflexivity | apply in_seq; lia].
    + intros (_ & _ & _ & _ & _ & Hv). exact Hv.
  - split; [discriminate |]. intros (_ & _ & _ & _ & Hs & _).
    destruct (load_scalars_none_inv _ E) as (c & Hc & Hv).
    unfold data_chunks in Hc. apply in_map_iff in Hc. destruct Hc as (i & <- & Hi). apply in_seq in Hi.
    specialize (Hs i ltac:(lia)). unfold proof_scalar_bytes in Hs. lia.
Qed.
End Verify.

(* ------------------------------------------------------------------ initialize: soundness *)
Lemma nth_upd_same : forall (l : bytes) i v, (i < length l)%nat -> nth i (upd i v l) 0 = v.
Proof. induction l; intros [|i] v H; simpl in *; try lia; auto. apply IHl. lia. Qed.
Lemma nth_upd_other : forall (l : bytes) i j v, i <> j -> nth j (upd i v l) 0 = nth j l 0.
Proof. induction l; intros [|i] [|j] v H; simpl in *; try lia; auto. Qed.
Lemma upd_length : forall (l : bytes) i v, length (upd i v l) = length l.
Proof. induction l; intros [|i] v; simpl; auto. Qed.

Lemma bit_set_length : forall used i, length (bit_set used i) = length used.
Proof. intros. apply upd_length. Qed.

Lemma bit_set_same : forall used i, 0 <= i < 8 * Z.of_nat (length used) -> bit_test (bit_set used i) i = true.
Proof.
  intros used i Hi. unfold bit_test, bit_set.
  assert (0 <= i / 8 < Z.of_nat (length used)) by (split; [apply Z.div_pos; lia | apply Z.div_lt_upper_bound; lia]).
  rewrite nth_upd_same by lia. rewrite Z.lor_spec, Z.pow2_bits_true by (apply Z.mod_pos_bound; lia).
  apply orb_true_r.
Qed.

Lemma bit_set_mono : forall used i j, bit_test used j = true -> bit_test (bit_set used i) j = true.
Proof.
  intros used i j H. unfold bit_test, bit_set in *.
  destruct (Nat.eq_dec (Z.to_nat (i / 8)) (Z.to_nat (j / 8))) as [E | E].
  - destruct (Nat.lt_ge_cases (Z.to_nat (i / 8)) (length used)) as [L | L].
    + rewrite <- E, nth_upd_same by assumption. rewrite Z.lor_spec. rewrite E, H. reflexivity.
    + rewrite <- E in *. rewrite nth_overflow in H by lia. rewrite Z.bits_0 in H. discriminate.
  - rewrite nth_upd_other by assumption. exact H.
Qed.

Lemma csprng_next_range : forall fuel c m v c', 0 < m -> csprng_next fuel c m = Some (v, c') -> 0 <= v < m.
Proof.
  induction fuel; intros c m v c' Hm H; simpl in H; [discriminate |].
  destruct c as [st i].
  destruct (32 <=? i + (if 256 <? m then 2 else 1)).
  - match type of H with (if ?c then _ else _) = _ => destruct c end.
    + inversion H; subst. apply Z.mod_pos_bound; lia.
    + eapply IHfuel; eauto.
  - match type of H with (if ?c then _ else _) = _ => destruct c end.
    + inversion H; subst. apply Z.mod_pos_bound; lia.
    + eapply IHfuel; eauto.
Qed.

Local Opaque CSPRNG_FUEL PICK_FUEL.

(* invariant of the selection loops: a recorded index is selected, in range, and its tag is the output tag *)
Definition found_ok (tags : list bytes) (out : bytes) (used : bytes) (found : option Z) : Prop :=
  match found with
  | None => True
  | Some idx => bit_test used idx = true /\ bytes_eqb (nth (Z.to_nat idx) tags []) out = true /\
                0 <= idx < Z.of_nat (length tags)
  end.

Lemma pick_index_inv : forall fuel c n tags out used found used' c' found',
  n = Z.of_nat (length tags) -> 0 < n -> n <= 8 * Z.of_nat (length used) ->
  found_ok tags out used found ->
  pick_index fuel c n tags out used found = Some (used', c', found') ->
  found_ok tags out used' found' /\ length used' = length used.
Proof.
  induction fuel; intros c n tags out used found used' c' found' Hn Hpos Hlen Hinv H; simpl in H; [discriminate |].
  destruct (csprng_next CSPRNG_FUEL c n) as [[idx c1] |] eqn:Ec; [| discriminate].
  pose proof (csprng_next_range _ _ _ _ _ Hpos Ec) as Hr.
  destruct (bit_test used idx) eqn:Eb.
  - refine (IHfuel _ _ _ _ _ _ _ _ _ Hn Hpos Hlen _ H).
    destruct (bytes_eqb (nth (Z.to_nat idx) tags []) out) eqn:Et; [| exact Hinv].
    simpl. repeat split; auto; lia.
  - inversion H; subst used' c' found'. split; [| apply bit_set_length].
    destruct (bytes_eqb (nth (Z.to_nat idx) tags []) out) eqn:Et.
    + simpl. repeat split; auto; try lia. apply bit_set_same. lia.
    + destruct found as [j |]; [| exact I]. destruct Hinv as (H1 & H2 & H3). cbn [found_ok].
      split; [apply bit_set_mono; exact H1 | split; [exact H2 | lia]].
Qed.

Lemma pick_n_inv : forall k c n tags out used found used' c' found',
  n = Z.of_nat (length tags) -> 0 < n -> n <= 8 * Z.of_nat (length used) ->
  found_ok tags out used found ->
  pick_n k c n tags out used found = Some (used', c', found') ->
  found_ok tags out used' found' /\ length used' = length used.
Proof.
  induction k; intros c n tags out used found used' c' found' Hn Hpos Hlen Hinv H; simpl in H.
  - inversion H; subst. auto.
  - destruct (pick_index PICK_FUEL c n tags out used found) as [[[u1 c1] f1] |] eqn:E; [| discriminate].
    destruct (pick_index_inv _ _ _ _ _ _ _ _ _ _ Hn Hpos Hlen Hinv E) as [I1 L1].
    assert (HL1 : n <= 8 * Z.of_nat (length u1)) by (rewrite L1; exact Hlen).
    destruct (IHk _ _ _ _ _ _ _ _ _ Hn Hpos HL1 I1 H) as [I2 L2].
    split; [exact I2 | congruence].
Qed.

Lemma init_loop_sound : forall fuel iters c n k tags out n_max it idx used,
  n = Z.of_nat (length tags) -> 0 < n <= 256 -> 0 <= iters ->
  init_loop fuel iters c n k tags out n_max = InitOk it idx used ->
  bit_test used idx = true /\ bytes_eqb (nth (Z.to_nat idx) tags []) out = true /\
  0 <= idx < n /\ iters < it /\ length used = 32%nat.
Proof.
  induction fuel; intros iters c n k tags out n_max it idx used Hn Hr Hi H; simpl in H; [discriminate |].
  destruct (pick_n (Z.to_nat k) c n tags out (zeros 32) None) as [[[u1 c1] f1] |] eqn:E; [| discriminate].
  assert (L0 : length (zeros 32) = 32%nat) by reflexivity.
  assert (I0 : found_ok tags out (zeros 32) None) by exact I.
  assert (HL : n <= 8 * Z.of_nat (length (zeros 32))) by (rewrite L0; lia).
  destruct (pick_n_inv _ _ _ _ _ _ _ _ _ _ Hn (proj1 Hr) HL I0 E) as [I1 L1].
  destruct f1 as [j |].
  - inversion H; subst it idx used. simpl in I1. destruct I1 as (A & B & C). repeat split; auto; try lia; congruence.
  - destruct (n_max <=? iters + 1); [discriminate |].
    assert (Hi1 : 0 <= iters + 1) by lia.
    destruct (IHfuel _ _ _ _ _ _ _ _ _ _ Hn Hr Hi1 H) as (A & B & C & D & F). repeat split; auto; lia.
Qed.

(* success => the reported index is selected in the bitmap, holds the output tag, is a valid input index;
   the return value is the (positive) number of iterations, at most max(1, n_max_iterations) *)
Lemma init_loop_iters : forall fuel iters c n k tags out n_max it idx used,
  init_loop fuel iters c n k tags out n_max = InitOk it idx used -> it <= iters + Z.of_nat fuel.
Proof.
  induction fuel; intros iters c n k tags out n_max it idx used H; simpl in H; [discriminate |].
  destruct (pick_n (Z.to_nat k) c n tags out (zeros 32) None) as [[[u1 c1] f1] |]; [| discriminate].
  destruct f1.
  - inversion H; subst. lia.
  - destruct (n_max <=? iters + 1); [discriminate |]. apply IHfuel in H. lia.
Qed.

Lemma initialize_sound_lemma : forall tags n_to_use out n_max seed it idx used,
  (0 < length tags <= 256)%nat ->
  initialize tags n_to_use out n_max seed = InitOk it idx used ->
  bit_test used idx = true /\ nth (Z.to_nat idx) tags [] = out /\
  0 <= idx < Z.of_nat (length tags) /\ 1 <= it <= Z.max 1 n_max /\ length used = 32%nat.
Proof.
  intros tags k out n_max seed it idx used Hlen H. unfold initialize in H.
  pose proof (init_loop_iters _ _ _ _ _ _ _ _ _ _ _ H) as Hit.
  apply init_loop_sound in H; try lia; auto.
  destruct H as (A & B & C & D & F). repeat split; auto; try lia.
  clear - B. revert B. generalize (nth (Z.to_nat idx) tags []). intros a. revert out.
  induction a as [| x a IH]; intros [| y o] B; simpl in B; try discriminate; auto.
  apply andb_true_iff in B. destruct B as [B1 B2]. apply Z.eqb_eq in B1. f_equal; auto.
Qed.

(* the outer loop's fuel max(1, n_max_iterations) is exact: the model abstains only when one of the inner
   "draw until unused" loops ran out of its (generous) fuel, never because of the iteration limit *)
Lemma init_loop_fuel_exact : forall fuel iters c n k tags out n_max,
  n_max <= iters + Z.of_nat fuel -> (0 < fuel)%nat ->
  init_loop fuel iters c n k tags out n_max = InitOutOfFuel ->
  exists c', pick_n (Z.to_nat k) c' n tags out (zeros 32) None = None.
Proof.
  induction fuel; intros iters c n k tags out n_max Hm Hf H; [lia |]. simpl in H.
  destruct (pick_n (Z.to_nat k) c n tags out (zeros 32) None) as [[[u1 c1] f1] |] eqn:E.
  - destruct f1; [discriminate |].
    destruct (Z.leb_spec n_max (iters + 1)); [discriminate |].
    destruct fuel; [lia |].
    assert (Hm1 : n_max <= iters + 1 + Z.of_nat (S fuel)) by lia.
    assert (Hf1 : (0 < S fuel)%nat) by lia.
    exact (IHfuel (iters + 1) c1 n k tags out n_max Hm1 Hf1 H).
  - exists c. exact E.
Qed.

Lemma initialize_abstains_only_inner_lemma : forall tags k out n_max seed,
  initialize tags k out n_max seed = InitOutOfFuel ->
  exists c, pick_n (Z.to_nat k) c (Z.of_nat (length tags)) tags out (zeros 32) None = None.
Proof.
  intros tags k out n_max seed H. unfold initialize in H.
  eapply init_loop_fuel_exact; [| | exact H]; lia.
Qed.

(* ------------------------------------------------------------------ exactly n_to_use bits are set *)
Lemma popcount8_set : forall b j, 0 <= j < 8 -> Z.testbit b j = false ->
  popcount8 (Z.lor b (2 ^ j)) = popcount8 b + 1.
Proof.
  intros b j Hj Hb. unfold popcount8. rewrite !Z.lor_spec. rewrite !Z.pow2_bits_eqb by lia.
  assert (C : j = 0 \/ j = 1 \/ j = 2 \/ j = 3 \/ j = 4 \/ j = 5 \/ j = 6 \/ j = 7) by lia.
  destruct C as [-> | [-> | [-> | [-> | [-> | [-> | [-> | ->]]]]]]]; cbn [Z.eqb Pos.eqb];
    rewrite Hb, ?orb_false_r; cbn [orb b2z]; lia.
Qed.

Lemma count_bits_upd : forall l i v, (i < length l)%nat ->
  count_bits (upd i v l) = count_bits l - popcount8 (nth i l 0) + popcount8 v.
Proof.
  induction l; intros [| i] v H; simpl in *; try lia. rewrite IHl by lia. lia.
Qed.

Lemma count_bits_bit_set : forall used i, 0 <= i < 8 * Z.of_nat (length used) -> bit_test used i = false ->
  count_bits (bit_set used i) = count_bits used + 1.
Proof.
  intros used i Hi Hb. unfold bit_set, bit_test in *.
  assert (0 <= i / 8 < Z.of_nat (length used)) by (split; [apply Z.div_pos; lia | apply Z.div_lt_upper_bound; lia]).
  rewrite count_bits_upd by lia. rewrite popcount8_set; [lia | apply Z.mod_pos_bound; lia | exact Hb].
Qed.

Lemma pick_index_count : forall fuel c n tags out used found used' c' found',
  0 < n -> n <= 8 * Z.of_nat (length used) ->
  pick_index fuel c n tags out used found = Some (used', c', found') ->
  count_bits used' = count_bits used + 1 /\ length used' = length used.
Proof.
  induction fuel; intros c n tags out used found used' c' found' Hpos Hlen H; simpl in H; [discriminate |].
  destruct (csprng_next CSPRNG_FUEL c n) as [[idx c1] |] eqn:Ec; [| discriminate].
  pose proof (csprng_next_range _ _ _ _ _ Hpos Ec) as Hr.
  destruct (bit_test used idx) eqn:Eb.
  - exact (IHfuel _ _ _ _ _ _ _ _ _ Hpos Hlen H).
  - inversion H; subst used' c' found'. split; [apply count_bits_bit_set; [lia | exact Eb] | apply bit_set_length].
Qed.

Lemma pick_n_count : forall k c n tags out used found used' c' found',
  0 < n -> n <= 8 * Z.of_nat (length used) ->
  pick_n k c n tags out used found = Some (used', c', found') ->
  count_bits used' = count_bits used + Z.of_nat k /\ length used' = length used.
Proof.
  induction k; intros c n tags out used found used' c' found' Hpos Hlen H; simpl in H.
  - inversion H; subst. split; [simpl; lia | reflexivity].
  - destruct (pick_index PICK_FUEL c n tags out used found) as [[[u1 c1] f1] |] eqn:E; [| discriminate].
    destruct (pick_index_count _ _ _ _ _ _ _ _ _ _ Hpos Hlen E) as [C1 L1].
    assert (HL1 : n <= 8 * Z.of_nat (length u1)) by (rewrite L1; exact Hlen).
    destruct (IHk _ _ _ _ _ _ _ _ _ Hpos HL1 H) as [C2 L2]. split; [lia | congruence].
Qed.

Lemma count_bits_zeros : forall k, count_bits (zeros k) = 0.
Proof. induction k; simpl; auto. Qed.

Lemma init_loop_count : forall fuel iters c n k tags out n_max it idx used,
  0 < n <= 256 -> 0 <= k ->
  init_loop fuel iters c n k tags out n_max = InitOk it idx used -> count_bits used = k.
Proof.
  induction fuel; intros iters c n k tags out n_max it idx used Hr Hk H; simpl in H; [discriminate |].
  destruct (pick_n (Z.to_nat k) c n tags out (zeros 32) None) as [[[u1 c1] f1] |] eqn:E; [| discriminate].
  assert (HL : n <= 8 * Z.of_nat (length (zeros 32))) by (change (length (zeros 32)) with 32%nat; lia).
  destruct (pick_n_count _ _ _ _ _ _ _ _ _ _ (proj1 Hr) HL E) as [C1 _].
  rewrite count_bits_zeros in C1.
  destruct f1 as [j |].
  - inversion H; subst. lia.
  - destruct (n_max <=? iters + 1); [discriminate |]. exact (IHfuel _ _ _ _ _ _ _ _ _ _ Hr Hk H).
Qed.

Lemma initialize_count_lemma : forall tags n_to_use out n_max seed it idx used,
  (0 < length tags <= 256)%nat -> 0 <= n_to_use ->
  initialize tags n_to_use out n_max seed = InitOk it idx used -> count_bits used = n_to_use.
Proof.
  intros tags k out n_max seed it idx used Hl Hk H. unfold initialize in H.
  eapply init_loop_count; [| exact Hk | exact H]. lia.
Qed.

(* ------------------------------------------------------------------ the premises are satisfiable *)
(* a canonical one-input proof: n = 1, bitmap 01, e0 and one scalar *)
Example parse_example : exists pr, parse (1 :: 0 :: 1 :: repeat 7 64) = Some pr /\ wf_proof pr /\ n_used_inputs pr = 1.
Proof.
  eexists. split; [vm_compute; reflexivity |]. split; [| vm_compute; reflexivity].
  unfold wf_proof. cbn [sp_n sp_used sp_data]. repeat split; try (vm_compute; congruence); try (vm_compute; lia).
  intros j _ Hj. change (1 mod 8) with 1 in Hj. change (nth (Z.to_nat (bitmap_len 1 - 1)) [1] 0) with 1.
  assert (C : j = 1 \/ j = 2 \/ j = 3 \/ j = 4 \/ j = 5 \/ j = 6 \/ j = 7) by lia.
  destruct C as [-> | [-> | [-> | [-> | [-> | [-> | ->]]]]]]; reflexivity.
Qed.
(* initialize succeeds on a two-input list whose second input is the output tag *)
Example initialize_example :
  exists it idx used, initialize [repeat 1 32; repeat 2 32] 1 (repeat 2 32) 10 (repeat 7 32) = InitOk it idx used.
Proof. Local Transparent CSPRNG_FUEL PICK_FUEL. do 3 eexists. vm_compute. reflexivity. Qed.

(* ================================================================== completeness of a single Borromean ring *)
(* sign => verify for ONE ring (the way the surjection and whitelist modules use Model/Borromean.v),
   under the group premises [MathFacts].  Used by generate_verifies (C11) and sign_verifies (C16). *)
Require Import Proofs.MathFacts Proofs.GroupLemmas.

Lemma sj_length_be_enc : forall len x, length (be_enc len x) = len.
Proof. induction len; intros; simpl; auto. rewrite app_length, IHlen. simpl. lia. Qed.
Lemma sj_sha_round_len8 : forall s kw, length s = 8%nat -> length (sha_round s kw) = 8%nat.
Proof. intros s kw H. do 9 (destruct s as [|? s]; try discriminate). destruct kw. reflexivity. Qed.
Lemma sj_sha_rounds_len8 : forall l s, length s = 8%nat -> length (fold_left sha_round l s) = 8%nat.
Proof. induction l; intros; simpl; auto. apply IHl, sj_sha_round_len8; auto. Qed.
Lemma sj_sha_compress_len8 : forall s b, length s = 8%nat -> length (sha_compress s b) = 8%nat.
Proof. intros. unfold sha_compress. rewrite map_length, combine_length, sj_sha_rounds_len8 by auto. rewrite H. reflexivity. Qed.
Lemma sj_sha_blocks_len8 : forall f s bs, length s = 8%nat -> length (sha_blocks f s bs) = 8%nat.
Proof. induction f; intros; simpl; auto. destruct (Nat.ltb (length bs) 64); auto. apply IHf, sj_sha_compress_len8; auto. Qed.
Lemma sj_length_sha_out : forall s, length (sha_out s) = (4 * length s)%nat.
Proof. unfold sha_out. induction s; cbn [flat_map]; [reflexivity|]. rewrite app_length, IHs, sj_length_be_enc. cbn [length]. lia. Qed.
Lemma sj_length_sha256 : forall bs, length (sha256 bs) = 32%nat.
Proof. intros. unfold sha256, sha256_from. rewrite sj_length_sha_out, sj_sha_blocks_len8; auto. Qed.

Lemma bytes_eqb_refl : forall a, bytes_eqb a a = true.
Proof. induction a; simpl; auto. rewrite Z.eqb_refl. exact IHa. Qed.

Lemma firstn_app_len : forall {A} (a b : list A), firstn (length a) (a ++ b) = a.
Proof. intros. rewrite firstn_app, Nat.sub_diag, firstn_all. simpl. apply app_nil_r. Qed.
Lemma skipn_app_len_S : forall {A} (a b : list A) x, skipn (S (length a)) (a ++ x :: b) = b.
Proof. induction a; intros; simpl; auto. apply IHa. Qed.

Definition nz (x : Z) : bool := negb (x =? 0).
Definition ninf (Q : point) : bool := negb (is_inf Q).

Section Ring1.
Variable P : Params.
Hypothesis MF : MathFacts P.
Variable m : bytes.
Notation G := (Curve.G P).
Notation pmul := (Curve.pmul P).
Notation padd := (Curve.padd P).
Notation pneg := (Curve.pneg P).
Let n := cn P.

Lemma sc_of_b32_range : forall h e ov, sc_of_b32 P h = (e, ov) -> 0 <= e < n.
Proof.
  intros h e ov H. unfold sc_of_b32 in H. inversion H; subst. apply Z.mod_pos_bound. apply (n_pos P MF).
Qed.

Lemma verify_ring_step : forall i j rem' ens sj s' pj pubs',
  verify_ring P m i j (S (S rem')) ens false (sj :: s') (pj :: pubs') =
  if (sj =? 0) || (ens =? 0) || is_inf pj then None else
  if is_inf (bor_ecmult P pj ens sj) then None else
  let '(ens', ov') := sc_of_b32 P (borromean_hash m (ser33 (bor_ecmult P pj ens sj)) i (j + 1)) in
  match verify_ring P m i (j + 1) (S rem') ens' ov' s' pubs' with
  | Some (t, evs, s'', pubs'') => Some (t, ens :: evs, s'', pubs'')
  | None => None
  end.
Proof. reflexivity. Qed.
Lemma verify_ring_last : forall i j ens sj s' pj pubs',
  verify_ring P m i j 1 ens false (sj :: s') (pj :: pubs') =
  if (sj =? 0) || (ens =? 0) || is_inf pj then None else
  if is_inf (bor_ecmult P pj ens sj) then None else
  Some (ser33 (bor_ecmult P pj ens sj), [ens], s', pubs').
Proof. reflexivity. Qed.

(* forward part of the ring (positions after the signer): verification retraces sign_fwd *)
Lemma ring_fwd : forall s_t p_t j ens s0 p0 tmp,
  length s_t = length p_t ->
  (ens =? 0) = false -> (s0 =? 0) = false -> is_inf p0 = false ->
  forallb nz s_t = true -> forallb ninf p_t = true ->
  is_inf (bor_ecmult P p0 ens s0) = false ->
  sign_fwd P m 0 (j + 1) (ser33 (bor_ecmult P p0 ens s0)) s_t p_t = Some tmp ->
  exists evs, verify_ring P m 0 j (S (length s_t)) ens false (s0 :: s_t) (p0 :: p_t) = Some (tmp, evs, [], []).
Proof.
  induction s_t as [| s1 t IH]; intros p_t j ens s0 p0 tmp Hl He Hs Hp Hfs Hfp HR H.
  - destruct p_t; [| discriminate]. cbn [sign_fwd] in H. inversion H; subst tmp.
    cbn [length]. rewrite verify_ring_last. rewrite He, Hs, Hp, HR. cbn [orb]. eexists; reflexivity.
  - destruct p_t as [| p1 pt]; [discriminate |]. cbn [length] in Hl. injection Hl as Hl.
    cbn [forallb] in Hfs, Hfp. apply andb_true_iff in Hfs. apply andb_true_iff in Hfp.
    destruct Hfs as [Hs1 Hfs]. destruct Hfp as [Hp1 Hfp].
    apply negb_true_iff in Hs1. apply negb_true_iff in Hp1.
    cbn [sign_fwd] in H.
    cbn [length]. rewrite verify_ring_step. rewrite He, Hs, Hp, HR. cbn [orb].
    destruct (sc_of_b32 P (borromean_hash m (ser33 (bor_ecmult P p0 ens s0)) 0 (j + 1))) as [ens' ov] eqn:Esc.
    destruct ov; cbn [orb] in H; [discriminate |].
    destruct (ens' =? 0) eqn:He'; [discriminate |].
    destruct (is_inf (bor_ecmult P p1 ens' s1)) eqn:HR'; [discriminate |].
    destruct (IH pt (j + 1) ens' s1 p1 tmp Hl He' Hs1 Hp1 Hfs Hfp HR' H) as [evs Hv].
    rewrite Hv. eexists; reflexivity.
Qed.

(* backward part (positions before the signer): verification retraces sign_bwd and then continues *)
Lemma ring_bwd : forall s_pre p_pre j ens ens_x s_r0 s_r p_r0 p_r tmp evs a b,
  length s_pre = length p_pre ->
  0 <= ens < n -> (ens =? 0) = false -> forallb nz s_pre = true -> forallb ninf p_pre = true ->
  sign_bwd P m 0 j ens s_pre p_pre = Some ens_x ->
  (0 <= ens_x < n /\ (ens_x =? 0) = false) /\
  (verify_ring P m 0 (j + Z.of_nat (length s_pre)) (S (length s_r)) ens_x false (s_r0 :: s_r) (p_r0 :: p_r) = Some (tmp, evs, a, b) ->
   exists evs', verify_ring P m 0 j (length s_pre + S (length s_r)) ens false (s_pre ++ s_r0 :: s_r) (p_pre ++ p_r0 :: p_r)
                = Some (tmp, evs', a, b)).
Proof.
  induction s_pre as [| s0 t IH]; intros p_pre j ens ens_x s_r0 s_r p_r0 p_r tmp evs a b Hl Hr He Hfs Hfp H.
  - destruct p_pre; [| discriminate]. cbn [sign_bwd] in H. inversion H; subst ens_x.
    split; [auto |]. cbn [length app Nat.add]. replace (j + Z.of_nat 0) with j by lia. intros Hv. eauto.
  - destruct p_pre as [| p0 pt]; [discriminate |]. cbn [length] in Hl. injection Hl as Hl.
    cbn [forallb] in Hfs, Hfp. apply andb_true_iff in Hfs. apply andb_true_iff in Hfp.
    destruct Hfs as [Hs0 Hfs]. destruct Hfp as [Hp0 Hfp].
    apply negb_true_iff in Hs0. apply negb_true_iff in Hp0.
    cbn [sign_bwd] in H.
    destruct (is_inf (bor_ecmult P p0 ens s0)) eqn:HR; [discriminate |].
    destruct (sc_of_b32 P (borromean_hash m (ser33 (bor_ecmult P p0 ens s0)) 0 (j + 1))) as [ens' ov] eqn:Esc.
    destruct ov; cbn [orb] in H; [discriminate |].
    destruct (ens' =? 0) eqn:He'; [discriminate |].
    pose proof (sc_of_b32_range _ _ _ Esc) as Hr'.
    destruct (IH pt (j + 1) ens' ens_x s_r0 s_r p_r0 p_r tmp evs a b Hl Hr' He' Hfs Hfp H) as [R1 R2].
    split; [exact R1 |]. intros Hv.
    replace (j + Z.of_nat (length (s0 :: t))) with (j + 1 + Z.of_nat (length t)) in Hv by (cbn [length]; lia).
    destruct (R2 Hv) as [evs' Hv'].
    cbn [length app Nat.add]. rewrite Nat.add_succ_r. rewrite verify_ring_step.
    rewrite He, Hs0, Hp0, HR. cbn [orb]. rewrite Esc.
    rewrite Nat.add_succ_r in Hv'. rewrite Hv'. eexists; reflexivity.
Qed.

(* the signer's position closes the ring: ens*(sec*G) + (k - ens*sec)*G = k*G *)
Lemma ring_close : forall ens sec k, 0 <= ens < n -> 0 <= sec < n -> 0 <= k < n ->
  bor_ecmult P (pmul sec G) ens (sc_add P (sc_neg P (sc_mul P ens sec)) k) = pmul k G.
Proof.
  intros ens sec k He Hs Hk. unfold bor_ecmult, sc_add, sc_neg, sc_mul.
  pose proof (n_pos P MF) as Hn. subst n.
  assert (Hb : 0 <= mmul (cn P) ens sec < cn P) by (unfold mmul; apply Z.mod_pos_bound; lia).
  assert (Ha : 0 <= mneg (cn P) (mmul (cn P) ens sec) < cn P) by (unfold mneg; apply Z.mod_pos_bound; lia).
  pose proof (oc_G P MF) as HG.
  assert (HT : oc P (pmul ens (pmul sec G))) by (apply oc_pmul, oc_pmul; auto).
  assert (HK : oc P (pmul k G)) by (apply oc_pmul; auto).
  rewrite (pmul_madd P MF) by lia. rewrite (pmul_mneg P MF) by lia.
  rewrite (pmul_mmul P MF) by lia.
  rewrite <- (padd_assoc P MF) by (auto using oc_neg).
  rewrite (padd_neg P MF) by auto. reflexivity.
Qed.

(* single ring: signer at position length s_pre, ring = s_pre ++ [signer] ++ s_suf *)
Lemma ring1_sign_verifies : forall s_pre sx s_suf p_pre p_suf k sec e0 s',
  length s_pre = length p_pre -> length s_suf = length p_suf ->
  0 <= k < n -> 0 <= sec < n ->
  forallb nz s_pre = true -> forallb nz s_suf = true ->
  forallb ninf p_pre = true -> forallb ninf p_suf = true ->
  is_inf (pmul sec G) = false ->
  borromean_sign P (s_pre ++ sx :: s_suf) (p_pre ++ pmul sec G :: p_suf) [k] [sec]
                 [length (s_pre ++ sx :: s_suf)] [length s_pre] 1 m = Some (e0, s') ->
  borromean_verify P e0 s' (p_pre ++ pmul sec G :: p_suf) [length (s_pre ++ sx :: s_suf)] 1 m = true /\
  exists snew, s' = s_pre ++ snew :: s_suf /\ 0 < snew < n /\ length e0 = 32%nat.
Proof.
  intros s_pre sx s_suf p_pre p_suf k sec e0 s' Hl1 Hl2 Hk Hsec Hf1 Hf2 Hf3 Hf4 Hpx H.
  pose proof (n_pos P MF) as Hn. fold n in Hn.
  set (s := s_pre ++ sx :: s_suf) in *. set (pubs := p_pre ++ pmul sec G :: p_suf) in *.
  assert (Ls : length s = S (length s_pre + length s_suf)) by (unfold s; rewrite app_length; cbn [length]; lia).
  assert (Lp : length pubs = length s) by (unfold pubs, s; rewrite !app_length; cbn [length]; lia).
  assert (Fp0 : firstn (length s) pubs = pubs) by (rewrite <- Lp; apply firstn_all).
  unfold borromean_sign in H. cbn [firstn length Nat.eqb negb sum_nat fold_right] in H.
  rewrite Nat.add_0_r in H.
  rewrite ?(firstn_all s), ?Fp0 in H.
  destruct (sign_layout_ok s pubs [k] [sec] [length s] [length s_pre]); cbn [negb] in H; [| discriminate].
  cbn [sign_pass1] in H.
  destruct (is_inf (pmul k G)) eqn:HkG; [discriminate |].
  rewrite ?(firstn_all s), ?Fp0 in H.
  assert (Es : skipn (S (length s_pre)) s = s_suf) by apply skipn_app_len_S.
  assert (Ep : skipn (S (length s_pre)) pubs = p_suf) by (unfold pubs; rewrite Hl1; apply skipn_app_len_S).
  rewrite Es, Ep in H.
  destruct (sign_fwd P m 0 (Z.of_nat (length s_pre) + 1) (ser33 (pmul k G)) s_suf p_suf) as [tmp |] eqn:Efwd; [| discriminate].
  cbn [app] in H.
  set (e0' := sha256 (tmp ++ m)) in *.
  cbn [sign_pass2] in H.
  destruct (sc_of_b32 P (borromean_hash m e0' 0 0)) as [ens0 ov0] eqn:Esc0.
  destruct ov0; cbn [orb] in H; [discriminate |].
  destruct (ens0 =? 0) eqn:He0; [discriminate |].
  rewrite ?(firstn_all s), ?Fp0 in H.
  assert (Fs : firstn (length s_pre) s = s_pre) by apply firstn_app_len.
  assert (Fp : firstn (length s_pre) pubs = p_pre) by (unfold pubs; rewrite Hl1; apply firstn_app_len).
  rewrite Fs, Fp, Es in H.
  destruct (sign_bwd P m 0 0 ens0 s_pre p_pre) as [ensx |] eqn:Ebwd; [| discriminate].
  set (snew := sc_add P (sc_neg P (sc_mul P ensx sec)) k) in *.
  destruct (snew =? 0) eqn:Hsn; [discriminate |].
  cbn [app] in H. rewrite app_nil_r in H. inversion H; subst e0 s'. clear H.
  pose proof (sc_of_b32_range _ _ _ Esc0) as Hr0.
  assert (Hsnr : 0 <= snew < n) by (unfold snew, sc_add, madd; fold n; apply Z.mod_pos_bound; lia).
  split.
  2:{ exists snew. split; [reflexivity |]. apply Z.eqb_neq in Hsn. split; [lia |]. unfold e0'. apply sj_length_sha256. }
  (* verification *)
  unfold borromean_verify, borromean_verify_ev. cbn [length Nat.ltb Nat.leb].
  change (firstn 1 [length s]) with [length s].
  rewrite Ls. cbn [verify_rings]. rewrite Esc0. unfold pubs.
  (* the signer's position and the forward part *)
  destruct (ring_bwd s_pre p_pre 0 ens0 ensx snew s_suf (pmul sec G) p_suf tmp
              (ensx :: nil) [] [] Hl1 Hr0 He0 Hf1 Hf3 Ebwd) as [[Hrx Hex] _].
  assert (Eclose : bor_ecmult P (pmul sec G) ensx snew = pmul k G) by (apply ring_close; auto).
  assert (Hfwd : exists evs, verify_ring P m 0 (0 + Z.of_nat (length s_pre)) (S (length s_suf)) ensx false
                               (snew :: s_suf) (pmul sec G :: p_suf) = Some (tmp, evs, [], [])).
  { apply ring_fwd; auto.
    - rewrite Eclose; exact HkG.
    - rewrite Eclose. replace (0 + Z.of_nat (length s_pre) + 1) with (Z.of_nat (length s_pre) + 1) by lia. exact Efwd. }
  destruct Hfwd as [evs Hfwd].
  destruct (ring_bwd s_pre p_pre 0 ens0 ensx snew s_suf (pmul sec G) p_suf tmp evs [] [] Hl1 Hr0 He0 Hf1 Hf3 Ebwd) as [_ Hall].
  destruct (Hall Hfwd) as [evs' Hv].
  replace (S (length s_pre + length s_suf)) with (length s_pre + S (length s_suf))%nat by lia.
  rewrite Hv. cbn [app].
  rewrite firstn_all2 by (unfold e0'; rewrite sj_length_sha256; lia).
  fold e0'. rewrite bytes_eqb_refl. reflexivity.
Qed.
End Ring1.

(* ------------------------------------------------------------------ data layout of a written signature *)
Require Import Proofs.BytesLemmas.

Lemma sc_to_b32_length : forall s, length (sc_to_b32 s) = 32%nat.
Proof. intros. apply be_enc_length. Qed.

Lemma firstn_app_exact : forall {A} (a b : list A) k, length a = k -> firstn k (a ++ b) = a.
Proof. intros; subst; apply firstn_app_len. Qed.

(* the 32-byte chunks at offsets p + 32 i of  pre ++ enc(s_0) ++ enc(s_1) ++ ... ++ rest  (|pre| = p) *)
Lemma chunks_flat_gen : forall (ss : list Z) (pre rest : bytes) p, length pre = p ->
  map (fun i => firstn 32 (skipn (p + 32 * i)%nat (pre ++ flat_map sc_to_b32 ss ++ rest))) (seq 0 (length ss))
  = map sc_to_b32 ss.
Proof.
  induction ss as [| s t IH]; intros pre rest p Hp; [reflexivity |].
  cbn [length seq map flat_map]. f_equal.
  - rewrite Nat.mul_0_r, Nat.add_0_r. subst p. rewrite skipn_app, Nat.sub_diag, skipn_all. cbn [app skipn].
    rewrite <- app_assoc. apply firstn_app_exact, sc_to_b32_length.
  - rewrite <- seq_shift, map_map.
    rewrite <- (IH (pre ++ sc_to_b32 s) rest (p + 32)%nat) by (rewrite app_length, sc_to_b32_length; lia).
    apply map_ext. intros i. rewrite <- !app_assoc. f_equal. f_equal. lia.
Qed.

Lemma chunks_of_written_sig : forall (e0 : bytes) (ss : list Z) (rest : bytes), length e0 = 32%nat ->
  map (fun i => firstn 32 (skipn (32 + 32 * i)%nat (e0 ++ flat_map sc_to_b32 ss ++ rest))) (seq 0 (length ss))
  = map sc_to_b32 ss.
Proof. intros. apply chunks_flat_gen. assumption. Qed.

Lemma be_val_sc_to_b32 : forall s, 0 <= s < 2 ^ 256 -> be_val (sc_to_b32 s) = s.
Proof. intros s H. unfold sc_to_b32. apply be_val_enc. rewrite pow256_32. exact H. Qed.

Lemma list_split_at : forall {A} (l : list A) i d, (i < length l)%nat ->
  l = firstn i l ++ nth i l d :: skipn (S i) l /\ length (firstn i l) = i.
Proof.
  induction l; intros [| i] d H; cbn [length] in H; try lia.
  - split; reflexivity.
  - destruct (IHl i d ltac:(lia)) as [E L]. split; [cbn [firstn nth skipn app]; f_equal; exact E | cbn [firstn length]; f_equal; exact L].
Qed.

Lemma forallb_firstn : forall {A} (f : A -> bool) l k, forallb f l = true -> forallb f (firstn k l) = true.
Proof.
  induction l; intros [| k] H; cbn [firstn forallb] in *; auto.
  apply andb_true_iff in H. destruct H as [H1 H2]. rewrite H1. cbn [andb]. auto.
Qed.
Lemma forallb_skipn : forall {A} (f : A -> bool) l k, forallb f l = true -> forallb f (skipn k l) = true.
Proof.
  induction l; intros [| k] H; cbn [skipn forallb] in *; auto.
  apply andb_true_iff in H. destruct H as [H1 H2]. auto.
Qed.

(* ================================================================== completeness: generate => verify *)
Section GenerateVerifies.
Variable P : Params.
Hypothesis MF : MathFacts P.
Hypothesis Hn256 : cn P < 2 ^ 256.
Notation G := (Curve.G P).
Notation pmul := (Curve.pmul P).

Definition sc_rng (s : Z) : Prop := 0 <= s < cn P.

Lemma genrand_loop_spec : forall k i buf bs, genrand_loop P k i buf = Some bs -> length bs = k /\ Forall sc_rng bs.
Proof.
  induction k as [| k IH]; cbn [genrand_loop]; intros i buf bs H.
  - inversion H; subst. split; [reflexivity | constructor].
  - destruct (sc_of_b32 P (sha256 (le_enc 4 i ++ skipn 4 buf))) as [s ov] eqn:E.
    destruct ov; [discriminate |].
    destruct (genrand_loop P k (i + 1) (sha256 (le_enc 4 i ++ skipn 4 buf) ++ skipn 32 (le_enc 4 i ++ skipn 4 buf))) as [l |] eqn:El;
      [| discriminate].
    inversion H; subst bs. destruct (IH _ _ _ El) as [L F].
    split; [cbn [length]; f_equal; exact L | constructor; [exact (sc_of_b32_range P MF _ _ _ E) | exact F]].
Qed.

Lemma upd_split : forall {A} (l : list A) i v, (i < length l)%nat -> upd i v l = firstn i l ++ v :: skipn (S i) l.
Proof.
  induction l; intros [| i] v H; cbn [length] in H; try lia; [reflexivity |].
  cbn [upd firstn skipn app]. f_equal. apply IHl. lia.
Qed.

Lemma compute_public_keys_fst : forall in_tags i used out idx idx' j j',
  fst (compute_public_keys P in_tags i used out idx j) = fst (compute_public_keys P in_tags i used out idx' j').
Proof.
  induction in_tags as [| t rest IH]; intros i used out idx idx' j j'; cbn [compute_public_keys]; [reflexivity |].
  destruct (bit_test used i).
  - specialize (IH (i + 1) used out idx idx' (j + 1) (j' + 1)).
    destruct (compute_public_keys P rest (i + 1) used out idx (j + 1)) as [k1 r1].
    destruct (compute_public_keys P rest (i + 1) used out idx' (j' + 1)) as [k2 r2].
    cbn [fst] in *. f_equal. exact IH.
  - apply IH.
Qed.

Lemma load_scalars_written : forall ss, Forall sc_rng ss -> load_scalars P (map sc_to_b32 ss) = Some ss.
Proof.
  induction 1 as [| s l Hs F IH]; [reflexivity |]. cbn [map load_scalars]. unfold sc_of_b32.
  unfold sc_rng in Hs. rewrite be_val_sc_to_b32 by lia.
  destruct (Z.leb_spec (cn P) s); [lia |]. rewrite Z.mod_small by lia. rewrite IH. reflexivity.
Qed.

Lemma sj_Forall_firstn : forall {A} (Q : A -> Prop) l k, Forall Q l -> Forall Q (firstn k l).
Proof. induction l; intros [| k] H; cbn [firstn]; auto. inversion H; subst. constructor; auto. Qed.
Lemma sj_Forall_skipn : forall {A} (Q : A -> Prop) l k, Forall Q l -> Forall Q (skipn k l).
Proof. induction l; intros [| k] H; cbn [skipn]; auto. inversion H; subst. auto. Qed.

(* generation with a blinding-key difference that matches the ring key at the signer's position yields a
   proof that verifies against the same ephemeral tags.  Premises besides MathFacts and n < 2^256:
   - the ring has one key per set bit of the bitmap (true for bitmaps without padding bits),
   - the signer's ring key is bkey*G (the property's "matching blinding keys"),
   - no ring key is the point at infinity (no selected input equals the output),
   - the hash-derived forged scalars are non-zero (fails with probability 2^-256 per scalar). *)
Lemma generate_verifies_lemma : forall pr in_tags out_tag input_index in_key out_key pr' pubs ridx bkey,
  sp_n pr <= 256 ->
  compute_public_keys P in_tags 0 (sp_used pr) (tag_load out_tag) input_index 0 = (pubs, ridx) ->
  bkey = sc_add P (fst (sc_of_b32 P out_key)) (sc_neg P (fst (sc_of_b32 P in_key))) ->
  length pubs = Z.to_nat (n_used_inputs pr) -> 0 <= ridx < n_used_inputs pr ->
  nth (Z.to_nat ridx) pubs None = pmul bkey G ->
  forallb ninf pubs = true ->
  (forall bs, genrand P (Z.to_nat (n_used_inputs pr)) bkey = Some bs -> forallb nz bs = true) ->
  generate P pr in_tags out_tag input_index in_key out_key = Some pr' ->
  verify P pr' in_tags out_tag = true.
Proof.
  intros pr in_tags out_tag input_index in_key out_key pr' pubs ridx bkey
         Hn Hcpk Hbkey Lpubs Hridx Hkey Hninf Hforged H.
  unfold generate in H.
  destruct (sc_of_b32 P in_key) as [tmps ov1]. destruct ov1; [discriminate |].
  destruct (sc_of_b32 P out_key) as [bk ov2]. destruct ov2; [discriminate |].
  destruct (existsb (fun t => bytes_eqb t out_tag) in_tags); [discriminate |].
  cbn [fst] in Hbkey. rewrite <- Hbkey in H.
  destruct ((n_total_inputs pr <? n_used_inputs pr) || negb (n_total_inputs pr =? Z.of_nat (length in_tags))) eqn:Hcnt;
    [discriminate |].
  rewrite Hcpk in H.
  set (nu := Z.to_nat (n_used_inputs pr)) in *.
  set (msg := genmessage in_tags out_tag) in *.
  destruct (genrand P nu bkey) as [bs |] eqn:Egr; [| discriminate].
  destruct (borromean_sign P (upd (Z.to_nat ridx) 0 bs) pubs [nth (Z.to_nat ridx) bs 0] [bkey] [nu] [Z.to_nat ridx] 1 msg)
    as [[e0 s'] |] eqn:Eb; [| discriminate].
  inversion H; subst pr'. clear H.
  pose proof (Hforged bs eq_refl) as Hnz.
  destruct (genrand_loop_spec _ _ _ _ Egr) as [Lbs Fbs].
  set (x := Z.to_nat ridx) in *.
  assert (Hx : (x < nu)%nat) by (unfold x, nu; lia).
  assert (Rbkey : 0 <= bkey < cn P) by (rewrite Hbkey; unfold sc_add, madd; apply Z.mod_pos_bound; apply (n_pos P MF)).
  assert (Rnonce : 0 <= nth x bs 0 < cn P).
  { rewrite Forall_forall in Fbs. apply Fbs. apply nth_In. lia. }
  assert (Hupd : upd x 0 bs = firstn x bs ++ 0 :: skipn (S x) bs) by (apply upd_split; lia).
  destruct (list_split_at pubs x None ltac:(lia)) as [Epp Lp1]. rewrite Hkey in Epp.
  set (s_pre := firstn x bs) in *. set (s_suf := skipn (S x) bs) in *.
  set (p_pre := firstn x pubs) in *. set (p_suf := skipn (S x) pubs) in *.
  assert (Ls1 : length s_pre = x) by (unfold s_pre; rewrite firstn_length; lia).
  assert (Hprelen : length s_pre = length p_pre) by lia.
  assert (Hsuflen : length s_suf = length p_suf) by (unfold s_suf, p_suf; rewrite !skipn_length; lia).
  assert (Lupd : length (s_pre ++ 0 :: s_suf) = nu).
  { rewrite app_length. cbn [length]. unfold s_suf. rewrite skipn_length. lia. }
  assert (Eb' : borromean_sign P (s_pre ++ 0 :: s_suf) (p_pre ++ pmul bkey G :: p_suf) [nth x bs 0] [bkey]
                  [length (s_pre ++ 0 :: s_suf)] [length s_pre] 1 msg = Some (e0, s')).
  { rewrite Lupd, Ls1, <- Hupd, <- Epp. exact Eb. }
  assert (Hinfx : is_inf (pmul bkey G) = false).
  { rewrite Epp in Hninf. rewrite forallb_app in Hninf. apply andb_true_iff in Hninf. destruct Hninf as [_ Hq].
    cbn [forallb] in Hq. apply andb_true_iff in Hq. destruct Hq as [Hq _]. unfold ninf in Hq. apply negb_true_iff in Hq. exact Hq. }
  assert (Hfp1 : forallb ninf p_pre = true) by (unfold p_pre; apply forallb_firstn; exact Hninf).
  assert (Hfp2 : forallb ninf p_suf = true) by (unfold p_suf; apply forallb_skipn; exact Hninf).
  assert (Hfs1 : forallb nz s_pre = true) by (unfold s_pre; apply forallb_firstn; exact Hnz).
  assert (Hfs2 : forallb nz s_suf = true) by (unfold s_suf; apply forallb_skipn; exact Hnz).
  destruct (ring1_sign_verifies P MF msg s_pre 0 s_suf p_pre p_suf (nth x bs 0) bkey e0 s'
              Hprelen Hsuflen Rnonce Rbkey Hfs1 Hfs2 Hfp1 Hfp2 Hinfx Eb') as (Hv & snew & Es' & Rnew & Le0).
  rewrite Lupd, <- Epp in Hv.
  assert (Fs' : Forall sc_rng s').
  { rewrite Es'. apply Forall_app. split; [unfold s_pre; apply sj_Forall_firstn; exact Fbs |].
    constructor; [unfold sc_rng; lia | unfold s_suf; apply sj_Forall_skipn; exact Fbs]. }
  assert (Ls' : length s' = nu) by (rewrite Es'; rewrite app_length; cbn [length]; unfold s_suf; rewrite skipn_length; lia).
  (* the verifier's view of the written proof *)
  unfold verify, n_total_inputs, n_used_inputs, used_prefix. cbn [sp_n sp_used sp_data].
  fold (used_prefix pr). fold (n_used_inputs pr).
  unfold n_total_inputs in Hcnt.
  apply orb_false_iff in Hcnt. destruct Hcnt as [Hc1 Hc2]. rewrite Hc1, Hc2. apply Z.ltb_ge in Hc1.
  destruct (Z.eqb_spec (n_used_inputs pr) 0); [lia |]. cbn [orb].
  unfold SJ_MAX_USED_INPUTS. destruct (Z.ltb_spec 256 (n_used_inputs pr)); [lia |].
  fold nu. unfold data_chunks. rewrite <- app_assoc. rewrite <- Ls' at 1.
  rewrite (chunks_of_written_sig e0 s' _ Le0).
  rewrite (load_scalars_written _ Fs').
  rewrite (firstn_app_exact e0 _ 32 Le0).
  rewrite (compute_public_keys_fst in_tags 0 (sp_used pr) (tag_load out_tag) 0 input_index 0 0), Hcpk. cbn [fst].
  fold msg. exact Hv.
Qed.
End GenerateVerifies.
