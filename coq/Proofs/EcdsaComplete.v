(* Completeness of ECDSA: what sig_sign produces, sig_verify accepts (under the group premises). *)
From Coq Require Import ZArith List Bool Lia Znumtheory Zdiv Morphisms Setoid.
Require Import Spec.Params Spec.Field Spec.Curve Spec.Bytes.
Require Import Model.Base Model.Der Model.Ecdsa Proofs.MathFacts Proofs.GroupLemmas Proofs.EcdsaProofs.
Import ListNotations.
Local Open Scope Z_scope.

Section Complete.
Variable P : Params.
Hypothesis MF : MathFacts P.
Hypothesis IF : InvFacts P.
Notation n := (cn P).
Notation p := (cp P).
Notation G := (Curve.G P).
Notation pmul := (Curve.pmul P).
Notation padd := (Curve.padd P).
Notation pneg := (Curve.pneg P).
Hypothesis Hnp : n < p.
Hypothesis Hp2n : p < 2 * n.
Hypothesis HGr : inr P G.

Local Instance eqm_equiv : Equivalence (eqm n) := eqm_setoid n.
Local Instance add_eqm : Proper (eqm n ==> eqm n ==> eqm n) Z.add := Zplus_eqm n.
Local Instance mul_eqm : Proper (eqm n ==> eqm n ==> eqm n) Z.mul := Zmult_eqm n.
Local Instance opp_eqm : Proper (eqm n ==> eqm n) Z.opp := Zopp_eqm n.

Lemma npos : 0 < n. Proof. apply (n_pos P MF). Qed.

Lemma pmul_eqm a b : 0 <= a -> 0 <= b -> eqm n a b -> pmul a G = pmul b G.
Proof. intros Ha Hb H. rewrite <- (pmul_mod_n P MF a), <- (pmul_mod_n P MF b) by assumption. unfold eqm in H. rewrite H. reflexivity. Qed.

Lemma eqm_mod a : eqm n (a mod n) a. Proof. apply Zmod_eqm. Qed.
Lemma eq_eqm_n a b : a = b -> eqm n a b. Proof. intros ->. reflexivity. Qed.

Theorem sign_verifies d m k r s recid :
  0 < d < n -> 0 <= m < n -> 0 < k < n ->
  sig_sign P d m k = (true, r, s, recid) ->
  sig_verify P r s (pmul d G) m = true.
Proof.
  intros Hd Hm Hk. pose proof npos as Hn. unfold sig_sign.
  destruct (pmul k G) as [[x y]|] eqn:EkG; [|discriminate].
  set (r0 := x mod n). set (s0 := sc_mul P (sc_inv P k) (sc_add P (sc_mul P r0 d) m)).
  intros E.
  assert (Hr0 : 0 <= r0 < n) by (apply Z.mod_pos_bound; lia).
  assert (Hs0 : 0 <= s0 < n) by (unfold s0, sc_mul, mmul; apply Z.mod_pos_bound; lia).
  injection E as Eok Er Es Erec. symmetry in Er, Es. subst r.
  apply andb_true_iff in Eok. destruct Eok as [Er0 Es0]. rewrite <- Es in Es0. clear Erec.
  assert (Hsr : 0 <= s < n).
  { rewrite Es. destruct (sc_is_high P s0); [unfold sc_neg, mneg; apply Z.mod_pos_bound; lia|lia]. }
  assert (Hsnz : s <> 0) by (destruct (s =? 0) eqn:X; [discriminate|lia]).
  assert (Hrnz : r0 <> 0) by (destruct (r0 =? 0) eqn:X; [discriminate|lia]).
  (* the scalar facts, modulo n *)
  assert (Ik : eqm n (sc_inv P k * k) 1) by (unfold eqm, sc_inv; rewrite (if_ninv P IF k) by lia; rewrite Z.mod_small; lia).
  assert (Is : eqm n (sc_inv P s * s) 1) by (unfold eqm, sc_inv; rewrite (if_ninv P IF s) by lia; rewrite Z.mod_small; lia).
  assert (Es0' : eqm n s0 (sc_inv P k * (r0 * d + m))).
  { unfold s0, sc_mul, sc_add, mmul, madd. rewrite !eqm_mod. reflexivity. }
  assert (Eks0 : eqm n (k * s0) (r0 * d + m)).
  { rewrite Es0'. transitivity ((sc_inv P k * k) * (r0 * d + m)); [apply eq_eqm_n|rewrite Ik; apply eq_eqm_n]; ring. }
  apply (sig_verify_exact P); try assumption; try lia.
  { apply pmul_inr; assumption || lia. }
  split; [assumption|split; [assumption|]].
  unfold verify_point.
  assert (Hu2 : 0 <= sc_mul P (sc_inv P s) r0 < n) by (unfold sc_mul, mmul; apply Z.mod_pos_bound; lia).
  assert (Hu1 : 0 <= sc_mul P (sc_inv P s) m < n) by (unfold sc_mul, mmul; apply Z.mod_pos_bound; lia).
  pose proof (oc_G P MF) as HocG.
  rewrite <- (pmul_mul P MF) by (auto; lia).
  rewrite <- (pmul_add P MF) by (auto; nia).
  assert (Eu : eqm n (sc_mul P (sc_inv P s) r0 * d + sc_mul P (sc_inv P s) m) (k * (sc_inv P s * s0))).
  { transitivity (sc_inv P s * (r0 * d + m)).
    - unfold sc_mul, mmul. rewrite !eqm_mod. apply eq_eqm_n. ring.
    - rewrite <- Eks0. apply eq_eqm_n. ring. }
  assert (Hcase : s = s0 \/ s = sc_neg P s0) by (rewrite Es; destruct (sc_is_high P s0); auto).
  clear Es. destruct Hcase as [Hc|Hc].
  - rewrite (pmul_eqm _ k); try nia.
    + rewrite EkG. exists x, y. split; reflexivity.
    + rewrite Eu. rewrite <- Hc, Is. apply eq_eqm_n. ring.
  - (* s = -s0: the verifier reconstructs -kG *)
    assert (Ens : eqm n (sc_inv P s * s0) (-1)).
    { assert (X : eqm n (sc_inv P s * (- s0)) 1).
      { transitivity (sc_inv P s * s); [|exact Is]. apply mul_eqm; [reflexivity|].
        rewrite Hc. unfold sc_neg, mneg. symmetry. apply eqm_mod. }
      transitivity (- (sc_inv P s * - s0)); [apply eq_eqm_n; ring|]. rewrite X. reflexivity. }
    rewrite (pmul_eqm _ (mneg n k)); try nia.
    + rewrite (pmul_mneg P MF) by lia. rewrite EkG. simpl. exists x, (mneg p y). split; reflexivity.
    + unfold mneg. apply Z.mod_pos_bound; lia.
    + rewrite Eu, Ens. unfold mneg. rewrite eqm_mod. apply eq_eqm_n. ring.
Qed.
End Complete.
