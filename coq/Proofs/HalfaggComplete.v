(* Completeness of half-aggregation under the group premises [MathFacts]: the aggregate of signatures that
   satisfy the BIP-340 verification equation in its lifted form  s*G = lift_x(r) + e*P  is accepted by
   aggregate verification for the same keys and messages.  (With inc_aggregate_assoc the same holds for
   every incrementally built aggregate: it is the same byte string.) *)
From Coq Require Import ZArith List Bool Lia Znumtheory.
Require Import Spec.Params Spec.Field Spec.Curve Spec.Bytes Spec.Sha256 Model.Base Model.Schnorr Model.Halfagg.
Require Import Proofs.MathFacts Proofs.GroupLemmas Proofs.HalfaggProofs Proofs.EllswiftProofs.
Import ListNotations.
Local Open Scope Z_scope.

Section HalfaggComplete.
Variable P : Params.
Hypothesis MF : MathFacts P.
Hypothesis n_fits : cn P <= 2 ^ 256.

Let Hn : 0 < cn P := n_pos P MF.
Lemma p_pos_mf : 0 < cp P.
Proof. pose proof (prime_ge_2 _ (mf_p_prime P MF)). lia. Qed.

(* a (key object, message, signature) triple whose signature verifies in the lifted form of BIP-340 *)
Definition sig_valid (t : trip) : Prop :=
  exists Q rx R,
    pk_load (t_pk t) = Some Q /\ oc P Q /\ length (t_sig t) = 64%nat /\
    fe_of_b32 P (firstn 32 (t_sig t)) = Some rx /\ ge_set_xo P rx false = Some R /\
    0 <= be_val (skipn 32 (t_sig t)) /\
    pmul P (be_val (skipn 32 (t_sig t))) (G P) =
      padd P (pmul P (challenge P (firstn 32 (t_sig t)) (t_msg t) (fe_to_b32 (px Q))) Q) (Some R).

Lemma sig_valid_wf : forall t, sig_valid t -> wf_trip t.
Proof.
  intros t (Q & rx & R & HQ & _ & HL & _). split.
  - unfold xonly_ser. rewrite HQ. discriminate.
  - lia.
Qed.

Lemma hz_range : forall pre, 0 <= hz P pre < cn P.
Proof. intros. unfold hz. apply sc_of_b32_range. exact Hn. Qed.

Lemma challenge_range : forall r m pk, 0 <= challenge P r m pk < cn P.
Proof. intros. unfold challenge. apply sc_of_b32_range. exact Hn. Qed.

Definition v_item (t : trip) : bytes * bytes * bytes := (t_pk t, t_msg t, firstn 32 (t_sig t)).

Lemma agg_sum_nonneg : forall (w : list trip) pre i, Forall sig_valid w -> 0 <= agg_sum P (map t_item w) pre i.
Proof.
  induction w as [|t w IH]; intros pre i H; [simpl; lia|].
  inversion H as [|? ? Ht Hw]; subst. destruct Ht as (Q & rx & R & _ & _ & _ & _ & _ & Hs & _).
  destruct t as [[o m] sg]. cbn [map t_item mk_item t_km agg_sum t_sig t_pk t_msg fst snd] in *.
  specialize (IH (pre ++ firstn 32 sg ++ ser_of o ++ m) (i + 1) Hw).
  pose proof (hz_range (pre ++ firstn 32 sg ++ ser_of o ++ m)).
  destruct (i =? 0); nia.
Qed.

Lemma aggv_loop_valid : forall (w : list trip) pre i S,
  Forall sig_valid w -> 0 <= S ->
  aggv_loop P (map v_item w) pre i (pmul P S (G P)) = inr (pmul P (S + agg_sum P (map t_item w) pre i) (G P)).
Proof.
  induction w as [|t w IH]; intros pre i S H HS.
  - simpl. rewrite Z.add_0_r. reflexivity.
  - inversion H as [|? ? Ht Hw]; subst.
    pose proof (agg_sum_nonneg w) as Hnn.
    destruct Ht as (Q & rx & R & HQ & HocQ & HL & Hrx & HR & Hs & Heq).
    destruct t as [[o m] sg]. cbn [map v_item t_item mk_item t_km t_sig t_pk t_msg fst snd] in *.
    assert (Eser : ser_of o = fe_to_b32 (px Q)) by (unfold ser_of, xonly_ser; rewrite HQ; reflexivity).
    cbn [aggv_loop agg_sum]. unfold v_item at 1. cbn [t_pk t_msg t_sig fst snd]. rewrite HQ, Hrx, HR. rewrite Eser. cbv zeta.
    rewrite <- Heq.
    set (pre' := pre ++ firstn 32 sg ++ fe_to_b32 (px Q) ++ m).
    set (sv := be_val (skipn 32 sg)) in *.
    pose proof (hz_range pre') as Hz.
    assert (OG : oc P (G P)) by (apply oc_G; exact MF).
    destruct (i =? 0).
    + rewrite <- pmul_add by (try assumption; lia).
      rewrite IH by (try assumption; lia). f_equal. f_equal. lia.
    + rewrite <- (pmul_mul P MF (hz P pre') sv (G P)) by (try assumption; lia).
      rewrite <- pmul_add by (try assumption; nia).
      rewrite IH by (try assumption; nia). f_equal. f_equal. lia.
Qed.

Lemma chunks32_flat : forall (l : list item) rest, Forall wf_item l ->
  chunks32 (length l) (flat_map item_r l ++ rest) = map item_r l.
Proof.
  induction l as [|it l IH]; intros rest H; [reflexivity|].
  inversion H as [|? ? H1 H2]; subst. cbn [length chunks32 flat_map map]. rewrite <- app_assoc.
  rewrite (firstn_app_exact (item_r it) _ 32 H1), (skipn_app_exact (item_r it) _ 32 H1), IH by assumption.
  reflexivity.
Qed.

Theorem aggregate_verifies : forall (w : list trip) agg len,
  Forall sig_valid w ->
  Z.of_nat (length w) < size_max ->
  32 * (Z.of_nat (length w) + 1) <= len -> len <= Z.of_nat (length agg) ->
  exists out,
    halfagg_aggregate P (Some agg) (Some len) (Some (map t_pk w)) (Some (map t_msg w)) (Some (map t_sig w)) (Z.of_nat (length w))
      = [AInt 1; AInt (32 * (Z.of_nat (length w) + 1)); ABytes out] /\
    halfagg_aggverify P (Some (map t_pk w)) (Some (map t_msg w)) (Z.of_nat (length w)) (Some out) (32 * (Z.of_nat (length w) + 1))
      = [AInt 1].
Proof.
  intros w agg len Hv Hsz Hlen Hcap.
  assert (Hwf : Forall wf_trip w) by (eapply Forall_impl; [apply sig_valid_wf | exact Hv]).
  eexists. split; [apply halfagg_aggregate_ok; assumption|].
  rewrite (aggregate_bytes_spec P Hn).
  set (S := agg_sum P (map t_item w) [] 0).
  assert (HS : 0 <= S) by (apply agg_sum_nonneg; exact Hv).
  assert (HSm : 0 <= S mod cn P < cn P) by (apply Z.mod_pos_bound; exact Hn).
  set (tail := skipn _ agg).
  unfold halfagg_aggverify. cbn [negb].
  (* length check *)
  replace (32 * (Z.of_nat (length w) + 1)) with ((Z.of_nat (length w) + 1) * 32) by lia.
  rewrite Z.div_mul, Z.mod_mul by lia.
  replace (Z.of_nat (length w) + 1 <=? 0) with false by (symmetry; apply Z.leb_gt; lia).
  replace (Z.of_nat (length w) + 1 - 1 =? Z.of_nat (length w)) with true by (symmetry; apply Z.eqb_eq; lia).
  cbn [orb negb Z.eqb]. cbv zeta. rewrite Nat2Z.id.
  (* the loop input *)
  assert (F1 : firstn (length w) (map t_pk w) = map t_pk w) by (rewrite <- (map_length t_pk w) at 1; apply firstn_all).
  assert (F2 : firstn (length w) (map t_msg w) = map t_msg w) by (rewrite <- (map_length t_msg w) at 1; apply firstn_all).
  assert (F3 : chunks32 (length w) (flat_map item_r (map t_item w) ++ sc_to_b32 (S mod cn P) ++ tail)
               = map (fun t => firstn 32 (t_sig t)) w).
  { rewrite <- (map_length t_item w) at 1. rewrite chunks32_flat by (apply Forall_wf_items; exact Hwf).
    rewrite map_map. apply map_ext. intros [[o m] sg]. reflexivity. }
  rewrite F1, F2, F3, !combine_map2.
  change (map (fun x : trip => (t_pk x, t_msg x, firstn 32 (t_sig x))) w) with (map v_item w).
  change (@None (Z * Z)) with (pmul P 0 (G P)).
  rewrite aggv_loop_valid by (try assumption; lia). rewrite Z.add_0_l. fold S.
  (* the scalar *)
  assert (Fs : slice (32 * length w) 32 (flat_map item_r (map t_item w) ++ sc_to_b32 (S mod cn P) ++ tail) = sc_to_b32 (S mod cn P)).
  { unfold slice. rewrite skipn_app_exact by (rewrite flat_r_length, map_length by (apply Forall_wf_items; exact Hwf); reflexivity).
    apply firstn_app_exact, sc_to_b32_length. }
  rewrite Fs. unfold sc_of_b32, sc_to_b32. cbv zeta. rewrite be_val_enc32 by lia.
  replace (cn P <=? S mod cn P) with false by (symmetry; apply Z.leb_gt; lia).
  rewrite Z.mod_mod by lia.
  change (cn P) with (cn P) in *. rewrite (pmul_mod_n P MF S HS).
  assert (OX : oc P (pmul P S (G P))) by (apply oc_pmul; [exact MF | apply oc_G; exact MF]).
  rewrite padd_comm by (try exact MF; try assumption; apply oc_neg; assumption).
  rewrite padd_neg by assumption. reflexivity.
Qed.
End HalfaggComplete.

(* ---- the premises are satisfiable: a valid signature on the toy curve (Proofs/Toy.v proves MathFacts toy) ---- *)
Require Import Proofs.Toy.
Definition toy_Q : point := pmul toy 3 (G toy).
Definition toy_R : point := pmul toy 5 (G toy).      (* even y *)
Definition toy_msg : bytes := zeros 32.
Definition toy_r32 : bytes := fe_to_b32 (px toy_R).
Definition toy_s : Z := (5 + challenge toy toy_r32 toy_msg (fe_to_b32 (px toy_Q)) * 3) mod 31.
Definition toy_trip : trip := (pk_obj toy_Q, toy_msg, toy_r32 ++ sc_to_b32 toy_s).
Example toy_sig_valid : sig_valid toy toy_trip.
Proof.
  exists toy_Q, (px toy_R), (px toy_R, py toy_R).
  repeat split; try (vm_compute; reflexivity); vm_compute; discriminate.
Qed.
Example toy_aggregate_verifies :
  exists out,
    halfagg_aggregate toy (Some (zeros 64)) (Some 64) (Some [t_pk toy_trip]) (Some [t_msg toy_trip]) (Some [t_sig toy_trip]) 1
      = [AInt 1; AInt 64; ABytes out] /\
    halfagg_aggverify toy (Some [t_pk toy_trip]) (Some [t_msg toy_trip]) 1 (Some out) 64 = [AInt 1].
Proof.
  assert (F : cn toy <= 2 ^ 256) by (vm_compute; discriminate).
  exact (aggregate_verifies toy toy_MathFacts F [toy_trip] (zeros 64) 64
           (Forall_cons _ toy_sig_valid (Forall_nil _)) ltac:(vm_compute; reflexivity) ltac:(vm_compute; discriminate) ltac:(vm_compute; discriminate)).
Qed.
