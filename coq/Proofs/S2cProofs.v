(* Lemmas about Model/S2c.v (property C15). *)
From Coq Require Import ZArith List Bool Lia.
Require Import Spec.Params Spec.Field Spec.Curve Spec.Bytes Spec.Sha256.
Require Import Model.Base Model.Keys Model.Der Model.Ecdsa Model.S2c.
Require Import Proofs.AdaptorProofs.
Import ListNotations.
Local Open Scope Z_scope.

(* ------------------------------------------------------------------ hard-coded midstates *)
Lemma s2c_midstates_correct :
  tagged_midstate tag_s2c_point = midstate_s2c_point /\
  tagged_midstate tag_s2c_data = midstate_s2c_data.
Proof. split; vm_compute; reflexivity. Qed.

Section S2cProofs.
Variable P : Params.
Let n := cn P.
Notation G := (Curve.G P).
Notation pmul := (Curve.pmul P).
Notation padd := (Curve.padd P).

(* the host commitment and the extra data that s2c_sign feeds to RFC 6979 are the same tagged hash *)
Lemma host_commit_is_tagged_hash : forall rho,
  anti_exfil_host_commit rho = [AInt 1; ABytes (tagged_hash tag_s2c_data rho)].
Proof.
  intros. unfold anti_exfil_host_commit. rewrite tagged_hash_from_midstate, (proj2 s2c_midstates_correct). reflexivity.
Qed.
Lemma s2c_data_hash_is_tagged_hash : forall data, s2c_data_hash data = tagged_hash tag_s2c_data data.
Proof.
  intros. unfold s2c_data_hash. rewrite tagged_hash_from_midstate, (proj2 s2c_midstates_correct). reflexivity.
Qed.
Lemma ec_commit_tweak_is_tagged_hash : forall Q data tw,
  ec_commit_tweak midstate_s2c_point Q data = Some tw -> tw = tagged_hash tag_s2c_point (ser33 Q ++ data).
Proof.
  intros Q data tw. unfold ec_commit_tweak. destruct (is_inf Q); [discriminate|]. intros H. inversion H.
  rewrite tagged_hash_from_midstate, (proj1 s2c_midstates_correct). reflexivity.
Qed.

(* ------------------------------------------------------------------ verify_commit *)
(* accepts exactly when the opening loads as a point Q, the tweak t = H(Q || data) is < n,
   C = Q + t*G is not the point at infinity and r = C.x mod n *)
Lemma verify_commit_exact : forall sigobj data32 obj,
  ecdsa_s2c_verify_commit P sigobj data32 obj = [AInt 1] <->
  exists Q C,
    pk_load obj = Some Q /\ Q <> None /\
    let t := be_val (sha256_from midstate_s2c_point 64 (ser33 Q ++ data32)) in
    t < n /\ C = padd Q (pmul (t mod n) G) /\ C <> None /\
    be_val (firstn 32 sigobj) mod n = be_val (fe_to_b32 (px C)) mod n.
Proof.
  intros. unfold ecdsa_s2c_verify_commit, ec_commit, ec_commit_tweak, pubkey_tweak_add_helper, sc_of_b32.
  fold n. cbn [fst].
  destruct (pk_load obj) as [Q|]; [|split; [discriminate|intros (Q & C & H & _); discriminate]].
  destruct Q as [[qx qy]|]; cbn [is_inf].
  2:{ split; [discriminate|]. intros (Q & C & H & H' & _). inversion H. congruence. }
  set (Q := Some (qx, qy)). set (t := be_val _).
  destruct (n <=? t) eqn:Eo.
  { apply Z.leb_le in Eo. split; [discriminate|]. intros (Q' & C & H & _ & H2 & _). inversion H. subst Q'. fold t in H2. lia. }
  apply Z.leb_gt in Eo.
  destruct (padd Q (pmul (t mod n) G)) as [c|] eqn:Ec.
  2:{ split; [discriminate|]. intros (Q' & C & H & _ & _ & H3 & H4 & _). inversion H. subst Q'. fold t in H3. congruence. }
  split.
  - intros H. exists Q, (Some c). split; [reflexivity|]. split; [discriminate|]. cbv zeta. fold t.
    split; [exact Eo|]. split; [symmetry; exact Ec|]. split; [discriminate|].
    destruct (_ =? _) eqn:E; [apply Z.eqb_eq in E; exact E|discriminate].
  - intros (Q' & C & H & _ & _ & H3 & _ & H5). inversion H. subst Q'. fold t in H3. rewrite Ec in H3. subst C.
    apply Z.eqb_eq in H5. rewrite H5. reflexivity.
Qed.

Lemma verify_commit_ret : forall sigobj data32 obj,
  ecdsa_s2c_verify_commit P sigobj data32 obj = [AInt 1] \/
  ecdsa_s2c_verify_commit P sigobj data32 obj = [AInt 0] \/
  ecdsa_s2c_verify_commit P sigobj data32 obj = [AInt 0; AIll 1] /\ pk_load obj = None.
Proof.
  intros. unfold ecdsa_s2c_verify_commit.
  destruct (pk_load obj); [|right; right; split; reflexivity].
  destruct (ec_commit _ _ _ _); [|right; left; reflexivity].
  destruct (_ =? _); [left|right; left]; reflexivity.
Qed.

(* ------------------------------------------------------------------ host_verify *)
(* exactly verify_commit && ecdsa_verify, evaluated left to right with short-circuit *)
Lemma host_verify_exact : forall sigobj msg32 pkobj host_data32 obj,
  anti_exfil_host_verify P sigobj msg32 pkobj host_data32 obj =
    (if ret_of (ecdsa_s2c_verify_commit P sigobj host_data32 obj) =? 1
     then ecdsa_verify P sigobj msg32 pkobj
     else ecdsa_s2c_verify_commit P sigobj host_data32 obj)
  /\
  (ret_of (anti_exfil_host_verify P sigobj msg32 pkobj host_data32 obj) = 1 <->
   ret_of (ecdsa_s2c_verify_commit P sigobj host_data32 obj) = 1 /\
   ret_of (ecdsa_verify P sigobj msg32 pkobj) = 1).
Proof.
  intros. split; [reflexivity|]. unfold anti_exfil_host_verify. fold (ret_of (ecdsa_s2c_verify_commit P sigobj host_data32 obj)).
  destruct (ret_of (ecdsa_s2c_verify_commit P sigobj host_data32 obj) =? 1) eqn:E.
  - apply Z.eqb_eq in E. tauto.
  - apply Z.eqb_neq in E. tauto.
Qed.

(* ------------------------------------------------------------------ the two nonce derivations agree *)
(* loop level, for ALL byte strings msg32 (including values >= n), seckey (valid or not), rho, and every
   fuel: whenever the signing loop stores an opening, the signer-commit loop run on the host commitment
   to the same rho returns that opening.  (The signing loop result S2cRetryAfterTweak/S2cOutOfFuel is the
   model abstaining.) *)
Lemma loops_agree : forall fuel counter msg32 seckey rho d m,
  match s2c_sign_loop P fuel counter msg32 seckey (s2c_data_hash rho) rho d m with
  | S2cOk _ _ Q => signer_commit_loop P fuel counter msg32 seckey (sha256_from midstate_s2c_data 64 rho) = Some Q
  | S2cFail (Some Q) => signer_commit_loop P fuel counter msg32 seckey (sha256_from midstate_s2c_data 64 rho) = Some Q
  | S2cFail None => False
  | S2cRetryAfterTweak => True
  | S2cOutOfFuel => True
  end.
Proof.
  induction fuel; intros; cbn [s2c_sign_loop signer_commit_loop]; [exact I|].
  unfold s2c_data_hash at 1 2.
  destruct (seckey_of_b32 P (nonce_rfc6979 P msg32 seckey None (Some (sha256_from midstate_s2c_data 64 rho)) counter)) as [k|].
  - destruct (ec_commit_seckey P midstate_s2c_point k (pmul k G) rho) as [k'|]; [|reflexivity].
    destruct (sig_sign P d m k') as [[[ok r] s] recid]. destruct ok; [reflexivity|exact I].
  - apply IHfuel.
Qed.

(* API level, for every loop bound *)
Lemma signer_commit_eq_sign_opening_fuel : forall fuel msg32 seckey rho sig opening,
  ecdsa_s2c_sign_fuel P fuel msg32 seckey rho true = [AInt 1; ABytes sig; ABytes opening] ->
  forall c, anti_exfil_host_commit rho = [AInt 1; ABytes c] ->
  anti_exfil_signer_commit_fuel P fuel msg32 seckey c = [AInt 1; ABytes opening].
Proof.
  intros fuel msg32 seckey rho sig opening H c Hc. unfold anti_exfil_host_commit in Hc. inversion Hc. subst c. clear Hc.
  unfold ecdsa_s2c_sign_fuel, s2c_sign_inner_fuel in H. unfold anti_exfil_signer_commit_fuel.
  pose proof (loops_agree fuel 0 msg32 seckey rho
                (match seckey_of_b32 P seckey with Some d => d | None => 1 end) (fst (sc_of_b32 P msg32))) as L.
  destruct (s2c_sign_loop P fuel 0 msg32 seckey (s2c_data_hash rho) rho _ _) as [r s Q|o| |].
  - rewrite L. destruct (seckey_of_b32 P seckey); [|discriminate]. cbn [app] in H. inversion H. reflexivity.
  - discriminate.
  - discriminate.
  - discriminate.
Qed.
(* ... in particular for the bound the drivers run with *)
Lemma signer_commit_eq_sign_opening : forall msg32 seckey rho sig opening,
  ecdsa_s2c_sign P msg32 seckey rho true = [AInt 1; ABytes sig; ABytes opening] ->
  forall c, anti_exfil_host_commit rho = [AInt 1; ABytes c] ->
  anti_exfil_signer_commit P msg32 seckey c = [AInt 1; ABytes opening].
Proof. exact (signer_commit_eq_sign_opening_fuel sign_fuel). Qed.

(* the same statement for the protocol run as a whole: with rho' = rho both openings of a completed run are equal *)
Lemma protocol_openings_equal_fuel : forall fuel msg32 seckey pkobj rho c o1 sig o2 rest,
  anti_exfil_protocol_fuel P fuel msg32 seckey pkobj rho rho = ABytes c :: ABytes o1 :: AInt 1 :: ABytes sig :: ABytes o2 :: rest ->
  o1 = o2.
Proof.
  intros fuel msg32 seckey pkobj rho c o1 sig o2 rest. unfold anti_exfil_protocol_fuel, s2c_sign_inner_fuel.
  pose proof (loops_agree fuel 0 msg32 seckey rho
                (match seckey_of_b32 P seckey with Some d => d | None => 1 end) (fst (sc_of_b32 P msg32))) as L.
  destruct (s2c_sign_loop P fuel 0 msg32 seckey (s2c_data_hash rho) rho _ _) as [r s Q|o| |].
  - rewrite L. destruct (seckey_of_b32 P seckey); cbn [app]; intros H; inversion H. reflexivity.
  - destruct o as [Q|]; [|contradiction]. rewrite L. intros H; inversion H.
  - destruct (signer_commit_loop _ _ _ _ _ _); intros H; inversion H.
  - destruct (signer_commit_loop _ _ _ _ _ _); intros H; inversion H.
Qed.
Lemma protocol_openings_equal : forall msg32 seckey pkobj rho c o1 sig o2 rest,
  anti_exfil_protocol P msg32 seckey pkobj rho rho = ABytes c :: ABytes o1 :: AInt 1 :: ABytes sig :: ABytes o2 :: rest ->
  o1 = o2.
Proof. exact (protocol_openings_equal_fuel sign_fuel). Qed.

(* ------------------------------------------------------------------ signing: failure leaves a zero signature *)
Lemma s2c_sign_failure_zeroes_fuel : forall fuel msg32 seckey data32 w,
  ecdsa_s2c_sign_fuel P fuel msg32 seckey data32 w = abstain \/
  ecdsa_s2c_sign_fuel P fuel msg32 seckey data32 w = [AInt 0; ABytes (zeros 64)] \/
  exists r s, firstn 2 (ecdsa_s2c_sign_fuel P fuel msg32 seckey data32 w) = [AInt 1; ABytes (sig_obj r s)].
Proof.
  intros. unfold ecdsa_s2c_sign_fuel. destruct (s2c_sign_inner_fuel P fuel msg32 seckey data32); auto.
  right. right. exists r, s. reflexivity.
Qed.
Lemma s2c_sign_failure_zeroes : forall msg32 seckey data32 w,
  ecdsa_s2c_sign P msg32 seckey data32 w = abstain \/
  ecdsa_s2c_sign P msg32 seckey data32 w = [AInt 0; ABytes (zeros 64)] \/
  exists r s, firstn 2 (ecdsa_s2c_sign P msg32 seckey data32 w) = [AInt 1; ABytes (sig_obj r s)].
Proof. exact (s2c_sign_failure_zeroes_fuel sign_fuel). Qed.

Lemma s2c_sign_rejects_invalid_seckey_fuel : forall fuel msg32 seckey data32 w,
  seckey_of_b32 P seckey = None ->
  ecdsa_s2c_sign_fuel P fuel msg32 seckey data32 w = abstain \/ ecdsa_s2c_sign_fuel P fuel msg32 seckey data32 w = [AInt 0; ABytes (zeros 64)].
Proof.
  intros. unfold ecdsa_s2c_sign_fuel, s2c_sign_inner_fuel. rewrite H.
  destruct (s2c_sign_loop _ _ _ _ _ _ _ _ _); auto.
Qed.
Lemma s2c_sign_rejects_invalid_seckey : forall msg32 seckey data32 w,
  seckey_of_b32 P seckey = None ->
  ecdsa_s2c_sign P msg32 seckey data32 w = abstain \/ ecdsa_s2c_sign P msg32 seckey data32 w = [AInt 0; ABytes (zeros 64)].
Proof. exact (s2c_sign_rejects_invalid_seckey_fuel sign_fuel). Qed.

(* anti_exfil_sign is s2c_sign without the opening *)
Lemma anti_exfil_sign_eq_fuel : forall fuel msg32 seckey rho sig opening,
  ecdsa_s2c_sign_fuel P fuel msg32 seckey rho true = [AInt 1; ABytes sig; ABytes opening] ->
  ecdsa_s2c_sign_fuel P fuel msg32 seckey rho false = [AInt 1; ABytes sig].
Proof.
  intros fuel msg32 seckey rho sig opening. unfold ecdsa_s2c_sign_fuel.
  destruct (s2c_sign_inner_fuel P fuel msg32 seckey rho); try discriminate. cbn [app]. intros H. inversion H. reflexivity.
Qed.
Lemma anti_exfil_sign_eq : forall msg32 seckey rho sig opening,
  ecdsa_s2c_sign P msg32 seckey rho true = [AInt 1; ABytes sig; ABytes opening] ->
  anti_exfil_sign P msg32 seckey rho = [AInt 1; ABytes sig].
Proof. exact (anti_exfil_sign_eq_fuel sign_fuel). Qed.

(* ------------------------------------------------------------------ openings *)
Lemma opening_parse_exact : forall tag xs o, length xs = 32%nat ->
  (s2c_opening_parse P (tag :: xs) = [AInt 1; ABytes o] <->
   exists Q, (tag = 2 \/ tag = 3) /\ be_val xs < cp P /\ lift_x P (be_val xs) (tag =? 3) = Q /\ Q <> None /\ o = pk_obj Q).
Proof.
  intros tag xs o Hl. unfold s2c_opening_parse.
  assert (F : firstn 33 (tag :: xs) = tag :: xs) by (apply firstn_all2; simpl; lia). rewrite F.
  destruct (eckey_pubkey_parse P (tag :: xs)) as [Q|] eqn:E.
  - apply (parse33_exact P tag xs Q Hl) in E. split.
    + intros H. inversion H. exists Q. tauto.
    + intros (Q' & H1 & H2 & H3 & H4 & H5). destruct E as (_ & _ & E3 & _). congruence.
  - split; [discriminate|]. intros (Q' & H1 & H2 & H3 & H4 & H5).
    assert (X : eckey_pubkey_parse P (tag :: xs) = Some Q') by (apply (parse33_exact P tag xs Q' Hl); tauto).
    congruence.
Qed.
Lemma opening_parse_rejects : forall tag xs, length xs = 32%nat ->
  (tag <> 2 /\ tag <> 3) \/ cp P <= be_val xs \/ lift_x P (be_val xs) (tag =? 3) = None ->
  s2c_opening_parse P (tag :: xs) = [AInt 0].
Proof.
  intros tag xs Hl H. unfold s2c_opening_parse.
  assert (F : firstn 33 (tag :: xs) = tag :: xs) by (apply firstn_all2; simpl; lia). rewrite F.
  rewrite (parse33_rejects P tag xs Hl H). reflexivity.
Qed.
End S2cProofs.
