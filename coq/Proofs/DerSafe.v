(* C07, DER parser: the result never depends on a byte outside the declared input.
   The model reads bytes with [nth i body 0]; a read beyond the end would return the default 0 (in C: whatever
   lies behind the buffer).  Here the parser is re-stated with an arbitrary default [d] and proved equal to
   the model for every [d]: no out-of-range read can influence the result, for every byte string. *)
From Coq Require Import ZArith List Bool Lia.
Require Import Spec.Params Spec.Field Spec.Curve Spec.Bytes Model.Base Model.Der Proofs.BytesLemmas.
Import ListNotations.
Local Open Scope Z_scope.

Section DerSafe.
Variable P : Params.
Variable d : Z.     (* what an out-of-bounds read would return *)

Definition der_parse_integer_d (inp : bytes) : option (Z * bytes) :=
  match inp with
  | 0x02 :: rest =>
    match der_read_len rest with
    | None => None
    | Some (rlen, body) =>
      if (rlen =? 0) || (Z.of_nat (length body) <? rlen) then None
      else
        let b0 := nth 0 body d in let b1 := nth 1 body d in
        if (b0 =? 0) && (1 <? rlen) && (Z.land b1 0x80 =? 0) then None
        else if (b0 =? 0xFF) && (1 <? rlen) && (Z.land b1 0x80 =? 0x80) then None
        else
          let negative := Z.land b0 0x80 =? 0x80 in
          let skip := b0 =? 0 in
          let rlen' := if skip then rlen - 1 else rlen in
          let body' := if skip then tl body else body in
          let digits := firstn (Z.to_nat rlen') body' in
          let rest' := skipn (Z.to_nat rlen') body' in
          let overflow := negative || (32 <? rlen') in
          let '(v, ov2) := sc_of_b32 P digits in
          Some (if overflow || ov2 then 0 else v, rest')
    end
  | _ => None
  end.

Lemma der_read_len_nonneg inp len rest : bytes_okP inp -> der_read_len inp = Some (len, rest) -> 0 <= len.
Proof.
  intros Hok. unfold der_read_len. destruct inp as [|b1 r]; [discriminate|].
  inversion Hok as [|? ? Hb _]; subst.
  destruct (b1 =? 0xFF); [discriminate|]. destruct (Z.land b1 0x80 =? 0); [intros H; inversion H; subst; lia|].
  destruct (b1 =? 0x80); [discriminate|]. destruct (_ <? _); [discriminate|]. destruct r; [discriminate|].
  destruct (z =? 0); [discriminate|]. destruct (8 <? _); [discriminate|]. destruct (_ <? be_val _); [discriminate|].
  destruct (be_val _ <? 128) eqn:E; [discriminate|]. intros H; inversion H; subst. apply Z.ltb_ge in E. lia.
Qed.

Lemma der_parse_integer_default_irrelevant inp : bytes_okP inp -> der_parse_integer_d inp = der_parse_integer P inp.
Proof.
  intros Hok.
  unfold der_parse_integer_d, der_parse_integer.
  destruct inp as [|t rest]; [reflexivity|]. destruct t; try reflexivity. repeat (destruct p; try reflexivity).
  destruct (der_read_len rest) as [[rlen body]|] eqn:ER; [|reflexivity].
  assert (Hr : 0 <= rlen) by (eapply der_read_len_nonneg; [|exact ER]; inversion Hok; assumption).
  destruct ((rlen =? 0) || (Z.of_nat (length body) <? rlen)) eqn:E; [reflexivity|].
  apply orb_false_iff in E. destruct E as [E1 E2]. apply Z.eqb_neq in E1. apply Z.ltb_ge in E2.
  assert (H0 : nth 0 body d = nth 0 body 0) by (apply nth_indep; lia).
  rewrite H0.
  destruct (1 <? rlen) eqn:E3.
  - apply Z.ltb_lt in E3. assert (H1 : nth 1 body d = nth 1 body 0) by (apply nth_indep; lia). rewrite H1. reflexivity.
  - rewrite !andb_false_r. cbn [andb]. reflexivity.
Qed.
End DerSafe.
