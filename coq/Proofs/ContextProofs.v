(* Results do not depend on the context's history: the blinding invariant. *)
From Coq Require Import ZArith List Bool Lia Znumtheory.
Require Import Spec.Params Spec.Field Spec.Curve Spec.Bytes Spec.Sha256.
Require Import Model.Base Model.Context Proofs.MathFacts Proofs.GroupLemmas.
Import ListNotations.
Local Open Scope Z_scope.

Section ContextProofs.
Variable P : Params.
Variable cb : Z.
Hypothesis MF : MathFacts P.
Notation n := (cn P).
Notation G := (Curve.G P).
Notation pmul := (Curve.pmul P).
Notation padd := (Curve.padd P).
Notation D := (scalar_diff P cb).

(* ge_offset is the point that cancels the scalar offset, and it is never the point at infinity
   (gej_add_ge could not handle it) *)
Definition Inv (c : gen_ctx) : Prop :=
  0 <= soff c < n /\ goff c = pmul ((D - soff c) mod n) G /\ goff c <> None.

Lemma npos'' : 0 < n. Proof. apply (n_pos P MF). Qed.

Lemma ecmult_gen_inv c k : Inv c -> 0 <= k < n -> ecmult_gen P cb c k = pmul k G.
Proof.
  intros [Hs [Hg _]] Hk. pose proof npos'' as Hn. unfold ecmult_gen. rewrite Hg.
  rewrite <- (pmul_add P MF) by (auto using (oc_G P MF); apply Z.mod_pos_bound; lia).
  rewrite <- (pmul_mod_n P MF) by (pose proof (Z.mod_pos_bound (k + soff c - D) n Hn); pose proof (Z.mod_pos_bound (D - soff c) n Hn); lia).
  rewrite <- Zplus_mod. replace (k + soff c - D + (D - soff c)) with k by ring.
  rewrite (pmul_mod_n P MF) by lia. reflexivity.
Qed.

Lemma inv_reset : Inv (ctx_reset P cb).
Proof.
  pose proof npos'' as Hn. unfold Inv, ctx_reset; cbn [soff goff]. split; [apply Z.mod_pos_bound; lia|]. split.
  - assert (E : (D - (1 + D) mod n) mod n = mneg n 1).
    { unfold mneg. rewrite Zminus_mod_idemp_r. f_equal. ring. }
    rewrite E. assert (1 < n) by (pose proof (prime_ge_2 _ (mf_n_prime P MF)); lia).
    rewrite (pmul_mneg P MF) by lia. reflexivity.
  - destruct (mf_G P MF) as [_ HG]. unfold Curve.G in *. simpl. discriminate.
Qed.

Lemma inv_randomize c seed : Inv c -> Inv (ctx_randomize P cb c seed).
Proof.
  intros HI. pose proof npos'' as Hn. unfold ctx_randomize.
  destruct (drbg_gen32 (drbg_init _)) as [o1 rng1]. destruct (drbg_gen32 rng1) as [o2 rng2].
  set (b0 := be_val o2 mod n). set (b := if b0 =? 0 then 1 else b0).
  assert (H1n : 1 < n) by (pose proof (prime_ge_2 _ (mf_n_prime P MF)); lia).
  assert (Hb : 0 < b < n).
  { unfold b. pose proof (Z.mod_pos_bound (be_val o2) n Hn). fold b0 in H. destruct (b0 =? 0) eqn:E; [lia|]. apply Z.eqb_neq in E. lia. }
  unfold Inv; cbn [soff goff]. split; [apply Z.mod_pos_bound; lia|].
  rewrite (ecmult_gen_inv c b HI) by lia. split.
  - f_equal. rewrite Zminus_mod_idemp_r.
    replace (D - ((- b) mod n + D)) with (0 - (- b) mod n) by ring.
    rewrite Zminus_mod_idemp_r. replace (0 - - b) with b by ring. symmetry. apply Z.mod_small. lia.
  - apply (pmul_G_nonzero P MF). lia.
Qed.

Lemma inv_step c o : Inv c -> Inv (ctx_step P cb c o).
Proof. intros H. destruct o; simpl; auto using inv_randomize, inv_reset. Qed.

Lemma inv_run_from ops c : Inv c -> Inv (fold_left (ctx_step P cb) ops c).
Proof. revert c. induction ops as [|o ops IH]; intros c H; cbn [fold_left]; auto using inv_step. Qed.

(* every reachable context computes the same fixed-base multiplication: k*G *)
Theorem ecmult_gen_independent_of_history ops k : 0 <= k < n ->
  ecmult_gen P cb (ctx_run P cb ops) k = pmul k G.
Proof. intros Hk. apply ecmult_gen_inv; [|exact Hk]. apply inv_run_from. apply inv_reset. Qed.
End ContextProofs.
