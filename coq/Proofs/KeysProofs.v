(* Lemmas about the key-algebra model (Model/Keys.v). *)
From Coq Require Import ZArith List Bool Lia Permutation Sorted Znumtheory.
Require Import Spec.Params Spec.Field Spec.Curve Spec.Bytes.
Require Import Model.Base Model.Keys Proofs.BytesLemmas Proofs.MathFacts Proofs.GroupLemmas Proofs.PubkeyProofs.
Import ListNotations.
Local Open Scope Z_scope.
Ltac Zify.zify_post_hook ::= Z.div_mod_to_equations.
Local Opaque be_enc.

Section KeysProofs.
Variable P : Params.
Notation n := (cn P).
Notation G := (Curve.G P).
Notation pmul := (Curve.pmul P).
Notation padd := (Curve.padd P).
Notation pneg := (Curve.pneg P).

(* ---- exact success/failure conditions (no premises): every operation is an if-then-else of its
        documented conditions, and the failure output is all-zero ---- *)
Definition validb (b : bytes) : bool := (0 <? be_val b) && (be_val b <? n).

Lemma seckey_of_b32_validb b : seckey_of_b32 P b = if validb b then Some (be_val b) else None.
Proof. reflexivity. Qed.

Lemma pubkey_create_exact seckey :
  ec_pubkey_create P seckey =
    if validb seckey then [AInt 1; ABytes (pk_obj (pmul (be_val seckey) G))] else [AInt 0; ABytes pk_obj_zero].
Proof. unfold ec_pubkey_create, pubkey_create_pt. rewrite seckey_of_b32_validb. destruct (validb seckey); reflexivity. Qed.

Lemma seckey_negate_exact seckey :
  ec_seckey_negate P seckey =
    if validb seckey then [AInt 1; ABytes (sc_to_b32 ((- be_val seckey) mod n))] else [AInt 0; ABytes (zeros 32)].
Proof. unfold ec_seckey_negate. rewrite seckey_of_b32_validb. destruct (validb seckey); reflexivity. Qed.

Lemma seckey_tweak_add_exact seckey tweak :
  let d := be_val seckey in let t := be_val tweak in
  ec_seckey_tweak_add P seckey tweak =
    if validb seckey && (t <? n) && negb ((d + t) mod n =? 0)
    then [AInt 1; ABytes (sc_to_b32 ((d + t) mod n))] else [AInt 0; ABytes (zeros 32)].
Proof.
  cbv zeta. unfold ec_seckey_tweak_add. rewrite seckey_of_b32_validb.
  destruct (validb seckey) eqn:Ev; [|reflexivity]. cbn [andb].
  unfold seckey_tweak_add_helper, sc_of_b32, sc_add, madd.
  assert (Hn : 0 < n) by (unfold validb in Ev; apply andb_true_iff in Ev; lia).
  rewrite Zplus_mod_idemp_r.
  destruct (n <=? be_val tweak) eqn:Eo.
  - replace (be_val tweak <? n) with false by (symmetry; apply Z.ltb_ge; lia). reflexivity.
  - replace (be_val tweak <? n) with true by (symmetry; apply Z.ltb_lt; lia). cbn [negb andb].
    destruct ((be_val seckey + be_val tweak) mod n =? 0); reflexivity.
Qed.

Lemma seckey_tweak_mul_exact seckey tweak :
  let d := be_val seckey in let t := be_val tweak in
  ec_seckey_tweak_mul P seckey tweak =
    if validb seckey && (t <? n) && negb (t mod n =? 0)
    then [AInt 1; ABytes (sc_to_b32 ((d * (t mod n)) mod n))] else [AInt 0; ABytes (zeros 32)].
Proof.
  cbv zeta. unfold ec_seckey_tweak_mul, sc_of_b32. rewrite seckey_of_b32_validb.
  destruct (validb seckey) eqn:Ev; [|reflexivity]. cbn [andb].
  destruct (n <=? be_val tweak) eqn:Eo.
  - replace (be_val tweak <? n) with false by (symmetry; apply Z.ltb_ge; lia). reflexivity.
  - replace (be_val tweak <? n) with true by (symmetry; apply Z.ltb_lt; lia). cbn [negb andb].
    destruct (be_val tweak mod n =? 0); reflexivity.
Qed.

Lemma pubkey_tweak_add_exact obj tweak Q : pk_load obj = Some Q ->
  let t := be_val tweak in
  ec_pubkey_tweak_add P obj tweak =
    if t <? n then match padd Q (pmul (t mod n) G) with
                   | None => [AInt 0; ABytes pk_obj_zero] | R => [AInt 1; ABytes (pk_obj R)] end
    else [AInt 0; ABytes pk_obj_zero].
Proof.
  intros HL. cbv zeta. unfold ec_pubkey_tweak_add. rewrite HL. unfold pubkey_tweak_add_helper, sc_of_b32.
  destruct (n <=? be_val tweak) eqn:Eo.
  - replace (be_val tweak <? n) with false by (symmetry; apply Z.ltb_ge; lia). reflexivity.
  - replace (be_val tweak <? n) with true by (symmetry; apply Z.ltb_lt; lia).
    destruct (padd Q _); reflexivity.
Qed.

Lemma pubkey_tweak_mul_exact obj tweak Q : pk_load obj = Some Q ->
  let t := be_val tweak in
  ec_pubkey_tweak_mul P obj tweak =
    if (t <? n) && negb (t mod n =? 0) then [AInt 1; ABytes (pk_obj (pmul (t mod n) Q))] else [AInt 0; ABytes pk_obj_zero].
Proof.
  intros HL. cbv zeta. unfold ec_pubkey_tweak_mul, sc_of_b32.
  destruct (n <=? be_val tweak) eqn:Eo.
  - replace (be_val tweak <? n) with false by (symmetry; apply Z.ltb_ge; lia). reflexivity.
  - replace (be_val tweak <? n) with true by (symmetry; apply Z.ltb_lt; lia). rewrite HL.
    destruct (be_val tweak mod n =? 0); reflexivity.
Qed.

(* combine fails exactly when the sum is the point at infinity (or the list is empty: illegal call) *)
Lemma pubkey_combine_exact objs : objs <> [] ->
  ec_pubkey_combine P objs =
    match psum P (map (fun o => match pk_load o with Some Q => Q | None => None end) objs) with
    | None => [AInt 0; ABytes pk_obj_zero] | R => [AInt 1; ABytes (pk_obj R)] end.
Proof. intros H. unfold ec_pubkey_combine. destruct objs; [contradiction|]. destruct (psum P _); reflexivity. Qed.

(* ---- comparison and sorting ---- *)
Definition key_le (a b : bytes) : Prop := bytes_cmp (fst (cmp_key a)) (fst (cmp_key b)) <= 0.

Lemma bytes_cmp_antisym_total a b : bytes_cmp a b <= 0 \/ bytes_cmp b a <= 0.
Proof.
  revert b. induction a as [|x a IH]; intros [|y b]; simpl; try lia.
  destruct (x <? y) eqn:A, (y <? x) eqn:B; try lia; try apply IH.
Qed.

Lemma insert_perm x l : Permutation (insert_sorted x l) (x :: l).
Proof.
  induction l as [|y l IH]; simpl; [reflexivity|].
  destruct (bytes_cmp _ _ <=? 0); [reflexivity|]. rewrite IH. apply perm_swap.
Qed.
Lemma sort_perm l : Permutation (sort_objs l) l.
Proof. induction l as [|x l IH]; simpl; [reflexivity|]. rewrite insert_perm. constructor. exact IH. Qed.

Lemma bytes_cmp_trans a b c : bytes_cmp a b <= 0 -> bytes_cmp b c <= 0 -> bytes_cmp a c <= 0.
Proof.
  revert b c. induction a as [|x a IH]; intros [|y b] [|z c]; simpl; try lia.
  destruct (x <? y) eqn:A, (y <? x) eqn:B, (y <? z) eqn:C, (z <? y) eqn:D, (x <? z) eqn:E, (z <? x) eqn:F; try lia; try (eapply IH; eassumption).
Qed.

Lemma insert_sorted_sorted x l : Sorted key_le l -> Sorted key_le (insert_sorted x l).
Proof.
  induction l as [|y l IH]; intros H; simpl; [repeat constructor|].
  destruct (bytes_cmp (fst (cmp_key x)) (fst (cmp_key y)) <=? 0) eqn:E.
  - constructor; [exact H|]. constructor. unfold key_le. lia.
  - inversion H as [|? ? Hs Hh]; subst. constructor; [apply IH; exact Hs|].
    assert (Hyx : key_le y x).
    { unfold key_le. destruct (bytes_cmp_antisym_total (fst (cmp_key x)) (fst (cmp_key y))); lia. }
    destruct l as [|z l]; simpl.
    + constructor. exact Hyx.
    + destruct (bytes_cmp (fst (cmp_key x)) (fst (cmp_key z)) <=? 0); constructor; [exact Hyx|].
      inversion Hh; subst. assumption.
Qed.
Lemma sort_sorted l : Sorted key_le (sort_objs l).
Proof. induction l as [|x l IH]; simpl; [constructor|]. apply insert_sorted_sorted. exact IH. Qed.

(* comparison is the lexicographic comparison of the compressed encodings (invalid objects = 33 zero bytes) *)
Lemma pubkey_cmp_exact o1 o2 Q1 Q2 : pk_load o1 = Some Q1 -> pk_load o2 = Some Q2 ->
  ec_pubkey_cmp o1 o2 = [AInt (bytes_cmp (ser33 Q1) (ser33 Q2))].
Proof. intros H1 H2. unfold ec_pubkey_cmp, cmp_key. rewrite H1, H2. reflexivity. Qed.

(* ---- commutation of secret-key and public-key operations [MF] ---- *)
Hypothesis MF : MathFacts P.

Lemma create_tweak_add_commutes d t : 0 < d < n -> 0 <= t < n ->
  pmul (madd n d t) G = padd (pmul d G) (pmul t G).
Proof. intros Hd Ht. apply (pmul_madd P MF); lia. Qed.
Lemma create_tweak_mul_commutes d t : 0 < d < n -> 0 <= t < n ->
  pmul (mmul n d t) G = pmul t (pmul d G).
Proof. intros Hd Ht. unfold mmul. rewrite Z.mul_comm. apply (pmul_mmul P MF); lia. Qed.
Lemma create_negate_commutes d : 0 < d < n -> pmul (mneg n d) G = pneg (pmul d G).
Proof. intros Hd. apply (pmul_mneg P MF); lia. Qed.
End KeysProofs.
