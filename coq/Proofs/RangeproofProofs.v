(* Lemmas about Model/Rangeproof.v (properties C09 and C10).  All statements are about the
   executable model, for all inputs; none needs a premise about the curve. *)
From Coq Require Import ZArith List Bool Lia.
Require Import Spec.Params Spec.Field Spec.Curve Spec.Bytes Spec.Sha256.
Require Import Model.Base Model.Pedersen Model.Borromean Model.Rangeproof.
Require Import Proofs.BytesLemmas.
Import ListNotations.
Local Open Scope Z_scope.
Ltac Zify.zify_post_hook ::= Z.div_mod_to_equations.

Lemma in_firstn {A} (x : A) k : forall l, In x (firstn k l) -> In x l.
Proof. induction k; intros l H; [destruct H|]. destruct l; [destruct H|]. destruct H; [left|right]; auto. Qed.
Lemma in_skipn {A} (x : A) k : forall l, In x (skipn k l) -> In x l.
Proof. induction k; intros l H; [exact H|]. destruct l; [destruct H|]. right. auto. Qed.
Lemma slice_ok off len bs : bytes_okP bs -> bytes_okP (slice off len bs).
Proof.
  unfold slice, bytes_okP. rewrite !Forall_forall. intros H x Hx. apply H.
  apply in_firstn in Hx. apply in_skipn in Hx. exact Hx.
Qed.
Lemma be_val_slice8 off bs : bytes_okP bs -> 0 <= be_val (slice off 8 bs) < 2 ^ 64.
Proof.
  intros H. pose proof (be_val_bound _ (slice_ok off 8 bs H)) as Hb.
  assert (Hlen : (length (slice off 8 bs) <= 8)%nat) by (unfold slice; apply firstn_le_length).
  assert (256 ^ Z.of_nat (length (slice off 8 bs)) <= 256 ^ 8) by (apply Z.pow_le_mono_r; lia).
  change (256 ^ 8) with (2 ^ 64) in H0. lia.
Qed.

Lemma skipn_skipn' {A} a : forall b (l : list A), skipn a (skipn b l) = skipn (b + a) l.
Proof.
  induction b as [|b IH]; intros l; [reflexivity|].
  destruct l as [|x l]; [cbn [skipn Nat.add]; apply skipn_nil|]. cbn [skipn Nat.add]. apply IH.
Qed.

(* ================================================================== header (C10) *)
Lemma getheader_short proof : Z.of_nat (length proof) < 65 -> getheader proof = None.
Proof. intros H. unfold getheader. apply Z.ltb_lt in H. rewrite H. reflexivity. Qed.

Lemma getheader_reserved_bit proof : Z.land (nth 0 proof 0) 128 <> 0 -> getheader proof = None.
Proof.
  intros H. unfold getheader. apply Z.eqb_neq in H. rewrite H. rewrite orb_true_r. reflexivity.
Qed.

Lemma getheader_exp_above_18 proof :
  Z.land (nth 0 proof 0) 64 <> 0 -> 18 < Z.land (nth 0 proof 0) 31 -> getheader proof = None.
Proof.
  intros H64 H. unfold getheader.
  destruct ((Z.of_nat (length proof) <? 65) || negb (Z.land (nth 0 proof 0) 128 =? 0)); [reflexivity|].
  apply Z.eqb_neq in H64. rewrite H64. cbn [negb]. apply Z.ltb_lt in H. rewrite H. reflexivity.
Qed.

Lemma getheader_mantissa_above_64 proof :
  Z.land (nth 0 proof 0) 64 <> 0 -> 64 < nth 1 proof 0 + 1 -> getheader proof = None.
Proof.
  intros H64 H. unfold getheader.
  destruct ((Z.of_nat (length proof) <? 65) || negb (Z.land (nth 0 proof 0) 128 =? 0)); [reflexivity|].
  apply Z.eqb_neq in H64. rewrite H64. cbn [negb].
  destruct (18 <? Z.land (nth 0 proof 0) 31); [reflexivity|].
  apply Z.ltb_lt in H. rewrite H. reflexivity.
Qed.

(* the scale loop: succeeds iff no intermediate product exceeds 2^64-1; then max = max0 * 10^k *)
Lemma scale_loop_spec k : forall mx sc mx' sc', 0 <= mx ->
  scale_loop k mx sc = Some (mx', sc') ->
  mx' = mx * 10 ^ Z.of_nat k /\ (k <> O -> mx' <= U64MAX) /\ mx <= mx'.
Proof.
  induction k as [|k IH]; intros mx sc mx' sc' Hmx H.
  - simpl in H. inversion H; subst. rewrite Z.mul_1_r. repeat split; try lia; congruence.
  - cbn [scale_loop] in H. destruct (U64MAX / 10 <? mx) eqn:E; [discriminate|].
    apply Z.ltb_ge in E.
    apply IH in H; [|lia]. destruct H as [H1 [H2 H3]].
    rewrite Nat2Z.inj_succ, Z.pow_succ_r by lia.
    split; [lia|]. split; [|lia]. intros _.
    destruct k.
    + simpl in H1. unfold U64MAX in *. lia.
    + apply H2. congruence.
Qed.

(* everything getheader returns, in one statement *)
Lemma getheader_inv proof h :
  bytes_okP proof -> getheader proof = Some h ->
  65 <= Z.of_nat (length proof) /\
  Z.land (nth 0 proof 0) 128 = 0 /\
  -1 <= h_exp h <= 18 /\ 0 <= h_mantissa h <= 64 /\
  0 <= h_min h /\ h_min h <= h_max h /\ h_max h <= U64MAX /\
  h_max h = h_min h + (if h_mantissa h =? 0 then 0 else (2 ^ h_mantissa h - 1) * 10 ^ (Z.max 0 (h_exp h))) /\
  1 <= h_offset h <= 10.
Proof.
  intros Hok H. unfold getheader in H.
  destruct ((Z.of_nat (length proof) <? 65) || negb (Z.land (nth 0 proof 0) 128 =? 0)) eqn:E0; [discriminate|].
  apply orb_false_iff in E0. destruct E0 as [E0 E1]. apply Z.ltb_ge in E0.
  apply negb_false_iff, Z.eqb_eq in E1.
  set (b0 := nth 0 proof 0) in *.
  destruct (negb (Z.land b0 64 =? 0)) eqn:Enz.
  - (* non-zero range *)
    destruct (18 <? Z.land b0 31) eqn:Ee; [discriminate|]. apply Z.ltb_ge in Ee.
    destruct (64 <? nth 1 proof 0 + 1) eqn:Em; [discriminate|]. apply Z.ltb_ge in Em.
    assert (Hb1 : 0 <= nth 1 proof 0 < 256).
    { destruct (nth_in_or_default 1 proof 0) as [Hin|Hd]; [|rewrite Hd; lia].
      unfold bytes_okP in Hok. rewrite Forall_forall in Hok. apply Hok; auto. }
    set (mant := nth 1 proof 0 + 1) in *.
    assert (Hl : 0 <= Z.land b0 31) by (apply Z.land_nonneg; right; lia).
    assert (Hmax0 : Z.shiftr U64MAX (64 - mant) = 2 ^ mant - 1).
    { rewrite Z.shiftr_div_pow2 by lia. unfold U64MAX.
      replace (2 ^ 64) with (2 ^ mant * 2 ^ (64 - mant)) by (rewrite <- Z.pow_add_r by lia; f_equal; lia).
      assert (0 < 2 ^ (64 - mant)) by (apply Z.pow_pos_nonneg; lia).
      assert (0 < 2 ^ mant) by (apply Z.pow_pos_nonneg; lia).
      symmetry. apply Z.div_unique with (r := 2 ^ (64 - mant) - 1); nia. }
    rewrite Hmax0 in H.
    assert (Hm0 : 0 <= 2 ^ mant - 1) by (assert (0 < 2 ^ mant) by (apply Z.pow_pos_nonneg; lia); lia).
    destruct (scale_loop (Z.to_nat (Z.land b0 31)) (2 ^ mant - 1) 1) as [[mx sc]|] eqn:Es; [|discriminate].
    apply scale_loop_spec in Es; auto. destruct Es as [Es1 [Es2 Es3]].
    rewrite Z2Nat.id in Es1 by lia.
    assert (Hmxb : mx <= U64MAX).
    { destruct (Z.to_nat (Z.land b0 31)) eqn:En.
      - assert (Z.land b0 31 = 0) by lia. rewrite H0 in Es1. rewrite Z.pow_0_r, Z.mul_1_r in Es1. subst mx.
        unfold U64MAX. assert (2 ^ mant <= 2 ^ 64) by (apply Z.pow_le_mono_r; lia). lia.
      - apply Es2. congruence. }
    destruct (negb (Z.land b0 32 =? 0)) eqn:Emin.
    + destruct (Z.of_nat (length proof) - 2 <? 8); [discriminate|].
      set (mv := be_val (slice (Z.to_nat 2) 8 proof)) in *.
      assert (Hmv : 0 <= mv < 2 ^ 64) by (apply be_val_slice8; auto).
      destruct (U64MAX - mv <? mx) eqn:Eo; [discriminate|]. apply Z.ltb_ge in Eo.
      inversion H; subst h; cbn [h_exp h_mantissa h_min h_max h_offset].
      replace (mant =? 0) with false by (symmetry; apply Z.eqb_neq; lia).
      rewrite Z.max_r by lia.
      repeat split; try lia.
    + destruct (U64MAX - 0 <? mx) eqn:Eo; [discriminate|].
      inversion H; subst h; cbn [h_exp h_mantissa h_min h_max h_offset].
      replace (mant =? 0) with false by (symmetry; apply Z.eqb_neq; lia).
      rewrite Z.max_r by lia.
      repeat split; try lia.
  - (* exact value *)
    change (scale_loop (Z.to_nat (-1)) 0 1) with (Some (0, 1)) in H. cbv iota beta in H.
    destruct (negb (Z.land b0 32 =? 0)) eqn:Emin.
    + destruct (Z.of_nat (length proof) - 1 <? 8); [discriminate|].
      set (mv := be_val (slice (Z.to_nat 1) 8 proof)) in *.
      assert (Hmv : 0 <= mv < 2 ^ 64) by (apply be_val_slice8; auto).
      destruct (U64MAX - mv <? 0) eqn:Eo; [discriminate|]. apply Z.ltb_ge in Eo.
      inversion H; subst h; cbn [h_exp h_mantissa h_min h_max h_offset]. cbn [Z.eqb].
      unfold U64MAX in *. repeat split; try lia.
    + destruct (U64MAX - 0 <? 0) eqn:Eo; [discriminate|].
      inversion H; subst h; cbn [h_exp h_mantissa h_min h_max h_offset]. cbn [Z.eqb].
      unfold U64MAX. repeat split; try lia.
Qed.

(* ================================================================== verification (C10) *)
Section Verify.
Variable P : Params.
Notation n := (cn P).
Notation p := (cp P).

Ltac break_match_hyp H :=
  repeat match type of H with
  | context[match ?x with _ => _ end] => destruct x eqn:?; try discriminate
  end.

(* exact length of an acceptable proof, as a function of its header *)
Definition expected_len (h : header) : Z :=
  let rsizes := verify_layout (h_mantissa h) in
  let rings := Z.of_nat (length rsizes) in
  (* header, sign bytes, rings-1 digit commitments, e0, one scalar per public key *)
  Z.of_nat (Z.to_nat (h_offset h) + Z.to_nat (Z.shiftr (rings + 6) 3) + 32 * Z.to_nat (rings - 1)) + 32
  + 32 * Z.of_nat (sum_nat rsizes).

Record accepted (proof : bytes) (h : header) (sent : list point) (hashed : bytes) (s : list Z) : Prop := {
  acc_hdr : getheader proof = Some h;
  acc_spare : let rings := Z.of_nat (length (verify_layout (h_mantissa h))) in
              let nsign := Z.to_nat (Z.shiftr (rings + 6) 3) in
              Z.land (rings - 1) 7 <> 0 ->
              Z.shiftr (nth (Nat.pred nsign) (slice (Z.to_nat (h_offset h)) nsign proof) 0) (Z.land (rings - 1) 7) = 0;
  acc_digits : let rings := Z.of_nat (length (verify_layout (h_mantissa h))) in
               let nsign := Z.to_nat (Z.shiftr (rings + 6) 3) in
               parse_digits P (Z.to_nat (rings - 1)) 0 (slice (Z.to_nat (h_offset h)) nsign proof)
                            (skipn (Z.to_nat (h_offset h) + nsign) proof) = Some (sent, hashed);
  acc_scalars : let rings := Z.of_nat (length (verify_layout (h_mantissa h))) in
                let nsign := Z.to_nat (Z.shiftr (rings + 6) 3) in
                parse_scalars P (sum_nat (verify_layout (h_mantissa h)))
                              (skipn (Z.to_nat (h_offset h) + nsign + 32 * Z.to_nat (rings - 1) + 32) proof) = Some s;
  acc_len : let rings := Z.of_nat (length (verify_layout (h_mantissa h))) in
            let nsign := Z.to_nat (Z.shiftr (rings + 6) 3) in
            Z.of_nat (Z.to_nat (h_offset h) + nsign + 32 * Z.to_nat (rings - 1)) + 32
              + 32 * Z.of_nat (sum_nat (verify_layout (h_mantissa h))) = Z.of_nat (length proof)
}.

Lemma verify_ok_inv nonce mcap commit proof extra genp v :
  rangeproof_verify_impl P nonce mcap commit proof extra genp = ROk v ->
  exists h sent hashed s, accepted proof h sent hashed s /\ v_min v = h_min h /\ v_max v = h_max h.
Proof.
  intros H. unfold rangeproof_verify_impl in H.
  destruct (getheader proof) as [h|] eqn:Eh; [|discriminate].
  cbv zeta in H.
  rewrite Nat2Z.id in H.
  destruct (Z.of_nat (length proof) - h_offset h <? _) eqn:E1 in H; [discriminate|].
  match type of H with (if ?c then _ else _) = _ => destruct c eqn:E2; [discriminate|] end.
  destruct (parse_digits P _ 0 _ _) as [[sent hashed]|] eqn:E3 in H; [|discriminate].
  match type of H with (if ?c then _ else _) = _ => destruct c eqn:E4; [discriminate|] end.
  destruct (parse_scalars P _ _) as [s|] eqn:E5 in H; [|discriminate].
  match type of H with (if ?c then _ else _) = _ => destruct c eqn:E6; [discriminate|] end.
  destruct (borromean_verify_ev P _ _ _ _ _ _) as [ev|] eqn:E7 in H; [|discriminate].
  exists h, sent, hashed, s.
  assert (Hv : v_min v = h_min h /\ v_max v = h_max h).
  { destruct nonce as [nc|].
    - destruct (rewind_inner P mcap ev s _ nc commit _ genp) as [[[bl vv] msg]| |]; try discriminate.
      match type of H with (if ?c then _ else _) = _ => destruct c; [discriminate|] end.
      match type of H with (if ?c then _ else _) = _ => destruct c; [discriminate|] end.
      inversion H; subst v. auto.
    - inversion H; subst v. auto. }
  split; [|exact Hv].
  constructor; cbv zeta.
  - exact Eh.
  - intros Hne. apply andb_false_iff in E2. destruct E2 as [E2|E2].
    + apply negb_false_iff, Z.eqb_eq in E2. contradiction.
    + apply negb_false_iff, Z.eqb_eq in E2. exact E2.
  - exact E3.
  - exact E5.
  - apply negb_false_iff, Z.eqb_eq in E6. rewrite <- E6. lia.
Qed.

(* ---- header-level rejections lifted to verification *)
Lemma verify_fails_without_header nonce mcap commit proof extra genp :
  getheader proof = None -> rangeproof_verify_impl P nonce mcap commit proof extra genp = RFail.
Proof. intros H. unfold rangeproof_verify_impl. rewrite H. reflexivity. Qed.

Lemma rejects_short nonce mcap commit proof extra genp :
  Z.of_nat (length proof) < 65 -> rangeproof_verify_impl P nonce mcap commit proof extra genp = RFail.
Proof. intros. apply verify_fails_without_header, getheader_short; auto. Qed.

Lemma rejects_reserved_header_bit nonce mcap commit proof extra genp :
  Z.land (nth 0 proof 0) 128 <> 0 -> rangeproof_verify_impl P nonce mcap commit proof extra genp = RFail.
Proof. intros. apply verify_fails_without_header, getheader_reserved_bit; auto. Qed.

Lemma rejects_exp_above_18 nonce mcap commit proof extra genp :
  Z.land (nth 0 proof 0) 64 <> 0 -> 18 < Z.land (nth 0 proof 0) 31 ->
  rangeproof_verify_impl P nonce mcap commit proof extra genp = RFail.
Proof. intros. apply verify_fails_without_header, getheader_exp_above_18; auto. Qed.

Lemma rejects_mantissa_above_64 nonce mcap commit proof extra genp :
  Z.land (nth 0 proof 0) 64 <> 0 -> 64 < nth 1 proof 0 + 1 ->
  rangeproof_verify_impl P nonce mcap commit proof extra genp = RFail.
Proof. intros. apply verify_fails_without_header, getheader_mantissa_above_64; auto. Qed.

(* an accepted proof reports a range inside [0, 2^64): min + (2^mantissa - 1) * 10^exp did not overflow *)
Lemma rejects_range_overflow nonce mcap commit proof extra genp v :
  bytes_okP proof -> rangeproof_verify_impl P nonce mcap commit proof extra genp = ROk v ->
  exists h, getheader proof = Some h /\
    0 <= v_min v /\ v_min v <= v_max v /\ v_max v <= U64MAX /\
    v_max v = v_min v + (if h_mantissa h =? 0 then 0 else (2 ^ h_mantissa h - 1) * 10 ^ (Z.max 0 (h_exp h))).
Proof.
  intros Hok H. apply verify_ok_inv in H. destruct H as [h [sent [hashed [s [A [Hmin Hmax]]]]]].
  exists h. split; [apply (acc_hdr _ _ _ _ _ A)|].
  pose proof (getheader_inv proof h Hok (acc_hdr _ _ _ _ _ A)) as I.
  rewrite Hmin, Hmax. intuition.
Qed.

(* the range verification reports is the one rangeproof_info reports *)
Lemma verify_range_eq_info nonce mcap commit proof extra genp v :
  rangeproof_verify_impl P nonce mcap commit proof extra genp = ROk v ->
  exists e m, rangeproof_info proof = [AInt 1; AInt e; AInt m; AInt (v_min v); AInt (v_max v)].
Proof.
  intros H. apply verify_ok_inv in H. destruct H as [h [sent [hashed [s [A [Hmin Hmax]]]]]].
  exists (h_exp h), (h_mantissa h). unfold rangeproof_info. rewrite (acc_hdr _ _ _ _ _ A), Hmin, Hmax. reflexivity.
Qed.

(* ---- scalars *)
Lemma parse_scalars_lt cnt : forall b l, parse_scalars P cnt b = Some l ->
  forall k, (k < cnt)%nat -> be_val (firstn 32 (skipn (32 * k) b)) < n.
Proof.
  induction cnt as [|cnt IH]; intros b l H k Hk; [lia|].
  cbn [parse_scalars] in H. unfold sc_of_b32 in H.
  destruct (n <=? be_val (firstn 32 b)) eqn:E; [discriminate|]. apply Z.leb_gt in E.
  destruct (parse_scalars P cnt (skipn 32 b)) as [l'|] eqn:E2; [|discriminate].
  destruct k as [|k].
  - rewrite Nat.mul_0_r. cbn [skipn]. exact E.
  - replace (32 * S k)%nat with (32 + 32 * k)%nat by lia. rewrite <- skipn_skipn'.
    apply (IH _ _ E2). lia.
Qed.

(* every ring scalar of an accepted proof is below n: the re-encoding s + n is rejected *)
Lemma rejects_scalar_ge_n nonce mcap commit proof extra genp v :
  rangeproof_verify_impl P nonce mcap commit proof extra genp = ROk v ->
  exists h, getheader proof = Some h /\
    let rsizes := verify_layout (h_mantissa h) in
    let rings := Z.of_nat (length rsizes) in
    let soff := (Z.to_nat (h_offset h) + Z.to_nat (Z.shiftr (rings + 6) 3) + 32 * Z.to_nat (rings - 1) + 32)%nat in
    forall k, (k < sum_nat rsizes)%nat -> be_val (slice (soff + 32 * k) 32 proof) < n.
Proof.
  intros H. apply verify_ok_inv in H. destruct H as [h [sent [hashed [s [A _]]]]].
  exists h. split; [apply (acc_hdr _ _ _ _ _ A)|]. cbv zeta. intros k Hk.
  pose proof (acc_scalars _ _ _ _ _ A) as Hs. cbv zeta in Hs.
  pose proof (parse_scalars_lt _ _ _ Hs k Hk) as Hlt.
  unfold slice. rewrite skipn_skipn' in Hlt. exact Hlt.
Qed.

(* ---- digit commitments *)
Lemma parse_digits_ok cnt : forall i signs xs pts hashed, parse_digits P cnt i signs xs = Some (pts, hashed) ->
  forall k, (k < cnt)%nat ->
    be_val (firstn 32 (skipn (32 * k) xs)) < p /\ x_on_curve P (be_val (firstn 32 (skipn (32 * k) xs))) = true.
Proof.
  induction cnt as [|cnt IH]; intros i signs xs pts hashed H k Hk; [lia|].
  cbn [parse_digits] in H. unfold fe_of_b32 in H.
  destruct (be_val (firstn 32 xs) <? p) eqn:E; [|discriminate]. apply Z.ltb_lt in E.
  unfold x_on_curve, fe_is_square. unfold ge_set_xquad in H.
  destruct (fe_sqrt P (curve_rhs P (be_val (firstn 32 xs)))) as [y ok] eqn:Es.
  destruct ok; cbn [negb] in H; [|discriminate].
  destruct (parse_digits P cnt (i + 1) signs (skipn 32 xs)) as [[pts' hashed']|] eqn:E2; [|discriminate].
  destruct k as [|k].
  - rewrite Nat.mul_0_r. cbn [skipn]. rewrite Es. auto.
  - replace (32 * S k)%nat with (32 + 32 * k)%nat by lia. rewrite <- skipn_skipn'.
    apply (IH _ _ _ _ _ E2). lia.
Qed.

Lemma rejects_x_ge_p_or_offcurve nonce mcap commit proof extra genp v :
  rangeproof_verify_impl P nonce mcap commit proof extra genp = ROk v ->
  exists h, getheader proof = Some h /\
    let rings := Z.of_nat (length (verify_layout (h_mantissa h))) in
    let xoff := (Z.to_nat (h_offset h) + Z.to_nat (Z.shiftr (rings + 6) 3))%nat in
    forall k, (k < Z.to_nat (rings - 1))%nat ->
      be_val (slice (xoff + 32 * k) 32 proof) < p /\ x_on_curve P (be_val (slice (xoff + 32 * k) 32 proof)) = true.
Proof.
  intros H. apply verify_ok_inv in H. destruct H as [h [sent [hashed [s [A _]]]]].
  exists h. split; [apply (acc_hdr _ _ _ _ _ A)|]. cbv zeta. intros k Hk.
  pose proof (acc_digits _ _ _ _ _ A) as Hd. cbv zeta in Hd.
  pose proof (parse_digits_ok _ _ _ _ _ _ Hd k Hk) as Hlt.
  unfold slice. rewrite skipn_skipn' in Hlt. exact Hlt.
Qed.

(* ---- spare sign bits *)
Lemma rejects_spare_sign_bits nonce mcap commit proof extra genp v :
  rangeproof_verify_impl P nonce mcap commit proof extra genp = ROk v ->
  exists h, getheader proof = Some h /\
    let rings := Z.of_nat (length (verify_layout (h_mantissa h))) in
    let nsign := Z.to_nat (Z.shiftr (rings + 6) 3) in
    Z.land (rings - 1) 7 <> 0 ->
    Z.shiftr (nth (Nat.pred nsign) (slice (Z.to_nat (h_offset h)) nsign proof) 0) (Z.land (rings - 1) 7) = 0.
Proof.
  intros H. apply verify_ok_inv in H. destruct H as [h [sent [hashed [s [A _]]]]].
  exists h. split; [apply (acc_hdr _ _ _ _ _ A)|]. exact (acc_spare _ _ _ _ _ A).
Qed.

(* ---- exact length *)
Lemma accepted_length_exact nonce mcap commit proof extra genp v :
  rangeproof_verify_impl P nonce mcap commit proof extra genp = ROk v ->
  exists h, getheader proof = Some h /\ Z.of_nat (length proof) = expected_len h.
Proof.
  intros H. apply verify_ok_inv in H. destruct H as [h [sent [hashed [s [A _]]]]].
  exists h. split; [apply (acc_hdr _ _ _ _ _ A)|].
  pose proof (acc_len _ _ _ _ _ A) as L. cbv zeta in L. unfold expected_len. cbv zeta. lia.
Qed.

(* ---- trailing bytes *)
Lemma slice_app off len (a t : bytes) : (off + len <= length a)%nat -> slice off len (a ++ t) = slice off len a.
Proof.
  intros H. unfold slice. rewrite skipn_app.
  replace (off - length a)%nat with O by lia. cbn [skipn].
  rewrite firstn_app. rewrite skipn_length.
  replace (len - (length a - off))%nat with O by lia. cbn [firstn]. apply app_nil_r.
Qed.

Lemma getheader_app proof t : 65 <= Z.of_nat (length proof) -> getheader (proof ++ t) = getheader proof.
Proof.
  intros H. unfold getheader.
  rewrite !app_nth1 by lia.
  rewrite app_length, Nat2Z.inj_add.
  replace (Z.of_nat (length proof) + Z.of_nat (length t) <? 65) with false by (symmetry; apply Z.ltb_ge; lia).
  replace (Z.of_nat (length proof) <? 65) with false by (symmetry; apply Z.ltb_ge; lia).
  cbn [orb].
  destruct (negb (Z.land (nth 0 proof 0) 128 =? 0)); [reflexivity|].
  destruct (negb (Z.land (nth 0 proof 0) 64 =? 0)).
  - destruct (18 <? Z.land (nth 0 proof 0) 31); [reflexivity|].
    destruct (64 <? nth 1 proof 0 + 1); [reflexivity|].
    destruct (scale_loop _ _ 1) as [[mx sc]|]; [|reflexivity].
    rewrite slice_app by lia.
    replace (Z.of_nat (length proof) + Z.of_nat (length t) - 2 <? 8) with false by (symmetry; apply Z.ltb_ge; lia).
    replace (Z.of_nat (length proof) - 2 <? 8) with false by (symmetry; apply Z.ltb_ge; lia).
    reflexivity.
  - destruct (scale_loop _ _ 1) as [[mx sc]|]; [|reflexivity].
    rewrite slice_app by lia.
    replace (Z.of_nat (length proof) + Z.of_nat (length t) - 1 <? 8) with false by (symmetry; apply Z.ltb_ge; lia).
    replace (Z.of_nat (length proof) - 1 <? 8) with false by (symmetry; apply Z.ltb_ge; lia).
    reflexivity.
Qed.

(* plain verification never runs out of fuel (the only fuel is in the rewind path) *)
Lemma verify_no_fuel mcap commit proof extra genp :
  rangeproof_verify_impl P None mcap commit proof extra genp <> RFuel.
Proof.
  intros H. unfold rangeproof_verify_impl in H. cbv zeta in H.
  repeat match type of H with
  | context[match ?x with _ => _ end] => destruct x; try discriminate
  end.
Qed.

(* an accepted proof followed by ANY extra bytes is rejected *)
Lemma rejects_trailing_bytes commit proof extra genp v t :
  rangeproof_verify_impl P None None commit proof extra genp = ROk v -> t <> [] ->
  rangeproof_verify_impl P None None commit (proof ++ t) extra genp = RFail.
Proof.
  intros H Ht.
  destruct (rangeproof_verify_impl P None None commit (proof ++ t) extra genp) as [v'| |] eqn:E.
  - exfalso.
    apply accepted_length_exact in H. destruct H as [h [Hh Hl]].
    apply accepted_length_exact in E. destruct E as [h' [Hh' Hl']].
    assert (H65 : 65 <= Z.of_nat (length proof)).
    { destruct (Z_lt_ge_dec (Z.of_nat (length proof)) 65) as [Hlt|Hge]; [|lia].
      rewrite getheader_short in Hh by exact Hlt. discriminate. }
    rewrite getheader_app in Hh' by exact H65. rewrite Hh in Hh'. inversion Hh'; subst h'.
    rewrite app_length, Nat2Z.inj_add in Hl'.
    destruct t; [congruence|]. cbn [length] in Hl'. lia.
  - reflexivity.
  - exfalso. exact (verify_no_fuel _ _ _ _ _ E).
Qed.

(* same for truncation: no proper prefix of an accepted proof (of length >= 65) is accepted *)
Lemma rejects_truncated commit proof extra genp v t :
  rangeproof_verify_impl P None None commit (proof ++ t) extra genp = ROk v -> t <> [] ->
  rangeproof_verify_impl P None None commit proof extra genp = RFail.
Proof.
  intros H Ht.
  destruct (rangeproof_verify_impl P None None commit proof extra genp) as [v'| |] eqn:E.
  - exfalso. pose proof (rejects_trailing_bytes _ _ _ _ _ t E Ht) as R. congruence.
  - reflexivity.
  - exfalso. exact (verify_no_fuel _ _ _ _ _ E).
Qed.
End Verify.

(* ================================================================== parameter logic (C09) *)
Lemma exp_loop_spec fuel : forall i v v2 i' v', 0 <= v ->
  exp_loop fuel i v v2 = (i', v') -> i <= i' <= i + Z.of_nat fuel /\ v' = v / 10 ^ (i' - i).
Proof.
  induction fuel as [|f IH]; intros i v v2 i' v' Hv H.
  - cbn [exp_loop] in H. inversion H; subst. rewrite Z.sub_diag, Z.pow_0_r, Z.div_1_r. lia.
  - cbn [exp_loop] in H. destruct (v2 <=? U64MAX / 10).
    + apply IH in H; [|apply Z.div_pos; lia]. destruct H as [H1 H2].
      split; [lia|]. rewrite H2.
      replace (i' - i) with (1 + (i' - (i + 1))) by lia.
      rewrite Z.pow_add_r by lia. rewrite Z.pow_1_r.
      assert (0 < 10 ^ (i' - (i + 1))) by (apply Z.pow_pos_nonneg; lia).
      rewrite Z.div_div by lia. reflexivity.
    + inversion H; subst. rewrite Z.sub_diag, Z.pow_0_r, Z.div_1_r. lia.
Qed.

Lemma sum_nat_map_le {A} (f : A -> nat) (l : list A) :
  (forall x, f x <= 4)%nat -> (sum_nat (map f l) <= 4 * length l)%nat.
Proof. intros Hf. induction l as [|x l IH]; simpl; [lia|]. specialize (Hf x). lia. Qed.

Lemma ring_list_length {A} rings (f : Z -> A) : length (ring_list rings f) = Z.to_nat rings.
Proof. unfold ring_list. rewrite map_length, seq_length. reflexivity. Qed.

Lemma u64_small x : 0 <= x < 2 ^ 64 -> u64 x = x.
Proof. intros. unfold u64. apply Z.mod_small. lia. Qed.

Lemma pow10_le_u64 e : 0 <= e <= 18 -> 0 < 10 ^ e < 2 ^ 64.
Proof.
  intros H. split; [apply Z.pow_pos_nonneg; lia|].
  assert (10 ^ e <= 10 ^ 18) by (apply Z.pow_le_mono_r; lia).
  assert (10 ^ 18 < 2 ^ 64) by reflexivity. lia.
Qed.

Lemma clz64_range x : 0 < x < 2 ^ 64 -> 0 <= clz64 x <= 63.
Proof.
  intros H. unfold clz64. assert (0 <= Z.log2 x) by apply Z.log2_nonneg.
  assert (Z.log2 x < 64) by (apply Z.log2_lt_pow2; lia). lia.
Qed.

(* For ALL 64-bit inputs in the domain sign_impl lets through: what a successful range_proveparams returns *)
Theorem proveparams_sound min_value exp min_bits value pp :
  0 <= min_value <= value -> value <= U64MAX -> -1 <= exp <= 18 -> 0 <= min_bits <= 64 ->
  range_proveparams min_value exp min_bits value = Some pp ->
  (* the decomposition is exact, over the integers (no 64-bit wrap) *)
  pp_v pp * pp_scale pp + pp_min_value pp = value /\
  0 <= pp_v pp /\ min_value <= pp_min_value pp <= value /\
  (* ring layout *)
  1 <= pp_rings pp <= 32 /\ 0 <= pp_npub pp <= 128 /\
  length (pp_rsizes pp) = Z.to_nat (pp_rings pp) /\ length (pp_secidx pp) = Z.to_nat (pp_rings pp) /\
  (* either an exact-value proof, or a real range with 1 <= mantissa <= 64 bits covering v *)
  ((pp_mantissa pp = 0 /\ pp_v pp = 0 /\ pp_scale pp = 1 /\ pp_exp pp = 0 /\ pp_rsizes pp = [1%nat]) \/
   (1 <= pp_mantissa pp <= 64 /\ pp_v pp < 2 ^ pp_mantissa pp /\
    0 <= pp_exp pp <= 18 /\ pp_exp pp <= Z.max 0 exp /\ pp_scale pp = 10 ^ pp_exp pp /\
    pp_rings pp = (pp_mantissa pp + 1) / 2 /\ 0 <= pp_min_bits pp <= min_bits /\ pp_min_bits pp <= pp_mantissa pp)).
Proof.
  intros Hmv Hval Hexp Hmb H. unfold range_proveparams in H. unfold U64MAX in *.
  set (exp1 := if min_value =? 2 ^ 64 - 1 then -1 else exp) in *.
  assert (Hexp1 : -1 <= exp1 <= 18 /\ exp1 <= Z.max (-1) exp) by (unfold exp1; destruct (min_value =? 2 ^ 64 - 1); lia).
  destruct (0 <=? exp1) eqn:Ee.
  2:{ (* exact value *)
    inversion H; subst pp; cbn. repeat split; try lia. left. repeat split; reflexivity. }
  apply Z.leb_le in Ee.
  match type of H with (if ?c then _ else _) = _ => destruct c eqn:Eg; [discriminate|] end.
  set (max_bits := if min_value =? 0 then 64 else clz64 min_value) in *.
  assert (Hmaxb : 0 <= max_bits <= 64).
  { unfold max_bits. destruct (min_value =? 0) eqn:E0; [lia|]. apply Z.eqb_neq in E0.
    pose proof (clz64_range min_value). lia. }
  set (mb := if max_bits <? min_bits then max_bits else min_bits) in *.
  assert (Hmb' : 0 <= mb <= min_bits) by (unfold mb; destruct (max_bits <? min_bits) eqn:E; [apply Z.ltb_lt in E|]; lia).
  set (exp2 := if (61 <? mb) || (INT64MAX <? value) then 0 else exp1) in *.
  assert (Hexp2 : 0 <= exp2 <= 18 /\ exp2 <= exp1) by (unfold exp2; destruct ((61 <? mb) || (INT64MAX <? value)); lia).
  rewrite (u64_small (value - min_value)) in H by lia.
  destruct (exp_loop (Z.to_nat exp2) 0 (value - min_value) _) as [e v] eqn:El.
  apply exp_loop_spec in El; [|lia]. destruct El as [He Hv]. rewrite Z2Nat.id in He by lia. rewrite Z.sub_0_r in Hv.
  pose proof (pow10_le_u64 e ltac:(lia)) as Hp10.
  assert (Hv0 : 0 <= v) by (subst v; apply Z.div_pos; lia).
  assert (Hvle : v * 10 ^ e <= value - min_value).
  { subst v. rewrite Z.mul_comm. apply Z.mul_div_le. lia. }
  assert (Hv64 : v < 2 ^ 64).
  { assert (v <= value - min_value); [|lia]. subst v. apply Z.div_le_upper_bound; nia. }
  rewrite (u64_small (10 ^ e)) in H by lia.
  rewrite (u64_small (v * 10 ^ e)) in H by nia.
  rewrite (u64_small (value - v * 10 ^ e)) in H by nia.
  set (m0 := if v =? 0 then 1 else 64 - clz64 v) in *.
  assert (Hm0 : 1 <= m0 <= 64 /\ v < 2 ^ m0).
  { unfold m0. destruct (v =? 0) eqn:E0.
    - apply Z.eqb_eq in E0. subst v. rewrite E0. split; [lia|reflexivity].
    - apply Z.eqb_neq in E0. pose proof (clz64_range v ltac:(lia)).
      split; [lia|]. unfold clz64. replace (64 - (63 - Z.log2 v)) with (Z.succ (Z.log2 v)) by lia.
      apply Z.log2_spec. lia. }
  set (mant := if m0 <? mb then mb else m0) in *.
  assert (Hmant : 1 <= mant <= 64 /\ m0 <= mant /\ mb <= mant).
  { unfold mant. destruct (m0 <? mb) eqn:E; [apply Z.ltb_lt in E|apply Z.ltb_ge in E]; lia. }
  assert (Hvm : v < 2 ^ mant).
  { assert (2 ^ m0 <= 2 ^ mant) by (apply Z.pow_le_mono_r; lia). lia. }
  set (rings := Z.shiftr (mant + 1) 1) in *.
  assert (Hrings : rings = (mant + 1) / 2) by (unfold rings; rewrite Z.shiftr_div_pow2 by lia; reflexivity).
  assert (Hr : 1 <= rings <= 32) by lia.
  inversion H; subst pp; cbn [pp_v pp_rings pp_rsizes pp_npub pp_secidx pp_min_value pp_mantissa pp_scale pp_exp pp_min_bits].
  rewrite !ring_list_length.
  assert (Hsum : (sum_nat (ring_list rings (ring_size rings mant)) <= 4 * Z.to_nat rings)%nat).
  { unfold ring_list. rewrite <- (seq_length (Z.to_nat rings) 0) at 2. rewrite <- (map_length (fun i => Z.of_nat i)).
    rewrite <- map_map with (g := ring_size rings mant) (f := Z.of_nat).
    apply sum_nat_map_le. intros x. unfold ring_size. destruct ((x <? rings - 1) || Z.even mant); lia. }
  repeat split; try lia.
Qed.

(* range_proveparams fails exactly for the documented-invalid combination *)
Theorem proveparams_fails_iff min_value exp min_bits value :
  range_proveparams min_value exp min_bits value = None <->
  (min_value <> U64MAX /\ 0 <= exp /\
   ((min_value <> 0 /\ INT64MAX < value) \/ (value <> 0 /\ INT64MAX <= min_value))).
Proof.
  unfold range_proveparams.
  destruct (min_value =? U64MAX) eqn:E1.
  - apply Z.eqb_eq in E1. cbn. split; [discriminate|]. intros [H _]. contradiction.
  - apply Z.eqb_neq in E1. destruct (0 <=? exp) eqn:E2.
    + apply Z.leb_le in E2.
      destruct (negb (min_value =? 0) && (INT64MAX <? value) || negb (value =? 0) && (INT64MAX <=? min_value)) eqn:E3.
      * split; [|reflexivity]. intros _. split; [exact E1|]. split; [exact E2|].
        apply orb_true_iff in E3. destruct E3 as [E3|E3]; apply andb_true_iff in E3; destruct E3 as [A B];
          apply negb_true_iff, Z.eqb_neq in A; [left; apply Z.ltb_lt in B|right; apply Z.leb_le in B]; auto.
      * split.
        { destruct (exp_loop _ _ _ _). discriminate. }
        intros [_ [_ [[A B]|[A B]]]]; exfalso; apply orb_false_iff in E3; destruct E3 as [F1 F2].
        { apply Z.eqb_neq in A. apply Z.ltb_lt in B. rewrite A, B in F1. discriminate. }
        { apply Z.eqb_neq in A. apply Z.leb_le in B. rewrite A, B in F2. discriminate. }
    + apply Z.leb_gt in E2. split; [discriminate|]. intros [_ [H _]]. lia.
Qed.

Theorem max_size_bound max_value min_bits :
  0 <= max_value < 2 ^ 64 -> min_bits <= 64 -> 0 <= rangeproof_max_size max_value min_bits <= 5134.
Proof.
  intros Hv Hb. unfold rangeproof_max_size.
  set (vm := if 0 <? max_value then 64 - clz64 max_value else 1).
  assert (Hvm : 1 <= vm <= 64).
  { unfold vm. destruct (0 <? max_value) eqn:E; [|lia]. apply Z.ltb_lt in E.
    pose proof (clz64_range max_value ltac:(lia)). lia. }
  set (m := if vm <? min_bits then min_bits else vm).
  assert (Hm : 1 <= m <= 64) by (unfold m; destruct (vm <? min_bits) eqn:E; [apply Z.ltb_lt in E|]; lia).
  lia.
Qed.

Section Sign.
Variable P : Params.
Notation n := (cn P).

(* outside the documented domain sign_impl returns 0 before doing anything *)
Theorem sign_param_gate plen min_value commit blind nonce exp min_bits value message extra genp :
  plen < 65 \/ value < min_value \/ 64 < min_bits \/ min_bits < 0 \/ exp < -1 \/ 18 < exp ->
  rangeproof_sign_impl P plen min_value commit blind nonce exp min_bits value message extra genp = RFail.
Proof.
  intros H. unfold rangeproof_sign_impl.
  replace ((plen <? 65) || (value <? min_value) || (64 <? min_bits) || (min_bits <? 0) || (exp <? -1) || (18 <? exp))
    with true; [reflexivity|].
  symmetry. repeat rewrite orb_true_iff. repeat rewrite Z.ltb_lt. tauto.
Qed.

(* a blinding factor >= n never yields a proof *)
Theorem sign_rejects_blind_overflow plen min_value commit blind nonce exp min_bits value message extra genp proof :
  n <= be_val blind ->
  rangeproof_sign_impl P plen min_value commit blind nonce exp min_bits value message extra genp <> ROk proof.
Proof.
  intros Hov H. unfold rangeproof_sign_impl in H.
  assert (E : sc_of_b32 P blind = (be_val blind mod n, true)).
  { unfold sc_of_b32. apply Z.leb_le in Hov. rewrite Hov. reflexivity. }
  destruct (sc_of_b32 P blind) as [stmp ov] eqn:E'. inversion E; subst stmp ov. clear E.
  cbv zeta in H. cbn [orb] in H.
  repeat match type of H with
  | context[match ?x with _ => _ end] => destruct x; try discriminate
  end.
Qed.

(* a message longer than 128*(rings-1) bytes, or a buffer shorter than the need, never yields a proof *)
Theorem sign_result_length plen min_value commit blind nonce exp min_bits value message extra genp proof :
  rangeproof_sign_impl P plen min_value commit blind nonce exp min_bits value message extra genp = ROk proof ->
  exists pp, range_proveparams min_value exp min_bits value = Some pp /\
    Z.of_nat (length (match message with Some m => m | None => [] end)) <= Z.max 0 (128 * (pp_rings pp - 1)) /\
    Z.of_nat (length (header_bytes pp)) + 32 * (pp_npub pp + pp_rings pp - 1) + 32 + Z.shiftr (pp_rings pp + 6) 3 <= plen.
Proof.
  intros H. unfold rangeproof_sign_impl in H.
  match type of H with (if ?c then _ else _) = _ => destruct c; [discriminate|] end.
  destruct (range_proveparams min_value exp min_bits value) as [pp|]; [|discriminate].
  exists pp. split; [reflexivity|]. cbv zeta in H.
  match type of H with (if ?c then _ else _) = _ => destruct c eqn:E1; [discriminate|] end.
  match type of H with (if ?c then _ else _) = _ => destruct c eqn:E2; [discriminate|] end.
  apply Z.ltb_ge in E2. split; [|lia].
  pose proof (Z.le_max_l 0 (128 * (pp_rings pp - 1))) as M1. pose proof (Z.le_max_r 0 (128 * (pp_rings pp - 1))) as M2.
  apply andb_false_iff in E1. destruct E1 as [E1|E1]; apply Z.ltb_ge in E1.
  - eapply Z.le_trans; [exact E1|exact M1].
  - eapply Z.le_trans; [exact E1|exact M2].
Qed.
End Sign.
